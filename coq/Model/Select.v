(** Select.v — executable model of the uplink scheduler:
      crates/srtla-core/src/selection/mod.rs      (select_connection_idx, apply_stall_gate)
      crates/srtla-core/src/selection/classic.rs  (select_connection)
      crates/srtla-core/src/selection/enhanced.rs (select_connection, in_flight_cap_packets,
                                                   in_flight_cap_exceeded, cc_soft_cap_multiplier)
      crates/srtla-core/src/selection/quality.rs  (calculate_quality_multiplier, RTT bonus)
      crates/srtla-core/src/connection/mod.rs     (get_score, is_timed_out, is_stalled,
                                                   update_stall_latch, update_silence_pull,
                                                   effective_stall_stale_ms, silence_pull_window_ms,
                                                   get_cached_quality_multiplier, LinkPhase)
    written statement by statement as the Rust code is.  Integers are [Z] with the Rust
    width written in where it matters (saturating u64/i32 ops); every f64 value is a Coq
    primitive float (binary64, bit-exact).  libm [exp] is not modelled: its result is an
    input ([e], one per link) observed from the real run.  No proofs in this file. *)
From Coq Require Import Floats Uint63.
From Srtla Require Import Base Constants FConstants.
Local Open Scope Z_scope.

(** ---- Rust f64 primitives ------------------------------------------------------- *)

(** [a.max(b)] / [a.min(b)]: a NaN operand is ignored. *)
Definition f64_max (a b : float) : float :=
  if PrimFloat.is_nan a then b else if PrimFloat.is_nan b then a
  else if (a <? b)%float then b else a.
Definition f64_min (a b : float) : float :=
  if PrimFloat.is_nan a then b else if PrimFloat.is_nan b then a
  else if (b <? a)%float then b else a.
(** [x.clamp(lo, hi)] (NaN stays NaN). *)
Definition f64_clamp (lo hi x : float) : float :=
  if (x <? lo)%float then lo else if (hi <? x)%float then hi else x.
Definition f64_is_finite (x : float) : bool :=
  negb (PrimFloat.is_nan x) && negb (PrimFloat.is_infinity x).

(** truncation toward zero of a finite float, as an integer *)
Definition f64_trunc_Z (x : float) : option Z :=
  match Prim2SF x with
  | S754_zero _ => Some 0
  | S754_finite s m e => Some (if s then - Z.shiftl (Zpos m) e else Z.shiftl (Zpos m) e)
  | _ => None
  end.
(** [x as u64] / [x as i32]: truncating, saturating, NaN -> 0. *)
Definition f64_as_u64 (x : float) : Z :=
  match Prim2SF x with
  | S754_nan => 0
  | S754_infinity s => if s then 0 else u64_max
  | _ => match f64_trunc_Z x with Some n => sat_u64 n | None => 0 end
  end.
Definition f64_as_i32 (x : float) : Z :=
  match Prim2SF x with
  | S754_nan => 0
  | S754_infinity s => if s then i32_min else i32_max
  | _ => match f64_trunc_Z x with Some n => sat_i32 n | None => 0 end
  end.

(** [n as f64] for [0 <= n < 2^63] (round to nearest even, exact below 2^53). *)
Definition f64_of_nat63 (n : Z) : float := of_uint63 (Uint63.of_Z n).
(** [n as f64] for an i32. *)
Definition f64_of_i32 (n : Z) : float :=
  if n <? 0 then (- f64_of_nat63 (- n))%float else f64_of_nat63 n.
(** [n as f64] for a u64: above 2^63 halve with a sticky low bit (the rounding position of
    a 64-bit integer is bit 10, so bit 0 only ever acts as a sticky bit), then double. *)
Definition f64_of_u64 (n : Z) : float :=
  if n <? 9223372036854775808 then f64_of_nat63 n
  else (f64_of_nat63 (Z.lor (n / 2) (n mod 2)) * 2)%float.

(** [x.floor()] *)
Definition f64_floor (x : float) : float :=
  match Prim2SF x with
  | S754_finite s m e =>
      if 0 <=? e then x
      else let n := Z.shiftl (if s then Zneg m else Zpos m) e in   (* floor division *)
           if n <? 0 then (- f64_of_nat63 (- n))%float else f64_of_nat63 n
  | _ => x
  end.

(** ---- the link record (the fields selection reads or writes) ---------------------- *)
Inductive phase := PReg | PWarm | PLive | PDeg.   (* Registering | Warming{..} | Live | Degraded *)

Record link := Lk {
  l_conn : bool;              (* connected *)
  l_phase : phase;            (* phase *)
  l_window : Z;               (* window : i32 *)
  l_inflight : Z;             (* in_flight_packets : i32 *)
  l_queued : Z;               (* batch_sender.queued_count() *)
  l_lastrx : option Z;        (* last_received *)
  l_proof : Z;                (* last_ack_or_rtt_sample_ms, 0 = none *)
  l_est : Z;                  (* reconnection.connection_established_ms *)
  l_grace : Z;                (* reconnection.startup_grace_deadline_ms *)
  l_weak : bool;              (* weak *)
  l_lossdeg : bool;           (* loss_degraded *)
  l_cct : Z;                  (* cc_target_bps : u64 *)
  l_bps : float;              (* bitrate.current_bitrate_bps *)
  l_srtt : float;             (* rtt.kalman_rtt.value() (raw x) *)
  l_rttmin : float;           (* rtt.rtt_min_ms *)
  l_nakcnt : Z;               (* congestion.nak_count *)
  l_naklast : Z;              (* congestion.last_nak_time_ms, 0 = never *)
  l_nakburst : Z;             (* congestion.nak_burst_count *)
  (* written by select_connection_idx: *)
  l_timeout : Z;              (* conn_timeout_ms *)
  l_gated : bool;             (* stall_gated *)
  l_pulled : bool;            (* silence_pulled *)
  l_pulls : Z;                (* silence_pulls *)
  l_latched : Z;              (* stall_latched_since_ms, 0 = not latched *)
  l_recov : Z;                (* stall_recovery_since_ms *)
  l_gevents : Z;              (* stall_gate_events *)
  l_qmult : float;            (* quality_cache.multiplier *)
  l_qlast : Z                 (* quality_cache.last_calculated_ms *)
}.

Arguments Lk _ _ _%Z _%Z _%Z _ _%Z _%Z _%Z _ _ _%Z _%float _%float _%float _%Z _%Z _%Z _%Z _ _ _%Z _%Z _%Z _%Z _%float _%Z.

(** the fields [select_connection_idx] may write *)
Record hid := Hd {
  h_timeout : Z; h_gated : bool; h_pulled : bool; h_pulls : Z; h_latched : Z;
  h_recov : Z; h_gevents : Z; h_qmult : float; h_qlast : Z }.
Arguments Hd _%Z _ _ _%Z _%Z _%Z _%Z _%float _%Z.

Definition hid_of (c : link) : hid :=
  Hd (l_timeout c) (l_gated c) (l_pulled c) (l_pulls c) (l_latched c) (l_recov c)
     (l_gevents c) (l_qmult c) (l_qlast c).
Definition set_hid (c : link) (h : hid) : link :=
  Lk (l_conn c) (l_phase c) (l_window c) (l_inflight c) (l_queued c) (l_lastrx c) (l_proof c)
     (l_est c) (l_grace c) (l_weak c) (l_lossdeg c) (l_cct c) (l_bps c) (l_srtt c) (l_rttmin c)
     (l_nakcnt c) (l_naklast c) (l_nakburst c)
     (h_timeout h) (h_gated h) (h_pulled h) (h_pulls h) (h_latched h) (h_recov h)
     (h_gevents h) (h_qmult h) (h_qlast h).

Inductive mode := Classic | Enhanced.
Record config := Cfg {
  c_mode : mode; c_quality : bool; c_stall : bool;
  c_minif : Z;        (* stall_min_in_flight : i32 *)
  c_stale : Z;        (* stall_ack_stale_ms : u64 *)
  c_timeout : Z       (* conn_timeout_ms : u64 *)
}.

(** single-field updates of the written part *)
Definition upd_hid (c : link) (f : hid -> hid) : link := set_hid c (f (hid_of c)).
Definition h_set_timeout (v : Z) (h : hid) := Hd v (h_gated h) (h_pulled h) (h_pulls h) (h_latched h) (h_recov h) (h_gevents h) (h_qmult h) (h_qlast h).
Definition h_set_gated (v : bool) (h : hid) := Hd (h_timeout h) v (h_pulled h) (h_pulls h) (h_latched h) (h_recov h) (h_gevents h) (h_qmult h) (h_qlast h).
Definition h_set_pulled (v : bool) (h : hid) := Hd (h_timeout h) (h_gated h) v (h_pulls h) (h_latched h) (h_recov h) (h_gevents h) (h_qmult h) (h_qlast h).
Definition h_set_pulls (v : Z) (h : hid) := Hd (h_timeout h) (h_gated h) (h_pulled h) v (h_latched h) (h_recov h) (h_gevents h) (h_qmult h) (h_qlast h).
Definition h_set_latched (v : Z) (h : hid) := Hd (h_timeout h) (h_gated h) (h_pulled h) (h_pulls h) v (h_recov h) (h_gevents h) (h_qmult h) (h_qlast h).
Definition h_set_recov (v : Z) (h : hid) := Hd (h_timeout h) (h_gated h) (h_pulled h) (h_pulls h) (h_latched h) v (h_gevents h) (h_qmult h) (h_qlast h).
Definition h_set_gevents (v : Z) (h : hid) := Hd (h_timeout h) (h_gated h) (h_pulled h) (h_pulls h) (h_latched h) (h_recov h) v (h_qmult h) (h_qlast h).
Definition h_set_q (m : float) (t : Z) (h : hid) := Hd (h_timeout h) (h_gated h) (h_pulled h) (h_pulls h) (h_latched h) (h_recov h) (h_gevents h) m t.

(** ---- connection/mod.rs ------------------------------------------------------------ *)

(** [LinkPhase::is_schedulable] / [LinkPhase::weight] (0.0 | 0.8 | 1.0 are bare literals). *)
Definition is_schedulable (c : link) : bool :=
  match l_phase c with PReg => false | _ => true end.
Definition WARMING_WEIGHT : float := 0x1.999999999999ap-1%float.   (* 0.8 *)
Definition phase_weight (c : link) : float :=
  match l_phase c with PReg => 0%float | PWarm => WARMING_WEIGHT | _ => 1%float end.

(** [get_score]: -1 when not connected, else window / max(1, in_flight + queued + 1)
    with saturating i32 adds; Rust [/] truncates toward zero. *)
Definition get_score (c : link) : Z :=
  if negb (l_conn c) then -1
  else let total := sat_add_i32 (l_inflight c) (l_queued c) in
       let denom := Z.max (sat_add_i32 total 1) 1 in
       Z.quot (l_window c) denom.

(** [is_timed_out] *)
Definition is_timed_out (c : link) (now : Z) : bool :=
  if negb (l_conn c) then
    if (l_est c =? 0) && (now <? l_grace c) then false
    else match l_lastrx c with
         | None => true
         | Some lr => l_timeout c <=? ssub now lr
         end
  else match l_lastrx c with
       | Some lr => l_timeout c <=? ssub now lr
       | None => false
       end.

(** [get_smooth_rtt_ms] = kalman value [.max(0.0)] *)
Definition smooth_rtt (c : link) : float := f64_max (l_srtt c) 0%float.

(** [effective_stall_stale_ms] *)
Definition eff_stale (c : link) (ceiling : Z) : Z :=
  let srtt := smooth_rtt c in
  if (srtt <=? 0)%float then ceiling
  else Z.min (Z.max (sat_mul_u64 (f64_as_u64 srtt) STALL_STALE_RTT_MULT) STALL_STALE_FLOOR_MS) ceiling.

(** [is_stalled] *)
Definition is_stalled (c : link) (now minif ceiling : Z) : bool :=
  l_conn c && (minif <=? l_inflight c) && negb (l_proof c =? 0) &&
  (eff_stale c ceiling <=? ssub now (l_proof c)).

(** [silence_pull_window_ms] *)
Definition pull_window (c : link) (ceiling : Z) : Z :=
  let srtt := smooth_rtt c in
  let base := if (srtt <=? 0)%float then SILENCE_PULL_FLOOR_MS
              else Z.max (sat_mul_u64 (f64_as_u64 srtt) SILENCE_PULL_RTT_MULT) SILENCE_PULL_FLOOR_MS in
  Z.min base (eff_stale c ceiling).

(** [is_briefly_silent] *)
Definition is_briefly_silent (c : link) (now minif ceiling : Z) : bool :=
  if negb (l_conn c) || (l_inflight c <? minif) then false
  else match l_lastrx c with
       | None => false
       | Some lr => pull_window c ceiling <=? ssub now lr
       end.

(** [update_silence_pull] *)
Definition update_silence_pull (c : link) (now minif ceiling : Z) : link :=
  if is_briefly_silent c now minif ceiling then
    let c1 := if negb (l_pulled c) then upd_hid c (h_set_pulls (l_pulls c + 1)) else c in
    upd_hid c1 (h_set_pulled true)
  else if negb (l_pulled c) then c
  else
    let window := pull_window c ceiling in
    let spoke := match l_lastrx c with Some lr => ssub now lr <? window | None => false end in
    if spoke || negb (l_conn c) then upd_hid c (h_set_pulled false) else c.

(** [update_stall_latch] *)
Definition update_stall_latch (c : link) (now minif ceiling : Z) : link :=
  let proof_fully_stale :=
    negb (l_proof c =? 0) && (eff_stale c ceiling <=? ssub now (l_proof c)) in
  if is_stalled c now minif ceiling || (l_pulled c && proof_fully_stale) then
    let c1 := if l_latched c =? 0
              then upd_hid (upd_hid c (h_set_latched now)) (h_set_gevents (l_gevents c + 1))
              else c in
    upd_hid c1 (h_set_recov 0)
  else if l_latched c =? 0 then c
  else
    let stale_ms := eff_stale c ceiling in
    let proof_fresh := negb (l_proof c =? 0) && (ssub now (l_proof c) <? stale_ms) in
    if negb proof_fresh then upd_hid c (h_set_recov 0)
    else
      let c1 := if l_recov c =? 0 then upd_hid c (h_set_recov now) else c in
      let dwell := sat_mul_u64 stale_ms STALL_REJOIN_DWELL_MULT in
      if dwell <=? ssub now (l_recov c1)
      then upd_hid (upd_hid c1 (h_set_latched 0)) (h_set_recov 0)
      else c1.

Definition stall_latched (c : link) : bool := negb (l_latched c =? 0).
Definition clear_stall_latch (c : link) : link :=
  upd_hid (upd_hid c (h_set_latched 0)) (h_set_recov 0).

(** ---- selection/mod.rs: apply_stall_gate --------------------------------------------- *)
Definition healthy (now : Z) (c : link) : bool :=
  l_conn c && negb (is_timed_out c now) && is_schedulable c && negb (stall_latched c) && negb (l_pulled c).

Definition apply_stall_gate (ls : list link) (now : Z) (cfg : config) : list link :=
  let ls1 := map (fun c => upd_hid c (h_set_timeout (c_timeout cfg))) ls in
  if negb (c_stall cfg) then
    map (fun c => clear_stall_latch (upd_hid (upd_hid c (h_set_gated false)) (h_set_pulled false))) ls1
  else
    let ls2 := map (fun c => update_stall_latch
                               (update_silence_pull c now (c_minif cfg) (c_stale cfg))
                               now (c_minif cfg) (c_stale cfg)) ls1 in
    let any_healthy := existsb (healthy now) ls2 in
    map (fun c => upd_hid c (h_set_gated (any_healthy && (stall_latched c || l_pulled c)))) ls2.

(** the hard-skip test shared by both selectors *)
Definition skipped (now : Z) (c : link) : bool :=
  is_timed_out c now || negb (is_schedulable c) || l_gated c.

(** ---- selection/classic.rs ------------------------------------------------------------ *)
Fixpoint classic_loop (ls : list link) (now : Z) (i : nat) (best_idx : option nat) (best_score : Z)
  : option nat :=
  match ls with
  | [] => best_idx
  | c :: t =>
      if skipped now c then classic_loop t now (S i) best_idx best_score
      else let score := get_score c in
           if best_score <? score then classic_loop t now (S i) (Some i) score
           else classic_loop t now (S i) best_idx best_score
  end.
Definition classic_select (ls : list link) (now : Z) : option nat :=
  classic_loop ls now 0%nat None (-1).

(** ---- selection/enhanced.rs ----------------------------------------------------------- *)
(** [in_flight_cap_packets] *)
Definition in_flight_cap_packets (cct : Z) (rtt_min : float) : option Z :=
  if cct =? 0 then None
  else
    let rtt_ms := if f64_is_finite rtt_min && (0 <? rtt_min)%float then rtt_min else 1%float in
    let bdp_bytes := (f64_of_u64 cct * (rtt_ms / 1000) / 8 * IN_FLIGHT_CAP_BDP_MULT)%float in
    let cap := f64_max (f64_floor (bdp_bytes / f64_of_nat63 ASSUMED_SRT_PAYLOAD_BYTES)%float) 1%float in
    Some (f64_as_i32 (f64_min cap (f64_of_nat63 i32_max))).

Definition in_flight_cap_exceeded (c : link) : bool :=
  match in_flight_cap_packets (l_cct c) (l_rttmin c) with
  | Some cap => cap <? l_inflight c
  | None => false
  end.

(** [cc_soft_cap_multiplier] *)
Definition cc_soft_cap_multiplier (c : link) : float :=
  if l_cct c =? 0 then 1%float
  else if (l_bps c <=? 0)%float then 1%float
  else let cap_f := f64_of_u64 (l_cct c) in
       let headroom := f64_max (cap_f - l_bps c)%float 0%float in
       f64_clamp CC_SOFT_CAP_FLOOR 1%float (headroom / cap_f)%float.

(** ---- selection/quality.rs ------------------------------------------------------------ *)
(** [calculate_rtt_bonus] *)
Definition rtt_bonus (c : link) : float :=
  let s := smooth_rtt c in
  if (s <=? 0)%float then 1%float
  else f64_max (f64_min (RTT_BONUS_THRESHOLD_MS / f64_max s MIN_RTT_MS)%float MAX_RTT_BONUS) 1%float.

Definition time_since_last_nak (c : link) (now : Z) : option Z :=
  if l_naklast c =? 0 then None else Some (ssub now (l_naklast c)).

(** [calculate_quality_multiplier]; [e] stands for [(-(nak_age_ms as f64) / HALF_LIFE_MS).exp()]. *)
Definition calc_quality (c : link) (now : Z) (e : float) : float :=
  let age := ssub now (l_est c) in
  if age <? STARTUP_GRACE_PERIOD_MS then
    (if l_nakcnt c =? 0 then PERFECT_CONNECTION_BONUS else STARTUP_NAK_PENALTY)
  else
    let qm :=
      match time_since_last_nak c now with
      | Some nak_age =>
          let penalty := (MAX_PENALTY * e)%float in
          let mult := (1 - penalty)%float in
          if (NAK_BURST_THRESHOLD <=? l_nakburst c) && (nak_age <? NAK_BURST_MAX_AGE_MS)
          then (mult * NAK_BURST_PENALTY)%float else mult
      | None => if l_nakcnt c =? 0 then PERFECT_CONNECTION_BONUS else 1%float
      end in
    (qm * rtt_bonus c)%float.

(** the argument of [exp] for link [c] at [now] (what the harness feeds libm), if it is evaluated *)
Definition exp_arg (c : link) (now : Z) : option float :=
  match time_since_last_nak c now with
  | Some nak_age => Some (- f64_of_u64 nak_age / HALF_LIFE_MS)%float
  | None => None
  end.

(** [get_cached_quality_multiplier] *)
Definition cached_quality (c : link) (now : Z) (e : float) : float * link :=
  if QUALITY_CACHE_INTERVAL_MS <=? ssub now (l_qlast c)
  then let q := calc_quality c now e in (q, upd_hid c (h_set_q q now))
  else (l_qmult c, c).

Definition unconstrained (now : Z) (c : link) : bool :=
  l_conn c && negb (is_timed_out c now) && is_schedulable c && negb (l_weak c) && negb (l_lossdeg c) &&
  negb (l_gated c) && negb (in_flight_cap_exceeded c).

(** one iteration of the scoring loop for link [c]: [None] = [continue] *)
Definition score_link (au quality : bool) (now : Z) (e : float) (c : link) : option (float * link) :=
  if skipped now c then None
  else if au && in_flight_cap_exceeded c then None
  else
    let gate_mult := if au && (l_weak c || l_lossdeg c) then GATED_LINK_PENALTY else 1%float in
    let base := (f64_of_i32 (get_score c) * phase_weight c)%float in
    let cap_mult := cc_soft_cap_multiplier c in
    if negb quality then Some ((base * cap_mult * gate_mult)%float, c)
    else let '(q, c') := cached_quality c now e in
         Some ((base * q * cap_mult * gate_mult)%float, c').

Record eacc := EA { ea_best : option nat; ea_score : float; ea_cur : option float }.

Definition onat_eqb (a b : option nat) : bool :=
  match a, b with Some x, Some y => Nat.eqb x y | None, None => true | _, _ => false end.

Fixpoint enh_loop (ls : list link) (exps : list float) (au quality : bool) (last : option nat)
         (now : Z) (i : nat) (a : eacc) : eacc * list link :=
  match ls with
  | [] => (a, [])
  | c :: t =>
      let e := hd 1%float exps in
      match score_link au quality now e c with
      | None => let '(a', t') := enh_loop t (tl exps) au quality last now (S i) a in (a', c :: t')
      | Some (score, c') =>
          let cur := if onat_eqb (Some i) last then Some score else ea_cur a in
          let a1 := if (ea_score a <? score)%float then EA (Some i) score cur
                    else EA (ea_best a) (ea_score a) cur in
          let '(a', t') := enh_loop t (tl exps) au quality last now (S i) a1 in (a', c' :: t')
      end
  end.

Definition enhanced_select (ls : list link) (last : option nat) (now : Z) (quality : bool)
           (exps : list float) : option nat * list link :=
  let au := existsb (unconstrained now) ls in
  let '(a, ls') := enh_loop ls exps au quality last now 0%nat (EA None (-1)%float None) in
  let res :=
    match last with
    | Some l =>
        if negb (onat_eqb (ea_best a) (Some l)) then
          match ea_cur a with
          | Some cur => if (ea_score a <? cur * SWITCH_THRESHOLD)%float then Some l else ea_best a
          | None => ea_best a
          end
        else ea_best a
    | None => ea_best a
    end in
  (res, ls').

(** ---- select_connection_idx ------------------------------------------------------------- *)
Definition select (ls : list link) (last : option nat) (now : Z) (cfg : config) (exps : list float)
  : option nat * list link :=
  let ls1 := apply_stall_gate ls now cfg in
  match c_mode cfg with
  | Classic => (classic_select ls1 now, ls1)
  | Enhanced => enhanced_select ls1 last now
                  (c_quality cfg && match c_mode cfg with Classic => false | _ => true end) exps
  end.
