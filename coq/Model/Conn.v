(** Conn.v — integer model of the per-link accounting of srtla-core
    (connection/ack_nak.rs, connection/congestion/{mod,classic,enhanced}.rs, the
    resets of connection/mod.rs) and of the shell's event fan-out
    (process_connection_events / attribute_nak in src/sender/packet_handler.rs,
    SequenceTracker in src/sender/sequence.rs).  Definitions only. *)
From Srtla Require Import Base Constants.

Record cong := {
  nak_count : Z; last_nak : Z; last_incr : Z; consec : Z;
  fast : bool; fast_start : Z; burst : Z; burst_start : Z }.

Definition cong0 : cong :=
  {| nak_count := 0; last_nak := 0; last_incr := 0; consec := 0;
     fast := false; fast_start := 0; burst := 0; burst_start := 0 |}.

Record link := {
  cid : Z; connected : bool; window : Z; in_flight : Z;
  log : list (Z * Z);            (* seq |-> send time; keys distinct *)
  hwm : Z;                       (* highest_acked_seq *)
  last_recv : option Z;
  proof : Z;                     (* last_ack_or_rtt_sample_ms *)
  cg : cong;
  ovf : bool                     (* an unchecked i32 operation overflowed (Rust debug panic) *)
}.

Definition WINDOW_DEFAULT : Z := WINDOW_DEF * WINDOW_MULT.
Definition WINDOW_FLOOR : Z := WINDOW_MIN * WINDOW_MULT.
Definition WINDOW_CEIL : Z := WINDOW_MAX * WINDOW_MULT.

Definition link0 (id : Z) : link :=
  {| cid := id; connected := false; window := WINDOW_DEFAULT; in_flight := 0; log := []; hwm := i32_min;
     last_recv := None; proof := 0; cg := cong0; ovf := false |}.

Definition i32_ovf (x : Z) : bool := (x <? i32_min) || (i32_max <? x).

(** ---- congestion/mod.rs ---- *)
Definition cong_nak (c : cong) (w now : Z) : cong * Z * bool :=
  let nc := sat_add_i32 (nak_count c) 1 in
  let tsl := ssub now (last_nak c) in
  let '(b, bs) :=
    if (0 <? last_nak c) && (tsl <? NAK_BURST_WINDOW_MS) then
      if burst c =? 0 then (2, last_nak c) else (sat_add_i32 (burst c) 1, burst_start c)
    else (0, 0) in
  let w' := Z.max (w - WINDOW_DECR) WINDOW_FLOOR in
  let enter := (w' <=? FAST_RECOVERY_ENTER_WINDOW) && negb (fast c) in
  ({| nak_count := nc; last_nak := now; last_incr := last_incr c; consec := 0;
      fast := if enter then true else fast c;
      fast_start := if enter then now else fast_start c;
      burst := b; burst_start := bs |}, w', i32_ovf (w - WINDOW_DECR)).

(** classic::handle_srtla_ack_specific *)
Definition ack_classic (w inflight : Z) : Z * bool :=
  if w <? sat_mul_i32 inflight WINDOW_MULT
  then (Z.min (w + WINDOW_INCR - 1) WINDOW_CEIL, i32_ovf (w + WINDOW_INCR))
  else (w, false).

(** enhanced::handle_srtla_ack *)
Definition ack_enhanced (c : cong) (w inflight : Z) : cong * Z * bool :=
  let '(w', o) := ack_classic w inflight in
  let leave := fast c && (FAST_RECOVERY_DISABLE_WINDOW <=? w') in
  ({| nak_count := nak_count c; last_nak := last_nak c; last_incr := last_incr c; consec := consec c;
      fast := if leave then false else fast c; fast_start := fast_start c;
      burst := burst c; burst_start := burst_start c |}, w', o).

(** enhanced::perform_window_recovery; [vel_hi] = (rtt_velocity > 2.0) *)
Definition recovery (c : cong) (w : Z) (conn : bool) (now : Z) (vel_hi : bool) : cong * Z * bool :=
  if negb conn || (WINDOW_CEIL <=? w) then (c, w, false) else
  let never := negb (0 <? last_nak c) in
  let tsl := if never then u64_max else ssub now (last_nak c) in
  let clear := (NAK_BURST_WINDOW_MS <=? tsl) && (0 <? burst c) in
  let b := if clear then 0 else burst c in
  let bs := if clear then 0 else burst_start c in
  let min_wait := if fast c then FAST_MIN_WAIT_MS else NORMAL_MIN_WAIT_MS in
  let inc_wait := if fast c then FAST_INCREMENT_WAIT_MS else NORMAL_INCREMENT_WAIT_MS in
  if (min_wait <? tsl) && (inc_wait <? ssub now (last_incr c)) then
    let bonus := if fast c then 2 else 1 in
    let base :=
      if 10000 <? tsl then WINDOW_INCR * 2 * bonus
      else if 7000 <? tsl then WINDOW_INCR * bonus
      else if 5000 <? tsl then Z.quot (WINDOW_INCR * bonus) 2
      else Z.quot (WINDOW_INCR * bonus) 4 in
    let incr := if vel_hi then Z.quot base 2 else base in   (* (base as f64 * 0.5) as i32 *)
    let w1 := w + incr in
    let w' := Z.min w1 WINDOW_CEIL in
    let leave := fast c && (FAST_RECOVERY_DISABLE_WINDOW <=? w') in
    ({| nak_count := nak_count c; last_nak := last_nak c; last_incr := now; consec := consec c;
        fast := if leave then false else fast c; fast_start := fast_start c;
        burst := b; burst_start := bs |}, w', i32_ovf w1)
  else
    ({| nak_count := nak_count c; last_nak := last_nak c; last_incr := last_incr c; consec := consec c;
        fast := fast c; fast_start := fast_start c; burst := b; burst_start := bs |}, w, false).

(** ---- packet log (FxHashMap<i32,u64>) as an association list ---- *)
Fixpoint log_remove (k : Z) (l : list (Z * Z)) : list (Z * Z) :=
  match l with
  | [] => []
  | (k', v) :: t => if k' =? k then log_remove k t else (k', v) :: log_remove k t
  end.
Definition log_mem (k : Z) (l : list (Z * Z)) : bool := existsb (fun p => fst p =? k) l.
Definition log_insert (k v : Z) (l : list (Z * Z)) : list (Z * Z) := (k, v) :: log_remove k l.

Definition set_log (c : link) (l : list (Z * Z)) : link :=
  {| cid := cid c; connected := connected c; window := window c; in_flight := blen l; log := l;
     hwm := hwm c; last_recv := last_recv c; proof := proof c; cg := cg c; ovf := ovf c |}.

(** ack_nak.rs *)
Definition register_packet (c : link) (seq t : Z) : link :=
  let h := if seq <=? hwm c then Z.max i32_min (seq - 1) else hwm c in   (* saturating_sub(1) *)
  let l := log_insert seq t (log c) in
  {| cid := cid c; connected := connected c; window := window c; in_flight := blen l; log := l;
     hwm := h; last_recv := last_recv c; proof := proof c; cg := cg c; ovf := ovf c |}.

Definition handle_srt_ack (c : link) (ack : Z) : link :=
  if ack <=? hwm c then c else
  let old := hwm c in
  let range := Z.abs (ack - old) in
  let l' :=
    if (range <=? ACK_FAST_PATH_RANGE) && negb (old =? i32_min)
    then filter (fun p => negb ((old <? fst p) && (fst p <=? ack))) (log c)    (* targeted removal of old+1..=ack *)
    else filter (fun p => ack <? fst p) (log c) in                              (* retain(seq > ack) *)
  {| cid := cid c; connected := connected c; window := window c; in_flight := blen l'; log := l';
     hwm := ack; last_recv := last_recv c; proof := proof c; cg := cg c; ovf := ovf c |}.

Definition handle_nak (c : link) (seq now : Z) : link * bool :=
  if log_mem seq (log c) then
    let l' := log_remove seq (log c) in
    let '(g, w, o) := cong_nak (cg c) (window c) now in
    ({| cid := cid c; connected := connected c; window := w; in_flight := blen l'; log := l';
        hwm := hwm c; last_recv := last_recv c; proof := proof c; cg := g; ovf := ovf c || o |}, true)
  else (c, false).

Definition handle_srtla_ack_specific (c : link) (seq : Z) (classic : bool) (now : Z) : link * bool :=
  if log_mem seq (log c) then
    let l' := log_remove seq (log c) in
    let inf := blen l' in
    let '(g, w, o) :=
      if classic then let '(w, o) := ack_classic (window c) inf in (cg c, w, o)
      else ack_enhanced (cg c) (window c) inf in
    ({| cid := cid c; connected := connected c; window := w; in_flight := inf; log := l';
        hwm := hwm c; last_recv := last_recv c; proof := now; cg := g; ovf := ovf c || o |}, true)
  else (c, false).

Definition handle_srtla_ack_global (c : link) : link :=
  if connected c && (match last_recv c with Some _ => true | None => false end) then
    {| cid := cid c; connected := connected c; window := Z.min (window c + 1) WINDOW_CEIL;
       in_flight := in_flight c; log := log c; hwm := hwm c; last_recv := last_recv c;
       proof := proof c; cg := cg c; ovf := ovf c || i32_ovf (window c + 1) |}
  else c.

Definition perform_window_recovery (c : link) (now : Z) (vel_hi : bool) : link :=
  let '(g, w, o) := recovery (cg c) (window c) (connected c) now vel_hi in
  {| cid := cid c; connected := connected c; window := w; in_flight := in_flight c; log := log c;
     hwm := hwm c; last_recv := last_recv c; proof := proof c; cg := g; ovf := ovf c || o |}.

(** direct CongestionControl calls with an arbitrary in-flight argument *)
Definition cc_ack (c : link) (classic : bool) (inf : Z) : link :=
  let '(g, w, o) :=
    if classic then let '(w, o) := ack_classic (window c) inf in (cg c, w, o)
    else ack_enhanced (cg c) (window c) inf in
  {| cid := cid c; connected := connected c; window := w; in_flight := in_flight c; log := log c;
     hwm := hwm c; last_recv := last_recv c; proof := proof c; cg := g; ovf := ovf c || o |}.
Definition cc_nak (c : link) (now : Z) : link :=
  let '(g, w, o) := cong_nak (cg c) (window c) now in
  {| cid := cid c; connected := connected c; window := w; in_flight := in_flight c; log := log c;
     hwm := hwm c; last_recv := last_recv c; proof := proof c; cg := g; ovf := ovf c || o |}.

(** connection/mod.rs resets (fields of this family only) *)
Definition reset_core (c : link) (lr : option Z) (g : cong) : link :=
  {| cid := cid c; connected := false; window := WINDOW_DEFAULT; in_flight := 0; log := [];
     hwm := i32_min; last_recv := lr; proof := 0; cg := g; ovf := ovf c |}.
Definition mark_for_recovery (c : link) : link := reset_core c None (cg c).
Definition reset_for_reconnect (c : link) : link := reset_core c None cong0.
(** REG3: clear_pre_registration_state + the stamps process_uplink_packet applies *)
Definition reg3_clear (c : link) (now : Z) : link :=
  {| cid := cid c; connected := true; window := WINDOW_DEFAULT; in_flight := 0; log := [];
     hwm := i32_min; last_recv := Some now; proof := proof c; cg := cong0; ovf := ovf c |}.
Definition set_conn (c : link) (b : bool) (lr : option Z) : link :=
  {| cid := cid c; connected := b; window := window c; in_flight := in_flight c; log := log c;
     hwm := hwm c; last_recv := lr; proof := proof c; cg := cg c; ovf := ovf c |}.
Definition set_window (c : link) (w : Z) : link :=
  {| cid := cid c; connected := connected c; window := w; in_flight := in_flight c; log := log c;
     hwm := hwm c; last_recv := last_recv c; proof := proof c; cg := cg c; ovf := ovf c |}.

(** ---- SequenceTracker: ring of SEQ_TRACKING_SIZE slots as an assoc list slot |-> (conn_id, ts, seq) ---- *)
Definition tentry := (Z * Z * Z)%type.
Definition tracker := list (Z * tentry).
Definition slot (seq : Z) : Z := seq mod SEQ_TRACKING_SIZE.
Fixpoint trk_remove (s : Z) (t : tracker) : tracker :=
  match t with
  | [] => []
  | (s', e) :: r => if s' =? s then trk_remove s r else (s', e) :: trk_remove s r
  end.
Definition trk_insert (t : tracker) (seq id now : Z) : tracker :=
  (slot seq, (id, now, seq)) :: trk_remove (slot seq) t.
Fixpoint trk_find (s : Z) (t : tracker) : option tentry :=
  match t with
  | [] => None
  | (s', e) :: r => if s' =? s then Some e else trk_find s r
  end.
Definition trk_get (t : tracker) (seq now : Z) : option Z :=
  match trk_find (slot seq) t with
  | Some (id, ts, sq) =>
    if negb (id =? 0) && (sq =? seq) && negb (SEQUENCE_TRACKING_MAX_AGE_MS <? ssub now ts)
    then Some id else None
  | None => None
  end.
Definition trk_remove_conn (t : tracker) (id : Z) : tracker :=
  filter (fun p => negb (fst (fst (snd p)) =? id)) t.

(** ---- multi-link state and the ops of process_connection_events ---- *)
Record state := { links : list link; trk : tracker }.

Fixpoint upd {A} (i : nat) (f : A -> A) (l : list A) : list A :=
  match l, i with
  | [], _ => []
  | x :: t, O => f x :: t
  | x :: t, S k => x :: upd k f t
  end.

Fixpoint find_pos (id : Z) (l : list link) (i : nat) : option nat :=
  match l with
  | [] => None
  | c :: t => if cid c =? id then Some i else find_pos id t (S i)
  end.

(** first link (in index order, skipping [skip]) on which [f] reports success *)
Fixpoint first_hit (f : link -> link * bool) (skip : option nat) (i : nat) (l : list link) : list link * option nat :=
  match l with
  | [] => ([], None)
  | c :: t =>
    if match skip with Some k => Nat.eqb k i | None => false end then
      let '(t', r) := first_hit f skip (S i) t in (c :: t', r)
    else
      let '(c', hit) := f c in
      if hit then (c' :: t, Some i)
      else let '(t', r) := first_hit f skip (S i) t in (c :: t', r)
  end.

Definition srtla_ack_event (ls : list link) (idx : nat) (seq : Z) (classic : bool) (now : Z) : list link :=
  match nth_error ls idx with
  | None => ls
  | Some c =>
    let '(c', found) := handle_srtla_ack_specific c seq classic now in
    let ls1 :=
      if found then upd idx (fun x => fst (handle_srtla_ack_specific x seq classic now)) ls
      else fst (first_hit (fun x => handle_srtla_ack_specific x seq classic now) (Some idx) O ls) in
    map handle_srtla_ack_global ls1
  end.

Definition attribute_nak (ls : list link) (t : tracker) (seq now : Z) : list link * option nat :=
  match trk_get t seq now with
  | Some id =>
    match find_pos id ls O with
    | Some pos =>
      match nth_error ls pos with
      | Some c => let '(c', found) := handle_nak c seq now in
                  if found then (upd pos (fun x => fst (handle_nak x seq now)) ls, Some pos) else (ls, None)
      | None => (ls, None)
      end
    | None => first_hit (fun x => handle_nak x seq now) None O ls
    end
  | None => first_hit (fun x => handle_nak x seq now) None O ls
  end.

Inductive op :=
| ORegister (i : nat) (seq t : Z)
| OTrack (i : nat) (seq now : Z)            (* seq_tracker.insert(seq, conn_id(i), now) *)
| OSrtAck (a now : Z)
| OSrtlaAck (idx : nat) (seq : Z) (classic : bool) (now : Z)
| ONak (seq now : Z)
| ORecovery (i : nat) (now : Z) (vel_hi : bool)
| OCcAck (i : nat) (classic : bool) (inf : Z)
| OCcNak (i : nat) (now : Z)
| OGlobal (i : nat)
| OMarkRecovery (i : nat)
| OResetReconnect (i : nat)
| OReg3 (i : nat) (now : Z)
| OSetConn (i : nat) (b : bool) (lr : option Z)
| OSetWindow (i : nat) (w : Z)
| ORemoveConn (i : nat).                    (* tracker.remove_connection(conn_id(i)); link list keeps its shape *)

Definition on (i : nat) (f : link -> link) (s : state) : state :=
  {| links := upd i f (links s); trk := trk s |}.

Definition step (s : state) (o : op) : state :=
  match o with
  | ORegister i seq t => on i (fun c => register_packet c seq t) s
  | OTrack i seq now =>
    match nth_error (links s) i with
    | Some c => {| links := links s; trk := trk_insert (trk s) seq (cid c) now |}
    | None => s
    end
  | OSrtAck a now => {| links := map (fun c => handle_srt_ack c a) (links s); trk := trk s |}
  | OSrtlaAck idx seq classic now =>
    {| links := srtla_ack_event (links s) idx seq classic now; trk := trk s |}
  | ONak seq now => {| links := fst (attribute_nak (links s) (trk s) seq now); trk := trk s |}
  | ORecovery i now v => on i (fun c => perform_window_recovery c now v) s
  | OCcAck i classic inf => on i (fun c => cc_ack c classic inf) s
  | OCcNak i now => on i (fun c => cc_nak c now) s
  | OGlobal i => on i handle_srtla_ack_global s
  | OMarkRecovery i => on i mark_for_recovery s
  | OResetReconnect i => on i reset_for_reconnect s
  | OReg3 i now => on i (fun c => reg3_clear c now) s
  | OSetConn i b lr => on i (fun c => set_conn c b lr) s
  | OSetWindow i w => on i (fun c => set_window c w) s
  | ORemoveConn i =>
    match nth_error (links s) i with
    | Some c => {| links := links s; trk := trk_remove_conn (trk s) (cid c) |}
    | None => s
    end
  end.

Definition init (ids : list Z) : state := {| links := map link0 ids; trk := [] |}.
Definition run_from (s : state) (ops : list op) : state := fold_left step ops s.
