(** Hub.v — executable small-step model of [SubscriptionHub] (src/subscriptions.rs)
    under arbitrary interleaving of tasks.  No proofs here.

    A task runs one hub call at a time.  A call is a sequence of atomic sections
    separated by its await points; by the generated shape facts (Gen/Shape.v) the
    only awaits in the hub are [entries.lock().await] and no await occurs while the
    guard is alive:
        subscribe   = [alloc id] ; lock ; [push]
        unsubscribe = lock ; [retain]
        len         = lock ; [read]
        publish     = lock ; [fan-out: one try_send per entry] ; (lock ; [prune])?
    The fan-out is modelled one entry per step (finer than one poll) so that
    receiver-side [recv]/[close] running on other threads can interleave with it.
    A schedule is any list of [Start t op] / [Step t]; a step that is not enabled
    stutters.  Every step emits at most one observable event.

    Fields marked "ghost" are never read by the transition function's control flow
    and are not compared with the implementation; they carry history for the proofs. *)
From Srtla Require Import Base.

Record entry := { e_id : Z; e_topic : Z; e_chan : Z }.
Record msg := { m_id : Z; m_topic : Z; m_data : Z }.
(** a bounded mpsc channel: capacity, queue (oldest first; ghost publication number
    attached to each message), receiver-dropped flag *)
Record chan := { c_cap : Z; c_q : list (msg * nat); c_closed : bool }.

Inductive op :=
| OChan (c cap : Z)        (* mpsc::channel(cap) for connection c *)
| OSub (tp c : Z)          (* hub.subscribe(topic tp, sender of c) *)
| OUnsub (id : Z)          (* hub.unsubscribe("sub-id") *)
| OPub (tp d : Z)          (* hub.publish(topic tp, data d) *)
| OLen                     (* hub.len() *)
| ORecv (c : Z)            (* receiver side: try_recv on c *)
| OClose (c : Z).          (* receiver side: drop the receiver of c *)

Inductive ret := RSub (id : Z) | RUnsub (removed : bool) | RPub | RLen (n : Z).

Inductive ev :=
| ECall (t : Z) (o : op)
| ERet (t : Z) (r : ret)
| EPubLin (t : Z) (tp d : Z)      (* publish took the lock: its place in the publication order *)
| ERecv (c : Z) (m : option msg)
| EClose (c : Z)
| EBlocked (t : Z).               (* t was polled and could not make progress *)

Inductive pc :=
| Idle
| SubWait (id tp c : Z) | SubHold (id tp c : Z)
| UnsubWait (id : Z) | UnsubHold (id : Z)
| LenWait | LenHold
| PubWait (tp d : Z)
| PubFan (tp d : Z) (rest : list entry) (prune : list Z)
| PruneWait (prune : list Z) | PruneHold (prune : list Z).

Inductive sev := Start (t : Z) (o : op) | Step (t : Z).

Record state := {
  entries : list entry;
  next_id : Z;
  lock : option Z;                 (* task holding the async mutex *)
  chans : list (Z * chan);
  pcs : list (Z * pc);             (* missing = Idle *)
  npub : nat;                      (* ghost: number of publishes linearised so far *)
  alloc : list entry;              (* ghost: every subscription ever allocated *)
  lastq : list (Z * nat)           (* ghost: id -> 1 + publication number last received *)
}.

Definition init : state :=
  {| entries := []; next_id := 0; lock := None; chans := []; pcs := []; npub := O;
     alloc := []; lastq := [] |}.

(** association lists keyed by Z *)
Fixpoint lookup {A} (l : list (Z * A)) (k : Z) : option A :=
  match l with
  | [] => None
  | (k', v) :: r => if k' =? k then Some v else lookup r k
  end.
Fixpoint update {A} (l : list (Z * A)) (k : Z) (v : A) : list (Z * A) :=
  match l with
  | [] => [(k, v)]
  | (k', v') :: r => if k' =? k then (k, v) :: r else (k', v') :: update r k v
  end.

Definition get_pc (s : state) (t : Z) : pc :=
  match lookup (pcs s) t with Some p => p | None => Idle end.
Definition get_lastq (s : state) (id : Z) : nat :=
  match lookup (lastq s) id with Some n => n | None => O end.

Definition set_pc (s : state) (t : Z) (p : pc) : state :=
  {| entries := entries s; next_id := next_id s; lock := lock s; chans := chans s;
     pcs := update (pcs s) t p; npub := npub s; alloc := alloc s; lastq := lastq s |}.
Definition set_lock (s : state) (l : option Z) : state :=
  {| entries := entries s; next_id := next_id s; lock := l; chans := chans s;
     pcs := pcs s; npub := npub s; alloc := alloc s; lastq := lastq s |}.
Definition set_entries (s : state) (es : list entry) : state :=
  {| entries := es; next_id := next_id s; lock := lock s; chans := chans s;
     pcs := pcs s; npub := npub s; alloc := alloc s; lastq := lastq s |}.
Definition set_chans (s : state) (cs : list (Z * chan)) : state :=
  {| entries := entries s; next_id := next_id s; lock := lock s; chans := cs;
     pcs := pcs s; npub := npub s; alloc := alloc s; lastq := lastq s |}.

Definition ids_of (es : list entry) : list Z := map e_id es.
Definition zmem (x : Z) (l : list Z) : bool := existsb (Z.eqb x) l.

(** [mpsc::Sender::try_send]: Closed has priority over Full (closed semaphore). *)
Inductive send_res := Sent | Full | Closed.
Definition try_send (cs : list (Z * chan)) (c : Z) (m : msg * nat) : send_res * list (Z * chan) :=
  match lookup cs c with
  | None => (Closed, cs)
  | Some ch =>
    if c_closed ch then (Closed, cs)
    else if blen (c_q ch) <? c_cap ch
         then (Sent, update cs c {| c_cap := c_cap ch; c_q := c_q ch ++ [m]; c_closed := false |})
         else (Full, cs)
  end.

(** the operations that go through the hub's mutex *)
Definition is_hub_op (o : op) : bool :=
  match o with OSub _ _ | OUnsub _ | OPub _ _ | OLen => true | _ => false end.

(** [Start t o]: task t (idle) invokes o and runs up to its first await point. *)
Definition start (s : state) (t : Z) (o : op) : state * list ev :=
  match get_pc s t with
  | Idle =>
    match o with
    | OChan c cap =>
      match lookup (chans s) c with
      | Some _ => (s, [])
      | None => (set_chans s (update (chans s) c {| c_cap := Z.max 1 cap; c_q := []; c_closed := false |}), [])
      end
    | OSub tp c =>
      let id := next_id s in
      ({| entries := entries s; next_id := id + 1; lock := lock s; chans := chans s;
          pcs := update (pcs s) t (SubWait id tp c); npub := npub s;
          alloc := alloc s ++ [{| e_id := id; e_topic := tp; e_chan := c |}]; lastq := lastq s |},
       [ECall t o])
    | OUnsub id => (set_pc s t (UnsubWait id), [ECall t o])
    | OPub tp d => (set_pc s t (PubWait tp d), [ECall t o])
    | OLen => (set_pc s t LenWait, [ECall t o])
    | ORecv c =>
      match lookup (chans s) c with
      | Some ch =>
        match c_q ch with
        | (m, q) :: r =>
          ({| entries := entries s; next_id := next_id s; lock := lock s;
              chans := update (chans s) c {| c_cap := c_cap ch; c_q := r; c_closed := c_closed ch |};
              pcs := pcs s; npub := npub s; alloc := alloc s;
              lastq := update (lastq s) (m_id m) (S q) |},
           [ERecv c (Some m)])
        | [] => (s, [ERecv c None])
        end
      | None => (s, [ERecv c None])
      end
    | OClose c =>
      match lookup (chans s) c with
      | Some ch => (set_chans s (update (chans s) c {| c_cap := c_cap ch; c_q := []; c_closed := true |}), [EClose c])
      | None => (set_chans s (update (chans s) c {| c_cap := 1; c_q := []; c_closed := true |}), [EClose c])
      end
    end
  | _ => (s, [])
  end.

(** what a task waiting for the mutex becomes when it gets it *)
Definition acquired (s : state) (p : pc) : option pc :=
  match p with
  | SubWait id tp c => Some (SubHold id tp c)
  | UnsubWait id => Some (UnsubHold id)
  | LenWait => Some LenHold
  | PubWait tp d => Some (PubFan tp d (entries s) [])
  | PruneWait pr => Some (PruneHold pr)
  | _ => None
  end.

Definition release_to (s : state) (t : Z) (p : pc) : state := set_pc (set_lock s None) t p.

(** [Step t]: task t is polled and runs its next atomic section. *)
Definition step_task (s : state) (t : Z) : state * list ev :=
  let p := get_pc s t in
  match acquired s p with
  | Some p' =>
    match lock s with
    | None =>
      let s1 := set_pc (set_lock s (Some t)) t p' in
      match p with
      | PubWait tp d =>
        ({| entries := entries s1; next_id := next_id s1; lock := lock s1; chans := chans s1;
            pcs := pcs s1; npub := S (npub s1); alloc := alloc s1; lastq := lastq s1 |},
         [EPubLin t tp d])
      | _ => (s1, [])
      end
    | Some _ => (s, [EBlocked t])
    end
  | None =>
    match p with
    | SubHold id tp c =>
      (release_to (set_entries s (entries s ++ [{| e_id := id; e_topic := tp; e_chan := c |}])) t Idle,
       [ERet t (RSub id)])
    | UnsubHold id =>
      let es := filter (fun e => negb (e_id e =? id)) (entries s) in
      (release_to (set_entries s es) t Idle,
       [ERet t (RUnsub (negb (blen es =? blen (entries s))))])
    | LenHold => (release_to s t Idle, [ERet t (RLen (blen (entries s)))])
    | PubFan tp d (e :: rest) pr =>
      if e_topic e =? tp then
        match try_send (chans s) (e_chan e) ({| m_id := e_id e; m_topic := tp; m_data := d |}, pred (npub s)) with
        | (Sent, cs) => (set_pc (set_chans s cs) t (PubFan tp d rest pr), [])
        | (Full, _) => (set_pc s t (PubFan tp d rest pr), [])
        | (Closed, _) => (set_pc s t (PubFan tp d rest (pr ++ [e_id e])), [])
        end
      else (set_pc s t (PubFan tp d rest pr), [])
    | PubFan tp d [] pr =>
      match pr with
      | [] => (release_to s t Idle, [ERet t RPub])
      | _ => (release_to s t (PruneWait pr), [])
      end
    | PruneHold pr =>
      (release_to (set_entries s (filter (fun e => negb (zmem (e_id e) pr)) (entries s))) t Idle,
       [ERet t RPub])
    | _ => (s, [])
    end
  end.

Definition step (s : state) (e : sev) : state * list ev :=
  match e with Start t o => start s t o | Step t => step_task s t end.

Fixpoint run_from (s : state) (sched : list sev) : state * list ev :=
  match sched with
  | [] => (s, [])
  | e :: r => let '(s1, o1) := step s e in let '(s2, o2) := run_from s1 r in (s2, o1 ++ o2)
  end.
Definition run (sched : list sev) : list ev := snd (run_from init sched).

(** enabledness: a polled task makes progress unless it is waiting for a mutex that
    another task holds; the definition does not mention [chans]. *)
Definition waiting (p : pc) : bool :=
  match p with SubWait _ _ _ | UnsubWait _ | LenWait | PubWait _ _ | PruneWait _ => true | _ => false end.
Definition holding (p : pc) : bool :=
  match p with SubHold _ _ _ | UnsubHold _ | LenHold | PubFan _ _ _ _ | PruneHold _ => true | _ => false end.
Definition publishing (p : pc) : bool :=
  match p with PubWait _ _ | PubFan _ _ _ _ | PruneWait _ | PruneHold _ => true | _ => false end.
Definition blocked (s : state) (t : Z) : bool :=
  waiting (get_pc s t) && match lock s with Some _ => true | None => false end.

(** number of further polls of the holder after which it has released the mutex *)
Definition hold_measure (p : pc) : nat :=
  match p with
  | PubFan _ _ rest _ => S (length rest)
  | SubHold _ _ _ | UnsubHold _ | LenHold | PruneHold _ => 1%nat
  | _ => O
  end.
Fixpoint poll_n (n : nat) (s : state) (t : Z) : state :=
  match n with O => s | S k => poll_n k (fst (step_task s t)) t end.

(** sequential composition used by the whole-operation correspondence: start the call,
    then poll the task until it is idle again (no other task runs in between). *)
Fixpoint settle (fuel : nat) (s : state) (t : Z) : state * list ev :=
  match fuel with
  | O => (s, [])
  | S k =>
    match get_pc s t with
    | Idle => (s, [])
    | _ => let '(s1, o1) := step_task s t in let '(s2, o2) := settle k s1 t in (s2, o1 ++ o2)
    end
  end.
Definition call_fuel (s : state) : nat := (2 * length (entries s) + 8)%nat.
Definition run_call (s : state) (t : Z) (o : op) : state * list ev :=
  let '(s1, o1) := start s t o in
  let '(s2, o2) := settle (call_fuel s1) s1 t in (s2, o1 ++ o2).
Fixpoint run_calls (s : state) (l : list (Z * op)) : list ev :=
  match l with
  | [] => []
  | (t, o) :: r => let '(s1, o1) := run_call s t o in o1 ++ run_calls s1 r
  end.
