(** Classifier.v — executable model of
    crates/srtla-core/src/selection/classifier.rs ([WeakLinkFilter::classify]).

    Float front-end (totals, shares, tier pick) in Coq primitive floats (binary64,
    bit-exact with the Rust f64 arithmetic: only [+ * /], comparisons, [max],
    [clamp] and [as u32]/[as u64] casts occur); discrete core (delay streak,
    enter/leave hysteresis, share-weak streak, probation window) on [Z]/[bool].
    No proofs in this file. *)
From Coq Require Import Floats Uint63.
From Srtla Require Import Base Constants FConstants.
Local Open Scope Z_scope.

(** ---- Rust f64 primitives ---------------------------------------------------- *)

(** [x.max(0.0)]: NaN -> 0.0, negatives -> 0.0. *)
Definition f64_max0 (x : float) : float :=
  if PrimFloat.is_nan x then 0%float else if (x <? 0)%float then 0%float else x.

(** [x.clamp(lo, hi)] (NaN stays NaN). *)
Definition f64_clamp (lo hi x : float) : float :=
  if (x <? lo)%float then lo else if (hi <? x)%float then hi else x.

(** [x as uN] with [maxv = uN::MAX]: truncation toward zero, saturating, NaN -> 0. *)
Definition f64_as_uint (maxv : Z) (x : float) : Z :=
  match Prim2SF x with
  | S754_zero _ => 0
  | S754_nan => 0
  | S754_infinity s => if s then 0 else maxv
  | S754_finite s m e => if s then 0 else Z.min maxv (Z.shiftl (Zpos m) e)
  end.
Definition u32_max : Z := two32 - 1.
Definition f64_as_u32 := f64_as_uint u32_max.
Definition f64_as_u64 := f64_as_uint u64_max.

(** [n as f64] for [0 <= n < 2^53] (exact). *)
Definition f64_of_Z (n : Z) : float := of_uint63 (Uint63.of_Z n).

(** ---- inputs, outputs, state -------------------------------------------------- *)

(** What [classify] reads from one [SrtlaConnection]: [conn_id], [connected],
    [bitrate.current_bitrate_bps], [get_smooth_rtt_ms()], [queue_building_suspected()]. *)
Record lin := L { l_id : Z; l_conn : bool; l_bps : float; l_srtt : float; l_qb : bool }.
Arguments L _%Z _ _%float _%float _.

(** [WeakReason] *)
Inductive reason := RH (* Healthy *) | RR (* HighRtt *) | RQ (* QueueBuilding *)
                  | RN (* NoTraffic *) | RL (* LowShare *) | RB (* Bypassed *).

(** [LinkClassification] *)
Record lout := V { o_id : Z; o_weak : bool; o_reason : reason; o_share : Z; o_thr : Z }.
Arguments V _%Z _ _ _%Z _%Z.

(** Per-link hysteresis memory: the entries of the four maps [prev_weak],
    [delay_weak_streak], [weak_streak], [probation_ticks] under one key (the code
    always writes / clears the four maps together, so they share their key set). *)
Record lst := E { s_pw : bool; s_ds : Z; s_ws : Z; s_pr : Z }.
Arguments E _ _%Z _%Z _%Z.
Definition lst0 : lst := E false 0 0 0.      (* the [unwrap_or] defaults *)
Definition fstate := list (Z * lst).

Fixpoint lookup {A} (d : A) (st : list (Z * A)) (id : Z) : A :=
  match st with
  | [] => d
  | (k, v) :: t => if k =? id then v else lookup d t id
  end.

(** [ClassificationResult] plus the filter's memory after the call. *)
Record tout := TO { t_sel : Z; t_est : Z; t_outs : list lout; t_st : fstate }.

(** ---- vocabulary shared with the monitor: what "throughput", "RTT", "share" are -- *)
Definition bps_of (l : lin) : float := f64_max0 (l_bps l).
Definition rtt_of (l : lin) : Z := f64_as_u32 (l_srtt l).

Definition conn_count (ls : list lin) : Z :=
  fold_left (fun n l => if l_conn l then n + 1 else n) ls 0.
Definition total_bps (ls : list lin) : float :=
  fold_left (fun t l => if l_conn l then (t + bps_of l)%float else t) ls 0%float.
Definition longest_rtt (ls : list lin) : Z :=
  fold_left (fun m l => if l_conn l then (if m <? rtt_of l then rtt_of l else m) else m) ls 0.

(** [((bps * 1000.0) / total).clamp(0.0, 1000.0) as u32], 0 when total is not positive. *)
Definition share_pm (bps total : float) : Z :=
  if (0 <? total)%float then f64_as_u32 (f64_clamp 0%float 1000%float (bps * 1000 / total)%float)
  else 0.

(** ---- tiers -------------------------------------------------------------------- *)
Definition derive_max_delay_budget (longest : Z) : Z :=
  clamp MIN_BUDGET_MS MAX_BUDGET_MS (f64_as_u32 (f64_of_Z longest * RTT_TO_DELAY_BUDGET_MULT)%float).
Definition target_best_delay_ms (est : Z) : Z := Z.min (est * 40 / 100) TARGET_BEST_SAFE_CAP_MS.
Definition target_safe_delay_ms (est : Z) : Z := Z.min (est * 50 / 100) TARGET_BEST_SAFE_CAP_MS.
Definition target_max_delay_ms (est : Z) : Z := Z.min (est * 60 / 100) TARGET_MAX_CAP_MS.

Definition bucket (ls : list lin) (limit : Z) : float :=
  fold_left (fun t l => if l_conn l && (rtt_of l <=? limit) then (t + bps_of l)%float else t) ls 0%float.

Definition pick_tier (total best safe mx : float) (bd sd md : Z) : Z :=
  let best_pm := f64_as_u64 (best * 1000 / total)%float in
  let safe_pm := f64_as_u64 (safe * 1000 / total)%float in
  let max_pm := f64_as_u64 (mx * 1000 / total)%float in
  if SHARE_85_PERMILLE <? best_pm then bd else
  if SHARE_85_PERMILLE <? safe_pm then sd else
  if SHARE_85_PERMILLE <? max_pm then
    if SHARE_50_PERMILLE <? best_pm then bd else
    if SHARE_50_PERMILLE <? safe_pm then sd else
    if SHARE_50_PERMILLE <? max_pm then md else
    if SHARE_25_PERMILLE <? best_pm then bd else
    if SHARE_25_PERMILLE <? safe_pm then sd else md
  else md.

Definition selected_delay (ls : list lin) (est : Z) : Z :=
  let bd := target_best_delay_ms est in
  let sd := target_safe_delay_ms est in
  let md := target_max_delay_ms est in
  pick_tier (total_bps ls) (bucket ls bd) (bucket ls sd) (bucket ls md) bd sd md.

(** ---- third pass: one link ------------------------------------------------------ *)

(** The delay signal of a connected link against the chosen tier. *)
Definition delay_signal (sel : Z) (l : lin) : option reason :=
  if sel <? rtt_of l then Some RR else if l_qb l then Some RQ else None.

Definition is_share_reason (r : reason) : bool :=
  match r with RL | RN => true | _ => false end.

(** Returns the classification and the entry written to the [next_*] maps (None
    for a disconnected link, which is skipped by [continue]). *)
Definition link_step (n : Z) (total : float) (sel : Z) (st : fstate) (l : lin)
  : lout * option (Z * lst) :=
  if negb (l_conn l) then (V (l_id l) false RH 0 0, None) else
  let bps := bps_of l in
  let share := share_pm bps total in
  let e := lookup lst0 st (l_id l) in
  let enter := ENTER_FAIR_SHARE_NUMERATOR / n in
  let leave := LEAVE_FAIR_SHARE_NUMERATOR / n in
  let was_weak := s_pw e in
  let thr := if was_weak then leave else enter in
  let dsig := delay_signal sel l in
  let ds := match dsig with Some _ => sat_add_u32 (s_ds e) 1 | None => 0 end in
  let delay_weak := WEAK_SUSTAIN_TICKS <=? ds in
  let wr : bool * reason :=
    if delay_weak then (true, match dsig with Some r => r | None => RH (* unwrap: unreachable *) end)
    else if (bps =? 0)%float then (true, RN)
    else if was_weak && (share <? leave) then (true, RL)
    else if negb was_weak && (share <? enter) then (true, RL)
    else (false, RH) in
  let share_weak := fst wr && is_share_reason (snd wr) in
  let '(w2, r2, ws2, pr2) :=
    if 0 <? s_pr e then (false, RH, 0, s_pr e - 1)
    else if share_weak then
      let s1 := sat_add_u32 (s_ws e) 1 in
      if PROBATION_INTERVAL_TICKS <=? s1 then (fst wr, snd wr, 0, PROBATION_WINDOW_TICKS)
      else (fst wr, snd wr, s1, s_pr e)
    else (fst wr, snd wr, 0, s_pr e) in
  (V (l_id l) w2 r2 share thr, Some (l_id l, E w2 ds ws2 pr2)).

Fixpoint keep_some {A} (l : list (option A)) : list A :=
  match l with
  | [] => []
  | Some a :: t => a :: keep_some t
  | None :: t => keep_some t
  end.

(** ---- one call of [classify] ------------------------------------------------------ *)
Definition bypassed (ls : list lin) : bool :=
  (total_bps ls <? MIN_TOTAL_BPS_FOR_CLASSIFICATION)%float || (conn_count ls =? 0).

Definition tick (st : fstate) (ls : list lin) : fstate * tout :=
  if bypassed ls then
    ([], TO 0 0 (map (fun l => V (l_id l) false RB 0 0) ls) [])
  else
    let est := derive_max_delay_budget (longest_rtt ls) in
    let sel := selected_delay ls est in
    let rs := map (link_step (conn_count ls) (total_bps ls) sel st) ls in
    let st' := keep_some (map snd rs) in
    (st', TO sel est (map fst rs) st').

(** A history: the list of per-tick link vectors; the trace pairs every tick's
    input with what [classify] returned (and left in memory). *)
Fixpoint run_from (st : fstate) (ops : list (list lin)) : list (list lin * tout) :=
  match ops with
  | [] => []
  | ls :: r => let '(st', o) := tick st ls in (ls, o) :: run_from st' r
  end.
Definition run (ops : list (list lin)) : list (list lin * tout) := run_from [] ops.

Fixpoint state_after (st : fstate) (ops : list (list lin)) : fstate :=
  match ops with
  | [] => st
  | ls :: r => state_after (fst (tick st ls)) r
  end.

(** ---- derived notions used in the theorem statements ------------------------------ *)

(** The delay tier [classify] picks for this link vector. *)
Definition tier_of (ls : list lin) : Z := selected_delay ls (derive_max_delay_budget (longest_rtt ls)).

(** The link is judged on this tick: connected, and the tick is not bypassed. *)
Definition classified (ls : list lin) (l : lin) : bool := negb (bypassed ls) && l_conn l.

(** The verdict [classify] returns for link [l] of the vector [ls] from memory [st]. *)
Definition verdict (st : fstate) (ls : list lin) (l : lin) : lout :=
  if bypassed ls then V (l_id l) false RB 0 0
  else fst (link_step (conn_count ls) (total_bps ls) (tier_of ls) st l).

(** The memory entry [classify] writes for a classified link. *)
Definition entry_after (st : fstate) (ls : list lin) (l : lin) : lst :=
  match snd (link_step (conn_count ls) (total_bps ls) (tier_of ls) st l) with
  | Some (_, e) => e
  | None => lst0
  end.

(** The delay signal: RTT (whole ms) over the chosen tier, or a queue building. *)
Definition signal (ls : list lin) (l : lin) : bool := (tier_of ls <? rtt_of l) || l_qb l.

(** Throughput share in integer permille, as the classifier computes it. *)
Definition share_of (ls : list lin) (l : lin) : Z := share_pm (bps_of l) (total_bps ls).

Definition delay_verdict (o : lout) : bool :=
  o_weak o && match o_reason o with RR | RQ => true | _ => false end.
Definition share_verdict (o : lout) : bool := o_weak o && is_share_reason (o_reason o).
Definition low_share_verdict (o : lout) : bool :=
  o_weak o && match o_reason o with RL => true | _ => false end.

Definition mem (st : fstate) (id : Z) : lst := lookup lst0 st id.

(** Well-formed history: connection ids are distinct within every tick. *)
Definition wf_ops (ops : list (list lin)) : Prop := Forall (fun ls => NoDup (map l_id ls)) ops.
