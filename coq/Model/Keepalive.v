(** Keepalive.v — executable model of the keepalive / RTT-probe slice of the sender:
      crates/srtla-core/src/connection/mod.rs   keepalive_packet, needs_keepalive,
          needs_rtt_measurement, get_smooth_rtt_ms, is_timed_out, mark_for_recovery,
          reset_for_reconnect (the fields below), clear_pre_registration_state (ditto)
      crates/srtla-core/src/connection/reconnection.rs   should_attempt_reconnect,
          record_attempt, backoff_delay, mark_success, reset_startup_grace
      src/sender/housekeeping.rs    the per-link loop of handle_housekeeping
      src/sender/uplink_recv.rs     process_uplink_packet (link-side effects)
      src/sender/connections.rs     reconnect_uplink (state side; socket result = input)

    What is an *input* here (universally quantified in the theorems, observed from the real
    run in the cases): the link's telemetry at the moment of a tick (window, in-flight, NAK
    count, bitrate — owned by C02/C06/C16), the result of re-creating a socket, the bytes of
    every uplink datagram, every clock reading.  The registration manager is quiescent
    (no REG_NGP / REG2 injected, nothing pending): its traffic is property C07's subject;
    a re-registration attempt shows up here only as the 258-byte REG2 frame housekeeping
    sends after a reconnect.  No proofs in this file. *)
From Coq Require Import Floats.
From Srtla Require Import Base Constants FConstants Wire Rtt.
Local Open Scope Z_scope.

Record link := {
  l_id : Z;                       (* conn_id (u64) *)
  l_connected : bool;
  l_last_recv : option Z;         (* last_received *)
  l_last_ka : option Z;           (* last_keepalive_sent *)
  l_proof : Z;                    (* last_ack_or_rtt_sample_ms *)
  l_timeout : Z;                  (* conn_timeout_ms *)
  l_estab : Z;                    (* reconnection.connection_established_ms *)
  l_grace : Z;                    (* reconnection.startup_grace_deadline_ms *)
  l_attempt : Z;                  (* reconnection.last_reconnect_attempt_ms *)
  l_fail : Z;                     (* reconnection.reconnect_failure_count (u32) *)
  l_rtt : rtt
}.

Definition new_registering (id now : Z) : link :=
  {| l_id := id; l_connected := false; l_last_recv := None; l_last_ka := None; l_proof := 0;
     l_timeout := CONN_TIMEOUT_MS; l_estab := 0; l_grace := now + STARTUP_GRACE_MS;
     l_attempt := 0; l_fail := 0; l_rtt := rtt_default |}.

(** telemetry of one link as read at tick time: window (i32), in-flight (i32),
    congestion.nak_count (i32), bitrate.current_bitrate_bps (f64) *)
Record tele := { t_window : Z; t_inflight : Z; t_nak : Z; t_bps : float }.
Definition tele0 : tele := {| t_window := 0; t_inflight := 0; t_nak := 0; t_bps := 0 |}.

Definition F_EIGHT : float := 0x1.0000000000000p+3%float.

(** the [ConnectionInfo] of keepalive_packet as the 6-list Wire.v uses *)
Definition ka_info (l : link) (t : tele) : list Z :=
  [ l_id l mod two32;                          (* conn_id as u32 *)
    t_window t; t_inflight t;
    f_as_u32 (kx (r_k (l_rtt l)));             (* kalman.value() as u32 *)
    of_i32 (t_nak t);                          (* nak_count (i32) as u32 *)
    f_as_u32 (t_bps t / F_EIGHT)%float ].      (* (bps / 8.0) as u32 *)

Definition set_rtt (l : link) (r : rtt) : link :=
  {| l_id := l_id l; l_connected := l_connected l; l_last_recv := l_last_recv l;
     l_last_ka := l_last_ka l; l_proof := l_proof l; l_timeout := l_timeout l;
     l_estab := l_estab l; l_grace := l_grace l; l_attempt := l_attempt l; l_fail := l_fail l;
     l_rtt := r |}.

(** [keepalive_packet]: frame, then last_keepalive_sent := now and the probe is armed
    when none is outstanding and the last sample is absent or older than the gap. *)
Definition keepalive_packet (l : link) (t : tele) (now : Z) : list Z * link :=
  let pkt := create_keepalive_packet_ext (ka_info l t) now in
  let r := l_rtt l in
  let arm := negb (r_waiting r) &&
             ((r_last_meas r =? 0) || (RTT_REMEASURE_GAP_MS <? ssub now (r_last_meas r))) in
  let r' := if arm then record_keepalive_sent r now else r in
  (pkt, {| l_id := l_id l; l_connected := l_connected l; l_last_recv := l_last_recv l;
           l_last_ka := Some now; l_proof := l_proof l; l_timeout := l_timeout l;
           l_estab := l_estab l; l_grace := l_grace l; l_attempt := l_attempt l;
           l_fail := l_fail l; l_rtt := r' |}).

Definition IDLE_MS : Z := IDLE_TIME * 1000.

Definition needs_keepalive (l : link) (now : Z) : bool :=
  if negb (l_connected l) then false else
  match l_last_ka l with None => true | Some last => IDLE_MS <=? ssub now last end.

Definition needs_rtt_measurement (l : link) (now : Z) : bool :=
  needs_measurement (l_rtt l) (l_connected l) (l_estab l) now.

Definition get_smooth_rtt_ms (l : link) : float := f_max0 (kx (r_k (l_rtt l))).

Definition silent_too_long (l : link) (now : Z) : bool :=
  match l_last_recv l with None => false | Some lr => l_timeout l <=? ssub now lr end.

Definition is_timed_out (l : link) (now : Z) : bool :=
  if negb (l_connected l) then
    if (l_estab l =? 0) && (now <? l_grace l) then false
    else match l_last_recv l with None => true | Some lr => l_timeout l <=? ssub now lr end
  else silent_too_long l now.

(** ---- reconnection.rs ---- *)
Definition backoff_delay (l : link) : Z :=
  let capped := Z.min (l_fail l) MAX_BACKOFF_COUNT in
  Z.min (sat_mul_u64 BASE_RECONNECT_DELAY_MS (2 ^ capped)) MAX_BACKOFF_DELAY_MS.

Definition should_attempt_reconnect (l : link) (now : Z) : bool :=
  if l_estab l =? 0 then
    if now <=? l_grace l then false
    else if l_attempt l =? 0 then true
    else INITIAL_RETRY_CADENCE_MS <=? ssub now (l_attempt l)
  else if l_attempt l =? 0 then true
  else backoff_delay l <=? ssub now (l_attempt l).

Definition record_attempt (l : link) (now : Z) : link :=
  {| l_id := l_id l; l_connected := l_connected l; l_last_recv := l_last_recv l;
     l_last_ka := l_last_ka l; l_proof := l_proof l; l_timeout := l_timeout l;
     l_estab := l_estab l; l_grace := l_grace l; l_attempt := now;
     l_fail := if l_estab l =? 0 then l_fail l else sat_add_u32 (l_fail l) 1;
     l_rtt := l_rtt l |}.

(** [mark_for_recovery] *)
Definition mark_for_recovery (l : link) : link :=
  {| l_id := l_id l; l_connected := false; l_last_recv := None; l_last_ka := None;
     l_proof := 0; l_timeout := l_timeout l; l_estab := l_estab l; l_grace := 0;
     l_attempt := l_attempt l; l_fail := l_fail l; l_rtt := rtt_disarm (l_rtt l) |}.

(** [reconnect_uplink] after the socket was re-created: reset_for_reconnect,
    mark_reconnect_success, reset_startup_grace.  last_keepalive_sent is NOT cleared. *)
Definition reconnect_ok (l : link) (now : Z) : link :=
  {| l_id := l_id l; l_connected := false; l_last_recv := None; l_last_ka := l_last_ka l;
     l_proof := 0; l_timeout := l_timeout l; l_estab := l_estab l;
     l_grace := now + STARTUP_GRACE_MS; l_attempt := now; l_fail := 0;
     l_rtt := rtt_reset (l_rtt l) |}.

(** ---- what reaches the wire ---- *)
Inductive frame :=
| FBytes (b : list Z)                 (* a datagram of <= 64 bytes, in full *)
| FLong (len : Z) (head : list Z).    (* a longer one: length and its first 2 bytes *)

Definition REG2_FRAME : frame := FLong SRTLA_TYPE_REG2_LEN (be_bytes 2 SRTLA_TYPE_REG2).

(** one iteration of the per-link loop of handle_housekeeping.
    [rc_ok]: did re-creating the socket succeed (only read when a reconnect is attempted). *)
Definition tick_link (l : link) (t : tele) (rc_ok : bool) (now : Z) : list frame * link :=
  if is_timed_out l now then
    if should_attempt_reconnect l now then
      let l1 := record_attempt l now in
      let l2 := if rc_ok then reconnect_ok l1 now else mark_for_recovery l1 in
      (* pending_reg2_idx = None in the quiescent manager: re-send REG2 *)
      ([REG2_FRAME], l2)
    else ([], l)
  else
    let '(f1, l1) := if needs_keepalive l now
                     then let '(p, l') := keepalive_packet l t now in ([FBytes p], l')
                     else ([], l) in
    let '(f2, l2) := if needs_rtt_measurement l1 now
                     then let '(p, l') := keepalive_packet l1 t now in ([FBytes p], l')
                     else ([], l1) in
    (f1 ++ f2, l2).

(** ---- process_uplink_packet: effects on the link ---- *)
Definition ptype (b : list Z) : option Z :=
  match get_packet_type b with Ok o => o | _ => None end.

Definition on_reg3 (l : link) (now : Z) : link :=
  {| l_id := l_id l; l_connected := true; l_last_recv := Some now; l_last_ka := l_last_ka l;
     l_proof := l_proof l; l_timeout := l_timeout l;
     l_estab := if l_estab l =? 0 then now else l_estab l;
     l_grace := l_grace l; l_attempt := l_attempt l; l_fail := 0; l_rtt := l_rtt l |}.

Definition on_reg_err (l : link) : link :=
  {| l_id := l_id l; l_connected := false; l_last_recv := None; l_last_ka := l_last_ka l;
     l_proof := l_proof l; l_timeout := l_timeout l; l_estab := l_estab l; l_grace := l_grace l;
     l_attempt := l_attempt l; l_fail := l_fail l; l_rtt := l_rtt l |}.

Definition set_recv_rtt_proof (l : link) (now : Z) (r : rtt) (proof : Z) : link :=
  {| l_id := l_id l; l_connected := l_connected l; l_last_recv := Some now;
     l_last_ka := l_last_ka l; l_proof := proof; l_timeout := l_timeout l; l_estab := l_estab l;
     l_grace := l_grace l; l_attempt := l_attempt l; l_fail := l_fail l; l_rtt := r |}.

Definition pkt_link (l : link) (b : list Z) (now : Z) : link :=
  match ptype b with
  | None => l                                        (* fewer than 2 bytes: untyped *)
  | Some pt =>
    if (pt =? SRTLA_TYPE_REG_NGP) || (pt =? SRTLA_TYPE_REG2) then l   (* manager only *)
    else if pt =? SRTLA_TYPE_REG3 then on_reg3 l now
    else if pt =? SRTLA_TYPE_REG_ERR then on_reg_err l
    else if pt =? SRTLA_TYPE_KEEPALIVE then
      let '(r, s) := handle_keepalive_response (l_rtt l) b now in
      match s with
      | Some _ => set_recv_rtt_proof l now r now
      | None => set_recv_rtt_proof l now r (l_proof l)
      end
    else set_recv_rtt_proof l now (l_rtt l) (l_proof l)
  end.

(** ---- ops and the state machine ---- *)
Inductive op :=
| OTick (now : Z) (ts : list tele) (rc : list bool)    (* handle_housekeeping *)
| OPkt (i : nat) (b : list Z) (now : Z)                 (* handle_uplink_packet on link i *)
| OMark (i : nat)                                      (* mark_for_recovery (send failure) *)
| OSetTimeout (i : nat) (t : Z)                        (* the run-time liveness window reaches link i (conn_timeout_ms := t) *)
| OEnd.                                                (* no-op: full dump requested *)

Definition state := list link.

Definition init (ids : list Z) (t0 : Z) : state := map (fun id => new_registering id t0) ids.

Fixpoint tick_links (ls : list link) (ts : list tele) (rc : list bool) (now : Z)
  : list (list frame * link) :=
  match ls with
  | [] => []
  | l :: ls' =>
    tick_link l (hd tele0 ts) (hd true rc) now :: tick_links ls' (tl ts) (tl rc) now
  end.

Fixpoint upd {A} (ls : list A) (i : nat) (f : A -> A) : list A :=
  match ls, i with
  | [], _ => []
  | l :: t, O => f l :: t
  | l :: t, S k => l :: upd t k f
  end.

Definition set_timeout (l : link) (t : Z) : link :=
  {| l_id := l_id l; l_connected := l_connected l; l_last_recv := l_last_recv l;
     l_last_ka := l_last_ka l; l_proof := l_proof l; l_timeout := t;
     l_estab := l_estab l; l_grace := l_grace l; l_attempt := l_attempt l; l_fail := l_fail l;
     l_rtt := l_rtt l |}.

Definition step (s : state) (o : op) : state :=
  match o with
  | OSetTimeout i t => upd s i (fun l => set_timeout l t)
  | OTick now ts rc => map snd (tick_links s ts rc now)
  | OPkt i b now => upd s i (fun l => pkt_link l b now)
  | OMark i => upd s i mark_for_recovery
  | OEnd => s
  end.
