(** Wire.v — executable model of crates/srtla-protocol (types.rs, parsers.rs,
    builders.rs).  Decoders are written with explicit bounds-checked indexing
    ([get] returns [Oob] where Rust would panic) and explicit loop fuel, exactly
    following the Rust control flow; builders produce byte lists.  No proofs. *)
From Srtla Require Import Base Constants.

(** ---- types.rs ---- *)
Definition get_packet_type (b : list Z) : res (option Z) :=
  if blen b <? 2 then Ok None else
  b0 <- get b 0 ;; b1 <- get b 1 ;; Ok (Some (be16 b0 b1)).

Definition be32_at (b : list Z) (i : Z) : res Z :=
  x0 <- get b i ;; x1 <- get b (i + 1) ;; x2 <- get b (i + 2) ;; x3 <- get b (i + 3) ;;
  Ok (be32 x0 x1 x2 x3).
Definition be16_at (b : list Z) (i : Z) : res Z :=
  x0 <- get b i ;; x1 <- get b (i + 1) ;; Ok (be16 x0 x1).

Definition get_srt_sequence_number (b : list Z) : res (option Z) :=
  if blen b <? 4 then Ok None else
  sn <- be32_at b 0 ;;
  (* (sn & 0x8000_0000) == 0 *)
  if sn <? two31 then Ok (Some sn) else Ok None.

Definition is_srt_data_retransmit (b : list Z) : res bool :=
  if 8 <=? blen b then
    b0 <- get b 0 ;;
    if b0 <? 128 then b4 <- get b 4 ;; Ok (Z.testbit b4 2) else Ok false
  else Ok false.

Definition type_is (b : list Z) (t : Z) : res bool :=
  ty <- get_packet_type b ;; Ok (ozeqb ty (Some t)).
Definition is_srtla_reg1 b : res bool :=
  if blen b =? SRTLA_TYPE_REG1_LEN then type_is b SRTLA_TYPE_REG1 else Ok false.
Definition is_srtla_reg2 b : res bool :=
  if blen b =? SRTLA_TYPE_REG2_LEN then type_is b SRTLA_TYPE_REG2 else Ok false.
Definition is_srtla_reg3 b : res bool :=
  if blen b =? SRTLA_TYPE_REG3_LEN then type_is b SRTLA_TYPE_REG3 else Ok false.
Definition is_srtla_keepalive b : res bool := type_is b SRTLA_TYPE_KEEPALIVE.
Definition is_srt_ack b : res bool := type_is b SRT_TYPE_ACK.

(** ---- parsers.rs ---- *)
Fixpoint ts_loop (n : nat) (b : list Z) (i : Z) (ts : Z) : res Z :=
  match n with
  | O => Ok ts
  | S k => x <- get b (2 + i) ;; ts_loop k b (i + 1) ((ts * 256) mod two64 + x)
  end.

Definition extract_keepalive_timestamp (b : list Z) : res (option Z) :=
  if blen b <? 10 then Ok None else
  ty <- get_packet_type b ;;
  match ty with
  | None => Ok None
  | Some t => if t =? SRTLA_TYPE_KEEPALIVE
              then ts <- ts_loop 8 b 0 0 ;; Ok (Some ts) else Ok None
  end.

(** ConnectionInfo as the 6-list [conn_id; window; in_flight; rtt_ms; nak_count; bitrate] *)
Definition extract_keepalive_conn_info (b : list Z) : res (option (list Z)) :=
  if blen b <? SRTLA_KEEPALIVE_EXT_LEN then Ok None else
  ty <- get_packet_type b ;;
  match ty with
  | None => Ok None
  | Some t =>
    if negb (t =? SRTLA_TYPE_KEEPALIVE) then Ok None else
    magic <- be16_at b 10 ;;
    if negb (magic =? SRTLA_KEEPALIVE_MAGIC) then Ok None else
    version <- be16_at b 12 ;;
    if negb (version =? SRTLA_KEEPALIVE_EXT_VERSION) then Ok None else
    conn_id <- be32_at b 14 ;;
    window <- be32_at b 18 ;;
    in_flight <- be32_at b 22 ;;
    rtt <- be32_at b 26 ;;
    nak <- be32_at b 30 ;;
    br <- be32_at b 34 ;;
    Ok (Some [conn_id; to_i32 window; to_i32 in_flight; rtt; nak; br])
  end.

Definition parse_srt_ack (b : list Z) : res (option Z) :=
  if blen b <? 20 then Ok None else
  ty <- get_packet_type b ;;
  match ty with
  | None => Ok None
  | Some t => if t =? SRT_TYPE_ACK then v <- be32_at b 16 ;; Ok (Some v) else Ok None
  end.

(** inner `while seq <= end && out.len() < 1000`; fuel = 1000 - out.len() *)
Fixpoint nak_expand (fuel : nat) (seq en : Z) (out : list Z) : list Z :=
  match fuel with
  | O => out
  | S f => if seq <=? en then nak_expand f (wrap_u32 (seq + 1)) en (out ++ [seq]) else out
  end.

Definition NAK_RANGE_CAP : Z := 1000.

Fixpoint nak_loop (fuel : nat) (b : list Z) (i : Z) (out : list Z) : res (list Z) :=
  match fuel with
  | O => Fuel
  | S f =>
    if i + 3 <? blen b then
      id <- be32_at b i ;;
      let i := i + 4 in
      if two31 <=? id then
        let id := id - two31 in            (* id &= 0x7fff_ffff (id < 2^32) *)
        if blen b <=? i + 3 then Ok out    (* break *)
        else
          en <- be32_at b i ;;
          nak_loop f b (i + 4)
                   (nak_expand (Z.to_nat (NAK_RANGE_CAP - blen out)) id en out)
      else nak_loop f b i (out ++ [id])
    else Ok out
  end.

Definition parse_srt_nak (b : list Z) : res (list Z) :=
  if blen b <? 8 then Ok [] else
  ty <- get_packet_type b ;;
  if negb (ozeqb ty (Some SRT_TYPE_NAK)) then Ok [] else
  nak_loop (S (length b)) b 4 [].

Fixpoint ack_loop (fuel : nat) (b : list Z) (i : Z) (out : list Z) : res (list Z) :=
  match fuel with
  | O => Fuel
  | S f =>
    if i + 3 <? blen b then
      a <- be32_at b i ;; ack_loop f b (i + 4) (out ++ [a])
    else Ok out
  end.

Definition parse_srtla_ack (b : list Z) : res (list Z) :=
  if blen b <? 8 then Ok [] else
  ty <- get_packet_type b ;;
  if negb (ozeqb ty (Some SRTLA_TYPE_ACK)) then Ok [] else
  ack_loop (S (length b)) b 4 [].

(** ---- builders.rs ---- *)
Definition create_reg1_packet (id : list Z) : list Z := be_bytes 2 SRTLA_TYPE_REG1 ++ id.
Definition create_reg2_packet (id : list Z) : list Z := be_bytes 2 SRTLA_TYPE_REG2 ++ id.
Definition create_keepalive_packet (now : Z) : list Z :=
  be_bytes 2 SRTLA_TYPE_KEEPALIVE ++ be_bytes 8 now.
(** info = [conn_id(u32); window(i32); in_flight(i32); rtt_ms(u32); nak_count(u32); bitrate(u32)] *)
Definition create_keepalive_packet_ext (info : list Z) (now : Z) : list Z :=
  match info with
  | [cid; w; inf; rtt; nak; br] =>
    be_bytes 2 SRTLA_TYPE_KEEPALIVE ++ be_bytes 8 now ++
    be_bytes 2 SRTLA_KEEPALIVE_MAGIC ++ be_bytes 2 SRTLA_KEEPALIVE_EXT_VERSION ++
    be_bytes 4 cid ++ be_bytes 4 (of_i32 w) ++ be_bytes 4 (of_i32 inf) ++
    be_bytes 4 rtt ++ be_bytes 4 nak ++ be_bytes 4 br
  | _ => []
  end.
Definition create_ack_packet (acks : list Z) : list Z :=
  be_bytes 2 SRTLA_TYPE_ACK ++ [0; 0] ++ concat (map (be_bytes 4) acks).
