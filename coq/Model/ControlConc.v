(** ControlConc.v — concurrent setters and snapshot readers (C18, "schedules").
    `DynamicConfig` is six independent atomics accessed with `Relaxed` single loads/stores:
    a `set_*` is ONE store, `snapshot()` (hence `get_status`) is SIX loads in field order, and
    nothing else touches the atomics.  A dispatch is therefore a short list of atomic
    actions; threads interleave at action granularity.  No proofs here. *)
From Srtla Require Import Base Constants Json Control ControlSpec.
Local Open Scope string_scope.
Local Open Scope Z_scope.

Inductive field := FMode | FQuality | FStall | FMif | FStale | FTimeout.
Definition field_eqb (a b : field) : bool :=
  match a, b with
  | FMode, FMode | FQuality, FQuality | FStall, FStall | FMif, FMif | FStale, FStale | FTimeout, FTimeout => true
  | _, _ => false
  end.

(** raw contents of the atomics *)
Record cmem := { m_mode : Z; m_quality : Z; m_stall : Z; m_mif : Z; m_stale : Z; m_timeout : Z }.

Definition get_field (m : cmem) (f : field) : Z :=
  match f with
  | FMode => m_mode m | FQuality => m_quality m | FStall => m_stall m
  | FMif => m_mif m | FStale => m_stale m | FTimeout => m_timeout m
  end.
Definition set_field (m : cmem) (f : field) (v : Z) : cmem :=
  match f with
  | FMode => {| m_mode := v; m_quality := m_quality m; m_stall := m_stall m; m_mif := m_mif m; m_stale := m_stale m; m_timeout := m_timeout m |}
  | FQuality => {| m_mode := m_mode m; m_quality := v; m_stall := m_stall m; m_mif := m_mif m; m_stale := m_stale m; m_timeout := m_timeout m |}
  | FStall => {| m_mode := m_mode m; m_quality := m_quality m; m_stall := v; m_mif := m_mif m; m_stale := m_stale m; m_timeout := m_timeout m |}
  | FMif => {| m_mode := m_mode m; m_quality := m_quality m; m_stall := m_stall m; m_mif := v; m_stale := m_stale m; m_timeout := m_timeout m |}
  | FStale => {| m_mode := m_mode m; m_quality := m_quality m; m_stall := m_stall m; m_mif := m_mif m; m_stale := v; m_timeout := m_timeout m |}
  | FTimeout => {| m_mode := m_mode m; m_quality := m_quality m; m_stall := m_stall m; m_mif := m_mif m; m_stale := m_stale m; m_timeout := v |}
  end.

(** `SchedulingMode::as_u8` / `from_u8`, bools as 0/1 *)
Definition mode_u8 (m : mode) : Z := match m with Classic => 0 | Enhanced => 1 end.
Definition mode_from_u8 (v : Z) : mode := if v =? 0 then Classic else Enhanced.
Definition b2z (b : bool) : Z := if b then 1 else 0.
Definition z2b (v : Z) : bool := negb (v =? 0).

Definition mem_of (c : config) : cmem :=
  {| m_mode := mode_u8 (c_mode c); m_quality := b2z (c_quality c); m_stall := b2z (c_stall c);
     m_mif := c_mif c; m_stale := c_stale c; m_timeout := c_timeout c |}.
(** `snapshot()` of given raw contents *)
Definition snapshot_of (m : cmem) : config :=
  {| c_mode := mode_from_u8 (m_mode m); c_quality := z2b (m_quality m); c_stall := z2b (m_stall m);
     c_mif := m_mif m; c_stale := m_stale m; c_timeout := m_timeout m |}.

Inductive action := AStore (f : field) (v : Z) | ALoad (f : field).

Definition store_of (s : setting) : action :=
  match s with
  | SMode m => AStore FMode (mode_u8 m)
  | SQuality b => AStore FQuality (b2z b)
  | SStall b => AStore FStall (b2z b)
  | STimeout z => AStore FTimeout z
  end.

Definition snapshot_loads : list action :=
  [ALoad FMode; ALoad FQuality; ALoad FStall; ALoad FMif; ALoad FStale; ALoad FTimeout].

(** does the line reach `get_status` (with or without an id)? *)
Definition reads_status (l : line_outcome) : bool :=
  match l with
  | Parsed j =>
      match spec_request j with
      | Some (v, me, _, _) => String.eqb v "2.0" && String.eqb me "get_status"
      | None => false
      end
  | _ => false
  end.

(** the atomic actions one dispatch of this line performs, in order *)
Definition actions_of (l : line_outcome) : list action :=
  match spec_setting l with
  | Some s => [store_of s]
  | None => if reads_status l then snapshot_loads else []
  end.

(** run a list of actions without interruption; returns the loaded values *)
Fixpoint exec_actions (m : cmem) (acts : list action) : cmem * list Z :=
  match acts with
  | [] => (m, [])
  | AStore f v :: t => exec_actions (set_field m f v) t
  | ALoad f :: t => let '(m', vs) := exec_actions m t in (m', get_field m f :: vs)
  end.

(** the response of a dispatch is the sequential response on the snapshot assembled from the
    values it loaded (a line that loads nothing never looks at the configuration) *)
Definition mem_of_loads (vs : list Z) : cmem :=
  match vs with
  | [a; b; c; d; e; f] => {| m_mode := a; m_quality := b; m_stall := c; m_mif := d; m_stale := e; m_timeout := f |}
  | _ => mem_of cfg_new
  end.
Definition respond_conc (e : env) (l : line_outcome) (loads : list Z) : outcome :=
  fst (dispatch (snapshot_of (mem_of_loads loads)) e l).

(** ---- interleavings ---- *)
Definition event := (nat * action * Z)%type.   (* thread, action, value stored / loaded *)

Fixpoint pop_thread (thr : list (list action)) (tid : nat) : option (action * list (list action)) :=
  match thr, tid with
  | [], _ => None
  | [] :: _, O => None
  | (a :: rest) :: others, O => Some (a, rest :: others)
  | p :: others, S k =>
      match pop_thread others k with
      | Some (a, others') => Some (a, p :: others')
      | None => None
      end
  end.

(** a schedule names, step by step, the thread that performs its next action (a step naming a
    finished thread is a no-op) *)
Fixpoint run_sched (m : cmem) (thr : list (list action)) (sched : list nat) : cmem * list event :=
  match sched with
  | [] => (m, [])
  | tid :: rest =>
      match pop_thread thr tid with
      | None => run_sched m thr rest
      | Some (AStore f v, thr') =>
          let '(m', evs) := run_sched (set_field m f v) thr' rest in (m', (tid, AStore f v, v) :: evs)
      | Some (ALoad f, thr') =>
          let '(m', evs) := run_sched m thr' rest in (m', (tid, ALoad f, get_field m f) :: evs)
      end
  end.

(** the value a load of [f] must return after the events [evs], starting from [d] *)
Fixpoint last_store (f : field) (evs : list event) (d : Z) : Z :=
  match evs with
  | [] => d
  | (_, AStore f' v, _) :: t => last_store f t (if field_eqb f f' then v else d)
  | _ :: t => last_store f t d
  end.
