(** Json.v — the JSON tree the control dispatcher works on (C18).  No proofs here.

    [json] is the *text-level* tree of one line: object members in textual order,
    duplicates kept.  [to_value] is what `serde_json::Value` makes of it (a
    `BTreeMap<String, Value>`: the last duplicate wins, members ordered by the byte
    order of their keys).  Numbers: [JInt z] is an integer literal that serde_json
    keeps exact (-2^63 <= z < 2^64); every other number is an f64, carried as its
    64 bits in [JFloat] and only ever compared for equality (no method takes a
    float parameter).  Strings are Coq [string]s (bytes of the UTF-8 text). *)
From Coq Require Export ZArith List Bool String Ascii.
From Srtla Require Import Base.
Open Scope Z_scope.

Inductive json : Type :=
| JNull
| JBool (b : bool)
| JInt (z : Z)
| JFloat (bits : Z)
| JStr (s : string)
| JArr (l : list json)
| JObj (m : list (string * json)).

(** structural equality *)
Fixpoint json_eqb (a b : json) {struct a} : bool :=
  match a, b with
  | JNull, JNull => true
  | JBool x, JBool y => Bool.eqb x y
  | JInt x, JInt y => x =? y
  | JFloat x, JFloat y => x =? y
  | JStr x, JStr y => String.eqb x y
  | JArr x, JArr y =>
      (fix go (x y : list json) {struct x} : bool :=
         match x, y with
         | [], [] => true
         | a :: x', b :: y' => json_eqb a b && go x' y'
         | _, _ => false
         end) x y
  | JObj x, JObj y =>
      (fix go (x y : list (string * json)) {struct x} : bool :=
         match x, y with
         | [], [] => true
         | (k, a) :: x', (k', b) :: y' => String.eqb k k' && json_eqb a b && go x' y'
         | _, _ => false
         end) x y
  | _, _ => false
  end.

(** `BTreeMap::insert` on a key-sorted association list *)
Fixpoint ins (k : string) (v : json) (m : list (string * json)) : list (string * json) :=
  match m with
  | [] => [(k, v)]
  | (k', v') :: t =>
      match String.compare k k' with
      | Lt => (k, v) :: m
      | Eq => (k, v) :: t
      | Gt => (k', v') :: ins k v t
      end
  end.

(** text tree -> `serde_json::Value` *)
Fixpoint to_value (j : json) : json :=
  match j with
  | JArr l => JArr (map to_value l)
  | JObj m =>
      JObj ((fix go (m : list (string * json)) (acc : list (string * json)) :=
               match m with
               | [] => acc
               | (k, v) :: t => go t (ins k (to_value v) acc)
               end) m [])
  | x => x
  end.

(** nesting depth: scalars 0, a container one more than its deepest child *)
Fixpoint depth (j : json) : Z :=
  match j with
  | JArr l => 1 + fold_right (fun x acc => Z.max (depth x) acc) 0 l
  | JObj m =>
      1 + (fix go (m : list (string * json)) : Z :=
             match m with [] => 0 | (_, v) :: t => Z.max (depth v) (go t) end) m
  | _ => 0
  end.

(** association-list access *)
Fixpoint assoc (k : string) (m : list (string * json)) : option json :=
  match m with
  | [] => None
  | (k', v) :: t => if String.eqb k k' then Some v else assoc k t
  end.

(** `Value::get(&str)` (objects only; anything else has no members) *)
Definition vget (v : json) (k : string) : option json :=
  match v with JObj m => assoc k m | _ => None end.

Definition as_str (v : json) : option string := match v with JStr s => Some s | _ => None end.
Definition as_bool (v : json) : option bool := match v with JBool b => Some b | _ => None end.
(** `Value::as_u64`: only non-negative integer literals that fit a u64 *)
Definition as_u64 (v : json) : option Z :=
  match v with JInt z => if (0 <=? z) && (z <? two64) then Some z else None | _ => None end.

Definition obind {A B} (o : option A) (f : A -> option B) : option B :=
  match o with Some a => f a | None => None end.
