(** Classic.v — executable model of the sender shell restricted to
    mode = Classic, stall_deselect = false:

      src/sender/packet_handler.rs   handle_srt_packet (registration complete),
                                     forward_via_connection, flush_all_batches,
                                     handle_uplink_packet -> process_connection_events
      src/sender/uplink_recv.rs      the last_received stamp of process_uplink_packet
      src/sender/housekeeping.rs     handle_housekeeping(classic = true), links in back-off
      crates/srtla-core              selection/mod.rs (apply_stall_gate, guard off),
                                     selection/classic.rs, connection/mod.rs (get_score,
                                     is_timed_out, take_batch, resets), priority.rs
                                     (select_best_quality_idx), connection/batch_send.rs

    The per-link integer accounting (packet log, ACK/NAK handlers, window rules, the
    sequence tracker) is Model/Conn.v, imported, not repeated.  Definitions only. *)
From Coq Require Import Floats.
From Srtla Require Import Base Constants Conn.

Record xlink := {
  core : link;                        (* Conn.link: connected, window, log, hwm, last_recv, ... *)
  queue : list (option Z * Z);        (* BatchSender: (seq, queue time), oldest first *)
  bsize : Z;                          (* regime.batch_size() *)
  registering : bool;                 (* phase == LinkPhase::Registering *)
  established : Z;                    (* reconnection.connection_established_ms *)
  grace : Z;                          (* reconnection.startup_grace_deadline_ms *)
  qmult : float                       (* quality_cache.multiplier *)
}.

Definition set_core (x : xlink) (c : link) : xlink :=
  {| core := c; queue := queue x; bsize := bsize x; registering := registering x;
     established := established x; grace := grace x; qmult := qmult x |}.
Definition set_queue (x : xlink) (q : list (option Z * Z)) : xlink :=
  {| core := core x; queue := q; bsize := bsize x; registering := registering x;
     established := established x; grace := grace x; qmult := qmult x |}.

(** SrtlaConnection::new_registering, with the grace deadline as given *)
Definition xlink0 (id g : Z) : xlink :=
  {| core := link0 id; queue := []; bsize := BATCH_SIZE_NORMAL; registering := true;
     established := 0; grace := g; qmult := 1%float |}.

Record shell := {
  xs : list xlink;
  tr : tracker;
  crit : Z                            (* CriticalWindow deadline *)
}.

(** ---- connection/mod.rs ---- *)
Definition timed_out (x : xlink) (now tmo : Z) : bool :=
  let c := core x in
  if negb (connected c) then
    if (established x =? 0) && (now <? grace x) then false
    else match last_recv c with None => true | Some lr => tmo <=? ssub now lr end
  else match last_recv c with Some lr => tmo <=? ssub now lr | None => false end.

Definition get_score (x : xlink) : Z :=
  if negb (connected (core x)) then -1 else
  let total := sat_add_i32 (in_flight (core x)) (blen (queue x)) in
  Z.quot (window (core x)) (Z.max (sat_add_i32 total 1) 1).

(** ---- selection/classic.rs; [stall_gated] is false on every link after
    apply_stall_gate with the guard off, and [conn_timeout_ms] has just been set to the
    snapshot's value [tmo] ---- *)
Fixpoint select_loop (l : list xlink) (i : nat) (now tmo : Z) (best_idx : option nat) (best_score : Z) : option nat :=
  match l with
  | [] => best_idx
  | x :: t =>
    if timed_out x now tmo || registering x then select_loop t (S i) now tmo best_idx best_score
    else
      let sc := get_score x in
      if best_score <? sc then select_loop t (S i) now tmo (Some i) sc
      else select_loop t (S i) now tmo best_idx best_score
  end.
Definition select (l : list xlink) (now tmo : Z) : option nat := select_loop l O now tmo None (-1).

(** ---- priority.rs: select_best_quality_idx ---- *)
Fixpoint bq_loop (l : list xlink) (i : nat) (best_idx : option nat) (best_q : float) : option nat :=
  match l with
  | [] => best_idx
  | x :: t =>
    if negb (connected (core x)) || registering x then bq_loop t (S i) best_idx best_q
    else if PrimFloat.ltb best_q (qmult x) then bq_loop t (S i) (Some i) (qmult x)
    else bq_loop t (S i) best_idx best_q
  end.
Definition best_quality (l : list xlink) : option nat := bq_loop l O None neg_infinity.

(** ---- handle_srt_packet: normal selection, then the best-path override.
    [guarded] = the override is skipped in classic mode (Gen/Shape.override_mode_guarded). *)
Definition route (guarded : bool) (s : shell) (seq : option Z) (retx : bool) (now tmo : Z) : option nat :=
  let sel := select (xs s) now tmo in
  if guarded then sel else
  match seq with
  | None => sel
  | Some _ =>
    if (now <? crit s) || retx then
      match best_quality (xs s) with Some b => Some b | None => sel end
    else sel
  end.

(** ---- take_batch ---- *)
Definition register_all (c : link) (q : list (option Z * Z)) : link :=
  fold_left (fun c p => match fst p with Some sq => register_packet c sq (snd p) | None => c end) q c.
Definition take_batch (x : xlink) : xlink := set_queue (set_core x (register_all (core x) (queue x))) [].

(** forward_via_connection on link [x]: queue, flush when the regime's threshold is reached.
    Returns the link and the number of datagrams handed to the socket. *)
Definition forward (x : xlink) (seq : option Z) (now : Z) : xlink * Z :=
  let x1 := set_queue x (queue x ++ [(seq, now)]) in
  if bsize x <=? blen (queue x1) then (take_batch x1, blen (queue x1)) else (x1, 0).

(** ---- lists ---- *)
Fixpoint put_cores (l : list xlink) (cs : list link) : list xlink :=
  match l, cs with
  | x :: t, c :: u => set_core x c :: put_cores t u
  | _, _ => []
  end.
Fixpoint put_bsizes (l : list xlink) (bs : list Z) : list xlink :=
  match l, bs with
  | x :: t, b :: u =>
    {| core := core x; queue := queue x; bsize := b; registering := registering x;
       established := established x; grace := grace x; qmult := qmult x |} :: put_bsizes t u
  | _, _ => l
  end.
Definition cores (l : list xlink) : list link := map core l.
Definition zeros (l : list xlink) : list Z := map (fun _ => 0) l.

(** process_uplink_packet: any non-registration datagram stamps last_received *)
Definition stamp (l : list xlink) (idx : nat) (now : Z) : list xlink :=
  upd idx (fun x => set_core x (set_conn (core x) (connected (core x)) (Some now))) l.

Inductive xop :=
| XUp (i : nat) (now : Z)                 (* what process_uplink_packet does on REG3 *)
| XDown (i : nat)                         (* mark_for_recovery *)
| XSetWindow (i : nat) (w : Z)
| XSetQ (i : nat) (q : float)
| XSetReg (i : nat) (b : bool)            (* phase := Registering (true) / a schedulable phase (false) *)
| XSetConn (i : nat) (b : bool) (lr : option Z)
| XNoise                                  (* the harness perturbs state the reference ignores *)
| XCritical (deadline : Z)                (* CriticalWindow::extend_to *)
| XPkt (seq : option Z) (retx : bool) (now tmo : Z)   (* handle_srt_packet; tmo = snapshot conn_timeout_ms *)
| XFlush (now : Z)                        (* flush_all_batches *)
| XSrtlaAck (idx : nat) (seqs : list Z) (now : Z)     (* handle_uplink_packet, SRTLA ACK datagram on link idx *)
| XSrtAck (idx : nat) (ack : Z) (now : Z)             (* SRT cumulative ACK datagram on link idx *)
| XNak (idx : nat) (seqs : list Z) (now : Z)          (* SRT NAK datagram on link idx *)
| XHousekeep (now : Z) (bs : list Z).     (* handle_housekeeping(classic = true); bs = batch sizes seen afterwards *)

(** output of a step: the link a routed packet went to, datagrams put on each wire *)
Definition out := (option nat * list Z)%type.

Definition with_xs (s : shell) (l : list xlink) : shell := {| xs := l; tr := tr s; crit := crit s |}.
Definition quiet (s : shell) : shell * out := (s, (None, zeros (xs s))).

(** clear_pre_registration_state (which also restores the default window) + the stamps
    process_uplink_packet applies on REG3 *)
Definition reg3_core (c : link) (now : Z) : link :=
  {| cid := cid c; connected := true; window := WINDOW_DEFAULT; in_flight := 0; log := [];
     hwm := i32_min; last_recv := Some now; proof := proof c; cg := cong0; ovf := ovf c |}.
Definition up_link (x : xlink) (now : Z) : xlink :=
  {| core := reg3_core (core x) now; queue := []; bsize := bsize x; registering := false;
     established := if established x =? 0 then now else established x; grace := grace x;
     qmult := 1%float |}.
Definition down_link (x : xlink) : xlink :=
  {| core := mark_for_recovery (core x); queue := []; bsize := bsize x; registering := true;
     established := established x; grace := 0; qmult := qmult x |}.
Definition set_q (x : xlink) (q : float) : xlink :=
  {| core := core x; queue := queue x; bsize := bsize x; registering := registering x;
     established := established x; grace := grace x; qmult := q |}.
Definition set_reg (x : xlink) (b : bool) : xlink :=
  {| core := core x; queue := queue x; bsize := bsize x; registering := b;
     established := established x; grace := grace x; qmult := qmult x |}.

Definition flush_link (x : xlink) : xlink * Z :=
  match queue x with [] => (x, 0) | _ => (take_batch x, blen (queue x)) end.

Definition xstep (guarded : bool) (s : shell) (o : xop) : shell * out :=
  match o with
  | XUp i now => quiet (with_xs s (upd i (fun x => up_link x now) (xs s)))
  | XDown i => quiet (with_xs s (upd i down_link (xs s)))
  | XSetWindow i w => quiet (with_xs s (upd i (fun x => set_core x (set_window (core x) w)) (xs s)))
  | XSetQ i q => quiet (with_xs s (upd i (fun x => set_q x q) (xs s)))
  | XSetReg i b => quiet (with_xs s (upd i (fun x => set_reg x b) (xs s)))
  | XSetConn i b lr => quiet (with_xs s (upd i (fun x => set_core x (set_conn (core x) b lr)) (xs s)))
  | XNoise => quiet s
  | XCritical d => quiet {| xs := xs s; tr := tr s; crit := Z.max (crit s) d |}
  | XPkt seq retx now tmo =>
    match route guarded s seq retx now tmo with
    | None => quiet s
    | Some k =>
      match nth_error (xs s) k with
      | None => quiet s
      | Some x =>
        let '(x', n) := forward x seq now in
        let t' := match seq with Some sq => trk_insert (tr s) sq (cid (core x)) now | None => tr s end in
        ({| xs := upd k (fun _ => x') (xs s); tr := t'; crit := crit s |},
         (Some k, upd k (fun _ => n) (zeros (xs s))))
      end
    end
  | XFlush now =>
    (with_xs s (map (fun x => fst (flush_link x)) (xs s)), (None, map (fun x => snd (flush_link x)) (xs s)))
  | XSrtlaAck idx seqs now =>
    match nth_error (xs s) idx with
    | None => quiet s
    | Some _ =>
      let l1 := stamp (xs s) idx now in
      let cs := fold_left (fun cs sq => srtla_ack_event cs idx sq true now) seqs (cores l1) in
      quiet (with_xs s (put_cores l1 cs))
    end
  | XSrtAck idx ack now =>
    match nth_error (xs s) idx with
    | None => quiet s
    | Some _ =>
      let l1 := stamp (xs s) idx now in
      quiet (with_xs s (map (fun x => set_core x (handle_srt_ack (core x) ack)) l1))
    end
  | XNak idx seqs now =>
    match nth_error (xs s) idx with
    | None => quiet s
    | Some _ =>
      let l1 := stamp (xs s) idx now in
      let cs := fold_left (fun cs sq => fst (attribute_nak cs (tr s) sq now)) seqs (cores l1) in
      quiet (with_xs s (put_cores l1 cs))
    end
  | XHousekeep now bs => quiet (with_xs s (put_bsizes (xs s) bs))
  end.

Fixpoint mk_links (n : nat) (i : Z) (g : Z) : list xlink :=
  match n with O => [] | S k => xlink0 (101 + i) g :: mk_links k (i + 1) g end.
Definition xinit (n : nat) (g : Z) : shell := {| xs := mk_links n 0 g; tr := []; crit := 0 |}.

(** the trace of a run: every op with what it put out and the state it left *)
Fixpoint xrun (guarded : bool) (s : shell) (ops : list xop) : list (xop * out * shell) :=
  match ops with
  | [] => []
  | o :: t => let '(s', ou) := xstep guarded s o in (o, ou, s') :: xrun guarded s' t
  end.
