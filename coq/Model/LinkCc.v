(** LinkCc.v — executable model of the per-link congestion-control soft cap,
    crates/srtla-core/src/selection/link_cc.rs (LinkCongestionState, LinkCcController).

    Conventions (DESIGN §3):
    * integers are [Z] with the Rust width written in (u32/i32 saturation, u64 [saturating_sub]);
    * the RTT smoothing ([record_rtt], [update_rtt_min]), the inflation / hold / HAI tests and the
      0.55 / 0.25 latch thresholds are IEEE binary64 computations on Coq primitive floats, bit for bit;
    * [target_bps] arithmetic is done by the code in f64 on integers below 2^53 and truncated
      ([x * permille / 1000.0], [as u64]); it is modelled as exact integer arithmetic with floor.
      The literal f64 rendering is in [Model/LinkCcF.v]; [Proofs/LinkCcFP.v] proves the two equal on
      every link step (the quotients are exact or at least 1/1000 - 2^-25 away from an integer while
      each rounding moves a value by at most 2^-25), and the correspondence compares [target_bps]
      with the real controller on every tick;
    * libm [exp] is not modelled: the value of [loss_ewma] after the update is an input of the tick.
    No proofs in this file. *)
From Coq Require Import Floats.
From Srtla Require Import Base Constants.
From Srtla Require FConstants.
Local Open Scope Z_scope.

(** ---- float helpers (Rust semantics written out) ---- *)
Definition fzero : float := 0%float.
Definition fone : float := 1%float.
Definition f_is_finite (x : float) : bool := PrimFloat.is_finite x.
Definition f_lt (a b : float) : bool := PrimFloat.ltb a b.
Definition f_le (a b : float) : bool := PrimFloat.leb a b.
Definition f_eq (a b : float) : bool := PrimFloat.eqb a b.

(** [x as u64] for an f64: truncation toward zero, saturating, NaN -> 0. *)
Definition f64_to_u64 (x : float) : Z :=
  match Prim2SF x with
  | S754_zero _ => 0
  | S754_nan => 0
  | S754_infinity s => if s then 0 else u64_max
  | S754_finite s m e =>
      if s then 0
      else Z.min u64_max (if 0 <=? e then Zpos m * 2 ^ e else Zpos m / 2 ^ (- e))
  end.

Definition u32_max : Z := two32 - 1.
Definition sat_u32 (x : Z) : Z := clamp 0 u32_max x.

(** ---- state ---- *)
Inductive cc_state := Bootstrap | Climbing | Holding | BackingOff | Drain.
Inductive climb_mode := Normal | Hai | FastRecovery.

Definition cc_state_eqb (a b : cc_state) : bool :=
  match a, b with
  | Bootstrap, Bootstrap | Climbing, Climbing | Holding, Holding
  | BackingOff, BackingOff | Drain, Drain => true
  | _, _ => false
  end.

(** RTT part: rtt_ewma_ms, rtt_var_ms, rtt_min_ms, rtt_min_stamp_ms, last_rtt_update_ms *)
Record rtt_part := mkRtt {
  r_ewma : float; r_var : float; r_min : float; r_min_stamp : Z; r_last : Z }.

(** sliding loss window + cumulative-counter baseline *)
Record loss_sample := mkSample { ls_ts : Z; ls_lost : Z; ls_sent : Z }.
Record loss_win := mkWin {
  w_samples : list loss_sample; w_lost : Z; w_sent : Z;
  w_prev_bytes : Z; w_prev_nak : Z; w_baseline : bool }.

(** loss EWMA and the degraded latch *)
Record latch := mkLatch {
  l_ewma : float; l_last : Z; l_high_since : Z; l_degraded : bool }.

(** back-off efficacy test *)
Record eff := mkEff {
  e_ticks : Z; e_entry_pm : Z; e_unc : bool; e_unc_ticks : Z }.

(** the controller proper *)
Record core := mkCore {
  c_state : cc_state; c_mode : climb_mode; c_target : Z; c_fr_ticks : Z;
  c_seeded : bool   (* target_bps has been seeded from observed throughput *) }.

Record link := mkLink {
  k_rtt : rtt_part; k_win : loss_win; k_latch : latch; k_eff : eff; k_core : core }.

Definition link_default : link :=
  mkLink (mkRtt fzero fzero infinity 0 0)
         (mkWin [] 0 0 0 0 false)
         (mkLatch fzero 0 0 false)
         (mkEff 0 0 false 0)
         (mkCore Bootstrap Normal MIN_TARGET_BPS 0 false).

(** ---- record_rtt / update_rtt_min ---- *)
Definition update_rtt_min (r : rtt_part) (ewma var : float) (last : Z) (rtt : float) (now : Z) : rtt_part :=
  let stale := CC_RTT_MIN_WINDOW_MS <? ssub now (r_min_stamp r) in
  if negb (f_is_finite (r_min r)) || f_lt rtt (r_min r) || stale
  then mkRtt ewma var rtt now last
  else mkRtt ewma var (r_min r) (r_min_stamp r) last.

Definition record_rtt (r : rtt_part) (rtt : float) (now : Z) : rtt_part :=
  if negb (f_is_finite rtt) || f_le rtt fzero then r else
  let age := ssub now (r_last r) in
  if f_eq (r_ewma r) fzero || (2000 <=? age) then
    update_rtt_min r rtt fzero now rtt now
  else
    let w_old : float :=
      if 1000 <=? age then 1%float
      else if 500 <=? age then 4%float
      else if 250 <=? age then 8%float
      else 16%float in
    let denom := (fone + w_old)%float in
    let prev := r_ewma r in
    let ewma := ((rtt * fone + prev * w_old) / denom)%float in
    let dev := PrimFloat.abs (rtt - prev)%float in
    let var := ((dev * fone + r_var r * 3) / 4)%float in
    update_rtt_min r ewma var now rtt now.

(** ---- loss window ---- *)
Fixpoint evict_samples (l : list loss_sample) (cutoff sent lost : Z) : list loss_sample * Z * Z :=
  match l with
  | [] => ([], sent, lost)
  | s :: t =>
      if ls_ts s <? cutoff
      then evict_samples t cutoff (ssub sent (ls_sent s)) (ssub lost (ls_lost s))
      else (l, sent, lost)
  end.

Definition evict_expired (w : loss_win) (now : Z) : loss_win :=
  let '(l, sent, lost) := evict_samples (w_samples w) (ssub now LOSS_WINDOW_MS) (w_sent w) (w_lost w) in
  mkWin l lost sent (w_prev_bytes w) (w_prev_nak w) (w_baseline w).

Definition record_loss (w : loss_win) (sent lost now : Z) : loss_win :=
  evict_expired
    (mkWin (w_samples w ++ [mkSample now lost sent])
           (sat_u32 (w_lost w + lost)) (sat_u32 (w_sent w + sent))
           (w_prev_bytes w) (w_prev_nak w) (w_baseline w))
    now.

Definition observe_traffic (w : loss_win) (bytes nak now : Z) : loss_win :=
  if negb (w_baseline w) then mkWin (w_samples w) (w_lost w) (w_sent w) bytes nak true
  else
    let delta_bytes := ssub bytes (w_prev_bytes w) in
    let delta_nak := Z.max (sat_i32 (nak - w_prev_nak w)) 0 in
    let w1 := mkWin (w_samples w) (w_lost w) (w_sent w) bytes nak true in
    if (delta_bytes =? 0) && (delta_nak =? 0) then w1
    else
      let sent_pkts := Z.min (delta_bytes / ASSUMED_SRT_PAYLOAD_BYTES) u32_max in
      let lost_pkts := delta_nak in
      let sent_pkts := Z.max sent_pkts (if 0 <? lost_pkts then 1 else 0) in
      record_loss w1 sent_pkts lost_pkts now.

Definition loss_permille (w : loss_win) : Z :=
  if w_sent w =? 0 then 0
  else Z.min (sat_mul_u64 (w_lost w) 1000 / w_sent w) 1000000.

(** ---- update_backoff_efficacy (st = the previous tick's state) ---- *)
Definition update_backoff_efficacy (e : eff) (st : cc_state) (loss_high : bool) (loss_pm : Z) : eff :=
  if negb loss_high then mkEff 0 0 false 0
  else if e_unc e then
    let ut := e_unc_ticks e + 1 in
    if LOSS_UNCONGESTIVE_RETEST_TICKS <=? ut then mkEff 0 loss_pm false 0
    else mkEff (e_ticks e) (e_entry_pm e) true ut
  else if negb (cc_state_eqb st BackingOff) then mkEff 0 loss_pm false (e_unc_ticks e)
  else
    let bt := e_ticks e + 1 in
    if bt <? BACKOFF_EFFICACY_TICKS then mkEff bt (e_entry_pm e) false (e_unc_ticks e)
    else
      let improved := loss_pm * 1000 <? e_entry_pm e * BACKOFF_EFFICACY_IMPROVEMENT_PERMILLE in
      if improved then mkEff 0 loss_pm false (e_unc_ticks e)
      else mkEff bt (e_entry_pm e) true 0.

(** ---- update_loss_ewma: the new EWMA value [ewma] is an oracle input (libm exp) ---- *)
Definition update_loss_ewma (l : latch) (ewma : float) (now : Z) : latch :=
  if f_lt FConstants.LOSS_DEGRADE_ENTER ewma then
    if l_high_since l =? 0 then mkLatch ewma now now (l_degraded l)
    else if LOSS_DEGRADE_SUSTAIN_MS <=? ssub now (l_high_since l)
         then mkLatch ewma now (l_high_since l) true
         else mkLatch ewma now (l_high_since l) (l_degraded l)
  else
    if f_lt ewma FConstants.LOSS_DEGRADE_CLEAR then mkLatch ewma now 0 false
    else mkLatch ewma now 0 (l_degraded l).

(** ---- tick ---- *)
Definition rtt_invalid (r : rtt_part) : bool :=
  negb (f_is_finite (r_ewma r)) || f_eq (r_ewma r) fzero.

Definition rtt_inflation (r : rtt_part) : float :=
  if f_is_finite (r_min r) && f_lt fzero (r_min r) then (r_ewma r / r_min r)%float else fone.

Definition pick_climb_mode (r : rtt_part) (fr : Z) : climb_mode :=
  if 0 <? fr then FastRecovery
  else if f_lt fzero (r_ewma r) && f_le (r_var r) (r_ewma r * FConstants.HAI_VARIANCE_FRACTION)%float then Hai
  else Normal.

Definition step_permille (m : climb_mode) : Z :=
  match m with
  | Normal => AI_STEP_PERMILLE
  | Hai => HAI_STEP_PERMILLE
  | FastRecovery => FAST_RECOVERY_STEP_PERMILLE
  end.

Definition clamp_target (x : Z) : Z := clamp MIN_TARGET_BPS MAX_TARGET_BPS x.

(** [(observed as f64).min(CC_OUTLIER_FACTOR * baseline) as u64] *)
Definition sane_observed (target observed : Z) : Z :=
  Z.min observed (Z.max target INITIAL_TARGET_BPS * CC_OUTLIER_FACTOR_micro / 1000000).

(** first non-bootstrap tick: seed from observed throughput ([if !self.seeded]) *)
Definition seed_target (seeded : bool) (target sane : Z) : Z :=
  if negb seeded then clamp_target (Z.max sane INITIAL_TARGET_BPS) else target.

Definition choose_state (loss_high loaded unc : bool) (infl : float) : cc_state :=
  if loss_high && loaded && negb unc then BackingOff
  else if f_le FConstants.DRAIN_RTT_INFLATION infl then Drain
  else if f_lt FConstants.RTT_HOLD_FACTOR infl then Holding
  else Climbing.

Definition is_bo_or_drain (s : cc_state) : bool :=
  match s with BackingOff | Drain => true | _ => false end.

(** new (unclamped) target for the chosen state; [prev] is the seeded target *)
Definition next_target (next_state prev_state : cc_state) (mode : climb_mode) (prev sane : Z) : Z :=
  match next_state with
  | Bootstrap => prev
  | Climbing =>
      if 0 <? sane
      then Z.max prev MIN_TARGET_BPS
           + Z.max (Z.min (prev * step_permille mode / 1000) (sane * 2 - prev)) 0
      else prev
  | Holding => prev
  | BackingOff => Z.max (prev * BACKOFF_PERMILLE / 1000) (Z.min sane prev)
  | Drain => if negb (cc_state_eqb prev_state Drain) then prev * DRAIN_PERMILLE / 1000 else prev
  end.

Definition tick (s : link) (observed now : Z) (lewma : float) : link :=
  let w1 := evict_expired (k_win s) now in
  let c := k_core s in
  if rtt_invalid (k_rtt s) then
    mkLink (k_rtt s) w1 (k_latch s) (k_eff s) (mkCore Bootstrap Normal MIN_TARGET_BPS (c_fr_ticks c) false)
  else
    let loss_pm := loss_permille w1 in
    let la1 := update_loss_ewma (k_latch s) lewma now in
    let infl := rtt_inflation (k_rtt s) in
    let sane := sane_observed (c_target c) observed in
    let target1 := seed_target (c_seeded c) (c_target c) sane in
    let loaded := target1 * BACKOFF_MIN_LOAD_PERMILLE <=? sane * 1000 in
    let loss_high := LOSS_BACKOFF_PERMILLE <? loss_pm in
    let ef1 := update_backoff_efficacy (k_eff s) (c_state c) loss_high loss_pm in
    let prev_state := c_state c in
    let next_state := choose_state loss_high loaded (e_unc ef1) infl in
    let fr1 := if is_bo_or_drain prev_state && cc_state_eqb next_state Climbing
               then FAST_RECOVERY_TICKS else c_fr_ticks c in
    let mode := match next_state with
                | Climbing => pick_climb_mode (k_rtt s) fr1
                | _ => Normal
                end in
    let next := next_target next_state prev_state mode target1 sane in
    let fr2 := if cc_state_eqb next_state Climbing then ssub fr1 1 else 0 in
    mkLink (k_rtt s) w1 la1 ef1 (mkCore next_state mode (clamp_target next) fr2 true).

(** ---- one link's share of [tick_all] ---- *)
Record inp := mkInp {
  i_id : Z;         (* conn_id *)
  i_rtt : float;    (* conn.get_smooth_rtt_ms() *)
  i_bytes : Z;      (* conn.bitrate.bytes_sent_total *)
  i_nak : Z;        (* conn.total_nak_count() *)
  i_bps : float;    (* conn.bitrate.current_bitrate_bps *)
  i_lewma : float   (* oracle: loss_ewma after this tick (libm exp inside) *)
}.

(** [conn.bitrate.current_bitrate_bps.max(0.0) as u64] — NaN and negatives give 0 either way *)
Definition observed_bps (i : inp) : Z := f64_to_u64 (i_bps i).

Definition pre_tick_rtt (s : link) (now : Z) (i : inp) : rtt_part :=
  if f_lt fzero (i_rtt i) then record_rtt (k_rtt s) (i_rtt i) now else k_rtt s.

Definition link_step (s : link) (now : Z) (i : inp) : link :=
  let r1 := pre_tick_rtt s now i in
  let w1 := observe_traffic (k_win s) (i_bytes i) (i_nak i) now in
  tick (mkLink r1 w1 (k_latch s) (k_eff s) (k_core s)) (observed_bps i) now (i_lewma i).

(** ---- snapshot ---- *)
Record snapshot := mkSnap {
  s_state : cc_state; s_mode : climb_mode; s_target : Z;
  s_rtt_ewma : float; s_rtt_var : float; s_rtt_min : float;
  s_loss_pm : Z; s_loss_ewma : float; s_degraded : bool }.

Definition snapshot_of (s : link) : snapshot :=
  mkSnap (c_state (k_core s)) (c_mode (k_core s)) (c_target (k_core s))
         (r_ewma (k_rtt s)) (r_var (k_rtt s))
         (if f_is_finite (r_min (k_rtt s)) then r_min (k_rtt s) else fzero)
         (loss_permille (k_win s)) (l_ewma (k_latch s)) (l_degraded (k_latch s)).

(** ---- the controller: HashMap<u64, LinkCongestionState> as an association list ---- *)
Definition ctrl := list (Z * link).

Fixpoint lookup {A} (m : list (Z * A)) (k : Z) : option A :=
  match m with
  | [] => None
  | (k', v) :: t => if k =? k' then Some v else lookup t k
  end.
Definition getd {A} (d : A) (m : list (Z * A)) (k : Z) : A :=
  match lookup m k with Some v => v | None => d end.
Fixpoint upsert {A} (m : list (Z * A)) (k : Z) (v : A) : list (Z * A) :=
  match m with
  | [] => [(k, v)]
  | (k', v') :: t => if k =? k' then (k, v) :: t else (k', v') :: upsert t k v
  end.
Definition memZ (k : Z) (l : list Z) : bool := existsb (Z.eqb k) l.
Definition retain {A} (m : list (Z * A)) (ids : list Z) : list (Z * A) :=
  filter (fun kv => memZ (fst kv) ids) m.

(** the [for conn in connections] loop: entry(conn_id).or_default(), feed, tick *)
Fixpoint tick_links (c : ctrl) (now : Z) (inps : list inp) : ctrl :=
  match inps with
  | [] => c
  | i :: t => tick_links (upsert c (i_id i) (link_step (getd link_default c (i_id i)) now i)) now t
  end.

(** [tick_all]: loop, then garbage-collect entries of vanished connections *)
Definition tick_all (c : ctrl) (now : Z) (inps : list inp) : ctrl :=
  retain (tick_links c now inps) (map i_id inps).

(** what [tick_all] returns: the snapshot of each present connection *)
Definition tick_all_out (c' : ctrl) (inps : list inp) : list snapshot :=
  map (fun i => snapshot_of (getd link_default c' (i_id i))) inps.
