(** Model/Reload.v — IP-list reload (property C19).  Executable model, no proofs.

    Rust code modelled, function by function:
      src/sender/reload.rs       analyze_ip_reload_text / analyze_ip_reload
      src/sender/connections.rs  apply_connection_changes / create_connections_from_ips
      src/sender/sequence.rs     SequenceTracker insert / get / remove_connection
      src/sender/uplink.rs       ConnIoMap (HashMap<conn_id, ConnIo>) get / insert / remove
      src/sender/mod.rs          the SIGHUP arm (queue the list or refuse) and the
                                 `pending_changes.take()` block of the housekeeping arm.

    Conventions.  Text is a list of UTF-8 bytes.  An address is one [Z]: an IPv4
    address is its 32-bit big-endian value, an IPv6 address is 2^32 + its 128-bit
    value (so the two families never collide).  A link's label
    "<host>:<port> via <ip>" is modelled by the address it names: host and port
    are immutable parameters of [run_sender_with_config], so within one process
    label and address determine each other.  [IpAddr::from_str] is an oracle (an
    association list trimmed-line -> result, filled in from the real parser);
    fresh random connection ids, the initial protocol state of a new link and
    the success of socket creation are oracle inputs of the ops.  A link's full
    protocol state is an opaque [list Z] (a dump/digest of every field of
    [SrtlaConnection]); the reload code never looks inside it. *)
From Srtla Require Import Base Constants.

Definition addr := Z.
Definition mem (a : Z) (l : list Z) : bool := existsb (Z.eqb a) l.

(** ---------------------------------------------------------------- text *)

(** [str::lines]: split_inclusive('\n'), strip the '\n', then one '\r'.  A final
    piece without '\n' is yielded as is; a text ending in '\n' yields no empty
    last line. *)
Definition strip_cr (l : list Z) : list Z :=
  match rev l with
  | c :: r => if c =? 13 then rev r else l
  | [] => l
  end.

Fixpoint lines_aux (cur_rev t : list Z) : list (list Z) :=
  match t with
  | [] => match cur_rev with [] => [] | _ => [rev cur_rev] end
  | c :: t' => if c =? 10 then strip_cr (rev cur_rev) :: lines_aux [] t'
               else lines_aux (c :: cur_rev) t'
  end.
Definition lines (t : list Z) : list (list Z) := lines_aux [] t.

(** [char::is_whitespace] on UTF-8: U+0009..000D, 0020, 0085, 00A0, 1680,
    2000..200A, 2028, 2029, 202F, 205F, 3000.  [ws_prefix l] = the rest of [l]
    after one leading white-space character. *)
Definition ws_prefix (l : list Z) : option (list Z) :=
  match l with
  | a :: t1 =>
    if ((9 <=? a) && (a <=? 13)) || (a =? 32) then Some t1 else
    match t1 with
    | b :: t2 =>
      if (a =? 194) && ((b =? 133) || (b =? 160)) then Some t2 else
      match t2 with
      | c :: t3 =>
        if (a =? 225) && (b =? 154) && (c =? 128) then Some t3 else
        if (a =? 226) && (b =? 128) &&
           (((128 <=? c) && (c <=? 138)) || (c =? 168) || (c =? 169) || (c =? 175)) then Some t3 else
        if (a =? 226) && (b =? 129) && (c =? 159) then Some t3 else
        if (a =? 227) && (b =? 128) && (c =? 128) then Some t3 else None
      | [] => None
      end
    | [] => None
    end
  | [] => None
  end.

(** the same on the reversed byte list (one trailing white-space character) *)
Definition ws_suffix_rev (l : list Z) : option (list Z) :=
  match l with
  | c :: t1 =>
    if ((9 <=? c) && (c <=? 13)) || (c =? 32) then Some t1 else
    match t1 with
    | b :: t2 =>
      if (b =? 194) && ((c =? 133) || (c =? 160)) then Some t2 else
      match t2 with
      | a :: t3 =>
        if (a =? 225) && (b =? 154) && (c =? 128) then Some t3 else
        if (a =? 226) && (b =? 128) &&
           (((128 <=? c) && (c <=? 138)) || (c =? 168) || (c =? 169) || (c =? 175)) then Some t3 else
        if (a =? 226) && (b =? 129) && (c =? 159) then Some t3 else
        if (a =? 227) && (b =? 128) && (c =? 128) then Some t3 else None
      | [] => None
      end
    | [] => None
    end
  | [] => None
  end.

Fixpoint strip_while (f : list Z -> option (list Z)) (fuel : nat) (l : list Z) : list Z :=
  match fuel with
  | O => l
  | S k => match f l with Some r => strip_while f k r | None => l end
  end.

(** [str::trim] *)
Definition trim (l : list Z) : list Z :=
  let a := strip_while ws_prefix (length l) l in
  rev (strip_while ws_suffix_rev (length a) (rev a)).

(** [IpAddr::from_str] oracle: trimmed line -> canonical address *)
Definition orc := list (list Z * option addr).
Fixpoint orc_get (o : orc) (l : list Z) : option addr :=
  match o with
  | [] => None
  | (k, v) :: t => if zlist_eqb k l then v else orc_get t l
  end.

(** Independent dotted-quad parser (Rust's [Ipv4Addr] grammar: four decimal
    groups of 1..3 digits, no leading zero unless the group is "0", each <= 255). *)
Definition is_digit (c : Z) : bool := (48 <=? c) && (c <=? 57).
Fixpoint split_dot (cur_rev t : list Z) : list (list Z) :=
  match t with
  | [] => [rev cur_rev]
  | c :: t' => if c =? 46 then rev cur_rev :: split_dot [] t' else split_dot (c :: cur_rev) t'
  end.
Definition octet (g : list Z) : option Z :=
  match g with
  | [] => None
  | d :: r =>
    if forallb is_digit g && (blen g <=? 3) && (match r with [] => true | _ => negb (d =? 48) end)
    then let v := fold_left (fun acc c => acc * 10 + (c - 48)) g 0 in
         if v <=? 255 then Some v else None
    else None
  end.
Definition parse_v4 (l : list Z) : option Z :=
  match map octet (split_dot [] l) with
  | [Some a; Some b; Some c; Some d] => Some (be32 a b c d)
  | _ => None
  end.
Definition v4_shaped (l : list Z) : bool := forallb (fun c => is_digit c || (c =? 46)) l.
(** the oracle agrees with the dotted-quad parser on every digits-and-dots line *)
Definition orc_v4_ok (o : orc) : bool :=
  forallb (fun kv => if v4_shaped (fst kv) then ozeqb (snd kv) (parse_v4 (fst kv)) else true) o.

(** ---------------------------------------------------------------- reload.rs *)
Inductive refusal := RNotFound | REmpty | RNoValid (first_invalid_line : Z).
Inductive analysis :=
| AApply (ips : list addr) (first_invalid_line : option Z)
| ARefuse (r : refusal).

(** the [for (idx, line) in text.lines().enumerate()] loop, accumulators as in the code *)
Fixpoint analyze_loop (o : orc) (ls : list (list Z)) (idx : Z)
         (ips : list addr) (fi : option Z) (saw : bool) : list addr * option Z * bool :=
  match ls with
  | [] => (ips, fi, saw)
  | l :: t =>
    match trim l with
    | [] => analyze_loop o t (idx + 1) ips fi saw
    | tr =>
      match orc_get o tr with
      | Some ip => analyze_loop o t (idx + 1) (ips ++ [ip]) fi true
      | None => analyze_loop o t (idx + 1) ips
                             (match fi with None => Some (idx + 1) | Some n => Some n end) true
      end
    end
  end.

Definition analyze_text (o : orc) (text : list Z) : analysis :=
  let '(ips, fi, saw) := analyze_loop o (lines text) 0 [] None false in
  match ips with
  | [] => if saw then ARefuse (RNoValid (match fi with Some n => n | None => 1 end))
          else ARefuse REmpty
  | _ => AApply ips fi
  end.

(** [analyze_ip_reload]: [None] = [read_to_string] failed (missing, unreadable, not UTF-8) *)
Definition analyze_file (o : orc) (file : option (list Z)) : analysis :=
  match file with
  | None => ARefuse RNotFound
  | Some text => analyze_text o text
  end.

(** ---------------------------------------------------------------- sequence.rs *)
Record entry := { e_id : Z; e_ts : Z; e_seq : Z }.
(** the 16384-slot ring as an association list slot -> entry; an absent slot is the
    default entry (conn_id 0).  The private [count] (logging only) is not modelled. *)
Definition tracker := list (Z * entry).
Definition slot (seq : Z) : Z := Z.land seq SEQ_TRACKING_MASK.
Fixpoint trk_lookup (k : Z) (t : tracker) : option entry :=
  match t with
  | [] => None
  | (k', e) :: r => if k' =? k then Some e else trk_lookup k r
  end.
Definition trk_insert (seq id ts : Z) (t : tracker) : tracker :=
  (slot seq, {| e_id := id; e_ts := ts; e_seq := seq |})
    :: filter (fun p => negb (fst p =? slot seq)) t.
Definition entry_valid (e : entry) (seq now : Z) : bool :=
  negb (e_id e =? 0) && (e_seq e =? seq) &&
  negb (SEQUENCE_TRACKING_MAX_AGE_MS <? ssub now (e_ts e)).
Definition trk_get (seq now : Z) (t : tracker) : option Z :=
  match trk_lookup (slot seq) t with
  | Some e => if entry_valid e seq now then Some (e_id e) else None
  | None => None
  end.
(** [remove_connection]: every entry of that id back to the default entry *)
Definition trk_remove (id : Z) (t : tracker) : tracker :=
  filter (fun p => negb (e_id (snd p) =? id)) t.

(** ---------------------------------------------------------------- ConnIoMap *)
(** conn_id -> socket identity (a token naming the [Arc<BatchUdpSocket>]) *)
Definition iomap := list (Z * Z).
Fixpoint io_get (id : Z) (m : iomap) : option Z :=
  match m with
  | [] => None
  | (k, v) :: r => if k =? id then Some v else io_get id r
  end.
Definition io_remove (id : Z) (m : iomap) : iomap := filter (fun p => negb (fst p =? id)) m.
Definition io_insert (id tok : Z) (m : iomap) : iomap := (id, tok) :: io_remove id m.

(** ---------------------------------------------------------------- state *)
Record link := { l_lab : addr; l_ip : addr; l_id : Z; l_st : list Z }.
Definition with_st (c : link) (st : list Z) : link :=
  {| l_lab := l_lab c; l_ip := l_ip c; l_id := l_id c; l_st := st |}.

Record state := {
  conns : list link;             (* connections: SmallVec<SrtlaConnection, 4> *)
  io : iomap;                    (* conn_io *)
  trk : tracker;                 (* seq_tracker *)
  sel : option Z;                (* last_selected_idx *)
  pend : option (list addr);     (* pending_changes.new_ips *)
  next_tok : Z                   (* naming of sockets: the next fresh token *)
}.
Definition init : state :=
  {| conns := []; io := []; trk := []; sel := None; pend := None; next_tok := 0 |}.

(** ---------------------------------------------------------------- connections.rs *)
(** [create_connections_from_ips]: one attempt per address in order; an address in
    [fail] does not get a socket (warn, skip); a success takes the next fresh
    (conn_id, initial state), inserts the I/O half, pushes the link. *)
Fixpoint create (ips fail : list addr) (fresh : list (Z * list Z)) (m : iomap) (tok : Z)
  : list link * iomap * Z :=
  match ips with
  | [] => ([], m, tok)
  | ip :: t =>
    if mem ip fail then create t fail fresh m tok
    else match fresh with
         | [] => create t fail [] m tok     (* oracle exhausted: excluded by [wf_op] *)
         | (id, st) :: fr =>
           let '(ls, m', tok') := create t fail fr (io_insert id tok m) (tok + 1) in
           ({| l_lab := ip; l_ip := ip; l_id := id; l_st := st |} :: ls, m', tok')
         end
  end.

Definition keep (desired : list addr) (c : link) : bool := mem (l_lab c) desired.

(** the [seen.insert] filter: first occurrence of each address *)
Fixpoint dedup (seen l : list Z) : list Z :=
  match l with
  | [] => []
  | x :: t => if mem x seen then dedup seen t else x :: dedup (x :: seen) t
  end.
Definition needed_ips (current new_ips : list addr) : list addr :=
  filter (fun ip => negb (mem ip current)) (dedup [] new_ips).

(** [for conn_id in removed_conn_ids { seq_tracker.remove_connection(id); conn_io.remove(&id) }] *)
Definition purge (ids : list Z) (t : tracker) (m : iomap) : tracker * iomap :=
  fold_left (fun acc id => (trk_remove id (fst acc), io_remove id (snd acc))) ids (t, m).

(** [apply_connection_changes]; second component = the addresses for which a
    socket was attempted, in order ([new_ips_needed]). *)
Definition apply_changes (new_ips fail : list addr) (fresh : list (Z * list Z)) (s : state)
  : state * list addr :=
  let current := map l_lab (conns s) in
  let removed_ids := map l_id (filter (fun c => negb (keep new_ips c)) (conns s)) in
  let kept := filter (keep new_ips) (conns s) in
  let changed := negb (Nat.eqb (length kept) (length (conns s))) in
  let sel' := if changed then None else sel s in
  let ti := if changed then purge removed_ids (trk s) (io s) else (trk s, io s) in
  let need := needed_ips current new_ips in
  let '(added, m', tok') := create need fail fresh (snd ti) (next_tok s) in
  ({| conns := kept ++ added; io := m'; trk := fst ti; sel := sel'; pend := pend s;
      next_tok := tok' |}, need).

(** ---------------------------------------------------------------- ops *)
Inductive op :=
(** startup: [connections = create_connections_from_ips(&ips, ..)] (no de-duplication) *)
| OCreate (ips fail : list addr) (fresh : list (Z * list Z)) (now : Z)
(** SIGHUP arm: analyse the file, queue the list or refuse *)
| OSighup (file : option (list Z)) (o : orc) (now : Z)
(** housekeeping arm: [if let Some(changes) = pending_changes.take() ...] *)
| OTick (fail : list addr) (fresh : list (Z * list Z)) (now : Z)
(** direct call of [apply_connection_changes] *)
| OApply (ips fail : list addr) (fresh : list (Z * list Z)) (now : Z)
(** a client packet was routed ([handle_srt_packet]): [fwd] = link it was queued on,
    tracked under [seq] at [now]; every link's state afterwards is [sts] *)
| ORoute (fwd : option Z) (seq : option Z) (now : Z) (sts : list (list Z))
(** any core event on link [i] (ACK, NAK, registration, ...): its new state *)
| OTouch (i : Z) (st : list Z)
(** [reconnect_uplink] on link [i]: socket re-created in place, state reset *)
| OReconn (i : Z) (st : list Z).

Fixpoint set_states (ls : list link) (sts : list (list Z)) : list link :=
  match ls, sts with
  | c :: t, st :: ts => with_st c st :: set_states t ts
  | _, _ => ls
  end.
Fixpoint upd_nth (n : nat) (st : list Z) (ls : list link) : list link :=
  match ls, n with
  | [], _ => []
  | c :: t, O => with_st c st :: t
  | c :: t, S k => c :: upd_nth k st t
  end.
Definition nth_link (i : Z) (ls : list link) : option link :=
  if 0 <=? i then nth_error ls (Z.to_nat i) else None.

(** state transition; also returns the analysis (SIGHUP) and the attempted addresses *)
Definition next (s : state) (o : op) : state * option analysis * list addr :=
  match o with
  | OCreate ips fail fresh _ =>
    let '(added, m', tok') := create ips fail fresh (io s) (next_tok s) in
    ({| conns := conns s ++ added; io := m'; trk := trk s; sel := sel s; pend := pend s;
        next_tok := tok' |}, None, ips)
  | OSighup file o _ =>
    let r := analyze_file o file in
    (match r with
     | AApply ips _ => {| conns := conns s; io := io s; trk := trk s; sel := sel s;
                          pend := Some ips; next_tok := next_tok s |}
     | ARefuse _ => s
     end, Some r, [])
  | OTick fail fresh _ =>
    match pend s with
    | Some ips =>
      let '(s', att) := apply_changes ips fail fresh s in
      ({| conns := conns s'; io := io s'; trk := trk s'; sel := sel s'; pend := None;
          next_tok := next_tok s' |}, None, att)
    | None => (s, None, [])
    end
  | OApply ips fail fresh _ =>
    let '(s', att) := apply_changes ips fail fresh s in (s', None, att)
  | ORoute fwd seq now sts =>
    let s1 :=
      match fwd with
      | Some i =>
        match nth_link i (conns s) with
        | Some c =>
          {| conns := conns s; io := io s;
             trk := match seq with Some q => trk_insert q (l_id c) now (trk s) | None => trk s end;
             sel := Some i; pend := pend s; next_tok := next_tok s |}
        | None => s
        end
      | None => s
      end in
    ({| conns := set_states (conns s1) sts; io := io s1; trk := trk s1; sel := sel s1;
        pend := pend s1; next_tok := next_tok s1 |}, None, [])
  | OTouch i st =>
    (match nth_link i (conns s) with
     | Some _ => {| conns := upd_nth (Z.to_nat i) st (conns s); io := io s; trk := trk s;
                    sel := sel s; pend := pend s; next_tok := next_tok s |}
     | None => s
     end, None, [])
  | OReconn i st =>
    (match nth_link i (conns s) with
     | Some c => {| conns := upd_nth (Z.to_nat i) st (conns s);
                    io := io_insert (l_id c) (next_tok s) (io s); trk := trk s;
                    sel := sel s; pend := pend s; next_tok := next_tok s + 1 |}
     | None => s
     end, None, [])
  end.

(** ---------------------------------------------------------------- observations *)
(** what the harness reads from the real structures *)
Record snap := {
  s_links : list link;          (* label address, local_ip, conn_id, full state dump *)
  s_io : iomap;                 (* conn_io: key -> socket token *)
  s_sel : option Z;
  s_pend : option (list addr);
  s_trk : list (option Z);      (* seq_tracker.get(q, now) for every probe q of the case *)
  s_alive : list Z              (* tokens of sockets that still exist *)
}.
Definition snapshot (probes : list Z) (now : Z) (s : state) : snap :=
  {| s_links := conns s; s_io := io s; s_sel := sel s; s_pend := pend s;
     s_trk := map (fun q => trk_get q now (trk s)) probes;
     s_alive := map snd (io s) |}.

Inductive obs :=
| ObsNone
| ObsStep (r : option analysis) (att : list addr) (before after : snap).

Definition op_now (o : op) : option Z :=
  match o with
  | OCreate _ _ _ n | OSighup _ _ n | OTick _ _ n | OApply _ _ _ n => Some n
  | _ => None
  end.

Definition step (probes : list Z) (s : state) (o : op) : state * obs :=
  let '(s', r, att) := next s o in
  (s', match op_now o with
       | Some now => ObsStep r att (snapshot probes now s) (snapshot probes now s')
       | None => ObsNone
       end).

Fixpoint run_from (probes : list Z) (s : state) (ops : list op) : list (op * obs) :=
  match ops with
  | [] => []
  | o :: t => let '(s', ob) := step probes s o in (o, ob) :: run_from probes s' t
  end.
Definition run (probes : list Z) (ops : list op) : list (op * obs) := run_from probes init ops.

Fixpoint final_from (s : state) (ops : list op) : state :=
  match ops with
  | [] => s
  | o :: t => final_from (fst (fst (next s o))) t
  end.

(** ---------------------------------------------------------------- oracle well-formedness *)
(** Fresh ids handed out by [rand::rng().next_u64()] are new and pairwise distinct
    (a collision has probability 2^-64 per draw and is outside the claim), and the
    oracle supplies one per socket that gets created. *)
Definition ids (s : state) : list Z := map l_id (conns s).
Definition fresh_ok (s : state) (attempt fail : list addr) (fresh : list (Z * list Z)) : Prop :=
  NoDup (map fst fresh) /\
  (forall id, In id (map fst fresh) -> ~ In id (ids s)) /\
  (length (filter (fun ip => negb (mem ip fail)) attempt) <= length fresh)%nat.

Definition wf_op (s : state) (o : op) : Prop :=
  match o with
  | OCreate ips fail fresh _ => fresh_ok s ips fail fresh
  | OTick fail fresh _ =>
    match pend s with
    | Some ips => fresh_ok s (needed_ips (map l_lab (conns s)) ips) fail fresh
    | None => True
    end
  | OApply ips fail fresh _ => fresh_ok s (needed_ips (map l_lab (conns s)) ips) fail fresh
  | _ => True
  end.
Fixpoint wf_ops (s : state) (ops : list op) : Prop :=
  match ops with
  | [] => True
  | o :: t => wf_op s o /\ wf_ops (fst (fst (next s o))) t
  end.
