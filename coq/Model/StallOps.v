(** StallOps.v — histories for C12/C13: environment operations on the links
    (in-flight changes, inbound bytes, earned SRTLA ACKs, keepalive echoes,
    connect / disconnect, link resets, foreign-field updates) and routing decisions.
    [step] is total; [trace] records pre-state, post-state and decision of every op.
    Definitions only. *)
From Coq Require Import Floats.
From Srtla Require Import Base Constants FConstants Stall StallSel.
Local Open Scope Z_scope.

(** fields no model op computes: they are *set* by [OForeign] to what the environment
    made them (window moves, NAK counters, phase machine, reconnect bookkeeping, RTT
    estimate, bitrate, classifier verdicts ...).  Theorems quantify over all values. *)
Record foreign := mkF {
  f_window : Z; f_lastsent : option Z; f_lastka : option Z; f_naks : Z; f_burst : Z;
  f_phase : Z; f_estab : Z; f_grace : Z; f_rclast : Z; f_rcfail : Z; f_rest : list Z;
  f_aux : aux }.
Arguments mkF _%Z _ _ _%Z _%Z _%Z _%Z _%Z _%Z _%Z _ _.

Inductive op :=
| OReg (i k now : Z)                     (* k x register_packet(fresh seq, now) *)
| OSrtlaAck (i : Z) (known : bool) (now : Z)   (* handle_srtla_ack_specific(oldest outstanding | unknown seq) *)
| OSrtAck (i k : Z)                      (* handle_srt_ack retiring the k oldest outstanding (k >= 1, log non-empty) *)
| OForce (i n : Z)                       (* packet_log.clear(); in_flight_packets = n *)
| OInbound (i now : Z)                   (* any inbound datagram: last_received = now *)
| OEcho (i : Z) (waiting : bool) (ts now : Z)  (* keepalive echo with timestamp ts *)
| OSetConn (i : Z) (b : bool)
| OSetRecv (i : Z) (r : option Z)
| OReset (i : Z)                         (* mark_for_recovery / reset_for_reconnect: reset_core_state *)
| OReg3 (i now : Z)                      (* REG3: clear_pre_registration_state, connected, last_received *)
| OForeign (i : Z) (f : foreign)
| OSelect (last : option Z) (now : Z) (cfg : config) (ins : list selin).

(** ---- per-link effect of an environment op ---------------------------------------- *)
Definition set_acct (l : link) (a : acct) : link := mkL a (lg l) (lx l) (lc l).

Definition with_log (a : acct) (n : Z) : acct :=   (* in_flight_packets = packet_log.len() *)
  mkA (a_conn a) (a_window a) n n (a_lastrecv a) (a_lastsent a) (a_lastka a) (a_proof a)
      (a_naks a) (a_burst a) (a_phase a) (a_estab a) (a_grace a) (a_rclast a) (a_rcfail a) (a_rest a).
Definition with_proof (a : acct) (p : Z) : acct :=
  mkA (a_conn a) (a_window a) (a_inflight a) (a_logn a) (a_lastrecv a) (a_lastsent a) (a_lastka a) p
      (a_naks a) (a_burst a) (a_phase a) (a_estab a) (a_grace a) (a_rclast a) (a_rcfail a) (a_rest a).
Definition with_recv (a : acct) (r : option Z) : acct :=
  mkA (a_conn a) (a_window a) (a_inflight a) (a_logn a) r (a_lastsent a) (a_lastka a) (a_proof a)
      (a_naks a) (a_burst a) (a_phase a) (a_estab a) (a_grace a) (a_rclast a) (a_rcfail a) (a_rest a).
Definition with_conn (a : acct) (b : bool) : acct :=
  mkA b (a_window a) (a_inflight a) (a_logn a) (a_lastrecv a) (a_lastsent a) (a_lastka a) (a_proof a)
      (a_naks a) (a_burst a) (a_phase a) (a_estab a) (a_grace a) (a_rclast a) (a_rcfail a) (a_rest a).
Definition with_force (a : acct) (n : Z) : acct :=
  mkA (a_conn a) (a_window a) n 0 (a_lastrecv a) (a_lastsent a) (a_lastka a) (a_proof a)
      (a_naks a) (a_burst a) (a_phase a) (a_estab a) (a_grace a) (a_rclast a) (a_rcfail a) (a_rest a).

(** keepalive echo accepted as an RTT sample: waiting && 0 < now - ts <= 10000 *)
Definition echo_ok (waiting : bool) (ts now : Z) : bool :=
  waiting && (0 <? ssub now ts) && (ssub now ts <=? SRT_ACK_RTT_CAP_MS).

(** [reset_core_state] (+ [last_received = None] of both callers) *)
Definition reset_link (l : link) : link :=
  let a := la l in let g := lg l in
  mkL (mkA false (WINDOW_DEF * WINDOW_MULT) 0 0 None (a_lastsent a) (a_lastka a) 0
           (a_naks a) (a_burst a) 0 (a_estab a) (a_grace a) (a_rclast a) (a_rcfail a) (a_rest a))
      (mkG false 0 0 (g_events g) 0 false (g_pulls g)) (lx l) (lc l).

Definition set_foreign (l : link) (f : foreign) : link :=
  let a := la l in
  mkL (mkA (a_conn a) (f_window f) (a_inflight a) (a_logn a) (a_lastrecv a) (f_lastsent f) (f_lastka f)
           (a_proof a) (f_naks f) (f_burst f) (f_phase f) (f_estab f) (f_grace f) (f_rclast f)
           (f_rcfail f) (f_rest f))
      (lg l) (f_aux f) (lc l).

(** the effect of an environment op on the link it targets *)
Definition env_link (o : op) (l : link) : link :=
  let a := la l in
  match o with
  | OReg _ k _ => set_acct l (with_log a (a_logn a + k))
  | OSrtlaAck _ known now =>
    if known && (0 <? a_logn a) then set_acct l (with_proof (with_log a (a_logn a - 1)) now) else l
  | OSrtAck _ k => set_acct l (with_log a (Z.max 0 (a_logn a - k)))
  | OForce _ n => set_acct l (with_force a n)
  | OInbound _ now => set_acct l (with_recv a (Some now))
  | OEcho _ w ts now =>
    let a1 := with_recv a (Some now) in
    set_acct l (if echo_ok w ts now then with_proof a1 now else a1)
  | OSetConn _ b => set_acct l (with_conn a b)
  | OSetRecv _ r => set_acct l (with_recv a r)
  | OReset _ => reset_link l
  | OReg3 _ now =>      (* also: quality_cache = CachedQuality::default() *)
    mkL (with_conn (with_recv (with_log a 0) (Some now)) true) (lg l) (lx l)
        (mkC (c_ctimeout (lc l)) 1%float 0)
  | OForeign _ f => set_foreign l f
  | OSelect _ _ _ _ => l
  end.

Definition op_target (o : op) : option Z :=
  match o with
  | OReg i _ _ | OSrtlaAck i _ _ | OSrtAck i _ | OForce i _ | OInbound i _ | OEcho i _ _ _
  | OSetConn i _ | OSetRecv i _ | OReset i | OReg3 i _ | OForeign i _ => Some i
  | OSelect _ _ _ _ => None
  end.

Fixpoint upd_nth {A} (n : nat) (f : A -> A) (l : list A) : list A :=
  match l, n with
  | [], _ => []
  | x :: t, O => f x :: t
  | x :: t, S k => x :: upd_nth k f t
  end.

Definition state := list link.

(** one op: new state and the decision ([None] for environment ops) *)
Definition step (s : state) (o : op) : state * option Z :=
  match o with
  | OSelect last now cfg ins => select cfg last now ins s
  | _ => match op_target o with
         | Some i => if i <? 0 then (s, None) else (upd_nth (Z.to_nat i) (env_link o) s, None)
         | None => (s, None)
         end
  end.

Record tstep := mkT { t_op : op; t_pre : state; t_post : state; t_res : option Z }.

Fixpoint trace (s : state) (ops : list op) : list tstep :=
  match ops with
  | [] => []
  | o :: t => let '(s', r) := step s o in mkT o s s' r :: trace s' t
  end.

Fixpoint run (s : state) (ops : list op) : state :=
  match ops with
  | [] => s
  | o :: t => run (fst (step s o)) t
  end.

(** a fresh link as built by [SrtlaConnection::new_registering(.., now)] *)
Definition link0 (now : Z) : link :=
  mkL (mkA false (WINDOW_DEF * WINDOW_MULT) 0 0 None None None 0 0 0 0 0 (now + STARTUP_GRACE_MS) 0 0 [])
      (mkG false 0 0 0 0 false 0)
      (mkX 0 false false 0 0%float false 0)
      (mkC CONN_TIMEOUT_MS 1%float 0).

(** "all stall history erased" (C12) *)
Definition forget_stall (l : link) : link := mkL (la l) (mkG false 0 0 0 0 false 0) (lx l) (lc l).
