(** Rtt.v — executable model of
      crates/srtla-core/src/kalman.rs          (KalmanFilter::update / reset)
      crates/srtla-core/src/ewma.rs            (Ewma::update / reset)
      crates/srtla-core/src/connection/rtt.rs  (RttTracker: update_estimate,
                                                handle_keepalive_response, needs_measurement,
                                                record_keepalive_sent, reset)
    in Coq primitive floats (IEEE-754 binary64, evaluated by the kernel/VM), operation
    for operation in the order the Rust code performs them, so that agreement with the
    real code is bit-for-bit.  Only [+ - * /], [abs], comparisons, [f64::min/max] (Rust
    NaN rule written out) and the integer->f64 / f64->u32 casts occur.  No proofs here. *)
From Coq Require Import Floats Uint63.
From Srtla Require Import Base Constants FConstants Wire.
Local Open Scope Z_scope.

(** ---- Rust f64 primitives --------------------------------------------------------- *)
Definition f_is_nan (x : float) : bool := PrimFloat.is_nan x.
Definition f_is_inf (x : float) : bool := PrimFloat.is_infinity x.
Definition f_is_finite (x : float) : bool := negb (f_is_nan x) && negb (f_is_inf x).

(** [x.max(0.0)] — f64::max returns the non-NaN operand; negatives (and -0.0, which is
    not [< 0]) are handled as the comparison dictates. *)
Definition f_max0 (x : float) : float :=
  if f_is_nan x then 0%float else if (x <? 0)%float then 0%float else x.

(** [f64::min(a, b)]: the non-NaN operand if one is NaN, else the lesser. *)
Definition f_min (a b : float) : float :=
  if f_is_nan a then b else if f_is_nan b then a else if (b <? a)%float then b else a.

(** [n as f64] for [0 <= n < 2^63] (exact below 2^53). *)
Definition f_of_Z (n : Z) : float := of_uint63 (Uint63.of_Z n).

(** [x as u32]: truncation toward zero, saturating, NaN -> 0. *)
Definition u32_max : Z := two32 - 1.
Definition f_as_u32 (x : float) : Z :=
  match Prim2SF x with
  | S754_zero _ => 0
  | S754_nan => 0
  | S754_infinity s => if s then 0 else u32_max
  | S754_finite s m e => if s then 0 else clamp 0 u32_max (Z.shiftl (Zpos m) e)
  end.

Definition F64_MAX : float := 0x1.fffffffffffffp+1023%float.

(** ---- kalman.rs -------------------------------------------------------------------- *)
(** [KalmanConfig::for_rtt()] — literals inside a fn body, not [const] items: KALMAN_Q_VALUE,
    KALMAN_Q_VELOCITY, KALMAN_R are regenerated into Gen/FConstants.v as anchored literals
    (tools/gen_constants.py FANCHORS), like EWMA_DELTA_ALPHA ([Ewma::new(0.2)] in RttTracker::default),
    RTT_DEFAULT_MIN and RTT_JITTER_DECAY below.  The 1e-12 guard is tied by Proofs/LeafRttP.v. *)
Definition KALMAN_S_EPS : float := 0x1.19799812dea11p-40%float.     (* 1e-12 *)

Record kalman := { kx : float; kv : float; kp0 : float; kp1 : float; kp2 : float; kp3 : float;
                   kinit : bool }.

Definition kalman_new : kalman :=
  {| kx := 0; kv := 0; kp0 := 0; kp1 := 0; kp2 := 0; kp3 := 0; kinit := false |}.

Definition kalman_update (k : kalman) (m : float) : kalman :=
  if f_is_nan m || f_is_inf m then k else
  if negb (kinit k) then
    {| kx := m; kv := 0; kp0 := KALMAN_R; kp1 := 0; kp2 := 0; kp3 := KALMAN_R; kinit := true |}
  else
    let x_pred := (kx k + kv k)%float in
    let v_pred := kv k in
    let p00 := (kp0 k + kp2 k + kp1 k + kp3 k + KALMAN_Q_VALUE)%float in
    let p01 := (kp1 k + kp3 k)%float in
    let p10 := (kp2 k + kp3 k)%float in
    let p11 := (kp3 k + KALMAN_Q_VELOCITY)%float in
    let y := (m - x_pred)%float in
    let s := (p00 + KALMAN_R)%float in
    if (PrimFloat.abs s <? KALMAN_S_EPS)%float then k else
    let k0 := (p00 / s)%float in
    let k1 := (p10 / s)%float in
    {| kx := (x_pred + k0 * y)%float; kv := (v_pred + k1 * y)%float;
       kp0 := ((1 - k0) * p00)%float; kp1 := ((1 - k0) * p01)%float;
       kp2 := (p10 - k1 * p00)%float; kp3 := (p11 - k1 * p01)%float; kinit := true |}.

(** ---- ewma.rs ----------------------------------------------------------------------- *)
Record ewma := { ev : float; einit : bool }.
Definition ewma_new : ewma := {| ev := 0; einit := false |}.
Definition ewma_update (alpha : float) (e : ewma) (m : float) : ewma :=
  if f_is_nan m || f_is_inf m then e else
  if negb (einit e) then {| ev := m; einit := true |}
  else {| ev := (ev e * (1 - alpha) + m * alpha)%float; einit := true |}.

(** ---- rtt.rs ------------------------------------------------------------------------ *)

Record rtt := {
  r_ka_sent_ms : Z;          (* last_keepalive_sent_ms *)
  r_waiting : bool;          (* waiting_for_keepalive_response *)
  r_last_meas : Z;           (* last_rtt_measurement_ms *)
  r_k : kalman;              (* kalman_rtt *)
  r_jitter : float; r_prev : float; r_avgd : ewma;
  r_min : float; r_min_fast : float; r_min_slow : float; r_masd : float; r_est : float;
  r_fastw : list float; r_sloww : list float; r_filt : list float   (* oldest first *)
}.

Definition rtt_default : rtt :=
  {| r_ka_sent_ms := 0; r_waiting := false; r_last_meas := 0; r_k := kalman_new;
     r_jitter := 0; r_prev := 0; r_avgd := ewma_new;
     r_min := RTT_DEFAULT_MIN; r_min_fast := RTT_DEFAULT_MIN; r_min_slow := RTT_DEFAULT_MIN;
     r_masd := 0; r_est := 0; r_fastw := []; r_sloww := []; r_filt := [] |}.

(** [RttTracker::reset] — every field back to the default. *)
Definition rtt_reset (r : rtt) : rtt := rtt_default.

(** push_back then pop_front while len > cap *)
Definition win_push (w : list float) (x : float) (cap : Z) : list float :=
  let w' := w ++ [x] in skipn (Z.to_nat (blen w' - cap)) w'.
Definition win_min (w : list float) : float := fold_left f_min w F64_MAX.

Definition update_estimate (r : rtt) (rtt_ms now : Z) : rtt :=
  let cur := f_of_Z rtt_ms in
  let filt := win_push (r_filt r) cur RTT_SAMPLE_FILTER_SIZE in
  let filtered := win_min filt in
  if negb (kinit (r_k r)) then
    {| r_ka_sent_ms := r_ka_sent_ms r; r_waiting := r_waiting r; r_last_meas := now;
       r_k := kalman_update (r_k r) cur;
       r_jitter := r_jitter r; r_prev := cur; r_avgd := r_avgd r;
       r_min := filtered; r_min_fast := filtered; r_min_slow := filtered;
       r_masd := 0; r_est := cur;
       r_fastw := r_fastw r ++ [filtered]; r_sloww := r_sloww r ++ [filtered]; r_filt := filt |}
  else
    let k' := kalman_update (r_k r) cur in
    let delta := (cur - r_prev r)%float in
    let avgd := ewma_update EWMA_DELTA_ALPHA (r_avgd r) delta in
    let masd := (r_masd r * (1 - RTT_MASD_ALPHA) + PrimFloat.abs delta * RTT_MASD_ALPHA)%float in
    let fastw := win_push (r_fastw r) filtered FAST_WINDOW_SAMPLES in
    let sloww := win_push (r_sloww r) filtered SLOW_WINDOW_SAMPLES in
    let fast_min := win_min fastw in
    let slow_min := win_min sloww in
    let j := (r_jitter r * RTT_JITTER_DECAY)%float in
    let j := if (j <? PrimFloat.abs delta)%float then PrimFloat.abs delta else j in
    {| r_ka_sent_ms := r_ka_sent_ms r; r_waiting := r_waiting r; r_last_meas := now;
       r_k := k'; r_jitter := j; r_prev := cur; r_avgd := avgd;
       r_min := f_min fast_min slow_min; r_min_fast := fast_min; r_min_slow := slow_min;
       r_masd := masd; r_est := kx k';
       r_fastw := fastw; r_sloww := sloww; r_filt := filt |}.

Definition set_waiting (r : rtt) (w : bool) : rtt :=
  {| r_ka_sent_ms := r_ka_sent_ms r; r_waiting := w; r_last_meas := r_last_meas r; r_k := r_k r;
     r_jitter := r_jitter r; r_prev := r_prev r; r_avgd := r_avgd r; r_min := r_min r;
     r_min_fast := r_min_fast r; r_min_slow := r_min_slow r; r_masd := r_masd r; r_est := r_est r;
     r_fastw := r_fastw r; r_sloww := r_sloww r; r_filt := r_filt r |}.

Definition record_keepalive_sent (r : rtt) (now : Z) : rtt :=
  {| r_ka_sent_ms := now; r_waiting := true; r_last_meas := r_last_meas r; r_k := r_k r;
     r_jitter := r_jitter r; r_prev := r_prev r; r_avgd := r_avgd r; r_min := r_min r;
     r_min_fast := r_min_fast r; r_min_slow := r_min_slow r; r_masd := r_masd r; r_est := r_est r;
     r_fastw := r_fastw r; r_sloww := r_sloww r; r_filt := r_filt r |}.

(** mark_for_recovery's two writes into the tracker *)
Definition rtt_disarm (r : rtt) : rtt :=
  {| r_ka_sent_ms := 0; r_waiting := false; r_last_meas := r_last_meas r; r_k := r_k r;
     r_jitter := r_jitter r; r_prev := r_prev r; r_avgd := r_avgd r; r_min := r_min r;
     r_min_fast := r_min_fast r; r_min_slow := r_min_slow r; r_masd := r_masd r; r_est := r_est r;
     r_fastw := r_fastw r; r_sloww := r_sloww r; r_filt := r_filt r |}.

(** [extract_keepalive_timestamp] is total (C15_total); the non-[Ok] arm is unreachable. *)
Definition ka_ts (b : list Z) : option Z :=
  match extract_keepalive_timestamp b with Ok o => o | _ => None end.

(** [handle_keepalive_response]: new tracker and the returned sample. *)
Definition handle_keepalive_response (r : rtt) (b : list Z) (now : Z) : rtt * option Z :=
  if negb (r_waiting r) then (r, None) else
  match ka_ts b with
  | Some ts =>
    let rt := ssub now ts in
    if (0 <? rt) && (rt <=? KA_RTT_CAP_MS)
    then (set_waiting (update_estimate r rt now) false, Some rt)
    else (set_waiting r false, None)
  | None => (set_waiting r false, None)
  end.

Definition needs_measurement (r : rtt) (connected : bool) (established now : Z) : bool :=
  if established =? 0 then false else
  connected && negb (r_waiting r) &&
  ((r_last_meas r =? 0) || (RTT_NEEDS_MEASUREMENT_GAP_MS <? ssub now (r_last_meas r))).
