(** ClassicRef.v — the reference srtla_send algorithm, written independently of the
    Rust code and of its model (Model/Classic.v), from the text of property C10 only:

      - a packet goes to the usable uplink with the largest
        window / (in-flight + queued + 1), integer division, ties to the
        lowest-numbered uplink;
      - window rules: +29 on an earned SRTLA ACK only when in-flight x 1000 exceeds
        the window; +1 on every connected link (that has received) per
        SRTLA-acknowledged packet; -100 per charged NAK; bounds 1000..60000;
      - nothing else moves a window (no quality, RTT, hysteresis, gate, or
        time-based recovery).

    The literals are those of the property text; nothing here refers to
    Gen/Constants.v.  Definitions only. *)
From Coq Require Import ZArith List Bool.
Import ListNotations.
Open Scope Z_scope.

(** what the reference looks at, per uplink *)
Record rlink := {
  r_usable : bool;      (* registered, connected, not silent past the liveness timeout *)
  r_window : Z;
  r_inflight : Z;       (* packets sent and not yet retired *)
  r_queued : Z          (* packets accepted and not yet flushed *)
}.

Definition ref_score (l : rlink) : Z := r_window l / (r_inflight l + r_queued l + 1).

(** first maximum over the usable links; [i] is the index of the head of [ls] *)
Fixpoint ref_argmax (ls : list rlink) (i : nat) (best : option (nat * Z)) : option (nat * Z) :=
  match ls with
  | [] => best
  | l :: t =>
    let best' :=
      if r_usable l then
        match best with
        | None => Some (i, ref_score l)
        | Some (_, b) => if b <? ref_score l then Some (i, ref_score l) else best
        end
      else best in
    ref_argmax t (S i) best'
  end.

Definition ref_select (ls : list rlink) : option nat :=
  match ref_argmax ls O None with Some (i, _) => Some i | None => None end.

(** window rules *)
Definition ref_ack_earned (w inflight : Z) : Z :=
  if w <? inflight * 1000 then Z.min (w + 29) 60000 else w.
Definition ref_ack_global (connected received : bool) (w : Z) : Z :=
  if connected && received then Z.min (w + 1) 60000 else w.
Definition ref_nak (w : Z) : Z := Z.max (w - 100) 1000.

(** One SRTLA-acknowledged packet.  Per link the reference needs
    (connected, has received, window, sequence numbers in flight).  The ACK is earned
    by the arrival link if it holds the number, else by the lowest-numbered other
    holder; the earner retires the number and applies the +29 rule on its remaining
    in-flight count; then every connected link that has received gets +1. *)
Definition alink := (bool * bool * Z * list Z)%type.
Definition a_conn (l : alink) := fst (fst (fst l)).
Definition a_recv (l : alink) := snd (fst (fst l)).
Definition a_win (l : alink) := snd (fst l).
Definition a_keys (l : alink) := snd l.

Definition holds (seq : Z) (l : alink) : bool := existsb (Z.eqb seq) (a_keys l).

Definition earn (seq : Z) (l : alink) : alink :=
  let keys' := filter (fun k => negb (k =? seq)) (a_keys l) in
  (a_conn l, a_recv l, ref_ack_earned (a_win l) (Z.of_nat (length keys')), keys').

(** the lowest-numbered holder other than [skip] earns *)
Fixpoint earn_first (seq : Z) (skip : nat) (i : nat) (ls : list alink) : list alink :=
  match ls with
  | [] => []
  | l :: t =>
    if negb (Nat.eqb i skip) && holds seq l then earn seq l :: t else l :: earn_first seq skip (S i) t
  end.

Fixpoint map_at {A} (i : nat) (f : A -> A) (l : list A) : list A :=
  match l, i with
  | [], _ => []
  | x :: t, O => f x :: t
  | x :: t, S k => x :: map_at k f t
  end.

Definition ref_global (l : alink) : alink :=
  (a_conn l, a_recv l, ref_ack_global (a_conn l) (a_recv l) (a_win l), a_keys l).

Definition ref_srtla_ack_one (arrival : nat) (ls : list alink) (seq : Z) : list alink :=
  match nth_error ls arrival with
  | None => ls                           (* no such uplink: not an event *)
  | Some l =>
    let ls1 := if holds seq l then map_at arrival (earn seq) ls else earn_first seq arrival O ls in
    map ref_global ls1
  end.

Definition ref_srtla_ack (arrival : nat) (ls : list alink) (seqs : list Z) : list alink :=
  fold_left (ref_srtla_ack_one arrival) seqs ls.

(** [k] charged NAKs on one link *)
Fixpoint ref_naks (k : nat) (w : Z) : Z :=
  match k with O => w | S k' => ref_naks k' (ref_nak w) end.
