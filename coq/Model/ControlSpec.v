(** ControlSpec.v — the control protocol as the property text states it, written
    declaratively and independently of the dispatcher model (Control.v): what a
    request is, which answer a line must get on which entry point, which setting a
    line applies.  Used by the C18 monitor; no proofs here. *)
From Srtla Require Import Base Json.
From Srtla Require Import Control.   (* only for the data types: mode, config, env, line_outcome, value_ok *)
Local Open Scope string_scope.
Local Open Scope Z_scope.

(** ---- request shape (serde-derive semantics, stated by counting) ---- *)
Definition count_key (k : string) (m : list (string * json)) : nat :=
  List.length (filter (fun kv => String.eqb k (fst kv)) m).

Definition null_is_absent (o : option json) : option json :=
  match o with Some JNull => None | x => x end.

Definition opt_value_ok (o : option json) : bool :=
  match o with Some v => value_ok v | None => true end.

(** (version, method, params, id) of a line that has the request shape *)
Definition spec_request (j : json) : option (string * string * json * option json) :=
  match j with
  | JObj m =>
      if (Nat.leb (count_key "jsonrpc" m) 1 && Nat.leb (count_key "method" m) 1 &&
          Nat.leb (count_key "params" m) 1 && Nat.leb (count_key "id" m) 1)%bool then
        match assoc "jsonrpc" m, assoc "method" m with
        | Some (JStr v), Some (JStr me) =>
            let p := assoc "params" m in
            let i := null_is_absent (assoc "id" m) in
            if opt_value_ok p && opt_value_ok i then
              Some (v, me, match p with Some p => to_value p | None => JNull end, option_map to_value i)
            else None
        | _, _ => None
        end
      else None
  | JArr (JStr v :: JStr me :: rest) =>
      if (Nat.leb (List.length rest) 2) then
        let p := nth_error rest 0 in
        let i := null_is_absent (nth_error rest 1) in
        if opt_value_ok p && opt_value_ok i then
          Some (v, me, match p with Some p => to_value p | None => JNull end, option_map to_value i)
        else None
      else None
  | _ => None
  end.

(** ---- entry points and methods ---- *)
Inductive entry := Stdin | Socket (ctx : bool).

Definition is_sub_method (m : string) : bool :=
  String.eqb m "subscribe" || String.eqb m "unsubscribe" || String.eqb m "get_subscription_count".

Definition is_base_method (m : string) : bool :=
  String.eqb m "set_mode" || String.eqb m "set_quality" || String.eqb m "set_stall_deselect" ||
  String.eqb m "set_conn_timeout" || String.eqb m "get_status" || String.eqb m "get_stats".

Definition known_method (e : entry) (m : string) : bool :=
  is_base_method m || (match e with Socket true => is_sub_method m | _ => false end).

Definition str_in (o : option json) (l : list string) : bool :=
  match o with Some (JStr s) => existsb (String.eqb s) l | _ => false end.
Definition is_bool (o : option json) : bool := match o with Some (JBool _) => true | _ => false end.
Definition is_u64 (o : option json) : bool :=
  match o with Some (JInt z) => (0 <=? z) && (z <? two64) | _ => false end.
Definition is_string (o : option json) : bool := match o with Some (JStr _) => true | _ => false end.

(** well-typed parameters, per method *)
Definition params_ok (m : string) (p : json) : bool :=
  if String.eqb m "set_mode" then str_in (vget p "mode") ["classic"; "enhanced"]
  else if String.eqb m "set_quality" then is_bool (vget p "enabled")
  else if String.eqb m "set_stall_deselect" then is_bool (vget p "enabled")
  else if String.eqb m "set_conn_timeout" then is_u64 (vget p "ms")
  else if String.eqb m "subscribe" then str_in (vget p "topic") ["stats"; "priority.window"]
  else if String.eqb m "unsubscribe" then is_string (vget p "subscription_id")
  else true.

(** the answer a line must get *)
Inductive expect :=
| ENone                          (* no response: blank line, notification *)
| EError (id : json) (code : Z)
| EResult (id : json)
| EResultOrInternal (id : json). (* get_stats: a result, or -32603 when no provider answers *)

Definition expect_for (e : entry) (v me : string) (p : json) (id : json) : expect :=
  if negb (String.eqb v "2.0") then EError id (-32600)
  else if negb (known_method e me) then EError id (-32601)
  else if negb (params_ok me p) then EError id (-32602)
  else if String.eqb me "get_stats" then EResultOrInternal id
  else EResult id.

Definition spec_expect (e : entry) (l : line_outcome) : expect :=
  match l with
  | Blank => ENone
  | Unparsable => EError JNull (-32700)
  | Parsed j =>
      match spec_request j with
      | None => EError JNull (-32700)      (* valid JSON, not a request: "unparsable", null id *)
      | Some (_, _, _, None) => ENone       (* notification *)
      | Some (v, me, p, Some id) => expect_for e v me p id
      end
  end.

(** ---- the setting a line applies (with or without an id) ---- *)
Inductive setting := SMode (m : mode) | SQuality (b : bool) | SStall (b : bool) | STimeout (ms : Z).

Definition spec_clamp (ms : Z) : Z := Z.min 60000 (Z.max 1000 ms).

(** the setting a method call with well-typed parameters applies *)
Definition setting_of (me : string) (p : json) : option setting :=
  if String.eqb me "set_mode" then
    match vget p "mode" with
    | Some (JStr s) => Some (SMode (if String.eqb s "classic" then Classic else Enhanced))
    | _ => None
    end
  else if String.eqb me "set_quality" then
    match vget p "enabled" with Some (JBool b) => Some (SQuality b) | _ => None end
  else if String.eqb me "set_stall_deselect" then
    match vget p "enabled" with Some (JBool b) => Some (SStall b) | _ => None end
  else if String.eqb me "set_conn_timeout" then
    match vget p "ms" with Some (JInt z) => Some (STimeout (spec_clamp z)) | _ => None end
  else None.

Definition spec_setting (l : line_outcome) : option setting :=
  match l with
  | Parsed j =>
      match spec_request j with
      | Some (v, me, p, _) => if String.eqb v "2.0" && params_ok me p then setting_of me p else None
      | None => None
      end
  | _ => None
  end.

(** method of a request-shaped line with the right version (for the status / agreement clauses) *)
Definition spec_method (l : line_outcome) : option (string * bool) :=   (* (method, has id) *)
  match l with
  | Parsed j =>
      match spec_request j with
      | Some (v, me, _, id) => Some (me, match id with Some _ => true | None => false end)
      | None => None
      end
  | _ => None
  end.

(** ---- what has been set so far in a history, per field ---- *)
Record tracked := {
  tk_mode : option mode;
  tk_quality : option bool;
  tk_stall : option bool;
  tk_timeout : option Z
}.
Definition tracked_none : tracked := {| tk_mode := None; tk_quality := None; tk_stall := None; tk_timeout := None |}.

Definition track (t : tracked) (s : option setting) : tracked :=
  match s with
  | None => t
  | Some (SMode m) => {| tk_mode := Some m; tk_quality := tk_quality t; tk_stall := tk_stall t; tk_timeout := tk_timeout t |}
  | Some (SQuality b) => {| tk_mode := tk_mode t; tk_quality := Some b; tk_stall := tk_stall t; tk_timeout := tk_timeout t |}
  | Some (SStall b) => {| tk_mode := tk_mode t; tk_quality := tk_quality t; tk_stall := Some b; tk_timeout := tk_timeout t |}
  | Some (STimeout z) => {| tk_mode := tk_mode t; tk_quality := tk_quality t; tk_stall := tk_stall t; tk_timeout := Some z |}
  end.

Definition opt_agrees {A} (eqb : A -> A -> bool) (o : option A) (x : A) : bool :=
  match o with None => true | Some y => eqb y x end.

(** a configuration snapshot shows everything set so far *)
Definition snap_shows (t : tracked) (c : config) : bool :=
  opt_agrees mode_eqb (tk_mode t) (c_mode c) && opt_agrees Bool.eqb (tk_quality t) (c_quality c) &&
  opt_agrees Bool.eqb (tk_stall t) (c_stall c) && opt_agrees Z.eqb (tk_timeout t) (c_timeout c).

(** a `get_status` result shows everything set so far *)
Definition field_shows (o : option json) (want : option json) : bool :=
  match want with
  | None => true
  | Some w => match o with Some x => json_eqb x w | None => false end
  end.
Definition status_shows (t : tracked) (r : json) : bool :=
  field_shows (vget r "mode") (option_map (fun m => JStr (mode_str m)) (tk_mode t)) &&
  field_shows (vget r "quality_enabled") (option_map JBool (tk_quality t)) &&
  field_shows (vget r "stall_deselect") (option_map JBool (tk_stall t)) &&
  field_shows (vget r "conn_timeout_ms") (option_map JInt (tk_timeout t)).
