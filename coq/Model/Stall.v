(** Stall.v — executable model of the stall guard of srtla-core:
    connection/mod.rs  [effective_stall_stale_ms] [is_stalled] [update_stall_latch]
                       [clear_stall_latch] [silence_pull_window_ms] [is_briefly_silent]
                       [update_silence_pull] [is_timed_out] [reset_core_state]
    selection/mod.rs   [apply_stall_gate]
    and of the proof-stamping sites (ack_nak.rs [handle_srtla_ack_specific],
    src/sender/uplink_recv.rs keepalive arm).  Definitions only, no proofs.

    The link record is split by *who may write what*:
      [acct]  liveness / accounting state (never written by a routing decision)
      [aux]   further inputs of a routing decision (never written by it either)
      [guard] the stall guard's private state
      [cache] what a routing decision refreshes besides the guard
              ([conn_timeout_ms], the quality cache).
    The smoothed RTT enters as two observed inputs of the link:
    [x_rttpos] = not ([get_smooth_rtt_ms() <= 0.0]) and [x_rttms] = [srtt as u64]. *)
From Coq Require Import Floats.
From Srtla Require Import Base Constants FConstants.
Local Open Scope Z_scope.

Record acct := mkA {
  a_conn : bool;            (* connected *)
  a_window : Z;             (* window *)
  a_inflight : Z;           (* in_flight_packets *)
  a_logn : Z;               (* packet_log.len() *)
  a_lastrecv : option Z;    (* last_received *)
  a_lastsent : option Z;    (* last_sent *)
  a_lastka : option Z;      (* last_keepalive_sent *)
  a_proof : Z;              (* last_ack_or_rtt_sample_ms, 0 = none *)
  a_naks : Z;               (* congestion.nak_count *)
  a_burst : Z;              (* congestion.nak_burst_count *)
  a_phase : Z;              (* 0 Registering, 1 Warming, 2 Live, 3 Degraded *)
  a_estab : Z;              (* reconnection.connection_established_ms *)
  a_grace : Z;              (* reconnection.startup_grace_deadline_ms *)
  a_rclast : Z;             (* reconnection.last_reconnect_attempt_ms *)
  a_rcfail : Z;             (* reconnection.reconnect_failure_count *)
  a_rest : list Z           (* opaque rest of the accounting state (hwm, log digest,
                               congestion timers, warming counters, rtt probe flags) *)
}.
Arguments mkA _ _%Z _%Z _%Z _ _ _ _%Z _%Z _%Z _%Z _%Z _%Z _%Z _%Z _.

Record guard := mkG {
  g_gated : bool;           (* stall_gated *)
  g_latched : Z;            (* stall_latched_since_ms, 0 = not latched *)
  g_recovery : Z;           (* stall_recovery_since_ms, 0 = no run *)
  g_events : Z;             (* stall_gate_events *)
  g_probe : Z;              (* stall_probe_counter *)
  g_pulled : bool;          (* silence_pulled *)
  g_pulls : Z               (* silence_pulls *)
}.
Arguments mkG _ _%Z _%Z _%Z _%Z _ _%Z.

Record aux := mkX {
  x_queued : Z;             (* batch_sender.queued_count() *)
  x_weak : bool;
  x_lossdeg : bool;         (* loss_degraded *)
  x_cctarget : Z;           (* cc_target_bps *)
  x_bitrate : float;        (* bitrate.current_bitrate_bps *)
  x_rttpos : bool;          (* !(get_smooth_rtt_ms() <= 0.0) *)
  x_rttms : Z               (* get_smooth_rtt_ms() as u64 *)
}.
Arguments mkX _%Z _ _ _%Z _%float _ _%Z.

Record cache := mkC {
  c_ctimeout : Z;           (* conn_timeout_ms *)
  c_qmult : float;          (* quality_cache.multiplier *)
  c_qcalc : Z               (* quality_cache.last_calculated_ms *)
}.
Arguments mkC _%Z _%float _%Z.

Record link := mkL { la : acct; lg : guard; lx : aux; lc : cache }.

(** [ConfigSnapshot] *)
Record config := mkCfg {
  cf_classic : bool;        (* mode == Classic *)
  cf_quality : bool;        (* quality_enabled *)
  cf_guard : bool;          (* stall_deselect *)
  cf_min : Z;               (* stall_min_in_flight (i32) *)
  cf_ceil : Z;              (* stall_ack_stale_ms *)
  cf_ctimeout : Z           (* conn_timeout_ms *)
}.
Arguments mkCfg _ _ _ _%Z _%Z _%Z.

(** ---- staleness window, stall signal ------------------------------------------ *)

(** [effective_stall_stale_ms(ceiling)] *)
Definition eff_stale (x : aux) (ceil : Z) : Z :=
  if x_rttpos x
  then Z.min (Z.max (sat_mul_u64 (x_rttms x) STALL_STALE_RTT_MULT) STALL_STALE_FLOOR_MS) ceil
  else ceil.

(** [last_ack_or_rtt_sample_ms != 0 && now - proof >= eff] *)
Definition proof_stale (a : acct) (x : aux) (now ceil : Z) : bool :=
  negb (a_proof a =? 0) && (eff_stale x ceil <=? ssub now (a_proof a)).

(** [last_ack_or_rtt_sample_ms != 0 && now - proof < eff] *)
Definition proof_fresh (a : acct) (x : aux) (now ceil : Z) : bool :=
  negb (a_proof a =? 0) && (ssub now (a_proof a) <? eff_stale x ceil).

(** [is_stalled(now, min_in_flight, ceiling)] *)
Definition is_stalled (a : acct) (x : aux) (now mn ceil : Z) : bool :=
  a_conn a && (mn <=? a_inflight a) && proof_stale a x now ceil.

(** ---- silence pull ------------------------------------------------------------ *)

(** [silence_pull_window_ms(ceiling)] *)
Definition pull_window (x : aux) (ceil : Z) : Z :=
  let base := if x_rttpos x
              then Z.max (sat_mul_u64 (x_rttms x) SILENCE_PULL_RTT_MULT) SILENCE_PULL_FLOOR_MS
              else SILENCE_PULL_FLOOR_MS in
  Z.min base (eff_stale x ceil).

(** [is_briefly_silent(now, min_in_flight, ceiling)] *)
Definition briefly_silent (a : acct) (x : aux) (now mn ceil : Z) : bool :=
  if negb (a_conn a) || (a_inflight a <? mn) then false
  else match a_lastrecv a with
       | None => false
       | Some lr => pull_window x ceil <=? ssub now lr
       end.

(** "the link spoke": [last_received.is_some_and(|lr| now - lr < window)] *)
Definition spoke (a : acct) (x : aux) (now ceil : Z) : bool :=
  match a_lastrecv a with
  | None => false
  | Some lr => ssub now lr <? pull_window x ceil
  end.

(** [update_silence_pull]: returns (silence_pulled, silence_pulls) *)
Definition pull_step (a : acct) (x : aux) (now mn ceil : Z) (g : guard) : guard :=
  if briefly_silent a x now mn ceil then
    mkG (g_gated g) (g_latched g) (g_recovery g) (g_events g) (g_probe g) true
        (if g_pulled g then g_pulls g else g_pulls g + 1)
  else if negb (g_pulled g) then g
  else if spoke a x now ceil || negb (a_conn a) then
    mkG (g_gated g) (g_latched g) (g_recovery g) (g_events g) (g_probe g) false (g_pulls g)
  else g.

(** ---- the latch ---------------------------------------------------------------- *)

(** rejoin dwell: [stale_ms.saturating_mul(STALL_REJOIN_DWELL_MULT)] *)
Definition dwell (x : aux) (ceil : Z) : Z := sat_mul_u64 (eff_stale x ceil) STALL_REJOIN_DWELL_MULT.

(** [update_stall_latch] (reads the pull flag as left by [pull_step]) *)
Definition latch_step (a : acct) (x : aux) (now mn ceil : Z) (g : guard) : guard :=
  if is_stalled a x now mn ceil || (g_pulled g && proof_stale a x now ceil) then
    if g_latched g =? 0
    then mkG (g_gated g) now 0 (g_events g + 1) (g_probe g) (g_pulled g) (g_pulls g)
    else mkG (g_gated g) (g_latched g) 0 (g_events g) (g_probe g) (g_pulled g) (g_pulls g)
  else if g_latched g =? 0 then g
  else if negb (proof_fresh a x now ceil) then
    mkG (g_gated g) (g_latched g) 0 (g_events g) (g_probe g) (g_pulled g) (g_pulls g)
  else
    let r := if g_recovery g =? 0 then now else g_recovery g in
    if dwell x ceil <=? ssub now r
    then mkG (g_gated g) 0 0 (g_events g) (g_probe g) (g_pulled g) (g_pulls g)
    else mkG (g_gated g) (g_latched g) r (g_events g) (g_probe g) (g_pulled g) (g_pulls g).

(** guard off: [stall_gated = false; silence_pulled = false; clear_stall_latch()] *)
Definition guard_off (g : guard) : guard :=
  mkG false 0 0 (g_events g) (g_probe g) false (g_pulls g).

(** one link's share of the first two loops of [apply_stall_gate] *)
Definition gate_guard (now : Z) (cfg : config) (a : acct) (x : aux) (g : guard) : guard :=
  if cf_guard cfg
  then latch_step a x now (cf_min cfg) (cf_ceil cfg) (pull_step a x now (cf_min cfg) (cf_ceil cfg) g)
  else guard_off g.

Definition gate_link (now : Z) (cfg : config) (l : link) : link :=
  mkL (la l) (gate_guard now cfg (la l) (lx l) (lg l)) (lx l)
      (mkC (cf_ctimeout cfg) (c_qmult (lc l)) (c_qcalc (lc l))).

(** ---- liveness, eligibility ---------------------------------------------------- *)

(** [is_timed_out(now)] with the link's own [conn_timeout_ms] *)
Definition is_timed_out (a : acct) (ct now : Z) : bool :=
  if negb (a_conn a) then
    if (a_estab a =? 0) && (now <? a_grace a) then false
    else match a_lastrecv a with None => true | Some lr => ct <=? ssub now lr end
  else match a_lastrecv a with Some lr => ct <=? ssub now lr | None => false end.

Definition timed_out (l : link) (now : Z) : bool := is_timed_out (la l) (c_ctimeout (lc l)) now.
Definition schedulable (l : link) : bool := negb (a_phase (la l) =? 0).
Definition latched (l : link) : bool := negb (g_latched (lg l) =? 0).

(** the "any healthy" guard of [apply_stall_gate] *)
Definition healthy (now : Z) (l : link) : bool :=
  a_conn (la l) && negb (timed_out l now) && schedulable l && negb (latched l) && negb (g_pulled (lg l)).

Definition set_gated (b : bool) (l : link) : link :=
  let g := lg l in
  mkL (la l) (mkG b (g_latched g) (g_recovery g) (g_events g) (g_probe g) (g_pulled g) (g_pulls g))
      (lx l) (lc l).

(** [apply_stall_gate] *)
Definition apply_stall_gate (now : Z) (cfg : config) (ls : list link) : list link :=
  let ls1 := map (gate_link now cfg) ls in
  if cf_guard cfg then
    let h := existsb (healthy now) ls1 in
    map (fun l => set_gated (h && (latched l || g_pulled (lg l))) l) ls1
  else ls1.
