(** Control.v — executable model of src/control.rs (`dispatch`, `dispatch_async`,
    `handle_method`), of the serde-derived `Request` decoder and of
    src/config.rs `DynamicConfig`.  No proofs here.

    What is outside the model and enters as an explicit input of every op:
    the text -> tree parser of serde_json and `str::trim` ([line_outcome]), the stats
    provider's JSON ([stats_oracle]), the critical-window counters. *)
From Coq Require Import DecimalString.
From Srtla Require Import Base Constants Json.
Local Open Scope string_scope.
Local Open Scope Z_scope.

(** serde_json::Deserializer: `remaining_depth: 128`; entering an array/object
    decrements it and fails at 0.  (Values of *unknown* keys are skipped by
    `ignore_value`, which is iterative and has no limit.) *)
Definition SERDE_RECURSION_LIMIT : Z := 128.
Definition JSONRPC_VERSION : string := "2.0".

(** A `Value` nested one level below the request struct deserialises iff its own
    nesting stays under the limit. *)
Definition value_ok (v : json) : bool := 1 + depth v <? SERDE_RECURSION_LIMIT.

Record request := {
  rq_jsonrpc : string;
  rq_method : string;
  rq_params : json;          (* `#[serde(default)] params: Value` *)
  rq_id : option json        (* `#[serde(default)] id: Option<Value>`; null = None *)
}.

(** ---- `#[derive(Deserialize)] struct Request` ---- *)
Record fields := {
  f_jsonrpc : option string;
  f_method : option string;
  f_params : option json;
  f_id : option (option json)
}.
Definition no_fields : fields :=
  {| f_jsonrpc := None; f_method := None; f_params := None; f_id := None |}.

Definition de_id (v : json) : option (option json) :=
  match v with
  | JNull => Some None
  | _ => if value_ok v then Some (Some (to_value v)) else None
  end.
Definition de_value (v : json) : option json := if value_ok v then Some (to_value v) else None.

(** one member of `visit_map`; [None] = the deserializer returned an error *)
Definition visit_member (f : fields) (k : string) (v : json) : option fields :=
  if String.eqb k "jsonrpc" then
    match f_jsonrpc f, v with
    | None, JStr s => Some {| f_jsonrpc := Some s; f_method := f_method f; f_params := f_params f; f_id := f_id f |}
    | _, _ => None                       (* duplicate field / invalid type *)
    end
  else if String.eqb k "method" then
    match f_method f, v with
    | None, JStr s => Some {| f_jsonrpc := f_jsonrpc f; f_method := Some s; f_params := f_params f; f_id := f_id f |}
    | _, _ => None
    end
  else if String.eqb k "params" then
    match f_params f with
    | None => obind (de_value v) (fun p =>
                Some {| f_jsonrpc := f_jsonrpc f; f_method := f_method f; f_params := Some p; f_id := f_id f |})
    | Some _ => None
    end
  else if String.eqb k "id" then
    match f_id f with
    | None => obind (de_id v) (fun i =>
                Some {| f_jsonrpc := f_jsonrpc f; f_method := f_method f; f_params := f_params f; f_id := Some i |})
    | Some _ => None
    end
  else Some f.                            (* unknown field: ignored *)

Fixpoint visit_map (f : fields) (m : list (string * json)) : option fields :=
  match m with
  | [] => Some f
  | (k, v) :: t => obind (visit_member f k v) (fun f' => visit_map f' t)
  end.

Definition finish_fields (f : fields) : option request :=
  match f_jsonrpc f, f_method f with
  | Some v, Some m =>
      Some {| rq_jsonrpc := v; rq_method := m;
              rq_params := match f_params f with Some p => p | None => JNull end;
              rq_id := match f_id f with Some i => i | None => None end |}
  | _, _ => None                          (* missing field *)
  end.

(** `visit_seq`: positional form, trailing fields defaulted, a fifth element is an error *)
Definition visit_seq (l : list json) : option request :=
  match l with
  | JStr v :: JStr m :: rest =>
      match rest with
      | [] => Some {| rq_jsonrpc := v; rq_method := m; rq_params := JNull; rq_id := None |}
      | [p] => obind (de_value p) (fun p' =>
                 Some {| rq_jsonrpc := v; rq_method := m; rq_params := p'; rq_id := None |})
      | [p; i] => obind (de_value p) (fun p' => obind (de_id i) (fun i' =>
                 Some {| rq_jsonrpc := v; rq_method := m; rq_params := p'; rq_id := i' |}))
      | _ => None
      end
  | _ => None
  end.

Definition decode_request (j : json) : option request :=
  match j with
  | JObj m => obind (visit_map no_fields m) finish_fields
  | JArr l => visit_seq l
  | _ => None
  end.

(** ---- DynamicConfig ---- *)
Inductive mode := Classic | Enhanced.
Definition mode_eqb (a b : mode) : bool :=
  match a, b with Classic, Classic | Enhanced, Enhanced => true | _, _ => false end.
Definition mode_str (m : mode) : string := match m with Classic => "classic" | Enhanced => "enhanced" end.

Record config := Cfg {
  c_mode : mode;
  c_quality : bool;
  c_stall : bool;
  c_mif : Z;       (* stall_min_in_flight, i32 *)
  c_stale : Z;     (* stall_ack_stale_ms *)
  c_timeout : Z    (* conn_timeout_ms *)
}.

(** `Ord::clamp` asserts `min <= max` *)
Definition rust_clamp (lo hi x : Z) : option Z :=
  if hi <? lo then None else Some (Z.min hi (Z.max lo x)).

Definition cfg_new : config :=
  {| c_mode := Enhanced; c_quality := true; c_stall := true;
     c_mif := STALL_MIN_IN_FLIGHT_PACKETS; c_stale := STALL_ACK_STALE_MS; c_timeout := CONN_TIMEOUT_MS |}.

Inductive init := INew | ICli (m : mode) (no_quality no_stall : bool) (mif stale tmo : Z).

(** [None] = the constructor panicked *)
Definition cfg_init (i : init) : option config :=
  match i with
  | INew => Some cfg_new
  | ICli m nq ns mif stale tmo =>
      obind (rust_clamp CONN_TIMEOUT_MS_MIN CONN_TIMEOUT_MS_MAX tmo) (fun t =>
        Some {| c_mode := m; c_quality := negb nq; c_stall := negb ns; c_mif := mif; c_stale := stale; c_timeout := t |})
  end.

Definition set_mode (c : config) (m : mode) : config :=
  {| c_mode := m; c_quality := c_quality c; c_stall := c_stall c; c_mif := c_mif c; c_stale := c_stale c; c_timeout := c_timeout c |}.
Definition set_quality (c : config) (b : bool) : config :=
  {| c_mode := c_mode c; c_quality := b; c_stall := c_stall c; c_mif := c_mif c; c_stale := c_stale c; c_timeout := c_timeout c |}.
Definition set_stall (c : config) (b : bool) : config :=
  {| c_mode := c_mode c; c_quality := c_quality c; c_stall := b; c_mif := c_mif c; c_stale := c_stale c; c_timeout := c_timeout c |}.
Definition store_timeout (c : config) (t : Z) : config :=
  {| c_mode := c_mode c; c_quality := c_quality c; c_stall := c_stall c; c_mif := c_mif c; c_stale := c_stale c; c_timeout := t |}.
(** `set_conn_timeout_ms`: clamp, store, return the applied value *)
Definition set_conn_timeout_ms (c : config) (ms : Z) : option (config * Z) :=
  obind (rust_clamp CONN_TIMEOUT_MS_MIN CONN_TIMEOUT_MS_MAX ms) (fun a => Some (store_timeout c a, a)).

(** ---- environment of one call ---- *)
Inductive stats_oracle :=
| NoStats                 (* `stats: None` *)
| StatsOk (v : json)      (* provider present, its JSON re-parses to v *)
| StatsBad.               (* provider present, its JSON does not re-parse *)
Record env := Env {
  e_stats : stats_oracle;
  e_cw : option (Z * Z)   (* critical window: (windows_received, malformed_datagrams) *)
}.

Inductive line_outcome :=
| Blank                   (* empty after `trim()` *)
| Unparsable              (* serde_json rejects the text *)
| Parsed (j : json).      (* the text is this JSON tree *)

(** ---- handle_method ---- *)
Inductive hm_result :=
| HPanic
| HOk (c : config) (v : json)
| HErr (code : Z).

Definition parse_mode (s : string) : option mode :=
  if String.eqb s "classic" then Some Classic
  else if String.eqb s "enhanced" then Some Enhanced else None.

Definition status_json (c : config) (e : env) : json :=
  let '(w, m) := match e_cw e with Some p => p | None => (0, 0) end in
  JObj [("conn_timeout_ms", JInt (c_timeout c));
        ("critical_malformed_datagrams", JInt m);
        ("critical_windows_received", JInt w);
        ("mode", JStr (mode_str (c_mode c)));
        ("quality_enabled", JBool (c_quality c));
        ("stall_ack_stale_ms", JInt (c_stale c));
        ("stall_deselect", JBool (c_stall c));
        ("stall_min_in_flight", JInt (c_mif c))].

Definition handle_method (c : config) (e : env) (method : string) (params : json) : hm_result :=
  if String.eqb method "set_mode" then
    match obind (vget params "mode") as_str with
    | None => HErr INVALID_PARAMS
    | Some s =>
        match parse_mode s with
        | None => HErr INVALID_PARAMS
        | Some m => HOk (set_mode c m) (JObj [("mode", JStr (mode_str m))])
        end
    end
  else if String.eqb method "set_quality" then
    match obind (vget params "enabled") as_bool with
    | None => HErr INVALID_PARAMS
    | Some b => HOk (set_quality c b) (JObj [("enabled", JBool b)])
    end
  else if String.eqb method "set_stall_deselect" then
    match obind (vget params "enabled") as_bool with
    | None => HErr INVALID_PARAMS
    | Some b => HOk (set_stall c b) (JObj [("enabled", JBool b)])
    end
  else if String.eqb method "set_conn_timeout" then
    match obind (vget params "ms") as_u64 with
    | None => HErr INVALID_PARAMS
    | Some ms =>
        match set_conn_timeout_ms c ms with
        | None => HPanic
        | Some (c', applied) => HOk c' (JObj [("ms", JInt applied)])
        end
    end
  else if String.eqb method "get_status" then HOk c (status_json c e)
  else if String.eqb method "get_stats" then
    match e_stats e with
    | NoStats => HErr INTERNAL_ERROR
    | StatsOk v => HOk c v
    | StatsBad => HErr INTERNAL_ERROR
    end
  else if String.eqb method "subscribe" || String.eqb method "unsubscribe" then HErr METHOD_NOT_FOUND
  else HErr METHOD_NOT_FOUND.

(** ---- responses ---- *)
Inductive body := BResult (v : json) | BError (code : Z).
Record response := { rs_id : json; rs_body : body }.

Inductive outcome := Panic | Done (r : option response).

Definition respond (id : option json) (b : body) : option response :=
  match id with None => None | Some i => Some {| rs_id := i; rs_body := b |} end.

Definition parse_error : outcome := Done (Some {| rs_id := JNull; rs_body := BError PARSE_ERROR |}).

(** `dispatch` = `dispatch_inner` (stdin) *)
Definition dispatch (c : config) (e : env) (l : line_outcome) : outcome * config :=
  match l with
  | Blank => (Done None, c)
  | Unparsable => (parse_error, c)
  | Parsed j =>
      match decode_request j with
      | None => (parse_error, c)
      | Some rq =>
          if negb (String.eqb (rq_jsonrpc rq) JSONRPC_VERSION) then
            (Done (respond (rq_id rq) (BError INVALID_REQUEST)), c)
          else
            match handle_method c e (rq_method rq) (rq_params rq) with
            | HPanic => (Panic, c)
            | HOk c' v => (Done (respond (rq_id rq) (BResult v)), c')
            | HErr code => (Done (respond (rq_id rq) (BError code)), c)
            end
      end
  end.

(** ---- the subscription hub as far as one connection's requests see it ---- *)
Record hub := { h_next : Z; h_live : list string }.
Definition hub_new : hub := {| h_next := 0; h_live := [] |}.
Definition sub_id (n : Z) : string := String.append "sub-" (NilZero.string_of_uint (N.to_uint (Z.to_N n))).
Definition is_known_topic (t : string) : bool := String.eqb t "stats" || String.eqb t "priority.window".
Definition mem_str (s : string) (l : list string) : bool := existsb (String.eqb s) l.

Inductive sub_result := SOk (h : hub) (v : json) | SErr (code : Z).

Definition handle_subscribe (h : hub) (params : json) : sub_result :=
  match obind (vget params "topic") as_str with
  | None => SErr INVALID_PARAMS
  | Some t =>
      if negb (is_known_topic t) then SErr INVALID_PARAMS
      else let id := sub_id (h_next h) in
           SOk {| h_next := h_next h + 1; h_live := (h_live h ++ [id])%list |}
               (JObj [("subscription_id", JStr id)])
  end.

Definition handle_unsubscribe (h : hub) (params : json) : sub_result :=
  match obind (vget params "subscription_id") as_str with
  | None => SErr INVALID_PARAMS
  | Some id =>
      SOk {| h_next := h_next h; h_live := filter (fun x => negb (String.eqb x id)) (h_live h) |}
          (JObj [("removed", JBool (mem_str id (h_live h)))])
  end.

(** `dispatch_async` (Unix socket); [ctx] = a `SubscriptionContext` was passed *)
Definition dispatch_async (ctx : bool) (c : config) (h : hub) (e : env) (l : line_outcome)
  : outcome * config * hub :=
  match l with
  | Blank => (Done None, c, h)
  | Unparsable => (parse_error, c, h)
  | Parsed j =>
      match decode_request j with
      | None => (parse_error, c, h)
      | Some rq =>
          if negb (String.eqb (rq_jsonrpc rq) JSONRPC_VERSION) then
            (Done (respond (rq_id rq) (BError INVALID_REQUEST)), c, h)
          else
            let me := rq_method rq in
            if ctx && String.eqb me "subscribe" then
              match handle_subscribe h (rq_params rq) with
              | SOk h' v => (Done (respond (rq_id rq) (BResult v)), c, h')
              | SErr code => (Done (respond (rq_id rq) (BError code)), c, h)
              end
            else if ctx && String.eqb me "unsubscribe" then
              match handle_unsubscribe h (rq_params rq) with
              | SOk h' v => (Done (respond (rq_id rq) (BResult v)), c, h')
              | SErr code => (Done (respond (rq_id rq) (BError code)), c, h)
              end
            else if ctx && String.eqb me "get_subscription_count" then
              (Done (respond (rq_id rq) (BResult (JObj [("count", JInt (blen (h_live h)))]))), c, h)
            else
              match handle_method c e me (rq_params rq) with
              | HPanic => (Panic, c, h)
              | HOk c' v => (Done (respond (rq_id rq) (BResult v)), c', h)
              | HErr code => (Done (respond (rq_id rq) (BError code)), c, h)
              end
      end
  end.

(** `Response::to_json` as a `Value` tree (members in key order); the message text
    and the optional `data` member are not modelled *)
Definition render (r : response) : json :=
  match rs_body r with
  | BResult v => JObj [("id", rs_id r); ("jsonrpc", JStr JSONRPC_VERSION); ("result", v)]
  | BError code =>
      JObj [("error", JObj [("code", JInt code); ("message", JStr "")]);
            ("id", rs_id r); ("jsonrpc", JStr JSONRPC_VERSION)]
  end.

(** ---- histories: every line is fed to both entry points, each on its own config ---- *)
Record op := Op { o_env : env; o_line : line_outcome }.

Record obs1 := O1 { o_panic : bool; o_resp : option json; o_snap : config }.
Record obs := Ob { ob_sync : obs1; ob_async : obs1 }.

Record state := { s_sync : config; s_async : config; s_hub : hub }.

Definition observe (o : outcome) (c : config) : obs1 :=
  match o with
  | Panic => {| o_panic := true; o_resp := None; o_snap := c |}
  | Done r => {| o_panic := false; o_resp := option_map render r; o_snap := c |}
  end.

Definition step (ctx : bool) (s : state) (o : op) : state * obs :=
  let '(rs, cs) := dispatch (s_sync s) (o_env o) (o_line o) in
  let '(ra, ca, h) := dispatch_async ctx (s_async s) (s_hub s) (o_env o) (o_line o) in
  ({| s_sync := cs; s_async := ca; s_hub := h |},
   {| ob_sync := observe rs cs; ob_async := observe ra ca |}).

Fixpoint run_from (ctx : bool) (s : state) (ops : list op) : list (op * obs) :=
  match ops with
  | [] => []
  | o :: t => let '(s', b) := step ctx s o in (o, b) :: run_from ctx s' t
  end.

Definition init_state (c : config) : state := {| s_sync := c; s_async := c; s_hub := hub_new |}.

(** a trace = the initial snapshot (None: the constructor panicked) + one observation per op *)
Record trace := { tr_snap0 : option config; tr_steps : list (op * obs) }.

Definition run (i : init) (ctx : bool) (ops : list op) : trace :=
  match cfg_init i with
  | None => {| tr_snap0 := None; tr_steps := [] |}
  | Some c => {| tr_snap0 := Some c; tr_steps := run_from ctx (init_state c) ops |}
  end.
