(** LinkCcF.v — the [target_bps] arithmetic of [tick] written out in IEEE binary64 exactly as
    the Rust code performs it ([as f64], [*], [/ 1000.0], [min], [max], [+], [as u64]).

    [Model/LinkCc.v] models the same arithmetic on integers with floor (DESIGN §3.4).  This
    file is the float rendering the integer model stands for; [Run_C16.check_case] evaluates
    both on every link step of every case and reports a disagreement, so the modelling step
    "f64 on small integers = exact arithmetic + floor" is itself tested against the real run on
    each check.  No proofs in this file. *)
From Coq Require Import Floats.
From Srtla Require Import Base Constants LinkCc.
From Srtla Require FConstants.
Local Open Scope Z_scope.

(** [z as f64] for 0 <= z < 2^53 (exact) *)
Definition z2f (z : Z) : float := PrimFloat.of_uint63 (Uint63.of_Z z).

(** [observed_bps as f64] for a u64: values of 2^53 and above (where the conversion rounds) are
    represented by 2^52 — the only use is [.min(4.0 * baseline)] with [4.0 * baseline <= 8e8],
    which any value above 8e8 loses *)
Definition u64_to_f64 (z : Z) : float :=
  if z <? 9007199254740992 then z2f z else z2f 4503599627370496.

(** Rust [f64::min] / [f64::max]: a NaN operand is ignored *)
Definition fmin (a b : float) : float :=
  if PrimFloat.is_nan a then b else if PrimFloat.is_nan b then a else if PrimFloat.ltb b a then b else a.
Definition fmax (a b : float) : float :=
  if PrimFloat.is_nan a then b else if PrimFloat.is_nan b then a else if PrimFloat.ltb a b then b else a.

Definition sane_observed_f (target observed : Z) : Z :=
  let baseline := z2f (Z.max target INITIAL_TARGET_BPS) in
  f64_to_u64 (fmin (u64_to_f64 observed) (FConstants.CC_OUTLIER_FACTOR * baseline)%float).

(** [next as u64] before the final integer clamp *)
Definition next_target_f (next_state prev_state : cc_state) (mode : climb_mode) (prev_t sane : Z) : Z :=
  let prev := z2f prev_t in
  let thousand := 1000%float in
  match next_state with
  | Bootstrap => f64_to_u64 prev
  | Climbing =>
      let step := ((prev * z2f (step_permille mode)) / thousand)%float in
      let measured_cap := (z2f sane * 2)%float in
      if 0 <? sane
      then f64_to_u64 (fmax prev (z2f MIN_TARGET_BPS) + fmax (fmin step (measured_cap - prev)) 0)%float
      else f64_to_u64 prev
  | Holding => f64_to_u64 prev
  | BackingOff =>
      let decreased := ((prev * z2f BACKOFF_PERMILLE) / thousand)%float in
      let delivered_floor := fmin (z2f sane) prev in
      f64_to_u64 (fmax decreased delivered_floor)
  | Drain =>
      if negb (cc_state_eqb prev_state Drain)
      then f64_to_u64 ((prev * z2f DRAIN_PERMILLE) / thousand)%float
      else f64_to_u64 prev
  end.

(** does the float rendering agree with the integer model on the step [s -> s'] (where
    [s' = link_step s now i])?  The chosen state and climb mode are read from [s']. *)
Definition float_agrees (s s' : link) (i : inp) : bool :=
  let c := k_core s in let c' := k_core s' in
  if cc_state_eqb (c_state c') Bootstrap then true
  else
    let observed := observed_bps i in
    let sane := sane_observed (c_target c) observed in
    let t1 := seed_target (c_seeded c) (c_target c) sane in
    (sane_observed_f (c_target c) observed =? sane) &&
    (clamp_target (next_target_f (c_state c') (c_state c) (c_mode c') t1 sane) =? c_target c').
