(** Uplink.v — executable model of the return path of the shell:
    src/sender/uplink_recv.rs (process_uplink_packet: type dispatch, liveness and
    delivery-proof stamps, keepalive echo handling, the SRT-ACK fast path),
    src/sender/packet_handler.rs (handle_uplink_packet, process_connection_events:
    ACK/NAK fan-out and forwarding to the SRT client) and the frame classification
    of crates/srtla-core/src/registration/mod.rs (process_registration_packet).
    Built on the decoders of Model/Wire.v and the link accounting of Model/Conn.v.
    Definitions only. *)
From Srtla Require Import Base Constants Wire Conn.

(** A datagram as it crosses the harness boundary: in full, or (for long opaque
    payloads) as length + first bytes + a digest of the whole computed by the
    harness.  The model decides on [bytes_of] and forwards the datagram itself. *)
Inductive wd := WFull (b : list Z) | WAbbr (len : Z) (head : list Z) (dig : Z).

Definition bytes_of (w : wd) : list Z :=
  match w with
  | WFull b => b
  | WAbbr len head _ => head ++ repeat 0 (Z.to_nat len - length head)
  end.

(** LinkPhase (connection/mod.rs) *)
Inductive phase := PRegistering | PWarming (probes entered : Z) | PLive | PDegraded.

(** per-link fields beyond Conn.link that the receive path reads or writes:
    rtt.waiting_for_keepalive_response, phase, reconnection.connection_established_ms,
    reconnection.reconnect_failure_count *)
Record xlink := { waiting : bool; ph : phase; established : Z; fails : Z }.
Definition xlink0 : xlink := {| waiting := false; ph := PRegistering; established := 0; fails := 0 |}.

Definition set_waiting (x : xlink) (b : bool) : xlink :=
  {| waiting := b; ph := ph x; established := established x; fails := fails x |}.
Definition set_ph (x : xlink) (p : phase) : xlink :=
  {| waiting := waiting x; ph := p; established := established x; fails := fails x |}.
Definition set_proof (c : link) (v : Z) : link :=
  {| cid := cid c; connected := connected c; window := window c; in_flight := in_flight c; log := log c;
     hwm := hwm c; last_recv := last_recv c; proof := v; cg := cg c; ovf := ovf c |}.

Record ustate := { core : state; xs : list xlink; client : bool }.

(** `rtt <= 10_000` in RttTracker::handle_keepalive_response is a bare literal *)
Definition KA_RTT_CAP_MS : Z := 10000.

(** registration/mod.rs process_registration_packet: frames are classified by type
    code alone (any length >= 2); the manager's own bookkeeping is not modelled here
    (property C07), only which frames it consumes. *)
Inductive reg_event := RegNgp | Reg2 | Reg3 | RegErr.
Definition reg_classify (pt : Z) : option reg_event :=
  if pt =? SRTLA_TYPE_REG_NGP then Some RegNgp
  else if pt =? SRTLA_TYPE_REG2 then Some Reg2
  else if pt =? SRTLA_TYPE_REG3 then Some Reg3
  else if pt =? SRTLA_TYPE_REG_ERR then Some RegErr
  else None.

(** connection/mod.rs record_rtt_probe *)
Definition record_rtt_probe (x : xlink) : xlink :=
  match ph x with
  | PWarming p e => if WARMING_RTT_PROBES <=? p + 1 then set_ph x PLive else set_ph x (PWarming (p + 1) e)
  | _ => x
  end.

(** REG3 arm of process_uplink_packet on the x-fields: clear_pre_registration_state
    enters Warming, connection_established_ms is set once, mark_success clears the
    failure count *)
Definition reg3_x (x : xlink) (now : Z) : xlink :=
  {| waiting := waiting x; ph := PWarming 0 now;
     established := if established x =? 0 then now else established x; fails := 0 |}.

(** REG3 arm on the accounting fields: clear_pre_registration_state (log, in-flight,
    high-water mark, congestion state, and — since the fix "REG3 state clear restores the
    default window" — the window) + connected/last_received as process_uplink_packet sets them.
    The delivery-proof stamp is not touched. *)
Definition reg3_link (c : link) (now : Z) : link :=
  {| cid := cid c; connected := true; window := WINDOW_DEFAULT; in_flight := 0; log := [];
     hwm := i32_min; last_recv := Some now; proof := proof c; cg := cong0; ovf := ovf c |}.

(** SrtlaIncoming (reg1_send is uplink-side I/O and not part of the return path) *)
Record incoming := { i_fwd : list wd; i_acks : list Z; i_naks : list Z; i_sacks : list Z }.
Definition inc0 : incoming := {| i_fwd := []; i_acks := []; i_naks := []; i_sacks := [] |}.

(** uplink_recv.rs process_uplink_packet.  [k] = a client address is known.
    Result: link, x-fields, effects, and what the inline SRT-ACK fast path sent. *)
Definition process_uplink_packet (c : link) (x : xlink) (k : bool) (w : wd) (now : Z)
  : res (link * xlink * incoming * list wd) :=
  let d := bytes_of w in
  opt <- get_packet_type d ;;
  match opt with
  | None => Ok (c, x, inc0, [])
  | Some pt =>
    match reg_classify pt with
    | Some RegNgp => Ok (c, x, inc0, [])
    | Some Reg2 => Ok (c, x, inc0, [])
    | Some Reg3 => Ok (reg3_link c now, reg3_x x now, inc0, [])
    | Some RegErr => Ok (set_conn c false None, x, inc0, [])
    | None =>
      let c1 := set_conn c (connected c) (Some now) in
      if pt =? SRT_TYPE_ACK then
        a <- parse_srt_ack d ;;
        Ok (c1, x,
            {| i_fwd := [w]; i_acks := match a with Some v => [v] | None => [] end; i_naks := []; i_sacks := [] |},
            if k then [w] else [])
      else if pt =? SRT_TYPE_NAK then
        l <- parse_srt_nak d ;;
        Ok (c1, x, {| i_fwd := [w]; i_acks := []; i_naks := l; i_sacks := [] |}, [])
      else if pt =? SRTLA_TYPE_ACK then
        l <- parse_srtla_ack d ;;
        Ok (c1, x, {| i_fwd := []; i_acks := []; i_naks := []; i_sacks := l |}, [])
      else if pt =? SRTLA_TYPE_KEEPALIVE then
        if waiting x then
          ts <- extract_keepalive_timestamp d ;;
          match ts with
          | Some t =>
            let rtt := ssub now t in
            if (0 <? rtt) && (rtt <=? KA_RTT_CAP_MS)
            then Ok (set_proof c1 now, record_rtt_probe (set_waiting x false), inc0, [])
            else Ok (c1, set_waiting x false, inc0, [])
          | None => Ok (c1, set_waiting x false, inc0, [])
          end
        else Ok (c1, x, inc0, [])
      else Ok (c1, x, {| i_fwd := [w]; i_acks := []; i_naks := []; i_sacks := [] |}, [])
    end
  end.

(** packet_handler.rs attribute_nak with the two views of a NAK number: the tracker
    is keyed by the u32, the packet log by `nak as i32` *)
Definition attribute_nak2 (ls : list link) (t : tracker) (n now : Z) : list link :=
  let seq := to_i32 n in
  match trk_get t n now with
  | Some id =>
    match find_pos id ls O with
    | Some pos =>
      match nth_error ls pos with
      | Some c => if snd (handle_nak c seq now) then upd pos (fun x => fst (handle_nak x seq now)) ls else ls
      | None => ls
      end
    | None => fst (first_hit (fun x => handle_nak x seq now) None O ls)
    end
  | None => fst (first_hit (fun x => handle_nak x seq now) None O ls)
  end.

(** packet_handler.rs process_connection_events: SRT ACKs to every link, SRTLA ACKs
    arrival-first, NAK attribution, then forwarding to the client if one is known *)
Definition apply_srt_acks (ls : list link) (acks : list Z) : list link :=
  fold_left (fun l a => map (fun c => handle_srt_ack c (to_i32 a)) l) acks ls.
Definition apply_srtla_acks (ls : list link) (idx : nat) (classic : bool) (now : Z) (sacks : list Z) : list link :=
  fold_left (fun l a => srtla_ack_event l idx (to_i32 a) classic now) sacks ls.
Definition apply_naks (ls : list link) (t : tracker) (now : Z) (naks : list Z) : list link :=
  fold_left (fun l n => attribute_nak2 l t n now) naks ls.

Definition process_connection_events (ls : list link) (t : tracker) (idx : nat) (classic : bool)
           (now : Z) (inc : incoming) (k : bool) : list link * list wd :=
  let ls1 := apply_srt_acks ls (i_acks inc) in
  let ls2 := apply_srtla_acks ls1 idx classic now (i_sacks inc) in
  let ls3 := apply_naks ls2 t now (i_naks inc) in
  (ls3, if k then i_fwd inc else []).

(** packet_handler.rs handle_uplink_packet.  Result: state, the datagrams that reached
    the client socket (fast path first), and whether the step panicked (a decoder
    index out of bounds, or an unchecked i32 overflow in the window arithmetic newly
    recorded by this step). *)
Definition handle_uplink (s : ustate) (id : Z) (w : wd) (now : Z) (classic : bool)
  : ustate * list wd * bool :=
  match bytes_of w with
  | [] => (s, [], false)
  | _ :: _ =>
    let ls := links (core s) in
    match find_pos id ls O with
    | None => (s, [], false)
    | Some idx =>
      match nth_error ls idx, nth_error (xs s) idx with
      | Some c, Some x =>
        match process_uplink_packet c x (client s) w now with
        | Ok (c', x', inc, fast) =>
          let '(ls', fwd) :=
            process_connection_events (upd idx (fun _ => c') ls) (trk (core s)) idx classic now inc (client s) in
          ({| core := {| links := ls'; trk := trk (core s) |};
              xs := upd idx (fun _ => x') (xs s); client := client s |},
           fast ++ fwd, negb (existsb ovf ls) && existsb ovf ls')
        | _ => (s, [], true)
        end
      | _, _ => (s, [], false)
      end
    end
  end.

(** ---- histories: set-up ops (reach any link state) and the uplink arm ---- *)
Inductive uop :=
| SRegister (i : nat) (seq t : Z)            (* register_packet: a data packet in flight on link i *)
| STrack (i : nat) (n now : Z)               (* seq_tracker.insert(n, conn_id(i), now) *)
| SConn (i : nat) (b : bool) (lr : option Z) (* connected / last_received *)
| SWait (i : nat) (b : bool)                 (* rtt.waiting_for_keepalive_response *)
| SPhase (i : nat) (p : phase)
| SRecon (i : nat) (est f : Z)               (* connection_established_ms, reconnect_failure_count *)
| SProof (i : nat) (v : Z)                   (* last_ack_or_rtt_sample_ms *)
| SMark (i : nat)                            (* mark_for_recovery *)
| SClient (b : bool)                         (* whether a client address is known *)
| UUplink (id : Z) (w : wd) (now : Z) (classic : bool).  (* handle_uplink_packet *)

Definition on_link (i : nat) (f : link -> link) (s : ustate) : ustate :=
  {| core := {| links := upd i f (links (core s)); trk := trk (core s) |}; xs := xs s; client := client s |}.
Definition on_x (i : nat) (f : xlink -> xlink) (s : ustate) : ustate :=
  {| core := core s; xs := upd i f (xs s); client := client s |}.

(** mark_for_recovery on the x-fields *)
Definition mark_x (x : xlink) : xlink :=
  {| waiting := false; ph := PRegistering; established := established x; fails := fails x |}.

Definition ustep (s : ustate) (o : uop) : ustate * list wd * bool :=
  match o with
  | SRegister i seq t => (on_link i (fun c => register_packet c seq t) s, [], false)
  | STrack i n now =>
    match nth_error (links (core s)) i with
    | Some c => ({| core := {| links := links (core s); trk := trk_insert (trk (core s)) n (cid c) now |};
                    xs := xs s; client := client s |}, [], false)
    | None => (s, [], false)
    end
  | SConn i b lr => (on_link i (fun c => set_conn c b lr) s, [], false)
  | SWait i b => (on_x i (fun x => set_waiting x b) s, [], false)
  | SPhase i p => (on_x i (fun x => set_ph x p) s, [], false)
  | SRecon i est f =>
    (on_x i (fun x => {| waiting := waiting x; ph := ph x; established := est; fails := f |}) s, [], false)
  | SProof i v => (on_link i (fun c => set_proof c v) s, [], false)
  | SMark i => (on_x i mark_x (on_link i mark_for_recovery s), [], false)
  | SClient b => ({| core := core s; xs := xs s; client := b |}, [], false)
  | UUplink id w now classic => handle_uplink s id w now classic
  end.

Definition uinit (ids : list Z) : ustate :=
  {| core := init ids; xs := map (fun _ => xlink0) ids; client := false |}.
