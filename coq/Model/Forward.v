(** Forward.v — executable model of the uplink forwarding slice of srtla_send:
    src/sender/packet_handler.rs (handle_srt_packet after selection,
    forward_via_connection, send_stall_probes, send_connection_batch,
    flush_all_batches), src/net/mod.rs (send_all_datagrams),
    crates/srtla-core/src/connection/batch_send.rs (BatchSender) and the slice of
    connection/mod.rs that touches the batch queue (queue_data_packet, take_batch,
    stall_probe_due, mark_for_recovery, reset_for_reconnect,
    clear_pre_registration_state, recompute_batch_regime).

    Everything the slice does not decide itself is an INPUT of the op: the
    scheduler's answer [sel], the [gated] flags the selection pass left on the
    links, the results of the [sendmmsg] calls (a per-link oracle), the regime
    housekeeping computed, which links housekeeping reset, and the control
    datagrams (keepalive / REG) the sender itself originated.  No proofs here.

    Every link evolves independently given the op, so the step is written per
    link ([step_link]); [acc] and [fates] are ghost logs (never read by the
    behaviour) that the conservation / FIFO theorems talk about. *)
From Srtla Require Import Base Constants Wire.

Definition dgram := list Z.

Inductive regime := LowActivity | Normal | HighLoad.

Definition batch_size (r : regime) : Z :=
  match r with
  | LowActivity => BATCH_SIZE_LOW_ACTIVITY
  | Normal => BATCH_SIZE_NORMAL
  | HighLoad => BATCH_SIZE_HIGH_LOAD
  end.

(** one queued datagram: bytes, SRT sequence number, queue time; [q_probe] is a
    ghost tag (true for a stall-probe duplicate). *)
Record qent := { q_d : dgram; q_seq : option Z; q_t : Z; q_probe : bool }.

(** a copy accepted on a link: (bytes, is_probe) *)
Definition cpy := (dgram * bool)%type.
Definition cpy_of (e : qent) : cpy := (q_d e, q_probe e).

Inductive fate := Sent | Lost.

Record link := {
  queue : list qent;        (* BatchSender.queue/sequences/queue_times *)
  regime_of : regime;       (* BatchSender.regime *)
  last_flush : Z;           (* BatchSender.last_flush_ms *)
  connected : bool;         (* SrtlaConnection.connected *)
  ctr : Z;                  (* stall_probe_counter *)
  has_io : bool;            (* conn_io has an entry for this conn_id *)
  acc : list cpy;           (* ghost: every copy ever queued on this link, in order *)
  fates : list (cpy * fate) (* ghost: every copy that left the queue, in order, with its fate *)
}.

Definition upd_q (l : link) (q : list qent) (lf : Z) (a : list cpy) (f : list (cpy * fate)) : link :=
  {| queue := q; regime_of := regime_of l; last_flush := lf; connected := connected l;
     ctr := ctr l; has_io := has_io l; acc := a; fates := f |}.
Definition set_ctr (c : Z) (l : link) : link :=
  {| queue := queue l; regime_of := regime_of l; last_flush := last_flush l; connected := connected l;
     ctr := c; has_io := has_io l; acc := acc l; fates := fates l |}.
Definition set_conn (b : bool) (l : link) : link :=
  {| queue := queue l; regime_of := regime_of l; last_flush := last_flush l; connected := b;
     ctr := ctr l; has_io := has_io l; acc := acc l; fates := fates l |}.
Definition set_regime (r : regime) (l : link) : link :=
  {| queue := queue l; regime_of := r; last_flush := last_flush l; connected := connected l;
     ctr := ctr l; has_io := has_io l; acc := acc l; fates := fates l |}.

(** what reached the socket / what was dropped, per link (derived from the ghost log) *)
Definition is_sent (x : cpy * fate) : bool := match snd x with Sent => true | Lost => false end.
Definition wire_of (l : link) : list cpy := map fst (filter is_sent (fates l)).
Definition lost_of (l : link) : list cpy := map fst (filter (fun x => negb (is_sent x)) (fates l)).

(** ---- the socket: one [sendmmsg] call.  The kernel accepts a prefix of what is
    offered or reports an error; which one is the oracle's answer. ---- *)
Inductive sres := SOk (n : Z) | SErr.

Definition sock_send_batch (r : sres) (offered : Z) : option Z :=
  match r with SOk n => Some (clamp 0 offered n) | SErr => None end.

(** net::send_all_datagrams: loop over short sends, chunks of BATCH_SEND_SIZE;
    Ok(0) is an error.  Returns (datagrams away, success).  An exhausted oracle
    answers "everything offered was accepted".  [fuel] > total suffices. *)
Fixpoint send_all (fuel : nat) (total sent : Z) (orc : list sres) : Z * bool :=
  match fuel with
  | O => (sent, false)
  | S f =>
    if sent <? total then
      let take := Z.min (total - sent) BATCH_SEND_SIZE in
      let r := match orc with [] => SOk take | r :: _ => r end in
      match sock_send_batch r take with
      | None => (sent, false)
      | Some n => if n =? 0 then (sent, false) else send_all f total (sent + n) (tl orc)
      end
    else (sent, true)
  end.

(** does the oracle contain an answer that makes a send fail (error or no progress)? *)
Definition has_fail (r : list sres) : bool :=
  existsb (fun x => match x with SErr => true | SOk n => n <=? 0 end) r.

Definition tag (f : fate) (e : qent) : cpy * fate := (cpy_of e, f).

(** send_connection_batch: take_batch (drain: queue emptied, flush window re-armed)
    then send_all_datagrams.  Returns the link, the datagrams that reached the
    socket (in order) and whether the send succeeded. *)
Definition flush_link (now : Z) (orc : list sres) (l : link) : link * list dgram * bool :=
  let batch := queue l in
  let total := blen batch in
  let '(n, ok) := send_all (S (Z.to_nat total)) total 0 orc in
  let k := Z.to_nat n in
  (upd_q l [] now (acc l) (fates l ++ map (tag Sent) (firstn k batch) ++ map (tag Lost) (skipn k batch)),
   map q_d (firstn k batch), ok).

Inductive reset_kind := MarkRecovery | Reconnect | Reg3.

(** reset_core_state (mark_for_recovery, reset_for_reconnect): queue dropped,
    flush window cleared, disconnected, probe counter cleared.
    clear_pre_registration_state + the REG3 arm: queue dropped, connected. *)
Definition drop_queue (l : link) : link :=
  upd_q l [] 0 (acc l) (fates l ++ map (tag Lost) (queue l)).
Definition reset_link (k : reset_kind) (l : link) : link :=
  match k with
  | MarkRecovery | Reconnect => set_ctr 0 (set_conn false (drop_queue l))
  | Reg3 => set_conn true (drop_queue l)
  end.

Definition enqueue (e : qent) (l : link) : link :=
  upd_q l (queue l ++ [e]) (last_flush l) (acc l ++ [cpy_of e]) (fates l).

Definition needs_flush (l : link) : bool := batch_size (regime_of l) <=? blen (queue l).
Definition has_queued (l : link) : bool := negb (blen (queue l) =? 0).

(** queue_data_packet, then — when the regime threshold is reached and the link has
    an I/O entry — send_connection_batch; a failed send marks the link for recovery. *)
Definition queue_and_flush (now : Z) (e : qent) (orc : list sres) (l : link) : link * list dgram :=
  let l1 := enqueue e l in
  if needs_flush l1 && has_io l1 then
    let '(l2, out, ok) := flush_link now orc l1 in
    (if ok then l2 else reset_link MarkRecovery l2, out)
  else (l1, []).

Definition seq_of (pkt : dgram) : option Z :=
  match get_srt_sequence_number pkt with Ok o => o | _ => None end.
Definition is_some {A} (o : option A) : bool := match o with Some _ => true | None => false end.

Definition orc_of (orc : list (nat * list sres)) (j : nat) : list sres :=
  match find (fun p => Nat.eqb (fst p) j) orc with Some p => snd p | None => [] end.

(** what housekeeping did to one link *)
Inductive heff := HKeep | HRegime (r : regime) | HReset (k : reset_kind).

Inductive op :=
| Client (now : Z) (pkt : dgram) (sel : option nat) (reg : bool) (gated : list bool)
         (orc : list (nat * list sres))
| FlushTick (now : Z) (orc : list (nat * list sres))
| SetRegime (i : nat) (r : regime)
| Reset (i : nat) (k : reset_kind)
| SetConn (i : nat) (b : bool)
| House (eff : list heff) (ctl : list (list dgram))
| Other (ctl : list (list dgram)).

Definition mkq (pkt : dgram) (seq : option Z) (now : Z) (probe : bool) : qent :=
  {| q_d := pkt; q_seq := seq; q_t := now; q_probe := probe |}.

(** One op, seen from link [j].  [hw] is flush_all_batches' "has work" scan. *)
Definition step_link (hw : bool) (o : op) (j : nat) (l : link) : link * list dgram :=
  match o with
  | Client now pkt sel reg gated orc =>
    match pkt, sel with
    | [], _ => (l, [])                      (* n == 0: ignored *)
    | _, None => (l, [])                    (* no available connection *)
    | _, Some i =>
      let seq := seq_of pkt in
      if Nat.eqb j i then                   (* forward_via_connection *)
        queue_and_flush now (mkq pkt seq now false) (orc_of orc j) l
      else if reg && is_some seq && nth j gated false && connected l then
        (* send_stall_probes: stall_probe_due, then a duplicate of the datagram *)
        let c := ctr l + 1 in
        if STALL_PROBE_ONE_IN_N <=? c
        then queue_and_flush now (mkq pkt seq now true) (orc_of orc j) (set_ctr 0 l)
        else (set_ctr c l, [])
      else (l, [])
    end
  | FlushTick now orc =>
    if hw && has_queued l && has_io l
    then let '(l2, out, _) := flush_link now (orc_of orc j) l in (l2, out)
    else (l, [])
  | SetRegime i r => if Nat.eqb j i then (set_regime r l, []) else (l, [])
  | Reset i k => if Nat.eqb j i then (reset_link k l, []) else (l, [])
  | SetConn i b => if Nat.eqb j i then (set_conn b l, []) else (l, [])
  | House eff ctl =>
    (match nth j eff HKeep with
     | HKeep => l
     | HRegime r => set_regime r l
     | HReset k => reset_link k l
     end, nth j ctl [])
  | Other ctl => (l, nth j ctl [])
  end.

Fixpoint step_links (hw : bool) (o : op) (j : nat) (ls : list link) : list (link * list dgram) :=
  match ls with
  | [] => []
  | l :: t => step_link hw o j l :: step_links hw o (S j) t
  end.

(** what the harness can read from the real code after the same op *)
Record obs := {
  o_wire : list (list dgram);   (* datagrams that reached each uplink's receiver socket, in order *)
  o_q : list Z;                 (* queue depth per link *)
  o_ctr : list Z;               (* stall_probe_counter per link *)
  o_conn : list bool            (* connected per link *)
}.

Definition obs_of (r : list (link * list dgram)) : obs :=
  {| o_wire := map snd r;
     o_q := map (fun p => blen (queue (fst p))) r;
     o_ctr := map (fun p => ctr (fst p)) r;
     o_conn := map (fun p => connected (fst p)) r |}.

Definition step (ls : list link) (o : op) : list link * obs :=
  let r := step_links (existsb has_queued ls) o 0 ls in
  (map fst r, obs_of r).

Fixpoint run_from (ls : list link) (ops : list op) : list (op * obs) :=
  match ops with
  | [] => []
  | o :: t => let '(ls', ob) := step ls o in (o, ob) :: run_from ls' t
  end.

Fixpoint exec (ls : list link) (ops : list op) : list link :=
  match ops with [] => ls | o :: t => exec (fst (step ls o)) t end.

(** initial link description: regime, connected, probe counter, I/O entry present *)
Record linit := { i_regime : regime; i_conn : bool; i_ctr : Z; i_io : bool }.

Definition init_link (x : linit) : link :=
  {| queue := []; regime_of := i_regime x; last_flush := 0; connected := i_conn x;
     ctr := i_ctr x; has_io := i_io x; acc := []; fates := [] |}.
Definition init (xs : list linit) : list link := map init_link xs.

Definition wf_linit (x : linit) : Prop := 0 <= i_ctr x < STALL_PROBE_ONE_IN_N.
Definition wf_init (xs : list linit) : Prop := Forall wf_linit xs.
Definition wf_initb (xs : list linit) : bool :=
  forallb (fun x => (0 <=? i_ctr x) && (i_ctr x <? STALL_PROBE_ONE_IN_N)) xs.

Definition run (xs : list linit) (ops : list op) : list (op * obs) := run_from (init xs) ops.
