(** StallSel.v — the routing decision around the stall guard:
    selection/mod.rs [select_connection_idx], selection/classic.rs [select_connection],
    selection/enhanced.rs [select_connection] (scores in binary64, bit-exact),
    connection/mod.rs [get_score] [get_cached_quality_multiplier];
    and the environment operations of the C12/C13 histories.  Definitions only.

    Two values the enhanced selector computes through code that is not modelled here
    enter as per-link *oracle inputs* of a decision, observed on the real link:
      [si_q]    = [calculate_quality_multiplier(link, now)]  (libm exp inside)
      [si_capx] = [in_flight_cap_exceeded(link)]
    Both are functions of accounting state only (they never read guard state). *)
From Coq Require Import Floats Uint63.
From Srtla Require Import Base Constants FConstants Stall.
Local Open Scope Z_scope.

(** ---- Rust f64 primitives ------------------------------------------------------ *)
(** [n as f64] for |n| < 2^53 (exact) *)
Definition z2f (n : Z) : float :=
  if n <? 0 then (- (of_uint63 (Uint63.of_Z (- n))))%float else of_uint63 (Uint63.of_Z n).
(** [a.max(b)]: a NaN operand yields the other one *)
Definition fmax (a b : float) : float :=
  if PrimFloat.is_nan a then b else if PrimFloat.is_nan b then a else if (a <? b)%float then b else a.
(** [x.clamp(lo, hi)] (NaN stays NaN) *)
Definition fclamp (lo hi x : float) : float :=
  if (x <? lo)%float then lo else if (hi <? x)%float then hi else x.

(** [LinkPhase::weight]: 0.0 / 0.8 / 1.0 (bare literals in the code) *)
Definition phase_weight (ph : Z) : float :=
  if ph =? 0 then 0%float else if ph =? 1 then 0x1.999999999999ap-1%float else 1%float.

(** ---- scores ------------------------------------------------------------------- *)
(** [get_score]: window / max(1, sat(sat(in_flight + queued) + 1)), i32 division *)
Definition get_score (l : link) : Z :=
  if negb (a_conn (la l)) then -1
  else Z.quot (a_window (la l))
              (Z.max (sat_add_i32 (sat_add_i32 (a_inflight (la l)) (x_queued (lx l))) 1) 1).

(** [cc_soft_cap_multiplier] *)
Definition cc_soft_cap (x : aux) : float :=
  if x_cctarget x =? 0 then 1%float
  else if (x_bitrate x <=? 0)%float then 1%float
  else let capf := z2f (x_cctarget x) in
       fclamp CC_SOFT_CAP_FLOOR 1%float (fmax (capf - x_bitrate x) 0 / capf)%float.

(** per-link oracle inputs of one decision *)
Record selin := mkSI { si_q : float; si_capx : bool }.
Arguments mkSI _%float _.
Definition selin0 : selin := mkSI 1%float false.

(** the skip test shared by both selectors *)
Definition skipped (now : Z) (l : link) : bool :=
  timed_out l now || negb (schedulable l) || g_gated (lg l).

(** ---- classic ------------------------------------------------------------------- *)
Fixpoint classic_go (now : Z) (ls : list link) (i : Z) (best : option Z) (bs : Z) : option Z :=
  match ls with
  | [] => best
  | l :: t =>
    if skipped now l then classic_go now t (i + 1) best bs
    else let sc := get_score l in
         if bs <? sc then classic_go now t (i + 1) (Some i) sc
         else classic_go now t (i + 1) best bs
  end.
Definition classic_select (now : Z) (ls : list link) : option Z := classic_go now ls 0 None (-1).

(** ---- enhanced ------------------------------------------------------------------ *)
Definition unconstrained (now : Z) (l : link) (si : selin) : bool :=
  a_conn (la l) && negb (timed_out l now) && schedulable l && negb (x_weak (lx l)) && negb (x_lossdeg (lx l)) &&
  negb (g_gated (lg l)) && negb (si_capx si).

Fixpoint any_unconstrained (now : Z) (ls : list link) (ins : list selin) : bool :=
  match ls with
  | [] => false
  | l :: t => unconstrained now l (hd selin0 ins) || any_unconstrained now t (tl ins)
  end.

(** [get_cached_quality_multiplier]: refresh when 50 ms old *)
Definition refresh_quality (now : Z) (q : float) (c : cache) : cache :=
  if QUALITY_CACHE_INTERVAL_MS <=? ssub now (c_qcalc c) then mkC (c_ctimeout c) q now else c.

Record eacc := mkE { e_best : option Z; e_bs : float; e_cur : option float }.

(** the scoring loop; returns the links with refreshed caches *)
Fixpoint enh_go (now : Z) (quality any : bool) (last : option Z) (ls : list link) (ins : list selin)
                (i : Z) (acc : eacc) : list link * eacc :=
  match ls with
  | [] => ([], acc)
  | l :: t =>
    let si := hd selin0 ins in
    if skipped now l || (any && si_capx si) then
      let '(t', acc') := enh_go now quality any last t (tl ins) (i + 1) acc in (l :: t', acc')
    else
      let gate_mult := if any && (x_weak (lx l) || x_lossdeg (lx l)) then GATED_LINK_PENALTY else 1%float in
      let base := (z2f (get_score l) * phase_weight (a_phase (la l)))%float in
      let capm := cc_soft_cap (lx l) in
      let c' := if quality then refresh_quality now (si_q si) (lc l) else lc l in
      let score := if quality then (base * c_qmult c' * capm * gate_mult)%float
                   else (base * capm * gate_mult)%float in
      let cur := if opt_eqb Z.eqb (Some i) last then Some score else e_cur acc in
      let acc1 := if (e_bs acc <? score)%float then mkE (Some i) score cur
                  else mkE (e_best acc) (e_bs acc) cur in
      let '(t', acc') := enh_go now quality any last t (tl ins) (i + 1) acc1 in
      (mkL (la l) (lg l) (lx l) c' :: t', acc')
  end.

Definition enhanced_select (now : Z) (quality : bool) (last : option Z) (ls : list link)
                           (ins : list selin) : list link * option Z :=
  let any := any_unconstrained now ls ins in
  let '(ls', acc) := enh_go now quality any last ls ins 0 (mkE None (-1)%float None) in
  let res :=
    match last with
    | None => e_best acc
    | Some la_ =>
      if opt_eqb Z.eqb (e_best acc) (Some la_) then e_best acc
      else match e_cur acc with
           | Some cur => if (e_bs acc <? cur * SWITCH_THRESHOLD)%float then Some la_ else e_best acc
           | None => e_best acc
           end
    end in
  (ls', res).

(** [select_connection_idx]: the decision AND the post-state *)
Definition select (cfg : config) (last : option Z) (now : Z) (ins : list selin) (ls : list link)
  : list link * option Z :=
  let ls1 := apply_stall_gate now cfg ls in
  if cf_classic cfg then (ls1, classic_select now ls1)
  else enhanced_select now (cf_quality cfg) last ls1 ins.
