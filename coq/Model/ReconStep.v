(** ReconStep.v — ops, observations and the step function of the C08 shell model. *)
From Srtla Require Import Base Constants Reconnect ReconShell.
Local Open Scope Z_scope.

Inductive op :=
| OSetTimeout (ms : Z)                                (* DynamicConfig::set_conn_timeout_ms *)
| OSetMode (classic : bool)
| OStartProbe (now : Z)                               (* reg.start_probing + the shell's probe sends *)
| OTick (now : Z) (refresh : bool) (dgs ws : list Z)  (* housekeeping arm; dgs/ws oracles *)
| OReg3 (i : nat) (now : Z)
| OReg2 (i : nat) (now : Z) (full : bool)
| ONgp (i : nat) (now : Z)
| ORegErr (i : nat) (now : Z)
| OKeepalive (i : nat) (now : Z) (ok : bool)          (* keepalive echo; ok = RTT sample accepted *)
| OInbound (i : nat) (now : Z) (cc : list (Z * Z))    (* any other typed datagram; per-link (window,in-flight) after *)
| OData (now : Z) (sel : option nat) (flushed : bool) (inf' : Z) (gs : list bool)
| OFlush (now : Z) (infs : list Z)
| OSetBind (i : nat) (b : bool)                       (* fault: socket re-creation fails / works *)
| OShut (i : nat)                                     (* fault: the current socket rejects sends *)
| ODropIo (i : nat)                                   (* fault: the I/O entry disappears *)
| OSetPen (i : nat) (p : pens)                        (* routing penalties set by other arms *)
| ORepair (i : nat) (now : Z).                        (* marker: link i's path is good from now on *)

Definition op_time (o : op) : option Z :=
  match o with
  | OStartProbe t | OTick t _ _ _ | OReg3 _ t | OReg2 _ t _ | ONgp _ t | ORegErr _ t
  | OKeepalive _ t _ | OInbound _ t _ | OData t _ _ _ _ | OFlush t _ | ORepair _ t => Some t
  | _ => None
  end.

(** what one step shows: per-link wire (handshake datagrams in order) and the tick result *)
Record out := OUT { o_wire : list (list Z); o_err : bool }.
Definition no_wire (n : nat) : list (list Z) := repeat [] n.
Definition quiet (s : state) : out := OUT (no_wire (length (links s))) false.

Definition with_links (s : state) (ls : list link) : state :=
  ST ls (rg s) (lastsel s) (allfail s) (cfg_to s) (cfg_classic s).
Definition with_rg (s : state) (g : reg) : state :=
  ST (links s) g (lastsel s) (allfail s) (cfg_to s) (cfg_classic s).
Definition on_link (s : state) (i : nat) (f : link -> link) : state := with_links s (upd i f (links s)).

Definition wire_at (n i : nat) (w : list Z) : list (list Z) := upd i (fun _ => w) (no_wire n).

(** ---- packet_handler.rs::select_pre_registration_connection ---- *)
Fixpoint first_alive (ls : list link) (now : Z) (i : nat) : option nat :=
  match ls with
  | [] => None
  | l :: t => if negb (is_timed_out l now) then Some i else first_alive t now (S i)
  end.
Definition pre_reg_select (ls : list link) (last : option nat) (now : Z) : option nat :=
  match last with
  | Some idx =>
    match nth_error ls idx with
    | Some c => if l_conn c && negb (is_timed_out c now) then Some idx else first_alive ls now O
    | None => first_alive ls now O
    end
  | None => first_alive ls now O
  end.

Fixpoint zip_with {A B C} (f : A -> B -> C) (da : A) (db : B) (la : list A) (lb : list B) : list C :=
  match la with
  | [] => []
  | a :: ta => f a (hd db lb) :: zip_with f da db ta (tl lb)
  end.

Definition set_gated (l : link) (g : bool) : link :=
  set_pen l (PN g (p_weak (l_pen l)) (p_backoff (l_pen l)) (p_lossdeg (l_pen l))).

(** forward_via_connection: the threshold flush and its failure path *)
Definition forward (l : link) (flushed : bool) (inf' : Z) : link :=
  if flushed && l_io l then
    let l1 := set_inf l inf' in
    if l_sock l1 then l1 else mark_for_recovery l1
  else l.

Definition step_tick (s : state) (now : Z) (refresh : bool) (dgs ws : list Z) : state * out :=
  let ls0 := if refresh then map (fun l => set_to l (cfg_to s)) (links s) else links s in
  let g0 := clear_pending_if_timed_out (rg s) now in
  let '(g1, ls1) :=
    if is_probing g0 then
      let '(g', done) := check_probing_complete g0 now in
      if done then
        match g_target g' with
        | Some idx => (g', upd idx (fun l => set_grace l (now + STARTUP_GRACE_MS)) ls0)
        | None => (g', ls0)
        end
      else (g', ls0)
    else (g0, ls0) in
  let '(ls2, g2, wire) := tick_links O ls1 g1 now (cfg_classic s) dgs ws in
  let g3 := set_active g2 (count_conn ls2) in
  let '(g4, wire') := reg_driver g3 ls2 now wire in
  let alive := count_alive ls2 now in
  let '(af, err) :=
    if alive =? 0 then
      let fa := match allfail s with Some t => t | None => now end in
      (Some fa, GLOBAL_TIMEOUT_MS <? ssub now fa)
    else (None, false) in
  (ST ls2 g4 (lastsel s) af (cfg_to s) (cfg_classic s), OUT wire' err).

Definition step (s : state) (o : op) : state * out :=
  let n := length (links s) in
  match o with
  | OSetTimeout ms =>
    (ST (links s) (rg s) (lastsel s) (allfail s) (clamp CONN_TIMEOUT_MS_MIN CONN_TIMEOUT_MS_MAX ms) (cfg_classic s), quiet s)
  | OSetMode c => (ST (links s) (rg s) (lastsel s) (allfail s) (cfg_to s) c, quiet s)
  | OStartProbe now =>
    let g := rg s in
    if (g_prob g =? 0) && (g_active g =? 0) then
      let ls := map (fun l => set_grace l (now + STARTUP_GRACE_MS)) (links s) in
      let res := map (fun i => (i, now, @None Z)) (seq O n) in
      let g' := match n with
                | O => RG (g_pend g) (g_pto g) (g_active g) (g_hasconn g) (g_bcast g) (g_target g) (g_next g) 3 []
                | _ => RG (g_pend g) (now + PROBE_WAIT_MS) (g_active g) (g_hasconn g) (g_bcast g) (g_target g) (g_next g) 2 res
                end in
      (with_rg (with_links s ls) g', OUT (map (fun l => emit l W_PROBE) ls) false)
    else (s, quiet s)
  | OTick now refresh dgs ws => step_tick s now refresh dgs ws
  | OReg3 i now =>
    if (i <? n)%nat then (with_rg (on_link s i (fun l => reg3_link l now)) (handle_reg3 (rg s)), quiet s)
    else (s, quiet s)
  | OReg2 i now full =>
    if (i <? n)%nat then (with_rg s (handle_reg2 (rg s) i now full), quiet s) else (s, quiet s)
  | ONgp i now =>
    match nth_error (links s) i with
    | Some l =>
      let g1 := handle_reg_ngp (rg s) i now in
      if ngp_immediate g1 i now
      then (with_rg s (build_reg1_for g1 i now), OUT (wire_at n i (emit l W_REG1)) false)
      else (with_rg s g1, quiet s)
    | None => (s, quiet s)
    end
  | ORegErr i now =>
    if (i <? n)%nat then (with_rg (on_link s i regerr_link) (handle_reg_err (rg s) now), quiet s)
    else (s, quiet s)
  | OKeepalive i now ok =>
    (on_link s i (fun l => let l1 := set_lr l (Some now) in
                           if ok then set_ph l1 (record_rtt_probe (l_ph l1)) else l1), quiet s)
  | OInbound i now cc =>
    let ls1 := upd i (fun l => set_lr l (Some now)) (links s) in
    let ls2 := if (i <? n)%nat then
                 zip_with (fun l (c : Z * Z) => if l_conn l || (0 <? l_inf l)
                                                then set_inf (set_win l (fst c)) (snd c) else l)
                          (link0 0) (0, 0) ls1 cc
               else ls1 in
    (with_links s ls2, quiet s)
  | OData now sel flushed inf' gs =>
    let '(ls1, pick) :=
      if g_hasconn (rg s)
      then (zip_with (fun l g => set_gated (set_to l (cfg_to s)) g) (link0 0) false (links s) gs, sel)
      else (links s, pre_reg_select (links s) (lastsel s) now) in
    match pick with
    | Some i =>
      if (i <? n)%nat
      then (ST (upd i (fun l => forward l flushed inf') ls1) (rg s) (Some i) (allfail s) (cfg_to s) (cfg_classic s), quiet s)
      else (with_links s ls1, quiet s)
    | None => (with_links s ls1, quiet s)
    end
  | OFlush now infs =>
    (with_links s (zip_with (fun l f => if l_io l then set_inf l f else l) (link0 0) 0 (links s) infs), quiet s)
  | OSetBind i b => (on_link s i (fun l => set_env l (l_io l) b (l_sock l)), quiet s)
  | OShut i => (on_link s i (fun l => set_env l (l_io l) (l_bind l) false), quiet s)
  | ODropIo i => (on_link s i (fun l => set_env l false (l_bind l) (l_sock l)), quiet s)
  | OSetPen i p => (on_link s i (fun l => set_pen l p), quiet s)
  | ORepair _ _ => (s, quiet s)
  end.

(** the run: the trace pairs every op with the output and the state reached *)
Fixpoint run_from (s : state) (ops : list op) : list (op * out * state) :=
  match ops with
  | [] => []
  | o :: t => let '(s', w) := step s o in (o, w, s') :: run_from s' t
  end.
Definition run (n : nat) (t0 : Z) (ops : list op) := run_from (init n t0) ops.
Fixpoint final (s : state) (ops : list op) : state :=
  match ops with [] => s | o :: t => final (fst (step s o)) t end.
