(** Splice.v — the one list operation the wire translator (tools/gen_wire.py) needs besides
    Base.v:  `dst[lo..hi].copy_from_slice(src)`.  Rust panics when the range is not inside
    `dst` (lo > hi or hi > dst.len()) and when the two slices differ in length; both are [Oob]
    here.  No proofs. *)
From Srtla Require Import Base.

Definition splice (dst : list Z) (lo hi : Z) (src : list Z) : res (list Z) :=
  if (0 <=? lo) && (lo <=? hi) && (hi <=? blen dst) && (blen src =? hi - lo)
  then Ok (firstn (Z.to_nat lo) dst ++ src ++ skipn (Z.to_nat hi) dst)
  else Oob.
