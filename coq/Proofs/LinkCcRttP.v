(** LinkCcRttP.v — the smoothed RTT of the link-CC model stays a finite positive number.

    [Run_C16.wf] asks that, once a link has left Bootstrap, the model's own [rtt_ewma_ms] stays
    finite and non-zero.  Here that is DERIVED from a premise on the inputs alone
    ([Run_C16.wf_inputs]: every reported RTT is no sample or lies in [2^-200, 2^200] ms):
    the age-bucketed EWMA [(rtt * 1 + prev * w) / (1 + w)], w in {1, 4, 8, 16}, of two binary64
    numbers in [2^-200, 2^200] is again in that interval (IEEE-754 round-to-nearest-even
    arithmetic, via Flocq's bridge to Coq's primitive floats). *)
From Srtla Require Import Base Constants LinkCc LinkCcP Run_C16 C16P.
From Coq Require Import ZArith Reals Lia Lra Floats.
From Flocq Require Import Core.Core IEEE754.BinarySingleNaN.
From Flocq Require IEEE754.PrimFloat.
Module FP := Flocq.IEEE754.PrimFloat.
#[local] Existing Instance FP.Hprec.
#[local] Existing Instance FP.Hmax.

Section Real.
Local Open Scope R_scope.

Notation bfl := (binary_float FloatOps.prec FloatOps.emax).
Notation fexp64 := (SpecFloat.fexp FloatOps.prec FloatOps.emax).
Notation rnd := (round radix2 fexp64 (round_mode mode_NE)).
Notation gfmt := (generic_format radix2 fexp64).

Lemma gen_scaled (m e : Z) : (Z.abs m < 2 ^ 53)%Z -> (-1074 <= e)%Z -> gfmt (IZR m * bpow radix2 e).
Proof.
  intros Hm He.
  apply (generic_format_FLT radix2 (-1074) 53).
  apply (FLT_spec radix2 (-1074) 53 _ (Float radix2 m e)); [reflexivity|exact Hm|exact He].
Qed.

Definition pos_in (x : bfl) (l h : R) : Prop := is_finite x = true /\ l <= B2R x <= h.

Lemma rnd_between x l h : gfmt l -> gfmt h -> l <= x <= h -> l <= rnd x <= h.
Proof.
  intros Gl Gh [H1 H2]. split.
  - apply round_ge_generic; [apply (fexp_correct prec emax FP.Hprec)|apply valid_rnd_N|exact Gl|exact H1].
  - apply round_le_generic; [apply (fexp_correct prec emax FP.Hprec)|apply valid_rnd_N|exact Gh|exact H2].
Qed.

Lemma no_ovf z h : 0 <= z <= h -> h < bpow radix2 emax -> Rlt_bool (Rabs z) (bpow radix2 emax) = true.
Proof. intros [H0 H1] H2. apply Rlt_bool_true. rewrite Rabs_pos_eq by exact H0. lra. Qed.

Lemma mult_bounds (x y : bfl) l1 h1 l2 h2 :
  pos_in x l1 h1 -> pos_in y l2 h2 -> 0 < l1 -> 0 < l2 ->
  gfmt (l1 * l2) -> gfmt (h1 * h2) -> h1 * h2 < bpow radix2 emax ->
  pos_in (Bmult mode_NE x y) (l1 * l2) (h1 * h2).
Proof.
  intros [Fx [Lx Hx]] [Fy [Ly Hy]] P1 P2 G1 G2 Hov.
  assert (Hb : l1 * l2 <= B2R x * B2R y <= h1 * h2).
  { split; apply Rmult_le_compat; lra. }
  pose proof (rnd_between _ _ _ G1 G2 Hb) as Hr.
  pose proof (Bmult_correct prec emax FP.Hprec FP.Hmax mode_NE x y) as C.
  rewrite (no_ovf _ (h1 * h2)) in C; [|split; [|apply Hr]|exact Hov].
  - destruct C as (C1 & C2 & _). split; [rewrite C2, Fx, Fy; reflexivity|rewrite C1; exact Hr].
  - apply Rle_trans with (l1 * l2); [apply Rmult_le_pos; lra|apply Hr].
Qed.

Lemma plus_bounds (x y : bfl) l1 h1 l2 h2 :
  pos_in x l1 h1 -> pos_in y l2 h2 -> 0 < l1 -> 0 < l2 ->
  gfmt (l1 + l2) -> gfmt (h1 + h2) -> h1 + h2 < bpow radix2 emax ->
  pos_in (Bplus mode_NE x y) (l1 + l2) (h1 + h2).
Proof.
  intros [Fx [Lx Hx]] [Fy [Ly Hy]] P1 P2 G1 G2 Hov.
  assert (Hb : l1 + l2 <= B2R x + B2R y <= h1 + h2) by lra.
  pose proof (rnd_between _ _ _ G1 G2 Hb) as Hr.
  pose proof (Bplus_correct prec emax FP.Hprec FP.Hmax mode_NE x y Fx Fy) as C.
  rewrite (no_ovf _ (h1 + h2)) in C; [|split; [lra|apply Hr]|exact Hov].
  destruct C as (C1 & C2 & _). split; [exact C2|rewrite C1; exact Hr].
Qed.

Lemma div_bounds (x y : bfl) l h c :
  pos_in x l h -> is_finite y = true -> B2R y = c -> 0 < c -> 0 < l ->
  gfmt (l / c) -> gfmt (h / c) -> h / c < bpow radix2 emax ->
  pos_in (Bdiv mode_NE x y) (l / c) (h / c).
Proof.
  intros [Fx [Lx Hx]] Fy Ey Pc Pl G1 G2 Hov.
  assert (Hb : l / c <= B2R x / B2R y <= h / c).
  { rewrite Ey. unfold Rdiv. split; apply Rmult_le_compat_r; try lra; apply Rlt_le, Rinv_0_lt_compat, Pc. }
  pose proof (rnd_between _ _ _ G1 G2 Hb) as Hr.
  assert (Hy0 : B2R y <> 0) by lra.
  pose proof (Bdiv_correct prec emax FP.Hprec FP.Hmax mode_NE x y Hy0) as C.
  assert (0 < l / c) by (apply Rdiv_lt_0_compat; lra).
  rewrite (no_ovf _ (h / c)) in C; [|split; [lra|apply Hr]|exact Hov].
  destruct C as (C1 & C2 & _). split; [rewrite C2; exact Fx|rewrite C1; exact Hr].
Qed.

Definition LO : R := bpow radix2 (-200).
Definition HI : R := bpow radix2 200.

Lemma LO_pos : 0 < LO. Proof. apply bpow_gt_0. Qed.
Lemma HI_pos : 0 < HI. Proof. apply bpow_gt_0. Qed.

Lemma gf_LO_k (k : Z) : (0 <= k <= 32)%Z -> gfmt (LO * IZR k).
Proof. intro H. unfold LO. rewrite Rmult_comm. apply gen_scaled; lia. Qed.
Lemma gf_HI_k (k : Z) : (0 <= k <= 32)%Z -> gfmt (HI * IZR k).
Proof. intro H. unfold HI. rewrite Rmult_comm. apply gen_scaled; lia. Qed.
Lemma HI_k_small (k : Z) : (0 <= k <= 32)%Z -> HI * IZR k < bpow radix2 emax.
Proof.
  intro H. apply Rle_lt_trans with (bpow radix2 205).
  - replace 205%Z with (200 + 5)%Z by reflexivity. rewrite bpow_plus. unfold HI.
    apply Rmult_le_compat_l; [apply bpow_ge_0|]. change (bpow radix2 5) with 32. apply IZR_le. lia.
  - apply bpow_lt. reflexivity.
Qed.

Lemma pos_in_ext (x : bfl) l h l' h' : pos_in x l h -> l = l' -> h = h' -> pos_in x l' h'.
Proof. intros H -> ->. exact H. Qed.

(** the age-bucketed EWMA of two numbers in [2^-200, 2^200] stays there *)
Lemma mix_bounds (rtt prev one w d : bfl) (W : Z) :
  (1 <= W <= 16)%Z ->
  pos_in rtt LO HI -> pos_in prev LO HI ->
  pos_in one 1 1 -> pos_in w (IZR W) (IZR W) -> is_finite d = true -> B2R d = IZR (1 + W) ->
  pos_in (Bdiv mode_NE (Bplus mode_NE (Bmult mode_NE rtt one) (Bmult mode_NE prev w)) d) LO HI.
Proof.
  intros HW Hr Hp H1 Hw Fd Ed.
  pose proof LO_pos. pose proof HI_pos.
  assert (HWr : 1 <= IZR W) by (apply IZR_le; lia).
  assert (M1 : pos_in (Bmult mode_NE rtt one) (LO * IZR 1) (HI * IZR 1)).
  { apply mult_bounds; try assumption; try lra; [apply gf_LO_k; lia|apply gf_HI_k; lia|apply HI_k_small; lia]. }
  assert (M2 : pos_in (Bmult mode_NE prev w) (LO * IZR W) (HI * IZR W)).
  { apply mult_bounds; try assumption; try lra; [apply gf_LO_k; lia|apply gf_HI_k; lia|apply HI_k_small; lia]. }
  assert (S : pos_in (Bplus mode_NE (Bmult mode_NE rtt one) (Bmult mode_NE prev w))
                     (LO * IZR (1 + W)) (HI * IZR (1 + W))).
  { eapply pos_in_ext; [apply (plus_bounds _ _ _ _ _ _ M1 M2)| |]; rewrite ?plus_IZR; try ring.
    - lra.
    - apply Rmult_lt_0_compat; lra.
    - replace (LO * 1 + LO * IZR W) with (LO * IZR (1 + W)) by (rewrite plus_IZR; ring). apply gf_LO_k; lia.
    - replace (HI * 1 + HI * IZR W) with (HI * IZR (1 + W)) by (rewrite plus_IZR; ring). apply gf_HI_k; lia.
    - replace (HI * 1 + HI * IZR W) with (HI * IZR (1 + W)) by (rewrite plus_IZR; ring). apply HI_k_small; lia. }
  assert (Hc : 0 < IZR (1 + W)) by (apply IZR_lt; lia).
  eapply pos_in_ext; [apply (div_bounds _ d _ _ (IZR (1 + W)) S Fd Ed Hc)| |]; try (field; lra).
  - apply Rmult_lt_0_compat; lra.
  - replace (LO * IZR (1 + W) / IZR (1 + W)) with (LO * IZR 1) by (field; lra). apply gf_LO_k; lia.
  - replace (HI * IZR (1 + W) / IZR (1 + W)) with (HI * IZR 1) by (field; lra). apply gf_HI_k; lia.
  - replace (HI * IZR (1 + W) / IZR (1 + W)) with (HI * IZR 1) by (field; lra). apply HI_k_small; lia.
Qed.

(** ---- bridge to primitive floats ---- *)
Definition in_range (x : PrimFloat.float) : Prop := pos_in (FP.Prim2B x) LO HI.

Lemma B2R_Prim2B x : B2R (FP.Prim2B x) = SF2R radix2 (Prim2SF x).
Proof. unfold FP.Prim2B. apply B2R_SF2B. Qed.
Lemma finite_Prim2B x : is_finite (FP.Prim2B x) = is_finite_SF (Prim2SF x).
Proof. unfold FP.Prim2B. apply is_finite_SF2B. Qed.

End Real.

Section Prim.
Local Open Scope R_scope.

Ltac prim_const :=
  split;
  [ rewrite finite_Prim2B; vm_compute; reflexivity
  | rewrite B2R_Prim2B;
    match goal with |- context [Prim2SF ?c] =>
      let sf := fresh "sf" in set (sf := Prim2SF c); vm_compute in sf; subst sf end;
    unfold SF2R, F2R, LO, HI; simpl; lra ].

Lemma c_one : pos_in (FP.Prim2B 1%float) 1 1. Proof. prim_const. Qed.
Lemma c_w1 : pos_in (FP.Prim2B 1%float) (IZR 1) (IZR 1). Proof. prim_const. Qed.
Lemma c_w4 : pos_in (FP.Prim2B 4%float) (IZR 4) (IZR 4). Proof. prim_const. Qed.
Lemma c_w8 : pos_in (FP.Prim2B 8%float) (IZR 8) (IZR 8). Proof. prim_const. Qed.
Lemma c_w16 : pos_in (FP.Prim2B 16%float) (IZR 16) (IZR 16). Proof. prim_const. Qed.
Lemma c_d2 : pos_in (FP.Prim2B (1 + 1)%float) (IZR (1 + 1)) (IZR (1 + 1)). Proof. prim_const. Qed.
Lemma c_d5 : pos_in (FP.Prim2B (1 + 4)%float) (IZR (1 + 4)) (IZR (1 + 4)). Proof. prim_const. Qed.
Lemma c_d9 : pos_in (FP.Prim2B (1 + 8)%float) (IZR (1 + 8)) (IZR (1 + 8)). Proof. prim_const. Qed.
Lemma c_d17 : pos_in (FP.Prim2B (1 + 16)%float) (IZR (1 + 16)) (IZR (1 + 16)). Proof. prim_const. Qed.
Lemma c_lo : pos_in (FP.Prim2B 0x1p-200%float) LO LO. Proof. prim_const. Qed.
Lemma c_hi : pos_in (FP.Prim2B 0x1p+200%float) HI HI. Proof. prim_const. Qed.
Lemma c_zero : is_finite (FP.Prim2B 0%float) = true /\ B2R (FP.Prim2B 0%float) = 0.
Proof.
  split; [rewrite finite_Prim2B; vm_compute; reflexivity|].
  rewrite B2R_Prim2B. set (sf := Prim2SF 0%float). vm_compute in sf. subst sf. reflexivity.
Qed.

Lemma pos_in_point (x : binary_float prec emax) c : pos_in x c c -> is_finite x = true /\ B2R x = c.
Proof. intros [F [H1 H2]]. split; [exact F|apply Rle_antisym; assumption]. Qed.

Lemma mix_in_range (rtt prev w : PrimFloat.float) (W : Z) :
  (1 <= W <= 16)%Z -> pos_in (FP.Prim2B w) (IZR W) (IZR W) ->
  pos_in (FP.Prim2B (1 + w)%float) (IZR (1 + W)) (IZR (1 + W)) ->
  in_range rtt -> in_range prev -> in_range ((rtt * 1 + prev * w) / (1 + w))%float.
Proof.
  intros HW Hw Hd Hr Hp. unfold in_range in *.
  rewrite FP.div_equiv, FP.add_equiv, !FP.mul_equiv.
  destruct (pos_in_point _ _ Hd) as [Fd Ed].
  apply mix_bounds with W; try assumption. exact c_one.
Qed.

(** the boolean range test of [rtt_input_ok] *)
Lemma range_b_in_range x :
  (f_is_finite x && f_le 0x1p-200%float x && f_le x 0x1p+200%float)%bool = true -> in_range x.
Proof.
  intro H. apply andb_true_iff in H. destruct H as [H H3]. apply andb_true_iff in H. destruct H as [H1 H2].
  unfold f_is_finite in H1. rewrite FP.is_finite_equiv in H1.
  unfold f_le in H2, H3. rewrite FP.leb_equiv in H2, H3.
  destruct c_lo as [Flo [Llo Hlo]]. destruct c_hi as [Fhi [Lhi Hhi]].
  rewrite Bleb_correct in H2, H3 by assumption.
  destruct (Rle_bool_spec (B2R (FP.Prim2B 0x1p-200%float)) (B2R (FP.Prim2B x))) as [A|A]; [|discriminate].
  destruct (Rle_bool_spec (B2R (FP.Prim2B x)) (B2R (FP.Prim2B 0x1p+200%float))) as [B|B]; [|discriminate].
  split; [exact H1|]. lra.
Qed.

(** a number in range is finite and not zero: the Bootstrap test of [tick] fails on it *)
Lemma in_range_valid x : in_range x -> f_is_finite x = true /\ f_eq x fzero = false.
Proof.
  intros [F [L H]]. split.
  - unfold f_is_finite. rewrite FP.is_finite_equiv. exact F.
  - unfold f_eq, fzero. rewrite FP.eqb_equiv. destruct c_zero as [F0 E0].
    rewrite Beqb_correct by assumption. rewrite E0. apply Req_bool_false.
    pose proof LO_pos. lra.
Qed.

End Prim.

Section Model.
Local Open Scope Z_scope.

Lemma in_range_pos x : in_range x -> f_le x fzero = false /\ f_lt fzero x = true.
Proof.
  intros [F [L H]]. destruct c_zero as [F0 E0]. pose proof LO_pos as HL.
  unfold f_le, f_lt, fzero. rewrite FP.leb_equiv, FP.ltb_equiv.
  rewrite Bleb_correct, Bltb_correct by assumption. rewrite E0. split.
  - apply Rle_bool_false. lra.
  - apply Rlt_bool_true. lra.
Qed.

(** the controller's smoothed RTT is either still unset or a number in [2^-200, 2^200] *)
Definition ewma_good (r : rtt_part) : Prop := r_ewma r = fzero \/ in_range (r_ewma r).

Lemma update_rtt_min_ewma r ewma var last rtt now :
  r_ewma (update_rtt_min r ewma var last rtt now) = ewma.
Proof. unfold update_rtt_min. destruct (_ || _ || _)%bool; reflexivity. Qed.

Lemma record_rtt_in_range r rtt now :
  ewma_good r -> in_range rtt -> in_range (r_ewma (record_rtt r rtt now)).
Proof.
  intros Hg Hr. unfold record_rtt.
  destruct (in_range_valid _ Hr) as [Hf _]. destruct (in_range_pos _ Hr) as [Hle _].
  rewrite Hf, Hle. cbn [negb orb].
  destruct (f_eq (r_ewma r) fzero || (2000 <=? ssub now (r_last r)))%bool eqn:E.
  - rewrite update_rtt_min_ewma. exact Hr.
  - apply orb_false_iff in E. destruct E as [E0 _].
    assert (Hp : in_range (r_ewma r)).
    { destruct Hg as [Hz|Hp]; [|exact Hp]. rewrite Hz in E0. vm_compute in E0. discriminate. }
    cbv zeta. rewrite update_rtt_min_ewma. unfold fone.
    destruct (1000 <=? _); [apply (mix_in_range _ _ _ 1); try assumption; [lia|exact c_w1|exact c_d2]|].
    destruct (500 <=? _); [apply (mix_in_range _ _ _ 4); try assumption; [lia|exact c_w4|exact c_d5]|].
    destruct (250 <=? _); [apply (mix_in_range _ _ _ 8); try assumption; [lia|exact c_w8|exact c_d9]|].
    apply (mix_in_range _ _ _ 16); try assumption; [lia|exact c_w16|exact c_d17].
Qed.

Lemma pre_tick_good s now i :
  ewma_good (k_rtt s) -> rtt_input_ok (i_rtt i) = true ->
  ewma_good (pre_tick_rtt s now i) /\
  (in_range (r_ewma (k_rtt s)) -> in_range (r_ewma (pre_tick_rtt s now i))).
Proof.
  intros Hg Hok. unfold rtt_input_ok in Hok. apply orb_true_iff in Hok. destruct Hok as [Hn|Hb].
  - apply negb_true_iff in Hn. rewrite pre_tick_rtt_no_sample by exact Hn. split; [exact Hg|auto].
  - apply range_b_in_range in Hb. destruct (in_range_pos _ Hb) as [_ Hlt].
    unfold pre_tick_rtt. rewrite Hlt.
    pose proof (record_rtt_in_range (k_rtt s) (i_rtt i) now Hg Hb) as H. split; [right; exact H|intros _; exact H].
Qed.

Definition rtt_inv (s : link) : Prop :=
  ewma_good (k_rtt s) /\ (c_state (k_core s) <> Bootstrap -> in_range (r_ewma (k_rtt s))).

Lemma rtt_inv_default : rtt_inv link_default.
Proof. split; [left; reflexivity|intro H; exfalso; apply H; reflexivity]. Qed.

Lemma in_range_not_invalid r : in_range (r_ewma r) -> rtt_invalid r = false.
Proof.
  intro H. destruct (in_range_valid _ H) as [Hf He]. unfold rtt_invalid. rewrite Hf, He. reflexivity.
Qed.

Lemma rtt_inv_step s now i : rtt_inv s -> rtt_input_ok (i_rtt i) = true -> rtt_inv (link_step s now i).
Proof.
  intros [Hg Hn] Hok. destruct (pre_tick_good s now i Hg Hok) as [Hg' _].
  destruct (link_step_shape s now i) as [Er Hshape]. cbv zeta in Er, Hshape.
  split; [rewrite Er; exact Hg'|].
  destruct Hshape as [(_ & Ec & _)|(Ei & _ & _)].
  - rewrite Ec. cbn. intro H; exfalso; apply H; reflexivity.
  - intros _. rewrite Er. destruct Hg' as [Hz|Hp]; [|exact Hp].
    rewrite (rtt_invalid_zero _ Hz) in Ei. discriminate.
Qed.

Lemma rtt_inv_stays_valid s now i :
  rtt_inv s -> rtt_input_ok (i_rtt i) = true -> rtt_stays_valid s now i = true.
Proof.
  intros [Hg Hn] Hok. unfold rtt_stays_valid.
  destruct (cc_state_eqb (c_state (k_core s)) Bootstrap) eqn:E; [reflexivity|].
  cbn [orb]. apply negb_true_iff, in_range_not_invalid.
  destruct (pre_tick_good s now i Hg Hok) as [_ H]. apply H, Hn.
  intro Hb. rewrite Hb in E. discriminate.
Qed.

(** ---- from the premise on inputs to [wf] ---- *)
Lemma ctrl_all_tick_links_cond (P : link -> Prop) (Q : inp -> Prop) now :
  P link_default -> (forall s i, Q i -> P s -> P (link_step s now i)) ->
  forall inps c, (forall i, In i inps -> Q i) -> ctrl_all P c -> ctrl_all P (tick_links c now inps).
Proof.
  intros Hd Hs. induction inps as [|i t IH]; intros c HQ Hc; cbn; [exact Hc|].
  apply IH; [intros j Hj; apply HQ; right; exact Hj|].
  intros k s Hin. apply In_upsert in Hin. destruct Hin as [E|Hin].
  - inversion E; subst. apply Hs; [apply HQ; left; reflexivity|].
    destruct (getd_In_or_default link_default c (i_id i)) as [E2|Hi]; [rewrite E2; exact Hd|].
    eapply Hc; exact Hi.
  - eapply Hc; exact Hin.
Qed.

Lemma getd_all (P : link -> Prop) c k : P link_default -> ctrl_all P c -> P (getd link_default c k).
Proof.
  intros Hd Hc. destruct (getd_In_or_default link_default c k) as [E|Hi]; [rewrite E; exact Hd|].
  eapply Hc; exact Hi.
Qed.

Lemma wf_from_inputs ops : forall c,
  ctrl_all rtt_inv c -> wf_inputs ops = true -> wf_from c ops = true.
Proof.
  induction ops as [|[now inps] t IH]; intros c Hc Hw; [reflexivity|].
  cbn [wf_inputs forallb] in Hw. apply andb_true_iff in Hw. destruct Hw as [Hw1 Hw2].
  cbn [wf_from]. apply andb_true_iff.
  unfold tick_wf_in in Hw1. apply andb_true_iff in Hw1. destruct Hw1 as [Hhead Hall].
  rewrite forallb_forall in Hall.
  split.
  - unfold tick_wf. rewrite Hhead. cbn [andb]. apply forallb_forall. intros i Hi.
    specialize (Hall i Hi). apply andb_true_iff in Hall. destruct Hall as [H1 H2].
    rewrite H1. cbn [andb]. apply rtt_inv_stays_valid; [|exact H2].
    apply getd_all; [apply rtt_inv_default|exact Hc].
  - apply IH; [|exact Hw2].
    intros k s Hin. unfold tick_all in Hin. apply In_retain in Hin. revert k s Hin.
    apply (ctrl_all_tick_links_cond rtt_inv (fun i => rtt_input_ok (i_rtt i) = true)).
    + apply rtt_inv_default.
    + intros s i Hq Hs. apply rtt_inv_step; assumption.
    + intros i Hi. specialize (Hall i Hi). apply andb_true_iff in Hall. apply Hall.
    + exact Hc.
Qed.

Theorem wf_inputs_wf ops : wf_inputs ops = true -> wf ops = true.
Proof. intro H. apply wf_from_inputs; [intros k s []|exact H]. Qed.

Theorem model_satisfies_monitor_inputs ops : wf_inputs ops = true -> ok_C16 (run ops) = true.
Proof. intro H. apply model_satisfies_monitor, wf_inputs_wf, H. Qed.

End Model.
