(** LeafBatchP.v — the batch sender's regime thresholds and size-flush test (crates/srtla-core/src/connection/
    batch_send.rs, SrtlaConnection::recompute_batch_regime) as regenerated from the Rust source on every run
    (coq/Gen/LeafBatch.v) = Model/Forward.v (C01).  See DESIGN.md §12.8 (third batch).

    Of the three parallel [Vec]s of the Rust queue only the lengths are translated ([push] = +1); the model has
    one list of entries.  The regime is an input of the model (housekeeping effect [HRegime r]); the generated
    [from_bps] is the f64 threshold rule that produces it, and the wrapper is shown to store exactly its value. *)
From Coq Require Import List Floats.
From Srtla Require Import Base Constants FConstants LeafBatch LeafTac.
From Srtla Require Forward.
From Coq Require Import ZifyBool.
Import ListNotations.
Local Open Scope Z_scope.

Definition rg_of (r : Forward.regime) : BatchRegime :=
  match r with
  | Forward.LowActivity => BatchRegime_LowActivity
  | Forward.Normal => BatchRegime_Normal
  | Forward.HighLoad => BatchRegime_HighLoad
  end.
Definition rg_to (r : BatchRegime) : Forward.regime :=
  match r with
  | BatchRegime_LowActivity => Forward.LowActivity
  | BatchRegime_Normal => Forward.Normal
  | BatchRegime_HighLoad => Forward.HighLoad
  end.
Lemma rg_to_of r : rg_to (rg_of r) = r.
Proof. destruct r; reflexivity. Qed.
Lemma rg_of_to r : rg_of (rg_to r) = r.
Proof. destruct r; reflexivity. Qed.

Ltac rg_enum := repeat match goal with x : Forward.regime |- _ => destruct x | x : BatchRegime |- _ => destruct x end.

Lemma leaf_regime_batch_size_ok r : Forward.batch_size r = leaf_regime_batch_size (rg_of r).
Proof. first [ solve [ destruct r; reflexivity ] | solve [ intros; rg_enum; leaf_auto ] | solve [ intros; rg_enum; leaf_auto2 ] ]. Qed.

Lemma blen_snoc {A} (l : list A) x : blen (l ++ [x]) = blen l + 1.
Proof. unfold blen. rewrite app_length. cbn [length]. lia. Qed.

(** queue_packet: the three parallel vectors grow by one each, and the value returned is the model's size-flush
    test on the queue AFTER the packet was appended *)
Lemma leaf_batch_queue_packet_ok e l :
  let n := blen (Forward.queue l) in
  let '(q', s', t', flush) := leaf_batch_queue_packet (rg_of (Forward.regime_of l)) n n n in
  q' = blen (Forward.queue (Forward.enqueue e l)) /\ s' = q' /\ t' = q' /\
  flush = Forward.needs_flush (Forward.enqueue e l).
Proof.
  cbv zeta. unfold Forward.needs_flush, Forward.enqueue, Forward.upd_q; cbn [Forward.queue Forward.regime_of].
  rewrite blen_snoc, leaf_regime_batch_size_ok. generalize (blen (Forward.queue l)) as n. intros n.
  destruct (Forward.regime_of l);
    first [ solve [ unfold leaf_batch_queue_packet; cbv zeta; repeat split; reflexivity ] | solve [ leaf_auto2 ] ].
Qed.

Lemma leaf_batch_set_regime_ok r l :
  Forward.set_regime r l =
  Forward.set_regime (rg_to (leaf_batch_set_regime (rg_of (Forward.regime_of l)) (rg_of r))) l
  /\ Forward.regime_of (Forward.set_regime r l) = rg_to (leaf_batch_set_regime (rg_of (Forward.regime_of l)) (rg_of r)).
Proof. first [ solve [ unfold leaf_batch_set_regime; cbv zeta; rewrite rg_to_of; split; reflexivity ]
             | solve [ destruct l; rg_enum; split; reflexivity ] ]. Qed.

(** housekeeping's recompute stores the regime [from_bps] picks for the link's bitrate, whatever it was before *)
Lemma leaf_conn_recompute_batch_regime_ok bps cur :
  leaf_conn_recompute_batch_regime bps cur = leaf_regime_from_bps bps.
Proof. first [ solve [ reflexivity ] | solve [ rg_enum; leaf_auto2 ] ]. Qed.

(** [from_bps] has no hand-written counterpart (the regime is an input of Model/Forward.v); what is fixed here is
    its value at and around the two documented thresholds, by computation on binary64 *)
Lemma leaf_regime_from_bps_thresholds :
  leaf_regime_from_bps LOW_ACTIVITY_THRESHOLD_BPS = BatchRegime_LowActivity /\
  leaf_regime_from_bps (LOW_ACTIVITY_THRESHOLD_BPS + 1)%float = BatchRegime_Normal /\
  leaf_regime_from_bps HIGH_LOAD_THRESHOLD_BPS = BatchRegime_Normal /\
  leaf_regime_from_bps (HIGH_LOAD_THRESHOLD_BPS + 1)%float = BatchRegime_HighLoad /\
  leaf_regime_from_bps 0%float = BatchRegime_LowActivity /\
  leaf_regime_from_bps nan = BatchRegime_Normal.
Proof. repeat split; vm_compute; reflexivity. Qed.
