(** LeafRecovP.v — time-based window recovery as regenerated from the Rust source on every run
    (coq/Gen/LeafRecov.v: the rule enhanced::perform_window_recovery and the two wrappers that hand it the
    fields, CongestionControl::perform_window_recovery and SrtlaConnection::perform_window_recovery)
    = the hand-written model of Model/Conn.v (C02 C06).  See DESIGN.md §12.8.

    The f64 is kept: the generated rule takes [rtt_velocity : float], compares it with PrimFloat.ltb against
    the regenerated RTT_VELOCITY_GATE_THRESHOLD and computes [(base_incr as f64 * velocity_scale) as i32] in
    binary64; the model's boolean input [vel_hi] is instantiated with that comparison, and its integer
    halving [Z.quot base 2] is shown equal to the float round trip (on each of the finitely many base
    increments, by computation). *)
From Coq Require Import Floats.
From Srtla Require Import Base Constants FConstants LeafRecov LeafTac.
From Srtla Require Conn.
From Coq Require Import ZifyBool.
Local Open Scope Z_scope.

Definition vel_hi (v : float) : bool := (RTT_VELOCITY_GATE_THRESHOLD <? v)%float.

(** enhanced::perform_window_recovery (free function over the individual fields) *)
Lemma leaf_perform_window_recovery_ok c w conn now v :
  let '(g, w', _) := Conn.recovery c w conn now (vel_hi v) in
  (w', Conn.burst g, Conn.burst_start g, Conn.last_incr g, Conn.fast g) =
    leaf_perform_window_recovery w conn (Conn.last_nak c) (Conn.burst c) (Conn.burst_start c) (Conn.last_incr c)
                                 (Conn.fast c) v now
  /\ Conn.nak_count g = Conn.nak_count c /\ Conn.last_nak g = Conn.last_nak c /\ Conn.consec g = Conn.consec c
  /\ Conn.fast_start g = Conn.fast_start c.
Proof. leaf_auto2. Qed.

(** CongestionControl::perform_window_recovery (method: the congestion record + the window) *)
Lemma leaf_cong_perform_window_recovery_ok c w conn now v :
  let '(g, w', _) := Conn.recovery c w conn now (vel_hi v) in
  (Conn.last_incr g, Conn.fast g, Conn.burst g, Conn.burst_start g, w') =
    leaf_cong_perform_window_recovery (Conn.last_nak c) (Conn.last_incr c) (Conn.fast c) (Conn.burst c)
                                      (Conn.burst_start c) w conn v now.
Proof. leaf_auto2. Qed.

(** SrtlaConnection::perform_window_recovery (the link; [v] = rtt.kalman_rtt.velocity()) *)
Lemma leaf_conn_perform_window_recovery_ok c now v :
  let c' := Conn.perform_window_recovery c now (vel_hi v) in
  (Conn.window c', Conn.last_incr (Conn.cg c'), Conn.fast (Conn.cg c'), Conn.burst (Conn.cg c'),
   Conn.burst_start (Conn.cg c')) =
    leaf_conn_perform_window_recovery (Conn.connected c) (Conn.window c) (Conn.last_nak (Conn.cg c))
                                      (Conn.last_incr (Conn.cg c)) (Conn.fast (Conn.cg c)) (Conn.burst (Conn.cg c))
                                      (Conn.burst_start (Conn.cg c)) v now
  /\ Conn.cid c' = Conn.cid c /\ Conn.connected c' = Conn.connected c /\ Conn.in_flight c' = Conn.in_flight c
  /\ Conn.log c' = Conn.log c /\ Conn.hwm c' = Conn.hwm c /\ Conn.last_recv c' = Conn.last_recv c
  /\ Conn.proof c' = Conn.proof c
  /\ Conn.nak_count (Conn.cg c') = Conn.nak_count (Conn.cg c) /\ Conn.last_nak (Conn.cg c') = Conn.last_nak (Conn.cg c)
  /\ Conn.consec (Conn.cg c') = Conn.consec (Conn.cg c) /\ Conn.fast_start (Conn.cg c') = Conn.fast_start (Conn.cg c).
Proof. leaf_auto2. Qed.
