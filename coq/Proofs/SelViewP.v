(** SelViewP.v — which fields the scoring loop and the oracle read; the monitor's gated view. *)
From Coq Require Import ZArith List Bool Lia Floats.
From Srtla Require Import Base Constants FConstants Select Run_Sel Run_C11 FloatP SelFloatP SelectP.
Import ListNotations.
Local Open Scope Z_scope.

(** ---- what the selector loop reads: externally driven fields, timeout, gate flag, cache ---------- *)
Definition sel_view (c : link) : link :=
  set_hid c (Hd (l_timeout c) (l_gated c) false 0 0 0 0 (l_qmult c) (l_qlast c)).
(** externally driven fields and the cache *)
Definition cv (c : link) : link := set_hid c (Hd 0 false false 0 0 0 0 (l_qmult c) (l_qlast c)).

Lemma spec_candidate_view au now c : spec_candidate au now c = spec_candidate au now (sel_view c).
Proof. reflexivity. Qed.
Lemma spec_score_view au q now e c : spec_score au q now e c = spec_score au q now e (sel_view c).
Proof. reflexivity. Qed.
Lemma spec_unconstrained_view now c : spec_unconstrained now c = spec_unconstrained now (sel_view c).
Proof. reflexivity. Qed.
Lemma spec_over_cap_view c : spec_over_cap c = spec_over_cap (sel_view c).
Proof. reflexivity. Qed.

Lemma spec_scores_view au q now : forall l1 l2 exps,
  Forall2 (fun a b => sel_view a = sel_view b) l1 l2 ->
  spec_scores au q now l1 exps = spec_scores au q now l2 exps.
Proof.
  intros l1 l2 exps H. revert exps. induction H as [|a b l l' E H IH]; intros exps; [reflexivity|].
  cbn [spec_scores]. rewrite (spec_candidate_view au now a), (spec_score_view au q now _ a), E.
  rewrite <- spec_candidate_view, <- spec_score_view. now rewrite IH.
Qed.

Lemma existsb_unconstrained_view now : forall l1 l2,
  Forall2 (fun a b => sel_view a = sel_view b) l1 l2 ->
  existsb (spec_unconstrained now) l1 = existsb (spec_unconstrained now) l2.
Proof.
  induction 1 as [|a b l l' E H IH]; [reflexivity|]. cbn [existsb].
  rewrite (spec_unconstrained_view now a), E, <- spec_unconstrained_view. now rewrite IH.
Qed.

(** the gate keeps the cache *)
Lemma cv_update_silence_pull c now m s : cv (update_silence_pull c now m s) = cv c.
Proof.
  unfold update_silence_pull.
  destruct (is_briefly_silent c now m s).
  - now destruct (negb (l_pulled c)).
  - destruct (negb (l_pulled c)); [reflexivity|]. now destruct (_ || _).
Qed.
Lemma cv_update_stall_latch c now m s : cv (update_stall_latch c now m s) = cv c.
Proof.
  unfold update_stall_latch.
  destruct (_ || _).
  - now destruct (l_latched c =? 0).
  - destruct (l_latched c =? 0); [reflexivity|].
    destruct (negb _); [reflexivity|].
    destruct (l_recov c =? 0); now destruct (_ <=? _).
Qed.
Lemma gate_cv ls now cfg : Forall2 (fun c c1 => cv c1 = cv c) ls (apply_stall_gate ls now cfg).
Proof.
  rewrite apply_stall_gate_eq. destruct (negb (c_stall cfg)).
  - induction ls; constructor; auto.
  - cbv zeta. generalize (existsb (healthy now) (map (gate_upd now cfg) ls)). intros ah.
    induction ls; constructor; auto.
    change (cv (gate_set ah (gate_upd now cfg a))) with (cv (gate_upd now cfg a)).
    unfold gate_upd. now rewrite cv_update_stall_latch, cv_update_silence_pull.
Qed.

(** the scoring loop keeps everything but the cache *)
Definition nc (c : link) : link :=
  set_hid c (Hd (l_timeout c) (l_gated c) (l_pulled c) (l_pulls c) (l_latched c) (l_recov c) (l_gevents c) 0%float 0).
Lemma score_link_nc au q now e c s c' : score_link au q now e c = Some (s, c') -> nc c' = nc c.
Proof.
  unfold score_link. destruct (skipped now c); [discriminate|].
  destruct (au && in_flight_cap_exceeded c); [discriminate|].
  destruct (negb q).
  - intros E. now inversion E.
  - unfold cached_quality. destruct (_ <=? _); intros E; now inversion E.
Qed.
Lemma enh_loop_nc ls : forall exps au q last now i a,
  Forall2 (fun c c' => nc c' = nc c) ls (snd (enh_loop ls exps au q last now i a)).
Proof.
  induction ls as [|c t IH]; intros; cbn [enh_loop]; [constructor|].
  destruct (score_link au q now (hd 1%float exps) c) as [(s, c')|] eqn:E.
  - set (a1 := if (ea_score a <? s)%float then _ else _).
    specialize (IH (tl exps) au q last now (S i) a1).
    destruct (enh_loop t (tl exps) au q last now (S i) a1) as (a', t'). cbn [snd] in *.
    constructor; [|exact IH]. eapply score_link_nc; eauto.
  - specialize (IH (tl exps) au q last now (S i) a).
    destruct (enh_loop t (tl exps) au q last now (S i) a) as (a', t'). cbn [snd] in *.
    constructor; [reflexivity | exact IH].
Qed.

(** the monitor's gated view of the pre-state agrees with the gate's output on everything the
    loop reads *)
Lemma gv_elem c c1 c' :
  cv c1 = cv c -> nc c' = nc c1 ->
  sel_view (set_hid c (h_set_timeout (h_timeout (hid_of c')) (h_set_gated (h_gated (hid_of c')) (hid_of c)))) = sel_view c1.
Proof.
  destruct c, c1, c'. unfold cv, nc, sel_view, set_hid, hid_of, h_set_timeout, h_set_gated; cbn.
  intros E1 E2. injection E1 as <- <- <- <- <- <- <- <- <- <- <- <- <- <- <- <- <- <- <- <-.
  injection E2. intros. subst. reflexivity.
Qed.

Lemma gated_view_sel s ls1 s' :
  Forall2 (fun c c1 => cv c1 = cv c) s ls1 -> Forall2 (fun c1 c' => nc c' = nc c1) ls1 s' ->
  Forall2 (fun a b => sel_view a = sel_view b) (gated_view s (map hid_of s')) ls1.
Proof.
  unfold gated_view. intros H1. revert s'. induction H1 as [|c c1 l l1 E1 H1 IH]; intros s' H2.
  - inversion H2; subst. constructor.
  - inversion H2 as [|x c' y l' E2 H2']; subst. cbn [map combine set_hids]. constructor; [|now apply IH].
    now apply gv_elem.
Qed.
