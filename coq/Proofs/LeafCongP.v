(** LeafCongP.v — hand-written model functions = the definitions tools/gen_leaf.py regenerates from the Rust
    source on every run (coq/Gen/LeafCong.v); see DESIGN.md §12.8. *)
From Coq Require Import Floats.
From Srtla Require Import Base Constants LeafCong LeafTac.
From Srtla Require Conn.
From Coq Require Import ZifyBool.
Local Open Scope Z_scope.

(** ---- congestion rules  <->  Model/Conn.v (C02 C05 C06 C10) ---- *)
Lemma leaf_ack_classic_ok w inf : fst (Conn.ack_classic w inf) = leaf_ack_classic w inf.
Proof. first [ solve [ unfold Conn.ack_classic, leaf_ack_classic, Conn.WINDOW_CEIL; destruct (w <? _); reflexivity ] | leaf_auto ]. Qed.

Lemma leaf_ack_enhanced_ok c w inf start now :
  let r := Conn.ack_enhanced c w inf in
  (snd (fst r), Conn.fast (fst (fst r))) = leaf_ack_enhanced w inf (Conn.fast c) start now.
Proof. first [ solve [ cbn zeta; unfold Conn.ack_enhanced, Conn.ack_classic, leaf_ack_enhanced, Conn.WINDOW_CEIL; destruct (w <? sat_mul_i32 inf WINDOW_MULT); cbn [fst snd Conn.fast];
  repeat match goal with |- context [if ?b then _ else _] => destruct b eqn:? end; try reflexivity; try discriminate ] | leaf_auto ]. Qed.

Lemma leaf_ack_global_ok c :
  Conn.window (Conn.handle_srtla_ack_global c) = leaf_ack_global (Conn.window c) (Conn.connected c) (Conn.last_recv c).
Proof. first [ solve [ unfold Conn.handle_srtla_ack_global, leaf_ack_global, Conn.WINDOW_CEIL; destruct (Conn.connected c), (Conn.last_recv c); reflexivity ] | leaf_auto ]. Qed.

Lemma leaf_cong_nak_ok c w now :
  let '(g, w', _) := Conn.cong_nak c w now in
  (Conn.nak_count g, Conn.burst g, Conn.burst_start g, Conn.last_nak g, Conn.consec g, w', Conn.fast g, Conn.fast_start g, true) =
  leaf_cong_handle_nak (Conn.nak_count c) (Conn.burst c) (Conn.burst_start c) (Conn.last_nak c) (Conn.consec c)
                       (Conn.fast c) (Conn.fast_start c) w now.
Proof. first [ solve [ unfold Conn.cong_nak, leaf_cong_handle_nak, Conn.WINDOW_FLOOR; cbn zeta; change FAST_RECOVERY_ENTER_WINDOW with 2000; destruct ((0 <? Conn.last_nak c) && (ssub now (Conn.last_nak c) <? NAK_BURST_WINDOW_MS));
  [destruct (Conn.burst c =? 0)|destruct (NAK_BURST_LOG_THRESHOLD <=? Conn.burst c)];
  cbn [Conn.nak_count Conn.burst Conn.burst_start Conn.last_nak Conn.consec Conn.fast Conn.fast_start];
  destruct (Z.max (w - WINDOW_DECR) (WINDOW_MIN * WINDOW_MULT) <=? 3000);
  destruct ((Z.max (w - WINDOW_DECR) (WINDOW_MIN * WINDOW_MULT) <=? 2000) && negb (Conn.fast c)); reflexivity ] | leaf_auto ]. Qed.

