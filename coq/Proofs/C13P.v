(** C13P.v — the C13 monitor holds on every trace of the model (invariant linking the
    monitor's own "fresh run" bookkeeping to [stall_recovery_since_ms]), and the
    Prop-level statements about engaging, releasing, the pull and the windows. *)
From Coq Require Import Floats ZifyBool.
From Srtla Require Import Base Constants FConstants Stall StallSel StallOps Run_Stall Run_C13 StallP.
Local Open Scope Z_scope.

(** the monitor's vocabulary is the model's, with the property's literals *)
Lemma spec_eff_ok : forall l cfg, spec_eff l cfg = eff_stale (lx l) (cf_ceil cfg).
Proof. reflexivity. Qed.
Lemma spec_window_ok : forall l cfg, spec_window l cfg = pull_window (lx l) (cf_ceil cfg).
Proof. reflexivity. Qed.
Lemma spec_fresh_ok : forall l now cfg, spec_fresh l now cfg = proof_fresh (la l) (lx l) now (cf_ceil cfg).
Proof. reflexivity. Qed.
Lemma spec_dwell_ok : forall l cfg, sat_mul_u64 (spec_eff l cfg) 2 = dwell (lx l) (cf_ceil cfg).
Proof. reflexivity. Qed.

Lemma first_clause_ok : forall l, forallb snd l = true -> first_clause l = 0%N.
Proof.
  induction l as [|[n b] t IH]; cbn; intros H; [reflexivity|].
  apply andb_true_iff in H as [-> H]. auto.
Qed.

(** the invariant: while latched, proof has been seen and the monitor's run start is
    exactly the link's [stall_recovery_since_ms] *)
Definition Inv (l : link) (rs : option Z) : Prop :=
  latched l = true ->
  a_proof (la l) <> 0 /\ rs = (if g_recovery (lg l) =? 0 then None else Some (g_recovery (lg l))).

(** ---- one decision, one link --------------------------------------------------------- *)
Lemma pull_step_fields : forall a x now mn ceil g,
  let g1 := pull_step a x now mn ceil g in
  g_latched g1 = g_latched g /\ g_recovery g1 = g_recovery g /\ g_events g1 = g_events g /\
  g_probe g1 = g_probe g /\ g_gated g1 = g_gated g.
Proof.
  intros. subst g1. unfold pull_step.
  destruct (briefly_silent a x now mn ceil); [cbn; auto|].
  destruct (negb (g_pulled g)); [auto|].
  destruct (spoke a x now ceil || negb (a_conn a)); cbn; auto.
Qed.

Lemma pull_step_release : forall a x now mn ceil g,
  g_pulled g = true -> g_pulled (pull_step a x now mn ceil g) = false ->
  spoke a x now ceil = true \/ a_conn a = false.
Proof.
  intros a x now mn ceil g Hp. unfold pull_step.
  destruct (briefly_silent a x now mn ceil); [cbn; discriminate|].
  rewrite Hp; cbn [negb].
  destruct (spoke a x now ceil) eqn:S; [auto|]. cbn [orb].
  destruct (a_conn a); cbn; [congruence | auto].
Qed.

Lemma latch_step_pulled : forall a x now mn ceil g,
  g_pulled (latch_step a x now mn ceil g) = g_pulled g.
Proof.
  intros. unfold latch_step.
  repeat match goal with |- context [if ?c then _ else _] => destruct c end; reflexivity.
Qed.

Lemma call_ok : forall rs now cfg l l',
  0 < now -> decided now cfg l l' -> Inv l rs ->
  snd (mon_step rs (KCall now cfg) l l') = 0%N /\ Inv l' (fst (mon_step rs (KCall now cfg) l l')).
Proof.
  intros rs now cfg [a g x c] [a' g' x' c'] Hnow (Ha & Hx & Hg & _) HI.
  cbn [la lx lg lc] in *. subst a' x'.
  unfold ungate in Hg. injection Hg as Hlat Hrec _ _ Hpul _.
  unfold Inv, latched in *. cbn [la lg lx] in *.
  unfold mon_step, latched. cbn [la lg lx].
  unfold gate_guard in *.
  destruct (cf_guard cfg) eqn:G.
  2:{ cbn [guard_off g_latched g_recovery g_pulled] in *. rewrite Hlat. cbn. rewrite andb_false_r. cbn.
      split; [reflexivity | discriminate]. }
  rewrite spec_dwell_ok, spec_fresh_ok, spec_window_ok, spec_eff_ok. cbn [la lx].
  pose proof (pull_step_fields a x now (cf_min cfg) (cf_ceil cfg) g) as (P1 & P2 & _).
  pose proof (pull_step_release a x now (cf_min cfg) (cf_ceil cfg) g) as PR.
  rewrite latch_step_pulled in Hpul.
  set (g1 := pull_step a x now (cf_min cfg) (cf_ceil cfg) g) in *. clearbody g1.
  rewrite <- Hpul in PR.
  (* clause 4 *)
  assert (C4 : negb (g_pulled g && negb (g_pulled g')) || negb (a_conn a) ||
               match a_lastrecv a with
               | Some lr => ssub now lr <? pull_window x (cf_ceil cfg)
               | None => false end = true).
  { destruct (g_pulled g) eqn:E1; [|reflexivity]. destruct (g_pulled g') eqn:E2; [reflexivity|].
    destruct (PR eq_refl eq_refl) as [S | S].
    - unfold spoke in S. rewrite S. apply orb_true_r.
    - rewrite S. reflexivity. }
  unfold latch_step in Hlat, Hrec.
  unfold is_stalled, proof_stale, proof_fresh, dwell in *.
  set (e := eff_stale x (cf_ceil cfg)) in *. clearbody e.
  set (mn := cf_min cfg) in *. clearbody mn.
  set (w := pull_window x (cf_ceil cfg)) in *. clearbody w.
  set (dw := sat_mul_u64 e STALL_REJOIN_DWELL_MULT) in *. clearbody dw.
  cbn [fst snd]. rewrite P1, P2 in Hlat, Hrec. clear PR.
  (destruct (g_latched g =? 0) eqn:LG;
   [ clear HI | destruct HI as [HP HR]; [reflexivity|]; subst rs ]);
  repeat match type of Hlat with context [if ?c then _ else _] =>
    let E := fresh "E" in destruct c eqn:E; rewrite ?E in * end;
  cbn [g_latched g_recovery] in Hlat, Hrec;
  destruct (g_recovery g =? 0) eqn:RG;
  destruct (negb (a_proof a =? 0) && (ssub now (a_proof a) <? e)) eqn:F;
  cbn [negb andb orb] in *;
  (split; [apply first_clause_ok; cbn [forallb snd]; rewrite C4; clear C4 | intros HL; split]);
  unfold ssub in *; try lia;
  rewrite ?Hlat, ?Hrec, ?P1, ?P2 in *;
  repeat match goal with |- context [?a =? 0] => destruct (Z.eqb_spec a 0) end;
  cbn [negb andb orb] in *; try first [reflexivity | lia | congruence].
Qed.

(** ---- environment ops ------------------------------------------------------------------ *)
(** well-formed op: clock readings are positive (the 0 sentinels mean "never") *)
Definition op_ok (o : op) : bool :=
  match o with
  | OSrtlaAck _ _ now | OEcho _ _ _ now | OSelect _ now _ _ => 0 <? now
  | _ => true
  end.

Lemma env_proof : forall o l, op_ok o = true -> (forall j, o <> OReset j) ->
  a_proof (la l) <> 0 -> a_proof (la (env_link o l)) <> 0.
Proof.
  intros o l Hok Hnr Hp. destruct o; cbn [env_link la set_acct with_log with_proof with_recv with_conn
    with_force set_foreign a_proof]; try exact Hp.
  - destruct (known && (0 <? a_logn (la l))); cbn [la set_acct with_proof a_proof]; [cbn in Hok; lia | exact Hp].
  - destruct (echo_ok waiting ts now); cbn [with_proof with_recv a_proof]; [cbn in Hok; lia | exact Hp].
  - exfalso; eapply Hnr; reflexivity.
Qed.

Lemma other_ok : forall rs l l',
  lg l' = lg l -> (a_proof (la l) <> 0 -> a_proof (la l') <> 0) -> Inv l rs ->
  snd (mon_step rs KOther l l') = 0%N /\ Inv l' (fst (mon_step rs KOther l l')).
Proof.
  intros rs l l' Hg Hp HI. unfold Inv in *. unfold mon_step, latched in *. rewrite Hg. cbn [fst snd].
  destruct (g_latched (lg l) =? 0) eqn:L; cbn [negb andb orb] in *.
  - split; [|discriminate]. apply first_clause_ok. cbn. destruct (g_pulled (lg l)); reflexivity.
  - destruct (HI eq_refl) as [P R]. split.
    + apply first_clause_ok. cbn [forallb snd]. specialize (Hp P).
      destruct (a_proof (la l') =? 0) eqn:E; [lia|]. cbn. destruct (g_pulled (lg l)); reflexivity.
    + intros _. auto.
Qed.

Lemma reset_ok : forall rs l,
  snd (mon_step rs KReset l (reset_link l)) = 0%N /\ Inv (reset_link l) (fst (mon_step rs KReset l (reset_link l))).
Proof.
  intros. unfold Inv. unfold mon_step, latched, reset_link. cbn. rewrite andb_false_r. cbn.
  split; [reflexivity | discriminate].
Qed.

Lemma targets_reset_kind : forall i j, targets (OReset j) i = true -> kind_of (Z.of_nat i) (OReset j) = KReset.
Proof.
  intros i j H. unfold targets in H. cbn in H. cbn [kind_of].
  replace (j =? Z.of_nat i) with true; [reflexivity|]. lia.
Qed.

Lemma kind_not_reset : forall i o, (forall j, o <> OReset j) -> (forall a b c d, o <> OSelect a b c d) ->
  kind_of i o = KOther.
Proof.
  intros i o H1 H2. destruct o; try reflexivity.
  - exfalso; eapply H1; reflexivity.
  - exfalso; eapply H2; reflexivity.
Qed.

Lemma untargeted_reset_kind : forall i j, targets (OReset j) i = false -> kind_of (Z.of_nat i) (OReset j) = KOther.
Proof.
  intros i j H. unfold targets in H. cbn in H. cbn [kind_of].
  destruct (Z.eqb_spec j (Z.of_nat i)); [|reflexivity]. subst. lia.
Qed.

(** one op of a history, seen from link [i] *)
Lemma step_mon : forall i s o rs l,
  nth_error s i = Some l -> op_ok o = true -> Inv l rs ->
  exists l', nth_error (fst (step s o)) i = Some l' /\
    snd (mon_step rs (kind_of (Z.of_nat i) o) l l') = 0%N /\
    Inv l' (fst (mon_step rs (kind_of (Z.of_nat i) o) l l')) /\
    (cum_on (Z.of_nat i) o = true -> a_proof (la l') = a_proof (la l)).
Proof.
  intros i s o rs l Hn Hok HI.
  cut (exists l', nth_error (fst (step s o)) i = Some l' /\
         (snd (mon_step rs (kind_of (Z.of_nat i) o) l l') = 0%N /\
          Inv l' (fst (mon_step rs (kind_of (Z.of_nat i) o) l l'))) /\
         (cum_on (Z.of_nat i) o = true -> a_proof (la l') = a_proof (la l))).
  { intros (l' & A & (B & C) & D). exists l'. auto. }
  destruct (op_target o) eqn:T.
  2:{ destruct o; try discriminate.
      destruct (step_select_nth s last now cfg ins i l Hn) as (l' & E & D).
      exists l'. split; [exact E|]. split; [|cbn; discriminate]. cbn [kind_of]. apply call_ok; auto. cbn in Hok. lia. }
  assert (Tn : op_target o <> None) by congruence.
  rewrite (step_env_nth s o i Tn), Hn. cbn [option_map].
  destruct (targets o i) eqn:Tg.
  - exists (env_link o l). split; [reflexivity|].
    split.
    2:{ assert (TJ : forall j, op_target o = Some j -> (j =? Z.of_nat i) = true).
        { intros j Ej. unfold targets in Tg. rewrite Ej in Tg. apply andb_true_iff in Tg as [T1 T2].
          apply Nat.eqb_eq in T2. lia. }
        destruct o; cbn [cum_on env_link op_target] in *; try discriminate; try (intros _; reflexivity);
          rewrite (TJ _ eq_refl); cbn [andb negb]; try discriminate.
        (* SRTLA ACK on this link: constrained only when not earned *)
        destruct known; cbn [negb andb]; [discriminate|intros _; reflexivity]. }
    assert (R : (exists j, o = OReset j) \/ (forall j, o <> OReset j)).
    { destruct o; try (right; intros j0 Hc; discriminate). left; eauto. }
    destruct R as [[j ->] | NR].
    + rewrite (targets_reset_kind _ _ Tg). cbn [env_link]. apply reset_ok.
    + rewrite kind_not_reset; [| exact NR | intros; intro Hc; subst; discriminate].
      apply other_ok; auto.
      * apply env_link_guard; exact NR.
      * apply env_proof; auto.
  - exists l. split; [reflexivity|]. split; [|intros _; reflexivity].
    assert (K : kind_of (Z.of_nat i) o = KOther).
    { destruct o; try reflexivity; try discriminate. apply untargeted_reset_kind; exact Tg. }
    rewrite K. apply other_ok; auto.
Qed.

(** ---- the monitor accepts every trace of the model ---------------------------------------- *)
Lemma mon_link_ok : forall i ops s rs k,
  (forall l, nth_error s i = Some l -> Inv l rs) ->
  forallb op_ok ops = true ->
  mon_link i rs (trace s ops) k = (0, 0)%N.
Proof.
  induction ops as [|o t IH]; intros s rs k HI Hok; [reflexivity|].
  cbn [forallb] in Hok. apply andb_true_iff in Hok as [Ho Ht].
  cbn [trace]. destruct (step s o) as [s' r] eqn:St. cbn [mon_link t_pre t_post t_op].
  assert (S' : s' = fst (step s o)) by (rewrite St; reflexivity).
  destruct (nth_error s i) as [l|] eqn:Hn.
  - destruct (step_mon i s o rs l Hn Ho (HI l eq_refl)) as (l' & E & C & I' & CU).
    rewrite <- S' in E. rewrite E.
    destruct (mon_step rs (kind_of (Z.of_nat i) o) l l') as [rs' cl] eqn:M. cbn [fst snd] in *.
    subst cl. unfold cum_clause. cbn [N.eqb andb].
    assert (Q : cum_on (Z.of_nat i) o && negb (a_proof (la l') =? a_proof (la l)) = false).
    { destruct (cum_on (Z.of_nat i) o); [|reflexivity]. rewrite (CU eq_refl), Z.eqb_refl. reflexivity. }
    rewrite Q. cbn. apply IH; [|exact Ht]. intros l0 H0. rewrite E in H0. inversion H0; subst. exact I'.
  - assert (E : nth_error s' i = None).
    { apply nth_error_None. rewrite S', step_length. apply nth_error_None. exact Hn. }
    apply IH; [|exact Ht]. intros l0 H0. rewrite E in H0. discriminate.
Qed.

(** initial states: a latched link has produced proof and has no rejoin run in progress
    (true of fresh links, and of every state the monitor is started on) *)
Definition good_link (l : link) : Prop :=
  latched l = true -> a_proof (la l) <> 0 /\ g_recovery (lg l) = 0.
Definition good_init (s : state) : Prop := Forall good_link s.

Theorem monitor_holds : forall s ops,
  good_init s -> forallb op_ok ops = true -> ok_C13 (length s) (trace s ops) = true.
Proof.
  intros s ops G W. unfold ok_C13. apply forallb_forall. intros i _.
  unfold ok_link. rewrite (mon_link_ok i ops s None 0); [reflexivity | | exact W].
  intros l Hn L. unfold good_init in G. rewrite Forall_forall in G.
  destruct (G l (nth_error_In _ _ Hn) L) as [P R]. split; [exact P|]. rewrite R. reflexivity.
Qed.

(** ---- Prop-level statements ------------------------------------------------------------------ *)

(** what the latch update does, from any guard state *)
Lemma latch_engage : forall a x now mn ceil g,
  g_latched g = 0 -> g_latched (latch_step a x now mn ceil g) <> 0 ->
  proof_stale a x now ceil = true /\
  ((a_conn a = true /\ mn <= a_inflight a) \/ g_pulled g = true) /\
  g_latched (latch_step a x now mn ceil g) = now /\
  g_events (latch_step a x now mn ceil g) = g_events g + 1 /\
  g_recovery (latch_step a x now mn ceil g) = 0.
Proof.
  intros a x now mn ceil g L0. unfold latch_step, is_stalled. rewrite L0. cbn [Z.eqb].
  destruct (a_conn a && (mn <=? a_inflight a) && proof_stale a x now ceil
            || g_pulled g && proof_stale a x now ceil) eqn:T; cbn [g_latched g_events g_recovery].
  - intros _. repeat split; try reflexivity; destruct (proof_stale a x now ceil); lia.
  - rewrite L0. congruence.
Qed.

Lemma latch_release : forall a x now mn ceil g,
  g_latched g <> 0 -> g_latched (latch_step a x now mn ceil g) = 0 ->
  proof_fresh a x now ceil = true /\
  dwell x ceil <= ssub now (if g_recovery g =? 0 then now else g_recovery g).
Proof.
  intros a x now mn ceil g L. unfold latch_step.
  destruct (is_stalled a x now mn ceil || g_pulled g && proof_stale a x now ceil).
  - destruct (Z.eqb_spec (g_latched g) 0); [congruence|]. cbn. congruence.
  - destruct (Z.eqb_spec (g_latched g) 0); [congruence|].
    destruct (proof_fresh a x now ceil); cbn [negb]; [|cbn; congruence].
    destruct (dwell x ceil <=? ssub now (if g_recovery g =? 0 then now else g_recovery g)) eqn:D;
      cbn; [intros _; split; [reflexivity | lia] | congruence].
Qed.

Lemma pull_engage : forall a x now mn ceil g,
  g_pulled g = false -> g_pulled (pull_step a x now mn ceil g) = true ->
  briefly_silent a x now mn ceil = true /\ g_pulls (pull_step a x now mn ceil g) = g_pulls g + 1.
Proof.
  intros a x now mn ceil g Hp. unfold pull_step.
  destruct (briefly_silent a x now mn ceil); [rewrite Hp; cbn; auto|].
  rewrite Hp. cbn. congruence.
Qed.

Lemma ungate_fields : forall g g', ungate g = ungate g' ->
  g_latched g = g_latched g' /\ g_recovery g = g_recovery g' /\ g_events g = g_events g' /\
  g_probe g = g_probe g' /\ g_pulled g = g_pulled g' /\ g_pulls g = g_pulls g'.
Proof. unfold ungate. intros g g' H. injection H. auto 10. Qed.

(** what one op can do to link [i]: a decision, a reset, or nothing to its guard *)
Lemma step_cases : forall i s o l l',
  nth_error s i = Some l -> nth_error (fst (step s o)) i = Some l' ->
  (exists last now cfg ins, o = OSelect last now cfg ins /\ decided now cfg l l') \/
  ((exists j, o = OReset j) /\ l' = reset_link l) \/
  (lg l' = lg l /\ (forall last now cfg ins, o <> OSelect last now cfg ins)).
Proof.
  intros i s o l l' Hn Hn'.
  destruct (op_target o) eqn:T.
  - assert (Tn : op_target o <> None) by congruence.
    rewrite (step_env_nth s o i Tn), Hn in Hn'. cbn [option_map] in Hn'.
    destruct (targets o i).
    + inversion Hn'; subst l'. destruct o; try discriminate;
        try (right; right; split; [reflexivity | intros; discriminate]).
      * right; right; split; [|intros; discriminate]. cbn. destruct (known && _); reflexivity.
      * right; left; split; [eauto | reflexivity].
    + inversion Hn'; subst l'. right; right; split; [reflexivity|]. intros; intro Hc; subst; discriminate.
  - destruct o; try discriminate. left.
    destruct (step_select_nth s last now cfg ins i l Hn) as (l2 & E & D).
    rewrite E in Hn'. inversion Hn'; subst. eauto 10.
Qed.

Theorem engage_sound : forall i s o l l',
  nth_error s i = Some l -> nth_error (fst (step s o)) i = Some l' ->
  g_latched (lg l) = 0 -> g_latched (lg l') <> 0 ->
  exists last now cfg ins, o = OSelect last now cfg ins /\ cf_guard cfg = true /\
    a_proof (la l) <> 0 /\ eff_stale (lx l) (cf_ceil cfg) <= ssub now (a_proof (la l)) /\
    ((a_conn (la l) = true /\ cf_min cfg <= a_inflight (la l)) \/ g_pulled (lg l') = true) /\
    g_latched (lg l') = now /\ g_events (lg l') = g_events (lg l) + 1 /\ g_recovery (lg l') = 0.
Proof.
  intros i s o l l' Hn Hn' L0 L1.
  destruct (step_cases i s o l l' Hn Hn') as [(last & now & cfg & ins & -> & D) | [[_ ->] | [G _]]].
  - exists last, now, cfg, ins. split; [reflexivity|].
    destruct D as (_ & _ & U & _). apply ungate_fields in U as (U1 & U2 & U3 & _ & U5 & _).
    unfold gate_guard in *. destruct (cf_guard cfg); [|cbn in U1; congruence].
    pose proof (pull_step_fields (la l) (lx l) now (cf_min cfg) (cf_ceil cfg) (lg l)) as (P1 & _ & P3 & _).
    rewrite U1 in L1. rewrite <- P1 in L0.
    destruct (latch_engage _ _ _ _ _ _ L0 L1) as (S & C & E1 & E2 & E3).
    rewrite latch_step_pulled in U5.
    unfold proof_stale in S. apply andb_true_iff in S as [S1 S2].
    repeat split; try congruence; try lia.
    all: try (rewrite U5; exact C).
  - cbn in L1. congruence.
  - congruence.
Qed.

Theorem release_cases : forall i s o l l',
  nth_error s i = Some l -> nth_error (fst (step s o)) i = Some l' ->
  g_latched (lg l) <> 0 -> g_latched (lg l') = 0 ->
  (exists j, o = OReset j) \/
  exists last now cfg ins, o = OSelect last now cfg ins /\
    (cf_guard cfg = false \/
     (proof_fresh (la l) (lx l) now (cf_ceil cfg) = true /\
      dwell (lx l) (cf_ceil cfg) <= ssub now (if g_recovery (lg l) =? 0 then now else g_recovery (lg l)))).
Proof.
  intros i s o l l' Hn Hn' L0 L1.
  destruct (step_cases i s o l l' Hn Hn') as [(last & now & cfg & ins & -> & D) | [[J _] | [G _]]].
  - right. exists last, now, cfg, ins. split; [reflexivity|].
    destruct D as (_ & _ & U & _). apply ungate_fields in U as (U1 & _).
    unfold gate_guard in *. destruct (cf_guard cfg); [right | left; reflexivity].
    pose proof (pull_step_fields (la l) (lx l) now (cf_min cfg) (cf_ceil cfg) (lg l)) as (P1 & P2 & _).
    rewrite U1 in L1. rewrite <- P1 in L0. rewrite <- P2.
    apply (latch_release _ _ _ _ _ _ L0 L1).
  - left; exact J.
  - congruence.
Qed.

Theorem pull_release_cases : forall i s o l l',
  nth_error s i = Some l -> nth_error (fst (step s o)) i = Some l' ->
  g_pulled (lg l) = true -> g_pulled (lg l') = false ->
  (exists j, o = OReset j) \/
  exists last now cfg ins, o = OSelect last now cfg ins /\
    (cf_guard cfg = false \/ a_conn (la l) = false \/
     exists lr, a_lastrecv (la l) = Some lr /\ ssub now lr < pull_window (lx l) (cf_ceil cfg)).
Proof.
  intros i s o l l' Hn Hn' L0 L1.
  destruct (step_cases i s o l l' Hn Hn') as [(last & now & cfg & ins & -> & D) | [[J _] | [G _]]].
  - right. exists last, now, cfg, ins. split; [reflexivity|].
    destruct D as (_ & _ & U & _). apply ungate_fields in U as (_ & _ & _ & _ & U5 & _).
    unfold gate_guard in *. destruct (cf_guard cfg); [right | left; reflexivity].
    rewrite latch_step_pulled in U5. rewrite U5 in L1.
    destruct (pull_step_release _ _ _ _ _ _ L0 L1) as [S | C]; [right | left; exact C].
    unfold spoke in S. destruct (a_lastrecv (la l)) as [lr|]; [|discriminate]. exists lr. split; [reflexivity | lia].
  - left; exact J.
  - congruence.
Qed.

Theorem pull_engage_cases : forall i s o l l',
  nth_error s i = Some l -> nth_error (fst (step s o)) i = Some l' ->
  g_pulled (lg l) = false -> g_pulled (lg l') = true ->
  exists last now cfg ins, o = OSelect last now cfg ins /\ cf_guard cfg = true /\
    a_conn (la l) = true /\ cf_min cfg <= a_inflight (la l) /\
    (exists lr, a_lastrecv (la l) = Some lr /\ pull_window (lx l) (cf_ceil cfg) <= ssub now lr) /\
    g_pulls (lg l') = g_pulls (lg l) + 1.
Proof.
  intros i s o l l' Hn Hn' L0 L1.
  destruct (step_cases i s o l l' Hn Hn') as [(last & now & cfg & ins & -> & D) | [[_ ->] | [G _]]].
  - exists last, now, cfg, ins. split; [reflexivity|].
    destruct D as (_ & _ & U & _). apply ungate_fields in U as (_ & _ & _ & _ & U5 & U6).
    unfold gate_guard in *. destruct (cf_guard cfg); [|cbn in U5; congruence].
    rewrite latch_step_pulled in U5. rewrite U5 in L1.
    destruct (pull_engage _ _ _ _ _ _ L0 L1) as [B P].
    assert (U6' : g_pulls (lg l') = g_pulls (pull_step (la l) (lx l) now (cf_min cfg) (cf_ceil cfg) (lg l))).
    { rewrite U6. unfold latch_step. repeat match goal with |- context [if ?c then _ else _] => destruct c end; reflexivity. }
    unfold briefly_silent in B.
    destruct (a_conn (la l)); [|discriminate]. cbn [negb orb] in B.
    destruct (Z.ltb_spec (a_inflight (la l)) (cf_min cfg)); [discriminate|].
    destruct (a_lastrecv (la l)) as [lr|]; [|discriminate].
    repeat split; try lia. exists lr. split; [reflexivity | lia].
  - cbn in L1. congruence.
  - congruence.
Qed.

(** ---- never blind: an invariant of every history -------------------------------------------- *)
Definition seen_proof (l : link) : Prop := latched l = true -> a_proof (la l) <> 0.

Lemma Forall_nth_error : forall {A} (P : A -> Prop) l,
  (forall i x, nth_error l i = Some x -> P x) -> Forall P l.
Proof.
  induction l as [|a t IH]; intros H; constructor.
  - apply (H O). reflexivity.
  - apply IH. intros i x Hx. apply (H (S i)). exact Hx.
Qed.

Lemma step_seen : forall s o, Forall seen_proof s -> op_ok o = true -> Forall seen_proof (fst (step s o)).
Proof.
  intros s o Hs Hok. apply Forall_nth_error. intros i l' Hn'.
  destruct (nth_error s i) as [l|] eqn:Hn.
  - rewrite Forall_forall in Hs. pose proof (Hs l (nth_error_In _ _ Hn)) as Sl.
    destruct (step_mon i s o (if g_recovery (lg l) =? 0 then None else Some (g_recovery (lg l))) l Hn Hok)
      as (l2 & E & _ & I).
    + intros L. split; [apply Sl; exact L | reflexivity].
    + rewrite E in Hn'. inversion Hn'; subst. intros L. apply I. exact L.
  - exfalso. apply nth_error_None in Hn. rewrite <- (step_length s o) in Hn.
    apply nth_error_None in Hn. congruence.
Qed.

Theorem never_without_proof : forall ops s,
  Forall seen_proof s -> forallb op_ok ops = true -> Forall seen_proof (run s ops).
Proof.
  induction ops as [|o t IH]; intros s Hs Hok; [exact Hs|].
  cbn [forallb] in Hok. apply andb_true_iff in Hok as [Ho Ht].
  cbn [run]. apply IH; [apply step_seen; assumption | exact Ht].
Qed.

(** ---- release needs a dwell: the declarative reading of clause 3 --------------------------- *)
Definition rs_step (i : nat) (rs : option Z) (t : tstep) : option Z :=
  match nth_error (t_pre t) i, nth_error (t_post t) i with
  | Some pre, Some post => fst (mon_step rs (kind_of (Z.of_nat i) (t_op t)) pre post)
  | _, _ => rs
  end.

(** step [t] is a decision at time [S], guard on, at which link [i]'s proof was fresh *)
Definition fresh_call (i : nat) (t : tstep) (S : Z) : Prop :=
  exists last cfg ins l, t_op t = OSelect last S cfg ins /\ cf_guard cfg = true /\
    nth_error (t_pre t) i = Some l /\ proof_fresh (la l) (lx l) S (cf_ceil cfg) = true.

(** step [t] is neither a decision nor a reset of link [i] (or link [i] does not exist) *)
Definition passive (i : nat) (t : tstep) : Prop :=
  nth_error (t_pre t) i = None \/ nth_error (t_post t) i = None \/
  kind_of (Z.of_nat i) (t_op t) = KOther.

(** [a] ends with an uninterrupted run of fresh-proof decisions for link [i] that began at [S]:
    from the decision at [S] on, every decision saw fresh proof, with the guard on, and the
    link was not reset *)
Definition fresh_run_from (i : nat) (a : list tstep) (S : Z) : Prop :=
  exists older first rest, a = older ++ first :: rest /\ fresh_call i first S /\
    Forall (fun u => (exists S', fresh_call i u S') \/ passive i u) rest.

Lemma kind_call_inv : forall i o now cfg, kind_of i o = KCall now cfg ->
  exists last ins, o = OSelect last now cfg ins.
Proof.
  intros i o now cfg H. destruct o; cbn in H; try discriminate.
  - destruct (i0 =? i); discriminate.
  - inversion H; subst. eauto.
Qed.

Lemma fresh_run_extend : forall i a t S,
  fresh_run_from i a S -> (exists S', fresh_call i t S') \/ passive i t -> fresh_run_from i (a ++ [t]) S.
Proof.
  intros i a t S (older & first & rest & -> & F & R) H.
  exists older, first, (rest ++ [t]). split; [rewrite <- app_assoc; reflexivity|].
  split; [exact F|]. apply Forall_app. split; [exact R | constructor; [exact H | constructor]].
Qed.

Lemma rs_char : forall i a S, fold_left (rs_step i) a None = Some S -> fresh_run_from i a S.
Proof.
  intros i a. induction a as [|t a IH] using rev_ind; intros S H; [discriminate|].
  rewrite fold_left_app in H. cbn [fold_left] in H.
  set (r := fold_left (rs_step i) a None) in *.
  unfold rs_step in H.
  destruct (nth_error (t_pre t) i) as [pre|] eqn:Hp.
  2:{ apply fresh_run_extend; [apply IH; exact H | right; left; exact Hp]. }
  destruct (nth_error (t_post t) i) as [post|] eqn:Hq.
  2:{ apply fresh_run_extend; [apply IH; exact H | right; right; left; exact Hq]. }
  destruct (kind_of (Z.of_nat i) (t_op t)) as [now cfg| |] eqn:K.
  - destruct (kind_call_inv _ _ _ _ K) as (last & ins & Eo).
    unfold mon_step in H. destruct (cf_guard cfg) eqn:G; [|cbn in H; discriminate].
    cbn [fst] in H. rewrite spec_fresh_ok in H.
    destruct (proof_fresh (la pre) (lx pre) now (cf_ceil cfg)) eqn:F; [|discriminate].
    assert (FC : fresh_call i t now) by (exists last, cfg, ins, pre; auto).
    destruct r as [s0|] eqn:R.
    + inversion H; subst s0. apply fresh_run_extend; [apply IH; reflexivity | left; eauto].
    + inversion H; subst. exists a, t, []. split; [reflexivity|]. split; [exact FC | constructor].
  - unfold mon_step in H. cbn in H. discriminate.
  - unfold mon_step in H. cbn [fst] in H. apply fresh_run_extend; [apply IH; exact H | right; right; right; exact K].
Qed.

Lemma cum_clause_select : forall i a b c d pre post cl, cum_clause i (OSelect a b c d) pre post cl = cl.
Proof. intros. unfold cum_clause. cbn [cum_on]. rewrite andb_false_r. reflexivity. Qed.

Lemma mon_link_app : forall i a rs b k,
  mon_link i rs (a ++ b) k = (0, 0)%N ->
  exists k', mon_link i (fold_left (rs_step i) a rs) b k' = (0, 0)%N.
Proof.
  induction a as [|t a IH]; intros rs b k H; [exists k; exact H|].
  cbn [app mon_link] in H. cbn [fold_left]. unfold rs_step.
  destruct (nth_error (t_pre t) i) as [pre|]; [|apply (IH _ _ _ H)].
  destruct (nth_error (t_post t) i) as [post|]; [|apply (IH _ _ _ H)].
  destruct (mon_step rs (kind_of (Z.of_nat i) (t_op t)) pre post) as [rs' cl] eqn:M.
  cbn zeta in H.
  destruct (N.eqb_spec (cum_clause i (t_op t) pre post cl) 0); [cbn [fst]; apply (IH _ _ _ H)|].
  inversion H. congruence.
Qed.

Theorem release_needs_dwell : forall s ops i pre t post last now cfg ins l l',
  good_init s -> forallb op_ok ops = true ->
  trace s ops = pre ++ t :: post ->
  t_op t = OSelect last now cfg ins -> cf_guard cfg = true ->
  nth_error (t_pre t) i = Some l -> nth_error (t_post t) i = Some l' ->
  latched l = true -> latched l' = false ->
  exists S, fresh_run_from i (pre ++ [t]) S /\ dwell (lx l) (cf_ceil cfg) <= ssub now S.
Proof.
  intros s ops i pre t post last now cfg ins l l' G W Tr Eo Gd Hl Hl' L0 L1.
  assert (M : mon_link i None (trace s ops) 0 = (0, 0)%N).
  { apply mon_link_ok; [|exact W]. intros l0 Hn L. unfold good_init in G. rewrite Forall_forall in G.
    destruct (G l0 (nth_error_In _ _ Hn) L) as [P R]. split; [exact P | rewrite R; reflexivity]. }
  rewrite Tr in M. apply mon_link_app in M as [k' M].
  set (r := fold_left (rs_step i) pre None) in *.
  cbn [mon_link] in M. rewrite Hl, Hl', Eo in M. cbn [kind_of] in M.
  destruct (mon_step r (KCall now cfg) l l') as [rs' cl] eqn:MS. cbn zeta in M. rewrite cum_clause_select in M.
  destruct (N.eqb_spec cl 0) as [-> | Hc]; [|inversion M; congruence]. clear M.
  assert (RS : fold_left (rs_step i) (pre ++ [t]) None = rs').
  { rewrite fold_left_app. cbn [fold_left]. fold r. unfold rs_step. rewrite Hl, Hl', Eo. cbn [kind_of].
    rewrite MS. reflexivity. }
  unfold mon_step in MS. rewrite Gd, L0, L1 in MS. rewrite spec_dwell_ok in MS.
  inversion MS as [[R1 R2]]. clear MS.
  cbn [negb andb orb first_clause] in R2. rewrite R1 in R2.
  destruct rs' as [S|]; [|discriminate R2].
  exists S. split; [apply rs_char; exact RS|].
  destruct (dwell (lx l) (cf_ceil cfg) <=? ssub now S) eqn:D; [lia | discriminate R2].
Qed.

(** ---- one stamp, or a draining backlog, never releases ---------------------------------------- *)
(** ops that leave the proof stamp of the link they target alone and do not reset it *)
Definition keeps_proof (o : op) : bool :=
  match o with
  | OReset _ => false
  | OSrtlaAck _ known _ => negb known
  | OEcho _ w ts now => negb (echo_ok w ts now)
  | _ => true
  end.

(** a history segment during which link [i] earns no new proof after stamp [p]:
    decisions (guard on, clock not before the stamp, ceiling a u64) and any environment
    op that is not a new proof / reset for link [i] — in-flight may drain freely *)
Definition calm (i : nat) (p : Z) (o : op) : Prop :=
  match o with
  | OSelect _ now cfg _ => cf_guard cfg = true /\ p <= now /\ 0 < now /\ cf_ceil cfg <= u64_max
  | _ => targets o i = true -> keeps_proof o = true
  end.

(** latched on stamp [p], and any rejoin run in progress started after the stamp *)
Definition held (p : Z) (l : link) : Prop :=
  g_latched (lg l) <> 0 /\ a_proof (la l) = p /\ (g_recovery (lg l) = 0 \/ p <= g_recovery (lg l)).

Lemma eff_le_ceil : forall x ceil, eff_stale x ceil <= ceil.
Proof. intros. unfold eff_stale. destruct (x_rttpos x); lia. Qed.

Lemma latch_hold : forall a x now mn ceil g p,
  g_latched g <> 0 -> a_proof a = p -> (g_recovery g = 0 \/ p <= g_recovery g) ->
  p <= now -> 0 < now -> ceil <= u64_max ->
  g_latched (latch_step a x now mn ceil g) <> 0 /\
  (g_recovery (latch_step a x now mn ceil g) = 0 \/ p <= g_recovery (latch_step a x now mn ceil g)).
Proof.
  intros a x now mn ceil g p L P R Hp Hnow Hc.
  split.
  - intro Z0. destruct (latch_release a x now mn ceil g L Z0) as [F D].
    unfold proof_fresh in F. unfold dwell, sat_mul_u64, sat_u64, clamp in D.
    pose proof (eff_le_ceil x ceil) as E.
    change STALL_REJOIN_DWELL_MULT with 2 in D.
    destruct (Z.eqb_spec (g_recovery g) 0); unfold ssub in *; lia.
  - unfold latch_step.
    repeat match goal with |- context [if ?c then _ else _] => destruct c eqn:? end;
      cbn [g_recovery]; try lia.
Qed.

Lemma calm_step : forall i p s o l,
  nth_error s i = Some l -> held p l -> calm i p o ->
  exists l', nth_error (fst (step s o)) i = Some l' /\ held p l'.
Proof.
  intros i p s o l Hn (L & P & R) C.
  destruct (op_target o) eqn:T.
  - assert (Tn : op_target o <> None) by congruence.
    rewrite (step_env_nth s o i Tn), Hn. cbn [option_map].
    destruct (targets o i) eqn:Tg; [|exists l; split; [reflexivity | repeat split; assumption]].
    exists (env_link o l). split; [reflexivity|].
    assert (K : keeps_proof o = true) by (destruct o; try discriminate; apply C; exact Tg).
    destruct o; try discriminate; cbn [keeps_proof] in K;
      unfold held; cbn [env_link set_acct set_foreign la lg with_log with_proof with_recv with_conn with_force a_proof];
      try (repeat split; assumption).
    + destruct known; [discriminate|]. cbn [andb]. repeat split; assumption.
    + destruct (echo_ok waiting ts now); [discriminate|]. cbn [la lg with_recv a_proof]. repeat split; assumption.
  - destruct o; try discriminate. cbn [calm] in C. destruct C as (Gd & Hp & Hnow & Hc).
    destruct (step_select_nth s last now cfg ins i l Hn) as (l' & E & (A & X & U & _)).
    exists l'. split; [exact E|].
    apply ungate_fields in U as (U1 & U2 & _).
    unfold gate_guard in *. rewrite Gd in *.
    pose proof (pull_step_fields (la l) (lx l) now (cf_min cfg) (cf_ceil cfg) (lg l)) as (P1 & P2 & _).
    destruct (latch_hold (la l) (lx l) now (cf_min cfg) (cf_ceil cfg)
               (pull_step (la l) (lx l) now (cf_min cfg) (cf_ceil cfg) (lg l)) p) as [H1 H2];
      try congruence; try lia.
    unfold held. rewrite U1, U2, A. repeat split; assumption.
Qed.

Theorem single_proof_no_release : forall ops i p s l,
  nth_error s i = Some l -> held p l -> Forall (calm i p) ops ->
  exists l', nth_error (run s ops) i = Some l' /\ held p l'.
Proof.
  induction ops as [|o t IH]; intros i p s l Hn H C; [exists l; auto|].
  inversion C; subst. cbn [run].
  destruct (calm_step i p s o l Hn H H2) as (l1 & E & H1).
  apply (IH i p _ l1 E H1 H3).
Qed.

(** ---- the windows --------------------------------------------------------------------------------- *)
Lemma eff_window_spec : forall x ceil,
  eff_stale x ceil =
  if x_rttpos x then Z.min (Z.max (sat_mul_u64 (x_rttms x) 4) 1000) ceil else ceil.
Proof. reflexivity. Qed.

Lemma eff_window_bounds : forall x ceil,
  (x_rttpos x = false -> eff_stale x ceil = ceil) /\
  (ceil < 1000 -> eff_stale x ceil = ceil) /\
  (1000 <= ceil -> x_rttpos x = true -> 1000 <= eff_stale x ceil <= ceil) /\
  (x_rttpos x = true -> 0 <= x_rttms x -> 4 * x_rttms x <= u64_max ->
   eff_stale x ceil = Z.min (Z.max (4 * x_rttms x) 1000) ceil).
Proof.
  intros. unfold eff_stale, sat_mul_u64, sat_u64, clamp.
  change STALL_STALE_RTT_MULT with 4. change STALL_STALE_FLOOR_MS with 1000.
  destruct (x_rttpos x); repeat split; intros; try discriminate; lia.
Qed.

Lemma pull_window_spec : forall x ceil,
  pull_window x ceil =
  Z.min (if x_rttpos x then Z.max (sat_mul_u64 (x_rttms x) 2) 250 else 250) (eff_stale x ceil).
Proof. reflexivity. Qed.

Lemma dwell_spec : forall x ceil, dwell x ceil = sat_mul_u64 (eff_stale x ceil) 2.
Proof. reflexivity. Qed.

Lemma dwell_twice : forall x ceil, 0 <= eff_stale x ceil -> 2 * eff_stale x ceil <= u64_max ->
  dwell x ceil = 2 * eff_stale x ceil.
Proof.
  intros. unfold dwell, sat_mul_u64, sat_u64, clamp. change STALL_REJOIN_DWELL_MULT with 2. lia.
Qed.
