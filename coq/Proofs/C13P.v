(** C13P.v — the C13 monitor holds on every trace of the model (invariant linking the
    monitor's own "fresh run" bookkeeping to [stall_recovery_since_ms]), and the
    Prop-level statements about engaging, releasing, the pull and the windows. *)
From Coq Require Import Floats ZifyBool.
From Srtla Require Import Base Constants FConstants Stall StallSel StallOps Run_Stall Run_C13 StallP.
Local Open Scope Z_scope.

(** the monitor's vocabulary is the model's, with the property's literals *)
Lemma spec_eff_ok : forall l cfg, spec_eff l cfg = eff_stale (lx l) (cf_ceil cfg).
Proof. reflexivity. Qed.
Lemma spec_window_ok : forall l cfg, spec_window l cfg = pull_window (lx l) (cf_ceil cfg).
Proof. reflexivity. Qed.
Lemma spec_fresh_ok : forall l now cfg, spec_fresh l now cfg = proof_fresh (la l) (lx l) now (cf_ceil cfg).
Proof. reflexivity. Qed.
Lemma spec_dwell_ok : forall l cfg, sat_mul_u64 (spec_eff l cfg) 2 = dwell (lx l) (cf_ceil cfg).
Proof. reflexivity. Qed.

Lemma first_clause_ok : forall l, forallb snd l = true -> first_clause l = 0%N.
Proof.
  induction l as [|[n b] t IH]; cbn; intros H; [reflexivity|].
  apply andb_true_iff in H as [-> H]. auto.
Qed.

(** the invariant: while latched, proof has been seen and the monitor's run start is
    exactly the link's [stall_recovery_since_ms] *)
Definition Inv (l : link) (rs : option Z) : Prop :=
  latched l = true ->
  a_proof (la l) <> 0 /\ rs = (if g_recovery (lg l) =? 0 then None else Some (g_recovery (lg l))).

(** ---- one decision, one link --------------------------------------------------------- *)
Lemma pull_step_fields : forall a x now mn ceil g,
  let g1 := pull_step a x now mn ceil g in
  g_latched g1 = g_latched g /\ g_recovery g1 = g_recovery g /\ g_events g1 = g_events g /\
  g_probe g1 = g_probe g /\ g_gated g1 = g_gated g.
Proof.
  intros. subst g1. unfold pull_step.
  destruct (briefly_silent a x now mn ceil); [cbn; auto|].
  destruct (negb (g_pulled g)); [auto|].
  destruct (spoke a x now ceil || negb (a_conn a)); cbn; auto.
Qed.

Lemma pull_step_release : forall a x now mn ceil g,
  g_pulled g = true -> g_pulled (pull_step a x now mn ceil g) = false ->
  spoke a x now ceil = true \/ a_conn a = false.
Proof.
  intros a x now mn ceil g Hp. unfold pull_step.
  destruct (briefly_silent a x now mn ceil); [cbn; discriminate|].
  rewrite Hp; cbn [negb].
  destruct (spoke a x now ceil) eqn:S; [auto|]. cbn [orb].
  destruct (a_conn a); cbn; [congruence | auto].
Qed.

Lemma latch_step_pulled : forall a x now mn ceil g,
  g_pulled (latch_step a x now mn ceil g) = g_pulled g.
Proof.
  intros. unfold latch_step.
  repeat match goal with |- context [if ?c then _ else _] => destruct c end; reflexivity.
Qed.

Lemma call_ok : forall rs now cfg l l',
  0 < now -> decided now cfg l l' -> Inv l rs ->
  snd (mon_step rs (KCall now cfg) l l') = 0%N /\ Inv l' (fst (mon_step rs (KCall now cfg) l l')).
Proof.
  intros rs now cfg [a g x c] [a' g' x' c'] Hnow (Ha & Hx & Hg & _) HI.
  cbn [la lx lg lc] in *. subst a' x'.
  unfold ungate in Hg. injection Hg as Hlat Hrec _ _ Hpul _.
  unfold Inv, latched in *. cbn [la lg lx] in *.
  unfold mon_step, latched. cbn [la lg lx].
  unfold gate_guard in *.
  destruct (cf_guard cfg) eqn:G.
  2:{ cbn [guard_off g_latched g_recovery g_pulled] in *. rewrite Hlat. cbn. rewrite andb_false_r. cbn.
      split; [reflexivity | discriminate]. }
  rewrite spec_dwell_ok, spec_fresh_ok, spec_window_ok, spec_eff_ok. cbn [la lx].
  pose proof (pull_step_fields a x now (cf_min cfg) (cf_ceil cfg) g) as (P1 & P2 & _).
  pose proof (pull_step_release a x now (cf_min cfg) (cf_ceil cfg) g) as PR.
  rewrite latch_step_pulled in Hpul.
  set (g1 := pull_step a x now (cf_min cfg) (cf_ceil cfg) g) in *. clearbody g1.
  rewrite <- Hpul in PR.
  (* clause 4 *)
  assert (C4 : negb (g_pulled g && negb (g_pulled g')) || negb (a_conn a) ||
               match a_lastrecv a with
               | Some lr => ssub now lr <? pull_window x (cf_ceil cfg)
               | None => false end = true).
  { destruct (g_pulled g) eqn:E1; [|reflexivity]. destruct (g_pulled g') eqn:E2; [reflexivity|].
    destruct (PR eq_refl eq_refl) as [S | S].
    - unfold spoke in S. rewrite S. apply orb_true_r.
    - rewrite S. reflexivity. }
  unfold latch_step in Hlat, Hrec.
  unfold is_stalled, proof_stale, proof_fresh, dwell in *.
  set (e := eff_stale x (cf_ceil cfg)) in *. clearbody e.
  set (mn := cf_min cfg) in *. clearbody mn.
  set (w := pull_window x (cf_ceil cfg)) in *. clearbody w.
  set (dw := sat_mul_u64 e STALL_REJOIN_DWELL_MULT) in *. clearbody dw.
  cbn [fst snd]. rewrite P1, P2 in Hlat, Hrec. clear PR.
  (destruct (g_latched g =? 0) eqn:LG;
   [ clear HI | destruct HI as [HP HR]; [reflexivity|]; subst rs ]);
  repeat match type of Hlat with context [if ?c then _ else _] =>
    let E := fresh "E" in destruct c eqn:E; rewrite ?E in * end;
  cbn [g_latched g_recovery] in Hlat, Hrec;
  destruct (g_recovery g =? 0) eqn:RG;
  destruct (negb (a_proof a =? 0) && (ssub now (a_proof a) <? e)) eqn:F;
  cbn [negb andb orb] in *;
  (split; [apply first_clause_ok; cbn [forallb snd]; rewrite C4; clear C4 | intros HL; split]);
  unfold ssub in *; try lia;
  rewrite ?Hlat, ?Hrec, ?P1, ?P2 in *;
  repeat match goal with |- context [?a =? 0] => destruct (Z.eqb_spec a 0) end;
  cbn [negb andb orb] in *; try first [reflexivity | lia | congruence].
Qed.

(** ---- environment ops ------------------------------------------------------------------ *)
(** well-formed op: clock readings are positive (the 0 sentinels mean "never") *)
Definition op_ok (o : op) : bool :=
  match o with
  | OSrtlaAck _ _ now | OEcho _ _ _ now | OSelect _ now _ _ => 0 <? now
  | _ => true
  end.

Lemma env_proof : forall o l, op_ok o = true -> (forall j, o <> OReset j) ->
  a_proof (la l) <> 0 -> a_proof (la (env_link o l)) <> 0.
Proof.
  intros o l Hok Hnr Hp. destruct o; cbn [env_link la set_acct with_log with_proof with_recv with_conn
    with_force set_foreign a_proof]; try exact Hp.
  - destruct (known && (0 <? a_logn (la l))); cbn [la set_acct with_proof a_proof]; [cbn in Hok; lia | exact Hp].
  - destruct (echo_ok waiting ts now); cbn [with_proof with_recv a_proof]; [cbn in Hok; lia | exact Hp].
  - exfalso; eapply Hnr; reflexivity.
Qed.

Lemma other_ok : forall rs l l',
  lg l' = lg l -> (a_proof (la l) <> 0 -> a_proof (la l') <> 0) -> Inv l rs ->
  snd (mon_step rs KOther l l') = 0%N /\ Inv l' (fst (mon_step rs KOther l l')).
Proof.
  intros rs l l' Hg Hp HI. unfold Inv in *. unfold mon_step, latched in *. rewrite Hg. cbn [fst snd].
  destruct (g_latched (lg l) =? 0) eqn:L; cbn [negb andb orb] in *.
  - split; [|discriminate]. apply first_clause_ok. cbn. destruct (g_pulled (lg l)); reflexivity.
  - destruct (HI eq_refl) as [P R]. split.
    + apply first_clause_ok. cbn [forallb snd]. specialize (Hp P).
      destruct (a_proof (la l') =? 0) eqn:E; [lia|]. cbn. destruct (g_pulled (lg l)); reflexivity.
    + intros _. auto.
Qed.

Lemma reset_ok : forall rs l,
  snd (mon_step rs KReset l (reset_link l)) = 0%N /\ Inv (reset_link l) (fst (mon_step rs KReset l (reset_link l))).
Proof.
  intros. unfold Inv. unfold mon_step, latched, reset_link. cbn. rewrite andb_false_r. cbn.
  split; [reflexivity | discriminate].
Qed.

Lemma targets_reset_kind : forall i j, targets (OReset j) i = true -> kind_of (Z.of_nat i) (OReset j) = KReset.
Proof.
  intros i j H. unfold targets in H. cbn in H. cbn [kind_of].
  replace (j =? Z.of_nat i) with true; [reflexivity|]. lia.
Qed.

Lemma kind_not_reset : forall i o, (forall j, o <> OReset j) -> (forall a b c d, o <> OSelect a b c d) ->
  kind_of i o = KOther.
Proof.
  intros i o H1 H2. destruct o; try reflexivity.
  - exfalso; eapply H1; reflexivity.
  - exfalso; eapply H2; reflexivity.
Qed.

Lemma untargeted_reset_kind : forall i j, targets (OReset j) i = false -> kind_of (Z.of_nat i) (OReset j) = KOther.
Proof.
  intros i j H. unfold targets in H. cbn in H. cbn [kind_of].
  destruct (Z.eqb_spec j (Z.of_nat i)); [|reflexivity]. subst. lia.
Qed.

(** one op of a history, seen from link [i] *)
Lemma step_mon : forall i s o rs l,
  nth_error s i = Some l -> op_ok o = true -> Inv l rs ->
  exists l', nth_error (fst (step s o)) i = Some l' /\
    snd (mon_step rs (kind_of (Z.of_nat i) o) l l') = 0%N /\
    Inv l' (fst (mon_step rs (kind_of (Z.of_nat i) o) l l')).
Proof.
  intros i s o rs l Hn Hok HI.
  destruct (op_target o) eqn:T.
  2:{ destruct o; try discriminate.
      destruct (step_select_nth s last now cfg ins i l Hn) as (l' & E & D).
      exists l'. split; [exact E|]. cbn [kind_of]. apply call_ok; auto. cbn in Hok. lia. }
  assert (Tn : op_target o <> None) by congruence.
  rewrite (step_env_nth s o i Tn), Hn. cbn [option_map].
  destruct (targets o i) eqn:Tg.
  - exists (env_link o l). split; [reflexivity|].
    assert (R : (exists j, o = OReset j) \/ (forall j, o <> OReset j)).
    { destruct o; try (right; intros j0 Hc; discriminate). left; eauto. }
    destruct R as [[j ->] | NR].
    + rewrite (targets_reset_kind _ _ Tg). cbn [env_link]. apply reset_ok.
    + rewrite kind_not_reset; [| exact NR | intros; intro Hc; subst; discriminate].
      apply other_ok; auto.
      * apply env_link_guard; exact NR.
      * apply env_proof; auto.
  - exists l. split; [reflexivity|].
    assert (K : kind_of (Z.of_nat i) o = KOther).
    { destruct o; try reflexivity; try discriminate. apply untargeted_reset_kind; exact Tg. }
    rewrite K. apply other_ok; auto.
Qed.

(** ---- the monitor accepts every trace of the model ---------------------------------------- *)
Lemma mon_link_ok : forall i ops s rs k,
  (forall l, nth_error s i = Some l -> Inv l rs) ->
  forallb op_ok ops = true ->
  mon_link i rs (trace s ops) k = (0, 0)%N.
Proof.
  induction ops as [|o t IH]; intros s rs k HI Hok; [reflexivity|].
  cbn [forallb] in Hok. apply andb_true_iff in Hok as [Ho Ht].
  cbn [trace]. destruct (step s o) as [s' r] eqn:St. cbn [mon_link t_pre t_post t_op].
  assert (S' : s' = fst (step s o)) by (rewrite St; reflexivity).
  destruct (nth_error s i) as [l|] eqn:Hn.
  - destruct (step_mon i s o rs l Hn Ho (HI l eq_refl)) as (l' & E & C & I').
    rewrite <- S' in E. rewrite E.
    destruct (mon_step rs (kind_of (Z.of_nat i) o) l l') as [rs' cl] eqn:M. cbn [fst snd] in *.
    subst cl. cbn. apply IH; [|exact Ht]. intros l0 H0. rewrite E in H0. inversion H0; subst. exact I'.
  - assert (E : nth_error s' i = None).
    { apply nth_error_None. rewrite S', step_length. apply nth_error_None. exact Hn. }
    apply IH; [|exact Ht]. intros l0 H0. rewrite E in H0. discriminate.
Qed.

(** initial states: a latched link has produced proof and has no rejoin run in progress
    (true of fresh links, and of every state the monitor is started on) *)
Definition good_link (l : link) : Prop :=
  latched l = true -> a_proof (la l) <> 0 /\ g_recovery (lg l) = 0.
Definition good_init (s : state) : Prop := Forall good_link s.

Theorem monitor_holds : forall s ops,
  good_init s -> forallb op_ok ops = true -> ok_C13 (length s) (trace s ops) = true.
Proof.
  intros s ops G W. unfold ok_C13. apply forallb_forall. intros i _.
  unfold ok_link. rewrite (mon_link_ok i ops s None 0); [reflexivity | | exact W].
  intros l Hn L. unfold good_init in G. rewrite Forall_forall in G.
  destruct (G l (nth_error_In _ _ Hn) L) as [P R]. split; [exact P|]. rewrite R. reflexivity.
Qed.
