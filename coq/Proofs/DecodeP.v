(** DecodeP.v — the serde-derive decoder of Control.v (a left-to-right walk over the
    members with a "seen" state per field) equals the declarative request shape of
    ControlSpec.v (counting members).  *)
From Srtla Require Import Base Json Control ControlSpec.
Local Open Scope string_scope.
Local Open Scope Z_scope.

(** one field in isolation *)
Section FieldFold.
  Context {A : Type} (K : string) (de : json -> option A).

  Fixpoint fieldfold (cur : option A) (m : list (string * json)) : option (option A) :=
    match m with
    | [] => Some cur
    | (k, v) :: t =>
        if String.eqb k K then
          match cur with
          | None => obind (de v) (fun x => fieldfold (Some x) t)
          | Some _ => None
          end
        else fieldfold cur t
    end.

  Lemma count_key_cons k v t :
    count_key K ((k, v) :: t) = ((if String.eqb k K then 1 else 0) + count_key K t)%nat.
  Proof.
    unfold count_key. cbn [filter fst]. rewrite (String.eqb_sym K k).
    destruct (String.eqb k K); reflexivity.
  Qed.

  Lemma assoc_cons k v t :
    assoc K ((k, v) :: t) = if String.eqb k K then Some v else assoc K t.
  Proof. cbn [assoc]. rewrite (String.eqb_sym K k). reflexivity. Qed.

  Lemma fieldfold_some x m :
    fieldfold (Some x) m = if Nat.eqb (count_key K m) 0 then Some (Some x) else None.
  Proof.
    induction m as [|[k v] t IH]; [reflexivity|].
    cbn [fieldfold]. rewrite count_key_cons. destruct (String.eqb k K); [reflexivity|exact IH].
  Qed.

  Lemma count0_assoc m : count_key K m = 0%nat -> assoc K m = None.
  Proof.
    induction m as [|[k v] t IH]; [reflexivity|].
    rewrite count_key_cons, assoc_cons. destruct (String.eqb k K); [discriminate|exact IH].
  Qed.

  Lemma fieldfold_none m :
    fieldfold None m =
    if Nat.leb (count_key K m) 1 then
      match assoc K m with None => Some None | Some v => option_map Some (de v) end
    else None.
  Proof.
    induction m as [|[k v] t IH]; [reflexivity|].
    cbn [fieldfold]. rewrite count_key_cons, assoc_cons. destruct (String.eqb k K).
    - destruct (de v) as [x|]; cbn [obind option_map].
      + rewrite fieldfold_some. cbn [Nat.add Nat.leb]. destruct (count_key K t); reflexivity.
      + cbn [Nat.add Nat.leb]. destruct (count_key K t); reflexivity.
    - exact IH.
  Qed.
End FieldFold.

Definition de_str (v : json) : option string := as_str v.

Definition join_fields (a b : option (option string)) (c : option (option json)) (d : option (option (option json)))
  : option fields :=
  match a, b, c, d with
  | Some a, Some b, Some c, Some d => Some {| f_jsonrpc := a; f_method := b; f_params := c; f_id := d |}
  | _, _, _, _ => None
  end.

Lemma visit_map_split m : forall f,
  visit_map f m =
  join_fields (fieldfold "jsonrpc" de_str (f_jsonrpc f) m) (fieldfold "method" de_str (f_method f) m)
              (fieldfold "params" de_value (f_params f) m) (fieldfold "id" de_id (f_id f) m).
Proof.
  induction m as [|[k v] t IH]; intro f.
  - destruct f; reflexivity.
  - cbn [visit_map fieldfold]. unfold visit_member.
    destruct (String.eqb k "jsonrpc") eqn:E1.
    { apply String.eqb_eq in E1. subst k. cbn [String.eqb Ascii.eqb Bool.eqb].
      destruct (f_jsonrpc f) as [s0|] eqn:Ej.
      - cbn [obind]. unfold join_fields. reflexivity.
      - destruct v; cbn [obind de_str as_str]; try reflexivity.
        rewrite IH. reflexivity. }
    destruct (String.eqb k "method") eqn:E2.
    { apply String.eqb_eq in E2. subst k. cbn [String.eqb Ascii.eqb Bool.eqb].
      destruct (f_method f) as [s0|] eqn:Ej.
      - cbn [obind]. unfold join_fields. destruct (fieldfold "jsonrpc" de_str (f_jsonrpc f) t); reflexivity.
      - destruct v; cbn [obind de_str as_str]; try (unfold join_fields; destruct (fieldfold "jsonrpc" de_str (f_jsonrpc f) t); reflexivity).
        rewrite IH. reflexivity. }
    destruct (String.eqb k "params") eqn:E3.
    { apply String.eqb_eq in E3. subst k. cbn [String.eqb Ascii.eqb Bool.eqb].
      destruct (f_params f) as [s0|] eqn:Ej.
      - cbn [obind]. unfold join_fields.
        destruct (fieldfold "jsonrpc" de_str (f_jsonrpc f) t); [|reflexivity].
        destruct (fieldfold "method" de_str (f_method f) t); reflexivity.
      - destruct (de_value v) as [p|]; cbn [obind].
        + rewrite IH. reflexivity.
        + unfold join_fields.
          destruct (fieldfold "jsonrpc" de_str (f_jsonrpc f) t); [|reflexivity].
          destruct (fieldfold "method" de_str (f_method f) t); reflexivity. }
    destruct (String.eqb k "id") eqn:E4.
    { apply String.eqb_eq in E4. subst k. cbn [String.eqb Ascii.eqb Bool.eqb].
      destruct (f_id f) as [s0|] eqn:Ej.
      - cbn [obind]. unfold join_fields.
        destruct (fieldfold "jsonrpc" de_str (f_jsonrpc f) t); [|reflexivity].
        destruct (fieldfold "method" de_str (f_method f) t); [|reflexivity].
        destruct (fieldfold "params" de_value (f_params f) t); reflexivity.
      - destruct (de_id v) as [p|]; cbn [obind].
        + rewrite IH. reflexivity.
        + unfold join_fields.
          destruct (fieldfold "jsonrpc" de_str (f_jsonrpc f) t); [|reflexivity].
          destruct (fieldfold "method" de_str (f_method f) t); [|reflexivity].
          destruct (fieldfold "params" de_value (f_params f) t); reflexivity. }
    cbn [obind]. apply IH.
Qed.

Definition req_tuple (r : request) : string * string * json * option json :=
  (rq_jsonrpc r, rq_method r, rq_params r, rq_id r).

Lemma de_id_spec v :
  de_id v = if opt_value_ok (null_is_absent (Some v)) then Some (option_map to_value (null_is_absent (Some v))) else None.
Proof. destruct v; cbn; try reflexivity; unfold de_id; destruct (value_ok _); reflexivity. Qed.

Theorem decode_spec : forall j, option_map req_tuple (decode_request j) = spec_request j.
Proof.
  intros [| | | | |l|m]; try reflexivity.
  - (* positional array *)
    cbn [decode_request spec_request]. unfold visit_seq.
    destruct l as [|a l]; [reflexivity|].
    destruct a; try reflexivity.
    destruct l as [|b l]; [reflexivity|].
    destruct b; try reflexivity.
    destruct l as [|p l]; [reflexivity|].
    destruct l as [|i l].
    + cbn [List.length Nat.leb nth_error null_is_absent opt_value_ok andb option_map].
      unfold de_value. destruct (value_ok p); reflexivity.
    + destruct l as [|x l].
      * cbn [List.length Nat.leb nth_error opt_value_ok]. unfold de_value.
        destruct (value_ok p); cbn [obind andb]; [|reflexivity].
        rewrite de_id_spec. destruct (opt_value_ok (null_is_absent (Some i))); reflexivity.
      * reflexivity.
  - (* object *)
    cbn [decode_request spec_request]. rewrite visit_map_split. cbn [no_fields f_jsonrpc f_method f_params f_id].
    rewrite !fieldfold_none.
    destruct (Nat.leb (count_key "jsonrpc" m) 1); [|reflexivity].
    destruct (Nat.leb (count_key "method" m) 1).
    2:{ cbn [andb join_fields]. destruct (assoc "jsonrpc" m) as [x|]; [destruct x|]; reflexivity. }
    destruct (Nat.leb (count_key "params" m) 1).
    2:{ cbn [andb join_fields]. destruct (assoc "jsonrpc" m) as [x|]; [destruct x|]; try reflexivity;
        (destruct (assoc "method" m) as [y|]; [destruct y|]; reflexivity). }
    destruct (Nat.leb (count_key "id" m) 1).
    2:{ cbn [andb join_fields]. destruct (assoc "jsonrpc" m) as [x|]; [destruct x|]; try reflexivity;
        (destruct (assoc "method" m) as [y|]; [destruct y|]; try reflexivity;
         (destruct (assoc "params" m) as [p|]; [cbn [option_map]; destruct (de_value p)|]; reflexivity)). }
    cbn [andb].
    destruct (assoc "jsonrpc" m) as [x|]; [destruct x|];
    (destruct (assoc "method" m) as [y|]; [destruct y|]);
    (destruct (assoc "params" m) as [p|]);
    (destruct (assoc "id" m) as [i|]);
    try change (null_is_absent None) with (@None json);
    cbn [de_str as_str option_map join_fields obind opt_value_ok andb];
    try reflexivity;
    try (unfold de_value; destruct (value_ok p); cbn [option_map join_fields obind andb]; try reflexivity);
    try (rewrite de_id_spec; destruct (opt_value_ok (null_is_absent (Some i))); reflexivity);
    try (destruct (de_id i); reflexivity).
Qed.
