(** ReconStepP.v — what one op does to each link, as an indexed relation between the link
    list before and after ([step_rel]); the proofs of the C08 clauses work link by link
    on top of it. *)
From Coq Require Import ZifyBool.
From Srtla Require Import Base Constants Reconnect ReconShell ReconStep ReconnectP.
Local Open Scope Z_scope.

Inductive F2i (P : nat -> link -> link -> Prop) : nat -> list link -> list link -> Prop :=
| F2i_nil : forall i, F2i P i [] []
| F2i_cons : forall i a b la lb, P i a b -> F2i P (S i) la lb -> F2i P i (a :: la) (b :: lb).

Lemma F2i_impl : forall (P Q : nat -> link -> link -> Prop) i la lb,
  (forall k a b, P k a b -> Q k a b) -> F2i P i la lb -> F2i Q i la lb.
Proof. intros P Q i la lb H F. induction F; constructor; auto. Qed.

Lemma F2i_length : forall P i la lb, F2i P i la lb -> length lb = length la.
Proof. intros P i la lb F. induction F; simpl; congruence. Qed.

Lemma F2i_id : forall i ls, F2i (fun _ l l' => l' = l) i ls ls.
Proof. intros i ls. revert i. induction ls; intros; constructor; auto. Qed.

Lemma F2i_map : forall f i ls, F2i (fun _ l l' => l' = f l) i ls (map f ls).
Proof. intros f i ls. revert i. induction ls; intros; simpl; constructor; auto. Qed.

Lemma F2i_ge : forall P i la lb, F2i P i la lb -> F2i (fun k a b => (i <= k)%nat /\ P k a b) i la lb.
Proof.
  intros P i la lb F. induction F; constructor; auto.
  eapply F2i_impl; [|exact IHF]. intros k x y [H1 H2]. split; [lia|exact H2].
Qed.

Lemma F2i_upd : forall f ls i0 j,
  F2i (fun k l l' => l' = if Nat.eqb k (i0 + j) then f l else l) i0 ls (upd j f ls).
Proof.
  intros f ls. induction ls as [|a t IH]; intros i0 j; simpl.
  - destruct j; constructor.
  - destruct j as [|j].
    + constructor.
      * rewrite Nat.add_0_r, Nat.eqb_refl. reflexivity.
      * eapply F2i_impl; [|apply F2i_ge, F2i_id]. intros k x y [Hk ->].
        assert (Nat.eqb k (i0 + 0) = false) as -> by (apply Nat.eqb_neq; lia). reflexivity.
    + constructor.
      * assert (Nat.eqb i0 (i0 + S j) = false) as -> by (apply Nat.eqb_neq; lia). reflexivity.
      * replace (i0 + S j)%nat with (S i0 + j)%nat by lia. apply IH.
Qed.

Lemma F2i_zip : forall {B} (f : link -> B -> link) da db lb i ls,
  F2i (fun _ l l' => exists b, l' = f l b) i ls (zip_with f da db ls lb).
Proof.
  intros B f da db lb i ls. revert i lb. induction ls; intros; simpl; constructor; eauto.
Qed.

Lemma F2i_comp : forall (P Q : nat -> link -> link -> Prop) i la lb lc,
  F2i P i la lb -> F2i Q i lb lc -> F2i (fun k a c => exists b, P k a b /\ Q k b c) i la lc.
Proof.
  intros P Q i la lb lc F. revert lc. induction F; intros lc G; inversion G; subst; constructor; eauto.
Qed.

(** the link half of [tick_link] does not depend on the manager *)
Definition tick_link_state (l : link) (now : Z) (classic : bool) (dg w' : Z) : link :=
  if is_timed_out l now then
    if should_attempt (l_rc l) now then
      let l1 := set_rc l (record_attempt (l_rc l) now) in
      if l_io l1 && l_bind l1 then reconnected l1 now else mark_for_recovery l1
    else l
  else
    let l1 := if negb classic && l_conn l then set_win l w' else l in
    set_ph l1 (update_phase (l_ph l1) (p_lossdeg (l_pen l1)) dg now).

Lemma tick_link_fst : forall i l g now classic dg w,
  fst (fst (tick_link i l g now classic dg w)) = tick_link_state l now classic dg w.
Proof.
  intros. unfold tick_link, tick_link_state.
  destruct (is_timed_out l now); [|reflexivity].
  destruct (should_attempt (l_rc l) now); [|reflexivity].
  destruct (g_pend g) as [idx|]; [destruct (Nat.eqb idx i)|]; reflexivity.
Qed.

Lemma F2i_tick_links : forall now classic ls i g dgs ws,
  F2i (fun _ l l' => exists dg w, l' = tick_link_state l now classic dg w) i ls
      (fst (fst (tick_links i ls g now classic dgs ws))).
Proof.
  intros now classic ls. induction ls as [|a t IH]; intros i g dgs ws; simpl.
  - constructor.
  - pose proof (tick_link_fst i a g now classic (hd 0 dgs) (hd 0 ws)) as E.
    destruct (tick_link i a g now classic (hd 0 dgs) (hd 0 ws)) as [[l' g1] w] eqn:T. simpl in E.
    specialize (IH (S i) g1 (tl dgs) (tl ws)).
    destruct (tick_links (S i) t g1 now classic (tl dgs) (tl ws)) as [[t' g2] wt] eqn:TT. simpl in *.
    constructor; [eauto|exact IH].
Qed.

(** ---- what an op can do to link [i] ---- *)
Definition on_i (j i : nat) (f : link -> link) (l : link) : link := if Nat.eqb i j then f l else l.

Definition LStep (cfg : Z) (probing : bool) (o : op) (i : nat) (l l' : link) : Prop :=
  match o with
  | OTick now refresh dgs ws =>
    exists (regrace : bool) classic dg w,
      (regrace = true -> probing = true) /\
      let l0 := if refresh then set_to l cfg else l in
      let l1 := if regrace then set_grace l0 (now + STARTUP_GRACE_MS) else l0 in
      l' = tick_link_state l1 now classic dg w
  | OReg3 j now => l' = on_i j i (fun x => reg3_link x now) l
  | ORegErr j now => l' = on_i j i regerr_link l
  | OKeepalive j now ok =>
    l' = on_i j i (fun x => let l1 := set_lr x (Some now) in
                            if ok then set_ph l1 (record_rtt_probe (l_ph l1)) else l1) l
  | OInbound j now cc =>
    let l1 := on_i j i (fun x => set_lr x (Some now)) l in
    l' = l1 \/ exists c : Z * Z, l' = (if l_conn l1 || (0 <? l_inf l1) then set_inf (set_win l1 (fst c)) (snd c) else l1)
  | OData now sel flushed inf' gs =>
    exists l1, (l1 = l \/ exists g, l1 = set_gated (set_to l cfg) g) /\ (l' = l1 \/ l' = forward l1 flushed inf')
  | OFlush now infs => exists f, l' = if l_io l then set_inf l f else l
  | OSetBind j b => l' = on_i j i (fun x => set_env x (l_io x) b (l_sock x)) l
  | OShut j => l' = on_i j i (fun x => set_env x (l_io x) (l_bind x) false) l
  | ODropIo j => l' = on_i j i (fun x => set_env x false (l_bind x) (l_sock x)) l
  | OSetPen j p => l' = on_i j i (fun x => set_pen x p) l
  | OStartProbe now => l' = l \/ l' = set_grace l (now + STARTUP_GRACE_MS)
  | OSetTimeout _ | OSetMode _ | OReg2 _ _ _ | ONgp _ _ | ORepair _ _ => l' = l
  end.

Lemma F2i_upd0 : forall f ls j, F2i (fun k l l' => l' = on_i j k f l) 0 ls (upd j f ls).
Proof. intros. eapply F2i_impl; [|apply (F2i_upd f ls 0 j)]. intros k a b ->. reflexivity. Qed.

Lemma F2i_same : forall (P : nat -> link -> link -> Prop) i ls, (forall k l, P k l l) -> F2i P i ls ls.
Proof. intros P i ls H. eapply F2i_impl; [|apply F2i_id]. intros k a b ->. apply H. Qed.

Lemma step_tick_links : forall s now refresh dgs ws,
  F2i (LStep (cfg_to s) (is_probing (rg s)) (OTick now refresh dgs ws)) 0 (links s)
      (links (fst (step_tick s now refresh dgs ws))).
Proof.
  intros s now refresh dgs ws. unfold step_tick.
  set (ls0 := if refresh then map (fun l => set_to l (cfg_to s)) (links s) else links s).
  set (g0 := clear_pending_if_timed_out (rg s) now).
  assert (P0 : is_probing g0 = is_probing (rg s)).
  { unfold g0, clear_pending_if_timed_out. destruct (g_pend (rg s)); [|reflexivity].
    destruct (negb (g_pto (rg s) =? 0) && (g_pto (rg s) <=? now)); reflexivity. }
  (* the probing-completion stage: ls0 -> ls1 touches at most the grace of links, only while probing *)
  assert (S1 : forall g1 ls1,
    (if is_probing g0 then
       let '(g', done) := check_probing_complete g0 now in
       if done then match g_target g' with
                    | Some idx => (g', upd idx (fun l => set_grace l (now + STARTUP_GRACE_MS)) ls0)
                    | None => (g', ls0) end
       else (g', ls0)
     else (g0, ls0)) = (g1, ls1) ->
    F2i (fun _ l l1 => exists regrace : bool, (regrace = true -> is_probing (rg s) = true) /\
           l1 = if regrace then set_grace l (now + STARTUP_GRACE_MS) else l) 0 ls0 ls1).
  { intros g1 ls1 E. destruct (is_probing g0) eqn:PB.
    - destruct (check_probing_complete g0 now) as [g' done]. destruct done.
      + destruct (g_target g') as [idx|]; inversion E; subst.
        * eapply F2i_impl; [|apply F2i_upd0]. intros k a b ->. unfold on_i.
          destruct (Nat.eqb k idx); [exists true|exists false]; split; auto; try discriminate.
          all: try (intros _; congruence).
        * apply F2i_same. intros. exists false. split; [discriminate|reflexivity].
      + inversion E; subst. apply F2i_same. intros. exists false. split; [discriminate|reflexivity].
    - inversion E; subst. apply F2i_same. intros. exists false. split; [discriminate|reflexivity]. }
  destruct (if is_probing g0 then _ else _) as [g1 ls1] eqn:E1.
  specialize (S1 g1 ls1 eq_refl).
  pose proof (F2i_tick_links now (cfg_classic s) ls1 0%nat g1 dgs ws) as T.
  destruct (tick_links 0 ls1 g1 now (cfg_classic s) dgs ws) as [[ls2 g2] wire] eqn:TL. simpl in T.
  destruct (reg_driver _ ls2 now wire) as [g4 wire'].
  destruct (if count_alive ls2 now =? 0 then _ else _) as [af err]. simpl.
  assert (S0 : F2i (fun _ l l0 => l0 = if refresh then set_to l (cfg_to s) else l) 0 (links s) ls0).
  { unfold ls0. destruct refresh; [apply F2i_map|apply F2i_id]. }
  pose proof (F2i_comp _ _ _ _ _ _ (F2i_comp _ _ _ _ _ _ S0 S1) T) as C.
  eapply F2i_impl; [|exact C]. clear. intros k a c [b [[b0 [-> [rg [Hrg ->]]]] [dg [w ->]]]].
  exists rg, (cfg_classic s), dg, w. split; [exact Hrg|reflexivity].
Qed.

Lemma ltb_nat_false_upd : forall {A} (f : A -> A) (ls : list A) i, (i <? length ls)%nat = false -> upd i f ls = ls.
Proof.
  intros A f ls. induction ls as [|a t IH]; intros i H; destruct i; simpl in *; try reflexivity.
  - discriminate.
  - f_equal. apply IH. apply Nat.ltb_ge in H. apply Nat.ltb_ge. lia.
Qed.

Theorem step_rel : forall s o,
  F2i (LStep (cfg_to s) (is_probing (rg s)) o) 0 (links s) (links (fst (step s o))).
Proof.
  intros s o. destruct o; cbn [step].
  - (* OSetTimeout *) apply F2i_same. intros; reflexivity.
  - apply F2i_same. intros; reflexivity.
  - (* OStartProbe *)
    destruct ((g_prob (rg s) =? 0) && (g_active (rg s) =? 0)); cbn [fst links with_rg with_links].
    + eapply F2i_impl; [|apply F2i_map]. intros k a b ->. right. reflexivity.
    + apply F2i_same. intros. left. reflexivity.
  - (* OTick *) apply step_tick_links.
  - (* OReg3 *) destruct (i <? length (links s))%nat eqn:L; cbn [fst links with_rg on_link with_links].
    + apply F2i_upd0.
    + rewrite <- (ltb_nat_false_upd (fun l => reg3_link l now) (links s) i L) at 2. apply F2i_upd0.
  - (* OReg2 *) destruct (i <? length (links s))%nat; apply F2i_same; intros; reflexivity.
  - (* ONgp *) destruct (nth_error (links s) i); [|apply F2i_same; intros; reflexivity].
    destruct (ngp_immediate _ i now); apply F2i_same; intros; reflexivity.
  - (* ORegErr *) destruct (i <? length (links s))%nat eqn:L; cbn [fst links with_rg on_link with_links].
    + apply F2i_upd0.
    + rewrite <- (ltb_nat_false_upd regerr_link (links s) i L) at 2. apply F2i_upd0.
  - (* OKeepalive *) cbn [fst links on_link with_links]. apply F2i_upd0.
  - (* OInbound *) cbn [fst links with_links].
    pose proof (F2i_upd0 (fun l => set_lr l (Some now)) (links s) i) as U.
    destruct (i <? length (links s))%nat.
    + pose proof (F2i_zip (fun l (c : Z * Z) => if l_conn l || (0 <? l_inf l)
                                                 then set_inf (set_win l (fst c)) (snd c) else l)
                          (link0 0) (0, 0) cc 0%nat (upd i (fun l => set_lr l (Some now)) (links s))) as Zp.
      pose proof (F2i_comp _ _ _ _ _ _ U Zp) as C.
      eapply F2i_impl; [|exact C]. intros k a c [b [-> [x ->]]]. right. exists x. reflexivity.
    + eapply F2i_impl; [|exact U]. intros k a b ->. left. reflexivity.
  - (* OData *)
    assert (A : forall ls1 pick,
      F2i (fun _ l l1 => l1 = l \/ exists g, l1 = set_gated (set_to l (cfg_to s)) g) 0 (links s) ls1 ->
      F2i (LStep (cfg_to s) (is_probing (rg s)) (OData now sel flushed inf' gs)) 0 (links s)
          (links (fst (match pick with
                       | Some i => if (i <? length (links s))%nat
                                   then (ST (upd i (fun l => forward l flushed inf') ls1) (rg s) (Some i) (allfail s) (cfg_to s) (cfg_classic s), quiet s)
                                   else (with_links s ls1, quiet s)
                       | None => (with_links s ls1, quiet s)
                       end)))).
    { intros ls1 pick F1.
      assert (B : F2i (LStep (cfg_to s) (is_probing (rg s)) (OData now sel flushed inf' gs)) 0 (links s) ls1).
      { eapply F2i_impl; [|exact F1]. intros k a b H. exists b. split; [exact H|left; reflexivity]. }
      destruct pick as [i|]; [|exact B]. destruct (i <? length (links s))%nat; [|exact B].
      cbn [fst links].
      pose proof (F2i_comp _ _ _ _ _ _ F1 (F2i_upd0 (fun l => forward l flushed inf') ls1 i)) as C.
      eapply F2i_impl; [|exact C]. intros k a c [b [H ->]]. exists b. split; [exact H|].
      unfold on_i. destruct (Nat.eqb k i); [right|left]; reflexivity. }
    destruct (g_hasconn (rg s)).
    + apply A. eapply F2i_impl; [|apply (F2i_zip (fun l g => set_gated (set_to l (cfg_to s)) g) (link0 0) false gs)].
      intros k a b [g ->]. right. exists g. reflexivity.
    + apply A. apply F2i_same. intros. left. reflexivity.
  - (* OFlush *) cbn [fst links with_links].
    eapply F2i_impl; [|apply (F2i_zip (fun l f => if l_io l then set_inf l f else l) (link0 0) 0 infs)].
    intros k a b [f ->]. exists f. reflexivity.
  - cbn [fst links on_link with_links]. apply F2i_upd0.
  - cbn [fst links on_link with_links]. apply F2i_upd0.
  - cbn [fst links on_link with_links]. apply F2i_upd0.
  - cbn [fst links on_link with_links]. apply F2i_upd0.
  - apply F2i_same. intros; reflexivity.
Qed.
