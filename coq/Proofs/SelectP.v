(** SelectP.v — structural lemmas about the selector model (Model/Select.v):
    what [apply_stall_gate] may change, when it gates, and that both selectors return an
    uplink whenever an eligible un-gated one exists.  Float facts come from SelFloatP. *)
From Coq Require Import ZArith List Bool Lia Floats.
From Srtla Require Import Base Constants FConstants Select Run_Sel SelFloatP.
Import ListNotations.
Local Open Scope Z_scope.

(** ---- views: the externally driven fields ([pv]) and those plus the cached multiplier ([pvq]) -- *)
Definition hid0 : hid := Hd 0 false false 0 0 0 0 0%float 0.
Definition pv (c : link) : link := set_hid c hid0.
Definition pvq (c : link) : link := set_hid c (Hd 0 false false 0 0 0 0 (l_qmult c) 0).

Lemma set_hid_eta c : set_hid c (hid_of c) = c.
Proof. now destruct c. Qed.
Lemma hid_of_set_hid c h : hid_of (set_hid c h) = h.
Proof. now destruct h. Qed.
Lemma set_hid_pv c h : set_hid c h = set_hid (pv c) h.
Proof. reflexivity. Qed.
Lemma pv_set_hid c h : pv (set_hid c h) = pv c.
Proof. reflexivity. Qed.
Lemma pv_upd_hid c f : pv (upd_hid c f) = pv c.
Proof. reflexivity. Qed.

Lemma set_hid_of_pv_eq c c' : pv c = pv c' -> set_hid c (hid_of c') = c'.
Proof. intros E. rewrite set_hid_pv, E, <- set_hid_pv. apply set_hid_eta. Qed.

Lemma wf_pubb_pv c : wf_pubb c = wf_pubb (pv c).
Proof. reflexivity. Qed.
Lemma wf_linkb_pvq c : wf_linkb c = wf_linkb (pvq c).
Proof. reflexivity. Qed.
Lemma pv_of_pvq c c' : pvq c = pvq c' -> pv c = pv c'.
Proof. intros E. change (pv c) with (pv (pvq c)). now rewrite E. Qed.

(** per-link stall updates only touch latch / pull bookkeeping *)
Lemma pvq_update_silence_pull c now m s : pvq (update_silence_pull c now m s) = pvq c.
Proof.
  unfold update_silence_pull.
  destruct (is_briefly_silent c now m s).
  - now destruct (negb (l_pulled c)).
  - destruct (negb (l_pulled c)); [reflexivity|].
    now destruct (_ || _).
Qed.

Lemma pvq_update_stall_latch c now m s : pvq (update_stall_latch c now m s) = pvq c.
Proof.
  unfold update_stall_latch.
  destruct (_ || _).
  - now destruct (l_latched c =? 0).
  - destruct (l_latched c =? 0); [reflexivity|].
    destruct (negb _); [reflexivity|].
    destruct (l_recov c =? 0); now destruct (_ <=? _).
Qed.

(** fields the timed-out / schedulable tests read *)
Lemma is_timed_out_pv c c' now :
  pv c = pv c' -> l_timeout c = l_timeout c' -> is_timed_out c now = is_timed_out c' now.
Proof.
  intros E T. unfold is_timed_out.
  change (l_conn c) with (l_conn (pv c)). change (l_est c) with (l_est (pv c)).
  change (l_grace c) with (l_grace (pv c)). change (l_lastrx c) with (l_lastrx (pv c)).
  rewrite E, T. reflexivity.
Qed.
Lemma is_schedulable_pv c c' : pv c = pv c' -> is_schedulable c = is_schedulable c'.
Proof. intros E. unfold is_schedulable. change (l_phase c) with (l_phase (pv c)). now rewrite E. Qed.
Lemma l_conn_pv c c' : pv c = pv c' -> l_conn c = l_conn c'.
Proof. intros E. change (l_conn c) with (l_conn (pv c)). now rewrite E. Qed.

(** ---- apply_stall_gate --------------------------------------------------------------------- *)
(** the per-link function of each branch *)
Definition gate_off (cfg : config) (c : link) : link :=
  clear_stall_latch (upd_hid (upd_hid (upd_hid c (h_set_timeout (c_timeout cfg))) (h_set_gated false)) (h_set_pulled false)).
Definition gate_upd (now : Z) (cfg : config) (c : link) : link :=
  update_stall_latch (update_silence_pull (upd_hid c (h_set_timeout (c_timeout cfg))) now (c_minif cfg) (c_stale cfg))
                     now (c_minif cfg) (c_stale cfg).
Definition gate_set (ah : bool) (c : link) : link :=
  upd_hid c (h_set_gated (ah && (stall_latched c || l_pulled c))).

Lemma apply_stall_gate_eq ls now cfg :
  apply_stall_gate ls now cfg =
  if negb (c_stall cfg) then map (gate_off cfg) ls
  else let ls2 := map (gate_upd now cfg) ls in
       map (gate_set (existsb (healthy now) ls2)) ls2.
Proof.
  unfold apply_stall_gate. destruct (negb (c_stall cfg)).
  - rewrite map_map. reflexivity.
  - cbv zeta. rewrite !map_map. reflexivity.
Qed.

Lemma pvq_gate_off cfg c : pvq (gate_off cfg c) = pvq c.
Proof. reflexivity. Qed.
Lemma pvq_gate_upd now cfg c : pvq (gate_upd now cfg c) = pvq c.
Proof. unfold gate_upd. now rewrite pvq_update_stall_latch, pvq_update_silence_pull. Qed.
Lemma pvq_gate_set ah c : pvq (gate_set ah c) = pvq c.
Proof. reflexivity. Qed.

Lemma timeout_update_silence_pull c now m s : l_timeout (update_silence_pull c now m s) = l_timeout c.
Proof.
  unfold update_silence_pull.
  destruct (is_briefly_silent c now m s).
  - now destruct (negb (l_pulled c)).
  - destruct (negb (l_pulled c)); [reflexivity|]. now destruct (_ || _).
Qed.
Lemma timeout_update_stall_latch c now m s : l_timeout (update_stall_latch c now m s) = l_timeout c.
Proof.
  unfold update_stall_latch.
  destruct (_ || _).
  - now destruct (l_latched c =? 0).
  - destruct (l_latched c =? 0); [reflexivity|].
    destruct (negb _); [reflexivity|].
    destruct (l_recov c =? 0); now destruct (_ <=? _).
Qed.
Lemma timeout_gate_upd now cfg c : l_timeout (gate_upd now cfg c) = c_timeout cfg.
Proof. unfold gate_upd. now rewrite timeout_update_stall_latch, timeout_update_silence_pull. Qed.

(** the gate's per-link result: same externally driven fields and cached multiplier,
    timeout refreshed from the settings *)
Definition gate_rel (cfg : config) (c c1 : link) : Prop :=
  pvq c1 = pvq c /\ l_timeout c1 = c_timeout cfg.

Lemma apply_stall_gate_rel ls now cfg :
  Forall2 (gate_rel cfg) ls (apply_stall_gate ls now cfg).
Proof.
  rewrite apply_stall_gate_eq. destruct (negb (c_stall cfg)).
  - induction ls; constructor; auto. split; reflexivity.
  - cbv zeta. generalize (existsb (healthy now) (map (gate_upd now cfg) ls)). intros ah.
    induction ls; constructor; auto. split.
    + now rewrite pvq_gate_set, pvq_gate_upd.
    + change (l_timeout (gate_set ah (gate_upd now cfg a))) with (l_timeout (gate_upd now cfg a)).
      apply timeout_gate_upd.
Qed.

(** ---- after the gate an eligible, un-gated link exists whenever a usable one did ------------- *)
Definition eligible (now : Z) (c : link) : bool :=
  l_conn c && negb (is_timed_out c now) && is_schedulable c.
Definition ok_link (now : Z) (c : link) : bool := eligible now c && negb (l_gated c).

Lemma usable_spec_eligible now cfg c c1 :
  gate_rel cfg c c1 -> usable_spec now (c_timeout cfg) c = true -> eligible now c1 = true.
Proof.
  intros (Eq & Et) U. apply pv_of_pvq in Eq.
  unfold eligible. rewrite (is_schedulable_pv _ _ Eq), (l_conn_pv _ _ Eq).
  unfold usable_spec in U. apply andb_true_iff in U. destruct U as (U & U3).
  apply andb_true_iff in U. destruct U as (U1 & U2).
  rewrite U1. unfold is_schedulable. rewrite U2. rewrite andb_true_r. cbn [andb].
  unfold is_timed_out. rewrite (l_conn_pv _ _ Eq), U1. cbn [negb].
  change (l_lastrx c1) with (l_lastrx (pv c1)). rewrite Eq. change (l_lastrx (pv c)) with (l_lastrx c).
  rewrite Et. destruct (l_lastrx c) as [lr|]; [|reflexivity].
  unfold ssub. apply negb_true_iff. apply Z.leb_gt. apply Z.ltb_lt in U3. exact U3.
Qed.

Lemma eligible_gate_set now ah c : eligible now (gate_set ah c) = eligible now c.
Proof. reflexivity. Qed.

Lemma gate_ok ls now cfg :
  existsb (usable_spec now (c_timeout cfg)) ls = true ->
  existsb (ok_link now) (apply_stall_gate ls now cfg) = true.
Proof.
  intros U. apply existsb_exists in U. destruct U as (c & Hin & U).
  rewrite apply_stall_gate_eq. destruct (negb (c_stall cfg)).
  - apply existsb_exists. exists (gate_off cfg c). split; [now apply in_map|].
    unfold ok_link. rewrite (usable_spec_eligible now cfg c); [reflexivity| |exact U].
    split; reflexivity.
  - cbv zeta. set (ls2 := map (gate_upd now cfg) ls). set (ah := existsb (healthy now) ls2).
    assert (E2 : eligible now (gate_upd now cfg c) = true).
    { apply (usable_spec_eligible now cfg c); [|exact U]. split; [apply pvq_gate_upd | apply timeout_gate_upd]. }
    destruct ah eqn:Hah.
    + (* some healthy link exists: it is eligible and not gated *)
      subst ah. apply existsb_exists in Hah. destruct Hah as (v & Hv & Hh).
      apply existsb_exists. exists (gate_set true v). split; [now apply in_map|].
      unfold ok_link. rewrite eligible_gate_set.
      unfold healthy in Hh. repeat (apply andb_true_iff in Hh; destruct Hh as (Hh & ?)).
      unfold eligible. rewrite Hh. cbn [andb].
      match goal with H : negb (is_timed_out v now) = true |- _ => rewrite H end.
      match goal with H : is_schedulable v = true |- _ => rewrite H end.
      cbn [andb]. unfold gate_set.
      change (l_gated (upd_hid v (h_set_gated (true && (stall_latched v || l_pulled v)))))
        with (true && (stall_latched v || l_pulled v)).
      apply negb_true_iff in H0, H. rewrite H0, H. reflexivity.
    + apply existsb_exists. exists (gate_set false (gate_upd now cfg c)). split.
      * apply in_map. subst ls2. now apply in_map.
      * unfold ok_link. rewrite eligible_gate_set, E2. reflexivity.
Qed.

Lemma ok_link_not_skipped now c : ok_link now c = true -> skipped now c = false /\ l_conn c = true.
Proof.
  unfold ok_link, eligible, skipped. intros H.
  repeat (apply andb_true_iff in H; destruct H as (H & ?)).
  apply negb_true_iff in H0, H2. rewrite H0, H2, H1. now split.
Qed.

(** ---- classic ---------------------------------------------------------------------------------- *)
Lemma classic_loop_keeps ls now : forall i b s, b <> None -> classic_loop ls now i b s <> None.
Proof.
  induction ls as [|c t IH]; intros i b s Hb; cbn [classic_loop]; [exact Hb|].
  destruct (skipped now c); [now apply IH|].
  destruct (s <? get_score c); apply IH; [discriminate | exact Hb].
Qed.

Lemma classic_loop_bound ls now : forall i b s r,
  (forall k, b = Some k -> (k < i)%nat) ->
  classic_loop ls now i b s = Some r -> (r < i + length ls)%nat.
Proof.
  induction ls as [|c t IH]; intros i b s r Hb; cbn [classic_loop length].
  - intros E. apply Hb in E. lia.
  - assert (Hb' : forall k, b = Some k -> (k < S i)%nat) by (intros k E; apply Hb in E; lia).
    destruct (skipped now c).
    + intros E. apply IH in E; [lia | exact Hb'].
    + destruct (s <? get_score c); intros E; apply IH in E; try lia; try exact Hb'.
      intros k Ek. inversion Ek. lia.
Qed.

Lemma classic_loop_hit ls now : forall i b s,
  (b = None -> s = -1) ->
  (exists c, In c ls /\ ok_link now c = true /\ 0 <= get_score c) ->
  classic_loop ls now i b s <> None.
Proof.
  induction ls as [|c t IH]; intros i b s Hinv (u & Hin & Hok & Hs); [easy|].
  cbn [classic_loop]. destruct Hin as [->|Hin].
  - destruct (ok_link_not_skipped _ _ Hok) as (-> & _).
    destruct (s <? get_score u) eqn:L.
    + apply classic_loop_keeps. discriminate.
    + apply classic_loop_keeps. intros ->. rewrite Hinv in L by reflexivity.
      apply Z.ltb_ge in L. lia.
  - destruct (skipped now c).
    + apply IH; [exact Hinv | now exists u].
    + destruct (s <? get_score c).
      * apply IH; [discriminate | now exists u].
      * apply IH; [exact Hinv | now exists u].
Qed.

(** ---- enhanced ---------------------------------------------------------------------------------- *)
(** a link the scoring loop is certain to score above the floor, whatever exp value it is given *)
Definition scorable (au quality : bool) (now : Z) (c : link) : Prop :=
  forall e, exp_okb e = true ->
  exists s c', score_link au quality now e c = Some (s, c') /\ ((-1)%float <? s)%float = true.

Lemma enh_loop_keeps ls : forall exps au q last now i a,
  ea_best a <> None -> ea_best (fst (enh_loop ls exps au q last now i a)) <> None.
Proof.
  induction ls as [|c t IH]; intros exps au q last now i a Ha; cbn [enh_loop]; [exact Ha|].
  destruct (score_link au q now (hd 1%float exps) c) as [(s, c')|].
  - set (a1 := if (ea_score a <? s)%float then _ else _).
    specialize (IH (tl exps) au q last now (S i) a1).
    destruct (enh_loop t (tl exps) au q last now (S i) a1) as (a', t'). cbn [fst] in *.
    apply IH. subst a1. destruct (ea_score a <? s)%float; cbn [ea_best]; [discriminate | exact Ha].
  - specialize (IH (tl exps) au q last now (S i) a Ha).
    now destruct (enh_loop t (tl exps) au q last now (S i) a) as (a', t').
Qed.

Lemma forallb_hd_tl exps :
  forallb exp_okb exps = true -> exp_okb (hd 1%float exps) = true /\ forallb exp_okb (tl exps) = true.
Proof.
  destruct exps as [|e r]; cbn [forallb hd tl].
  - intros _. split; reflexivity.
  - intros H. now apply andb_true_iff in H.
Qed.

Lemma enh_loop_hit ls : forall exps au q last now i a,
  forallb exp_okb exps = true ->
  (ea_best a = None -> ea_score a = (-1)%float) ->
  (exists c, In c ls /\ scorable au q now c) ->
  ea_best (fst (enh_loop ls exps au q last now i a)) <> None.
Proof.
  induction ls as [|c t IH]; intros exps au q last now i a He Hinv (u & Hin & Hs); [easy|].
  destruct (forallb_hd_tl _ He) as (He1 & He2).
  cbn [enh_loop]. destruct Hin as [->|Hin].
  - destruct (Hs _ He1) as (s & c' & -> & Hgt).
    set (a1 := if (ea_score a <? s)%float then _ else _).
    pose proof (enh_loop_keeps t (tl exps) au q last now (S i) a1) as K.
    destruct (enh_loop t (tl exps) au q last now (S i) a1) as (a', t'). cbn [fst] in *.
    apply K. subst a1. destruct (ea_score a <? s)%float eqn:L; cbn [ea_best]; [discriminate|].
    intros En. rewrite (Hinv En) in L. congruence.
  - destruct (score_link au q now (hd 1%float exps) c) as [(s, c')|].
    + set (a1 := if (ea_score a <? s)%float then _ else _).
      specialize (IH (tl exps) au q last now (S i) a1 He2).
      destruct (enh_loop t (tl exps) au q last now (S i) a1) as (a', t'). cbn [fst] in *.
      apply IH; [|now exists u].
      subst a1. destruct (ea_score a <? s)%float; cbn [ea_best ea_score]; [discriminate | exact Hinv].
    + specialize (IH (tl exps) au q last now (S i) a He2 Hinv).
      destruct (enh_loop t (tl exps) au q last now (S i) a) as (a', t'). cbn [fst] in *.
      apply IH. now exists u.
Qed.

Lemma score_link_some au q now e c :
  skipped now c = false -> au && in_flight_cap_exceeded c = false ->
  exists s c', score_link au q now e c = Some (s, c').
Proof.
  intros Hs Hc. unfold score_link. rewrite Hs, Hc.
  destruct (negb q); [eauto|]. destruct (cached_quality c now e); eauto.
Qed.

Lemma scorable_of au q now c :
  wf_linkb c = true -> l_conn c = true -> skipped now c = false ->
  au && in_flight_cap_exceeded c = false -> scorable au q now c.
Proof.
  intros Hw Hc Hs Hcap e He.
  destruct (score_link_some au q now e c Hs Hcap) as (s & c' & E).
  exists s, c'. split; [exact E|]. eapply score_link_above_floor; eauto.
Qed.

Lemma scorable_exists ls now q :
  Forall (fun c => wf_linkb c = true) ls -> existsb (ok_link now) ls = true ->
  exists c, In c ls /\ scorable (existsb (unconstrained now) ls) q now c.
Proof.
  intros Hwf Hok. apply existsb_exists in Hok. destruct Hok as (u & Hin & Hu).
  rewrite Forall_forall in Hwf.
  destruct (ok_link_not_skipped _ _ Hu) as (Hs & Hc).
  set (au := existsb (unconstrained now) ls).
  destruct (au && in_flight_cap_exceeded u) eqn:E.
  - apply andb_true_iff in E. destruct E as (Eau & _). unfold au in Eau.
    apply existsb_exists in Eau. destruct Eau as (v & Hv & Hun).
    exists v. split; [exact Hv|]. fold au.
    unfold unconstrained in Hun.
    apply andb_true_iff in Hun; destruct Hun as (Hun & Hcapv).
    apply andb_true_iff in Hun; destruct Hun as (Hun & Hgv).
    apply andb_true_iff in Hun; destruct Hun as (Hun & _).
    apply andb_true_iff in Hun; destruct Hun as (Hun & _).
    apply andb_true_iff in Hun; destruct Hun as (Hun & Hsv).
    apply andb_true_iff in Hun; destruct Hun as (Hcv & Htv).
    apply negb_true_iff in Hcapv, Hgv, Htv.
    apply scorable_of; auto.
    + unfold skipped. rewrite Htv, Hgv, Hsv. reflexivity.
    + rewrite Hcapv. apply andb_false_r.
  - exists u. split; [exact Hin|]. apply scorable_of; auto.
Qed.

(** index bookkeeping of the enhanced loop *)
Definition ea_inv (last : option nat) (n : nat) (a : eacc) : Prop :=
  (forall b, ea_best a = Some b -> (b < n)%nat) /\
  (ea_cur a <> None -> exists l, last = Some l /\ (l < n)%nat).

Lemma onat_eqb_eq a b : onat_eqb a b = true -> a = b.
Proof.
  destruct a, b; cbn; try easy. intros H. apply Nat.eqb_eq in H. now subst.
Qed.

Lemma ea_inv_mono last n m a : (n <= m)%nat -> ea_inv last n a -> ea_inv last m a.
Proof.
  intros L (H1 & H2). split.
  - intros b E. apply H1 in E. lia.
  - intros E. destruct (H2 E) as (l & ? & ?). exists l. split; [assumption | lia].
Qed.

Lemma enh_loop_bound ls : forall exps au q last now i a,
  ea_inv last i a -> ea_inv last (i + length ls) (fst (enh_loop ls exps au q last now i a)).
Proof.
  induction ls as [|c t IH]; intros exps au q last now i a Ha; cbn [enh_loop length].
  - cbn [fst]. now rewrite Nat.add_0_r.
  - destruct (score_link au q now (hd 1%float exps) c) as [(s, c')|].
    + set (a1 := if (ea_score a <? s)%float then _ else _).
      assert (H1 : ea_inv last (S i) a1).
      { destruct Ha as (Hb & Hc). subst a1.
        assert (Hcur : (if onat_eqb (Some i) last then Some s else ea_cur a) <> None ->
                       exists l, last = Some l /\ (l < S i)%nat).
        { destruct (onat_eqb (Some i) last) eqn:E.
          - intros _. apply onat_eqb_eq in E. exists i. split; [now symmetry | lia].
          - intros Hn. destruct (Hc Hn) as (l & ? & ?). exists l. split; [assumption | lia]. }
        destruct (ea_score a <? s)%float; split; cbn [ea_best ea_cur]; auto.
        - intros b E. inversion E. lia.
        - intros b E. apply Hb in E. lia. }
      specialize (IH (tl exps) au q last now (S i) a1 H1).
      destruct (enh_loop t (tl exps) au q last now (S i) a1) as (a', t'). cbn [fst] in *.
      now replace (i + S (length t))%nat with (S i + length t)%nat by lia.
    + specialize (IH (tl exps) au q last now (S i) a (ea_inv_mono _ _ _ _ (Nat.le_succ_diag_r i) Ha)).
      destruct (enh_loop t (tl exps) au q last now (S i) a) as (a', t'). cbn [fst] in *.
      now replace (i + S (length t))%nat with (S i + length t)%nat by lia.
Qed.

(** ---- what a select may change: only written fields; well-formedness is kept ------------------ *)
Definition wfl (c : link) : Prop := wf_linkb c = true.

Lemma gate_wf ls now cfg : Forall wfl ls -> Forall wfl (apply_stall_gate ls now cfg).
Proof.
  intros H. pose proof (apply_stall_gate_rel ls now cfg) as R.
  induction R as [|c c1 l l1 (Eq & _) R IH]; [constructor|].
  inversion H; subst. constructor; [|now apply IH].
  unfold wfl in *. now rewrite wf_linkb_pvq, Eq, <- wf_linkb_pvq.
Qed.

Lemma score_link_link au q now e c s c' :
  score_link au q now e c = Some (s, c') ->
  pv c' = pv c /\ (wfl c -> exp_okb e = true -> wfl c').
Proof.
  unfold score_link. destruct (skipped now c); [discriminate|].
  destruct (au && in_flight_cap_exceeded c); [discriminate|].
  destruct (negb q).
  - intros E. inversion E; subst. split; auto.
  - destruct (cached_quality c now e) as (qq, c1) eqn:Eq. intros E. inversion E; subst. split.
    + unfold cached_quality in Eq. destruct (_ <=? _) in Eq; inversion Eq; reflexivity.
    + intros Hw He. now destruct (cached_quality_range c now e qq c' Hw He Eq).
Qed.

Definition link_rel (c c' : link) : Prop := pv c' = pv c /\ (wfl c -> wfl c').

Lemma enh_loop_rel ls : forall exps au q last now i a,
  forallb exp_okb exps = true ->
  Forall2 link_rel ls (snd (enh_loop ls exps au q last now i a)).
Proof.
  induction ls as [|c t IH]; intros exps au q last now i a He; cbn [enh_loop]; [constructor|].
  destruct (forallb_hd_tl _ He) as (He1 & He2).
  destruct (score_link au q now (hd 1%float exps) c) as [(s, c')|] eqn:E.
  - set (a1 := if (ea_score a <? s)%float then _ else _).
    specialize (IH (tl exps) au q last now (S i) a1 He2).
    destruct (enh_loop t (tl exps) au q last now (S i) a1) as (a', t'). cbn [snd] in *.
    constructor; [|exact IH]. destruct (score_link_link _ _ _ _ _ _ _ E) as (P & W).
    split; [exact P | intros Hw; now apply W].
  - specialize (IH (tl exps) au q last now (S i) a He2).
    destruct (enh_loop t (tl exps) au q last now (S i) a) as (a', t'). cbn [snd] in *.
    constructor; [|exact IH]. split; auto.
Qed.

Lemma gate_link_rel ls now cfg : Forall2 link_rel ls (apply_stall_gate ls now cfg).
Proof.
  pose proof (apply_stall_gate_rel ls now cfg) as R.
  induction R as [|c c1 l l1 (Eq & _) R IH]; constructor; auto.
  split; [now apply pv_of_pvq|]. unfold wfl. now rewrite (wf_linkb_pvq c1), Eq, <- wf_linkb_pvq.
Qed.

Lemma link_rel_trans l1 l2 l3 :
  Forall2 link_rel l1 l2 -> Forall2 link_rel l2 l3 -> Forall2 link_rel l1 l3.
Proof.
  intros H. revert l3. induction H as [|a b l l' (P1 & W1) H IH]; intros l3 H3; inversion H3; subst; constructor.
  - destruct H2 as (P2 & W2). split; [congruence | auto].
  - now apply IH.
Qed.

Lemma link_rel_refl l : Forall2 link_rel l l.
Proof. induction l; constructor; auto. split; auto. Qed.

Lemma enhanced_select_snd ls last now q exps :
  snd (enhanced_select ls last now q exps) =
  snd (enh_loop ls exps (existsb (unconstrained now) ls) q last now 0%nat (EA None (-1)%float None)).
Proof.
  unfold enhanced_select. now destruct (enh_loop _ _ _ _ _ _ _ _).
Qed.

Theorem select_rel ls last now cfg exps :
  forallb exp_okb exps = true -> Forall2 link_rel ls (snd (select ls last now cfg exps)).
Proof.
  intros He. unfold select. destruct (c_mode cfg).
  - cbn [snd]. apply gate_link_rel.
  - rewrite enhanced_select_snd. eapply link_rel_trans; [apply gate_link_rel|]. now apply enh_loop_rel.
Qed.

Lemma link_rel_wf l l' : Forall2 link_rel l l' -> Forall wfl l -> Forall wfl l'.
Proof.
  induction 1 as [|a b l l' (_ & W) H IH]; intros F; inversion F; subst; constructor; auto.
Qed.

Theorem select_wf ls last now cfg exps :
  forallb exp_okb exps = true -> Forall wfl ls -> Forall wfl (snd (select ls last now cfg exps)).
Proof. intros He. apply link_rel_wf. now apply select_rel. Qed.

Lemma F2_length {A B} (R : A -> B -> Prop) l l' : Forall2 R l l' -> length l = length l'.
Proof. induction 1; cbn; congruence. Qed.

(** ---- no blackout ------------------------------------------------------------------------------ *)
Lemma enhanced_select_some ls last now q exps :
  Forall wfl ls -> forallb exp_okb exps = true -> existsb (ok_link now) ls = true ->
  exists i, fst (enhanced_select ls last now q exps) = Some i /\ (i < length ls)%nat.
Proof.
  intros Hwf He Hok. unfold enhanced_select.
  set (au := existsb (unconstrained now) ls). set (a0 := EA None (-1)%float None).
  pose proof (enh_loop_hit ls exps au q last now 0%nat a0 He (fun _ => eq_refl)
                (scorable_exists ls now q Hwf Hok)) as Hbest.
  assert (I0 : ea_inv last 0 a0) by (split; [intros b E; discriminate | intros E; now elim E]).
  pose proof (enh_loop_bound ls exps au q last now 0%nat a0 I0) as (Hb & Hc).
  destruct (enh_loop ls exps au q last now 0%nat a0) as (a, ls'). cbn [fst] in *.
  destruct (ea_best a) as [b|] eqn:Eb; [|now elim Hbest].
  specialize (Hb b eq_refl). cbn [plus] in *.
  destruct last as [l|]; [|now exists b].
  destruct (negb (onat_eqb (Some b) (Some l))); [|now exists b].
  destruct (ea_cur a) as [cur|] eqn:Ec; [|now exists b].
  destruct (ea_score a <? cur * SWITCH_THRESHOLD)%float; [|now exists b].
  destruct Hc as (l' & El & Hl); [discriminate|]. inversion El; subst. now exists l'.
Qed.

Theorem select_no_blackout ls last now cfg exps :
  Forall wfl ls -> forallb exp_okb exps = true ->
  existsb (usable_spec now (c_timeout cfg)) ls = true ->
  exists i, fst (select ls last now cfg exps) = Some i /\ (i < length ls)%nat.
Proof.
  intros Hwf He Hu. unfold select.
  pose proof (gate_wf ls now cfg Hwf) as Hwf1.
  pose proof (gate_ok ls now cfg Hu) as Hok.
  pose proof (F2_length _ _ _ (apply_stall_gate_rel ls now cfg)) as Hlen.
  set (ls1 := apply_stall_gate ls now cfg) in *.
  destruct (c_mode cfg).
  - cbn [fst]. unfold classic_select.
    destruct (classic_loop ls1 now 0 None (-1)) as [r|] eqn:E.
    + exists r. split; [reflexivity|]. apply classic_loop_bound in E; [lia | intros k Ek; discriminate].
    + exfalso. revert E. apply classic_loop_hit; [reflexivity|].
      apply existsb_exists in Hok. destruct Hok as (u & Hin & Hu1). exists u. split; [exact Hin|]. split; [exact Hu1|].
      destruct (ok_link_not_skipped _ _ Hu1) as (_ & Hc).
      rewrite Forall_forall in Hwf1. specialize (Hwf1 u Hin). unfold wfl, wf_linkb in Hwf1.
      apply andb_true_iff in Hwf1. destruct Hwf1 as (Hp & _).
      apply (get_score_range u Hc Hp).
  - rewrite Hlen. now apply enhanced_select_some.
Qed.

(** ---- the runner's state tracking (shared by C03 and C11) -------------------------------------- *)
Lemma forallb_wfl s : forallb wf_linkb s = true <-> Forall wfl s.
Proof. rewrite forallb_forall, Forall_forall. reflexivity. Qed.

Lemma set_hids_track s s' : Forall2 link_rel s s' -> set_hids s (map hid_of s') = s'.
Proof.
  induction 1 as [|c c' l l' (P & _) H IH]; [reflexivity|].
  cbn [map set_hids]. rewrite IH. f_equal. apply set_hid_of_pv_eq. now symmetry.
Qed.

Lemma upd_nth_wf s i l : Forall wfl s -> wf_pubb l = true -> Forall wfl (upd_nth s i l).
Proof.
  intros H Hl. revert i. induction H as [|c t Hc Ht IH]; intros i; [destruct i; constructor|].
  destruct i; cbn [upd_nth]; constructor; auto.
  unfold wfl, wf_linkb in *. apply andb_true_iff in Hc. destruct Hc as (_ & Hq).
  apply andb_true_iff. split; [exact Hl | exact Hq].
Qed.

Lemma model_select_state s last now cfg exps :
  forallb exp_okb exps = true ->
  let '(o, s') := model_select s last now cfg exps in
  set_hids s (o_hid o) = s' /\ (Forall wfl s -> Forall wfl s').
Proof.
  intros He. unfold model_select.
  pose proof (select_rel s last now cfg exps He) as R.
  pose proof (select_wf s last now cfg exps He) as W.
  destruct (select s last now cfg exps) as (r, s'). cbn [snd o_hid] in *.
  split; [now apply set_hids_track | exact W].
Qed.

