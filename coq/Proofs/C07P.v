(** C07P.v — the inductive invariant of the registration model and the proof that the
    model's own traces satisfy the C07 monitor, plus the state-level facts behind each
    clause of the property. *)
From Coq Require Import ZifyBool.
From Srtla Require Import Base Constants Reg Run_C07 RegP.
Ltac Zify.zify_post_hook ::= Z.div_mod_to_equations.

(** ---- bool <-> Prop bridges for the monitor's helpers ---- *)
Lemma reg1_dsts_eq : forall l, reg1_dsts l = reg1_of l.
Proof. reflexivity. Qed.
Lemma reg2_count_eq : forall l i, reg2_count l i = reg2_cnt l i.
Proof. reflexivity. Qed.

Lemma none_connected_iff : forall l, none_connected l = true <-> none_conn l.
Proof.
  induction l as [|b t IH]; cbn; split; intro H; auto; try (constructor; fail).
  - apply andb_true_iff in H as [H1 H2]. constructor; [destruct b; auto; discriminate|apply IH; auto].
  - inversion H; subst. cbn. apply IH; auto.
Qed.

Lemma conn_ok_drop : forall pre post i o, conn_drop pre post -> conn_ok i pre post o = true.
Proof.
  intros pre post i o H. revert i.
  induction H as [|a b l l' H H2 IH]; intro i; cbn; auto.
  rewrite IH, andb_true_r. destruct b; cbn; auto. rewrite H; auto.
Qed.

Lemma conn_ok_refl : forall l i o, conn_ok i l l o = true.
Proof. intros. apply conn_ok_drop. induction l; constructor; auto. Qed.

Lemma conn_ok_set_false : forall l k i o, conn_ok i l (set_nth l k false) o = true.
Proof.
  intros. apply conn_ok_drop. revert k. induction l as [|c t IH]; intro k; cbn; [constructor|].
  destruct (k =? 0); constructor; auto; try discriminate; try apply IH.
  clear. induction t; constructor; auto.
Qed.

Lemma conn_ok_set_true : forall l k i, 0 <= k -> conn_ok i l (set_nth l k true) (Some (i + k)) = true.
Proof.
  induction l as [|c t IH]; intros k i Hk; cbn; auto.
  destruct (k =? 0) eqn:E.
  - assert (k = 0) by lia; subst k. replace (i + 0 =? i) with true by lia.
    rewrite orb_true_r. cbn. apply conn_ok_refl.
  - replace (i + k) with ((i + 1) + (k - 1)) by lia. rewrite IH by lia.
    destruct c; cbn; auto.
Qed.

(** ---- well-formed events ---- *)
Definition wf_op (n : Z) (o : op) : Prop :=
  match o with
  | Ngp i t | Reg3 i t | RegErr i t | Reg2 i _ _ t => 0 <= i < n /\ 0 <= t
  | Tick t _ _ => 0 <= t
  end.

Lemma wf_opb_iff : forall n o, wf_opb n o = true <-> wf_op n o.
Proof. intros n [i t|i l g t|i t|i t|t a d]; unfold wf_opb, wf_op, in_range; lia. Qed.

(** ---- the invariant: model state + what the monitor remembers ---- *)
Record Inv (n : Z) (g : ghost) (s : st) : Prop := {
  inv_len : blen (s_conn s) = n;
  inv_out : match g_out g with
            | None => r_pending (s_reg s) = None
            | Some (j, t) => r_pending (s_reg s) = Some j /\
                             r_ptimeout (s_reg s) = t + REG2_WAIT_MS /\ 0 <= t
            end;
  inv_pend : forall j, r_pending (s_reg s) = Some j -> 0 <= j < n /\ r_target (s_reg s) = Some j;
  inv_tgt : forall j, r_target (s_reg s) = Some j -> 0 <= j < n;
  inv_wait : r_pstate (s_reg s) = PWaiting ->
             r_pending (s_reg s) = None /\ r_target (s_reg s) = None /\ 0 < n;
  inv_probes : probes_in n (r_probes (s_reg s));
  inv_active : r_active (s_reg s) = 0 -> none_conn (s_conn s);
  inv_owed : g_owed g = r_flag (s_reg s)
}.

(** the timeout the code applies at the head of a tick *)
Definition texp (r : reg) (now : Z) : bool := is_some (r_pending r) && (r_ptimeout r <=? now).

Lemma expired_texp : forall n g s now amb due, Inv n g s ->
  expired g (Tick now amb due) = texp (s_reg s) now.
Proof.
  intros n g s now amb due I. unfold expired, texp. pose proof (inv_out _ _ _ I) as H.
  destruct (g_out g) as [[j t]|].
  - destruct H as (Hp & Ht & _). rewrite Hp, Ht. reflexivity.
  - rewrite H. reflexivity.
Qed.

(** ---- one housekeeping pass ---- *)
Record TickFacts (n : Z) (s : st) (now : Z) (due : list Z) (s' : st) (out : list pkt) : Prop := {
  tf_id : r_id (s_reg s') = r_id (s_reg s);
  tf_pk : pkts_ok (r_id (s_reg s)) out;
  tf_conn : conn_drop (s_conn s) (s_conn s');
  tf_active : r_active (s_reg s') = count_true (s_conn s');
  tf_flag : r_flag (s_reg s') = false;
  tf_probes : probes_in n (r_probes (s_reg s'));
  tf_cnt : forall k, 0 <= k < n ->
           Z.b2z (r_flag (s_reg s)) <= reg2_cnt out k <= Z.b2z (r_flag (s_reg s)) + Z.b2z (memz k due);
  tf_reg1 :
    (reg1_of out = [] /\
     r_pending (s_reg s') = (if texp (s_reg s) now then None else r_pending (s_reg s)) /\
     (r_pending (s_reg s') <> None ->
      r_ptimeout (s_reg s') = r_ptimeout (s_reg s) /\ r_target (s_reg s') = r_target (s_reg s)) /\
     (texp (s_reg s) now = true -> r_target (s_reg s') = None))
    \/
    (exists j, reg1_of out = [j] /\ 0 <= j < n /\ texp (s_reg s) now = false /\
       r_pending (s_reg s') = Some j /\ r_target (s_reg s') = Some j /\
       r_ptimeout (s_reg s') = now + REG2_WAIT_MS /\
       (r_pending (s_reg s) = Some j \/
        (r_pending (s_reg s) = None /\ none_conn (s_conn s'))));
  tf_tgt : forall j, r_target (s_reg s') = Some j -> 0 <= j < n;
  tf_wait : r_pstate (s_reg s') = PWaiting ->
            r_pstate (s_reg s) = PWaiting /\ r_pending (s_reg s') = None /\ r_target (s_reg s') = None
}.

Lemma bcast_cnt_range : forall n id k, 0 <= k < n -> reg2_cnt (bcast (Z.to_nat n) 0 id) k = 1.
Proof. intros. destruct (bcast_spec (Z.to_nat n) 0 id) as (_ & _ & H1). rewrite H1. rewrite Z2Nat.id by lia. b2z_lia. Qed.

(** the part of a pass after the per-link loop: recount, driver, sends *)
Definition tick_tail (n : Z) (r2 : reg) (conn2 : list bool) (o_loop : list pkt) (now : Z) : st * list pkt :=
  let r3 := update_active r2 conn2 in
  let '(r4, s1, b) := reg_driver r3 now in
  let o_reg1 := match s1 with
                | Some idx => if in_range n idx then [(K_REG1, idx, r_id r3)] else []
                | None => []
                end in
  let o_b := match b with Some id => bcast (Z.to_nat n) 0 id | None => [] end in
  (mkSt r4 conn2, o_loop ++ o_reg1 ++ o_b).

Ltac rsimpl_in T :=
  cbn [r_active r_target r_flag r_id r_pending r_ptimeout r_next r_hasconn
       r_pstate r_pid r_probes s_reg s_conn fst snd] in T.
Ltac rsimpl :=
  cbn [r_active r_target r_flag r_id r_pending r_ptimeout r_next r_hasconn
       r_pstate r_pid r_probes s_reg s_conn fst snd].

Lemma tick_unfold : forall s now amb due,
  tick s now amb due =
  let r0 := clear_pending_if_timed_out (s_reg s) now in
  let r1 := if is_probing r0 then check_probing_complete r0 amb else r0 in
  let '(r2, conn2, o_loop) := tick_loop due now 0 (s_conn s) r1 in
  tick_tail (blen (s_conn s)) r2 conn2 o_loop now.
Proof. reflexivity. Qed.

Lemma tick_tail_facts : forall n r2 conn2 o_loop now s' out,
  (forall j, r_target r2 = Some j -> 0 <= j < n) ->
  tick_tail n r2 conn2 o_loop now = (s', out) ->
  s_conn s' = conn2 /\ r_id (s_reg s') = r_id r2 /\ r_active (s_reg s') = count_true conn2 /\
  r_flag (s_reg s') = false /\ r_probes (s_reg s') = r_probes r2 /\
  r_pstate (s_reg s') = r_pstate r2 /\ r_target (s_reg s') = r_target r2 /\
  exists o_reg1,
    out = o_loop ++ o_reg1 ++ (if r_flag r2 then bcast (Z.to_nat n) 0 (r_id r2) else []) /\
    ((o_reg1 = [] /\ r_pending (s_reg s') = r_pending r2 /\ r_ptimeout (s_reg s') = r_ptimeout r2) \/
     (exists j, o_reg1 = [(K_REG1, j, r_id r2)] /\ r_target r2 = Some j /\ r_pending r2 = None /\
                count_true conn2 = 0 /\
                r_pending (s_reg s') = Some j /\ r_ptimeout (s_reg s') = now + REG2_WAIT_MS)).
Proof.
  intros n r2 conn2 o_loop now s' out Ht T. unfold tick_tail, reg_driver, update_active in T.
  rsimpl_in T.
  destruct (count_true conn2 =? 0) eqn:Ea.
  - destruct (r_target r2) as [idx|] eqn:Et.
    + destruct (is_none (r_pending r2) && (r_next r2 <=? now)) eqn:Ec.
      * apply andb_true_iff in Ec as [Ec1 Ec2]. apply is_none_true in Ec1.
        assert (Hr : in_range n idx = true) by (unfold in_range; specialize (Ht idx eq_refl); lia).
        destruct (r_flag r2) eqn:Ef; rsimpl_in T; rewrite ?Ef in T; rsimpl_in T; rewrite Hr in T; inversion T; subst; rsimpl;
        repeat (split; [reflexivity|]); exists [(K_REG1, idx, r_id r2)]; (split; [reflexivity|]); right; exists idx;
        repeat (split; [first [reflexivity|assumption|lia]|]); reflexivity.
      * destruct (r_flag r2) eqn:Ef; rsimpl_in T; rewrite ?Ef in T; rsimpl_in T; inversion T; subst; rsimpl;
        repeat (split; [first [reflexivity|assumption]|]); exists []; (split; [reflexivity|]); left; repeat split; reflexivity.
    + destruct (r_flag r2) eqn:Ef; rsimpl_in T; rewrite ?Ef in T; rsimpl_in T; inversion T; subst; rsimpl;
      repeat (split; [first [reflexivity|assumption]|]); exists []; (split; [reflexivity|]); left; repeat split; reflexivity.
  - destruct (r_flag r2) eqn:Ef; rsimpl_in T; rewrite ?Ef in T; rsimpl_in T; inversion T; subst; rsimpl;
    repeat (split; [first [reflexivity|assumption]|]); exists []; (split; [reflexivity|]); left; repeat split; reflexivity.
Qed.

Lemma is_probing_iff : forall r, is_probing r = true <-> r_pstate r = PWaiting.
Proof. intro r; unfold is_probing; destruct (r_pstate r); cbn; split; congruence. Qed.

(** the probing-completion step of a pass *)
Lemma cpc_facts : forall n r amb,
  probes_in n (r_probes r) ->
  (r_pstate r = PWaiting -> 0 < n /\ r_target r = None) ->
  (forall j, r_target r = Some j -> 0 <= j < n) ->
  let r1 := if is_probing r then check_probing_complete r amb else r in
  r_pending r1 = r_pending r /\ r_id r1 = r_id r /\ r_flag r1 = r_flag r /\
  r_probes r1 = r_probes r /\
  (forall j, r_target r1 = Some j -> 0 <= j < n) /\
  (r_pstate r1 = PWaiting -> r_pstate r = PWaiting /\ r_target r1 = None).
Proof.
  intros n r amb Hp Hw Ht. cbv zeta. destruct (is_probing r) eqn:Ep.
  - apply is_probing_iff in Ep. destruct (Hw Ep) as (Hn & Htn).
    unfold check_probing_complete. rewrite Ep. cbn [pstate_eqb negb].
    destruct (forallb _ _ || _).
    + rsimpl. repeat (split; [reflexivity|]). split.
      * intros j Hj. inversion Hj; subst. destruct (best_probe (r_probes r) None) as [[idx rt]|] eqn:Eb; [|lia].
        eapply best_probe_in; [exact Hp| |exact Eb]. intros; discriminate.
      * intro; discriminate.
    + repeat (split; [reflexivity|]). split; auto.
  - repeat (split; [reflexivity|]). split; auto. intro W. apply is_probing_iff in W. congruence.
Qed.

Lemma tick_facts : forall n g s now amb due s' out,
  Inv n g s -> 0 <= now -> tick s now amb due = (s', out) -> TickFacts n s now due s' out.
Proof.
  intros n g [r conn] now amb due s' out I Hnow T.
  pose proof (inv_len _ _ _ I) as Ilen. pose proof (inv_pend _ _ _ I) as Ipend.
  pose proof (inv_tgt _ _ _ I) as Itgt. pose proof (inv_wait _ _ _ I) as Iwait.
  pose proof (inv_probes _ _ _ I) as Iprob. pose proof (inv_out _ _ _ I) as Iout.
  cbn [s_reg s_conn] in *.
  rewrite tick_unfold in T. cbn [s_reg s_conn] in T. cbv zeta in T. rewrite Ilen in T.
  destruct (r_pending r) as [j|] eqn:Hp.
  - (* a REG1 is outstanding on j *)
    destruct (Ipend j eq_refl) as (Hj & Htj).
    assert (Hnw : r_pstate r <> PWaiting) by (intro W; destruct (Iwait W); discriminate).
    assert (Hpt : 0 < r_ptimeout r).
    { destruct (g_out g) as [[j' t]|]; [|discriminate]. destruct Iout as (_ & E & Ht). rewrite E.
      pose proof REG2_WAIT_pos. lia. }
    unfold clear_pending_if_timed_out in T. rewrite Hp in T.
    replace (r_ptimeout r =? 0) with false in T by lia. cbn [negb andb is_some is_none] in *.
    destruct (r_ptimeout r <=? now) eqn:Ex.
    + (* abandoned *)
      assert (Etx : texp r now = true) by (unfold texp; rewrite Hp, Ex; reflexivity).
      set (r0 := mkReg _ _ _ _ _ _ _ _ _ _ _) in T.
      assert (Hnp : is_probing r0 = false) by (unfold is_probing, r0; cbn; destruct (r_pstate r); auto; congruence).
      rewrite Hnp in T.
      destruct (tick_loop_none due now conn 0 r0 eq_refl) as (conn2 & o & E & R1 & PK & R2).
      rewrite E in T.
      pose proof (tick_loop_conn _ _ _ _ _ _ _ _ E) as Hc.
      apply tick_tail_facts in T; [|intros j0 Hj0; discriminate].
      destruct T as (Tc & Tid & Tact & Tfl & Tpr & Tps & Ttg & o1 & Eo & [(Eo1 & Tp & Tpt)|(j0 & _ & Ej0 & _)]); [|discriminate].
      subst o1 out. cbn [app]. unfold r0 in *; rsimpl_in Tid; rsimpl_in Tpr; rsimpl_in Tps; rsimpl_in Ttg; rsimpl_in Tp; rsimpl_in PK.
      constructor; cbn [s_reg s_conn]; rsimpl; rewrite ?Etx.
      * exact Tid.
      * apply pkts_ok_app; auto. destruct (r_flag r); [apply bcast_spec|constructor].
      * rewrite Tc; exact Hc.
      * rewrite Tc; exact Tact.
      * exact Tfl.
      * rewrite Tpr; exact Iprob.
      * intros k Hk. rewrite reg2_cnt_app, R2, Ilen. destruct (r_flag r).
        -- rewrite bcast_cnt_range by lia. b2z_lia.
        -- rewrite reg2_cnt_nil. b2z_lia.
      * left. split; [|split; [|split]].
        -- rewrite reg1_of_app, R1. destruct (r_flag r); [apply bcast_spec|reflexivity].
        -- exact Tp.
        -- rewrite Tp; congruence.
        -- intros _; exact Ttg.
      * rewrite Ttg; intros; discriminate.
      * rewrite Tps; intro; contradiction.
    + (* still within its 4 s *)
      assert (Etx : texp r now = false) by (unfold texp; rewrite Hp, Ex; reflexivity).
      assert (Hnp : is_probing r = false) by (unfold is_probing; destruct (r_pstate r); auto; congruence).
      rewrite Hnp in T.
      destruct (tick_loop_some due now conn 0 r j Hp ltac:(lia)) as (conn2 & E).
      destruct (memz j due) eqn:Mj.
      * rewrite E in T. pose proof (tick_loop_conn _ _ _ _ _ _ _ _ E) as Hc.
        cbn [build_reg1_for fst] in T. set (r' := mkReg _ _ _ _ _ _ _ _ _ _ _) in T.
        apply tick_tail_facts in T; [|unfold r'; rsimpl; intros j0 Hj0; inversion Hj0; subst; lia].
        destruct T as (Tc & Tid & Tact & Tfl & Tpr & Tps & Ttg & o1 & Eo & [(Eo1 & Tp & Tpt)|(j0 & _ & _ & Ej0 & _)]); [|discriminate].
        subst o1 out. cbn [app]. unfold r' in *; rsimpl_in Tid; rsimpl_in Tpr; rsimpl_in Tps; rsimpl_in Ttg; rsimpl_in Tp; rsimpl_in Tpt.
        constructor; cbn [s_reg s_conn]; rsimpl; rewrite ?Etx.
        -- exact Tid.
        -- constructor; [cbn; auto|]. destruct (r_flag r); [apply bcast_spec|constructor].
        -- rewrite Tc; exact Hc.
        -- rewrite Tc; exact Tact.
        -- exact Tfl.
        -- rewrite Tpr; exact Iprob.
        -- intros k Hk. rewrite reg2_cnt_cons. change (reg2_cnt [(K_REG1, j, r_id r)] k) with 0. destruct (r_flag r).
           ++ rewrite bcast_cnt_range by lia. b2z_lia.
           ++ rewrite reg2_cnt_nil. b2z_lia.
        -- right. exists j. split; [|repeat (split; [first [assumption|reflexivity|lia]|]); left; exact Hp].
           change ((K_REG1, j, r_id r) :: ?l) with ([(K_REG1, j, r_id r)] ++ l). rewrite reg1_of_app.
           destruct (r_flag r); [destruct (bcast_spec (Z.to_nat n) 0 (r_id r)) as (B1 & _); rewrite B1|]; reflexivity.
        -- rewrite Ttg; intros j0 Hj0; inversion Hj0; subst; lia.
        -- rewrite Tps; intro; contradiction.
      * rewrite E in T. pose proof (tick_loop_conn _ _ _ _ _ _ _ _ E) as Hc.
        apply tick_tail_facts in T; [|exact Itgt].
        destruct T as (Tc & Tid & Tact & Tfl & Tpr & Tps & Ttg & o1 & Eo & [(Eo1 & Tp & Tpt)|(j0 & _ & _ & Ej0 & _)]); [|congruence].
        subst o1 out. cbn [app].
        constructor; cbn [s_reg s_conn]; rsimpl; rewrite ?Etx.
        -- exact Tid.
        -- destruct (r_flag r); [apply bcast_spec|constructor].
        -- rewrite Tc; exact Hc.
        -- rewrite Tc; exact Tact.
        -- exact Tfl.
        -- rewrite Tpr; exact Iprob.
        -- intros k Hk. destruct (r_flag r).
           ++ rewrite bcast_cnt_range by lia. b2z_lia.
           ++ rewrite reg2_cnt_nil. b2z_lia.
        -- left. split; [|split; [|split]].
           ++ destruct (r_flag r); [apply bcast_spec|reflexivity].
           ++ rewrite Tp; reflexivity.
           ++ intros _. split; assumption.
           ++ discriminate.
        -- rewrite Ttg; exact Itgt.
        -- rewrite Tps; intro; contradiction.
  - (* nothing outstanding *)
    unfold clear_pending_if_timed_out in T. rewrite Hp in T.
    assert (Etx : texp r now = false) by (unfold texp; rewrite Hp; reflexivity).
    pose proof (cpc_facts n r amb Iprob ltac:(intro W; destruct (Iwait W) as (_ & ? & ?); auto) Itgt) as C.
    cbv zeta in C. set (r1 := if is_probing r then _ else r) in *.
    destruct C as (Cp & Cid & Cfl & Cpr & Ctg & Cw). rewrite Hp in Cp.
    destruct (tick_loop_none due now conn 0 r1 Cp) as (conn2 & o & E & R1 & PK & R2).
    rewrite E in T. pose proof (tick_loop_conn _ _ _ _ _ _ _ _ E) as Hc.
    apply tick_tail_facts in T; [|exact Ctg].
    destruct T as (Tc & Tid & Tact & Tfl & Tpr & Tps & Ttg & o1 & Eo & Hd).
    rewrite Cfl, Cid in Eo. rewrite Cid in PK.
    assert (Hcnt : forall k, 0 <= k < n ->
              Z.b2z (r_flag r) <= reg2_cnt (o ++ (if r_flag r then bcast (Z.to_nat n) 0 (r_id r) else [])) k
              <= Z.b2z (r_flag r) + Z.b2z (memz k due)).
    { intros k Hk. rewrite reg2_cnt_app, R2, Ilen. destruct (r_flag r).
      - rewrite bcast_cnt_range by lia. b2z_lia.
      - rewrite reg2_cnt_nil. b2z_lia. }
    destruct Hd as [(Eo1 & Tp & Tpt)|(j0 & Eo1 & Etg & _ & Ecnt & Tp & Tpt)]; subst o1 out.
    + cbn [app] in *. constructor; cbn [s_reg s_conn]; rsimpl; rewrite ?Etx.
      * congruence.
      * apply pkts_ok_app; auto. destruct (r_flag r); [apply bcast_spec|constructor].
      * rewrite Tc; exact Hc.
      * rewrite Tc; exact Tact.
      * exact Tfl.
      * rewrite Tpr, Cpr; exact Iprob.
      * exact Hcnt.
      * left. split; [|split; [|split]].
        -- rewrite reg1_of_app, R1. destruct (r_flag r); [apply bcast_spec|reflexivity].
        -- congruence.
        -- rewrite Tp, Cp; congruence.
        -- discriminate.
      * rewrite Ttg; exact Ctg.
      * rewrite Tps; intro W. destruct (Cw W) as (W1 & W2). split; [auto|split; congruence].
    + constructor; cbn [s_reg s_conn]; rsimpl; rewrite ?Etx.
      * congruence.
      * apply pkts_ok_app; auto. constructor; [cbn; rewrite Cid; auto|]. destruct (r_flag r); [apply bcast_spec|constructor].
      * rewrite Tc; exact Hc.
      * rewrite Tc; exact Tact.
      * exact Tfl.
      * rewrite Tpr, Cpr; exact Iprob.
      * intros k Hk. specialize (Hcnt k Hk). rewrite reg2_cnt_app in *. rewrite reg2_cnt_app.
        change (reg2_cnt [(K_REG1, j0, r_id r1)] k) with 0. lia.
      * right. exists j0. split; [|split; [apply Ctg; exact Etg|]].
        -- rewrite reg1_of_app, R1. change ((K_REG1, j0, r_id r1) :: ?l) with ([(K_REG1, j0, r_id r1)] ++ l).
           rewrite reg1_of_app. destruct (r_flag r); [destruct (bcast_spec (Z.to_nat n) 0 (r_id r)) as (B1 & _); rewrite B1|]; reflexivity.
        -- split; [reflexivity|]. split; [exact Tp|]. split; [congruence|]. split; [exact Tpt|].
           right. split; [exact Hp|]. rewrite Tc. apply count_true_zero; exact Ecnt.
      * rewrite Ttg; exact Ctg.
      * rewrite Tps; intro W. destruct (Cw W) as (W1 & W2). congruence.
Qed.
