(** C07P.v — the inductive invariant of the registration model and the proof that the
    model's own traces satisfy the C07 monitor, plus the state-level facts behind each
    clause of the property. *)
From Coq Require Import ZifyBool.
From Srtla Require Import Base Constants Reg Run_C07 RegP.
Ltac Zify.zify_post_hook ::= Z.div_mod_to_equations.

(** ---- bool <-> Prop bridges for the monitor's helpers ---- *)
Lemma reg1_dsts_eq : forall l, reg1_dsts l = reg1_of l.
Proof. reflexivity. Qed.
Lemma reg2_count_eq : forall l i, reg2_count l i = reg2_cnt l i.
Proof. reflexivity. Qed.

Lemma none_connected_iff : forall l, none_connected l = true <-> none_conn l.
Proof.
  induction l as [|b t IH]; cbn; split; intro H; auto; try (constructor; fail).
  - apply andb_true_iff in H as [H1 H2]. constructor; [destruct b; auto; discriminate|apply IH; auto].
  - inversion H; subst. cbn. apply IH; auto.
Qed.

Lemma conn_ok_drop : forall pre post i o, conn_drop pre post -> conn_ok i pre post o = true.
Proof.
  intros pre post i o H. revert i.
  induction H as [|a b l l' H H2 IH]; intro i; cbn; auto.
  rewrite IH, andb_true_r. destruct b; cbn; auto. rewrite H; auto.
Qed.

Lemma conn_ok_refl : forall l i o, conn_ok i l l o = true.
Proof. intros. apply conn_ok_drop. induction l; constructor; auto. Qed.

Lemma conn_ok_set_false : forall l k i o, conn_ok i l (set_nth l k false) o = true.
Proof.
  intros. apply conn_ok_drop. revert k. induction l as [|c t IH]; intro k; cbn; [constructor|].
  destruct (k =? 0); constructor; auto; try discriminate; try apply IH.
  clear. induction t; constructor; auto.
Qed.

Lemma conn_ok_set_true : forall l k i, 0 <= k -> conn_ok i l (set_nth l k true) (Some (i + k)) = true.
Proof.
  induction l as [|c t IH]; intros k i Hk; cbn; auto.
  destruct (k =? 0) eqn:E.
  - assert (k = 0) by lia; subst k. replace (i + 0 =? i) with true by lia.
    rewrite orb_true_r. cbn. apply conn_ok_refl.
  - replace (i + k) with ((i + 1) + (k - 1)) by lia. rewrite IH by lia.
    destruct c; cbn; auto.
Qed.

(** ---- well-formed events ---- *)
Definition wf_op (n : Z) (o : op) : Prop :=
  match o with
  | Ngp i t | Reg3 i t | RegErr i t | Reg2 i _ _ t => 0 <= i < n /\ 0 <= t
  | Tick t _ _ => 0 <= t
  end.

Lemma wf_opb_iff : forall n o, wf_opb n o = true <-> wf_op n o.
Proof. intros n [i t|i l g t|i t|i t|t a d]; unfold wf_opb, wf_op, in_range; lia. Qed.

(** ---- the invariant: model state + what the monitor remembers ---- *)
Record Inv (n : Z) (g : ghost) (s : st) : Prop := {
  inv_len : blen (s_conn s) = n;
  inv_out : match g_out g with
            | None => r_pending (s_reg s) = None
            | Some (j, t) => r_pending (s_reg s) = Some j /\
                             r_ptimeout (s_reg s) = t + REG2_WAIT_MS /\ 0 <= t
            end;
  inv_pend : forall j, r_pending (s_reg s) = Some j -> 0 <= j < n /\ r_target (s_reg s) = Some j;
  inv_tgt : forall j, r_target (s_reg s) = Some j -> 0 <= j < n;
  inv_wait : r_pstate (s_reg s) = PWaiting ->
             r_pending (s_reg s) = None /\ r_target (s_reg s) = None /\ 0 < n;
  inv_probes : probes_in n (r_probes (s_reg s));
  inv_active : r_active (s_reg s) = 0 -> none_conn (s_conn s);
  inv_owed : g_owed g = r_flag (s_reg s)
}.

(** the timeout the code applies at the head of a tick *)
Definition texp (r : reg) (now : Z) : bool := is_some (r_pending r) && (r_ptimeout r <=? now).

Lemma expired_texp : forall n g s now amb due, Inv n g s ->
  expired g (Tick now amb due) = texp (s_reg s) now.
Proof.
  intros n g s now amb due I. unfold expired, texp.
  change TEXT_TIMEOUT_MS with REG2_WAIT_MS.   (* the code's constant is the 4 s of the text *)
  pose proof (inv_out _ _ _ I) as H.
  destruct (g_out g) as [[j t]|].
  - destruct H as (Hp & Ht & _). rewrite Hp, Ht. reflexivity.
  - rewrite H. reflexivity.
Qed.

(** ---- one housekeeping pass ---- *)
Record TickFacts (n : Z) (s : st) (now : Z) (due : list Z) (s' : st) (out : list pkt) : Prop := {
  tf_id : r_id (s_reg s') = r_id (s_reg s);
  tf_pk : pkts_ok (r_id (s_reg s)) out;
  tf_conn : conn_drop (s_conn s) (s_conn s');
  tf_active : r_active (s_reg s') = count_true (s_conn s');
  tf_flag : r_flag (s_reg s') = false;
  tf_probes : probes_in n (r_probes (s_reg s'));
  tf_cnt : forall k, 0 <= k < n ->
           Z.b2z (r_flag (s_reg s)) <= reg2_cnt out k <= Z.b2z (r_flag (s_reg s)) + Z.b2z (memz k due);
  tf_reg1 :
    (reg1_of out = [] /\
     r_pending (s_reg s') = (if texp (s_reg s) now then None else r_pending (s_reg s)) /\
     (r_pending (s_reg s') <> None ->
      r_ptimeout (s_reg s') = r_ptimeout (s_reg s) /\ r_target (s_reg s') = r_target (s_reg s)) /\
     (texp (s_reg s) now = true -> r_target (s_reg s') = None))
    \/
    (exists j, reg1_of out = [j] /\ 0 <= j < n /\ texp (s_reg s) now = false /\
       r_pending (s_reg s') = Some j /\ r_target (s_reg s') = Some j /\
       r_ptimeout (s_reg s') = now + REG2_WAIT_MS /\
       (r_pending (s_reg s) = Some j \/
        (r_pending (s_reg s) = None /\ none_conn (s_conn s'))));
  tf_tgt : forall j, r_target (s_reg s') = Some j -> 0 <= j < n;
  tf_wait : r_pstate (s_reg s') = PWaiting ->
            r_pstate (s_reg s) = PWaiting /\ r_pending (s_reg s') = None /\ r_target (s_reg s') = None
}.

Lemma bcast_cnt_range : forall n id k, 0 <= k < n -> reg2_cnt (bcast (Z.to_nat n) 0 id) k = 1.
Proof. intros. destruct (bcast_spec (Z.to_nat n) 0 id) as (_ & _ & H1). rewrite H1. rewrite Z2Nat.id by lia. b2z_lia. Qed.

(** the part of a pass after the per-link loop: recount, driver, sends *)
Definition tick_tail (n : Z) (r2 : reg) (conn2 : list bool) (o_loop : list pkt) (now : Z) : st * list pkt :=
  let r3 := update_active r2 conn2 in
  let '(r4, s1, b) := reg_driver r3 now in
  let o_reg1 := match s1 with
                | Some idx => if in_range n idx then [(K_REG1, idx, r_id r3)] else []
                | None => []
                end in
  let o_b := match b with Some id => bcast (Z.to_nat n) 0 id | None => [] end in
  (mkSt r4 conn2, o_loop ++ o_reg1 ++ o_b).

Ltac rsimpl_in T :=
  cbn [r_active r_target r_flag r_id r_pending r_ptimeout r_next r_hasconn
       r_pstate r_pid r_probes s_reg s_conn fst snd] in T.
Ltac rsimpl :=
  cbn [r_active r_target r_flag r_id r_pending r_ptimeout r_next r_hasconn
       r_pstate r_pid r_probes s_reg s_conn fst snd].

Lemma tick_unfold : forall s now amb due,
  tick s now amb due =
  let r0 := clear_pending_if_timed_out (s_reg s) now in
  let r1 := if is_probing r0 then check_probing_complete r0 amb else r0 in
  let '(r2, conn2, o_loop) := tick_loop due now 0 (s_conn s) r1 in
  tick_tail (blen (s_conn s)) r2 conn2 o_loop now.
Proof. reflexivity. Qed.

Lemma tick_tail_facts : forall n r2 conn2 o_loop now s' out,
  (forall j, r_target r2 = Some j -> 0 <= j < n) ->
  tick_tail n r2 conn2 o_loop now = (s', out) ->
  s_conn s' = conn2 /\ r_id (s_reg s') = r_id r2 /\ r_active (s_reg s') = count_true conn2 /\
  r_flag (s_reg s') = false /\ r_probes (s_reg s') = r_probes r2 /\
  r_pstate (s_reg s') = r_pstate r2 /\ r_target (s_reg s') = r_target r2 /\
  exists o_reg1,
    out = o_loop ++ o_reg1 ++ (if r_flag r2 then bcast (Z.to_nat n) 0 (r_id r2) else []) /\
    ((o_reg1 = [] /\ r_pending (s_reg s') = r_pending r2 /\ r_ptimeout (s_reg s') = r_ptimeout r2) \/
     (exists j, o_reg1 = [(K_REG1, j, r_id r2)] /\ r_target r2 = Some j /\ r_pending r2 = None /\
                count_true conn2 = 0 /\
                r_pending (s_reg s') = Some j /\ r_ptimeout (s_reg s') = now + REG2_WAIT_MS)).
Proof.
  intros n r2 conn2 o_loop now s' out Ht T. unfold tick_tail, reg_driver, update_active in T.
  rsimpl_in T.
  destruct (count_true conn2 =? 0) eqn:Ea.
  - destruct (r_target r2) as [idx|] eqn:Et.
    + destruct (is_none (r_pending r2) && (r_next r2 <=? now)) eqn:Ec.
      * apply andb_true_iff in Ec as [Ec1 Ec2]. apply is_none_true in Ec1.
        assert (Hr : in_range n idx = true) by (unfold in_range; specialize (Ht idx eq_refl); lia).
        destruct (r_flag r2) eqn:Ef; rsimpl_in T; rewrite ?Ef in T; rsimpl_in T; rewrite Hr in T; inversion T; subst; rsimpl;
        repeat (split; [reflexivity|]); exists [(K_REG1, idx, r_id r2)]; (split; [reflexivity|]); right; exists idx;
        repeat (split; [first [reflexivity|assumption|lia]|]); reflexivity.
      * destruct (r_flag r2) eqn:Ef; rsimpl_in T; rewrite ?Ef in T; rsimpl_in T; inversion T; subst; rsimpl;
        repeat (split; [first [reflexivity|assumption]|]); exists []; (split; [reflexivity|]); left; repeat split; reflexivity.
    + destruct (r_flag r2) eqn:Ef; rsimpl_in T; rewrite ?Ef in T; rsimpl_in T; inversion T; subst; rsimpl;
      repeat (split; [first [reflexivity|assumption]|]); exists []; (split; [reflexivity|]); left; repeat split; reflexivity.
  - destruct (r_flag r2) eqn:Ef; rsimpl_in T; rewrite ?Ef in T; rsimpl_in T; inversion T; subst; rsimpl;
    repeat (split; [first [reflexivity|assumption]|]); exists []; (split; [reflexivity|]); left; repeat split; reflexivity.
Qed.

Lemma is_probing_iff : forall r, is_probing r = true <-> r_pstate r = PWaiting.
Proof. intro r; unfold is_probing; destruct (r_pstate r); cbn; split; congruence. Qed.

(** the probing-completion step of a pass *)
Lemma cpc_facts : forall n r amb,
  probes_in n (r_probes r) ->
  (r_pstate r = PWaiting -> 0 < n /\ r_target r = None) ->
  (forall j, r_target r = Some j -> 0 <= j < n) ->
  let r1 := if is_probing r then check_probing_complete r amb else r in
  r_pending r1 = r_pending r /\ r_id r1 = r_id r /\ r_flag r1 = r_flag r /\
  r_probes r1 = r_probes r /\
  (forall j, r_target r1 = Some j -> 0 <= j < n) /\
  (r_pstate r1 = PWaiting -> r_pstate r = PWaiting /\ r_target r1 = None).
Proof.
  intros n r amb Hp Hw Ht. cbv zeta. destruct (is_probing r) eqn:Ep.
  - apply is_probing_iff in Ep. destruct (Hw Ep) as (Hn & Htn).
    unfold check_probing_complete. rewrite Ep. cbn [pstate_eqb negb].
    destruct (forallb _ _ || _).
    + rsimpl. repeat (split; [reflexivity|]). split.
      * intros j Hj. inversion Hj; subst. destruct (best_probe (r_probes r) None) as [[idx rt]|] eqn:Eb; [|lia].
        eapply best_probe_in; [exact Hp| |exact Eb]. intros; discriminate.
      * intro; discriminate.
    + repeat (split; [reflexivity|]). split; auto.
  - repeat (split; [reflexivity|]). split; auto. intro W. apply is_probing_iff in W. congruence.
Qed.

Lemma tick_facts : forall n g s now amb due s' out,
  Inv n g s -> 0 <= now -> tick s now amb due = (s', out) -> TickFacts n s now due s' out.
Proof.
  intros n g [r conn] now amb due s' out I Hnow T.
  pose proof (inv_len _ _ _ I) as Ilen. pose proof (inv_pend _ _ _ I) as Ipend.
  pose proof (inv_tgt _ _ _ I) as Itgt. pose proof (inv_wait _ _ _ I) as Iwait.
  pose proof (inv_probes _ _ _ I) as Iprob. pose proof (inv_out _ _ _ I) as Iout.
  cbn [s_reg s_conn] in *.
  rewrite tick_unfold in T. cbn [s_reg s_conn] in T. cbv zeta in T. rewrite Ilen in T.
  destruct (r_pending r) as [j|] eqn:Hp.
  - (* a REG1 is outstanding on j *)
    destruct (Ipend j eq_refl) as (Hj & Htj).
    assert (Hnw : r_pstate r <> PWaiting) by (intro W; destruct (Iwait W); discriminate).
    assert (Hpt : 0 < r_ptimeout r).
    { destruct (g_out g) as [[j' t]|]; [|discriminate]. destruct Iout as (_ & E & Ht). rewrite E.
      pose proof REG2_WAIT_pos. lia. }
    unfold clear_pending_if_timed_out in T. rewrite Hp in T.
    replace (r_ptimeout r =? 0) with false in T by lia. cbn [negb andb is_some is_none] in *.
    destruct (r_ptimeout r <=? now) eqn:Ex.
    + (* abandoned *)
      assert (Etx : texp r now = true) by (unfold texp; rewrite Hp, Ex; reflexivity).
      set (r0 := mkReg _ _ _ _ _ _ _ _ _ _ _) in T.
      assert (Hnp : is_probing r0 = false) by (unfold is_probing, r0; cbn; destruct (r_pstate r); auto; congruence).
      rewrite Hnp in T.
      destruct (tick_loop_none due now conn 0 r0 eq_refl) as (conn2 & o & E & R1 & PK & R2).
      rewrite E in T.
      pose proof (tick_loop_conn _ _ _ _ _ _ _ _ E) as Hc.
      apply tick_tail_facts in T; [|intros j0 Hj0; discriminate].
      destruct T as (Tc & Tid & Tact & Tfl & Tpr & Tps & Ttg & o1 & Eo & [(Eo1 & Tp & Tpt)|(j0 & _ & Ej0 & _)]); [|discriminate].
      subst o1 out. cbn [app]. unfold r0 in *; rsimpl_in Tid; rsimpl_in Tpr; rsimpl_in Tps; rsimpl_in Ttg; rsimpl_in Tp; rsimpl_in PK.
      constructor; cbn [s_reg s_conn]; rsimpl; rewrite ?Etx.
      * exact Tid.
      * apply pkts_ok_app; auto. destruct (r_flag r); [apply bcast_spec|constructor].
      * rewrite Tc; exact Hc.
      * rewrite Tc; exact Tact.
      * exact Tfl.
      * rewrite Tpr; exact Iprob.
      * intros k Hk. rewrite reg2_cnt_app, R2, Ilen. destruct (r_flag r).
        -- rewrite bcast_cnt_range by lia. b2z_lia.
        -- rewrite reg2_cnt_nil. b2z_lia.
      * left. split; [|split; [|split]].
        -- rewrite reg1_of_app, R1. destruct (r_flag r); [apply bcast_spec|reflexivity].
        -- exact Tp.
        -- rewrite Tp; congruence.
        -- intros _; exact Ttg.
      * rewrite Ttg; intros; discriminate.
      * rewrite Tps; intro; contradiction.
    + (* still within its 4 s *)
      assert (Etx : texp r now = false) by (unfold texp; rewrite Hp, Ex; reflexivity).
      assert (Hnp : is_probing r = false) by (unfold is_probing; destruct (r_pstate r); auto; congruence).
      rewrite Hnp in T.
      destruct (tick_loop_some due now conn 0 r j Hp ltac:(lia)) as (conn2 & E).
      destruct (memz j due) eqn:Mj.
      * rewrite E in T. pose proof (tick_loop_conn _ _ _ _ _ _ _ _ E) as Hc.
        cbn [build_reg1_for fst] in T. set (r' := mkReg _ _ _ _ _ _ _ _ _ _ _) in T.
        apply tick_tail_facts in T; [|unfold r'; rsimpl; intros j0 Hj0; inversion Hj0; subst; lia].
        destruct T as (Tc & Tid & Tact & Tfl & Tpr & Tps & Ttg & o1 & Eo & [(Eo1 & Tp & Tpt)|(j0 & _ & _ & Ej0 & _)]); [|discriminate].
        subst o1 out. cbn [app]. unfold r' in *; rsimpl_in Tid; rsimpl_in Tpr; rsimpl_in Tps; rsimpl_in Ttg; rsimpl_in Tp; rsimpl_in Tpt.
        constructor; cbn [s_reg s_conn]; rsimpl; rewrite ?Etx.
        -- exact Tid.
        -- constructor; [cbn; auto|]. destruct (r_flag r); [apply bcast_spec|constructor].
        -- rewrite Tc; exact Hc.
        -- rewrite Tc; exact Tact.
        -- exact Tfl.
        -- rewrite Tpr; exact Iprob.
        -- intros k Hk. rewrite reg2_cnt_cons. change (reg2_cnt [(K_REG1, j, r_id r)] k) with 0. destruct (r_flag r).
           ++ rewrite bcast_cnt_range by lia. b2z_lia.
           ++ rewrite reg2_cnt_nil. b2z_lia.
        -- right. exists j. split; [|repeat (split; [first [assumption|reflexivity|lia]|]); left; exact Hp].
           change ((K_REG1, j, r_id r) :: ?l) with ([(K_REG1, j, r_id r)] ++ l). rewrite reg1_of_app.
           destruct (r_flag r); [destruct (bcast_spec (Z.to_nat n) 0 (r_id r)) as (B1 & _); rewrite B1|]; reflexivity.
        -- rewrite Ttg; intros j0 Hj0; inversion Hj0; subst; lia.
        -- rewrite Tps; intro; contradiction.
      * rewrite E in T. pose proof (tick_loop_conn _ _ _ _ _ _ _ _ E) as Hc.
        apply tick_tail_facts in T; [|exact Itgt].
        destruct T as (Tc & Tid & Tact & Tfl & Tpr & Tps & Ttg & o1 & Eo & [(Eo1 & Tp & Tpt)|(j0 & _ & _ & Ej0 & _)]); [|congruence].
        subst o1 out. cbn [app].
        constructor; cbn [s_reg s_conn]; rsimpl; rewrite ?Etx.
        -- exact Tid.
        -- destruct (r_flag r); [apply bcast_spec|constructor].
        -- rewrite Tc; exact Hc.
        -- rewrite Tc; exact Tact.
        -- exact Tfl.
        -- rewrite Tpr; exact Iprob.
        -- intros k Hk. destruct (r_flag r).
           ++ rewrite bcast_cnt_range by lia. b2z_lia.
           ++ rewrite reg2_cnt_nil. b2z_lia.
        -- left. split; [|split; [|split]].
           ++ destruct (r_flag r); [apply bcast_spec|reflexivity].
           ++ rewrite Tp; reflexivity.
           ++ intros _. split; assumption.
           ++ discriminate.
        -- rewrite Ttg; exact Itgt.
        -- rewrite Tps; intro; contradiction.
  - (* nothing outstanding *)
    unfold clear_pending_if_timed_out in T. rewrite Hp in T.
    assert (Etx : texp r now = false) by (unfold texp; rewrite Hp; reflexivity).
    pose proof (cpc_facts n r amb Iprob ltac:(intro W; destruct (Iwait W) as (_ & ? & ?); auto) Itgt) as C.
    cbv zeta in C. set (r1 := if is_probing r then _ else r) in *.
    destruct C as (Cp & Cid & Cfl & Cpr & Ctg & Cw). rewrite Hp in Cp.
    destruct (tick_loop_none due now conn 0 r1 Cp) as (conn2 & o & E & R1 & PK & R2).
    rewrite E in T. pose proof (tick_loop_conn _ _ _ _ _ _ _ _ E) as Hc.
    apply tick_tail_facts in T; [|exact Ctg].
    destruct T as (Tc & Tid & Tact & Tfl & Tpr & Tps & Ttg & o1 & Eo & Hd).
    rewrite Cfl, Cid in Eo. rewrite Cid in PK.
    assert (Hcnt : forall k, 0 <= k < n ->
              Z.b2z (r_flag r) <= reg2_cnt (o ++ (if r_flag r then bcast (Z.to_nat n) 0 (r_id r) else [])) k
              <= Z.b2z (r_flag r) + Z.b2z (memz k due)).
    { intros k Hk. rewrite reg2_cnt_app, R2, Ilen. destruct (r_flag r).
      - rewrite bcast_cnt_range by lia. b2z_lia.
      - rewrite reg2_cnt_nil. b2z_lia. }
    destruct Hd as [(Eo1 & Tp & Tpt)|(j0 & Eo1 & Etg & _ & Ecnt & Tp & Tpt)]; subst o1 out.
    + cbn [app] in *. constructor; cbn [s_reg s_conn]; rsimpl; rewrite ?Etx.
      * congruence.
      * apply pkts_ok_app; auto. destruct (r_flag r); [apply bcast_spec|constructor].
      * rewrite Tc; exact Hc.
      * rewrite Tc; exact Tact.
      * exact Tfl.
      * rewrite Tpr, Cpr; exact Iprob.
      * exact Hcnt.
      * left. split; [|split; [|split]].
        -- rewrite reg1_of_app, R1. destruct (r_flag r); [apply bcast_spec|reflexivity].
        -- congruence.
        -- rewrite Tp, Cp; congruence.
        -- discriminate.
      * rewrite Ttg; exact Ctg.
      * rewrite Tps; intro W. destruct (Cw W) as (W1 & W2). split; [auto|split; congruence].
    + constructor; cbn [s_reg s_conn]; rsimpl; rewrite ?Etx.
      * congruence.
      * apply pkts_ok_app; auto. constructor; [cbn; rewrite Cid; auto|]. destruct (r_flag r); [apply bcast_spec|constructor].
      * rewrite Tc; exact Hc.
      * rewrite Tc; exact Tact.
      * exact Tfl.
      * rewrite Tpr, Cpr; exact Iprob.
      * intros k Hk. specialize (Hcnt k Hk). rewrite reg2_cnt_app in *. rewrite reg2_cnt_app.
        change (reg2_cnt [(K_REG1, j0, r_id r1)] k) with 0. lia.
      * right. exists j0. split; [|split; [apply Ctg; exact Etg|]].
        -- rewrite reg1_of_app, R1. change ((K_REG1, j0, r_id r1) :: ?l) with ([(K_REG1, j0, r_id r1)] ++ l).
           rewrite reg1_of_app. destruct (r_flag r); [destruct (bcast_spec (Z.to_nat n) 0 (r_id r)) as (B1 & _); rewrite B1|]; reflexivity.
        -- split; [reflexivity|]. split; [exact Tp|]. split; [congruence|]. split; [exact Tpt|].
           right. split; [exact Hp|]. rewrite Tc. apply count_true_zero; exact Ecnt.
      * rewrite Ttg; exact Ctg.
      * rewrite Tps; intro W. destruct (Cw W) as (W1 & W2). congruence.
Qed.

(** ---- every step of the model satisfies every clause, and keeps the invariant ---- *)
Ltac osimpl :=
  cbn [obs_of o_out o_id o_pending o_ptimeout o_active o_hasconn o_flag o_target o_next
       o_probing o_nprobes o_conn].
Ltac osimpl_in H :=
  cbn [obs_of o_out o_id o_pending o_ptimeout o_active o_hasconn o_flag o_target o_next
       o_probing o_nprobes o_conn] in H.

Definition all_true (l : list bool) : Prop := forallb (fun b => b) l = true.

Lemma first_bad_all_true : forall l i, all_true l -> first_bad (fun b : bool => b) l i = 0%N.
Proof.
  induction l as [|b t IH]; intros i H; cbn; auto.
  unfold all_true in H; cbn in H. apply andb_true_iff in H as [H1 H2]. rewrite H1. apply IH; exact H2.
Qed.

Lemma range_all_intro : forall k i f,
  (forall j, i <= j < i + Z.of_nat k -> f j = true) -> range_all k i f = true.
Proof.
  induction k as [|k IH]; intros i f H; cbn [range_all]; auto.
  rewrite H by lia. rewrite IH; auto. intros j Hj. apply H. lia.
Qed.

Lemma pkts_ok_forallb : forall id l, pkts_ok id l ->
  forallb (fun p => ((pk_kind p =? K_REG1) || (pk_kind p =? K_REG2)) && (pk_id p =? id)) l = true.
Proof.
  induction 1 as [|p l [Hk Hi] H IH]; cbn [forallb]; auto.
  rewrite IH, andb_true_r. rewrite Hi, Z.eqb_refl, andb_true_r. destruct Hk as [-> | ->]; reflexivity.
Qed.

Definition StepOK (n : Z) (g : ghost) (pre : obs) (o : op) (s' : st) (out : list pkt) : Prop :=
  all_true (clauses n g pre o (obs_of s' out)) /\ Inv n (ghost_next g pre o (obs_of s' out)) s'.

Lemma tick_ok : forall n g s outp now amb due s' out,
  Inv n g s -> 0 <= now -> tick s now amb due = (s', out) ->
  StepOK n g (obs_of s outp) (Tick now amb due) s' out.
Proof.
  intros n g s outp now amb due s' out I Hnow T.
  pose proof (tick_facts _ _ _ _ _ _ _ _ I Hnow T) as F.
  pose proof (expired_texp n g s now amb due I) as Hexp.
  pose proof (inv_out _ _ _ I) as Iout. pose proof (inv_owed _ _ _ I) as Iowed.
  destruct F as [Fid Fpk Fconn Fact Fflag Fprob Fcnt Freg1 Ftgt Fwait].
  assert (Hlen : blen (s_conn s') = n).
  { unfold blen. rewrite (conn_drop_length _ _ Fconn). apply (inv_len _ _ _ I). }
  (* clauses that do not depend on which REG1 case we are in *)
  assert (C3 : cl3 g (obs_of s outp) (Tick now amb due) (obs_of s' out) = true).
  { unfold cl3, accepted. cbn [is_reg2 andb]. osimpl. rewrite Fid. apply Z.eqb_refl. }
  assert (C4 : cl4 n g (Tick now amb due) (obs_of s' out) = true).
  { unfold cl4. osimpl. apply range_all_intro. intros k Hk. rewrite Z2Nat.id in Hk by (rewrite <- Hlen; apply blen_nonneg).
    rewrite reg2_count_eq. specialize (Fcnt k ltac:(lia)). rewrite Iowed.
    destruct (r_flag (s_reg s)), (memz k due); cbn [Z.b2z] in Fcnt; lia. }
  assert (C5 : cl5 (obs_of s' out) = true).
  { unfold cl5. osimpl. rewrite Fid. apply pkts_ok_forallb; exact Fpk. }
  assert (C6 : cl6 (obs_of s outp) (Tick now amb due) (obs_of s' out) = true).
  { unfold cl6. osimpl. apply conn_ok_drop; exact Fconn. }
  unfold StepOK, clauses, all_true. cbn [forallb]. rewrite C3, C4, C5, C6.
  unfold cl1, cl2, cl7, cl8, cl9, no_reg1, out1, ghost_next, accepted, out1. cbn [is_tick is_regerr is_reg2 negb andb orb op_now].
  osimpl. rewrite !reg1_dsts_eq, Hexp.
  destruct Freg1 as [(R1 & Fp & Fpt & Ftn)|(j & R1 & Hj & Etx & Fp & Ftg & Fpt & Hcase)]; rewrite R1.
  - (* no REG1 in this pass *)
    split.
    + cbn [forallb]. destruct (texp (s_reg s) now) eqn:Etx; cbn [negb orb andb]; auto.
      rewrite Fp. reflexivity.
    + constructor; cbn [g_out g_owed g_free].
      * exact Hlen.
      * destruct (texp (s_reg s) now) eqn:Etx; [exact Fp|].
        destruct (g_out g) as [[j t]|].
        -- destruct Iout as (Ip & Ipt & It). rewrite Ip in Fp. split; [exact Fp|]. split; [|exact It].
           destruct Fpt as [Fpt _]; [congruence|]. congruence.
        -- congruence.
      * intros j Hj. rewrite Hj in Fp. destruct (texp (s_reg s) now); [discriminate|].
        destruct Fpt as [_ Ft]; [congruence|]. rewrite Ft.
        apply (inv_pend _ _ _ I). congruence.
      * exact Ftgt.
      * intro W. destruct (Fwait W) as (W1 & W2 & W3). split; [auto|split; [auto|]].
        apply (inv_wait _ _ _ I W1).
      * exact Fprob.
      * intro A. rewrite Fact in A. apply count_true_zero; exact A.
      * symmetry; exact Fflag.
  - (* one REG1, to j *)
    rewrite Etx. split.
    + cbn [forallb negb orb andb]. rewrite andb_true_r.
      destruct Hcase as [Hp|(Hp & Hnc)].
      * destruct (g_out g) as [[j' t]|]; [|congruence]. destruct Iout as (Ip & _).
        assert (j' = j) by congruence; subst j'. cbn [out_on]. rewrite Z.eqb_refl. reflexivity.
      * destruct (g_out g) as [[j' t]|]; [destruct Iout; congruence|].
        apply none_connected_iff in Hnc. rewrite Hnc, orb_true_r. reflexivity.
    + constructor; cbn [g_out g_owed g_free].
      * exact Hlen.
      * auto.
      * intros j0 Hj0. assert (j0 = j) by congruence; subst j0. auto.
      * exact Ftgt.
      * intro W. destruct (Fwait W) as (_ & W2 & _). congruence.
      * exact Fprob.
      * intro A. rewrite Fact in A. apply count_true_zero; exact A.
      * symmetry; exact Fflag.
Qed.

Lemma g_out_none : forall n g s, Inv n g s -> r_pending (s_reg s) = None -> g_out g = None.
Proof.
  intros n g s I H. pose proof (inv_out _ _ _ I) as Io.
  destruct (g_out g) as [[j t]|]; auto. destruct Io; congruence.
Qed.

Lemma g_out_some : forall n g s j, Inv n g s -> r_pending (s_reg s) = Some j ->
  exists t, g_out g = Some (j, t) /\ r_ptimeout (s_reg s) = t + REG2_WAIT_MS /\ 0 <= t.
Proof.
  intros n g s j I H. pose proof (inv_out _ _ _ I) as Io.
  destruct (g_out g) as [[j' t]|]; [|congruence]. destruct Io as (A & B & C).
  exists t. assert (j' = j) by congruence; subst; auto.
Qed.

Lemma ngp_ok : forall n g s outp i now s' out,
  Inv n g s -> 0 <= i < n -> 0 <= now -> step true s (Ngp i now) = (s', out) ->
  StepOK n g (obs_of s outp) (Ngp i now) s' out.
Proof.
  intros n g [r conn] outp i now s' out I Hi Hnow S.
  pose proof (inv_wait _ _ _ I) as Iwait. pose proof (inv_active _ _ _ I) as Iact.
  cbn [step s_reg s_conn] in *. unfold handle_reg_ngp in S.
  unfold StepOK, clauses, all_true, cl1, cl2, cl3, cl4, cl5, cl6, cl7, cl8, cl9, no_reg1, out1, expired,
    ghost_next, accepted, out1, expired. cbn [is_tick is_regerr is_reg2 negb andb orb op_now].
  destruct (pstate_eqb (r_pstate r) PWaiting) eqn:Ew.
  - (* a probe response *)
    assert (W : r_pstate r = PWaiting) by (destruct (r_pstate r); cbn in Ew; congruence).
    destruct (Iwait W) as (Wp & Wt & Wn).
    unfold handle_probe_response, reg1_if_ngp_immediate in S. rewrite Ew in S. rsimpl_in S.
    rewrite Wt in S. cbn [opt_is] in S. rewrite !andb_false_r in S. cbn [andb] in S.
    inversion S; subst s' out; clear S. osimpl. rsimpl. cbn [forallb reg1_dsts filter map].
    rewrite Z.eqb_refl. rewrite conn_ok_refl. unfold is_probing. rewrite Ew. cbn [negb andb orb].
    rewrite !andb_false_r. cbn [negb orb andb]. split; [reflexivity|].
    destruct I as [I1 I2 I3 I4 I5 I6 I7 I8]. cbn [s_reg s_conn] in *.
    constructor; cbn [g_out g_owed g_free s_reg s_conn]; rsimpl; auto.
    + intros j Hj. rewrite Wp in Hj. discriminate.
    + intros; discriminate.
    + apply probe_respond_in; auto.
    + rewrite orb_false_r; auto.
  - destruct ((r_active r =? 0) && is_none (r_pending r)) eqn:Ec.
    + (* accepted as REG1 target, answered at once *)
      apply andb_true_iff in Ec as [Ea Ep]. apply is_none_true in Ep.
      unfold reg1_if_ngp_immediate in S. rsimpl_in S. rewrite Ea, Ep in S. cbn [is_none opt_is andb] in S.
      rewrite Z.eqb_refl, Z.leb_refl in S. cbn [andb build_reg1_for] in S. rsimpl_in S.
      inversion S; subst s' out; clear S. osimpl. rsimpl.
      cbn [forallb reg1_dsts filter map pk_kind pk_dst pk_id fst snd]. change (K_REG1 =? K_REG1) with true.
      change (K_REG1 =? K_REG2) with false. cbn [negb andb orb map pk_dst fst snd forallb].
      rewrite (g_out_none _ _ _ I Ep). rewrite !Z.eqb_refl. rewrite conn_ok_refl.
      assert (Hnc : none_connected conn = true) by (apply none_connected_iff, Iact; lia).
      rewrite Hnc. cbn [negb andb orb list_eqb]. rewrite Z.eqb_refl. cbn [andb]. rewrite !orb_true_r.
      split; [reflexivity|].
      destruct I as [I1 I2 I3 I4 I5 I6 I7 I8]. cbn [s_reg s_conn] in *.
      constructor; cbn [g_out g_owed g_free s_reg s_conn]; rsimpl; auto.
      * intros j Hj; inversion Hj; subst; auto.
      * intros j Hj; inversion Hj; subst; auto.
      * intro W. rewrite W in Ew. discriminate.
      * rewrite orb_false_r; auto.
    + (* ignored *)
      unfold reg1_if_ngp_immediate in S. rewrite Ec in S. cbn [andb] in S.
      inversion S; subst s' out; clear S. osimpl. rsimpl. cbn [forallb reg1_dsts filter map].
      rewrite Z.eqb_refl, conn_ok_refl. cbn [negb andb orb].
      assert (C9 : negb (g_free g && is_none (g_out g) && (r_active r =? 0) && none_connected conn && negb (is_probing r)) || list_eqb Z.eqb [] [i] = true).
      { apply orb_true_iff; left. apply negb_true_iff.
        destruct (r_pending r) as [j|] eqn:Ep.
        - destruct (g_out_some _ _ _ _ I Ep) as (t & Eg & _). rewrite Eg. cbn [is_none]. rewrite andb_false_r. reflexivity.
        - cbn [is_none] in Ec. rewrite andb_true_r in Ec. rewrite Ec. rewrite !andb_false_r. reflexivity. }
      rewrite C9. split; [reflexivity|].
      destruct I as [I1 I2 I3 I4 I5 I6 I7 I8]. cbn [s_reg s_conn] in *.
      constructor; cbn [g_out g_owed g_free s_reg s_conn]; rsimpl; auto.
      rewrite orb_false_r; auto.
Qed.

Lemma reg2_ok : forall n g s outp i len tag now s' out,
  Inv n g s -> 0 <= i < n -> 0 <= now -> step true s (Reg2 i len tag now) = (s', out) ->
  StepOK n g (obs_of s outp) (Reg2 i len tag now) s' out.
Proof.
  intros n g [r conn] outp i len tag now s' out I Hi Hnow S.
  cbn [step s_reg s_conn] in *. unfold handle_reg2 in S.
  unfold StepOK, clauses, all_true, cl1, cl2, cl3, cl4, cl5, cl6, cl7, cl8, cl9, no_reg1, out1, expired,
    ghost_next, accepted, out1, expired. cbn [is_tick is_regerr is_reg2 negb andb orb op_now].
  destruct (len <? REG2_MIN_LEN) eqn:El; [|destruct (opt_is (r_pending r) i) eqn:Ep].
  - (* too short *)
    inversion S; subst s' out; clear S. osimpl. rsimpl. cbn [forallb reg1_dsts filter map].
    rewrite Z.eqb_refl, conn_ok_refl.
    replace (is_some (r_pending r) && is_none (r_pending r)) with false by (destruct (r_pending r); reflexivity).
    rewrite ?Z.eqb_refl. cbn [orb]. split; [reflexivity|].
    destruct I as [I1 I2 I3 I4 I5 I6 I7 I8]. cbn [s_reg s_conn] in *.
    constructor; cbn [g_out g_owed g_free s_reg s_conn]; rsimpl; auto. rewrite orb_false_r; auto.
  - (* accepted *)
    apply opt_is_true in Ep. inversion S; subst s' out; clear S. osimpl. rsimpl.
    cbn [forallb reg1_dsts filter map]. rewrite Ep. cbn [is_some is_none negb andb orb].
    destruct (g_out_some _ _ _ _ I Ep) as (t & Eg & _). rewrite Eg. cbn [out_on].
    rewrite !Z.eqb_refl, conn_ok_refl. replace (REG2_MIN_LEN <=? len) with true by lia.
    split; [reflexivity|].
    destruct I as [I1 I2 I3 I4 I5 I6 I7 I8]. cbn [s_reg s_conn] in *.
    constructor; cbn [g_out g_owed g_free s_reg s_conn]; rsimpl; auto; try (intros; discriminate).
    + intro W. destruct (I5 W) as (? & ? & ?). congruence.
    + rewrite orb_true_r; reflexivity.
  - (* not from the awaited uplink *)
    inversion S; subst s' out; clear S. osimpl. rsimpl. cbn [forallb reg1_dsts filter map].
    rewrite Z.eqb_refl, conn_ok_refl.
    replace (is_some (r_pending r) && is_none (r_pending r)) with false by (destruct (r_pending r); reflexivity).
    rewrite ?Z.eqb_refl. cbn [orb]. split; [reflexivity|].
    destruct I as [I1 I2 I3 I4 I5 I6 I7 I8]. cbn [s_reg s_conn] in *.
    constructor; cbn [g_out g_owed g_free s_reg s_conn]; rsimpl; auto. rewrite orb_false_r; auto.
Qed.

Lemma blen_set_nth : forall l i v, blen (set_nth l i v) = blen l.
Proof. intros; unfold blen; rewrite set_nth_length; reflexivity. Qed.

Lemma reg3_ok : forall n g s outp i now s' out,
  Inv n g s -> 0 <= i < n -> 0 <= now -> step true s (Reg3 i now) = (s', out) ->
  StepOK n g (obs_of s outp) (Reg3 i now) s' out.
Proof.
  intros n g [r conn] outp i now s' out I Hi Hnow S.
  cbn [step s_reg s_conn] in *. unfold handle_reg3 in S.
  unfold StepOK, clauses, all_true, cl1, cl2, cl3, cl4, cl5, cl6, cl7, cl8, cl9, no_reg1, out1, expired,
    ghost_next, accepted, out1, expired. cbn [is_tick is_regerr is_reg2 negb andb orb op_now].
  inversion S; subst s' out; clear S. osimpl. rsimpl. cbn [forallb reg1_dsts filter map].
  rewrite Z.eqb_refl. pose proof (conn_ok_set_true conn i 0 ltac:(lia)) as C6. cbn [Z.add] in C6. rewrite C6.
  split; [reflexivity|].
  destruct I as [I1 I2 I3 I4 I5 I6 I7 I8]. cbn [s_reg s_conn] in *.
  constructor; cbn [g_out g_owed g_free s_reg s_conn]; rsimpl; auto.
  - rewrite blen_set_nth; auto.
  - intro A. lia.
  - rewrite orb_false_r; auto.
Qed.

Lemma regerr_ok : forall n g s outp i now s' out,
  Inv n g s -> 0 <= i < n -> 0 <= now -> step true s (RegErr i now) = (s', out) ->
  StepOK n g (obs_of s outp) (RegErr i now) s' out.
Proof.
  intros n g [r conn] outp i now s' out I Hi Hnow S.
  cbn [step s_reg s_conn] in *. unfold handle_reg_err in S.
  unfold StepOK, clauses, all_true, cl1, cl2, cl3, cl4, cl5, cl6, cl7, cl8, cl9, no_reg1, out1, expired,
    ghost_next, accepted, out1, expired. cbn [is_tick is_regerr is_reg2 negb andb orb op_now].
  inversion S; subst s' out; clear S. osimpl. rsimpl. cbn [forallb reg1_dsts filter map is_none].
  rewrite Z.eqb_refl, conn_ok_set_false.
  split; [reflexivity|].
  destruct I as [I1 I2 I3 I4 I5 I6 I7 I8]. cbn [s_reg s_conn] in *.
  constructor; cbn [g_out g_owed g_free s_reg s_conn]; rsimpl; auto; try (intros; discriminate).
  - rewrite blen_set_nth; auto.
  - intro W. destruct (I5 W) as (? & ? & ?). auto.
  - intro A. apply none_conn_set_false; auto.
  - rewrite orb_false_r; auto.
Qed.

Lemma step_ok : forall n g s outp o s' out,
  Inv n g s -> wf_op n o -> step true s o = (s', out) -> StepOK n g (obs_of s outp) o s' out.
Proof.
  intros n g s outp o s' out I W S. destruct o as [i t|i l tg t|i t|i t|t a d]; cbn [wf_op] in W.
  - destruct W; eapply ngp_ok; eauto.
  - destruct W; eapply reg2_ok; eauto.
  - destruct W; eapply reg3_ok; eauto.
  - destruct W; eapply regerr_ok; eauto.
  - eapply tick_ok; eauto.
Qed.

Lemma mon_run_model : forall n ops g s outp,
  Inv n g s -> Forall (wf_op n) ops ->
  mon_run n g (obs_of s outp) ops (run_from true s ops) = 0%N.
Proof.
  induction ops as [|o ops IH]; intros g s outp I W; cbn [run_from mon_run]; auto.
  inversion W as [|? ? Wo Wr]; subst.
  destruct (step true s o) as [s' out] eqn:S. cbn [mon_run]. unfold mon_step.
  destruct (step_ok n g s outp o s' out I Wo S) as [A I'].
  rewrite (first_bad_all_true _ 0%N A). cbn [N.eqb]. apply IH; auto.
Qed.

Lemma repeat_blen : forall n, 0 <= n -> blen (repeat false (Z.to_nat n)) = n.
Proof. intros. unfold blen. rewrite repeat_length. lia. Qed.

Lemma start_inv : forall n id0 pid probe, 0 <= n -> Inv n g0 (fst (start n id0 pid probe)).
Proof.
  intros n id0 pid probe Hn. unfold start. destruct probe as [t|].
  - unfold start_probing, reg_new. rsimpl. cbn [pstate_eqb negb orb Z.ltb Z.compare].
    destruct (probe_all (Z.to_nat n) 0 pid t) as [ps rs] eqn:E.
    destruct (probe_all_spec _ _ _ _ _ _ E) as (L & F & _).
    assert (Fin : probes_in n rs).
    { eapply Forall_impl; [|exact F]. cbn. intros p Hp. lia. }
    destruct rs as [|p rs']; cbn [fst]; constructor; cbn [g0 g_out g_owed s_reg s_conn]; rsimpl;
      auto using repeat_blen, none_conn_repeat; try (intros; discriminate).
    intros _. split; [auto|split; [auto|]]. cbn [length] in L. lia.
  - unfold init, reg_new. cbn [fst]. constructor; cbn [g0 g_out g_owed s_reg s_conn]; rsimpl;
      auto using repeat_blen, none_conn_repeat; try (intros; discriminate). constructor.
Qed.

Theorem model_ok : forall n id0 pid probe ops,
  wf_ops n ops = true -> ok_C07 n ops (run true n id0 pid probe ops) = true.
Proof.
  intros n id0 pid probe ops W. unfold wf_ops in W. apply andb_true_iff in W as [Hn W].
  assert (Wf : Forall (wf_op n) ops).
  { rewrite forallb_forall in W. apply Forall_forall. intros o Ho. apply wf_opb_iff, W, Ho. }
  unfold ok_C07, mon_C07, run. pose proof (start_inv n id0 pid probe ltac:(lia)) as I.
  destruct (start n id0 pid probe) as [s0 out0]. cbn [fst snd] in *.
  rewrite (mon_run_model n ops g0 s0 out0 I Wf). reflexivity.
Qed.

(** ---- state-level statements behind the clauses ---- *)
Inductive reachable (n : Z) : st -> Prop :=
| reach_start : forall id0 pid probe, reachable n (fst (start n id0 pid probe))
| reach_step : forall s o, reachable n s -> wf_op n o -> reachable n (fst (step true s o)).

Lemma reachable_inv : forall n s, 0 <= n -> reachable n s -> exists g, Inv n g s.
Proof.
  intros n s Hn R. induction R as [id0 pid probe|s o R [g I] W].
  - exists g0. apply start_inv; auto.
  - destruct (step true s o) as [s' out] eqn:S.
    destruct (step_ok n g s [] o s' out I W S) as [_ I']. eexists; exact I'.
Qed.

(** Every REG1 the model emits: exactly one in that step, to an uplink [j] of the run, with
    nothing awaited before or the same uplink awaited (a housekeeping re-transmission);
    afterwards [j] is the awaited uplink with a deadline REG2_TIMEOUT s ahead; and unless it is
    such a re-transmission, no uplink is connected at that moment. *)
Lemma step_reg1 : forall n g s o s' out,
  Inv n g s -> wf_op n o -> step true s o = (s', out) ->
  reg1_of out = [] \/
  exists j, reg1_of out = [j] /\ 0 <= j < n /\
    r_pending (s_reg s') = Some j /\ r_ptimeout (s_reg s') = op_now o + REG2_WAIT_MS /\
    ((is_tick o = true /\ r_pending (s_reg s) = Some j) \/
     (r_pending (s_reg s) = None /\ none_conn (s_conn s'))).
Proof.
  intros n g s o s' out I W S. destruct o as [i t|i l tg t|i t|i t|t a d]; cbn [wf_op] in W;
    cbn [step] in S; try (inversion S; subst; left; reflexivity).
  - (* Ngp *)
    destruct W as [Hi Ht]. destruct s as [r conn]. cbn [s_reg s_conn] in *.
    pose proof (inv_wait _ _ _ I) as Iwait. pose proof (inv_active _ _ _ I) as Iact. cbn [s_reg s_conn] in *.
    unfold handle_reg_ngp in S.
    destruct (pstate_eqb (r_pstate r) PWaiting) eqn:Ew.
    + assert (Wt : r_pstate r = PWaiting) by (destruct (r_pstate r); cbn in Ew; congruence).
      destruct (Iwait Wt) as (Wp & Wtg & _).
      unfold handle_probe_response, reg1_if_ngp_immediate in S. rewrite Ew in S. rsimpl_in S.
      rewrite Wtg in S. cbn [opt_is] in S. rewrite !andb_false_r in S. cbn [andb] in S.
      inversion S; subst. left; reflexivity.
    + destruct ((r_active r =? 0) && is_none (r_pending r)) eqn:Ec.
      * apply andb_true_iff in Ec as [Ea Ep]. apply is_none_true in Ep.
        unfold reg1_if_ngp_immediate in S. rsimpl_in S. rewrite Ea, Ep in S. cbn [is_none opt_is andb] in S.
        rewrite Z.eqb_refl, Z.leb_refl in S. cbn [andb build_reg1_for] in S. rsimpl_in S.
        inversion S; subst s' out; clear S. right. exists i. rsimpl. cbn [op_now is_tick].
        split; [reflexivity|]. split; [auto|]. split; [reflexivity|]. split; [reflexivity|].
        right. split; [auto|]. apply Iact. lia.
      * unfold reg1_if_ngp_immediate in S. rewrite Ec in S. cbn [andb] in S.
        inversion S; subst. left; reflexivity.
  - (* Tick *)
    pose proof (tick_facts _ _ _ _ _ _ _ _ I W S) as F. destruct (tf_reg1 _ _ _ _ _ _ F) as [(R1 & _)|(j & R1 & Hj & _ & Fp & _ & Fpt & Hc)].
    + left; exact R1.
    + right. exists j. cbn [op_now is_tick]. repeat (split; [assumption|]).
      destruct Hc as [Hc|Hc]; [left; split; [reflexivity|exact Hc]|right; exact Hc].
Qed.

Lemma reg1_of_in : forall l p, In p l -> pk_kind p = K_REG1 -> In (pk_dst p) (reg1_of l).
Proof.
  intros l p Hin Hk. unfold reg1_of. apply in_map. apply filter_In. split; auto. rewrite Hk. reflexivity.
Qed.

Lemma step_pkts : forall n g s o s' out,
  Inv n g s -> wf_op n o -> step true s o = (s', out) -> pkts_ok (r_id (s_reg s')) out.
Proof.
  intros n g s o s' out I W S.
  destruct (step_ok n g s [] o s' out I W S) as [A _].
  unfold all_true, clauses in A. cbn [forallb] in A.
  repeat (apply andb_true_iff in A; destruct A as [? A]).
  match goal with H : cl5 _ = true |- _ => unfold cl5 in H; osimpl_in H; rename H into C5 end.
  rewrite forallb_forall in C5. apply Forall_forall. intros p Hp. specialize (C5 p Hp).
  apply andb_true_iff in C5 as [K Hid]. apply orb_true_iff in K. split; [|lia].
  destruct K; [left|right]; lia.
Qed.

Lemma step_id : forall n g s o s' out,
  Inv n g s -> wf_op n o -> step true s o = (s', out) ->
  r_id (s_reg s') = r_id (s_reg s) \/
  exists i len tag now, o = Reg2 i len tag now /\ r_pending (s_reg s) = Some i /\
    REG2_MIN_LEN <= len /\ r_id (s_reg s') = tag /\ r_pending (s_reg s') = None /\
    r_flag (s_reg s') = true /\ r_target (s_reg s') = None.
Proof.
  intros n g s o s' out I W S.
  assert (Hother : is_reg2 o = false -> r_id (s_reg s') = r_id (s_reg s)).
  { intro Hr. destruct (step_ok n g s [] o s' out I W S) as [A _].
    unfold all_true, clauses in A. cbn [forallb] in A.
    repeat (apply andb_true_iff in A; destruct A as [? A]).
    match goal with H : cl3 _ _ _ _ = true |- _ => unfold cl3, accepted in H; rewrite Hr in H;
      cbn [andb] in H; osimpl_in H; lia end. }
  destruct o as [i t|i l tg t|i t|i t|t a d]; try (left; apply Hother; reflexivity).
  cbn [step] in S. unfold handle_reg2 in S.
  destruct (l <? REG2_MIN_LEN) eqn:El; [inversion S; subst; left; reflexivity|].
  destruct (opt_is (r_pending (s_reg s)) i) eqn:Ep; [|inversion S; subst; left; reflexivity].
  apply opt_is_true in Ep. inversion S; subst. right. exists i, l, tg, t. rsimpl.
  repeat (split; [first [reflexivity|assumption|lia]|]). reflexivity.
Qed.

Lemma nth_set_nth : forall l i v k, 0 <= i -> 0 <= k ->
  nth (Z.to_nat k) (set_nth l i v) false = true ->
  nth (Z.to_nat k) l false = true \/ (k = i /\ v = true).
Proof.
  induction l as [|c t IH]; intros i v k Hi Hk H; cbn [set_nth] in H; auto.
  destruct (i =? 0) eqn:E.
  - assert (i = 0) by lia; subst i. destruct (Z.to_nat k) eqn:Ek; cbn [nth] in *.
    + right. split; [lia|exact H].
    + left; exact H.
  - destruct (Z.to_nat k) eqn:Ek; cbn [nth] in *; auto.
    replace n with (Z.to_nat (k - 1)) in * by lia.
    destruct (IH (i - 1) v (k - 1) ltac:(lia) ltac:(lia) H) as [A|[A B]]; [left; exact A|right; split; [lia|exact B]].
Qed.

Lemma conn_drop_nth : forall a b k, conn_drop a b -> nth k b false = true -> nth k a false = true.
Proof.
  intros a b k H; revert k. induction H as [|x y l l' H H2 IH]; intros k Hk; destruct k; cbn [nth] in *; auto.
Qed.

Lemma step_conn : forall n g s o s' out k,
  Inv n g s -> wf_op n o -> step true s o = (s', out) -> 0 <= k ->
  nth (Z.to_nat k) (s_conn s') false = true ->
  nth (Z.to_nat k) (s_conn s) false = true \/ exists t, o = Reg3 k t.
Proof.
  intros n g s o s' out k I W S Hk H. destruct o as [i t|i l tg t|i t|i t|t a d]; cbn [step wf_op] in *.
  - left. destruct (reg1_if_ngp_immediate _ _ _) as [r2 o2]. inversion S; subst. exact H.
  - left. inversion S; subst. exact H.
  - inversion S; subst. cbn [s_conn] in H.
    destruct (nth_set_nth (s_conn s) i true k ltac:(lia) Hk H) as [A|[A _]]; [left; exact A|right; subst; eexists; reflexivity].
  - inversion S; subst. cbn [s_conn] in H.
    destruct (nth_set_nth (s_conn s) i false k ltac:(lia) Hk H) as [A|[_ A]]; [left; exact A|discriminate].
  - left. pose proof (tf_conn _ _ _ _ _ _ (tick_facts _ _ _ _ _ _ _ _ I W S)) as D.
    eapply conn_drop_nth; eauto.
Qed.

Lemma step_regerr : forall fx s i now,
  r_pending (s_reg (fst (step fx s (RegErr i now)))) = None /\
  r_target (s_reg (fst (step fx s (RegErr i now)))) = None /\
  snd (step fx s (RegErr i now)) = [].
Proof. intros. cbn. auto. Qed.

(** a REG1 awaited on [j]: a pass at or after the deadline abandons it (and sends no REG1),
    a pass before the deadline keeps it *)
Lemma tick_timeout : forall n g s now amb due s' out j,
  Inv n g s -> 0 <= now -> r_pending (s_reg s) = Some j -> tick s now amb due = (s', out) ->
  (r_ptimeout (s_reg s) <= now ->
     r_pending (s_reg s') = None /\ r_target (s_reg s') = None /\ reg1_of out = []) /\
  (now < r_ptimeout (s_reg s) -> r_pending (s_reg s') = Some j).
Proof.
  intros n g s now amb due s' out j I Hnow Hp T.
  pose proof (tick_facts _ _ _ _ _ _ _ _ I Hnow T) as F. pose proof (tf_reg1 _ _ _ _ _ _ F) as R.
  unfold texp in R. rewrite Hp in R. cbn [is_some is_none negb andb] in R. split; intro Hd.
  - replace (r_ptimeout (s_reg s) <=? now) with true in R by lia.
    destruct R as [(R1 & Fp & _ & Ft)|(j' & _ & _ & Etx & _)]; [|discriminate]. auto.
  - replace (r_ptimeout (s_reg s) <=? now) with false in R by lia.
    destruct R as [(R1 & Fp & _)|(j' & _ & _ & _ & Fp & _ & _ & [Hc|[Hc _]])]; congruence.
Qed.

(** nothing awaited, no uplink counted active, not waiting for probes: a REG_NGP is answered
    by a REG1 on that uplink at once *)
Lemma ngp_progress : forall fx s i now,
  r_pending (s_reg s) = None -> r_active (s_reg s) = 0 -> r_pstate (s_reg s) <> PWaiting ->
  snd (step fx s (Ngp i now)) = [(K_REG1, i, r_id (s_reg s))] /\
  r_pending (s_reg (fst (step fx s (Ngp i now)))) = Some i.
Proof.
  intros fx [r conn] i now Hp Ha Hw. cbn [step s_reg s_conn] in *. unfold handle_reg_ngp.
  replace (pstate_eqb (r_pstate r) PWaiting) with false by (destruct (r_pstate r); cbn; congruence).
  rewrite Hp, Ha. cbn [Z.eqb is_none andb]. unfold reg1_if_ngp_immediate. rsimpl.
  cbn [Z.eqb is_none opt_is andb]. rewrite Z.eqb_refl, Z.leb_refl. cbn [andb build_reg1_for fst snd]. rsimpl. auto.
Qed.

(** REG2 rounds: in a pass every uplink gets the broadcast iff one is owed (the flag), plus
    at most one re-join REG2 if the pass resets that uplink; the flag is consumed *)
Lemma tick_bcast : forall n g s now amb due s' out,
  Inv n g s -> 0 <= now -> tick s now amb due = (s', out) ->
  r_flag (s_reg s') = false /\
  forall k, 0 <= k < n ->
    Z.b2z (r_flag (s_reg s)) <= reg2_cnt out k <= Z.b2z (r_flag (s_reg s)) + Z.b2z (memz k due).
Proof.
  intros n g s now amb due s' out I Hnow T. pose proof (tick_facts _ _ _ _ _ _ _ _ I Hnow T) as F.
  split; [exact (tf_flag _ _ _ _ _ _ F)|exact (tf_cnt _ _ _ _ _ _ F)].
Qed.

Lemma no_reg2_cnt : forall l, forallb (fun p => negb (pk_kind p =? K_REG2)) l = true ->
  forall k, reg2_cnt l k = 0.
Proof.
  induction l as [|p l IH]; intros H k; [reflexivity|].
  cbn [forallb] in H. apply andb_true_iff in H as [Ha Hb]. apply negb_true_iff in Ha.
  rewrite reg2_cnt_cons, (IH Hb). unfold reg2_cnt. cbn [filter]. rewrite Ha. reflexivity.
Qed.

(** outside a pass no REG2 is emitted, and the broadcast flag rises exactly on an accepted REG2 *)
Lemma step_flag : forall n g s o s' out,
  Inv n g s -> wf_op n o -> step true s o = (s', out) -> is_tick o = false ->
  (forall k, reg2_cnt out k = 0) /\
  r_flag (s_reg s') = r_flag (s_reg s) || accepted (obs_of s []) o (obs_of s' out).
Proof.
  intros n g s o s' out I W S Ht.
  destruct (step_ok n g s [] o s' out I W S) as [A I'].
  split.
  - unfold all_true, clauses in A. cbn [forallb] in A.
    repeat (apply andb_true_iff in A; destruct A as [? A]).
    match goal with H : cl4 _ _ _ _ = true |- _ => unfold cl4 in H; rename H into C4 end.
    destruct o; try discriminate; osimpl_in C4; apply no_reg2_cnt; exact C4.
  - pose proof (inv_owed _ _ _ I') as O'. pose proof (inv_owed _ _ _ I) as O.
    unfold ghost_next in O'. cbn [g_owed] in O'. rewrite Ht in O'. rewrite <- O', O. reflexivity.
Qed.

(** ---- the same facts, for every state reachable from start-up by well-formed events ---- *)
Section Reach.
Context (n : Z) (Hn : 0 <= n) (s : st) (R : reachable n s) (o : op) (W : wf_op n o).
Let s' := fst (step true s o).
Let out := snd (step true s o).

Lemma step_eq : step true s o = (s', out).
Proof. unfold s', out. destruct (step true s o); reflexivity. Qed.

Lemma reach_single_outstanding : forall p, In p out -> pk_kind p = K_REG1 ->
  reg1_of out = [pk_dst p] /\ 0 <= pk_dst p < n /\
  (r_pending (s_reg s) = None \/ r_pending (s_reg s) = Some (pk_dst p)) /\
  r_pending (s_reg s') = Some (pk_dst p) /\
  r_ptimeout (s_reg s') = op_now o + REG2_WAIT_MS.
Proof.
  intros p Hin Hk. destruct (reachable_inv n s Hn R) as [g I].
  pose proof (reg1_of_in _ _ Hin Hk) as Hd.
  destruct (step_reg1 n g s o s' out I W step_eq) as [E|(j & E & Hj & Hp & Ht & Hc)].
  - rewrite E in Hd. contradiction.
  - rewrite E in Hd. destruct Hd as [Hd|[]]. subst j.
    repeat (split; [assumption|]). split; [|split; assumption].
    destruct Hc as [[_ Hc]|[Hc _]]; auto.
Qed.

Lemma reach_reg1_only_unregistered : forall p, In p out -> pk_kind p = K_REG1 ->
  (is_tick o = true /\ r_pending (s_reg s) = Some (pk_dst p)) \/ none_conn (s_conn s').
Proof.
  intros p Hin Hk. destruct (reachable_inv n s Hn R) as [g I].
  pose proof (reg1_of_in _ _ Hin Hk) as Hd.
  destruct (step_reg1 n g s o s' out I W step_eq) as [E|(j & E & Hj & Hp & Ht & Hc)].
  - rewrite E in Hd. contradiction.
  - rewrite E in Hd. destruct Hd as [Hd|[]]. subst j.
    destruct Hc as [Hc|[_ Hc]]; auto.
Qed.

Lemma reach_active : r_active (s_reg s) = 0 -> none_conn (s_conn s).
Proof. destruct (reachable_inv n s Hn R) as [g I]. exact (inv_active _ _ _ I). Qed.

Lemma reach_id : r_id (s_reg s') = r_id (s_reg s) \/
  exists i len tag now, o = Reg2 i len tag now /\ r_pending (s_reg s) = Some i /\
    REG2_MIN_LEN <= len /\ r_id (s_reg s') = tag /\ r_pending (s_reg s') = None /\
    r_flag (s_reg s') = true /\ r_target (s_reg s') = None.
Proof. destruct (reachable_inv n s Hn R) as [g I]. exact (step_id n g s o s' out I W step_eq). Qed.

Lemma reach_pkts : pkts_ok (r_id (s_reg s')) out.
Proof. destruct (reachable_inv n s Hn R) as [g I]. exact (step_pkts n g s o s' out I W step_eq). Qed.

Lemma reach_conn : forall k, 0 <= k -> nth (Z.to_nat k) (s_conn s') false = true ->
  nth (Z.to_nat k) (s_conn s) false = true \/ exists t, o = Reg3 k t.
Proof.
  intros k Hk H. destruct (reachable_inv n s Hn R) as [g I].
  exact (step_conn n g s o s' out k I W step_eq Hk H).
Qed.

Lemma reach_rounds :
  match o with
  | Tick now amb due =>
    r_flag (s_reg s') = false /\
    forall k, 0 <= k < n ->
      Z.b2z (r_flag (s_reg s)) <= reg2_cnt out k <= Z.b2z (r_flag (s_reg s)) + Z.b2z (memz k due)
  | _ =>
    (forall k, reg2_cnt out k = 0) /\
    r_flag (s_reg s') = r_flag (s_reg s) || accepted (obs_of s []) o (obs_of s' out)
  end.
Proof.
  destruct (reachable_inv n s Hn R) as [g I]. pose proof step_eq as S.
  destruct o; try (apply (step_flag n g s _ s' out I W S); reflexivity).
  cbn [wf_op] in W. cbn [step] in S. exact (tick_bcast n g s _ _ _ s' out I W S).
Qed.

Lemma reach_timeout : forall j now amb due, o = Tick now amb due -> r_pending (s_reg s) = Some j ->
  (r_ptimeout (s_reg s) <= now ->
     r_pending (s_reg s') = None /\ r_target (s_reg s') = None /\ reg1_of out = []) /\
  (now < r_ptimeout (s_reg s) -> r_pending (s_reg s') = Some j).
Proof.
  intros j now amb due Eo Hp. destruct (reachable_inv n s Hn R) as [g I]. pose proof step_eq as S.
  subst o. cbn [wf_op] in W. cbn [step] in S. exact (tick_timeout n g s now amb due s' out j I W Hp S).
Qed.
End Reach.

(** ---- the defect the check found, kept as a statement about the code before the fix ---- *)
Definition f4_ops : list op :=
  [Ngp 0 10; Reg2 0 258 7 20; Tick 30 30 []; Reg3 0 40; Ngp 1 50].

Lemma f4_refuted : wf_ops 2 f4_ops = true /\ mon_C07 2 f4_ops (run false 2 0 1 None f4_ops) = 2%N.
Proof. split; vm_compute; reflexivity. Qed.
