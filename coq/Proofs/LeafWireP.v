(** LeafWireP.v — the hand-written wire codec model (Model/Wire.v) = the definitions that
    tools/gen_wire.py regenerates from crates/srtla-protocol/src/{types,parsers,builders}.rs on every
    run (coq/Gen/LeafWire.v); see DESIGN.md §12.8.

    One lemma per translated function, for ALL arguments.  Hypotheses, where a lemma has one:
    - [bytes_ok b] (every element of the input is in 0..255, which `&[u8]` guarantees) where the Rust
      body uses `&`/`|` on bytes and the hand model uses the comparison / arithmetic form;
    - [blen id = SRTLA_ID_LEN] (the Rust type `&[u8; SRTLA_ID_LEN]`) for the REG builders;
    - [length info = 6] (the six fields of `ConnectionInfo`) for the extended keepalive builder;
    - [blen b + 4 < two64] (a Rust slice is shorter than 2^63) for the `while` loop of parse_srtla_ack,
      whose index arithmetic the translation checks for overflow; [blen b + 8 < two64] and [bytes_ok b] for
      parse_srt_nak (two index steps per iteration; `& 0x8000_0000` / `&= 0x7fff_ffff` against the hand
      model's comparison and subtraction);
    - [4 + 4 * blen acks < two64] for create_ack_packet (the checked `4 + 4 * acks.len()`; a `&[u32]` is
      shorter than 2^61 elements).
    The proofs do not depend on the shape of the generated terms: both sides are unfolded, every
    [get b i] is split into its outcomes (out-of-range outcomes are discharged from the length guards
    in force when they are provably impossible, and otherwise must agree on both sides), every
    condition is split, bit masks are turned into comparisons, and the leaves are closed by
    reflexivity / linear arithmetic. *)
From Coq Require Import ZArith Bool Lia ZifyBool List.
From Srtla Require Import Base Constants Splice LeafWire LeafTac.
From Srtla Require Wire.
Import ListNotations.
Local Open Scope Z_scope.

Ltac Zify.zify_post_hook ::= Z.div_mod_to_equations.

(** ---- facts about [get] ---- *)
Lemma wget_in b i : 0 <= i < blen b -> get b i = Ok (nth (Z.to_nat i) b 0).
Proof.
  intros H. unfold get.
  replace ((0 <=? i) && (i <? blen b)) with true; [reflexivity|].
  symmetry. apply andb_true_iff. split; [apply Z.leb_le | apply Z.ltb_lt]; lia.
Qed.

Lemma wget_not_fuel b i : get b i <> Fuel.
Proof. unfold get. destruct ((0 <=? i) && (i <? blen b)); discriminate. Qed.

Lemma wget_byte b i x : bytes_ok b -> get b i = Ok x -> 0 <= x < 256.
Proof.
  unfold get, bytes_ok, blen. intros Hb.
  destruct ((0 <=? i) && (i <? Z.of_nat (length b))) eqn:E; [|discriminate].
  intros H. injection H as <-.
  apply andb_true_iff in E. destruct E as [E1 E2].
  apply Z.leb_le in E1. apply Z.ltb_lt in E2.
  rewrite Forall_forall in Hb. apply Hb. apply nth_In. lia.
Qed.

(** ---- masks and shifts on bounded values ---- *)
Lemma wland_pow2 x m n : 0 <= n -> m = 2 ^ n -> Z.land x m = if Z.testbit x n then m else 0.
Proof.
  intros Hn ->. apply Z.bits_inj'. intros k Hk.
  rewrite Z.land_spec, Z.pow2_bits_eqb by lia.
  destruct (Z.testbit x n) eqn:E.
  - rewrite Z.pow2_bits_eqb by lia. destruct (Z.eqb_spec n k) as [<-|]; [rewrite E|rewrite andb_false_r]; reflexivity.
  - rewrite Z.bits_0. destruct (Z.eqb_spec n k) as [<-|]; [rewrite E|rewrite andb_false_r]; reflexivity.
Qed.

Lemma wtestbit_top x n lo : 0 <= n -> lo = 2 ^ n -> 0 <= x < 2 * lo -> Z.testbit x n = (lo <=? x).
Proof.
  intros Hn -> Hx.
  destruct (Z.leb_spec (2 ^ n) x) as [H|H].
  - rewrite Z.testbit_true by lia.
    assert (x / 2 ^ n = 1) as ->; [|reflexivity].
    symmetry. apply Z.div_unique with (r := x - 2 ^ n); lia.
  - apply Z.testbit_false; [lia|]. rewrite Z.div_small by lia. reflexivity.
Qed.

Lemma wlor_low a x : a mod 256 = 0 -> 0 <= x < 256 -> Z.lor a x = a + x.
Proof.
  intros Ha Hx.
  assert (Hl : Z.land a x = 0).
  { rewrite (Z.div_mod a 256) by lia. rewrite Ha, Z.add_0_r, Z.mul_comm.
    change 256 with (2 ^ 8). rewrite <- Z.shiftl_mul_pow2 by lia.
    apply Z.bits_inj'. intros k Hk. rewrite Z.land_spec, Z.bits_0, Z.shiftl_spec by lia.
    destruct (Z.ltb_spec k 8) as [L|L].
    - rewrite Z.testbit_neg_r by lia. reflexivity.
    - assert (Z.testbit x k = false) as ->; [|apply andb_false_r].
      apply Z.testbit_false; [lia|]. rewrite Z.div_small; [reflexivity|]. split; [lia|].
      apply Z.lt_le_trans with (2 ^ 8); [lia|]. apply Z.pow_le_mono_r; lia. }
  rewrite <- Z.lxor_lor by exact Hl. symmetry. apply Z.add_nocarry_lxor. exact Hl.
Qed.

Lemma wland_ones x m n : 0 <= n -> m = 2 ^ n - 1 -> Z.land x m = x mod 2 ^ n.
Proof. intros Hn ->. rewrite <- Z.land_ones by exact Hn. rewrite Z.ones_equiv. reflexivity. Qed.

Lemma wshl8_low t : ((Z.shiftl t 8) mod two64) mod 256 = 0.
Proof.
  rewrite Z.shiftl_mul_pow2 by lia. unfold two64. change (2 ^ 8) with 256. lia.
Qed.

(** ---- the closing tactic for decoders ---- *)
Ltac wire_unfold :=
  cbv beta iota zeta delta
    [Wire.get_packet_type Wire.be32_at Wire.be16_at Wire.get_srt_sequence_number Wire.is_srt_data_retransmit
     Wire.type_is Wire.is_srtla_reg1 Wire.is_srtla_reg2 Wire.is_srtla_reg3 Wire.is_srtla_keepalive Wire.is_srt_ack
     Wire.ts_loop Wire.extract_keepalive_timestamp Wire.extract_keepalive_conn_info Wire.parse_srt_ack
     leaf_wire_get_packet_type leaf_wire_get_srt_sequence_number leaf_wire_is_srt_data_retransmit
     leaf_wire_is_srtla_reg1 leaf_wire_is_srtla_reg2 leaf_wire_is_srtla_reg3 leaf_wire_is_srtla_keepalive
     leaf_wire_is_srt_ack leaf_wire_parse_srt_ack leaf_wire_extract_keepalive_timestamp
     leaf_wire_extract_keepalive_conn_info
     bind
     SRTLA_TYPE_REG1_LEN SRTLA_TYPE_REG2_LEN SRTLA_TYPE_REG3_LEN SRTLA_TYPE_REG1 SRTLA_TYPE_REG2 SRTLA_TYPE_REG3
     SRTLA_TYPE_KEEPALIVE SRTLA_TYPE_ACK SRT_TYPE_ACK SRT_TYPE_NAK SRTLA_KEEPALIVE_EXT_LEN SRTLA_KEEPALIVE_MAGIC
     SRTLA_KEEPALIVE_EXT_VERSION SRTLA_ID_LEN two31 two32 two64].

Ltac has_var t := match t with context [?v] => is_var v end.
Ltac closed t := tryif has_var t then fail else idtac.
Ltac is_zlit v := lazymatch v with Z0 => idtac | Zpos _ => idtac | Zneg _ => idtac end.

(* range of a byte expression / of be16, be32 of bytes, from the facts put in the context by [wire_get] *)
Ltac wire_range := unfold be16, be32 in *; lia.

Ltac wire_get b i :=
  let E := fresh "E" in
  let x := fresh "x" in
  destruct (get b i) as [x| |] eqn:E;
  [ try match goal with Hb : bytes_ok b |- _ => pose proof (wget_byte b i x Hb E) end
  | try (exfalso; rewrite wget_in in E by lia; discriminate E)
  | exfalso; exact (wget_not_fuel b i E) ].

Ltac wire_step :=
  match goal with
  (* a checked `+`/`*` (`if y <? 2^64 then .. else Oob`) that the bounds in force rule out: no case split *)
  | |- context [if (?y <? 18446744073709551616) then _ else _] =>
      replace (y <? 18446744073709551616) with true by (symmetry; apply Z.ltb_lt; lia)
  (* closed index arithmetic (unrolled loops): 2 + (0 + 1)  ~>  3 *)
  | |- context [get ?b ?i] =>
      lazymatch i with Z0 => fail | Zpos _ => fail | Zneg _ => fail | _ => idtac end;
      closed i; let v := eval vm_compute in i in is_zlit v; change i with v
  (* x & 2^n  ~>  if testbit x n then 2^n else 0 *)
  | |- context [Z.land ?x ?m] =>
      is_zlit m; let n := eval vm_compute in (Z.log2 m) in
      rewrite (wland_pow2 x m n) by first [reflexivity | lia]
  | |- context [Z.land ?m ?x] =>
      is_zlit m; let n := eval vm_compute in (Z.log2 m) in
      rewrite (Z.land_comm m x), (wland_pow2 x m n) by first [reflexivity | lia]
  (* x & (2^n - 1)  ~>  x mod 2^n *)
  | |- context [Z.land ?x ?m] =>
      is_zlit m; let n := eval vm_compute in (Z.log2 (m + 1)) in
      let p := eval vm_compute in (2 ^ n) in
      rewrite (wland_ones x m n) by first [reflexivity | lia]; change (2 ^ n) with p
  (* top bit of a bounded value is a comparison *)
  | |- context [Z.testbit ?x ?n] =>
      is_zlit n; let lo := eval vm_compute in (2 ^ n) in
      rewrite (wtestbit_top x n lo) by first [ reflexivity | lia | wire_range ]
  (* x >> n  ~>  x / 2^n *)
  | |- context [Z.shiftr ?x ?n] =>
      is_zlit n; let p := eval vm_compute in (2 ^ n) in
      rewrite (Z.shiftr_div_pow2 x n) by lia; change (2 ^ n) with p
  (* (t << 8) mod 2^64 | byte  ~>  sum *)
  | |- context [Z.lor ?a ?x] =>
      first [ rewrite (wlor_low a x) by first [ apply wshl8_low | wire_range ]
            | rewrite (Z.lor_comm a x), (wlor_low x a) by first [ apply wshl8_low | wire_range ] ]
  (* closed conditions *)
  | |- context [if ?c then _ else _] =>
      closed c; let v := eval vm_compute in c in
      lazymatch v with true => change c with true | false => change c with false end
  | |- context [if ?c then _ else _] =>
      lazymatch c with
      | context [get _ _] => fail
      | context [if _ then _ else _] => fail
      | _ => idtac
      end; destruct c eqn:?
  | |- context [get ?b ?i] => wire_get b i
  | |- context [match ?o with Some _ => _ | None => _ end] => destruct o eqn:?
  end; cbv beta iota.

Ltac wire_norm :=
  rewrite ?Z.shiftl_mul_pow2 by lia; change (2 ^ 8) with 256 in *.

Ltac wire_close :=
  first [ reflexivity
        | exfalso; lia
        | exfalso; congruence
        | exfalso; wire_range
        | wire_norm; first [ reflexivity | repeat f_equal; lia ]
        | leaf_eq ].

Ltac wire_auto := intros; wire_unfold; repeat wire_step; wire_close.

(** ---- types.rs ---- *)
Lemma leaf_wire_get_packet_type_ok b : Wire.get_packet_type b = leaf_wire_get_packet_type b.
Proof. wire_auto. Qed.

Lemma leaf_wire_get_srt_sequence_number_ok b :
  bytes_ok b -> Wire.get_srt_sequence_number b = leaf_wire_get_srt_sequence_number b.
Proof. wire_auto. Qed.

Lemma leaf_wire_is_srt_data_retransmit_ok b :
  bytes_ok b -> Wire.is_srt_data_retransmit b = leaf_wire_is_srt_data_retransmit b.
Proof. wire_auto. Qed.

Lemma leaf_wire_is_srtla_reg1_ok b : Wire.is_srtla_reg1 b = leaf_wire_is_srtla_reg1 b.
Proof. wire_auto. Qed.

Lemma leaf_wire_is_srtla_reg2_ok b : Wire.is_srtla_reg2 b = leaf_wire_is_srtla_reg2 b.
Proof. wire_auto. Qed.

Lemma leaf_wire_is_srtla_reg3_ok b : Wire.is_srtla_reg3 b = leaf_wire_is_srtla_reg3 b.
Proof. wire_auto. Qed.

Lemma leaf_wire_is_srtla_keepalive_ok b : Wire.is_srtla_keepalive b = leaf_wire_is_srtla_keepalive b.
Proof. wire_auto. Qed.

Lemma leaf_wire_is_srt_ack_ok b : Wire.is_srt_ack b = leaf_wire_is_srt_ack b.
Proof. wire_auto. Qed.

(** ---- parsers.rs ---- *)
Lemma leaf_wire_parse_srt_ack_ok b : Wire.parse_srt_ack b = leaf_wire_parse_srt_ack b.
Proof. wire_auto. Qed.

Lemma leaf_wire_extract_keepalive_timestamp_ok b :
  bytes_ok b -> Wire.extract_keepalive_timestamp b = leaf_wire_extract_keepalive_timestamp b.
Proof. wire_auto. Qed.

Lemma leaf_wire_extract_keepalive_conn_info_ok b :
  Wire.extract_keepalive_conn_info b = leaf_wire_extract_keepalive_conn_info b.
Proof. wire_auto. Qed.

(** `while` loop of parse_srtla_ack: the translation is a fuelled Fixpoint over the locals the body assigns
    (declaration order: out, i) with the same fuel as the hand model; index arithmetic on `i` is checked
    (overflow = panic), which the length bound of the hypothesis rules out (a Rust slice is shorter than
    2^63). *)
Definition res_map {A B} (f : A -> B) (r : res A) : res B :=
  match r with Ok a => Ok (f a) | Oob => Oob | Fuel => Fuel end.

Lemma leaf_wire_parse_srtla_ack_loop_ok fuel : forall b i out,
  0 <= i <= blen b -> blen b + 4 < two64 ->
  res_map fst (leaf_wire_parse_srtla_ack_loop1 fuel b out i) = Wire.ack_loop fuel b i out.
Proof.
  induction fuel as [|fuel IH]; intros b i out Hi Hb; [reflexivity|].
  unfold two64 in *.
  cbn [leaf_wire_parse_srtla_ack_loop1 Wire.ack_loop].
  cbv beta zeta delta [bind Wire.be32_at two64 res_map].
  repeat wire_step.
  all: first [ wire_close
             | rewrite <- IH by (unfold two64; lia); reflexivity
             | rewrite <- IH by (unfold two64; lia); unfold res_map;
               repeat match goal with |- context [leaf_wire_parse_srtla_ack_loop1 ?f ?b ?o ?j] =>
                        replace j with (i + 4) by lia end; reflexivity ].
Qed.

Lemma leaf_wire_parse_srtla_ack_ok b :
  blen b + 4 < two64 -> Wire.parse_srtla_ack b = leaf_wire_parse_srtla_ack b.
Proof.
  intros Hb.
  cbv beta zeta delta [Wire.parse_srtla_ack leaf_wire_parse_srtla_ack].
  wire_unfold.
  repeat wire_step.
  all: try (rewrite <- (leaf_wire_parse_srtla_ack_loop_ok (S (length b)) b) by (unfold two64 in *; lia);
            unfold res_map;
            match goal with |- context [leaf_wire_parse_srtla_ack_loop1 ?f ?b ?o ?j] =>
              destruct (leaf_wire_parse_srtla_ack_loop1 f b o j) as [[? ?]| |] end).
  all: wire_close.
Qed.

(** Nested `while` of parse_srt_nak.  The inner loop (`while seq <= end && out.len() < 1000`) is its own
    fuelled Fixpoint over (out, seq), started with the fuel the translator read off the `out.len() < K`
    conjunct, S (K - len out); the first lemma shows that this fuel is never exhausted (every iteration
    pushes) and that the result is the hand model's [nak_expand].  The outer loop is as for
    parse_srtla_ack. *)
Lemma blen_snoc (l : list Z) x : blen (l ++ [x]) = blen l + 1.
Proof. unfold blen. rewrite app_length. cbn [length]. lia. Qed.

Lemma leaf_wire_parse_srt_nak_loop2_ok fuel : forall en out seq,
  (Z.to_nat (Wire.NAK_RANGE_CAP - blen out) < fuel)%nat ->
  exists s, leaf_wire_parse_srt_nak_loop2 fuel en out seq
            = Ok (Wire.nak_expand (Z.to_nat (Wire.NAK_RANGE_CAP - blen out)) seq en out, s).
Proof.
  unfold Wire.NAK_RANGE_CAP.
  induction fuel as [|fuel IH]; intros en out seq Hf; [lia|].
  cbn [leaf_wire_parse_srt_nak_loop2]. cbv zeta.
  match goal with |- context [if ?c then _ else _] => destruct c eqn:C end.
  - pose proof (blen_snoc out seq) as Hl.
    match goal with |- context [leaf_wire_parse_srt_nak_loop2 fuel ?e ?o ?s] =>
      destruct (IH e o s) as [s' Hs]; [lia|]; exists s'; rewrite Hs end.
    rewrite Hl.
    replace (Z.to_nat (1000 - blen out)) with (S (Z.to_nat (1000 - (blen out + 1)))) by lia.
    cbn [Wire.nak_expand]. replace (seq <=? en) with true by lia. reflexivity.
  - exists seq. do 2 f_equal.
    destruct (Z.to_nat (1000 - blen out)) eqn:E; cbn [Wire.nak_expand]; [reflexivity|].
    replace (seq <=? en) with false by lia. reflexivity.
Qed.

(* equality of two applications whose arguments are equal up to linear arithmetic / byte ranges *)
Ltac eq_args := repeat first [ reflexivity | lia | wire_range | f_equal ].

Lemma leaf_wire_parse_srt_nak_loop1_ok fuel : forall b i out,
  bytes_ok b -> 0 <= i <= blen b -> blen b + 8 < two64 ->
  res_map fst (leaf_wire_parse_srt_nak_loop1 fuel b out i) = Wire.nak_loop fuel b i out.
Proof.
  induction fuel as [|fuel IH]; intros b i out Hbytes Hi Hb; [reflexivity|].
  unfold two64 in Hb.
  cbn [leaf_wire_parse_srt_nak_loop1 Wire.nak_loop].
  cbv beta zeta delta [bind Wire.be32_at two64 two31 Wire.NAK_RANGE_CAP].
  repeat wire_step.
  all: try (match goal with |- context [leaf_wire_parse_srt_nak_loop2 ?f ?e ?o ?s] =>
         let s' := fresh "s" in let Hs := fresh "Hs" in
         destruct (leaf_wire_parse_srt_nak_loop2_ok f e o s) as [s' Hs];
         [unfold Wire.NAK_RANGE_CAP; lia|]; unfold Wire.NAK_RANGE_CAP in Hs; rewrite Hs; cbv beta iota end).
  all: first [ wire_close | rewrite IH by first [assumption | unfold two64; lia]; eq_args ].
Qed.

Lemma leaf_wire_parse_srt_nak_ok b :
  bytes_ok b -> blen b + 8 < two64 -> Wire.parse_srt_nak b = leaf_wire_parse_srt_nak b.
Proof.
  intros Hbytes Hb.
  cbv beta zeta delta [Wire.parse_srt_nak leaf_wire_parse_srt_nak].
  wire_unfold.
  repeat wire_step.
  all: try (rewrite <- (leaf_wire_parse_srt_nak_loop1_ok (S (length b)) b) by first [assumption | unfold two64 in *; lia];
            unfold res_map;
            match goal with |- context [leaf_wire_parse_srt_nak_loop1 ?f ?b ?o ?j] =>
              destruct (leaf_wire_parse_srt_nak_loop1 f b o j) as [[? ?]| |] end).
  all: wire_close.
Qed.

(** ---- builders.rs ----
    The hand-written builders are plain list functions (they cannot fail); the translation is in the
    [res] monad because `copy_from_slice` panics on a length mismatch.  Both sides are computed (the
    arithmetic on the abstract arguments is left alone) and compared element by element. *)
Ltac wire_build_unfold :=
  cbv beta zeta delta
    [Wire.create_reg1_packet Wire.create_reg2_packet Wire.create_keepalive_packet Wire.create_keepalive_packet_ext
     leaf_wire_create_reg1_packet leaf_wire_create_reg2_packet leaf_wire_create_keepalive_packet
     leaf_wire_create_keepalive_packet_ext splice].

Ltac wire_list_eq :=
  lazymatch goal with
  | |- Ok _ = Ok _ => apply f_equal; wire_list_eq
  | |- _ :: _ = _ :: _ => apply (f_equal2 cons); [ first [reflexivity | lia] | wire_list_eq ]
  | |- _ => first [ reflexivity | symmetry; apply app_nil_r | apply app_nil_r ]
  end.

Ltac wire_build := 
  wire_build_unfold;
  repeat match goal with H : blen _ = _ |- _ => rewrite !H; clear H end;
  cbv -[Z.div Z.modulo];
  wire_list_eq.

Lemma leaf_wire_create_reg1_packet_ok id :
  blen id = SRTLA_ID_LEN -> Ok (Wire.create_reg1_packet id) = leaf_wire_create_reg1_packet id.
Proof. intros H. wire_build. Qed.

Lemma leaf_wire_create_reg2_packet_ok id :
  blen id = SRTLA_ID_LEN -> Ok (Wire.create_reg2_packet id) = leaf_wire_create_reg2_packet id.
Proof. intros H. wire_build. Qed.

Lemma leaf_wire_create_keepalive_packet_ok now :
  Ok (Wire.create_keepalive_packet now) = leaf_wire_create_keepalive_packet now.
Proof. wire_build. Qed.

Lemma leaf_wire_create_keepalive_packet_ext_ok info now :
  length info = 6%nat ->
  Ok (Wire.create_keepalive_packet_ext info now) = leaf_wire_create_keepalive_packet_ext info now.
Proof.
  intros H. do 7 (destruct info as [|? info]; try discriminate H). clear H. wire_build.
Qed.

(** create_ack_packet: `vec![0u8; 4 + 4 * acks.len()]`, three stores in the header, then
    `for (i, &ack) in acks.iter().enumerate()`, translated as a Fixpoint by structural recursion on the
    list (no fuel) with the counter i; every store is a [splice].  [splice_spec] is the only fact about
    [splice] the proofs use: a store inside the buffer succeeds, keeps the length and fixes the prefix
    up to its end. *)
Lemma splice_spec d lo hi s :
  0 <= lo <= hi -> hi <= blen d -> blen s = hi - lo ->
  exists d', splice d lo hi s = Ok d' /\ blen d' = blen d /\
             (forall n, n = Z.to_nat hi -> firstn n d' = firstn (Z.to_nat lo) d ++ s).
Proof.
  intros H1 H2 H3. unfold splice.
  replace ((0 <=? lo) && (lo <=? hi) && (hi <=? blen d) && (blen s =? hi - lo)) with true by lia.
  eexists. split; [reflexivity|]. unfold blen in *. split.
  - rewrite !app_length, firstn_length, skipn_length. lia.
  - intros n ->. rewrite app_assoc, firstn_app.
    rewrite app_length, firstn_length.
    replace (Z.to_nat hi - (Nat.min (Z.to_nat lo) (length d) + length s))%nat with 0%nat by lia.
    cbn [firstn]. rewrite app_nil_r. apply firstn_all2. rewrite app_length, firstn_length. lia.
Qed.

Ltac blen_lit := unfold blen; cbn [be_bytes length]; lia.

Ltac splice_step :=
  match goal with |- context [splice ?d ?lo ?hi ?s] =>
    let d' := fresh "d" in let E := fresh "E" in let L := fresh "L" in let F := fresh "F" in
    destruct (splice_spec d lo hi s) as (d' & E & L & F);
    [ lia | lia | first [ lia | blen_lit ] | rewrite E; cbv beta iota delta [bind] ]
  end.

Lemma blen_cons (a : Z) l : blen (a :: l) = blen l + 1.
Proof. unfold blen. cbn [length]. lia. Qed.

Lemma blen_repeat (x : Z) n : blen (repeat x n) = Z.of_nat n.
Proof. unfold blen. rewrite repeat_length. reflexivity. Qed.

Lemma leaf_wire_create_ack_packet_loop1_ok : forall l i pkt,
  0 <= i -> blen pkt = 4 + 4 * (i + blen l) -> 4 + 4 * (i + blen l) < two64 ->
  leaf_wire_create_ack_packet_loop1 l i pkt
  = Ok (firstn (Z.to_nat (4 + 4 * i)) pkt ++ concat (map (be_bytes 4) l)).
Proof.
  unfold two64.
  induction l as [|a l IH]; intros i pkt Hi Hp Hb; cbn [leaf_wire_create_ack_packet_loop1 map concat].
  - change (blen (@nil Z)) with 0 in Hp. rewrite app_nil_r, firstn_all2; [reflexivity|]. unfold blen in Hp. lia.
  - pose proof (blen_cons a l) as Hc. assert (0 <= blen l) by (unfold blen; lia).
    cbv zeta delta [two64]. repeat wire_step.
    splice_step.
    rewrite IH by lia. rewrite (F _) by lia. rewrite <- app_assoc.
    do 2 f_equal. f_equal. lia.
Qed.

Lemma leaf_wire_create_ack_packet_ok acks :
  4 + 4 * blen acks < two64 -> Ok (Wire.create_ack_packet acks) = leaf_wire_create_ack_packet acks.
Proof.
  unfold two64. intros Hb. assert (0 <= blen acks) by (unfold blen; lia).
  cbv beta zeta delta [Wire.create_ack_packet leaf_wire_create_ack_packet two64].
  repeat wire_step.
  match goal with |- context [repeat 0 ?n] => pose proof (blen_repeat 0 n); generalize dependent (repeat 0 n); intros end.
  repeat splice_step.
  rewrite leaf_wire_create_ack_packet_loop1_ok by (unfold two64; lia).
  repeat match goal with F : forall n, n = _ -> firstn n ?d = _ |- context [firstn _ ?d] => rewrite (F _) by lia end.
  cbn [Z.to_nat firstn app]. rewrite <- !app_assoc. reflexivity.
Qed.
