(** FloatP.v — a small toolkit for order reasoning about Coq primitive floats through
    Flocq's bridge (Flocq.IEEE754.PrimFloat): comparisons as real comparisons on finite
    values, monotonicity of [*] and [-] with respect to float bounds, non-NaN division,
    integer-to-float conversion.  Everything is phrased with the *boolean* float
    comparisons so that closed side conditions on constants are discharged by [vm_compute].

    Axioms reached through these lemmas (all from the standard library / Flocq, none
    declared here): FloatAxioms.*, Classical_Prop.classic, ClassicalDedekindReals.sig_forall_dec,
    sig_not_dec, FunctionalExtensionality.functional_extensionality_dep. *)
From Coq Require Import ZArith Reals Floats Lra Lia Bool.
Notation flt := PrimFloat.float (only parsing).
From Flocq Require Import Core BinarySingleNaN PrimFloat.
Local Open Scope R_scope.

Definition FR (x : flt) : R := B2R (Prim2B x).
Definition ffin (x : flt) : Prop := is_finite (Prim2B x) = true.
Definition fle (x y : flt) : Prop := (x <=? y)%float = true.

Notation rnd := (round radix2 (fexp prec emax) (round_mode mode_NE)).

Lemma ffin_b x : ffin x <-> PrimFloat.is_finite x = true.
Proof. unfold ffin. now rewrite is_finite_equiv. Qed.

Lemma ffin_not_nan x : ffin x -> PrimFloat.is_nan x = false.
Proof.
  unfold ffin. rewrite is_nan_equiv. now destruct (Prim2B x).
Qed.

(** comparisons on finite floats are real comparisons *)
Lemma leb_R x y : ffin x -> ffin y -> (x <=? y)%float = Rle_bool (FR x) (FR y).
Proof. intros. rewrite leb_equiv. now apply Bleb_correct. Qed.
Lemma ltb_R x y : ffin x -> ffin y -> (x <? y)%float = Rlt_bool (FR x) (FR y).
Proof. intros. rewrite ltb_equiv. now apply Bltb_correct. Qed.

Lemma fle_R x y : ffin x -> ffin y -> (fle x y <-> FR x <= FR y).
Proof.
  intros Hx Hy. unfold fle. rewrite leb_R by assumption.
  case Rle_bool_spec; intros; split; intros; try easy; lra.
Qed.

(** a value squeezed between two finite floats is finite; likewise below a finite float
    and above zero *)
Lemma fle_fin_between a x b : ffin a -> ffin b -> fle a x -> fle x b -> ffin x.
Proof.
  unfold ffin, fle. rewrite !leb_equiv. unfold Bleb, SFleb, SFcompare.
  destruct (Prim2B a) as [sa|sa| |sa ma ea Ha], (Prim2B x) as [sx|sx| |sx mx ex Hx],
           (Prim2B b) as [sb|sb| |sb mb eb Hb]; simpl; try easy;
  destruct sx; try easy; destruct sa; try easy; destruct sb; easy.
Qed.

Lemma fle_not_nan_l x y : fle x y -> PrimFloat.is_nan x = false.
Proof.
  unfold fle. rewrite leb_equiv, is_nan_equiv. unfold Bleb, SFleb, SFcompare.
  now destruct (Prim2B x).
Qed.
Lemma fle_not_nan_r x y : fle x y -> PrimFloat.is_nan y = false.
Proof.
  unfold fle. rewrite leb_equiv, is_nan_equiv. unfold Bleb, SFleb, SFcompare.
  destruct (Prim2B x) as [s|s| |s m e H], (Prim2B y) as [t|t| |t n f K]; simpl; try easy; now destruct s.
Qed.

(** trichotomy for non-NaN operands *)
Lemma not_ltb_fle a b :
  PrimFloat.is_nan a = false -> PrimFloat.is_nan b = false -> (a <? b)%float = false -> fle b a.
Proof.
  unfold fle. rewrite !is_nan_equiv, ltb_equiv, leb_equiv. unfold Bltb, Bleb, SFltb, SFleb.
  intros Na Nb. change (SFcompare (B2SF (Prim2B a)) (B2SF (Prim2B b))) with (Bcompare (Prim2B a) (Prim2B b)).
  change (SFcompare (B2SF (Prim2B b)) (B2SF (Prim2B a))) with (Bcompare (Prim2B b) (Prim2B a)).
  rewrite (Bcompare_swap _ _ (Prim2B a) (Prim2B b)).
  destruct (Bcompare (Prim2B a) (Prim2B b)) as [[| |]|] eqn:E; simpl; try easy.
  revert E. unfold Bcompare, SFcompare.
  destruct (Prim2B a) as [s|s| |s m e H], (Prim2B b) as [t|t| |t n f K]; simpl in *; try easy;
  try (now destruct s); try (now destruct t); try (destruct s, t; easy).
Qed.

Lemma ltb_fle a b : (a <? b)%float = true -> fle a b.
Proof.
  unfold fle. rewrite ltb_equiv, leb_equiv. unfold Bltb, Bleb, SFltb, SFleb.
  now destruct (SFcompare (B2SF (Prim2B a)) (B2SF (Prim2B b))) as [[| |]|].
Qed.

Lemma fle_trans a b c : ffin a -> ffin b -> ffin c -> fle a b -> fle b c -> fle a c.
Proof.
  intros Ha Hb Hc. rewrite !fle_R by assumption. lra.
Qed.

Lemma fle_refl a : ffin a -> fle a a.
Proof. intros. rewrite fle_R by assumption. lra. Qed.

(** [0 <= x] implies [-1 < x] (x may be +infinity) *)
Lemma fle0_gt_m1 x : fle 0%float x -> ((-1)%float <? x)%float = true.
Proof.
  unfold fle. rewrite leb_spec, ltb_spec.
  change (Prim2SF 0%float) with (S754_zero false).
  change (Prim2SF (-1)%float) with (S754_finite true 4503599627370496 (-52)).
  destruct (Prim2SF x) as [s|s| |s m e]; simpl; try easy; now destruct s.
Qed.

(** ---- multiplication ------------------------------------------------------------------ *)
Local Instance Vexp : Valid_exp (fexp prec emax) := fexp_correct prec emax Hprec.
Local Instance Vrnd : Valid_rnd (round_mode mode_NE) := valid_rnd_round_mode mode_NE.
Lemma rnd_le x y : x <= y -> rnd x <= rnd y.
Proof. apply round_le; auto with typeclass_instances. Qed.
Lemma rnd_FR x : rnd (FR x) = FR x.
Proof. apply round_generic; auto with typeclass_instances. apply generic_format_B2R. Qed.
Lemma rnd_0 : rnd 0 = 0.
Proof. apply round_0; auto with typeclass_instances. Qed.
Lemma FR_lt_emax x : Rabs (FR x) < bpow radix2 emax.
Proof. apply abs_B2R_lt_emax. Qed.

(** a finite product is the rounded real product *)
Lemma mul_fin_R a b : ffin (a * b)%float -> FR (a * b)%float = rnd (FR a * FR b) /\ ffin a /\ ffin b.
Proof.
  unfold ffin, FR. rewrite mul_equiv. intros F.
  generalize (Bmult_correct prec emax Hprec Hmax mode_NE (Prim2B a) (Prim2B b)).
  case Rlt_bool_spec; intros _.
  - intros (H1 & H2 & _). split; [exact H1|]. rewrite F in H2. symmetry in H2.
    now apply andb_true_iff in H2.
  - intros H. exfalso. revert F. rewrite <- is_finite_SF_B2SF, H. unfold binary_overflow. simpl.
    now destruct (xorb _ _).
Qed.

(** if the real product stays within the float range the product is finite and correctly rounded *)
Lemma mul_R_fin x y : ffin x -> ffin y -> Rabs (rnd (FR x * FR y)) < bpow radix2 emax ->
  ffin (x * y)%float /\ FR (x * y)%float = rnd (FR x * FR y).
Proof.
  unfold ffin, FR. intros Fx Fy Hb. rewrite mul_equiv.
  generalize (Bmult_correct prec emax Hprec Hmax mode_NE (Prim2B x) (Prim2B y)).
  rewrite Rlt_bool_true by exact Hb. intros (H1 & H2 & _). rewrite Fx, Fy in H2. now split.
Qed.

Lemma ffin_SF x : ffin x <-> is_finite_SF (Prim2SF x) = true.
Proof. unfold ffin. now rewrite <- is_finite_SF_B2SF, B2SF_Prim2B. Qed.

(** 0 <= a <= x <= b with b finite: a and x are finite *)
Lemma fin_squeeze a x b : ffin b -> fle 0%float a -> fle a x -> fle x b -> ffin x /\ ffin a.
Proof.
  rewrite !ffin_SF. unfold fle. rewrite !leb_spec.
  change (Prim2SF 0%float) with (S754_zero false).
  unfold SFleb, SFcompare.
  destruct (Prim2SF a) as [sa|sa| |sa ma ea], (Prim2SF x) as [sx|sx| |sx mx ex],
           (Prim2SF b) as [sb|sb| |sb mb eb]; simpl; try easy;
  destruct sa; try easy; destruct sx; try easy; destruct sb; easy.
Qed.

(** monotonicity on the non-negative quadrant, all bounds being floats:
    0 <= a1 <= x <= a2, 0 <= b1 <= y <= b2, a2*b2 finite  ==>  a1*b1 <= x*y <= a2*b2, all finite *)
Lemma mul_mono a1 a2 b1 b2 x y :
  ffin (a2 * b2)%float -> fle 0%float a1 -> fle a1 x -> fle x a2 ->
  fle 0%float b1 -> fle b1 y -> fle y b2 ->
  ffin (x * y)%float /\ fle (a1 * b1)%float (x * y)%float /\ fle (x * y)%float (a2 * b2)%float /\
  fle 0%float (x * y)%float /\ ffin (a1 * b1)%float.
Proof.
  intros F2 A0 A1 A2 B0 B1 B2.
  destruct (mul_fin_R _ _ F2) as (E2 & Fa2 & Fb2).
  assert (F0 : ffin 0%float) by reflexivity.
  assert (R0 : FR 0%float = 0) by reflexivity.
  destruct (fin_squeeze _ _ _ Fa2 A0 A1 A2) as (Fx & Fa1).
  destruct (fin_squeeze _ _ _ Fb2 B0 B1 B2) as (Fy & Fb1).
  apply fle_R in A0, A1, A2, B0, B1, B2; auto. rewrite R0 in A0, B0.
  assert (P1 : 0 <= FR a1 * FR b1) by (apply Rmult_le_pos; lra).
  assert (P2 : FR a1 * FR b1 <= FR x * FR y) by (apply Rmult_le_compat; lra).
  assert (P3 : FR x * FR y <= FR a2 * FR b2) by (apply Rmult_le_compat; lra).
  assert (Hb : forall u, 0 <= u <= FR a2 * FR b2 -> Rabs (rnd u) < bpow radix2 emax).
  { intros u (U0 & U1). apply rnd_le in U0, U1. rewrite rnd_0 in U0.
    rewrite Rabs_pos_eq by exact U0. apply Rle_lt_trans with (1 := U1).
    rewrite <- E2. apply Rle_lt_trans with (2 := FR_lt_emax (a2 * b2)%float). apply RRle_abs. }
  destruct (mul_R_fin x y Fx Fy) as (Fxy & Exy). { apply Hb. lra. }
  destruct (mul_R_fin a1 b1 Fa1 Fb1) as (F1 & E1). { apply Hb. lra. }
  repeat split; auto.
  - apply fle_R; auto. rewrite E1, Exy. now apply rnd_le.
  - apply fle_R; auto. rewrite E2, Exy. now apply rnd_le.
  - apply fle_R; auto. rewrite R0, Exy. rewrite <- rnd_0. apply rnd_le. lra.
Qed.

(** ---- subtraction --------------------------------------------------------------------- *)
Lemma sub_fin_R a b : ffin a -> ffin b -> ffin (a - b)%float -> FR (a - b)%float = rnd (FR a - FR b).
Proof.
  unfold ffin, FR. rewrite sub_equiv. intros Fa Fb F.
  generalize (Bminus_correct prec emax Hprec Hmax mode_NE (Prim2B a) (Prim2B b) Fa Fb).
  case Rlt_bool_spec; intros _.
  - now intros (H1 & _).
  - intros (H & _). exfalso. revert F. rewrite <- is_finite_SF_B2SF, H. unfold binary_overflow. simpl.
    now destruct (Bsign _).
Qed.

Lemma sub_R_fin x y : ffin x -> ffin y -> Rabs (rnd (FR x - FR y)) < bpow radix2 emax ->
  ffin (x - y)%float /\ FR (x - y)%float = rnd (FR x - FR y).
Proof.
  unfold ffin, FR. intros Fx Fy Hb. rewrite sub_equiv.
  generalize (Bminus_correct prec emax Hprec Hmax mode_NE (Prim2B x) (Prim2B y) Fx Fy).
  rewrite Rlt_bool_true by exact Hb. intros (H1 & H2 & _). now split.
Qed.

(** c - p is antitone in p:  p1 <= p <= p2 (finite), c - p1 and c - p2 finite
    ==>  c - p2 <= c - p <= c - p1 *)
Lemma sub_mono c p1 p2 p :
  ffin c -> ffin p1 -> ffin p2 -> ffin (c - p1)%float -> ffin (c - p2)%float ->
  fle p1 p -> fle p p2 ->
  ffin (c - p)%float /\ fle (c - p2)%float (c - p)%float /\ fle (c - p)%float (c - p1)%float.
Proof.
  intros Fc F1 F2 G1 G2 L1 L2.
  assert (Fp : ffin p) by (apply (fle_fin_between p1 p p2); auto).
  apply fle_R in L1, L2; auto.
  pose proof (sub_fin_R _ _ Fc F1 G1) as E1. pose proof (sub_fin_R _ _ Fc F2 G2) as E2.
  assert (U1 : rnd (FR c - FR p) <= FR (c - p1)%float) by (rewrite E1; apply rnd_le; lra).
  assert (U2 : FR (c - p2)%float <= rnd (FR c - FR p)) by (rewrite E2; apply rnd_le; lra).
  destruct (sub_R_fin c p Fc Fp) as (F & E).
  { pose proof (FR_lt_emax (c - p1)%float) as B1. pose proof (FR_lt_emax (c - p2)%float) as B2.
    apply Rabs_def1; [|apply Rabs_def2 in B2]; [|destruct B2]; try lra.
    apply Rle_lt_trans with (1 := U1). apply Rle_lt_trans with (2 := B1). apply RRle_abs. }
  repeat split; auto; apply fle_R; auto; rewrite E; assumption.
Qed.

(** ---- division: finite / finite non-zero is never NaN ----------------------------------- *)
Lemma div_not_nan x y :
  PrimFloat.is_nan x = false -> ffin y -> FR y <> 0 -> PrimFloat.is_nan (x / y)%float = false.
Proof.
  unfold ffin, FR. rewrite !is_nan_equiv, div_equiv. intros Nx Fy Zy.
  generalize (Bdiv_correct prec emax Hprec Hmax mode_NE (Prim2B x) (Prim2B y) Zy).
  destruct (Prim2B y) as [sy|sy| |sy my ey Hy]; try easy; try (now elim Zy).
  destruct (Prim2B x) as [sx|sx| |sx mx ex Hx]; try easy; try (intros _; reflexivity).
  case Rlt_bool_spec; intros _.
  - intros (_ & H & _). revert H.
    generalize (@Bdiv prec emax Hprec Hmax mode_NE (B754_finite sx mx ex Hx) (B754_finite sy my ey Hy)).
    intros z; now destruct z.
  - intros H. rewrite <- is_nan_SF_B2SF, H. unfold binary_overflow. simpl. now destruct (xorb _ _).
Qed.

(** ---- integer -> float --------------------------------------------------------------- *)
Definition ofZ (n : Z) : flt := of_uint63 (Uint63.of_Z n).

Lemma ofZ_R n : (0 <= n < 9223372036854775808)%Z -> ffin (ofZ n) /\ FR (ofZ n) = rnd (IZR n).
Proof.
  intros Hn. unfold ffin, FR, ofZ. rewrite of_int63_equiv.
  rewrite Uint63.of_Z_spec. rewrite Z.mod_small by (change Uint63.wB with 9223372036854775808%Z; lia).
  generalize (binary_normalize_correct prec emax Hprec Hmax mode_NE n 0 false).
  assert (E : F2R (Float radix2 n 0) = IZR n) by (unfold F2R; simpl; lra).
  cbv zeta. rewrite E.
  rewrite Rlt_bool_true.
  - intros (H1 & H2 & _). now split.
  - assert (B : IZR n <= bpow radix2 63).
    { change (bpow radix2 63) with (IZR (2 ^ 63)). apply IZR_le. lia. }
    apply rnd_le in B. rewrite (round_generic radix2 _ _ (bpow radix2 63)) in B.
    2:{ apply generic_format_bpow. unfold fexp, emin, prec, emax. simpl. lia. }
    assert (P : 0 <= rnd (IZR n)). { rewrite <- rnd_0. apply rnd_le. apply IZR_le. lia. }
    rewrite Rabs_pos_eq by exact P. apply Rle_lt_trans with (1 := B). apply bpow_lt. unfold emax. lia.
Qed.

Lemma ofZ_mono n m : (0 <= n <= m)%Z -> (m < 9223372036854775808)%Z -> fle (ofZ n) (ofZ m).
Proof.
  intros H1 H2. destruct (ofZ_R n) as (Fn & En); [lia|]. destruct (ofZ_R m) as (Fm & Em); [lia|].
  apply fle_R; auto. rewrite En, Em. apply rnd_le. apply IZR_le. lia.
Qed.

Lemma ofZ_nonneg n : (0 <= n < 9223372036854775808)%Z -> fle 0%float (ofZ n).
Proof. intros H. change 0%float with (ofZ 0). apply ofZ_mono; lia. Qed.
