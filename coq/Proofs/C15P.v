(** C15P.v — the model's decoders satisfy the C15 monitor on every input. *)
From Srtla Require Import Base Constants Wire WireSpec WireP Run_C15.
From Coq Require Import ZifyBool.

Lemma zlist_eqb_refl l : zlist_eqb l l = true.
Proof. induction l as [|x l IH]; cbn; [reflexivity|]. rewrite Z.eqb_refl, IH. reflexivity. Qed.
Lemma ozeqb_refl o : ozeqb o o = true.
Proof. destruct o; cbn; [apply Z.eqb_refl|reflexivity]. Qed.

Lemma kats_some b v : extract_keepalive_timestamp b = Ok (Some v) ->
  (10 <=? blen b) && ozeqb (spec_type b) (Some SRTLA_TYPE_KEEPALIVE) = true.
Proof.
  unfold extract_keepalive_timestamp. destruct (blen b <? 10) eqn:E; [discriminate|].
  rewrite get_packet_type_ok, spec_type_nth. cbn [bind].
  destruct (blen b <? 2) eqn:E2; [discriminate|].
  destruct (_ =? SRTLA_TYPE_KEEPALIVE) eqn:Et; [|discriminate].
  intros _. cbn [ozeqb opt_eqb]. rewrite Et. lia.
Qed.

Theorem model_dec_ok b : ok_dec b (model_dec b) = true.
Proof.
  unfold model_dec.
  rewrite get_packet_type_ok, get_srt_sequence_number_spec, is_srt_data_retransmit_spec.
  cbn [bind].
  destruct (total_extract_keepalive_timestamp b) as [ts Hts]. rewrite Hts. cbn [bind].
  destruct (total_extract_keepalive_conn_info b) as [inf Hinf]. rewrite Hinf. cbn [bind].
  rewrite parse_srt_ack_spec, parse_srt_nak_spec, parse_srtla_ack_spec. cbn [bind].
  destruct (total_is_srtla_reg1 b) as [r1 H1]. rewrite H1. cbn [bind].
  destruct (total_is_srtla_reg2 b) as [r2 H2]. rewrite H2. cbn [bind].
  destruct (total_is_srtla_reg3 b) as [r3 H3]. rewrite H3. cbn [bind].
  destruct (total_type_is b SRTLA_TYPE_KEEPALIVE) as [ka Hka]. unfold is_srtla_keepalive. rewrite Hka. cbn [bind].
  destruct (total_type_is b SRT_TYPE_ACK) as [sa Hsa]. unfold is_srt_ack. rewrite Hsa. cbn [bind].
  unfold ok_dec. cbn [d_panic d_type d_seq d_retr d_kats d_info d_ack d_nak d_sack d_is negb andb].
  rewrite <- spec_type_nth.
  rewrite !ozeqb_refl, !zlist_eqb_refl, Bool.eqb_reflx. cbn [andb].
  pose proof (parse_srt_nak_bound b _ (parse_srt_nak_spec b)) as [Hb1 Hb2].
  replace (blen (spec_parse_srt_nak b) <=? 1000 + (blen b - 4) / 4) with true by lia.
  cbn [andb].
  assert (Hk : match ts with None => true | Some _ =>
             (10 <=? blen b) && ozeqb (spec_type b) (Some SRTLA_TYPE_KEEPALIVE) end = true).
  { destruct ts; [|reflexivity]. eapply kats_some; eassumption. }
  rewrite Hk, andb_true_r.
  destruct (blen b <? 8) eqn:E8; [|reflexivity].
  rewrite Hb2 by lia. reflexivity.
Qed.
