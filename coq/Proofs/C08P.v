(** C08P.v — the monitor holds on every trace of the model (clauses 1,2,3,4,5,6), proved
    link by link on top of [step_rel]. *)
From Coq Require Import ZifyBool.
From Srtla Require Import Base Constants Reconnect ReconShell ReconStep ReconnectP ReconStepP Mon_C08 Run_C08.
Local Open Scope Z_scope.
Ltac Zify.zify_post_hook ::= Z.div_mod_to_equations.

(** per-link invariant of reachable states *)
Definition LInv (l : link) : Prop :=
  0 <= r_fail (l_rc l) /\ (forall x, l_lr l = Some x -> 0 <= x) /\
  (l_conn l = true -> r_est (l_rc l) <> 0) /\ 0 < l_to l.

(** the monitor's bookkeeping for a link agrees with the model link *)
Definition SyncL (m : mlink) (l : link) : Prop :=
  m_prev m = obs_link l /\ (m_ever m = true -> r_est (l_rc l) <> 0) /\ (l_sock l = false -> m_shut m = true) /\
  (* the monitor's own "last heard" never runs ahead of the stamp of a connected link *)
  (forall h, m_heard m = Some h -> l_conn l = true -> exists x, l_lr l = Some x /\ h <= x).

Definition op_pos (o : op) : Prop := forall t, op_time o = Some t -> 0 < t.
Definition op_refresh (o : op) : Prop := match o with OTick _ r _ _ => r = true | _ => True end.

(** ---- the three shapes of a housekeeping pass on one link ---- *)
Lemma tls_cases : forall l now classic dg w,
  let l' := tick_link_state l now classic dg w in
  (is_timed_out l now = true /\ should_attempt (l_rc l) now = true /\
   (l' = reconnected (set_rc l (record_attempt (l_rc l) now)) now \/
    l' = mark_for_recovery (set_rc l (record_attempt (l_rc l) now)))) \/
  (is_timed_out l now = true /\ should_attempt (l_rc l) now = false /\ l' = l) \/
  (is_timed_out l now = false /\ l_conn l' = l_conn l /\ l_lr l' = l_lr l /\ l_rc l' = l_rc l /\
   l_gen l' = l_gen l /\ l_to l' = l_to l /\ l_sock l' = l_sock l /\ l_inf l' = l_inf l).
Proof.
  intros. unfold l', tick_link_state.
  destruct (is_timed_out l now).
  - destruct (should_attempt (l_rc l) now).
    + left. repeat split. destruct (_ && _); [left|right]; reflexivity.
    + right. left. auto.
  - right. right. split; [reflexivity|].
    destruct (negb classic && l_conn l); cbn; repeat split; reflexivity.
Qed.

Lemma LInv_pre : forall l cfg now (refresh regrace : bool), 0 < cfg -> LInv l ->
  LInv (let l0 := if refresh then set_to l cfg else l in
        if regrace then set_grace l0 (now + STARTUP_GRACE_MS) else l0).
Proof.
  intros l cfg now refresh regrace Hc [H1 [H2 [H3 H4]]].
  destruct refresh, regrace; cbn; unfold LInv; cbn; auto.
Qed.

Lemma LInv_tls : forall l now classic dg w, 0 < now -> LInv l -> LInv (tick_link_state l now classic dg w).
Proof.
  intros l now classic dg w Hn [H1 [H2 [H3 H4]]].
  pose proof (record_attempt_fail_nonneg (l_rc l) now H1) as F.
  destruct (tls_cases l now classic dg w) as [[_ [_ [E|E]]]|[[_ [_ E]]|[_ [E1 [E2 [E3 [_ [E4 _]]]]]]]].
  - rewrite E. unfold LInv. cbn. repeat split; try lia; try discriminate; auto.
  - rewrite E. unfold LInv. cbn. repeat split; try lia; try discriminate; auto.
  - rewrite E. unfold LInv. auto.
  - unfold LInv. rewrite E1, E2, E3, E4. auto.
Qed.

Lemma LStep_inv : forall cfg pb o i l l', 0 < cfg -> op_pos o -> LInv l -> LStep cfg pb o i l l' -> LInv l'.
Proof.
  intros cfg pb o i l l' Hc Hp HI H.
  assert (HI' := HI). destruct HI' as [H1 [H2 [H3 H4]]].
  destruct o; cbn [LStep] in H; unfold on_i in H.
  - subst; exact HI.
  - subst; exact HI.
  - destruct H as [->| ->]; [exact HI|]. unfold LInv; cbn; auto.
  - destruct H as [rg [classic [dg [w [_ ->]]]]].
    apply LInv_tls; [apply Hp; reflexivity|]. apply LInv_pre; assumption.
  - subst. destruct (Nat.eqb i i0); [|exact HI]. unfold LInv; cbn.
    assert (0 < now) by (apply Hp; reflexivity).
    repeat split; try lia; [intros x E; inversion E; lia|intros _; destruct (r_est (l_rc l) =? 0) eqn:E; lia].
  - subst; exact HI.
  - subst; exact HI.
  - subst. destruct (Nat.eqb i i0); [|exact HI]. unfold LInv; cbn. repeat split; auto; discriminate.
  - subst. destruct (Nat.eqb i i0); [|exact HI].
    assert (0 < now) by (apply Hp; reflexivity).
    destruct ok; unfold LInv; cbn; (repeat split; auto; intros x E; inversion E; lia).
  - assert (0 < now) by (apply Hp; reflexivity).
    assert (A : LInv (if Nat.eqb i i0 then set_lr l (Some now) else l)).
    { destruct (Nat.eqb i i0); [|exact HI]. unfold LInv; cbn. repeat split; auto. intros x E; inversion E; lia. }
    destruct H as [->|[c ->]]; [exact A|].
    destruct (_ || _); [|exact A]. destruct A as [A1 [A2 [A3 A4]]]. unfold LInv; cbn; auto.
  - destruct H as [l1 [Hl1 Hl']].
    assert (A : LInv l1).
    { destruct Hl1 as [->|[g ->]]; [exact HI|]. unfold LInv; cbn; auto. }
    destruct Hl' as [->| ->]; [exact A|]. unfold forward.
    destruct (flushed && l_io l1); [|exact A].
    destruct A as [A1 [A2 [A3 A4]]].
    destruct (l_sock (set_inf l1 inf')); unfold LInv; cbn; repeat split; auto; discriminate.
  - destruct H as [f ->]. destruct (l_io l); [|exact HI]. unfold LInv; cbn; auto.
  - subst. destruct (Nat.eqb i i0); [|exact HI]. unfold LInv; cbn; auto.
  - subst. destruct (Nat.eqb i i0); [|exact HI]. unfold LInv; cbn; auto.
  - subst. destruct (Nat.eqb i i0); [|exact HI]. unfold LInv; cbn; auto.
  - subst. destruct (Nat.eqb i i0); [|exact HI]. unfold LInv; cbn; auto.
  - subst; exact HI.
Qed.

(** ---- facts about one link transition ---- *)
Ltac lstep_destruct H :=
  match type of H with
  | LStep _ _ ?o _ _ _ => destruct o; cbn [LStep] in H; unfold on_i in H
  end.

(** the establishment stamp is never cleared *)
Lemma LStep_est : forall cfg pb o i l l', op_pos o -> LStep cfg pb o i l l' ->
  r_est (l_rc l) <> 0 -> r_est (l_rc l') <> 0.
Proof.
  intros cfg pb o i l l' Hp H E. lstep_destruct H; subst; try assumption.
  - destruct H as [->| ->]; cbn; assumption.
  - destruct H as [rg [classic [dg [w [_ ->]]]]].
    set (l1 := if rg then _ else _).
    assert (E1 : r_est (l_rc l1) <> 0) by (unfold l1; destruct refresh, rg; cbn; assumption).
    destruct (tls_cases l1 now classic dg w) as [[_ [_ [X|X]]]|[[_ [_ X]]|[_ [_ [_ [X _]]]]]]; rewrite X; cbn;
      try rewrite record_attempt_est; assumption.
  - destruct (Nat.eqb i i0); [|assumption]. cbn. destruct (r_est (l_rc l) =? 0) eqn:Z; lia.
  - destruct (Nat.eqb i i0); cbn; assumption.
  - destruct (Nat.eqb i i0); [|assumption]. destruct ok; cbn; assumption.
  - destruct H as [->|[c ->]]; destruct (Nat.eqb i i0); cbn; try assumption;
      match goal with |- context [if ?b then _ else _] => destruct b end; cbn; assumption.
  - destruct H as [l1 [[->|[g ->]] [->| ->]]]; cbn; try assumption; unfold forward;
      match goal with |- context [if ?b then _ else _] => destruct b end; cbn; try assumption;
      match goal with |- context [if ?b then _ else _] => destruct b end; cbn; assumption.
  - destruct H as [f ->]. destruct (l_io l); cbn; assumption.
  - destruct (Nat.eqb i i0); cbn; assumption.
  - destruct (Nat.eqb i i0); cbn; assumption.
  - destruct (Nat.eqb i i0); cbn; assumption.
  - destruct (Nat.eqb i i0); cbn; assumption.
Qed.

(** the socket generation moves only by a re-creation, which yields a working socket; a
    socket stops accepting sends only by the fault op [OShut] *)
Lemma LStep_gen : forall cfg pb o i l l', LStep cfg pb o i l l' ->
  (l_gen l' = l_gen l /\ (l_sock l' = false -> l_sock l = false \/ exists j, o = OShut j /\ Nat.eqb i j = true)) \/
  (l_gen l' = l_gen l + 1 /\ l_sock l' = true /\ exists now r d w, o = OTick now r d w).
Proof.
  intros cfg pb o i l l' H. lstep_destruct H; subst; try (left; split; [reflexivity|auto]).
  - destruct H as [->| ->]; left; split; cbn; auto.
  - destruct H as [rg [classic [dg [w [_ ->]]]]].
    set (l1 := if rg then _ else _).
    assert (G1 : l_gen l1 = l_gen l /\ l_sock l1 = l_sock l) by (unfold l1; destruct refresh, rg; cbn; auto).
    destruct G1 as [G1 S1].
    destruct (tls_cases l1 now classic dg w) as [[_ [_ [X|X]]]|[[_ [_ X]]|[_ [_ [_ [_ [X [_ [Y _]]]]]]]]].
    + right. rewrite X. cbn. repeat split; [lia|]. eauto.
    + left. rewrite X. cbn. split; [lia|]. intros Hs. left. congruence.
    + left. rewrite X. split; [lia|]. intros Hs. left. congruence.
    + left. rewrite X, Y. split; [lia|]. intros Hs. left. congruence.
  - destruct (Nat.eqb i i0); cbn; left; auto.
  - destruct (Nat.eqb i i0); cbn; left; auto.
  - destruct (Nat.eqb i i0); [destruct ok|]; cbn; left; auto.
  - left. destruct H as [->|[c ->]]; destruct (Nat.eqb i i0); cbn;
      try match goal with |- context [if ?b then _ else _] => destruct b end; cbn; auto.
  - left. destruct H as [l1 [Hl1 Hl']].
    assert (G : l_gen l1 = l_gen l /\ l_sock l1 = l_sock l) by (destruct Hl1 as [->|[g ->]]; cbn; auto).
    destruct G as [G1 G2].
    destruct Hl' as [->| ->]; [split; [lia|intros; left; congruence]|].
    unfold forward. destruct (flushed && l_io l1); [|split; [lia|intros; left; congruence]].
    destruct (l_sock (set_inf l1 inf')) eqn:S; cbn in *.
    + split; [lia|intros; left; congruence].
    + split; [lia|intros; left; congruence].
  - left. destruct H as [f ->]. destruct (l_io l); cbn; auto.
  - destruct (Nat.eqb i i0); cbn; left; auto.
  - destruct (Nat.eqb i i0) eqn:E; cbn; left; split; auto. intros _. right. exists i0. auto.
  - destruct (Nat.eqb i i0); cbn; left; auto.
  - destruct (Nat.eqb i i0); cbn; left; auto.
Qed.

(** ---- clause 1: why a link can be torn down ---- *)
Definition torn_link (l l' : link) : bool := negb (l_gen l' =? l_gen l) || (l_conn l && negb (l_conn l')).

Definition heard_nothing_l (l : link) (now cfg : Z) : Prop :=
  match l_lr l with
  | None => l_conn l = false
  | Some lr => cfg <= now - lr
  end.

Lemma LStep_torn : forall cfg pb o i l l', 0 < cfg -> op_refresh o -> LStep cfg pb o i l l' ->
  torn_link l l' = true ->
  match o with
  | OTick now _ _ _ => heard_nothing_l l now cfg
  | OData _ _ _ _ _ => l_gen l' = l_gen l /\ l_sock l = false
  | ORegErr j _ => Nat.eqb i j = true /\ l_gen l' = l_gen l
  | _ => False
  end.
Proof.
  intros cfg pb o i l l' Hc Hr H T. unfold torn_link in T.
  lstep_destruct H; subst;
    try (exfalso; rewrite Z.eqb_refl in T; cbn in T; destruct (l_conn l); cbn in T; discriminate).
  - exfalso. destruct H as [->| ->]; cbn in T; rewrite Z.eqb_refl in T; destruct (l_conn l); discriminate.
  - cbn in Hr. subst refresh. destruct H as [rg [classic [dg [w [_ ->]]]]].
    set (l1 := if rg then _ else _) in *.
    assert (G : l_gen l1 = l_gen l /\ l_conn l1 = l_conn l /\ l_lr l1 = l_lr l /\ l_to l1 = cfg)
      by (unfold l1; destruct rg; cbn; auto).
    destruct G as [G1 [G2 [G3 G4]]].
    destruct (tls_cases l1 now classic dg w) as [[TO _]|[[_ [_ X]]|[_ [X1 [_ [_ [X2 _]]]]]]].
    + unfold heard_nothing_l. destruct (l_conn l) eqn:C.
      * destruct (timed_out_connected l1 now) as [lr [E1 E2]]; try congruence; try lia.
        rewrite G3 in E1. rewrite E1. lia.
      * destruct (timed_out_disconnected l1 now) as [E|[lr [E1 E2]]]; try congruence; try lia.
        -- rewrite G3 in E. rewrite E. reflexivity.
        -- rewrite G3 in E1. rewrite E1. lia.
    + exfalso. rewrite X, G1, G2, Z.eqb_refl in T. destruct (l_conn l); discriminate.
    + exfalso. rewrite X1, X2, G1, G2, Z.eqb_refl in T. destruct (l_conn l); discriminate.
  - exfalso. destruct (Nat.eqb i i0); cbn in T; rewrite Z.eqb_refl in T; destruct (l_conn l); discriminate.
  - destruct (Nat.eqb i i0) eqn:E; cbn in T |- *.
    + split; reflexivity.
    + exfalso. rewrite Z.eqb_refl in T. destruct (l_conn l); discriminate.
  - exfalso. destruct (Nat.eqb i i0); [destruct ok|]; cbn in T; rewrite Z.eqb_refl in T; destruct (l_conn l); discriminate.
  - exfalso. destruct H as [->|[c ->]]; destruct (Nat.eqb i i0); cbn in T;
      try match type of T with context [if ?b then _ else _] => destruct b end; cbn in T;
      rewrite Z.eqb_refl in T; destruct (l_conn l); discriminate.
  - destruct H as [l1 [Hl1 Hl']].
    assert (G : l_gen l1 = l_gen l /\ l_sock l1 = l_sock l /\ l_conn l1 = l_conn l)
      by (destruct Hl1 as [->|[g ->]]; cbn; auto).
    destruct G as [G1 [G2 G3]].
    destruct Hl' as [->| ->].
    { exfalso. rewrite G1, G3, Z.eqb_refl in T. destruct (l_conn l); discriminate. }
    unfold forward in *. destruct (flushed && l_io l1).
    2:{ exfalso. rewrite G1, G3, Z.eqb_refl in T. destruct (l_conn l); discriminate. }
    destruct (l_sock (set_inf l1 inf')) eqn:S; cbn in *.
    + exfalso. rewrite G1, G3, Z.eqb_refl in T. destruct (l_conn l); discriminate.
    + split; congruence.
  - exfalso. destruct H as [f ->]. destruct (l_io l); cbn in T; rewrite Z.eqb_refl in T; destruct (l_conn l); discriminate.
  - exfalso. destruct (Nat.eqb i i0); cbn in T; rewrite Z.eqb_refl in T; destruct (l_conn l); discriminate.
  - exfalso. destruct (Nat.eqb i i0); cbn in T; rewrite Z.eqb_refl in T; destruct (l_conn l); discriminate.
  - exfalso. destruct (Nat.eqb i i0); cbn in T; rewrite Z.eqb_refl in T; destruct (l_conn l); discriminate.
  - exfalso. destruct (Nat.eqb i i0); cbn in T; rewrite Z.eqb_refl in T; destruct (l_conn l); discriminate.
Qed.

(** ---- clause 2: attempts happen only in ticks and are spaced ---- *)
Lemma LStep_last : forall cfg pb o i l l', LInv l -> LStep cfg pb o i l l' ->
  r_last (l_rc l') <> r_last (l_rc l) ->
  exists now r d w, o = OTick now r d w /\ r_last (l_rc l') = now /\
    (r_last (l_rc l) = 0 \/ (if r_est (l_rc l) =? 0 then 1000 else 5000) <= now - r_last (l_rc l)).
Proof.
  intros cfg pb o i l l' HI H N. destruct HI as [H1 _].
  lstep_destruct H; subst; try (exfalso; apply N; reflexivity).
  - exfalso. destruct H as [->| ->]; apply N; reflexivity.
  - destruct H as [rg [classic [dg [w [_ ->]]]]].
    set (l1 := if rg then _ else _) in *.
    assert (G : r_last (l_rc l1) = r_last (l_rc l) /\ r_est (l_rc l1) = r_est (l_rc l) /\ r_fail (l_rc l1) = r_fail (l_rc l))
      by (unfold l1; destruct refresh, rg; cbn; auto).
    destruct G as [G1 [G2 G3]].
    exists now, refresh, dgs, ws. split; [reflexivity|].
    destruct (tls_cases l1 now classic dg w) as [[_ [SA [X|X]]]|[[_ [_ X]]|[_ [_ [_ [X _]]]]]].
    + rewrite X. cbn. split; [reflexivity|].
      pose proof (should_attempt_spacing (l_rc l1) now ltac:(lia) SA) as SP. rewrite G1, G2 in SP. exact SP.
    + rewrite X. cbn. rewrite record_attempt_last. split; [reflexivity|].
      pose proof (should_attempt_spacing (l_rc l1) now ltac:(lia) SA) as SP. rewrite G1, G2 in SP. exact SP.
    + exfalso. apply N. rewrite X. exact G1.
    + exfalso. apply N. rewrite X. exact G1.
  - exfalso. apply N. destruct (Nat.eqb i i0); reflexivity.
  - exfalso. apply N. destruct (Nat.eqb i i0); reflexivity.
  - exfalso. apply N. destruct (Nat.eqb i i0); [destruct ok|]; reflexivity.
  - exfalso. apply N. destruct H as [->|[c ->]]; destruct (Nat.eqb i i0); cbn;
      try match goal with |- context [if ?b then _ else _] => destruct b end; reflexivity.
  - exfalso. apply N. destruct H as [l1 [[->|[g ->]] [->| ->]]]; cbn; try reflexivity; unfold forward;
      match goal with |- context [if ?b then _ else _] => destruct b end; cbn; try reflexivity;
      match goal with |- context [if ?b then _ else _] => destruct b end; reflexivity.
  - exfalso. apply N. destruct H as [f ->]. destruct (l_io l); reflexivity.
  - exfalso. apply N. destruct (Nat.eqb i i0); reflexivity.
  - exfalso. apply N. destruct (Nat.eqb i i0); reflexivity.
  - exfalso. apply N. destruct (Nat.eqb i i0); reflexivity.
  - exfalso. apply N. destruct (Nat.eqb i i0); reflexivity.
Qed.

(** ---- clause 3: a dead link whose last attempt is 120 s old is retried by the next tick ---- *)
Lemma LStep_forever : forall cfg l l' now refresh dgs ws i,
  LInv l -> LStep cfg false (OTick now refresh dgs ws) i l l' ->
  l_conn l = false -> l_lr l = None -> 120000 <= now - r_last (l_rc l) -> r_grace (l_rc l) < now ->
  r_last (l_rc l') = now.
Proof.
  intros cfg l l' now refresh dgs ws i [H1 _] H C L D G. cbn [LStep] in H.
  destruct H as [rg [classic [dg [w [Hrg ->]]]]].
  destruct rg; [specialize (Hrg eq_refl); discriminate|].
  set (l1 := if refresh then set_to l cfg else l).
  assert (A : l_conn l1 = false /\ l_lr l1 = None /\ l_rc l1 = l_rc l) by (unfold l1; destruct refresh; cbn; auto).
  destruct A as [A1 [A2 A3]].
  assert (TO : is_timed_out l1 now = true) by (apply dead_link_timed_out; try assumption; rewrite A3; lia).
  assert (SA : should_attempt (l_rc l1) now = true) by (rewrite A3; apply should_attempt_due; try assumption; lia).
  destruct (tls_cases l1 now classic dg w) as [[_ [_ [X|X]]]|[[_ [F _]]|[F _]]]; try congruence.
  - rewrite X. reflexivity.
  - rewrite X. cbn. apply record_attempt_last.
Qed.

(** ---- clauses 5 and 6: what a REG3 leaves ---- *)
Lemma LStep_reg3 : forall cfg pb j now i l l', LStep cfg pb (OReg3 j now) i l l' -> Nat.eqb i j = true ->
  l_conn l' = true /\ l_inf l' = 0 /\ l_ph l' = PWarm 0 now /\ l_lr l' = Some now /\ l_win l' = WINDOW_DEFAULT.
Proof. intros cfg pb j now i l l' H E. cbn [LStep] in H. unfold on_i in H. rewrite E in H. subst. cbn. tauto. Qed.

(** ---- the per-link monitor step ---- *)
Lemma oz_lr : forall l, LInv l -> (oz (l_lr l) =? -1) = true -> l_lr l = None.
Proof. intros l [_ [H _]] E. destruct (l_lr l) as [x|]; [|reflexivity]. specialize (H x eq_refl). cbn in E. lia. Qed.

Lemma clause1_ok : forall cfg pb o i m l l', 0 < cfg -> op_refresh o -> LInv l -> SyncL m l ->
  LStep cfg pb o i l l' -> c_teardown o i m (obs_link l') cfg = true.
Proof.
  intros cfg pb o i m l l' Hc Hr HI [SP [_ [SS SH]]] H. unfold c_teardown. rewrite SP.
  change (torn_down (obs_link l) (obs_link l')) with (torn_link l l').
  destruct (torn_link l l') eqn:T; [|reflexivity].
  pose proof (LStep_torn cfg pb o i l l' Hc Hr H T) as F.
  destruct o; try contradiction.
  - assert (G : (negb (b_conn (obs_link l)) || heard_nothing_mon m now cfg) = true).
    { cbn [b_conn obs_link]. destruct (l_conn l) eqn:C; [|reflexivity]. cbn [negb orb].
      unfold heard_nothing_mon. destruct (m_heard m) as [h|]; [|reflexivity].
      destruct (SH h eq_refl eq_refl) as (x & L & Hx). unfold heard_nothing_l in F. rewrite L in F. lia. }
    rewrite G, andb_true_r.
    unfold heard_nothing, heard_nothing_l in *. cbn [b_lr b_conn obs_link].
    destruct HI as [_ [HL _]].
    destruct (l_lr l) as [x|] eqn:L; cbn [oz].
    + specialize (HL x eq_refl). assert (x =? -1 = false) as -> by lia. lia.
    + rewrite F. reflexivity.
  - destruct F as [F1 F2]. unfold gen_changed. cbn [b_gen obs_link]. rewrite F2, Z.eqb_refl. rewrite Nat.eqb_sym. rewrite F1. reflexivity.
  - destruct F as [F1 F2]. unfold gen_changed. cbn [b_gen obs_link]. rewrite F1, Z.eqb_refl, (SS F2). reflexivity.
Qed.

(** ---- the monitor's own "last heard" stays behind the stamp of a connected link ---- *)
Definition heard_next (o : op) (i : nat) (m : mlink) (q : lobs) : option Z :=
  let hit := match op_on o with Some j => Nat.eqb j i | None => false end in
  if torn_down (m_prev m) q then None
  else match o with
       | OKeepalive _ now _ | OInbound _ now _ | OReg3 _ now => if hit then Some now else m_heard m
       | ORegErr _ _ => if hit then None else m_heard m
       | _ => m_heard m
       end.

Lemma mon_link_heard : forall o cfg pb i m q w, m_heard (snd (mon_link o cfg pb i m q w)) = heard_next o i m q.
Proof. intros. unfold mon_link. destruct (env_step o i m q w) as [[[rep envok] await] due]. reflexivity. Qed.

Lemma heard_sync : forall cfg pb o i m l l', SyncL m l -> LStep cfg pb o i l l' ->
  forall h, heard_next o i m (obs_link l') = Some h -> l_conn l' = true -> exists x, l_lr l' = Some x /\ h <= x.
Proof.
  intros cfg pb o i m l l' [SP [_ [_ SH]]] H h. unfold heard_next. rewrite SP.
  change (torn_down (obs_link l) (obs_link l')) with (torn_link l l').
  destruct (torn_link l l') eqn:T; [discriminate|]. unfold torn_link in T.
  apply orb_false_iff in T as [TG TC]. apply negb_false_iff in TG. apply Z.eqb_eq in TG.
  assert (Keep : forall l'', l_conn l'' = l_conn l -> l_lr l'' = l_lr l -> m_heard m = Some h -> l_conn l'' = true ->
                 exists x, l_lr l'' = Some x /\ h <= x).
  { intros l'' EC EL E C. rewrite EC in C. rewrite EL. exact (SH h E C). }
  lstep_destruct H.
  - subst. apply Keep; reflexivity.
  - subst. apply Keep; reflexivity.
  - destruct H as [->| ->]; apply Keep; reflexivity.
  - (* tick *)
    destruct H as [rg [classic [dg [w [_ ->]]]]].
    set (l1 := if rg then _ else _) in *.
    assert (A : l_conn l1 = l_conn l /\ l_lr l1 = l_lr l /\ l_gen l1 = l_gen l) by (unfold l1; destruct refresh, rg; cbn; auto).
    destruct A as [A1 [A2 A3]].
    destruct (tls_cases l1 now classic dg w) as [[_ [_ [X|X]]]|[[_ [_ X]]|[_ [X1 [X2 _]]]]].
    + exfalso. rewrite X in TG. cbn in TG. lia.
    + intros _ C. exfalso. rewrite X in C. cbn in C. discriminate.
    + apply Keep; rewrite X; assumption.
    + apply Keep; congruence.
  - (* REG3 *)
    subst. cbn [op_on]. rewrite (Nat.eqb_sym i0 i). unfold on_i. destruct (Nat.eqb i i0).
    + intros E _. inversion E; subst. exists h. split; [reflexivity|lia].
    + apply Keep; reflexivity.
  - subst. apply Keep; reflexivity.
  - subst. apply Keep; reflexivity.
  - (* REG_ERR *)
    subst. cbn [op_on]. rewrite (Nat.eqb_sym i0 i). unfold on_i. destruct (Nat.eqb i i0); [discriminate|].
    apply Keep; reflexivity.
  - (* keepalive echo *)
    subst. cbn [op_on]. rewrite (Nat.eqb_sym i0 i). unfold on_i. destruct (Nat.eqb i i0).
    + intros E _. inversion E; subst. exists h. split; [destruct ok; reflexivity|lia].
    + apply Keep; reflexivity.
  - (* other inbound datagram *)
    cbn [op_on]. rewrite (Nat.eqb_sym i0 i). unfold on_i in *. destruct (Nat.eqb i i0).
    + intros E _. inversion E; subst. exists h. split; [|lia].
      destruct H as [->|[c ->]]; [reflexivity|].
      match goal with |- context [if ?b then _ else _] => destruct b end; reflexivity.
    + destruct H as [->|[c ->]]; [apply Keep; reflexivity|].
      match goal with |- context [if ?b then _ else _] => destruct b end; apply Keep; reflexivity.
  - (* data *)
    destruct H as [l1 [Hl1 Hl']].
    assert (A : l_conn l1 = l_conn l /\ l_lr l1 = l_lr l) by (destruct Hl1 as [->|[g ->]]; cbn; auto).
    destruct A as [A1 A2].
    destruct Hl' as [->| ->]; [apply Keep; assumption|].
    unfold forward. destruct (flushed && l_io l1); [|apply Keep; assumption].
    destruct (l_sock (set_inf l1 inf')) eqn:S.
    + apply Keep; cbn; assumption.
    + intros _ C. exfalso. cbn in C. discriminate.
  - destruct H as [f ->]. destruct (l_io l); apply Keep; reflexivity.
  - subst. unfold on_i. destruct (Nat.eqb i i0); apply Keep; reflexivity.
  - subst. unfold on_i. destruct (Nat.eqb i i0); apply Keep; reflexivity.
  - subst. unfold on_i. destruct (Nat.eqb i i0); apply Keep; reflexivity.
  - subst. unfold on_i. destruct (Nat.eqb i i0); apply Keep; reflexivity.
  - subst. apply Keep; reflexivity.
Qed.

Lemma clause2_ok : forall cfg pb o i m l l', LInv l -> SyncL m l ->
  LStep cfg pb o i l l' -> c_spacing o m (obs_link l') = true.
Proof.
  intros cfg pb o i m l l' HI [SP [SE _]] H. unfold c_spacing. rewrite SP. cbn [b_last obs_link].
  destruct (r_last (l_rc l') =? r_last (l_rc l)) eqn:E; [reflexivity|].
  destruct (LStep_last cfg pb o i l l' HI H ltac:(lia)) as [now [r [d [w [-> [L S]]]]]].
  rewrite L, Z.eqb_refl. cbn [andb]. unfold T_RETRY_GAP, T_INIT_GAP.
  destruct (m_ever m) eqn:EV.
  - specialize (SE eq_refl). assert (r_est (l_rc l) =? 0 = false) as Z by lia. rewrite Z in S. lia.
  - destruct (r_est (l_rc l) =? 0); lia.
Qed.

Lemma clause3_ok : forall cfg pb o i m l l', LInv l -> SyncL m l ->
  LStep cfg pb o i l l' -> c_forever o pb m (obs_link l') = true.
Proof.
  intros cfg pb o i m l l' HI [SP _] H. unfold c_forever. rewrite SP.
  destruct o; try reflexivity. cbn [b_conn b_lr b_last b_grace obs_link].
  destruct (negb pb && negb (l_conn l) && (oz (l_lr l) =? -1) && negb (r_last (l_rc l) =? 0)
            && (T_BACKOFF_CAP <=? now - r_last (l_rc l)) && (r_grace (l_rc l) <? now)) eqn:C; [|reflexivity].
  unfold T_BACKOFF_CAP in C.
  destruct pb; [discriminate|]. destruct (l_conn l) eqn:CN; [discriminate|].
  destruct (oz (l_lr l) =? -1) eqn:OL; [|discriminate]. cbn [negb andb] in C.
  rewrite (LStep_forever cfg l l' now refresh dgs ws i HI H CN (oz_lr l HI OL)); lia.
Qed.

Lemma clause56_ok : forall cfg pb o i m l l', LStep cfg pb o i l l' ->
  c_rejoin o i (obs_link l') = true /\ c_rejoin_window o i m (obs_link l') = true.
Proof.
  intros cfg pb o i m l l' H. unfold c_rejoin, c_rejoin_window. destruct o; try (split; reflexivity).
  rewrite (Nat.eqb_sym i0 i). destruct (Nat.eqb i i0) eqn:E; [|split; reflexivity].
  destruct (LStep_reg3 cfg pb i0 now i l l' H E) as [A [B [C [D W]]]].
  cbn [b_conn b_inf b_ph b_probes b_entered b_lr b_win obs_link]. rewrite A, B, C, D, W. cbn.
  rewrite !Z.eqb_refl. split; [reflexivity|]. destruct (m_torn m); reflexivity.
Qed.

Lemma mon_link_ok : forall cfg pb o i m l l' w,
  0 < cfg -> op_pos o -> op_refresh o -> LInv l -> SyncL m l -> LStep cfg pb o i l l' ->
  core_ok (fst (mon_link o cfg pb i m (obs_link l') w)) = true /\
  SyncL (snd (mon_link o cfg pb i m (obs_link l') w)) l'.
Proof.
  intros cfg pb o i m l l' w Hc Hp Hr HI HS H.
  pose proof (clause1_ok cfg pb o i m l l' Hc Hr HI HS H) as C1.
  pose proof (clause2_ok cfg pb o i m l l' HI HS H) as C2.
  pose proof (clause3_ok cfg pb o i m l l' HI HS H) as C3.
  destruct (clause56_ok cfg pb o i m l l' H) as [C5 C6].
  pose proof (LStep_inv cfg pb o i l l' Hc Hp HI H) as HI'.
  unfold mon_link. destruct (env_step o i m (obs_link l') w) as [[[rep envok] await] due].
  rewrite C1, C2, C3, C5, C6. cbn [negb fst snd]. split.
  - destruct (c_bound o rep envok (obs_link l')); reflexivity.
  - pose proof (heard_sync cfg pb o i m l l' HS H) as HH.
    destruct HS as [SP [SE [SS SH]]]. unfold SyncL. cbn [m_prev m_ever m_shut]. split; [reflexivity|]. split; [|split].
    + intros EV. cbn [b_conn obs_link] in EV. destruct (m_ever m) eqn:M.
      * apply (LStep_est cfg pb o i l l' Hp H). auto.
      * cbn in EV. destruct HI' as [_ [_ [X _]]]. auto.
    + intros SK. rewrite SP. unfold gen_changed. cbn [b_gen obs_link].
      destruct (LStep_gen cfg pb o i l l' H) as [[G S]|[G [S _]]].
      * rewrite G, Z.eqb_refl. cbn [negb]. destruct (S SK) as [S0|[j [-> E]]].
        -- rewrite (SS S0). destruct o; try reflexivity. apply orb_true_r.
        -- cbn [op_on]. rewrite Nat.eqb_sym. rewrite E. reflexivity.
      * congruence.
    + intros h0 E C. apply (HH h0); [exact E|exact C].
Qed.

(** ---- lists of links ---- *)
Lemma mon_links_ok : forall cfg pb o i la lb, F2i (LStep cfg pb o) i la lb ->
  forall ms ws, 0 < cfg -> op_pos o -> op_refresh o -> Forall2 SyncL ms la -> Forall LInv la ->
  Forall (fun r => core_ok (fst r) = true) (mon_links o cfg pb i ms (map obs_link lb) ws) /\
  Forall2 SyncL (map snd (mon_links o cfg pb i ms (map obs_link lb) ws)) lb /\ Forall LInv lb.
Proof.
  intros cfg pb o i la lb F. induction F as [i|i a b la lb HP F IH]; intros ms ws Hc Hp Hr HS HI.
  - inversion HS; subst. cbn. repeat split; constructor.
  - inversion HS as [|m a' mt la' S1 S2]; subst. inversion HI as [|a' la' I1 I2]; subst.
    cbn [map mon_links].
    destruct (mon_link_ok cfg pb o i m a b (hd [] ws) Hc Hp Hr I1 S1 HP) as [K1 K2].
    destruct (IH mt (tl ws) Hc Hp Hr S2 I2) as [J1 [J2 J3]].
    repeat split.
    + constructor; assumption.
    + cbn [map]. constructor; assumption.
    + constructor; [|assumption]. eapply LStep_inv; eassumption.
Qed.

Lemma F2i_in : forall P i la lb a, F2i P i la lb -> In a la -> exists k b, In b lb /\ P k a b.
Proof.
  intros P i la lb a F. induction F as [|i x y la lb HP F IH]; intros HIn; [contradiction|].
  destruct HIn as [->|HIn].
  - exists i, y. split; [left; reflexivity|exact HP].
  - destruct (IH HIn) as [k [b [H1 H2]]]. exists k, b. split; [right; exact H1|exact H2].
Qed.

Lemma Forall2_in_l : forall {A B} (R : A -> B -> Prop) la lb a, Forall2 R la lb -> In a la -> exists b, In b lb /\ R a b.
Proof.
  intros A B R la lb a F. induction F; intros HIn; [contradiction|].
  destruct HIn as [->|HIn]; [eexists; split; [left; reflexivity|eassumption]|].
  destruct (IHF HIn) as [b [H1 H2]]. exists b. split; [right; exact H1|exact H2].
Qed.

(** ---- clause 4: housekeeping errors only when no uplink is alive ---- *)
Lemma LStep_alive : forall cfg pb now dgs ws i l l' x, 0 < cfg -> LInv l ->
  LStep cfg pb (OTick now true dgs ws) i l l' ->
  l_conn l = true -> l_lr l = Some x -> now - x < cfg -> is_timed_out l' now = false.
Proof.
  intros cfg pb now dgs ws i l l' x Hc HI H C L D. cbn [LStep] in H.
  destruct H as [rg [classic [dg [w [_ ->]]]]].
  set (l1 := if rg then _ else _).
  assert (A : l_conn l1 = true /\ l_lr l1 = Some x /\ l_to l1 = cfg) by (unfold l1; destruct rg; cbn; auto).
  destruct A as [A1 [A2 A3]].
  assert (AL : is_timed_out l1 now = false) by (apply (alive_when_heard l1 now x); try assumption; lia).
  destruct (tls_cases l1 now classic dg w) as [[F _]|[[F _]|[_ [X1 [X2 [_ [_ [X3 _]]]]]]]]; try congruence.
  apply (alive_when_heard _ now x); try congruence; try lia.
Qed.

Lemma count_alive_zero : forall ls now l, count_alive ls now = 0 -> In l ls -> is_timed_out l now = true.
Proof.
  intros ls now l H HIn. unfold count_alive, blen in H.
  destruct (is_timed_out l now) eqn:E; [reflexivity|exfalso].
  assert (In l (filter (fun l0 => negb (is_timed_out l0 now)) ls)) as HF by (apply filter_In; rewrite E; auto).
  destruct (filter _ ls); [contradiction|]. cbn in H. lia.
Qed.

Lemma step_tick_err : forall s now refresh dgs ws,
  o_err (snd (step_tick s now refresh dgs ws)) = true ->
  count_alive (links (fst (step_tick s now refresh dgs ws))) now = 0.
Proof.
  intros s now refresh dgs ws. unfold step_tick.
  destruct (if is_probing _ then _ else _) as [g1 ls1].
  destruct (tick_links 0 ls1 g1 now (cfg_classic s) dgs ws) as [[ls2 g2] wire].
  destruct (reg_driver _ ls2 now wire) as [g4 wire'].
  destruct (count_alive ls2 now =? 0) eqn:E; cbn; [lia|discriminate].
Qed.

(** ---- whole states ---- *)
Definition Inv (s : state) : Prop := 0 < cfg_to s /\ Forall LInv (links s).
Definition Sync (ms : mstate) (s : state) : Prop :=
  Forall2 SyncL (ms_links ms) (links s) /\ ms_cfg ms = cfg_to s /\ ms_probing ms = is_probing (rg s).

Lemma step_tick_cfg : forall s now refresh dgs ws, cfg_to (fst (step_tick s now refresh dgs ws)) = cfg_to s.
Proof.
  intros. unfold step_tick.
  destruct (if is_probing _ then _ else _) as [g1 ls1].
  destruct (tick_links 0 ls1 g1 now (cfg_classic s) dgs ws) as [[ls2 g2] wire].
  destruct (reg_driver _ ls2 now wire) as [g4 wire'].
  destruct (if count_alive ls2 now =? 0 then _ else _) as [af err]. reflexivity.
Qed.

Lemma step_cfg_pos : forall s o, 0 < cfg_to s -> 0 < cfg_to (fst (step s o)).
Proof.
  intros s o H. destruct o; cbn [step]; try exact H.
  - cbn. unfold clamp. change CONN_TIMEOUT_MS_MIN with 1000. change CONN_TIMEOUT_MS_MAX with 60000. lia.
  - destruct (_ && _); exact H.
  - rewrite step_tick_cfg. exact H.
  - destruct (i <? length (links s))%nat; exact H.
  - destruct (i <? length (links s))%nat; exact H.
  - destruct (nth_error (links s) i); [|exact H]. destruct (ngp_immediate _ i now); exact H.
  - destruct (i <? length (links s))%nat; exact H.
  - destruct (g_hasconn (rg s));
      match goal with |- context [match ?p with Some _ => _ | None => _ end] => destruct p as [k|] end;
      try exact H; destruct (k <? length (links s))%nat; exact H.
Qed.

Lemma survivors_ok : forall s ms o, Inv s -> Sync ms s -> op_refresh o ->
  c_survivors o (ms_cfg ms) (ms_links ms) (obs_glob (fst (step s o)) (o_err (snd (step s o)))) = true.
Proof.
  intros s ms o [Hc HI] [S1 [S2 _]] Hr. destruct o; try reflexivity.
  cbn in Hr. subst refresh. unfold c_survivors. cbn [q_err obs_glob step].
  destruct (o_err (snd (step_tick s now true dgs ws))) eqn:E; [|reflexivity]. cbn [andb].
  apply negb_true_iff. apply not_true_is_false. intros EX.
  apply existsb_exists in EX. destruct EX as [m [HIn HP]].
  destruct (Forall2_in_l _ _ _ m S1 HIn) as [l [HL [SP _]]].
  rewrite SP in HP. cbn [b_conn b_lr obs_link] in HP. rewrite S2 in HP.
  assert (LI : LInv l) by (rewrite Forall_forall in HI; auto).
  destruct (l_conn l) eqn:C; [|discriminate]. cbn [andb] in HP.
  destruct (l_lr l) as [x|] eqn:L; [|cbn in HP; discriminate]. cbn [oz] in HP.
  destruct (F2i_in _ _ _ _ l (step_rel s (OTick now true dgs ws)) HL) as [k [l' [HL' ST]]].
  cbn [step] in HL'.
  pose proof (LStep_alive _ _ _ _ _ _ _ _ x Hc LI ST C L ltac:(lia)) as AL.
  pose proof (count_alive_zero _ now l' (step_tick_err s now true dgs ws E) HL'). congruence.
Qed.

Definition all_refresh (ops : list op) : bool :=
  forallb (fun o => match o with OTick _ r _ _ => r | _ => true end) ops.

Lemma wf_from_pos : forall t o r, 0 < t -> wf_from t (o :: r) = true ->
  op_pos o /\ exists t', 0 < t' /\ wf_from t' r = true.
Proof.
  intros t o r Ht H. cbn [wf_from] in H. unfold op_pos. destruct (op_time o) as [x|].
  - apply andb_true_iff in H. destruct H as [H1 H2]. split.
    + intros t1 E. inversion E; subst. lia.
    + exists x. split; [lia|exact H2].
  - split; [intros t1 E; discriminate|]. exists t. auto.
Qed.

Theorem monitor_run : forall ops s ms t,
  0 < t -> wf_from t ops = true -> all_refresh ops = true -> Inv s -> Sync ms s ->
  forallb (forallb core_ok) (mon_codes ms (map obs_step (run_from s ops))) = true.
Proof.
  induction ops as [|o r IH]; intros s ms t Ht Hw Hr HI HS; [reflexivity|].
  destruct (wf_from_pos t o r Ht Hw) as [Hp [t' [Ht' Hw']]].
  cbn [all_refresh forallb] in Hr. apply andb_true_iff in Hr. destruct Hr as [Hr1 Hr2].
  assert (Hr0 : op_refresh o) by (destruct o; cbn; auto).
  cbn [run_from]. destruct (step s o) as [s' w] eqn:ES. cbn [map mon_codes obs_step].
  assert (E1 : s' = fst (step s o)) by (rewrite ES; reflexivity).
  assert (E2 : w = snd (step s o)) by (rewrite ES; reflexivity).
  destruct HI as [Hc HL]. destruct HS as [S1 [S2 S3]].
  pose proof (step_rel s o) as SR. rewrite <- E1 in SR.
  destruct (mon_links_ok (cfg_to s) (is_probing (rg s)) o 0 (links s) (links s') SR
              (ms_links ms) (o_wire w) Hc Hp Hr0 S1 HL) as [K1 [K2 K3]].
  unfold mon_step. cbn [s_op s_links s_glob s_wire]. rewrite S2, S3.
  set (rs := mon_links o (cfg_to s) (is_probing (rg s)) 0 (ms_links ms) (map obs_link (links s')) (o_wire w)) in *.
  cbn [forallb]. apply andb_true_iff. split.
  - rewrite forallb_app. apply andb_true_iff. split.
    + rewrite forallb_forall. intros c HIn. apply in_map_iff in HIn. destruct HIn as [x [<- HIn]].
      rewrite Forall_forall in K1. auto.
    + cbn [forallb]. rewrite andb_true_r.
      pose proof (survivors_ok s ms o (conj Hc HL) (conj S1 (conj S2 S3)) Hr0) as SV.
      rewrite <- E1, <- E2, S2 in SV. rewrite SV. reflexivity.
  - apply (IH s' _ t' Ht' Hw' Hr2).
    + split; [rewrite E1; apply step_cfg_pos; exact Hc|exact K3].
    + split; [exact K2|]. cbn [ms_cfg ms_probing q_cfg q_probing obs_glob]. split; reflexivity.
Qed.
