(** JsonP.v — induction principle and equality lemmas for the JSON tree. *)
From Srtla Require Import Base Json.
Local Open Scope Z_scope.

Section JsonInd.
  Variable P : json -> Prop.
  Hypothesis Hnull : P JNull.
  Hypothesis Hbool : forall b, P (JBool b).
  Hypothesis Hint : forall z, P (JInt z).
  Hypothesis Hfloat : forall z, P (JFloat z).
  Hypothesis Hstr : forall s, P (JStr s).
  Hypothesis Harr : forall l, Forall P l -> P (JArr l).
  Hypothesis Hobj : forall m, Forall (fun kv => P (snd kv)) m -> P (JObj m).

  Fixpoint json_ind' (j : json) : P j :=
    match j with
    | JNull => Hnull
    | JBool b => Hbool b
    | JInt z => Hint z
    | JFloat z => Hfloat z
    | JStr s => Hstr s
    | JArr l =>
        Harr l ((fix go (l : list json) : Forall P l :=
                   match l with
                   | [] => Forall_nil _
                   | x :: t => Forall_cons x (json_ind' x) (go t)
                   end) l)
    | JObj m =>
        Hobj m ((fix go (m : list (string * json)) : Forall (fun kv => P (snd kv)) m :=
                   match m with
                   | [] => Forall_nil _
                   | (k, v) :: t => Forall_cons (k, v) (json_ind' v) (go t)
                   end) m)
    end.
End JsonInd.

Lemma json_eqb_refl : forall j, json_eqb j j = true.
Proof.
  induction j using json_ind'; cbn; try reflexivity.
  - apply Bool.eqb_reflx.
  - apply Z.eqb_refl.
  - apply Z.eqb_refl.
  - apply String.eqb_refl.
  - induction H as [|x l Hx _ IH]; [reflexivity|]. rewrite Hx. exact IH.
  - induction H as [|[k v] l Hx _ IH]; [reflexivity|]. cbn in Hx. rewrite String.eqb_refl, Hx. exact IH.
Qed.

Lemma json_eqb_eq : forall a c, json_eqb a c = true -> a = c.
Proof.
  induction a using json_ind'; intros c E; destruct c; cbn in E; try discriminate.
  - reflexivity.
  - apply Bool.eqb_prop in E. congruence.
  - apply Z.eqb_eq in E. congruence.
  - apply Z.eqb_eq in E. congruence.
  - apply String.eqb_eq in E. congruence.
  - f_equal. revert l0 E. induction H as [|x l Hx _ IH]; intros [|y l0] E; try discriminate; [reflexivity|].
    apply andb_true_iff in E. destruct E as [E1 E2]. f_equal; [apply Hx; exact E1|apply IH; exact E2].
  - f_equal. revert m0 E. induction H as [|[k v] l Hx _ IH]; intros [|[k' v'] m0] E; try discriminate; [reflexivity|].
    apply andb_true_iff in E. destruct E as [E1 E2]. apply andb_true_iff in E1. destruct E1 as [Ek Ev].
    apply String.eqb_eq in Ek. cbn in Hx. apply Hx in Ev. subst. f_equal. apply IH. exact E2.
Qed.
