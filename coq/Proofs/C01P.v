(** C01P.v — the model's own traces satisfy the C01 monitor: a simulation between
    the model link state and the monitor's reference state. *)
From Coq Require Import ZifyBool Permutation.
From Srtla Require Import Base Constants Wire Forward ForwardP Run_C01.
Ltac Zify.zify_post_hook ::= Z.div_mod_to_equations.

(** sender-originated control datagrams named by housekeeping / uplink ops are SRTLA
    control frames (keepalive, REG1, REG2) *)
Definition wf_op (o : op) : Prop :=
  match o with
  | House _ ctl | Other ctl => Forall (fun w => forallb is_ctl w = true) ctl
  | _ => True
  end.
Definition wf_ops (ops : list op) : Prop := Forall wf_op ops.
Definition wf_opb (o : op) : bool :=
  match o with
  | House _ ctl | Other ctl => forallb (forallb is_ctl) ctl
  | _ => true
  end.

Lemma wf_op_nth : forall ctl j, Forall (fun w => forallb is_ctl w = true) ctl ->
  forallb is_ctl (nth j ctl []) = true.
Proof.
  intros ctl j H. destruct (Nat.lt_ge_cases j (length ctl)) as [Hj|Hj].
  - rewrite Forall_forall in H. apply H, nth_In, Hj.
  - rewrite nth_overflow by exact Hj. reflexivity.
Qed.

(** ---- equality tests are reflexive ---- *)
Lemma zlist_eqb_refl : forall l : list Z, zlist_eqb l l = true.
Proof. induction l as [|x t IH]; cbn; [reflexivity|]. rewrite Z.eqb_refl. exact IH. Qed.
Lemma dl_eqb_refl : forall l : list dgram, list_eqb dgram_eqb l l = true.
Proof. induction l as [|x t IH]; cbn; [reflexivity|]. unfold dgram_eqb at 1. rewrite zlist_eqb_refl. exact IH. Qed.

(** ---- the monitor's delivery check on what the model does ---- *)
Lemma blen_map : forall {A B} (f : A -> B) l, blen (map f l) = blen l.
Proof. intros. unfold blen. rewrite map_length. reflexivity. Qed.
Lemma blen_app1 : forall {A} (l : list A) x, blen (l ++ [x]) = blen l + 1.
Proof. intros. unfold blen. rewrite app_length. cbn. lia. Qed.

Lemma deliver_noflush : forall p fail, deliver p [] (blen p) fail = (0%N, p).
Proof. intros. unfold deliver. cbn. rewrite Z.eqb_refl. reflexivity. Qed.

Lemma deliver_flush : forall (q : list qent) k fail,
  (k <= length q)%nat -> (k = length q \/ fail = true) ->
  deliver (map cpy_of q) (map q_d (firstn k q)) 0 fail = (0%N, []).
Proof.
  intros q k fail Hk Hor. unfold deliver.
  rewrite map_length, firstn_length_le by exact Hk.
  rewrite firstn_map, map_map. cbn [cpy_of fst].
  change (map (fun x => q_d x) (firstn k q)) with (map q_d (firstn k q)).
  rewrite dl_eqb_refl. cbn [negb].
  destruct (skipn k (map cpy_of q)) as [|c rest] eqn:Hs; [reflexivity|].
  assert (Hne : (blen (c :: rest) =? 0) = false) by (rewrite blen_nat; cbn [length]; lia).
  rewrite Hne. destruct Hor as [->| ->]; [|reflexivity].
  rewrite <- (map_length cpy_of), skipn_all in Hs. discriminate.
Qed.

Lemma finish_ok : forall io m p s, (io = true -> blen p < 32) ->
  finish io m (0%N, p) s = (0%N, {| m_pend := p; m_since := s |}).
Proof.
  intros io m p s H. unfold finish. cbn [N.eqb negb].
  destruct io; [|reflexivity]. cbn [andb]. specialize (H eq_refl).
  destruct (32 <=? blen p) eqn:Hc; [exfalso; lia|reflexivity].
Qed.

Lemma send_size_32 : BATCH_SEND_SIZE = 32.
Proof. reflexivity. Qed.
Lemma probe_n_100 : STALL_PROBE_ONE_IN_N = 100.
Proof. reflexivity. Qed.

(** ---- the simulation relation ---- *)
Definition sim (l : link) (m : mlink) : Prop :=
  m_pend m = map cpy_of (queue l) /\ (forall s, m_since m = Some s -> ctr l <= s).

Definition since1_of (pkt : dgram) (m : mlink) : option Z :=
  if is_some (seq_of pkt) then option_map (Z.add 1) (m_since m) else m_since m.

Lemma since1_ge : forall pkt m s c, (forall s0, m_since m = Some s0 -> c <= s0) ->
  since1_of pkt m = Some s -> c <= s.
Proof.
  intros pkt m s c H. unfold since1_of. destruct (is_some (seq_of pkt)); [|apply H].
  destruct (m_since m) as [s0|]; cbn [option_map]; [|discriminate]. intro E. assert (Hs : 1 + s0 = s) by congruence. specialize (H s0 eq_refl). lia.
Qed.

Lemma hold_32 : forall l, inv l -> has_io l = true -> blen (queue l) < 32.
Proof. intros l (_ & _ & H) Hio. rewrite <- send_size_32. apply H, Hio. Qed.

(** queue-and-flush of a copy, seen by the monitor (entry already appended to pend) *)
Lemma qaf_deliver : forall now e orc l l' w,
  queue_and_flush now e orc l = (l', w) ->
  deliver (map cpy_of (queue l) ++ [cpy_of e]) w (blen (queue l')) (has_fail orc)
    = (0%N, map cpy_of (queue l')).
Proof.
  intros now e orc l l' w H. apply qaf_spec in H.
  destruct H as (_ & _ & _ & [(-> & -> & _)|(k & _ & Hk & -> & Hq & _ & Hrest)]).
  - cbn [enqueue upd_q queue]. rewrite <- (blen_map cpy_of), map_app. cbn [map]. apply deliver_noflush.
  - cbn zeta in *. rewrite Hq. cbn [map]. change (blen (@nil qent)) with 0.
    change [cpy_of e] with (map cpy_of [e]). rewrite <- map_app.
    apply deliver_flush; [exact Hk|]. destruct Hrest as [(-> & _)|(_ & -> & _)]; [left|right]; reflexivity.
Qed.

Lemma qaf_cases : forall now e orc l l' w,
  queue_and_flush now e orc l = (l', w) ->
  (blen w + blen (queue l') = blen (queue l) + 1 /\ ctr l' = ctr l) \/
  (exists k, (k <= length (queue l))%nat /\ w = map q_d (firstn k (queue l)) /\ queue l' = [] /\
             has_fail orc = true /\ ctr l' = 0).
Proof.
  intros now e orc l l' w H. apply qaf_spec in H.
  destruct H as (_ & _ & _ & [(-> & -> & _)|(k & _ & Hk & -> & Hq & _ & Hrest)]).
  - left. cbn [enqueue upd_q queue ctr]. rewrite blen_app1. cbn. split; [lia|reflexivity].
  - cbn zeta in *. rewrite Hq. destruct Hrest as [(-> & _ & Hc & _)|(Hlt & Hf & _ & Hc & _)].
    + left. rewrite firstn_all, blen_map, blen_app1. cbn. split; [lia|exact Hc].
    + right. rewrite app_length in Hlt. cbn in Hlt. exists k. repeat split; try assumption; try lia.
      rewrite firstn_app. replace (k - length (queue l))%nat with 0%nat by lia.
      cbn [firstn]. rewrite app_nil_r. reflexivity.
Qed.

Lemma sim_pend_len : forall l m, sim l m -> blen (m_pend m) = blen (queue l).
Proof. intros l m (H & _). rewrite H. apply blen_map. Qed.

Lemma quiet_ok : forall l m, sim l m -> quiet m [] (blen (queue l)) = (0%N, m).
Proof. intros l m H. unfold quiet. rewrite (sim_pend_len _ _ H), Z.eqb_refl. reflexivity. Qed.

Lemma ctr_nonneg : forall l, inv l -> 0 <= ctr l.
Proof. intros l (_ & H & _). unfold ctr_ok in H. lia. Qed.

Ltac rw_deliver Hd :=
  match goal with
  | |- context [deliver ?a ?b ?c ?d] =>
    let r := match type of Hd with _ = ?r => r end in
    replace (deliver a b c d) with r by (symmetry; exact Hd)
  end.

(** the scheduler's choice: the unique copy *)
Lemma sim_unique : forall now pkt seq orc l m l' w s1,
  inv l -> sim l m -> (forall s, s1 = Some s -> ctr l <= s) ->
  queue_and_flush now (mkq pkt seq now false) orc l = (l', w) ->
  exists m', finish (has_io l) m
               (deliver (m_pend m ++ [(pkt, false)]) w (blen (queue l')) (has_fail orc)) s1 = (0%N, m')
             /\ sim l' m'.
Proof.
  intros now pkt seq orc l m l' w s1 Hinv (Hp & Hs) Hs1 H.
  pose proof (qaf_inv _ _ _ _ _ _ Hinv H) as Hinv'.
  pose proof (qaf_deliver _ _ _ _ _ _ H) as Hd.
  change (cpy_of (mkq pkt seq now false)) with (pkt, false) in Hd.
  pose proof (qaf_ctr _ _ _ _ _ _ H) as Hc.
  pose proof (qaf_spec _ _ _ _ _ _ H) as (Hio & _).
  eexists. rewrite Hp. rw_deliver Hd. rewrite finish_ok by (intro E; rewrite blen_map; apply hold_32; [exact Hinv'|rewrite Hio; exact E]).
  split; [reflexivity|]. split; [reflexivity|]. cbn [m_since]. intros s E.
  specialize (Hs1 s E). pose proof (ctr_nonneg _ Hinv). destruct Hc as [-> | ->]; lia.
Qed.

(** a due stall probe: the duplicate *)
Lemma sim_probe : forall now pkt seq orc l m l' w j gated,
  inv l -> sim l m -> is_some (seq_of pkt) = true -> nth j gated false = true ->
  STALL_PROBE_ONE_IN_N <= ctr l + 1 ->
  queue_and_flush now (mkq pkt seq now true) orc (set_ctr 0 l) = (l', w) ->
  exists m',
    (if blen w + blen (queue l') =? blen (m_pend m) + 1 then
       if negb (nth j gated false) then (6%N, m)
       else if match since1_of pkt m with Some s => s <? 100 | None => false end then (7%N, m)
       else finish (has_io l) m
              (deliver (m_pend m ++ [(pkt, true)]) w (blen (queue l')) (has_fail orc)) (Some 0)
     else finish (has_io l) m (deliver (m_pend m) w (blen (queue l')) (has_fail orc)) (since1_of pkt m))
    = (0%N, m') /\ sim l' m'.
Proof.
  intros now pkt seq orc l m l' w j gated Hinv Hsim Hdata Hg Hdue H.
  pose proof Hsim as (Hp & Hs).
  assert (Hinv0 : inv (set_ctr 0 l)) by (apply inv_set_ctr; [pose proof probe_n_pos; lia|exact Hinv]).
  pose proof (qaf_inv _ _ _ _ _ _ Hinv0 H) as Hinv'.
  pose proof (qaf_spec _ _ _ _ _ _ H) as (Hio & _). cbn [has_io set_ctr] in Hio.
  pose proof (sim_pend_len _ _ Hsim) as Hlen.
  destruct (qaf_cases _ _ _ _ _ _ H) as [(Htot & Hc)|(k & Hk & -> & Hq & Hf & Hc)]; cbn [queue set_ctr ctr] in *.
  - eexists. rewrite Hlen. replace (blen w + blen (queue l') =? blen (queue l) + 1) with true by lia.
    rewrite Hg. cbn [negb].
    assert (Hrate : match since1_of pkt m with Some s => s <? 100 | None => false end = false).
    { destruct (since1_of pkt m) as [s|] eqn:E; [|reflexivity].
      pose proof (since1_ge pkt m s (ctr l) Hs) as Hge. unfold since1_of in *. rewrite Hdata in *.
      destruct (m_since m) as [s0|]; cbn [option_map] in *; [|discriminate].
      assert (1 + s0 = s) by congruence. specialize (Hs s0 eq_refl). rewrite probe_n_100 in Hdue. lia. }
    rewrite Hrate.
    pose proof (qaf_deliver _ _ _ _ _ _ H) as Hd.
    change (cpy_of (mkq pkt seq now true)) with (pkt, true) in Hd. cbn [queue set_ctr] in Hd.
    rewrite Hp. rw_deliver Hd. rewrite finish_ok by (intro E; rewrite blen_map; apply hold_32; [exact Hinv'|rewrite Hio; exact E]).
    split; [reflexivity|]. split; [reflexivity|]. cbn [m_since]. intros s E. inversion E; subst. lia.
  - eexists. rewrite Hq, Hlen. change (blen (@nil qent)) with 0.
    assert (Hw : blen (map q_d (firstn k (queue l))) = Z.of_nat k).
    { rewrite blen_map, blen_nat, firstn_length_le by exact Hk. reflexivity. }
    rewrite Hw. rewrite blen_nat.
    replace (Z.of_nat k + 0 =? Z.of_nat (length (queue l)) + 1) with false by lia.
    rewrite Hp, deliver_flush by (try exact Hk; right; exact Hf).
    rewrite finish_ok by (intros _; cbn; lia).
    split; [reflexivity|]. split; [rewrite Hq; reflexivity|]. cbn [m_since]. intros s E.
    rewrite Hc. pose proof (since1_ge pkt m s (ctr l) Hs E). pose proof (ctr_nonneg _ Hinv). lia.
Qed.

(** nothing happens on this link: the monitor's "no copy" path of a client op *)
Lemma sim_nocopy : forall l m c s1 fail,
  inv l -> sim l m -> (forall s, s1 = Some s -> c <= s) ->
  finish (has_io l) m (deliver (m_pend m) [] (blen (queue l)) fail) s1
    = (0%N, {| m_pend := m_pend m; m_since := s1 |}) /\
  sim (set_ctr c l) {| m_pend := m_pend m; m_since := s1 |}.
Proof.
  intros l m c s1 fail Hinv Hsim Hs1. pose proof Hsim as (Hp & _).
  rewrite <- (sim_pend_len _ _ Hsim), deliver_noflush.
  rewrite finish_ok by (intro E; rewrite (sim_pend_len _ _ Hsim); apply hold_32; assumption).
  split; [reflexivity|]. split; [exact Hp|exact Hs1].
Qed.

Lemma set_ctr_same : forall l, set_ctr (ctr l) l = l.
Proof. destruct l; reflexivity. Qed.

Lemma mon_link_sim : forall hw o j l m,
  inv l -> sim l m -> wf_op o -> (has_queued l = true -> hw = true) ->
  exists m',
    mon_link (has_io l) o j m (snd (step_link hw o j l)) (blen (queue (fst (step_link hw o j l))))
      = (0%N, m') /\ sim (fst (step_link hw o j l)) m'.
Proof.
  intros hw o j l m Hinv Hsim Hwf Hhw. pose proof Hsim as (Hp & Hs).
  pose proof (sim_pend_len _ _ Hsim) as Hlen.
  destruct o as [now pkt sel reg gated orc|now orc|i r|i k|i b|eff ctl|ctl]; cbn [step_link mon_link].
  - (* Client *)
    destruct pkt as [|b0 pkt']; [exists m; split; [apply quiet_ok|]; assumption|].
    destruct sel as [i|]; [|exists m; split; [apply quiet_ok|]; assumption].
    set (pkt := b0 :: pkt') in *.
    change (if is_some (seq_of pkt) then option_map (Z.add 1) (m_since m) else m_since m)
      with (since1_of pkt m).
    destruct (Nat.eqb j i).
    + destruct (queue_and_flush _ _ _ l) as [l' w] eqn:Hq. cbn [fst snd].
      eapply sim_unique; try eassumption. intros s E. eapply since1_ge; eassumption.
    + destruct (reg && is_some (seq_of pkt) && nth j gated false && connected l) eqn:Hcond.
      * apply andb_true_iff in Hcond. destruct Hcond as (Hcond & Hconn).
        apply andb_true_iff in Hcond. destruct Hcond as (Hcond & Hg).
        apply andb_true_iff in Hcond. destruct Hcond as (Hreg & Hdata).
        destruct (STALL_PROBE_ONE_IN_N <=? ctr l + 1) eqn:Hn.
        -- destruct (queue_and_flush _ _ _ (set_ctr 0 l)) as [l' w] eqn:Hq. cbn [fst snd].
           eapply sim_probe; try eassumption. lia.
        -- cbn [fst snd set_ctr queue]. rewrite Hlen.
           replace (blen (@nil dgram) + blen (queue l) =? blen (queue l) + 1) with false
             by (change (blen (@nil dgram)) with 0; lia).
           eexists. apply sim_nocopy; try assumption.
           intros s E. unfold since1_of in E. rewrite Hdata in E.
           destruct (m_since m) as [s0|]; cbn [option_map] in E; [|discriminate].
           assert (1 + s0 = s) by congruence. specialize (Hs s0 eq_refl). lia.
      * cbn [fst snd]. rewrite Hlen.
        replace (blen (@nil dgram) + blen (queue l) =? blen (queue l) + 1) with false
          by (change (blen (@nil dgram)) with 0; lia).
        eexists. rewrite <- (set_ctr_same l) at 3. apply sim_nocopy; try assumption.
        intros s E. eapply since1_ge; eassumption.
  - (* FlushTick *)
    destruct (hw && has_queued l && has_io l) eqn:Hcond.
    + destruct (flush_link now (orc_of orc j) l) as [[l2 out] ok] eqn:Hf. cbn [fst snd].
      apply flush_link_spec in Hf. destruct Hf as (k & Hk & -> & -> & Hok & Hbad).
      cbn [queue upd_q]. change (blen (@nil qent)) with 0.
      assert (Hd : deliver (m_pend m) (map q_d (firstn k (queue l))) 0 (has_fail (orc_of orc j)) = (0%N, [])).
      { rewrite Hp. apply deliver_flush; [exact Hk|]. destruct ok; [left; apply Hok; reflexivity|right; apply Hbad; reflexivity]. }
      rewrite Hd. cbn [fst N.eqb Z.eqb negb andb]. rewrite andb_false_r.
      rewrite finish_ok by (intros _; cbn; lia).
      eexists. split; [reflexivity|]. split; [reflexivity|exact Hs].
    + cbn [fst snd]. rewrite <- Hlen, deliver_noflush. cbn [fst N.eqb andb].
      assert (Hio : has_io l && negb (blen (m_pend m) =? 0) = false).
      { destruct (has_io l) eqn:Eio; [|reflexivity]. rewrite andb_true_r in Hcond.
        destruct (has_queued l) eqn:Eq.
        - rewrite (Hhw eq_refl) in Hcond. discriminate.
        - unfold has_queued in Eq. rewrite Hlen. cbn [andb]. rewrite Eq. reflexivity. }
      rewrite Hio. rewrite finish_ok by (intro E; rewrite Hlen; apply hold_32; assumption).
      eexists. split; [reflexivity|]. split; [exact Hp|exact Hs].
  - (* SetRegime *)
    destruct (Nat.eqb j i); cbn [fst snd set_regime queue]; exists m; (split; [apply quiet_ok|]; assumption).
  - (* Reset *)
    destruct (Nat.eqb j i); cbn [fst snd]; [|exists m; split; [apply quiet_ok|]; assumption].
    assert (Hq : queue (reset_link k l) = []) by (destruct k; reflexivity).
    rewrite Hq. cbn. eexists. split; [reflexivity|]. split; [rewrite Hq; reflexivity|].
    cbn [m_since]. intros s E. specialize (Hs s E). pose proof (ctr_nonneg _ Hinv).
    destruct k; cbn; lia.
  - (* SetConn *)
    destruct (Nat.eqb j i); cbn [fst snd set_conn queue]; exists m; (split; [apply quiet_ok|]; assumption).
  - (* House *)
    cbn [fst snd]. cbn in Hwf. rewrite (wf_op_nth _ j Hwf). cbn [negb].
    destruct (nth j eff HKeep) as [|r|k].
    + rewrite Hlen, Z.eqb_refl. exists m. split; [reflexivity|assumption].
    + cbn [set_regime queue]. rewrite Hlen, Z.eqb_refl. exists m. split; [reflexivity|assumption].
    + assert (Hq : queue (reset_link k l) = []) by (destruct k; reflexivity).
      rewrite Hq. cbn. eexists. split; [reflexivity|]. split; [rewrite Hq; reflexivity|].
      cbn [m_since]. intros s E. specialize (Hs s E). pose proof (ctr_nonneg _ Hinv).
      destruct k; cbn; lia.
  - (* Other *)
    cbn [fst snd]. cbn in Hwf. rewrite (wf_op_nth _ j Hwf). cbn [negb].
    rewrite Hlen, Z.eqb_refl. exists m. split; [reflexivity|assumption].
Qed.

(** ---- all links of one step ---- *)
Lemma mon_links_sim : forall o hw ls ms j,
  Forall inv ls -> Forall2 sim ls ms -> wf_op o ->
  (forall l, In l ls -> has_queued l = true -> hw = true) ->
  exists ms',
    mon_links o j (map has_io ls) ms (map snd (step_links hw o j ls))
              (map (fun p => blen (queue (fst p))) (step_links hw o j ls)) = (0%N, ms') /\
    Forall2 sim (map fst (step_links hw o j ls)) ms'.
Proof.
  intros o hw ls ms j Hinv Hsim Hwf. revert j. induction Hsim as [|l m ls ms Hlm Hrest IH]; intros j Hhw.
  - exists []. split; [reflexivity|constructor].
  - inversion Hinv as [|? ? Hil Hit]; subst.
    destruct (mon_link_sim hw o j l m Hil Hlm Hwf (Hhw l (or_introl eq_refl))) as (m' & Hm & Hs').
    destruct (IH Hit (S j) (fun l0 Hin => Hhw l0 (or_intror Hin))) as (ms' & Hms & Hss).
    exists (m' :: ms'). cbn [step_links map mon_links]. rewrite Hm. cbn [N.eqb]. rewrite Hms.
    split; [reflexivity|constructor; assumption].
Qed.

Lemma step_sim : forall ls ms o,
  Forall inv ls -> Forall2 sim ls ms -> wf_op o ->
  exists ms',
    mon_links o 0 (map has_io ls) ms (o_wire (snd (step ls o))) (o_q (snd (step ls o))) = (0%N, ms') /\
    Forall2 sim (fst (step ls o)) ms'.
Proof.
  intros ls ms o Hinv Hsim Hwf. unfold step. cbn [fst snd obs_of o_wire o_q].
  apply mon_links_sim; try assumption.
  intros l Hin Hq. apply existsb_exists. exists l. split; assumption.
Qed.

Lemma mon_run_sim : forall ops ls ms k,
  Forall inv ls -> Forall2 sim ls ms -> Forall wf_op ops ->
  mon_run (map has_io ls) ms (run_from ls ops) k = 0%N.
Proof.
  induction ops as [|o t IH]; intros ls ms k Hinv Hsim Hwf; cbn [run_from mon_run]; [reflexivity|].
  inversion Hwf as [|? ? Ho Ht]; subst.
  destruct (step_sim ls ms o Hinv Hsim Ho) as (ms' & Hm & Hs').
  destruct (step ls o) as [ls' ob] eqn:Hst. cbn [fst snd] in *. cbn [mon_run]. rewrite Hm. cbn [N.eqb].
  replace (map has_io ls) with (map has_io ls').
  - apply IH; try assumption. change ls' with (fst (ls', ob)). rewrite <- Hst. apply step_inv, Hinv.
  - change ls' with (fst (ls', ob)). rewrite <- Hst. apply step_io.
Qed.

(** HEADLINE: every trace of the model satisfies the monitor *)
Lemma model_traces_ok : forall xs ops, wf_init xs -> wf_ops ops -> ok_C01 xs (run xs ops) = true.
Proof.
  intros xs ops Hx Ho. unfold ok_C01, monitor, run.
  replace (map i_io xs) with (map has_io (init xs)) by (unfold init; rewrite map_map; reflexivity).
  rewrite (mon_run_sim ops (init xs) (map m_init xs) 0); [reflexivity|apply init_inv, Hx| |exact Ho].
  unfold init. clear. induction xs as [|x t IH]; cbn; constructor; [|exact IH].
  split; [reflexivity|]. cbn. discriminate.
Qed.

Lemma wf_opb_ok : forall o, wf_opb o = true -> wf_op o.
Proof.
  intros o H. destruct o; cbn in *; try exact I;
    apply Forall_forall; intros w Hin; rewrite forallb_forall in H; apply H, Hin.
Qed.

(** ---- statements over whole histories, as quoted by Props/C01.v ---- *)
Lemma conservation_all : forall xs ops, wf_init xs ->
  Forall (fun l => Permutation (acc l) (wire_of l ++ lost_of l ++ map cpy_of (queue l)))
         (exec (init xs) ops).
Proof.
  intros xs ops H. eapply Forall_impl; [intros l Hl; apply inv_conservation, Hl|apply exec_inv, init_inv, H].
Qed.

Lemma fifo_all : forall xs ops, wf_init xs ->
  Forall (fun l => subseq (wire_of l) (acc l) /\
                   exists done, acc l = done ++ map cpy_of (queue l) /\ subseq (wire_of l) done)
         (exec (init xs) ops).
Proof.
  intros xs ops H. eapply Forall_impl; [|apply exec_inv, init_inv, H].
  intros l Hl. split; [apply inv_fifo, Hl|apply inv_queue_suffix, Hl].
Qed.

Lemma unique_once : forall xs ops j, (j < length xs)%nat ->
  uniques (nth j (exec (init xs) ops) dlink) = routed_to j ops.
Proof.
  intros xs ops j Hj. rewrite exec_uniques by (unfold init; rewrite map_length; exact Hj).
  unfold uniques at 1. rewrite init_nth_acc. reflexivity.
Qed.

Lemma bounded_hold_all : forall xs ops, wf_init xs ->
  Forall (fun l => has_io l = true -> blen (queue l) < 32) (exec (init xs) ops).
Proof.
  intros xs ops H. eapply Forall_impl; [|apply exec_inv, init_inv, H].
  intros l Hl Hio. apply hold_32; assumption.
Qed.

Lemma flush_tick_empties : forall xs ops now orc,
  Forall (fun l => has_io l = true -> queue l = []) (exec (init xs) (ops ++ [FlushTick now orc])).
Proof. intros. rewrite exec_app. cbn [exec]. apply step_flush_empties. Qed.

Lemma probe_rate_window : forall xs ops1 ops2 j, wf_init xs -> (j < length xs)%nat ->
  let l1 := nth j (exec (init xs) ops1) dlink in
  let l2 := nth j (exec (init xs) (ops1 ++ ops2)) dlink in
  0 <= nprobes l2 - nprobes l1 <= (routed_data ops2 + 99) / 100.
Proof.
  intros xs ops1 ops2 j Hx Hj l1 l2. subst l1 l2. rewrite exec_app.
  assert (Hinv : Forall inv (exec (init xs) ops1)) by (apply exec_inv, init_inv, Hx).
  assert (Hlen : (j < length (exec (init xs) ops1))%nat)
    by (rewrite exec_length; unfold init; rewrite map_length; exact Hj).
  destruct (exec_potential ops2 _ j Hinv Hlen) as [H1 H2].
  pose proof (Forall_nth_inv _ _ Hinv Hlen) as (_ & Hc1 & _).
  pose proof (Forall_nth_inv _ _ (exec_inv ops2 _ Hinv)
                (eq_ind_r (fun n => (j < n)%nat) Hlen (exec_length ops2 _))) as (_ & Hc2 & _).
  unfold potential, ctr_ok in *. rewrite probe_n_100 in *. lia.
Qed.

(** a window of fewer than 100 routed data packets holds at most one probe copy per link *)
Lemma probe_rate_100 : forall xs ops1 ops2 j, wf_init xs -> (j < length xs)%nat ->
  routed_data ops2 <= 100 ->
  nprobes (nth j (exec (init xs) (ops1 ++ ops2)) dlink) - nprobes (nth j (exec (init xs) ops1) dlink) <= 1.
Proof.
  intros xs ops1 ops2 j Hx Hj Hr. pose proof (probe_rate_window xs ops1 ops2 j Hx Hj) as H.
  cbn zeta in H. lia.
Qed.

Lemma short_sends_complete : forall total orc, 0 <= total -> Forall positive orc ->
  send_all (S (Z.to_nat total)) total 0 orc = (total, true).
Proof. intros total orc Ht Hp. apply send_all_positive; [exact Hp|lia|lia]. Qed.
