(** StallP.v — structural lemmas about the stall-guard model: what a routing decision
    does to one link (its accounting and aux fields are untouched, its guard fields are
    [gate_guard] of its own pre-state up to the gated flag, its timeout is refreshed),
    list plumbing for [step]/[trace]. *)
From Coq Require Import Floats ZifyBool.
From Srtla Require Import Base Constants FConstants Stall StallSel StallOps.
Local Open Scope Z_scope.

(** ---- lists ---------------------------------------------------------------------- *)
Lemma nth_error_upd_nth : forall {A} (f : A -> A) (l : list A) (n i : nat),
  nth_error (upd_nth n f l) i = if Nat.eqb n i then option_map f (nth_error l i) else nth_error l i.
Proof.
  induction l as [|x t IH]; intros n i.
  - destruct n, i; cbn; try reflexivity; destruct (Nat.eqb _ _); reflexivity.
  - destruct n, i; cbn; try reflexivity. apply IH.
Qed.

Lemma upd_nth_length : forall {A} (f : A -> A) (l : list A) n, length (upd_nth n f l) = length l.
Proof. induction l; intros [|n]; cbn; auto. Qed.

Lemma Forall2_nth_error_l : forall {A B} (R : A -> B -> Prop) la lb,
  Forall2 R la lb -> forall i a, nth_error la i = Some a -> exists b, nth_error lb i = Some b /\ R a b.
Proof.
  induction 1; intros [|i] a0 E; cbn in *; try discriminate.
  - inversion E; subst. eauto.
  - eauto.
Qed.

Lemma Forall2_length' : forall {A B} (R : A -> B -> Prop) la lb, Forall2 R la lb -> length la = length lb.
Proof. induction 1; cbn; congruence. Qed.

(** ---- the guard up to the gated flag ------------------------------------------------ *)
Definition ungate (g : guard) : guard :=
  mkG false (g_latched g) (g_recovery g) (g_events g) (g_probe g) (g_pulled g) (g_pulls g).

(** what a decision may do to one link *)
Definition decided (now : Z) (cfg : config) (l l' : link) : Prop :=
  la l' = la l /\ lx l' = lx l /\
  ungate (lg l') = ungate (gate_guard now cfg (la l) (lx l) (lg l)) /\
  c_ctimeout (lc l') = cf_ctimeout cfg.

(** only the cache may differ *)
Definition cache_only (l l' : link) : Prop :=
  la l' = la l /\ lg l' = lg l /\ lx l' = lx l /\ c_ctimeout (lc l') = c_ctimeout (lc l).

Lemma enh_go_cache_only : forall now quality any last ls ins i acc,
  Forall2 cache_only ls (fst (enh_go now quality any last ls ins i acc)).
Proof.
  induction ls as [|l t IH]; intros ins i acc; cbn [enh_go].
  - constructor.
  - destruct (skipped now l || (any && si_capx (hd selin0 ins))).
    + specialize (IH (tl ins) (i + 1) acc).
      destruct (enh_go now quality any last t (tl ins) (i + 1) acc) as [t' acc'] eqn:E.
      cbn [fst] in *. constructor; [repeat split; reflexivity | exact IH].
    + match goal with |- context [enh_go now quality any last t (tl ins) (i + 1) ?a] =>
        specialize (IH (tl ins) (i + 1) a);
        destruct (enh_go now quality any last t (tl ins) (i + 1) a) as [t' acc'] eqn:E end.
      cbn [fst] in *. constructor; [| exact IH].
      repeat split; cbn [la lg lx lc]; try reflexivity.
      destruct quality; [|reflexivity]. unfold refresh_quality.
      destruct (QUALITY_CACHE_INTERVAL_MS <=? ssub now (c_qcalc (lc l))); reflexivity.
Qed.

Lemma gate_stage_decided : forall now cfg ls,
  Forall2 (decided now cfg) ls (apply_stall_gate now cfg ls).
Proof.
  intros now cfg ls. unfold apply_stall_gate.
  destruct (cf_guard cfg) eqn:G.
  - set (h := existsb (healthy now) (map (gate_link now cfg) ls)). clearbody h.
    induction ls as [|l t IH]; cbn [map]; constructor; [|exact IH].
    unfold decided, set_gated, gate_link; cbn [la lg lx lc c_ctimeout]. repeat split; reflexivity.
  - induction ls as [|l t IH]; cbn [map]; constructor; [|exact IH].
    unfold decided, gate_link; cbn [la lg lx lc c_ctimeout]. repeat split; reflexivity.
Qed.

Lemma Forall2_compose_decided : forall now cfg ls l1 l2,
  Forall2 (decided now cfg) ls l1 -> Forall2 cache_only l1 l2 -> Forall2 (decided now cfg) ls l2.
Proof.
  intros now cfg ls l1 l2 H; revert l2. induction H; intros l2 H2; inversion H2; subst; constructor.
  - destruct H as (A & B & C & D). destruct H4 as (A' & B' & C' & D').
    unfold decided. rewrite A', B', C', D'. auto.
  - auto.
Qed.

Lemma cache_only_refl : forall ls, Forall2 cache_only ls ls.
Proof. induction ls; constructor; auto. repeat split; reflexivity. Qed.

Theorem select_decided : forall cfg last now ins ls,
  Forall2 (decided now cfg) ls (fst (select cfg last now ins ls)).
Proof.
  intros. unfold select.
  destruct (cf_classic cfg).
  - cbn [fst]. apply gate_stage_decided.
  - unfold enhanced_select.
    pose proof (enh_go_cache_only now (cf_quality cfg)
                  (any_unconstrained now (apply_stall_gate now cfg ls) ins) last
                  (apply_stall_gate now cfg ls) ins 0 (mkE None (-1)%float None)) as H.
    destruct (enh_go now (cf_quality cfg) _ last (apply_stall_gate now cfg ls) ins 0 _) as [ls' acc].
    cbn [fst] in *.
    eapply Forall2_compose_decided; [apply gate_stage_decided | exact H].
Qed.

Lemma select_length : forall cfg last now ins ls,
  length (fst (select cfg last now ins ls)) = length ls.
Proof. intros. symmetry. eapply Forall2_length'. apply select_decided. Qed.

(** ---- [step] on one index -------------------------------------------------------------- *)
Definition targets (o : op) (i : nat) : bool :=
  match op_target o with Some j => (0 <=? j) && (Z.to_nat j =? i)%nat | None => false end.

Lemma step_env_nth : forall s o i,
  op_target o <> None ->
  nth_error (fst (step s o)) i =
  if targets o i then option_map (env_link o) (nth_error s i) else nth_error s i.
Proof.
  intros s o i Ht. unfold targets.
  destruct o; cbn [step op_target] in *; try congruence;
  match goal with |- context [if ?j <? 0 then _ else _] =>
    destruct (Z.ltb_spec j 0); cbn [fst];
    [ replace (0 <=? j) with false by lia; reflexivity
    | replace (0 <=? j) with true by lia; rewrite nth_error_upd_nth; cbn [andb]; reflexivity ] end.
Qed.

Lemma step_select_nth : forall s last now cfg ins i l,
  nth_error s i = Some l ->
  exists l', nth_error (fst (step s (OSelect last now cfg ins))) i = Some l' /\ decided now cfg l l'.
Proof.
  intros. cbn [step]. eapply Forall2_nth_error_l; [apply select_decided | eassumption].
Qed.

Lemma step_length : forall s o, length (fst (step s o)) = length s.
Proof.
  intros s o. destruct o; cbn [step op_target];
  try (match goal with |- context [if ?j <? 0 then _ else _] => destruct (j <? 0) end; cbn [fst];
       [reflexivity | apply upd_nth_length]).
  apply select_length.
Qed.

(** a non-reset environment op leaves the guard alone *)
Lemma env_link_guard : forall o l,
  (forall j, o <> OReset j) -> lg (env_link o l) = lg l.
Proof.
  intros o l H. destruct o; cbn [env_link]; try reflexivity.
  - destruct (known && (0 <? a_logn (la l))); reflexivity.
  - exfalso. eapply H; reflexivity.
Qed.
