(** C04P.v — whatever the scheduler, the score hysteresis or the best-path override
    chooses is an eligible uplink: not registering, not timed out, not stall-gated. *)
From Coq Require Import Floats.
From Srtla Require Import Base Constants FConstants Stall StallSel StallP Route Run_C04.
From Coq Require Import ZifyBool.
Local Open Scope Z_scope.

Lemma eligible_not_skipped now l : eligible now l = negb (skipped now l).
Proof. unfold eligible, skipped. destruct (schedulable l), (timed_out l now), (g_gated (lg l)); reflexivity. Qed.

(** index bookkeeping: link [k] of a list whose head has index [i] *)
Definition at_idx (ls : list link) (i k : Z) (P : link -> Prop) : Prop :=
  i <= k /\ exists l, nth_error ls (Z.to_nat (k - i)) = Some l /\ P l.

Lemma at_idx_tail l t i k (P : link -> Prop) : at_idx t (i + 1) k P -> at_idx (l :: t) i k P.
Proof.
  intros (H1 & x & Hn & HP). split; [lia|]. exists x. split; [|exact HP].
  replace (Z.to_nat (k - i)) with (S (Z.to_nat (k - (i + 1)))) by lia. exact Hn.
Qed.
Lemma at_idx_head l t i (P : link -> Prop) : P l -> at_idx (l :: t) i i P.
Proof. intros HP. split; [lia|]. exists l. rewrite Z.sub_diag. split; [reflexivity|exact HP]. Qed.

Lemma at_idx_nthZ ls k (P : link -> Prop) : at_idx ls 0 k P -> exists l, nthZ ls k = Some l /\ P l.
Proof.
  intros (H0 & l & Hn & HP). exists l. split; [|exact HP]. unfold nthZ.
  replace (k <? 0) with false by lia. rewrite Z.sub_0_r in Hn. exact Hn.
Qed.

(** ---- classic ---- *)
Lemma classic_go_elig now : forall ls i best bs k,
  classic_go now ls i best bs = Some k ->
  best = Some k \/ at_idx ls i k (fun l => skipped now l = false).
Proof.
  induction ls as [|l t IH]; intros i best bs k H; cbn [classic_go] in H; [left; exact H|].
  destruct (skipped now l) eqn:Es.
  - destruct (IH _ _ _ _ H) as [E|E]; [left; exact E|right; apply at_idx_tail; exact E].
  - destruct (bs <? get_score l).
    + destruct (IH _ _ _ _ H) as [E|E]; [|right; apply at_idx_tail; exact E].
      inversion E; subst. right. apply at_idx_head. exact Es.
    + destruct (IH _ _ _ _ H) as [E|E]; [left; exact E|right; apply at_idx_tail; exact E].
Qed.

(** ---- enhanced ---- *)
Definition same_view (l l' : link) : Prop :=
  la l' = la l /\ lg l' = lg l /\ lx l' = lx l /\ c_ctimeout (lc l') = c_ctimeout (lc l).

Lemma same_view_refl l : same_view l l. Proof. repeat split. Qed.
Lemma same_view_skipped now l l' : same_view l l' -> skipped now l' = skipped now l.
Proof.
  intros (Ea & Eg & Ex & Ec). unfold skipped, timed_out, schedulable. rewrite Ea, Eg, Ec. reflexivity.
Qed.

Lemma enh_go_elig now quality any last : forall ls ins i acc ls' acc',
  enh_go now quality any last ls ins i acc = (ls', acc') ->
  Forall2 same_view ls ls' /\
  (e_best acc' = e_best acc \/ exists k, e_best acc' = Some k /\ at_idx ls i k (fun l => skipped now l = false)) /\
  (e_cur acc' = e_cur acc \/ exists k, last = Some k /\ at_idx ls i k (fun l => skipped now l = false)).
Proof.
  induction ls as [|l t IH]; intros ins i acc ls' acc' H; cbn [enh_go] in H.
  - inversion H; subst. split; [constructor|]. split; left; reflexivity.
  - destruct (skipped now l || (any && si_capx (hd selin0 ins))) eqn:Es.
    + destruct (enh_go now quality any last t (tl ins) (i + 1) acc) as [t' a'] eqn:Er. inversion H; subst.
      destruct (IH _ _ _ _ _ Er) as (HF & HB & HC). split; [constructor; [apply same_view_refl|exact HF]|].
      split.
      * destruct HB as [E|(k & E & Hk)]; [left; exact E|right; exists k; split; [exact E|apply at_idx_tail; exact Hk]].
      * destruct HC as [E|(k & E & Hk)]; [left; exact E|right; exists k; split; [exact E|apply at_idx_tail; exact Hk]].
    + apply orb_false_iff in Es as [Es _].
      cbn zeta in H.
      match type of H with context [enh_go now quality any last t (tl ins) (i + 1) ?a1] =>
        destruct (enh_go now quality any last t (tl ins) (i + 1) a1) as [t' a'] eqn:Er; set (acc1 := a1) in * end.
      inversion H; subst. destruct (IH _ _ _ _ _ Er) as (HF & HB & HC).
      split.
      { constructor; [|exact HF]. unfold same_view. cbn [la lg lx lc]. repeat split.
        destruct quality; [|reflexivity]. unfold refresh_quality. destruct (_ <=? _); reflexivity. }
      assert (Hb1 : e_best acc1 = e_best acc \/ e_best acc1 = Some i).
      { unfold acc1. destruct (_ <? _)%float; cbn [e_best]; auto. }
      assert (Hc1 : e_cur acc1 = e_cur acc \/ last = Some i).
      { unfold acc1. destruct (opt_eqb Z.eqb (Some i) last) eqn:El.
        - right. destruct last as [j|]; cbn in El; [apply Z.eqb_eq in El; congruence|discriminate].
        - left. destruct (_ <? _)%float; reflexivity. }
      split.
      * destruct HB as [E|(k & E & Hk)]; [|right; exists k; split; [exact E|apply at_idx_tail; exact Hk]].
        destruct Hb1 as [E1|E1]; [left; congruence|].
        right. exists i. split; [congruence|apply at_idx_head; exact Es].
      * destruct HC as [E|(k & E & Hk)]; [|right; exists k; split; [exact E|apply at_idx_tail; exact Hk]].
        destruct Hc1 as [E1|E1]; [left; congruence|].
        right. exists i. split; [exact E1|apply at_idx_head; exact Es].
Qed.

Lemma at_idx_post now ls ls' i k : Forall2 same_view ls ls' ->
  at_idx ls i k (fun l => skipped now l = false) -> at_idx ls' i k (fun l => skipped now l = false).
Proof.
  intros HF (Hi & l & Hn & Hs). split; [exact Hi|].
  revert Hn. generalize (Z.to_nat (k - i)). induction HF as [|x y xs ys Hxy HF IH]; intros [|n] Hn; cbn in *; try discriminate.
  - inversion Hn; subst. exists y. split; [reflexivity|]. rewrite (same_view_skipped now l y Hxy). exact Hs.
  - apply IH. exact Hn.
Qed.

Lemma enhanced_elig now quality last ls ins ls' k :
  enhanced_select now quality last ls ins = (ls', Some k) ->
  Forall2 same_view ls ls' /\ at_idx ls' 0 k (fun l => skipped now l = false).
Proof.
  unfold enhanced_select.
  destruct (enh_go now quality (any_unconstrained now ls ins) last ls ins 0 (mkE None (-1)%float None)) as [l1 acc] eqn:Er.
  intros H. inversion H; subst. clear H.
  destruct (enh_go_elig _ _ _ _ _ _ _ _ _ _ Er) as (HF & HB & HC). split; [exact HF|].
  cbn [e_best e_cur] in HB, HC.
  assert (Hbest : forall j, e_best acc = Some j -> at_idx ls' 0 j (fun l => skipped now l = false)).
  { intros j Ej. destruct HB as [E|(k0 & E & Hk)]; [congruence|]. rewrite Ej in E. inversion E; subst.
    eapply at_idx_post; eassumption. }
  match goal with H : _ = Some k |- _ => rename H into Hres end.
  destruct last as [la_|]; [|apply Hbest; exact Hres].
  destruct (opt_eqb Z.eqb (e_best acc) (Some la_)); [apply Hbest; exact Hres|].
  destruct (e_cur acc) as [cur|] eqn:Ec; [|apply Hbest; exact Hres].
  destruct (_ <? _)%float; [|apply Hbest; exact Hres].
  inversion Hres; subst.
  destruct HC as [E|(k0 & E & Hk)]; [discriminate|]. inversion E; subst.
  eapply at_idx_post; eassumption.
Qed.

(** ---- the gate pass keeps the parts the skip test reads, except the gate flag it sets ---- *)
Lemma select_elig cfg last now ins ls ls' k :
  select cfg last now ins ls = (ls', Some k) ->
  exists l, nthZ ls' k = Some l /\ eligible now l = true.
Proof.
  unfold select. destruct (cf_classic cfg).
  - intros H. inversion H; subst. clear H.
    match goal with H : classic_select _ _ = Some k |- _ => unfold classic_select in H; apply classic_go_elig in H; destruct H as [E|E]; [discriminate|] end.
    destruct (at_idx_nthZ _ _ _ E) as (l & Hn & Hs). exists l. split; [exact Hn|]. rewrite eligible_not_skipped, Hs. reflexivity.
  - intros H. apply enhanced_elig in H as [_ E].
    destruct (at_idx_nthZ _ _ _ E) as (l & Hn & Hs). exists l. split; [exact Hn|]. rewrite eligible_not_skipped, Hs. reflexivity.
Qed.

(** ---- the override (with the eligibility filter) ---- *)
Lemma bq_go_elig now : forall ls i best bq k,
  bq_go true now ls i best bq = Some k ->
  best = Some k \/ at_idx ls i k (fun l => bq_skip true now l = false).
Proof.
  induction ls as [|l t IH]; intros i best bq k H; cbn [bq_go] in H; [left; exact H|].
  destruct (bq_skip true now l) eqn:Es.
  - destruct (IH _ _ _ _ H) as [E|E]; [left; exact E|right; apply at_idx_tail; exact E].
  - destruct (_ <? _)%float.
    + destruct (IH _ _ _ _ H) as [E|E]; [|right; apply at_idx_tail; exact E].
      inversion E; subst. right. apply at_idx_head. exact Es.
    + destruct (IH _ _ _ _ H) as [E|E]; [left; exact E|right; apply at_idx_tail; exact E].
Qed.

Lemma bq_skip_elig now l : bq_skip true now l = false -> eligible now l = true.
Proof.
  unfold bq_skip, eligible. cbn [andb]. intros H.
  apply orb_false_iff in H as [H H3]. apply orb_false_iff in H as [H1 H2]. apply orb_false_iff in H3 as [H3 H4].
  rewrite H3, H4. destruct (schedulable l); [reflexivity|discriminate].
Qed.

Theorem route_elig cfg last now ins critical p ls ls' k :
  route true cfg last now ins critical p ls = (ls', Some k) ->
  exists l, nthZ ls' k = Some l /\ eligible now l = true.
Proof.
  unfold route. destruct (select cfg last now ins ls) as [ls1 sel] eqn:Es.
  intros H. inversion H; subst ls'. clear H.
  match goal with H : _ = Some k |- _ => rename H into Hr end.
  assert (Hsel : sel = Some k -> exists l, nthZ ls1 k = Some l /\ eligible now l = true).
  { intros ->. eapply select_elig. exact Es. }
  destruct (negb (cf_classic cfg) && p_data p && (critical || p_retr p)); [|apply Hsel; exact Hr].
  destruct (best_quality true now ls1) as [b|] eqn:Eb; [|apply Hsel; exact Hr].
  destruct (opt_eqb Z.eqb sel (Some b)); [apply Hsel; exact Hr|].
  inversion Hr; subst. unfold best_quality in Eb. apply bq_go_elig in Eb as [E|E]; [discriminate|].
  destruct (at_idx_nthZ _ _ _ E) as (l & Hn & Hs). exists l. split; [exact Hn|apply bq_skip_elig; exact Hs].
Qed.

(** ---------- the whole arm and the monitor ---------- *)
Definition model_case (cfg : config) (last : option Z) (now : Z) (ins : list selin) (critical : bool) (p : pkt)
                      (ls : list link) : dcase :=
  mkCase cfg last now ins critical p ls
         (fst (handle true cfg last now ins critical p ls)) (snd (handle true cfg last now ins critical p ls)).

Lemma gate_same_x now cfg ls : Forall2 (fun a b => lx b = lx a) ls (apply_stall_gate now cfg ls).
Proof.
  unfold apply_stall_gate. cbn zeta. destruct (cf_guard cfg).
  - generalize (existsb (healthy now) (map (gate_link now cfg) ls)). intros h.
    rewrite map_map. induction ls; cbn [map]; [constructor|constructor; [reflexivity|assumption]].
  - induction ls; cbn [map]; [constructor|constructor; [reflexivity|assumption]].
Qed.

Lemma Forall2_trans_x (a b c : list link) :
  Forall2 (fun x y => lx y = lx x) a b -> Forall2 (fun x y => lx y = lx x) b c -> Forall2 (fun x y => lx y = lx x) a c.
Proof.
  intros H. revert c. induction H; intros c Hc; inversion Hc; subst; constructor; [congruence|auto].
Qed.

Lemma select_same_x cfg last now ins ls : Forall2 (fun a b => lx b = lx a) ls (fst (select cfg last now ins ls)).
Proof.
  unfold select. destruct (cf_classic cfg); cbn [fst]; [apply gate_same_x|].
  apply (Forall2_trans_x ls (apply_stall_gate now cfg ls)); [apply gate_same_x|].
  unfold enhanced_select.
  destruct (enh_go _ _ _ _ _ _ _ _) as [l1 acc] eqn:Er. cbn [fst].
  destruct (enh_go_elig _ _ _ _ _ _ _ _ _ _ Er) as (HF & _ & _).
  clear -HF. induction HF as [|a b xs ys (_ & _ & Ex & _) HF IH]; constructor; [exact Ex|exact IH].
Qed.

Lemma forward_length k d : forall ls i, length (forward k d ls i) = length ls.
Proof. induction ls; intros i; cbn; [reflexivity|]. rewrite IHls. reflexivity. Qed.

Lemma probe_link_view l : g_gated (lg (probe_link l)) = g_gated (lg l) /\ a_conn (la (probe_link l)) = a_conn (la l) /\
  (queued_of l < queued_of (probe_link l) -> g_gated (lg l) && a_conn (la l) = true) /\
  schedulable (probe_link l) = schedulable l /\ timed_out (probe_link l) = timed_out l.
Proof.
  unfold probe_link. destruct (g_gated (lg l) && a_conn (la l)) eqn:E.
  - destruct (STALL_PROBE_ONE_IN_N <=? g_probe (lg l) + 1); cbn; repeat split; auto.
  - repeat split; auto. unfold queued_of. lia.
Qed.

Lemma others_ok_forward k d : forall pre l1 i,
  Forall2 (fun a b => lx b = lx a) pre l1 ->
  others_ok (Some k) d pre (forward k d l1 i) i = true.
Proof.
  intros pre l1 i H. revert i. induction H as [|a b pre l1 Hab H IH]; intros i; cbn [forward others_ok]; [reflexivity|].
  rewrite IH, andb_true_r. cbn [opt_eqb]. rewrite (Z.eqb_sym k i).
  destruct (i =? k); [reflexivity|].
  destruct d.
  - destruct (probe_link_view b) as (Eg & Ec & Hq & _). unfold queued_of in *.
    destruct (x_queued (lx a) <? x_queued (lx (probe_link b))) eqn:Eq; [|reflexivity].
    rewrite Eg, Ec. cbn [andb]. rewrite andb_true_r. apply Hq. rewrite Hab. lia.
  - unfold queued_of. rewrite Hab. rewrite Z.ltb_irrefl. reflexivity.
Qed.

Lemma others_ok_none d : forall pre l1 i,
  Forall2 (fun a b => lx b = lx a) pre l1 -> others_ok None d pre l1 i = true.
Proof.
  intros pre l1 i H. revert i. induction H as [|a b pre l1 Hab H IH]; intros i; cbn [others_ok]; [reflexivity|].
  rewrite IH, andb_true_r. cbn [opt_eqb]. unfold queued_of. rewrite Hab, Z.ltb_irrefl. reflexivity.
Qed.

Lemma forward_nth k d : forall ls i l, nth_error ls (Z.to_nat (k - i)) = Some l -> i <= k ->
  nth_error (forward k d ls i) (Z.to_nat (k - i)) = Some (bump_queue l).
Proof.
  induction ls as [|x t IH]; intros i l Hn Hi; [destruct (Z.to_nat (k - i)); discriminate|].
  cbn [forward]. destruct (Z.to_nat (k - i)) as [|n] eqn:En.
  - cbn in *. inversion Hn; subst. replace (i =? k) with true by lia. reflexivity.
  - cbn in *. replace n with (Z.to_nat (k - (i + 1))) by lia. apply IH; [|lia].
    replace (Z.to_nat (k - (i + 1))) with n by lia. exact Hn.
Qed.

Lemma F2_length {A B} (R : A -> B -> Prop) l l' : Forall2 R l l' -> length l = length l'.
Proof. induction 1; cbn; congruence. Qed.

Lemma Forall2_nth_error_r {A B} (R : A -> B -> Prop) la lb :
  Forall2 R la lb -> forall i b, nth_error lb i = Some b -> exists a, nth_error la i = Some a /\ R a b.
Proof.
  induction 1 as [|x y la lb Hxy H IH]; intros [|i] b0 E; cbn in *; try discriminate.
  - inversion E; subst. eauto.
  - eauto.
Qed.

(** every link leaves the decision with the configured liveness window in its own copy *)
Lemma route_timeout_refreshed cfg last now ins critical p ls ls' s k l :
  route true cfg last now ins critical p ls = (ls', s) -> nthZ ls' k = Some l ->
  c_ctimeout (lc l) = cf_ctimeout cfg.
Proof.
  unfold route. pose proof (select_decided cfg last now ins ls) as Hd.
  destruct (select cfg last now ins ls) as [ls1 sel]. cbn [fst] in Hd.
  intros H Hn. inversion H; subst ls'. unfold nthZ in Hn. destruct (k <? 0); [discriminate|].
  destruct (Forall2_nth_error_r _ _ _ Hd _ _ Hn) as (a & _ & (_ & _ & _ & Ec)). exact Ec.
Qed.

Lemma eligible_cfg_of_eligible cfg now l :
  eligible now l = true -> c_ctimeout (lc l) = cf_ctimeout cfg -> eligible_cfg cfg now l = true.
Proof.
  intros He Ec. unfold eligible_cfg. rewrite He. cbn [andb].
  unfold eligible in He. apply andb_true_iff in He as [He _]. apply andb_true_iff in He as [_ Ht].
  unfold timed_out in Ht. rewrite Ec in Ht. exact Ht.
Qed.

Theorem handle_monitor cfg last now ins critical p ls : mon_C04 (model_case cfg last now ins critical p ls) = 0%N.
Proof.
  unfold mon_C04, model_case. cbn [r_pre r_post r_routed r_now r_pkt r_cfg].
  unfold handle. destruct (route true cfg last now ins critical p ls) as [ls1 s] eqn:Er.
  assert (Hx : Forall2 (fun a b => lx b = lx a) ls ls1).
  { pose proof (select_same_x cfg last now ins ls) as H. unfold route in Er.
    destruct (select cfg last now ins ls) as [l1 sel]. inversion Er; subst. exact H. }
  pose proof (F2_length _ _ _ Hx) as Hlen.
  destruct s as [k|].
  - destruct ((0 <=? k) && (k <? blen ls1)) eqn:Ek; cbn [fst snd].
    + rewrite forward_length, Hlen, Nat.eqb_refl. cbn [negb].
      destruct (route_elig _ _ _ _ _ _ _ _ _ Er) as (l & Hn & He).
      unfold nthZ in *. replace (k <? 0) with false in * by lia.
      pose proof (forward_nth k (p_data p) ls1 0 l) as Hf. rewrite Z.sub_0_r in Hf. rewrite (Hf Hn) by lia.
      assert (Eb : eligible_cfg cfg now (bump_queue l) = eligible_cfg cfg now l) by reflexivity.
      assert (Hc : c_ctimeout (lc l) = cf_ctimeout cfg).
      { eapply (route_timeout_refreshed cfg last now ins critical p ls ls1 (Some k) k l Er).
        unfold nthZ. replace (k <? 0) with false by lia. exact Hn. }
      rewrite Eb, (eligible_cfg_of_eligible cfg now l He Hc). cbn [negb]. rewrite others_ok_forward by exact Hx. reflexivity.
    + rewrite Hlen, Nat.eqb_refl. cbn [negb]. rewrite others_ok_none by exact Hx. reflexivity.
  - cbn [fst snd]. rewrite Hlen, Nat.eqb_refl. cbn [negb]. rewrite others_ok_none by exact Hx. reflexivity.
Qed.

(** ---------- fault histories: the abstract queue model never transmits on a link that is down ---------- *)
Definition finv (s : list flink) : Prop := Forall (fun l => fst l = false -> snd l = 0) s.

(** the scheduler's choice is a connected link (what C04_route_eligible gives: eligible links have
    completed registration; [connected] and the phase are set together by REG3 and by the resets) *)
Definition fop_wf (s : list flink) (o : fop) : Prop :=
  match o with
  | FClient (Some k) _ => exists l, nth_error s k = Some l /\ fst l = true
  | _ => True
  end.

Lemma fupd_Forall (P : flink -> Prop) f : (forall l, P l -> P (f l)) -> forall s i, Forall P s -> Forall P (fupd i f s).
Proof.
  intros Hf. induction s as [|x t IH]; intros i H; cbn [fupd]; [constructor|].
  inversion H; subst. destruct i; constructor; auto.
Qed.

Lemma fupd_Forall_at (P : flink -> Prop) f : forall s i l, nth_error s i = Some l -> P (f l) ->
  Forall P s -> Forall P (fupd i f s).
Proof.
  induction s as [|x t IH]; intros i l Hn Hp H; cbn [fupd]; [constructor|].
  inversion H; subst. destruct i; cbn in Hn.
  - inversion Hn; subst. constructor; assumption.
  - constructor; [assumption|]. eapply IH; eassumption.
Qed.

Lemma fupd_const_Forall (P : flink -> Prop) v : P v -> forall s i, Forall P s -> Forall P (fupd i (fun _ => v) s).
Proof. intros Hv. apply fupd_Forall. intros; exact Hv. Qed.

Lemma fstep_inv s o : finv s -> fop_wf s o -> finv (fst (fstep_model s o)).
Proof.
  unfold finv. intros H Hw. destruct o as [[k|] fl| |i|i|i|]; cbn [fstep_model fst]; try exact H.
  - destruct Hw as (l & Hn & Hc).
    assert (H1 : Forall (fun l => fst l = false -> snd l = 0) (fupd k (fun l => (fst l, snd l + 1)) s)).
    { eapply fupd_Forall_at; [exact Hn| |exact H]. cbn. intros E. congruence. }
    destruct fl; cbn [fst]; [|exact H1].
    apply fupd_Forall; [|exact H1]. intros l0 _. cbn. reflexivity.
  - induction H; cbn; constructor; auto.
  - apply fupd_const_Forall; [|exact H]. reflexivity.
  - apply fupd_const_Forall; [|exact H]. reflexivity.
  - apply fupd_Forall; [|exact H]. intros l0 _. cbn. reflexivity.
Qed.

Lemma map_const_zero_quiet {A} (pre : list bool) (s : list A) : tx_while_down pre (map (fun _ => 0) s) = false.
Proof.
  revert pre. induction s as [|x t IH]; intros [|c pre]; cbn; try reflexivity.
  rewrite IH. destruct c; reflexivity.
Qed.

Lemma fstep_quiet s o : finv s -> fop_wf s o -> tx_while_down (map fst s) (snd (fstep_model s o)) = false.
Proof.
  intros H Hw. destruct o as [[k|] fl| |i|i|i|]; cbn [fstep_model snd]; try apply map_const_zero_quiet.
  - destruct fl; cbn [snd]; [|apply map_const_zero_quiet].
    (* threshold flush on the chosen, connected link *)
    destruct Hw as (l & Hn & Hc).
    assert (G : forall (s1 : list flink) (pre : list bool) j,
              (forall i c, nth_error pre i = Some c -> (j + i)%nat = k -> c = true) ->
              tx_while_down pre (map (fun p => if Nat.eqb (fst p) k then snd (snd p) else 0)
                                     (combine (seq j (length s1)) s1)) = false).
    { induction s1 as [|x t IH]; intros pre j Hp; destruct pre as [|c pre]; cbn; try reflexivity.
      rewrite (IH pre (S j)).
      - destruct (Nat.eqb j k) eqn:E.
        + apply Nat.eqb_eq in E. rewrite (Hp 0%nat c eq_refl) by lia. reflexivity.
        + cbn. rewrite andb_false_r. reflexivity.
      - intros i c0 Hi Hj. apply (Hp (S i) c0 Hi). lia. }
    apply G. intros i c Hi Hj. cbn in Hj. subst i.
    rewrite nth_error_map in Hi. unfold flink in *. rewrite Hn in Hi. cbn in Hi. inversion Hi; subst. exact Hc.
  - (* flush tick: every link sends its queue; a link that is down has an empty one *)
    clear Hw. unfold finv in H. induction H as [|x t Hx Ht IH]; cbn; [reflexivity|].
    rewrite IH. destruct (fst x) eqn:E; cbn; [reflexivity|]. rewrite (Hx eq_refl). reflexivity.
Qed.

Fixpoint fops_wf (s : list flink) (ops : list fop) : Prop :=
  match ops with
  | [] => True
  | o :: t => fop_wf s o /\ fops_wf (fst (fstep_model s o)) t
  end.

Theorem fault_model_monitor s ops : finv s -> fops_wf s ops -> mon_fault (ftrace s ops) = 0%N.
Proof.
  revert s. induction ops as [|o t IH]; intros s H Hw; cbn [ftrace]; [reflexivity|].
  destruct Hw as [Hw Ht].
  pose proof (fstep_quiet s o H Hw) as Hq. pose proof (fstep_inv s o H Hw) as Hi.
  destruct (fstep_model s o) as [s' tx]. cbn [fst snd] in *. cbn [mon_fault fs_pre_conn fs_tx].
  rewrite Hq. apply IH; assumption.
Qed.
