(** LeafTrkP.v — SequenceTracker::{insert, get} (src/sender/sequence.rs) as regenerated from the Rust source on
    every run (coq/Gen/LeafTrk.v) = the tracker of Model/Conn.v (C05).  See DESIGN.md §12.8 (third batch).

    The Rust ring is a fixed array indexed by [seq & SEQ_TRACKING_MASK]; the generated definitions are
    functions of the ONE element that is read / written: [entry_slot] says which, the element's fields are
    inputs (before) and outputs (after).  The model is an association list slot |-> entry in which an absent
    slot stands for the all-zero default entry of the array ([conn_id = 0] = empty).  [count] (logging only)
    is not part of the model.  Hypothesis [0 <= seq]: a [u32]. *)
From Coq Require Import List.
From Srtla Require Import Base Constants LeafSeq LeafTrk LeafTac.
From Srtla Require Conn.
From Coq Require Import ZifyBool.
Import ListNotations.
Local Open Scope Z_scope.

Lemma trk_land_mask x : Z.land x SEQ_TRACKING_MASK = x mod SEQ_TRACKING_SIZE.
Proof. change SEQ_TRACKING_MASK with (Z.ones 14). rewrite Z.land_ones by lia. reflexivity. Qed.
Lemma trk_rem_size x : 0 <= x -> Z.rem x SEQ_TRACKING_SIZE = x mod SEQ_TRACKING_SIZE.
Proof. intros. apply Z.rem_mod_nonneg; [ assumption | reflexivity ]. Qed.

(* the slot computation, whichever way it is written (mask or remainder), is the model's [slot] *)
Ltac trk_norm := unfold Conn.slot; cbv zeta; rewrite ?trk_land_mask, ?trk_rem_size by assumption.

(** the element a lookup sees: the stored entry, or the default entry of an untouched array cell *)
Definition trk_cell (t : Conn.tracker) (s : Z) : Conn.tentry :=
  match Conn.trk_find s t with Some e => e | None => (0, 0, 0) end.

Lemma leaf_trk_get_ok t seq now :
  0 <= seq ->
  let e := trk_cell t (Conn.slot seq) in
  let '(sl, r) := leaf_trk_get (fst (fst e)) (snd (fst e)) (snd e) seq now in
  sl = Conn.slot seq /\ Conn.trk_get t seq now = r.
Proof.
  intros H; unfold trk_cell, Conn.trk_get; destruct (Conn.trk_find (Conn.slot seq) t) as [[[id ts] sq]|];
    cbn [fst snd]; unfold leaf_trk_get; trk_norm;
    first [ solve [ unfold leaf_seq_is_valid, leaf_seq_is_expired;
                    repeat match goal with |- context [if ?b then _ else _] => destruct b eqn:? end;
                    split; first [ reflexivity | lia | congruence ] ]
          | solve [ leaf_auto ] | solve [ leaf_auto2 ] ].
Qed.

Lemma leaf_trk_insert_ok t seq id now id0 ts0 sq0 cnt :
  0 <= seq ->
  let '(sl, id', ts', sq', _) := leaf_trk_insert id0 ts0 sq0 cnt seq id now in
  sl = Conn.slot seq /\ Conn.trk_insert t seq id now = (sl, (id', ts', sq')) :: Conn.trk_remove sl t.
Proof.
  intros H; unfold leaf_trk_insert, Conn.trk_insert; trk_norm;
    first [ solve [ destruct (id0 =? 0); split; reflexivity ]
          | solve [ repeat match goal with |- context [if ?b then _ else _] => destruct b eqn:? end;
                    cbv beta iota zeta; split; first [ reflexivity | f_equal; f_equal; congruence ] ] ].
Qed.

(** the index is inside the array [entries : [_; SEQ_TRACKING_SIZE]] (indexing cannot panic) *)
Lemma leaf_trk_slot_in_range seq id now id0 ts0 sq0 cnt :
  0 <= seq ->
  0 <= fst (leaf_trk_get id0 ts0 sq0 seq now) < SEQ_TRACKING_SIZE /\
  0 <= fst (fst (fst (fst (leaf_trk_insert id0 ts0 sq0 cnt seq id now)))) < SEQ_TRACKING_SIZE.
Proof.
  intros H. pose proof (Z.mod_pos_bound seq SEQ_TRACKING_SIZE eq_refl).
  unfold leaf_trk_get, leaf_trk_insert; cbv zeta; rewrite ?trk_land_mask, ?trk_rem_size by assumption.
  split; repeat match goal with |- context [if ?b then _ else _] => destruct b end; cbn [fst]; assumption.
Qed.

(** the approximate element count: one more exactly when the cell was empty, saturating (logging only) *)
Lemma leaf_trk_insert_count_ok seq id now id0 ts0 sq0 cnt :
  let '(_, _, _, _, cnt') := leaf_trk_insert id0 ts0 sq0 cnt seq id now in
  cnt' = if id0 =? 0 then sat_add_u64 cnt 1 else cnt.
Proof. first [ solve [ unfold leaf_trk_insert; cbv zeta; destruct (id0 =? 0); reflexivity ] | leaf_auto | leaf_auto2 ]. Qed.
