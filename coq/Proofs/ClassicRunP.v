(** ClassicRunP.v — lemmas for C10, part 4: the monitor of Run/Run_C10.v holds on every
    trace of the model (Model/Classic.v with the override guarded). *)
From Coq Require Import ZifyBool Permutation.
From Srtla Require Import Base Constants Conn ConnP Classic ClassicRef ClassicP ClassicInvP ClassicEvP Run_C10.

Definition Inv (s : shell) : Prop := Forall inv_x (xs s).
Definition wf_op (o : xop) : Prop := match o with XSetWindow _ w => 0 <= w <= WB | _ => True end.

(** ---- observations of model links ---- *)
Lemma zb_eqb b : (zb b =? 1) = b.
Proof. destruct b; reflexivity. Qed.

Lemma insert_sorted_length x l : length (insert_sorted x l) = S (length l).
Proof. induction l as [|y l IH]; cbn; [reflexivity|]. destruct (x <=? y); cbn; [reflexivity|]. rewrite IH. reflexivity. Qed.
Lemma sort_z_length l : length (sort_z l) = length l.
Proof.
  induction l as [|x l IH]; [reflexivity|].
  change (sort_z (x :: l)) with (insert_sorted x (sort_z l)). rewrite insert_sorted_length, IH. reflexivity.
Qed.
Lemma insert_sorted_perm x l : Permutation (insert_sorted x l) (x :: l).
Proof.
  induction l as [|y l IH]; cbn; [apply Permutation_refl|]. destruct (x <=? y); [apply Permutation_refl|].
  eapply Permutation_trans; [apply perm_skip; exact IH|apply perm_swap].
Qed.
Lemma sort_z_perm l : Permutation (sort_z l) l.
Proof.
  induction l as [|x l IH]; [constructor|].
  change (sort_z (x :: l)) with (insert_sorted x (sort_z l)).
  eapply Permutation_trans; [apply insert_sorted_perm|apply perm_skip; exact IH].
Qed.

Lemma o_win_obs x : o_win (obs_x x) = window (core x).
Proof. reflexivity. Qed.
Lemma o_keys_obs x : o_keys (obs_x x) = sort_z (map fst (log (core x))).
Proof. reflexivity. Qed.
Lemma o_keys_length x : length (o_keys (obs_x x)) = length (log (core x)).
Proof. rewrite o_keys_obs, sort_z_length, map_length. reflexivity. Qed.

Lemma wins_obs l : wins (map obs_x l) = map (fun x => window (core x)) l.
Proof. unfold wins. rewrite map_map. reflexivity. Qed.

Lemma rview_obs now tmo x : rview now tmo (obs_x x) = rl_of now tmo x.
Proof.
  unfold rview, rl_of. f_equal.
  - unfold o_usable, usable_x, o_conn, o_reg, o_has_lr, o_lr, fld, obs_x. cbn [fst nth].
    rewrite !zb_eqb. destruct (last_recv (core x)); reflexivity.
  - unfold blen. rewrite o_keys_length. reflexivity.
  - unfold blen, o_queue, obs_x. cbn [fst snd]. rewrite map_length. reflexivity.
Qed.

Lemma zlist_eqb_refl l : zlist_eqb l l = true.
Proof. induction l as [|x l IH]; cbn; [reflexivity|]. rewrite Z.eqb_refl, IH. reflexivity. Qed.

(** ---- list plumbing ---- *)
Lemma upd_length {A} (f : A -> A) : forall l i, length (upd i f l) = length l.
Proof. induction l as [|x l IH]; intros [|i]; cbn; auto. Qed.

Lemma Forall_upd {A} (P : A -> Prop) (f : A -> A) : forall l i,
  Forall P l -> (forall x, P x -> P (f x)) -> Forall P (upd i f l).
Proof.
  induction l as [|x l IH]; intros i H Hf; [destruct i; constructor|].
  inversion H; subst. destruct i; cbn; constructor; auto.
Qed.

Lemma map_upd_same {A B} (h : A -> B) (f : A -> A) : forall l i,
  (forall x, h (f x) = h x) -> map h (upd i f l) = map h l.
Proof.
  induction l as [|x l IH]; intros i Hf; [destruct i; reflexivity|].
  destruct i; cbn; [rewrite Hf; reflexivity|]. rewrite IH by exact Hf. reflexivity.
Qed.

Lemma map_upd_at {A B} (h : A -> B) (x' : A) : forall l i x,
  nth_error l i = Some x -> h x' = h x -> map h (upd i (fun _ => x') l) = map h l.
Proof.
  induction l as [|y l IH]; intros i x Hn Hh; [destruct i; discriminate|].
  destruct i; cbn in *; [inversion Hn; subst; rewrite Hh; reflexivity|].
  erewrite IH; eauto.
Qed.

Lemma Forall_upd_at {A} (P : A -> Prop) (x' : A) l i : Forall P l -> P x' -> Forall P (upd i (fun _ => x') l).
Proof. intros H Hx. apply Forall_upd; auto. Qed.

Lemma put_cores_length : forall l cs, length cs = length l -> length (put_cores l cs) = length l.
Proof. induction l as [|x l IH]; intros [|c cs] H; cbn in *; try lia. rewrite IH by lia. reflexivity. Qed.

Lemma put_cores_cores : forall l cs, length cs = length l -> cores (put_cores l cs) = cs.
Proof. induction l as [|x l IH]; intros [|c cs] H; cbn in *; try lia; [reflexivity|]. rewrite IH by lia. reflexivity. Qed.

Lemma put_bsizes_length : forall l bs, length (put_bsizes l bs) = length l.
Proof. induction l as [|x l IH]; intros [|b bs]; cbn; auto. Qed.
Lemma put_bsizes_cores : forall l bs, cores (put_bsizes l bs) = cores l.
Proof. induction l as [|x l IH]; intros [|b bs]; cbn; auto. rewrite IH. reflexivity. Qed.

Lemma cores_window l : map (fun x => window (core x)) l = map window (cores l).
Proof. unfold cores. rewrite map_map. reflexivity. Qed.

Lemma Inv_cores l : Forall inv_x l <-> Forall inv_link (cores l).
Proof. unfold cores, inv_x. rewrite Forall_map. tauto. Qed.

(** ---- per-link facts about the shell's own steps ---- *)
Lemma register_all_window q : forall c, window (register_all c q) = window c.
Proof.
  unfold register_all. induction q as [|[sq t] q IH]; intros c; cbn; [reflexivity|].
  rewrite IH. destruct sq; reflexivity.
Qed.

Lemma forward_window x seq now : window (core (fst (forward x seq now))) = window (core x).
Proof.
  unfold forward. destruct (bsize x <=? blen (queue (set_queue x (queue x ++ [(seq, now)])))); cbn [fst];
    [|reflexivity].
  unfold take_batch. cbn [core set_queue set_core]. apply register_all_window.
Qed.
Lemma forward_inv x seq now : inv_x x -> inv_x (fst (forward x seq now)).
Proof.
  intros H. unfold forward. destruct (bsize x <=? blen (queue (set_queue x (queue x ++ [(seq, now)])))); cbn [fst];
    [|exact H].
  unfold take_batch, inv_x. cbn [core set_queue set_core]. apply inv_register_all. exact H.
Qed.

Lemma flush_window x : window (core (fst (flush_link x))) = window (core x).
Proof.
  unfold flush_link. destruct (queue x) eqn:E; cbn [fst]; [reflexivity|].
  unfold take_batch. cbn [core set_queue set_core]. apply register_all_window.
Qed.
Lemma flush_inv x : inv_x x -> inv_x (fst (flush_link x)).
Proof.
  intros H. unfold flush_link. destruct (queue x) eqn:E; cbn [fst]; [exact H|].
  unfold take_batch, inv_x. cbn [core set_queue set_core]. apply inv_register_all. exact H.
Qed.

Lemma srt_ack_window c a : window (handle_srt_ack c a) = window c.
Proof. unfold handle_srt_ack. destruct (a <=? hwm c); reflexivity. Qed.

Lemma stamp_length l idx now : length (stamp l idx now) = length l.
Proof. apply upd_length. Qed.
Lemma stamp_inv l idx now : Forall inv_x l -> Forall inv_x (stamp l idx now).
Proof. intros H. apply Forall_upd; [exact H|]. intros x Hx. exact Hx. Qed.
Lemma stamp_window l idx now : map (fun x => window (core x)) (stamp l idx now) = map (fun x => window (core x)) l.
Proof. apply map_upd_same. reflexivity. Qed.

(** ---- the reference's view of the links an uplink datagram arrived on ---- *)
Definition stampf (now : Z) (x : xlink) : xlink := set_core x (set_conn (core x) (connected (core x)) (Some now)).

Lemma aview_nohit : forall l i arrival, (arrival < i)%nat -> Forall2 arel (cores l) (aview arrival i (map obs_x l)).
Proof.
  induction l as [|x l IH]; intros i arrival H; cbn [cores map aview]; constructor.
  - replace (Nat.eqb i arrival) with false by (symmetry; apply Nat.eqb_neq; lia). rewrite orb_false_r.
    unfold arel, a_conn, a_recv, a_win, a_keys, o_conn, o_has_lr, fld, has_lr. cbn [fst snd obs_x nth].
    rewrite !zb_eqb. repeat split; try reflexivity. rewrite o_keys_obs. apply sort_z_perm.
  - apply IH. lia.
Qed.

Lemma aview_stamp now : forall l i idx,
  Forall2 arel (cores (upd idx (stampf now) l)) (aview (i + idx) i (map obs_x l)).
Proof.
  induction l as [|x l IH]; intros i idx; [destruct idx; constructor|].
  destruct idx as [|idx]; cbn [upd cores map aview].
  - constructor.
    + rewrite Nat.add_0_r, Nat.eqb_refl, orb_true_r.
      unfold arel, a_conn, a_recv, a_win, a_keys, o_conn, fld, has_lr, stampf. cbn [fst snd obs_x nth core set_core set_conn connected last_recv window log].
      rewrite zb_eqb. repeat split; try reflexivity. rewrite o_keys_obs. apply sort_z_perm.
    + apply aview_nohit. lia.
  - constructor.
    + replace (Nat.eqb i (i + S idx)) with false by (symmetry; apply Nat.eqb_neq; lia). rewrite orb_false_r.
      unfold arel, a_conn, a_recv, a_win, a_keys, o_conn, o_has_lr, fld, has_lr. cbn [fst snd obs_x nth].
      rewrite !zb_eqb. repeat split; try reflexivity. rewrite o_keys_obs. apply sort_z_perm.
    + replace (i + S idx)%nat with (S i + idx)%nat by lia. apply IH.
Qed.

Lemma arel_wins cs als : Forall2 arel cs als -> map window cs = map a_win als.
Proof. induction 1 as [|c a cs als (_ & _ & Hw & _) _ IH]; cbn; [reflexivity|]. rewrite Hw, IH. reflexivity. Qed.

Lemma srtla_event_length cs idx seq now : length (srtla_ack_event cs idx seq true now) = length cs.
Proof.
  pose proof (step_ltrans {| links := cs; trk := [] |} (Conn.OSrtlaAck idx seq true now)) as Ht.
  cbn [Conn.step links] in Ht. symmetry. eapply Forall2i_length. exact Ht.
Qed.
Lemma srtla_fold_length idx now : forall seqs cs,
  length (fold_left (fun cs sq => srtla_ack_event cs idx sq true now) seqs cs) = length cs.
Proof. induction seqs as [|sq seqs IH]; intros cs; cbn [fold_left]; [reflexivity|]. rewrite IH. apply srtla_event_length. Qed.

Lemma Forall2_len {A B} (R : A -> B -> Prop) l l' : Forall2 R l l' -> length l = length l'.
Proof. induction 1; cbn; congruence. Qed.

Lemma nak_fold_length t now seqs cs : Forall inv_link cs ->
  length (fold_left (fun cs sq => fst (attribute_nak cs t sq now)) seqs cs) = length cs.
Proof. intros H. destruct (nak_fold_ref t now seqs cs H) as [Hr _]. symmetry. eapply Forall2_len. exact Hr. Qed.

Lemma srtla_fold_oob idx now : forall seqs cs, nth_error cs idx = None ->
  fold_left (fun cs sq => srtla_ack_event cs idx sq true now) seqs cs = cs.
Proof.
  induction seqs as [|sq seqs IH]; intros cs H; cbn [fold_left]; [reflexivity|].
  unfold srtla_ack_event at 2. rewrite H. apply IH. exact H.
Qed.

(** ---- NAK clause on observed links ---- *)
Lemma nak_ok_link x x1 c' : nrel (core x) c' -> nak_link_ok (obs_x x) (obs_x (set_core x1 c')) = true.
Proof.
  intros [Hl Hw]. unfold nak_link_ok. rewrite !o_keys_length, !o_win_obs. cbn [core set_core].
  rewrite Hw, Z.eqb_refl, andb_true_r. apply Nat.leb_le. exact Hl.
Qed.

Lemma nak_ok_list : forall l l1 cs', length l1 = length l ->
  Forall2 (fun x c' => nrel (core x) c') l cs' ->
  forall2b nak_link_ok (map obs_x l) (map obs_x (put_cores l1 cs')) = true.
Proof.
  induction l as [|x l IH]; intros l1 cs' Hlen H; inversion H; subst; destruct l1 as [|x1 l1]; cbn in Hlen; try lia;
    cbn [map put_cores forall2b]; [reflexivity|].
  rewrite nak_ok_link by assumption. apply IH; [lia|assumption].
Qed.

Lemma nak_ok_refl l : forall2b nak_link_ok l l = true.
Proof.
  induction l as [|p l IH]; cbn; [reflexivity|]. rewrite IH, andb_true_r.
  unfold nak_link_ok. rewrite Nat.sub_diag. cbn [ref_naks]. rewrite Z.eqb_refl, andb_true_r. apply Nat.leb_refl.
Qed.

Lemma Forall2_map_l {A B C} (R : B -> C -> Prop) (g : A -> B) : forall l l',
  Forall2 R (map g l) l' -> Forall2 (fun x y => R (g x) y) l l'.
Proof. induction l as [|x l IH]; intros l' H; inversion H; subst; constructor; auto. Qed.

Lemma nrel_src now : forall l idx cs',
  Forall2 nrel (cores (upd idx (stampf now) l)) cs' -> Forall2 (fun x c' => nrel (core x) c') l cs'.
Proof.
  induction l as [|x l IH]; intros idx cs' H; [destruct idx; inversion H; constructor|].
  destruct idx; cbn [upd cores map] in H; inversion H; subst; constructor; try assumption.
  - apply Forall2_map_l. assumption.
  - eapply IH. eassumption.
Qed.

(** ---- monitor clauses that only compare windows ---- *)
Lemma mon_same o p ch sent nl :
  length p = length nl -> wins p = wins nl ->
  match o with XPkt _ _ _ _ | XSrtlaAck _ _ _ | XNak _ _ _ => False | _ => True end ->
  mon_step o p (ch, sent, nl) = 0%N.
Proof.
  intros Hl Hw Ho. unfold mon_step. cbn [fst snd]. rewrite Hl, Nat.eqb_refl. cbn [negb].
  destruct o; try contradiction; rewrite ?Hw, ?zlist_eqb_refl; reflexivity.
Qed.

(** ---- one step of the model satisfies the monitor and keeps the invariant ---- *)
Definition step_good (s : shell) (o : xop) : Prop :=
  mon_step o (obs_shell s) (obs_step (snd (xstep true s o)) (fst (xstep true s o))) = 0%N /\
  Inv (fst (xstep true s o)).

(** ops of the form quiet (with_xs s l') *)
Lemma quiet_good s o l' :
  xstep true s o = quiet (with_xs s l') ->
  length l' = length (xs s) ->
  (match o with XUp _ _ | XDown _ | XSetWindow _ _ | XSetReg _ _ | XSetConn _ _ _ => True
   | XPkt _ _ _ _ | XSrtlaAck _ _ _ | XNak _ _ _ => False
   | _ => map (fun x => window (core x)) l' = map (fun x => window (core x)) (xs s) end) ->
  Forall inv_x l' -> step_good s o.
Proof.
  intros E Hl Hw Hi. unfold step_good. rewrite E. unfold quiet, obs_step, obs_shell, with_xs. cbn [fst snd xs]. split; [|exact Hi].
  destruct o; try contradiction;
    try (apply mon_same; [rewrite !map_length; lia|rewrite !wins_obs; symmetry; exact Hw|exact I]);
    unfold mon_step; cbn [fst snd]; rewrite !map_length, Hl, Nat.eqb_refl; reflexivity.
Qed.

Lemma with_xs_same s : with_xs s (xs s) = s.
Proof. destruct s; reflexivity. Qed.

Lemma good_up s i now : Inv s -> step_good s (XUp i now).
Proof.
  intros H. eapply quiet_good; [reflexivity|apply upd_length|exact I|].
  apply Forall_upd; [exact H|]. intros x Hx. apply inv_reg3. exact Hx.
Qed.
Lemma good_down s i : Inv s -> step_good s (XDown i).
Proof.
  intros H. eapply quiet_good; [reflexivity|apply upd_length|exact I|].
  apply Forall_upd; [exact H|]. intros x Hx. apply inv_mark. exact Hx.
Qed.
Lemma good_setwindow s i w : Inv s -> 0 <= w <= WB -> step_good s (XSetWindow i w).
Proof.
  intros H Hw. eapply quiet_good; [reflexivity|apply upd_length|exact I|].
  apply Forall_upd; [exact H|]. intros x Hx. apply inv_set_window; assumption.
Qed.
Lemma good_setq s i q : Inv s -> step_good s (XSetQ i q).
Proof.
  intros H. eapply quiet_good; [reflexivity|apply upd_length| |].
  - apply map_upd_same. reflexivity.
  - apply Forall_upd; [exact H|]. intros x Hx. exact Hx.
Qed.
Lemma good_setreg s i b : Inv s -> step_good s (XSetReg i b).
Proof.
  intros H. eapply quiet_good; [reflexivity|apply upd_length|exact I|].
  apply Forall_upd; [exact H|]. intros x Hx. exact Hx.
Qed.
Lemma good_setconn s i b lr : Inv s -> step_good s (XSetConn i b lr).
Proof.
  intros H. eapply quiet_good; [reflexivity|apply upd_length|exact I|].
  apply Forall_upd; [exact H|]. intros x Hx. exact Hx.
Qed.
Lemma good_noise s : Inv s -> step_good s XNoise.
Proof.
  intros H. eapply (quiet_good s XNoise (xs s)); [cbn; rewrite with_xs_same; reflexivity|reflexivity|reflexivity|exact H].
Qed.
Lemma good_critical s d : Inv s -> step_good s (XCritical d).
Proof.
  intros H. unfold step_good. cbn [xstep]. unfold quiet, obs_step, obs_shell. cbn [fst snd xs]. split; [|exact H].
  apply mon_same; [reflexivity|reflexivity|exact I].
Qed.
Lemma good_flush s now : Inv s -> step_good s (XFlush now).
Proof.
  intros H. unfold step_good. cbn [xstep]. unfold obs_step, obs_shell, with_xs. cbn [fst snd xs]. split.
  - apply mon_same; [rewrite !map_length; reflexivity| |exact I].
    rewrite !wins_obs, map_map. apply map_ext. intros x. symmetry. apply flush_window.
  - unfold Inv. cbn [xs]. apply Forall_map. eapply Forall_impl; [|exact H]. intros x Hx. apply flush_inv. exact Hx.
Qed.
Lemma good_housekeep s now bs : Inv s -> step_good s (XHousekeep now bs).
Proof.
  intros H. eapply quiet_good; [reflexivity|apply put_bsizes_length| |].
  - rewrite !cores_window, put_bsizes_cores. reflexivity.
  - apply Inv_cores. rewrite put_bsizes_cores. apply Inv_cores. exact H.
Qed.
Lemma good_srtack s idx ack now : Inv s -> step_good s (XSrtAck idx ack now).
Proof.
  intros H. cbv beta delta [step_good]. cbn [xstep].
  destruct (nth_error (xs s) idx) as [x0|].
  2:{ fold (step_good s XNoise). apply good_noise in H. unfold step_good in H. cbn [xstep] in H.
      destruct H as [H1 H2]. split; [|exact H2]. revert H1. unfold quiet, obs_step, obs_shell. cbn [fst snd].
      intros _. apply mon_same; [reflexivity|reflexivity|exact I]. }
  unfold quiet, obs_step, obs_shell, with_xs. cbn [fst snd xs]. split.
  - apply mon_same; [rewrite !map_length; symmetry; apply stamp_length| |exact I].
    rewrite !wins_obs, map_map. cbn [core set_core].
    rewrite <- (stamp_window (xs s) idx now). apply map_ext. intros x. symmetry. apply srt_ack_window.
  - unfold Inv. cbn [xs]. apply Forall_map. eapply Forall_impl; [|apply stamp_inv; exact H].
    intros x Hx. apply inv_srt_ack. exact Hx.
Qed.

Lemma quiet_same_good s o :
  Inv s -> mon_step o (obs_shell s) (zon None, zeros (xs s), obs_shell s) = 0%N ->
  mon_step o (obs_shell s) (obs_step (snd (quiet s)) (fst (quiet s))) = 0%N /\ Inv (fst (quiet s)).
Proof. intros H Hm. split; [exact Hm|exact H]. Qed.

Lemma rviews s now tmo : map (rview now tmo) (obs_shell s) = map (rl_of now tmo) (xs s).
Proof. unfold obs_shell. rewrite map_map. apply map_ext. intros x. apply rview_obs. Qed.

Lemma obs_shell_length s : length (obs_shell s) = length (xs s).
Proof. unfold obs_shell. apply map_length. Qed.
Lemma wins_shell s : wins (obs_shell s) = map (fun x => window (core x)) (xs s).
Proof. unfold obs_shell. apply wins_obs. Qed.

Lemma good_pkt s seq retx now tmo : Inv s -> step_good s (XPkt seq retx now tmo).
Proof.
  intros H. cbv beta delta [step_good]. cbn [xstep]. unfold route.
  pose proof (select_refines_ref (xs s) now tmo H) as Hsel.
  assert (Hmon : forall ch nl, ch = zon (select (xs s) now tmo) -> length nl = length (xs s) ->
            map (fun x => window (core x)) nl = map (fun x => window (core x)) (xs s) ->
            mon_step (XPkt seq retx now tmo) (obs_shell s) (ch, zeros nl, map obs_x nl) = 0%N).
  { intros ch nl Hch Hl Hw. unfold mon_step. cbn [fst snd].
    rewrite obs_shell_length, map_length, Hl, Nat.eqb_refl. cbn [negb].
    rewrite rviews, <- Hsel, Hch, Z.eqb_refl. cbn [negb].
    rewrite wins_shell, wins_obs, Hw, zlist_eqb_refl. reflexivity. }
  destruct (select (xs s) now tmo) as [k|] eqn:Ek.
  2:{ apply quiet_same_good; [exact H|]. apply Hmon; reflexivity. }
  symmetry in Hsel. apply ref_select_lt in Hsel. rewrite map_length in Hsel.
  destruct (nth_error (xs s) k) as [x|] eqn:Ex; [|apply nth_error_None in Ex; lia].
  destruct (forward x seq now) as [x' n] eqn:Ef.
  assert (Hx : inv_x x) by (eapply Forall_forall; [exact H|eapply nth_error_In; exact Ex]).
  assert (Hw' : window (core x') = window (core x)) by (pose proof (forward_window x seq now) as E; rewrite Ef in E; exact E).
  assert (Hi' : inv_x x') by (pose proof (forward_inv x seq now Hx) as E; rewrite Ef in E; exact E).
  unfold obs_step. cbn [fst snd]. split.
  - unfold mon_step. cbn [fst snd]. rewrite !obs_shell_length. cbn [xs]. rewrite upd_length, Nat.eqb_refl. cbn [negb].
    rewrite rviews.
    rewrite <- (select_refines_ref (xs s) now tmo H), Ek, Z.eqb_refl. cbn [negb].
    rewrite !wins_shell. cbn [xs].
    rewrite (map_upd_at (fun x => window (core x)) x' (xs s) k x Ex Hw'), zlist_eqb_refl. reflexivity.
  - unfold Inv. cbn [xs]. apply Forall_upd_at; assumption.
Qed.

Lemma stamp_eq l idx now : stamp l idx now = upd idx (stampf now) l.
Proof. reflexivity. Qed.

Lemma good_srtlaack s idx seqs now : Inv s -> step_good s (XSrtlaAck idx seqs now).
Proof.
  intros H. cbv beta delta [step_good]. cbn [xstep].
  pose proof (aview_stamp now (xs s) 0 idx) as Hav. cbn [Nat.add] in Hav. rewrite <- stamp_eq in Hav.
  assert (Hinv1 : Forall inv_link (cores (stamp (xs s) idx now))) by (apply Inv_cores, stamp_inv; exact H).
  destruct (srtla_ack_fold_ref idx now seqs _ _ Hav Hinv1) as [Hrel Hinv2].
  fold (obs_shell s) in Hrel.
  set (cs' := fold_left (fun cs sq => srtla_ack_event cs idx sq true now) seqs (cores (stamp (xs s) idx now))) in *.
  assert (Hlen : length cs' = length (stamp (xs s) idx now)).
  { unfold cs'. rewrite srtla_fold_length. unfold cores. apply map_length. }
  destruct (nth_error (xs s) idx) as [x0|] eqn:En.
  - unfold quiet, obs_step, obs_shell, with_xs. cbn [fst snd xs]. split.
    + unfold mon_step. cbn [fst snd]. rewrite !map_length, put_cores_length, stamp_length, Nat.eqb_refl by exact Hlen.
      cbn [negb]. fold (obs_shell s). rewrite <- (arel_wins _ _ Hrel).
      rewrite wins_obs, cores_window, put_cores_cores by exact Hlen. rewrite zlist_eqb_refl. reflexivity.
    + unfold Inv. cbn [xs]. apply Inv_cores. rewrite put_cores_cores by exact Hlen. exact Hinv2.
  - apply quiet_same_good; [exact H|].
    unfold mon_step. cbn [fst snd]. rewrite Nat.eqb_refl. cbn [negb].
    rewrite <- (arel_wins _ _ Hrel). unfold cs'.
    rewrite srtla_fold_oob.
    + unfold obs_shell. rewrite wins_obs, <- cores_window, stamp_window, zlist_eqb_refl. reflexivity.
    + apply nth_error_None. unfold cores. rewrite map_length, stamp_length. apply nth_error_None. exact En.
Qed.

Lemma good_nak s idx seqs now : Inv s -> step_good s (XNak idx seqs now).
Proof.
  intros H. cbv beta delta [step_good]. cbn [xstep].
  destruct (nth_error (xs s) idx) as [x0|] eqn:En.
  - assert (Hinv1 : Forall inv_link (cores (stamp (xs s) idx now))) by (apply Inv_cores, stamp_inv; exact H).
    destruct (nak_fold_ref (tr s) now seqs _ Hinv1) as [Hrel Hinv2].
    pose proof (nak_fold_length (tr s) now seqs _ Hinv1) as Hlen.
    set (cs' := fold_left (fun cs sq => fst (attribute_nak cs (tr s) sq now)) seqs (cores (stamp (xs s) idx now))) in *.
    assert (Hlen' : length cs' = length (stamp (xs s) idx now)) by (rewrite Hlen; unfold cores; apply map_length).
    unfold quiet, obs_step, obs_shell, with_xs. cbn [fst snd xs]. split.
    + unfold mon_step. cbn [fst snd]. rewrite !map_length, put_cores_length, stamp_length, Nat.eqb_refl by exact Hlen'.
      cbn [negb]. rewrite nak_ok_list; [reflexivity|apply stamp_length|].
      apply (nrel_src now (xs s) idx). rewrite <- stamp_eq. exact Hrel.
    + unfold Inv. cbn [xs]. apply Inv_cores. rewrite put_cores_cores by exact Hlen'. exact Hinv2.
  - apply quiet_same_good; [exact H|].
    unfold mon_step. cbn [fst snd]. rewrite Nat.eqb_refl. cbn [negb]. rewrite nak_ok_refl. reflexivity.
Qed.

Theorem step_ok s o : Inv s -> wf_op o -> step_good s o.
Proof.
  intros H Hw. destruct o.
  - apply good_up; exact H.
  - apply good_down; exact H.
  - apply good_setwindow; [exact H|exact Hw].
  - apply good_setq; exact H.
  - apply good_setreg; exact H.
  - apply good_setconn; exact H.
  - apply good_noise; exact H.
  - apply good_critical; exact H.
  - apply good_pkt; exact H.
  - apply good_flush; exact H.
  - apply good_srtlaack; exact H.
  - apply good_srtack; exact H.
  - apply good_nak; exact H.
  - apply good_housekeep; exact H.
Qed.

(** ---- whole runs ---- *)
Definition model_trace (g : bool) (s : shell) (ops : list xop) : list (xop * fobs) :=
  map (fun t => (fst (fst t), obs_step (snd (fst t)) (snd t))) (xrun g s ops).

Lemma run_mon_model : forall ops s i, Inv s -> Forall wf_op ops ->
  run_mon (obs_shell s) (model_trace true s ops) i = (0, 0)%N.
Proof.
  induction ops as [|o ops IH]; intros s i H Hw; [reflexivity|].
  inversion Hw as [|? ? Ho Hops]; subst.
  destruct (step_ok s o H Ho) as [Hm Hi].
  unfold model_trace. cbn [xrun]. destruct (xstep true s o) as [s' ou] eqn:E. cbn [map fst snd run_mon].
  cbn [fst snd] in Hm, Hi. rewrite Hm. cbn [N.eqb].
  change (snd (obs_step ou s')) with (obs_shell s'). apply IH; assumption.
Qed.

Lemma Inv_init n g : Inv (xinit n g).
Proof.
  unfold Inv, xinit. cbn [xs]. generalize 0. induction n as [|n IH]; intros i; cbn [mk_links]; constructor.
  - apply inv_link0.
  - apply IH.
Qed.

Theorem monitor_holds_guarded n g ops :
  Forall wf_op ops -> ok_C10 (obs_shell (xinit n g)) (model_trace true (xinit n g) ops) = true.
Proof. intros H. unfold ok_C10. rewrite run_mon_model; [reflexivity|apply Inv_init|exact H]. Qed.

Definition xfinal (g : bool) (s : shell) (ops : list xop) : shell := fold_left (fun s o => fst (xstep g s o)) ops s.

Lemma Inv_final : forall ops s, Inv s -> Forall wf_op ops -> Inv (xfinal true s ops).
Proof.
  induction ops as [|o ops IH]; intros s H Hw; [exact H|].
  inversion Hw; subst. cbn [xfinal fold_left]. apply IH; [|assumption].
  apply (step_ok s o); assumption.
Qed.

(** housekeeping in classic mode: no window moves, whatever the clock says *)
Lemma housekeep_windows g s now bs :
  map (fun x => window (core x)) (xs (fst (xstep g s (XHousekeep now bs)))) = map (fun x => window (core x)) (xs s).
Proof. cbn [xstep quiet with_xs fst xs]. rewrite !cores_window, put_bsizes_cores. reflexivity. Qed.

(** the unguarded override departs from the reference: link 1 has the larger score, the
    quality caches are all 1.0, a retransmit-flagged packet goes to link 0 *)
Definition f5_state : shell :=
  xfinal true (xinit 2 0) [XUp 0 1000; XUp 1 1000; XSetWindow 0 10000; XSetWindow 1 40000].

Lemma f5_inv : Inv f5_state.
Proof.
  apply Inv_final; [apply Inv_init|].
  repeat (apply Forall_cons; [cbn [wf_op]; try exact I; try (rewrite WB_val; lia)|]). apply Forall_nil.
Qed.
Lemma f5_unguarded : route false f5_state (Some 8) true 1002 5000 = Some 0%nat.
Proof. vm_compute. reflexivity. Qed.
Lemma f5_ref : ref_select (map (rl_of 1002 5000) (xs f5_state)) = Some 1%nat.
Proof. vm_compute. reflexivity. Qed.

(** ---- statements pinned in Props/C10.v ---- *)
From Srtla Require Shape.

Lemma select_insensitive l l' now tmo :
  Forall inv_x l -> Forall inv_x l' ->
  map (rl_of now tmo) l = map (rl_of now tmo) l' -> select l now tmo = select l' now tmo.
Proof. intros H H' E. rewrite !select_refines_ref by assumption. rewrite E. reflexivity. Qed.

Lemma route_refines_ref s seq retx now tmo :
  Inv s -> route Shape.override_mode_guarded s seq retx now tmo = ref_select (map (rl_of now tmo) (xs s)).
Proof. intros H. unfold route. cbn. apply select_refines_ref. exact H. Qed.

Lemma unguarded_override_refuted : exists s seq retx now tmo,
  Inv s /\ route false s seq retx now tmo <> ref_select (map (rl_of now tmo) (xs s)).
Proof.
  exists f5_state, (Some 8), true, 1002, 5000. split; [exact f5_inv|].
  rewrite f5_unguarded, f5_ref. discriminate.
Qed.

Lemma srtla_ack_event_both cs als idx seq now :
  Forall2 arel cs als -> Forall inv_link cs ->
  Forall2 arel (srtla_ack_event cs idx seq true now) (ref_srtla_ack_one idx als seq) /\
  Forall inv_link (srtla_ack_event cs idx seq true now).
Proof. intros. split; [apply srtla_ack_event_ref|apply srtla_ack_event_inv]; assumption. Qed.

Lemma monitor_holds n g ops :
  Forall wf_op ops ->
  ok_C10 (obs_shell (xinit n g)) (model_trace Shape.override_mode_guarded (xinit n g) ops) = true.
Proof. exact (monitor_holds_guarded n g ops). Qed.
