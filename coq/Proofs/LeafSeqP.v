(** LeafSeqP.v — hand-written model functions = the definitions tools/gen_leaf.py regenerates from the Rust
    source on every run (coq/Gen/LeafSeq.v); see DESIGN.md §12.8. *)
From Coq Require Import Floats.
From Srtla Require Import Base Constants LeafSeq LeafTac.
From Srtla Require Conn.
From Coq Require Import ZifyBool.
Local Open Scope Z_scope.

(** ---- sender/sequence.rs  <->  the tracker of Model/Conn.v (C05) ---- *)
Lemma leaf_seq_is_valid_ok t seq now id ts sq :
  Conn.trk_find (Conn.slot seq) t = Some (id, ts, sq) ->
  Conn.trk_get t seq now = if leaf_seq_is_valid id sq ts seq now then Some id else None.
Proof. first [ solve [ intros H; unfold Conn.trk_get, leaf_seq_is_valid, leaf_seq_is_expired; rewrite H; reflexivity ]
              | (intros H; unfold Conn.trk_get; rewrite H; leaf_auto) ]. Qed.

