(** HubP.v — basic lemmas about the hub model: association lists, program counters,
    enabledness (wait-freedom of publish), sequential composition as a schedule. *)
From Srtla Require Import Base Hub.
From Coq Require Import ZifyBool.

(** ---- association lists ---- *)
Lemma lookup_update_eq : forall A (l : list (Z * A)) k v, lookup (update l k v) k = Some v.
Proof.
  induction l as [|[k' v'] r IH]; intros k v; cbn.
  - rewrite Z.eqb_refl. reflexivity.
  - destruct (k' =? k) eqn:E; cbn.
    + rewrite Z.eqb_refl. reflexivity.
    + rewrite E. apply IH.
Qed.

Lemma lookup_update_neq : forall A (l : list (Z * A)) k k' v, k <> k' ->
  lookup (update l k v) k' = lookup l k'.
Proof.
  induction l as [|[k0 v0] r IH]; intros k k' v Hn; cbn.
  - destruct (k =? k') eqn:E; [lia|reflexivity].
  - destruct (k0 =? k) eqn:E; cbn.
    + destruct (k =? k') eqn:E1; [lia|]. destruct (k0 =? k') eqn:E2; [lia|]. reflexivity.
    + destruct (k0 =? k') eqn:E2; [reflexivity|]. apply IH. exact Hn.
Qed.

Lemma lookup_update : forall A (l : list (Z * A)) k k' v,
  lookup (update l k v) k' = if k =? k' then Some v else lookup l k'.
Proof.
  intros. destruct (k =? k') eqn:E.
  - assert (k = k') by lia. subst. apply lookup_update_eq.
  - apply lookup_update_neq. lia.
Qed.

Lemma lookup_In : forall A (l : list (Z * A)) k v, lookup l k = Some v -> In (k, v) l.
Proof.
  induction l as [|[k0 v0] r IH]; intros k v H; cbn in *; [discriminate|].
  destruct (k0 =? k) eqn:E.
  - inversion H. subst. left. f_equal. lia.
  - right. apply IH. exact H.
Qed.

(** ---- program counters ---- *)
Lemma get_pc_set_pc : forall s t p t', get_pc (set_pc s t p) t' = if t =? t' then p else get_pc s t'.
Proof.
  intros. unfold get_pc, set_pc; cbn. rewrite lookup_update. destruct (t =? t'); reflexivity.
Qed.
Lemma get_pc_set_lock : forall s l t, get_pc (set_lock s l) t = get_pc s t.
Proof. reflexivity. Qed.
Lemma get_pc_set_entries : forall s l t, get_pc (set_entries s l) t = get_pc s t.
Proof. reflexivity. Qed.
Lemma get_pc_set_chans : forall s l t, get_pc (set_chans s l) t = get_pc s t.
Proof. reflexivity. Qed.

(** ---- enabledness ---- *)

(** A polled task reports "blocked" exactly when it waits for a mutex someone holds. *)
Lemma blocked_iff_event : forall s t, blocked s t = true <-> snd (step_task s t) = [EBlocked t].
Proof.
  intros s t. unfold blocked, step_task.
  destruct (get_pc s t) eqn:P; cbn; destruct (lock s) eqn:L; cbn;
    try (split; intro H; solve [reflexivity | discriminate H]).
  all: repeat match goal with
    | |- context [match ?r with nil => _ | cons _ _ => _ end] => destruct r; cbn
    | |- context [if ?b then _ else _] => destruct b; cbn
    | |- context [try_send ?a ?b ?c] => destruct (try_send a b c) as [[ | | ] ?]; cbn
    end.
  all: split; intro H; solve [reflexivity | discriminate H].
Qed.

(** Blocking never depends on any channel: queue contents, capacity or closed flags. *)
Lemma blocked_indep_chans : forall s cs t, blocked (set_chans s cs) t = blocked s t.
Proof. reflexivity. Qed.

(** Every task that is not blocked makes progress when polled, whatever the channels hold. *)
Lemma progress : forall s t, get_pc s t <> Idle -> blocked s t = false ->
  get_pc (fst (step_task s t)) t <> get_pc s t.
Proof.
  intros s t Hne Hb. unfold blocked in Hb. unfold step_task.
  destruct (get_pc s t) as [ |id tp c|id tp c|id|id| | |tp d|tp d rest prune|prune|prune] eqn:P; try congruence; cbn in *.
  all: try (destruct (lock s); [discriminate Hb|]; cbn; rewrite get_pc_set_pc, Z.eqb_refl; discriminate).
  all: try (unfold release_to; rewrite get_pc_set_pc, Z.eqb_refl; discriminate).
  - (* PubWait *)
    destruct (lock s); [discriminate Hb|]. cbn. unfold get_pc; cbn. rewrite lookup_update_eq. discriminate.
  - (* PubFan *)
    destruct rest as [|e rest].
    + destruct prune; cbn [fst]; unfold release_to; rewrite get_pc_set_pc, Z.eqb_refl; discriminate.
    + assert (Hl : forall pr', PubFan tp d rest pr' <> PubFan tp d (e :: rest) prune).
      { intros pr' H. inversion H as [[H1 H2]]. apply (f_equal (@length entry)) in H1. cbn in H1. lia. }
      destruct (e_topic e =? tp).
      * destruct (try_send _ _ _) as [[ | | ] cs]; cbn [fst]; rewrite get_pc_set_pc, Z.eqb_refl; apply Hl.
      * cbn [fst]. rewrite get_pc_set_pc, Z.eqb_refl. apply Hl.
Qed.

(** The holder of the mutex releases it after [hold_measure] polls of its own; none of
    those polls can block, and nothing about the channels matters. *)
Lemma holder_releases : forall n s h, holding (get_pc s h) = true ->
  hold_measure (get_pc s h) = n -> lock (poll_n n s h) = None.
Proof.
  induction n as [|n IH]; intros s h Hh Hm.
  - destruct (get_pc s h); cbn in *; discriminate.
  - cbn [poll_n]. unfold step_task.
    destruct (get_pc s h) as [ |id tp c|id tp c|id|id| | |tp d|tp d rest prune|prune|prune] eqn:P; cbn in Hh; try discriminate Hh; cbn in Hm; cbn [acquired].
    1,2,3,5: assert (n = O) by lia; subst n; cbn; reflexivity.
    destruct rest as [|e rest].
    + cbn in Hm. assert (n = O) by lia. subst n. destruct prune; cbn; reflexivity.
    + cbn in Hm.
      assert (Hgo : forall s1 pr', get_pc s1 h = PubFan tp d rest pr' -> lock (poll_n n s1 h) = None).
      { intros s1 pr' H1. apply IH; rewrite H1; cbn; [reflexivity|lia]. }
      destruct (e_topic e =? tp).
      * destruct (try_send _ _ _) as [[ | | ] cs]; cbn [fst]; eapply Hgo; rewrite get_pc_set_pc, Z.eqb_refl; reflexivity.
      * cbn [fst]. eapply Hgo. rewrite get_pc_set_pc, Z.eqb_refl. reflexivity.
Qed.

(** ---- sequential composition is one particular schedule ---- *)
Lemma step_task_idle : forall s t, get_pc s t = Idle -> step_task s t = (s, []).
Proof. intros s t H. unfold step_task. rewrite H. reflexivity. Qed.

Lemma settle_is_run : forall k s t, settle k s t = run_from s (repeat (Step t) k).
Proof.
  induction k as [|k IH]; intros s t; cbn [settle repeat run_from]; [reflexivity|].
  cbn [step].
  destruct (get_pc s t) eqn:P.
  - rewrite (step_task_idle s t P). rewrite <- IH.
    destruct k; cbn [settle]; [reflexivity|]. rewrite P. reflexivity.
  - destruct (step_task s t) as [s1 o1]. rewrite IH. reflexivity.
  - destruct (step_task s t) as [s1 o1]. rewrite IH. reflexivity.
  - destruct (step_task s t) as [s1 o1]. rewrite IH. reflexivity.
  - destruct (step_task s t) as [s1 o1]. rewrite IH. reflexivity.
  - destruct (step_task s t) as [s1 o1]. rewrite IH. reflexivity.
  - destruct (step_task s t) as [s1 o1]. rewrite IH. reflexivity.
  - destruct (step_task s t) as [s1 o1]. rewrite IH. reflexivity.
  - destruct (step_task s t) as [s1 o1]. rewrite IH. reflexivity.
  - destruct (step_task s t) as [s1 o1]. rewrite IH. reflexivity.
  - destruct (step_task s t) as [s1 o1]. rewrite IH. reflexivity.
Qed.

Lemma run_from_app : forall a b s,
  run_from s (a ++ b) =
  let '(s1, o1) := run_from s a in let '(s2, o2) := run_from s1 b in (s2, o1 ++ o2).
Proof.
  induction a as [|e a IH]; intros b s; cbn [app run_from].
  - destruct (run_from s b). reflexivity.
  - destruct (step s e) as [s1 o1]. rewrite IH.
    destruct (run_from s1 a) as [s2 o2]. destruct (run_from s2 b) as [s3 o3].
    rewrite app_assoc. reflexivity.
Qed.

Definition call_sched (s : state) (t : Z) (o : op) : list sev :=
  Start t o :: repeat (Step t) (call_fuel (fst (start s t o))).

Lemma run_call_is_run : forall s t o, run_call s t o = run_from s (call_sched s t o).
Proof.
  intros. unfold run_call, call_sched. cbn [run_from step].
  destruct (start s t o) as [s1 o1]. cbn [fst]. rewrite settle_is_run. reflexivity.
Qed.

Fixpoint calls_sched (s : state) (l : list (Z * op)) : list sev :=
  match l with
  | [] => []
  | (t, o) :: r => call_sched s t o ++ calls_sched (fst (run_call s t o)) r
  end.

Lemma run_calls_is_run : forall l s, run_calls s l = snd (run_from s (calls_sched s l)).
Proof.
  induction l as [|[t o] r IH]; intros s; cbn [run_calls calls_sched]; [reflexivity|].
  rewrite run_from_app, <- run_call_is_run.
  destruct (run_call s t o) as [s1 o1]. cbn [fst]. rewrite IH.
  destruct (run_from s1 (calls_sched s1 r)). reflexivity.
Qed.

(** ---- a publisher running alone completes, whatever the subscribers' channels hold ---- *)
Lemma poll_n_add : forall a b s t, poll_n (a + b) s t = poll_n b (poll_n a s t) t.
Proof. induction a as [|a IH]; intros b s t; cbn [poll_n Nat.add]; [reflexivity|apply IH]. Qed.

Lemma fan_runs : forall rest s t tp d pr, get_pc s t = PubFan tp d rest pr ->
  exists pr', get_pc (poll_n (length rest) s t) t = PubFan tp d [] pr' /\
              lock (poll_n (length rest) s t) = lock s /\
              entries (poll_n (length rest) s t) = entries s.
Proof.
  induction rest as [|e rest IH]; intros s t tp d pr Hpc; cbn [length poll_n].
  - exists pr. tauto.
  - unfold step_task at 1 2 3. rewrite Hpc. cbn [acquired].
    assert (G : forall s1 pr1, get_pc s1 t = PubFan tp d rest pr1 -> lock s1 = lock s -> entries s1 = entries s ->
      exists pr', get_pc (poll_n (length rest) s1 t) t = PubFan tp d [] pr' /\
                  lock (poll_n (length rest) s1 t) = lock s /\ entries (poll_n (length rest) s1 t) = entries s).
    { intros s1 pr1 H1 H2 H3. destruct (IH s1 t tp d pr1 H1) as [pr' [A [B C]]]. exists pr'. rewrite B, C. tauto. }
    destruct (e_topic e =? tp).
    + destruct (try_send (chans s) (e_chan e) _) as [[ | | ] cs]; cbn [fst];
        (eapply G; [rewrite get_pc_set_pc, Z.eqb_refl; reflexivity|reflexivity|reflexivity]).
    + cbn [fst]. eapply G; [rewrite get_pc_set_pc, Z.eqb_refl; reflexivity|reflexivity|reflexivity].
Qed.

Lemma publish_alone_completes : forall s t tp d, lock s = None -> get_pc s t = PubWait tp d ->
  exists n, (n <= length (entries s) + 4)%nat /\
            get_pc (poll_n n s t) t = Idle /\ lock (poll_n n s t) = None.
Proof.
  intros s t tp d Hl Hpc.
  set (s1 := fst (step_task s t)).
  assert (H1 : get_pc s1 t = PubFan tp d (entries s) [] /\ lock s1 = Some t /\ entries s1 = entries s).
  { unfold s1, step_task. rewrite Hpc. cbn [acquired]. rewrite Hl. cbn [fst].
    split; [unfold get_pc; cbn; rewrite lookup_update_eq; reflexivity|]. split; reflexivity. }
  destruct H1 as [H1 [H2 H3]].
  destruct (fan_runs (entries s) s1 t tp d [] H1) as [pr' [A [B C]]].
  set (s2 := poll_n (length (entries s)) s1 t) in *.
  assert (E12 : forall k, poll_n (S (length (entries s)) + k) s t = poll_n k s2 t).
  { intro k. replace (S (length (entries s)) + k)%nat with (1 + (length (entries s) + k))%nat by lia.
    rewrite poll_n_add. cbn [poll_n]. fold s1. rewrite poll_n_add. reflexivity. }
  destruct pr' as [|x pr'].
  - exists (S (length (entries s)) + 1)%nat. split; [lia|]. rewrite E12. cbn [poll_n].
    unfold step_task. rewrite A. cbn [acquired fst]. unfold release_to.
    split; [rewrite get_pc_set_pc, Z.eqb_refl; reflexivity|reflexivity].
  - exists (S (length (entries s)) + 3)%nat. split; [lia|]. rewrite E12. cbn [poll_n].
    set (s3 := fst (step_task s2 t)).
    assert (H4 : get_pc s3 t = PruneWait (x :: pr') /\ lock s3 = None).
    { unfold s3, step_task. rewrite A. cbn [acquired fst]. unfold release_to.
      split; [rewrite get_pc_set_pc, Z.eqb_refl; reflexivity|reflexivity]. }
    destruct H4 as [H4 H5].
    set (s4 := fst (step_task s3 t)).
    assert (H6 : get_pc s4 t = PruneHold (x :: pr')).
    { unfold s4, step_task. rewrite H4. cbn [acquired]. rewrite H5. cbn [fst].
      rewrite get_pc_set_pc, Z.eqb_refl. reflexivity. }
    unfold step_task. fold s3. fold (step_task s3 t). fold s4. rewrite H6. cbn [acquired fst]. unfold release_to.
    split; [rewrite get_pc_set_pc, Z.eqb_refl; reflexivity|reflexivity].
Qed.
