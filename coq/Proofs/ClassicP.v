(** ClassicP.v — lemmas for C10, part 1: the link invariant, the capacity score and
    the classic selector against the reference (Model/ClassicRef.v). *)
From Coq Require Import ZifyBool Permutation.
From Srtla Require Import Base Constants Conn ConnP Classic ClassicRef.

(** the literals the property text names, against the generated constants *)
Lemma consts :
  WINDOW_INCR - 1 = 29 /\ WINDOW_MULT = 1000 /\ WINDOW_DECR = 100 /\
  WINDOW_FLOOR = 1000 /\ WINDOW_CEIL = 60000 /\ WINDOW_DEFAULT = 20000.
Proof. repeat split; reflexivity. Qed.

(** windows the theorems range over: any non-negative i32 that leaves room for one
    increment (beyond it `*window + WINDOW_INCR - 1` overflows: a debug-build panic) *)
Definition WB : Z := i32_max - WINDOW_INCR.
Lemma WB_val : WB = 2147483617. Proof. reflexivity. Qed.

Definition inv_link (c : link) : Prop :=
  in_flight c = blen (log c) /\ NoDup (map fst (log c)) /\ 0 <= window c <= WB.
Definition inv_x (x : xlink) : Prop := inv_link (core x).

Lemma blen_nonneg {A} (l : list A) : 0 <= blen l.
Proof. unfold blen. lia. Qed.

(** ---- what the reference sees of a model link ---- *)
Definition usable_x (now tmo : Z) (x : xlink) : bool :=
  connected (core x) && negb (registering x) &&
  match last_recv (core x) with Some lr => negb (tmo <=? Z.max 0 (now - lr)) | None => true end.
Definition rl_of (now tmo : Z) (x : xlink) : rlink :=
  {| r_usable := usable_x now tmo x; r_window := window (core x);
     r_inflight := blen (log (core x)); r_queued := blen (queue x) |}.

Lemma score_ref now tmo x :
  inv_x x -> connected (core x) = true -> get_score x = ref_score (rl_of now tmo x).
Proof.
  intros (Hif & _ & Hw) Hc. unfold get_score, ref_score, rl_of. cbn [r_window r_inflight r_queued].
  rewrite Hc. cbn [negb]. rewrite Hif. rewrite WB_val in Hw.
  pose proof (blen_nonneg (log (core x))) as Ha. pose proof (blen_nonneg (queue x)) as Hb.
  set (a := blen (log (core x))) in *. set (b := blen (queue x)) in *. set (w := window (core x)) in *.
  unfold sat_add_i32, sat_i32, clamp, i32_min, i32_max, two31.
  destruct (Z_le_gt_dec (a + b + 1) 2147483647) as [Hs|Hs].
  - match goal with |- Z.quot w ?d = _ => assert (Hd : d = a + b + 1) by lia; rewrite Hd end.
    apply Z.quot_div_nonneg; lia.
  - match goal with |- Z.quot w ?d = _ => assert (Hd : d = 2147483647) by lia; rewrite Hd end.
    rewrite Z.quot_small by lia. symmetry. apply Z.div_small. lia.
Qed.

Lemma score_nonneg now tmo x : inv_x x -> 0 <= ref_score (rl_of now tmo x).
Proof.
  intros (_ & _ & Hw). unfold ref_score, rl_of. cbn [r_window r_inflight r_queued].
  pose proof (blen_nonneg (log (core x))). pose proof (blen_nonneg (queue x)).
  apply Z.div_pos; lia.
Qed.

(** a link the Rust loop does not skip but that is not usable scores -1 *)
Lemma skip_or_usable now tmo x :
  (timed_out x now tmo || registering x = true /\ usable_x now tmo x = false) \/
  (timed_out x now tmo || registering x = false /\
   ((connected (core x) = true /\ usable_x now tmo x = true) \/
    (connected (core x) = false /\ usable_x now tmo x = false /\ get_score x = -1))).
Proof.
  unfold timed_out, usable_x, get_score, ssub.
  destruct (connected (core x)); cbn [negb andb].
  - destruct (registering x); cbn [negb andb orb].
    + left. split; [apply orb_true_r|reflexivity].
    + destruct (last_recv (core x)) as [lr|].
      * destruct (tmo <=? Z.max 0 (now - lr)); cbn; [left|right]; auto.
      * right. cbn. auto.
  - destruct ((established x =? 0) && (now <? grace x)); cbn [orb].
    + destruct (registering x); [left|right]; auto.
    + destruct (last_recv (core x)) as [lr|]; [destruct (tmo <=? Z.max 0 (now - lr))|]; cbn [orb];
        try (left; split; reflexivity);
        (destruct (registering x); [left|right]; auto).
Qed.

(** loop invariant: the Rust pair (best_idx, best_score) against the reference's best *)
Definition best_rel (bi : option nat) (bs : Z) (best : option (nat * Z)) : Prop :=
  (bi = None /\ bs = -1 /\ best = None) \/ (exists k, bi = Some k /\ best = Some (k, bs) /\ 0 <= bs).

Lemma select_loop_ref now tmo : forall l i bi bs best,
  Forall inv_x l -> best_rel bi bs best ->
  select_loop l i now tmo bi bs =
  match ref_argmax (map (rl_of now tmo) l) i best with Some (k, _) => Some k | None => None end.
Proof.
  induction l as [|x l IH]; intros i bi bs best Hinv Hrel; cbn [select_loop map ref_argmax].
  - destruct Hrel as [(-> & _ & ->)|(k & -> & -> & _)]; reflexivity.
  - inversion Hinv as [|? ? Hx Hl]; subst.
    cbn [r_usable rl_of].
    destruct (skip_or_usable now tmo x) as [[Hs Hu]|[Hs [[Hc Hu]|(Hc & Hu & Hsc)]]]; rewrite Hs, Hu.
    + apply IH; assumption.
    + rewrite (score_ref now tmo x Hx Hc).
      pose proof (score_nonneg now tmo x Hx) as Hnn.
      fold (rl_of now tmo x).
      destruct Hrel as [(-> & -> & ->)|(k & -> & -> & Hb)].
      * replace (-1 <? ref_score (rl_of now tmo x)) with true by lia.
        apply IH; [assumption|]. right. eexists. repeat split. exact Hnn.
      * destruct (bs <? ref_score (rl_of now tmo x)) eqn:E.
        -- apply IH; [assumption|]. right. eexists. repeat split. exact Hnn.
        -- apply IH; [assumption|]. right. eexists. repeat split. exact Hb.
    + rewrite Hsc.
      assert (Hge : -1 <= bs) by (destruct Hrel as [(_ & -> & _)|(k & _ & _ & Hb)]; lia).
      replace (bs <? -1) with false by lia.
      apply IH; assumption.
Qed.

Theorem select_refines_ref l now tmo :
  Forall inv_x l -> select l now tmo = ref_select (map (rl_of now tmo) l).
Proof.
  intros H. unfold select, ref_select. apply select_loop_ref; [exact H|]. left. auto.
Qed.

(** the chosen index exists *)
Lemma ref_argmax_lt : forall ls i best k v,
  (forall k0 v0, best = Some (k0, v0) -> (k0 < i)%nat) ->
  ref_argmax ls i best = Some (k, v) -> (k < i + length ls)%nat.
Proof.
  induction ls as [|l ls IH]; intros i best k v Hb H; cbn in *.
  - specialize (Hb _ _ H). lia.
  - apply IH in H; [lia|].
    intros k0 v0 E. destruct (r_usable l).
    + destruct best as [[kb vb]|].
      * destruct (vb <? ref_score l); inversion E; subst; [lia|]. specialize (Hb _ _ eq_refl). lia.
      * inversion E; subst. lia.
    + specialize (Hb _ _ E). lia.
Qed.
Lemma ref_select_lt ls k : ref_select ls = Some k -> (k < length ls)%nat.
Proof.
  unfold ref_select. destruct (ref_argmax ls 0 None) as [[k0 v]|] eqn:E; [|discriminate].
  intros H; inversion H; subst. apply ref_argmax_lt in E; [lia|]. discriminate.
Qed.
