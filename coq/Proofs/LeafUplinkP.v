(** LeafUplinkP.v — the type-code dispatch of the uplink receive path as hand-modelled in Model/Uplink.v
    = what is regenerated from the Rust sources on every run (DESIGN.md §12.8):

    - [leaf_wire_process_registration_packet] (tools/gen_wire.py, coq/Gen/LeafWire.v): the return value of
      `SrtlaRegistrationManager::process_registration_packet` (crates/srtla-core/src/registration/mod.rs), a
      `match get_packet_type(buf) { Some(CONST) => .. }`; the manager's own bookkeeping (`self.handle_*(..);`)
      is dropped (it is property C07).  It equals [Uplink.reg_classify] on the type code.
    - [leaf_wire_uplink_dispatch] (tools/gen_uplink.py, coq/Gen/LeafUplink.v): the dispatch slice of
      `process_uplink_packet` (src/sender/uplink_recv.rs): per branch [relay; stamp; acks; naks; sacks] — how many
      copies of the datagram go to `forward_to_client`, what `conn.last_received` becomes, which decoder feeds
      which list of the returned `SrtlaIncoming`.  [Uplink.process_uplink_packet] has exactly these effects,
      for every link, datagram and clock value.

    No hypothesis on the bytes; closed under the global context. *)
From Coq Require Import ZArith Bool Lia ZifyBool List.
From Srtla Require Import Base Constants LeafWire LeafUplink LeafTac LeafWireP.
From Srtla Require Wire Conn Uplink.
Import ListNotations.
Local Open Scope Z_scope.

(** the Rust enum `RegistrationEvent`, by the names the translator gives its variants *)
Definition reg_code (e : Uplink.reg_event) : Z :=
  match e with
  | Uplink.RegNgp => RegistrationEvent_RegNgp
  | Uplink.Reg2 => RegistrationEvent_Reg2
  | Uplink.Reg3 => RegistrationEvent_Reg3
  | Uplink.RegErr => RegistrationEvent_RegErr
  end.

Definition reg_of_type (opt : option Z) : option Z :=
  match opt with Some pt => option_map reg_code (Uplink.reg_classify pt) | None => None end.

Ltac uplink_consts :=
  cbv delta [SRTLA_TYPE_REG_NGP SRTLA_TYPE_REG1 SRTLA_TYPE_REG2 SRTLA_TYPE_REG3 SRTLA_TYPE_REG_ERR SRTLA_TYPE_REG_NAK
             SRTLA_TYPE_KEEPALIVE SRTLA_TYPE_ACK SRT_TYPE_ACK SRT_TYPE_NAK
             RegistrationEvent_RegNgp RegistrationEvent_Reg2 RegistrationEvent_Reg3 RegistrationEvent_RegErr] in *.

Ltac split_conds :=
  repeat match goal with
         | |- context [if ?c then _ else _] =>
             lazymatch c with context [if _ then _ else _] => fail | _ => idtac end; destruct c eqn:?
         end.

Lemma leaf_wire_process_registration_packet_ok idx b now :
  leaf_wire_process_registration_packet idx b now = (opt <- Wire.get_packet_type b ;; Ok (reg_of_type opt)).
Proof.
  unfold leaf_wire_process_registration_packet. rewrite <- leaf_wire_get_packet_type_ok.
  destruct (Wire.get_packet_type b) as [[pt|]| |]; cbv beta iota delta [bind reg_of_type]; try reflexivity.
  unfold Uplink.reg_classify. uplink_consts. split_conds; cbn [option_map reg_code]; uplink_consts;
    first [ reflexivity | exfalso; lia ].
Qed.

Definition feed {A} (code want : Z) (l : list A) : list A := if code =? want then l else [].
Definition okl {A} (r : res (list A)) : list A := match r with Ok l => l | _ => [] end.

(** the effects of the modelled step, read off the dispatch slice *)
Definition effects_as_sliced (cls : list Z) (c c' : Conn.link) (w : Uplink.wd) (now : Z) (inc : Uplink.incoming) : Prop :=
  let d := Uplink.bytes_of w in
  Uplink.i_fwd inc = repeat w (Z.to_nat (nth 0 cls 0))
  /\ Conn.last_recv c' = (if nth 1 cls 0 =? 1 then Some now else if nth 1 cls 0 =? 2 then None else Conn.last_recv c)
  /\ Uplink.i_acks inc = feed (nth 2 cls 0) 1 (match Wire.parse_srt_ack d with Ok (Some v) => [v] | _ => [] end)
  /\ Uplink.i_naks inc = feed (nth 3 cls 0) 2 (okl (Wire.parse_srt_nak d))
  /\ Uplink.i_sacks inc = feed (nth 4 cls 0) 3 (okl (Wire.parse_srtla_ack d)).

Lemma leaf_wire_uplink_dispatch_ok c x k w now c' x' inc fast :
  Uplink.process_uplink_packet c x k w now = Ok (c', x', inc, fast) ->
  exists opt, Wire.get_packet_type (Uplink.bytes_of w) = Ok opt /\
    effects_as_sliced (leaf_wire_uplink_dispatch opt (reg_of_type opt)) c c' w now inc.
Proof.
  unfold Uplink.process_uplink_packet, effects_as_sliced.
  destruct (Wire.get_packet_type (Uplink.bytes_of w)) as [[pt|]| |]; cbv beta iota delta [bind]; try discriminate.
  2: { intros H; injection H as <- <- <- <-. eexists; split; [reflexivity|]. cbn. repeat split; reflexivity. }
  intros H. eexists; split; [reflexivity|].
  unfold leaf_wire_uplink_dispatch, reg_of_type, Uplink.reg_classify in *.
  uplink_consts.
  repeat (match type of H with
          | context [if ?c then _ else _] =>
              lazymatch c with
              | context [if _ then _ else _] => fail
              | context [match _ with _ => _ end] => fail
              | _ => idtac
              end; destruct c eqn:?
          | context [match ?r with Ok _ => _ | Oob => _ | Fuel => _ end] => destruct r eqn:?
          | context [match ?o with Some _ => _ | None => _ end] => destruct o eqn:?
          end; cbv beta iota in H).
  all: try discriminate H.
  all: injection H as <- <- <- <-.
  all: cbn [option_map reg_code]; uplink_consts.
  all: repeat match goal with |- context [if (?p =? ?k) then _ else _] => is_var p; destruct (p =? k) eqn:? end;
       try (exfalso; lia).
  all: cbn -[Wire.parse_srt_nak Wire.parse_srtla_ack Wire.parse_srt_ack Uplink.bytes_of]; repeat split; reflexivity.
Qed.
