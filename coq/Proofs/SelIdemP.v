(** C11I.v — idempotence: selecting again on the state a select left behind (same previous
    index, clock, settings) returns the same uplink and leaves the state unchanged. *)
From Coq Require Import ZArith List Bool Lia Floats.
From Srtla Require Import Base Constants FConstants Select Run_Sel SelectP SelViewP.
Import ListNotations.
Local Open Scope Z_scope.

(** ---- the latch / pull bookkeeping as a small record -------------------------------------------- *)
Record st := St { s_pulled : bool; s_pulls : Z; s_latched : Z; s_recov : Z; s_gev : Z }.
Definition st_of (c : link) : st := St (l_pulled c) (l_pulls c) (l_latched c) (l_recov c) (l_gevents c).
Definition with_st (c : link) (x : st) : link :=
  set_hid c (Hd (l_timeout c) (l_gated c) (s_pulled x) (s_pulls x) (s_latched x) (s_recov x) (s_gev x)
                (l_qmult c) (l_qlast c)).

Definition P' (silent spoke : bool) (x : st) : st :=
  if silent then St true (if negb (s_pulled x) then s_pulls x + 1 else s_pulls x) (s_latched x) (s_recov x) (s_gev x)
  else if negb (s_pulled x) then x
  else if spoke then St false (s_pulls x) (s_latched x) (s_recov x) (s_gev x) else x.

Definition L' (stalled pfs fresh : bool) (dwell now : Z) (x : st) : st :=
  if stalled || (s_pulled x && pfs) then
    St (s_pulled x) (s_pulls x) (if s_latched x =? 0 then now else s_latched x) 0
       (if s_latched x =? 0 then s_gev x + 1 else s_gev x)
  else if s_latched x =? 0 then x
  else if negb fresh then St (s_pulled x) (s_pulls x) (s_latched x) 0 (s_gev x)
  else let r := if s_recov x =? 0 then now else s_recov x in
       if dwell <=? ssub now r then St (s_pulled x) (s_pulls x) 0 0 (s_gev x)
       else St (s_pulled x) (s_pulls x) (s_latched x) r (s_gev x).

(** the conditions, all functions of the externally driven fields only *)
Definition spokeb (c : link) (now ceiling : Z) : bool :=
  match l_lastrx c with Some lr => ssub now lr <? pull_window c ceiling | None => false end || negb (l_conn c).
Definition pfsb (c : link) (now ceiling : Z) : bool :=
  negb (l_proof c =? 0) && (eff_stale c ceiling <=? ssub now (l_proof c)).
Definition freshb (c : link) (now ceiling : Z) : bool :=
  negb (l_proof c =? 0) && (ssub now (l_proof c) <? eff_stale c ceiling).
Definition dwellz (c : link) (ceiling : Z) : Z := sat_mul_u64 (eff_stale c ceiling) STALL_REJOIN_DWELL_MULT.

Lemma with_st_eta c : with_st c (st_of c) = c.
Proof. now destruct c. Qed.

Lemma P_eq c now m s :
  update_silence_pull c now m s = with_st c (P' (is_briefly_silent c now m s) (spokeb c now s) (st_of c)).
Proof.
  unfold update_silence_pull, P', spokeb. destruct (is_briefly_silent c now m s).
  - destruct c; cbn. now destruct l_pulled.
  - destruct (negb (l_pulled c)) eqn:E.
    + cbn [st_of s_pulled]. rewrite E. now rewrite with_st_eta.
    + cbn [st_of s_pulled]. rewrite E. destruct (_ || _).
      * now destruct c.
      * now rewrite with_st_eta.
Qed.

Lemma L_eq c now m s :
  update_stall_latch c now m s =
  with_st c (L' (is_stalled c now m s) (pfsb c now s) (freshb c now s) (dwellz c s) now (st_of c)).
Proof.
  unfold update_stall_latch, L', pfsb, freshb, dwellz. cbn [st_of s_pulled s_latched s_recov s_gev s_pulls].
  destruct (is_stalled c now m s || _).
  - destruct c; cbn. now destruct (l_latched =? 0).
  - destruct (l_latched c =? 0); [now rewrite with_st_eta|].
    destruct (negb _); [now destruct c|].
    destruct (l_recov c =? 0) eqn:R.
    + cbn. destruct (_ <=? _); now destruct c.
    + destruct (_ <=? _); now destruct c.
Qed.

(** one gate pass on the bookkeeping, given the (fixed) conditions *)
Definition F' (silent spoke stalled pfs fresh : bool) (dwell now : Z) (x : st) : st :=
  L' stalled pfs fresh dwell now (P' silent spoke x).

Lemma st_eq a b :
  s_pulled a = s_pulled b -> s_pulls a = s_pulls b -> s_latched a = s_latched b ->
  s_recov a = s_recov b -> s_gev a = s_gev b -> a = b.
Proof. destruct a, b; cbn; intros; subst; reflexivity. Qed.

Ltac zb :=
  repeat match goal with
  | H : (_ =? _) = true |- _ => apply Z.eqb_eq in H
  | H : (_ =? _) = false |- _ => apply Z.eqb_neq in H
  | H : (_ <=? _) = true |- _ => apply Z.leb_le in H
  | H : (_ <=? _) = false |- _ => apply Z.leb_gt in H
  end.

Lemma P'_shape sl sp z :
  P' sl sp z = St (s_pulled (P' sl sp z)) (s_pulls (P' sl sp z)) (s_latched z) (s_recov z) (s_gev z).
Proof. destruct z as [pu pl la re ge]. unfold P'. destruct sl, sp, pu; reflexivity. Qed.

Lemma P'_pp sl sp z z' :
  s_pulled z = s_pulled z' -> s_pulls z = s_pulls z' ->
  s_pulled (P' sl sp z) = s_pulled (P' sl sp z') /\ s_pulls (P' sl sp z) = s_pulls (P' sl sp z').
Proof.
  destruct z, z'; cbn. intros -> ->. unfold P'. cbn. destruct sl, sp, s_pulled1; cbn; auto.
Qed.

Lemma P'_idem sl sp x : P' sl sp (P' sl sp x) = P' sl sp x.
Proof. destruct x as [pu pl la re ge]. unfold P'. destruct sl, sp, pu; reflexivity. Qed.

Lemma L'_pp a b f d n y :
  s_pulled (L' a b f d n y) = s_pulled y /\ s_pulls (L' a b f d n y) = s_pulls y.
Proof.
  unfold L'. destruct (a || _); [now split|]. destruct (s_latched y =? 0); [now split|].
  destruct (negb f); [now split|]. cbv zeta. now destruct (_ <=? _).
Qed.

Lemma L'_idem a b f d n y : 0 < n -> L' a b f d n (L' a b f d n y) = L' a b f d n y.
Proof.
  intros Hn. assert (N0 : (n =? 0) = false) by (apply Z.eqb_neq; lia).
  destruct y as [pu pl la re ge]. unfold L'. cbn [s_pulled s_pulls s_latched s_recov s_gev].
  destruct (a || pu && b) eqn:C1; cbn [s_pulled s_pulls s_latched s_recov s_gev]; rewrite ?C1.
  - destruct (la =? 0) eqn:La; cbn [s_latched]; rewrite ?N0, ?La; reflexivity.
  - destruct (la =? 0) eqn:La; cbn [s_pulled s_pulls s_latched s_recov s_gev]; rewrite ?C1, ?La; [reflexivity|].
    destruct (negb f) eqn:Nf; cbn [s_pulled s_pulls s_latched s_recov s_gev]; rewrite ?C1, ?La, ?Nf; [reflexivity|].
    cbv zeta. destruct (re =? 0) eqn:Re.
    + destruct (d <=? ssub n n) eqn:D; cbn [s_pulled s_pulls s_latched s_recov s_gev]; rewrite ?C1, ?La, ?Nf, ?N0, ?D; reflexivity.
    + destruct (d <=? ssub n re) eqn:D; cbn [s_pulled s_pulls s_latched s_recov s_gev]; rewrite ?C1, ?La, ?Nf, ?Re, ?D; reflexivity.
Qed.

(** a second pass with the same conditions changes nothing (0 is the "never latched" sentinel of
    the code, hence [0 < now]) *)
Lemma F'_idem silent spoke stalled pfs fresh dwell now x :
  0 < now ->
  F' silent spoke stalled pfs fresh dwell now (F' silent spoke stalled pfs fresh dwell now x) =
  F' silent spoke stalled pfs fresh dwell now x.
Proof.
  intros Hnow. unfold F'.
  set (y := P' silent spoke x). set (z := L' stalled pfs fresh dwell now y).
  assert (E : P' silent spoke z = z).
  { destruct (L'_pp stalled pfs fresh dwell now y) as (E1 & E2). fold z in E1, E2.
    destruct (P'_pp silent spoke z y E1 E2) as (Q1 & Q2).
    assert (Ey : P' silent spoke y = y) by apply P'_idem. rewrite Ey in Q1, Q2.
    rewrite P'_shape. apply st_eq; cbn [s_pulled s_pulls s_latched s_recov s_gev]; congruence. }
  rewrite E. unfold z. now apply L'_idem.
Qed.

(** ---- link level ------------------------------------------------------------------------------------ *)
Definition Fc (now : Z) (cfg : config) (c : link) (x : st) : st :=
  F' (is_briefly_silent c now (c_minif cfg) (c_stale cfg)) (spokeb c now (c_stale cfg))
     (is_stalled c now (c_minif cfg) (c_stale cfg)) (pfsb c now (c_stale cfg)) (freshb c now (c_stale cfg))
     (dwellz c (c_stale cfg)) now x.

Lemma st_of_with_st c x : st_of (with_st c x) = x.
Proof. now destruct x. Qed.

Lemma Fc_pv now cfg c c' x : pv c = pv c' -> Fc now cfg c x = Fc now cfg c' x.
Proof.
  intros E. unfold Fc.
  change (is_briefly_silent c now (c_minif cfg) (c_stale cfg)) with (is_briefly_silent (pv c) now (c_minif cfg) (c_stale cfg)).
  change (spokeb c now (c_stale cfg)) with (spokeb (pv c) now (c_stale cfg)).
  change (is_stalled c now (c_minif cfg) (c_stale cfg)) with (is_stalled (pv c) now (c_minif cfg) (c_stale cfg)).
  change (pfsb c now (c_stale cfg)) with (pfsb (pv c) now (c_stale cfg)).
  change (freshb c now (c_stale cfg)) with (freshb (pv c) now (c_stale cfg)).
  change (dwellz c (c_stale cfg)) with (dwellz (pv c) (c_stale cfg)).
  rewrite E. reflexivity.
Qed.

Lemma gate_upd_eq now cfg c :
  gate_upd now cfg c = with_st (upd_hid c (h_set_timeout (c_timeout cfg))) (Fc now cfg c (st_of c)).
Proof.
  unfold gate_upd. rewrite P_eq, L_eq. rewrite st_of_with_st. reflexivity.
Qed.

Definition settled (now : Z) (cfg : config) (y : link) : Prop :=
  l_timeout y = c_timeout cfg /\ Fc now cfg y (st_of y) = st_of y.

Lemma gate_upd_settled now cfg c : 0 < now -> settled now cfg (gate_upd now cfg c).
Proof.
  intros Hn. rewrite gate_upd_eq. split; [reflexivity|].
  rewrite st_of_with_st.
  rewrite (Fc_pv now cfg _ c) by reflexivity. unfold Fc. now apply F'_idem.
Qed.

Lemma settled_fix now cfg y : settled now cfg y -> gate_upd now cfg y = y.
Proof.
  intros (Ht & Hf). rewrite gate_upd_eq, Hf. rewrite <- Ht. now destruct y.
Qed.

Lemma settled_ext now cfg y y' :
  settled now cfg y -> pv y' = pv y -> st_of y' = st_of y -> l_timeout y' = l_timeout y -> settled now cfg y'.
Proof.
  intros (Ht & Hf) Ep Es Et. split; [congruence|].
  rewrite (Fc_pv now cfg y' y (st_of y') Ep), Es. exact Hf.
Qed.

(** ---- list level: when a gate pass is the identity -------------------------------------------------- *)
Definition gated_ok (ah : bool) (y : link) : Prop := l_gated y = ah && (stall_latched y || l_pulled y).
Definition off_ok (cfg : config) (y : link) : Prop :=
  l_timeout y = c_timeout cfg /\ l_gated y = false /\ l_pulled y = false /\ l_latched y = 0 /\ l_recov y = 0.

Lemma map_id_on {A} (f : A -> A) l : Forall (fun x => f x = x) l -> map f l = l.
Proof. induction 1; cbn; congruence. Qed.

Lemma gate_fix_on now cfg l :
  c_stall cfg = true -> Forall (settled now cfg) l -> Forall (gated_ok (existsb (healthy now) l)) l ->
  apply_stall_gate l now cfg = l.
Proof.
  intros Hs Hset Hg. rewrite apply_stall_gate_eq, Hs. cbn [negb]. cbv zeta.
  rewrite (map_id_on (gate_upd now cfg) l).
  2:{ eapply Forall_impl; [|exact Hset]. intros y Hy. now apply settled_fix. }
  apply map_id_on. eapply Forall_impl; [|exact Hg]. intros y Hy. unfold gated_ok in Hy.
  unfold gate_set. rewrite <- Hy. now destruct y.
Qed.

Lemma gate_fix_off cfg now l :
  c_stall cfg = false -> Forall (off_ok cfg) l -> apply_stall_gate l now cfg = l.
Proof.
  intros Hs H. rewrite apply_stall_gate_eq, Hs. cbn [negb]. apply map_id_on.
  eapply Forall_impl; [|exact H]. intros y (H1 & H2 & H3 & H4 & H5).
  destruct y; cbn in *. subst. reflexivity.
Qed.

Lemma existsb_healthy_gate_set now ah l :
  existsb (healthy now) (map (gate_set ah) l) = existsb (healthy now) l.
Proof. induction l; cbn [map existsb]; [reflexivity|]. now rewrite IHl. Qed.

Lemma gate_out_on now cfg s :
  0 < now -> c_stall cfg = true ->
  Forall (settled now cfg) (apply_stall_gate s now cfg) /\
  Forall (gated_ok (existsb (healthy now) (apply_stall_gate s now cfg))) (apply_stall_gate s now cfg).
Proof.
  intros Hn Hs. rewrite apply_stall_gate_eq, Hs. cbn [negb]. cbv zeta.
  set (ls2 := map (gate_upd now cfg) s). set (ah := existsb (healthy now) ls2).
  rewrite existsb_healthy_gate_set. fold ah.
  assert (H2 : Forall (settled now cfg) ls2).
  { subst ls2. apply Forall_forall. intros y Hy. apply in_map_iff in Hy. destruct Hy as (c & <- & _).
    now apply gate_upd_settled. }
  split.
  - apply Forall_forall. intros y Hy. apply in_map_iff in Hy. destruct Hy as (x & <- & Hx).
    rewrite Forall_forall in H2. apply (settled_ext now cfg x); [now apply H2 | reflexivity..].
  - apply Forall_forall. intros y Hy. apply in_map_iff in Hy. destruct Hy as (x & <- & Hx). reflexivity.
Qed.

Lemma gate_out_off now cfg s :
  c_stall cfg = false -> Forall (off_ok cfg) (apply_stall_gate s now cfg).
Proof.
  intros Hs. rewrite apply_stall_gate_eq, Hs. cbn [negb].
  apply Forall_forall. intros y Hy. apply in_map_iff in Hy. destruct Hy as (x & <- & _).
  repeat split.
Qed.

(** these facts survive the cache refresh of the scoring loop *)
Lemma nc_fields c c' : nc c' = nc c ->
  pv c' = pv c /\ st_of c' = st_of c /\ l_timeout c' = l_timeout c /\ l_gated c' = l_gated c.
Proof.
  intros E. repeat split.
  - change (pv c') with (pv (nc c')). now rewrite E.
  - change (st_of c') with (st_of (nc c')). now rewrite E.
  - change (l_timeout c') with (l_timeout (nc c')). now rewrite E.
  - change (l_gated c') with (l_gated (nc c')). now rewrite E.
Qed.

Lemma healthy_nc now c c' : nc c' = nc c -> healthy now c' = healthy now c.
Proof. intros E. change (healthy now c') with (healthy now (nc c')). now rewrite E. Qed.

Lemma existsb_healthy_nc now l l' :
  Forall2 (fun c c' => nc c' = nc c) l l' -> existsb (healthy now) l' = existsb (healthy now) l.
Proof. induction 1 as [|c c' l l' E H IH]; cbn [existsb]; [reflexivity|]. now rewrite (healthy_nc now c c' E), IH. Qed.

Lemma Forall_nc (P : link -> Prop) l l' :
  (forall c c', nc c' = nc c -> P c -> P c') ->
  Forall2 (fun c c' => nc c' = nc c) l l' -> Forall P l -> Forall P l'.
Proof.
  intros HP R. induction R as [|c c' l l' E R IH]; intros H; constructor; inversion H; subst; eauto.
Qed.

Lemma gate_fix_after_loop now cfg s s' :
  0 < now -> Forall2 (fun c c' => nc c' = nc c) (apply_stall_gate s now cfg) s' ->
  apply_stall_gate s' now cfg = s'.
Proof.
  intros Hn R. destruct (c_stall cfg) eqn:Hs.
  - destruct (gate_out_on now cfg s Hn Hs) as (H1 & H2).
    apply gate_fix_on; [exact Hs| |].
    + apply (Forall_nc _ _ _ (fun c c' E H => ltac:(
        destruct (nc_fields c c' E) as (Ep & Es & Et & _); exact (settled_ext now cfg c c' H Ep Es Et))) R H1).
    + rewrite (existsb_healthy_nc now _ _ R).
      refine (Forall_nc _ _ _ _ R H2). intros c c' E H. unfold gated_ok in *.
      change (l_gated c') with (l_gated (nc c')). change (stall_latched c') with (stall_latched (nc c')).
      change (l_pulled c') with (l_pulled (nc c')). rewrite E. exact H.
  - pose proof (gate_out_off now cfg s Hs) as H1. apply gate_fix_off; [exact Hs|].
    refine (Forall_nc _ _ _ _ R H1). intros c c' E H. unfold off_ok in *.
    change (l_timeout c') with (l_timeout (nc c')). change (l_gated c') with (l_gated (nc c')).
    change (l_pulled c') with (l_pulled (nc c')). change (l_latched c') with (l_latched (nc c')).
    change (l_recov c') with (l_recov (nc c')). rewrite E. exact H.
Qed.

(** ---- the scoring loop on the state it left behind --------------------------------------------------- *)
Lemma cache_fresh_const : (QUALITY_CACHE_INTERVAL_MS <=? 0) = false.
Proof. reflexivity. Qed.

Lemma score_link_again au q now e c s c' :
  score_link au q now e c = Some (s, c') -> forall e', score_link au q now e' c' = Some (s, c').
Proof.
  unfold score_link. destruct (skipped now c) eqn:Sk; [discriminate|].
  destruct (au && in_flight_cap_exceeded c) eqn:Cp; [discriminate|].
  destruct (negb q) eqn:Nq.
  - intros E e'. inversion E; subst. rewrite Sk, Cp. reflexivity.
  - unfold cached_quality. destruct (QUALITY_CACHE_INTERVAL_MS <=? ssub now (l_qlast c)) eqn:St.
    + intros E e'. inversion E; subst; clear E.
      change (skipped now (upd_hid c (h_set_q (calc_quality c now e) now))) with (skipped now c).
      change (in_flight_cap_exceeded (upd_hid c (h_set_q (calc_quality c now e) now))) with (in_flight_cap_exceeded c).
      rewrite Sk, Cp.
      change (l_qlast (upd_hid c (h_set_q (calc_quality c now e) now))) with now.
      replace (ssub now now) with 0 by (unfold ssub; lia). rewrite cache_fresh_const. reflexivity.
    + intros E e'. inversion E; subst. rewrite Sk, Cp, St. reflexivity.
Qed.

Lemma score_link_none_again au q now e c :
  score_link au q now e c = None -> forall e', score_link au q now e' c = None.
Proof.
  unfold score_link. destruct (skipped now c); [reflexivity|].
  destruct (au && in_flight_cap_exceeded c); [reflexivity|].
  destruct (negb q); [discriminate|]. now destruct (cached_quality c now e).
Qed.

Lemma enh_loop_again ls : forall exps exps' au q last now i a,
  let r := enh_loop ls exps au q last now i a in
  enh_loop (snd r) exps' au q last now i a = r.
Proof.
  induction ls as [|c t IH]; intros exps exps' au q last now i a; cbn [enh_loop]; [reflexivity|].
  cbv zeta.
  destruct (score_link au q now (hd 1%float exps) c) as [(s, c')|] eqn:E.
  - set (a1 := if (ea_score a <? s)%float then _ else _).
    specialize (IH (tl exps) (tl exps') au q last now (S i) a1). cbv zeta in IH.
    destruct (enh_loop t (tl exps) au q last now (S i) a1) as (a', t') eqn:Et. cbn [snd] in *.
    cbn [enh_loop]. rewrite (score_link_again _ _ _ _ _ _ _ E (hd 1%float exps')).
    fold a1. rewrite IH. reflexivity.
  - specialize (IH (tl exps) (tl exps') au q last now (S i) a). cbv zeta in IH.
    destruct (enh_loop t (tl exps) au q last now (S i) a) as (a', t') eqn:Et. cbn [snd] in *.
    cbn [enh_loop]. rewrite (score_link_none_again _ _ _ _ _ E (hd 1%float exps')).
    rewrite IH. reflexivity.
Qed.

Lemma unconstrained_nc now c c' : nc c' = nc c -> l_qmult c' = l_qmult c' -> unconstrained now c' = unconstrained now c.
Proof. intros E _. change (unconstrained now c') with (unconstrained now (nc c')). now rewrite E. Qed.

Lemma existsb_unconstrained_nc now l l' :
  Forall2 (fun c c' => nc c' = nc c) l l' -> existsb (unconstrained now) l' = existsb (unconstrained now) l.
Proof.
  induction 1 as [|c c' l l' E H IH]; cbn [existsb]; [reflexivity|].
  now rewrite (unconstrained_nc now c c' E eq_refl), IH.
Qed.

Lemma enhanced_select_again ls last now q exps exps' :
  let r := enhanced_select ls last now q exps in
  enhanced_select (snd r) last now q exps' = r.
Proof.
  cbv zeta. unfold enhanced_select.
  set (au := existsb (unconstrained now) ls). set (a0 := EA None (-1)%float None).
  pose proof (enh_loop_again ls exps exps' au q last now 0%nat a0) as A. cbv zeta in A.
  pose proof (enh_loop_nc ls exps au q last now 0%nat a0) as N.
  destruct (enh_loop ls exps au q last now 0%nat a0) as (a, ls') eqn:E. cbn [snd] in *.
  rewrite (existsb_unconstrained_nc now ls ls' N). fold au. rewrite A. reflexivity.
Qed.

(** C11_idempotent *)
Theorem select_idempotent s last now cfg exps exps' :
  0 < now -> c_mode cfg = Enhanced ->
  let r := select s last now cfg exps in
  select (snd r) last now cfg exps' = r.
Proof.
  intros Hn Hm. cbv zeta. unfold select. rewrite Hm.
  set (q := c_quality cfg && true).
  set (ls1 := apply_stall_gate s now cfg).
  pose proof (enhanced_select_again ls1 last now q exps exps') as A. cbv zeta in A.
  assert (G : apply_stall_gate (snd (enhanced_select ls1 last now q exps)) now cfg
              = snd (enhanced_select ls1 last now q exps)).
  { apply (gate_fix_after_loop now cfg s); [exact Hn|]. fold ls1.
    rewrite enhanced_select_snd. apply enh_loop_nc. }
  rewrite G. exact A.
Qed.
