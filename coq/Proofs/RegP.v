(** RegP.v — lemmas about the registration model (Model/Reg.v): list helpers, the
    housekeeping loop, the driver, and the step-wise facts the C07 theorems are built from. *)
From Coq Require Import ZifyBool.
From Srtla Require Import Base Constants Reg.
Ltac Zify.zify_post_hook ::= Z.div_mod_to_equations.

Lemma REG2_WAIT_pos : 0 < REG2_WAIT_MS.
Proof. reflexivity. Qed.

Ltac b2z_lia :=
  repeat match goal with
         | |- context [memz ?a ?b] => let m := fresh "m" in generalize (memz a b); intro m; destruct m
         end;
  rewrite ?andb_true_r, ?andb_false_r;
  repeat match goal with
         | |- context [Z.b2z ?b] =>
           lazymatch b with true => fail | false => fail | _ => idtac end;
           let e := fresh in destruct b eqn:e; cbn [Z.b2z]
         end;
  cbn [Z.b2z]; lia.

(** ---- small helpers ---- *)
Lemma blen_nonneg : forall A (l : list A), 0 <= blen l.
Proof. intros; unfold blen; lia. Qed.

Lemma blen_cons : forall A (x : A) l, blen (x :: l) = 1 + blen l.
Proof. intros; unfold blen; cbn [length]; lia. Qed.

Lemma blen_app : forall A (a b : list A), blen (a ++ b) = blen a + blen b.
Proof. intros; unfold blen; rewrite app_length; lia. Qed.

Lemma opt_is_true : forall o i, opt_is o i = true <-> o = Some i.
Proof.
  intros [j|] i; cbn; split; intro H; try discriminate.
  - apply Z.eqb_eq in H; subst; reflexivity.
  - inversion H; subst; apply Z.eqb_refl.
Qed.

Lemma is_none_true : forall A (o : option A), is_none o = true <-> o = None.
Proof. intros A [x|]; cbn; split; intro H; try discriminate; reflexivity. Qed.

Lemma is_none_false : forall A (o : option A), is_none o = false <-> o <> None.
Proof. intros A [x|]; cbn; split; intro H; try discriminate; try congruence; reflexivity. Qed.

Lemma count_true_nonneg : forall l, 0 <= count_true l.
Proof. intros; unfold count_true; apply blen_nonneg. Qed.

Definition none_conn (l : list bool) : Prop := Forall (fun b => b = false) l.

Lemma count_true_zero : forall l, count_true l = 0 -> none_conn l.
Proof.
  induction l as [|b t IH]; intro H; [constructor|].
  unfold count_true in *; cbn [filter] in H. destruct b.
  - rewrite blen_cons in H. pose proof (blen_nonneg _ (filter (fun b => b) t)). lia.
  - constructor; auto. apply IH; exact H.
Qed.

Lemma none_conn_repeat : forall k, none_conn (repeat false k).
Proof. induction k; cbn; constructor; auto. Qed.

Lemma set_nth_length : forall l i v, length (set_nth l i v) = length l.
Proof.
  induction l as [|c t IH]; intros; cbn; [reflexivity|].
  destruct (i =? 0); cbn; [reflexivity|rewrite IH; reflexivity].
Qed.

Lemma none_conn_set_false : forall l i, none_conn l -> none_conn (set_nth l i false).
Proof.
  induction l as [|c t IH]; intros i H; cbn; [constructor|].
  inversion H; subst. destruct (i =? 0); constructor; auto. apply IH; assumption.
Qed.

(** ---- the per-link loop of housekeeping ---- *)
Definition reg1_of (l : list pkt) : list Z := map pk_dst (filter (fun p => pk_kind p =? K_REG1) l).
Definition reg2_cnt (l : list pkt) (i : Z) : Z :=
  blen (filter (fun p => (pk_kind p =? K_REG2) && (pk_dst p =? i)) l).
Definition pkts_ok (id : Z) (l : list pkt) : Prop :=
  Forall (fun p => (pk_kind p = K_REG1 \/ pk_kind p = K_REG2) /\ pk_id p = id) l.

Lemma reg1_of_app : forall a b, reg1_of (a ++ b) = reg1_of a ++ reg1_of b.
Proof. intros; unfold reg1_of; rewrite filter_app, map_app; reflexivity. Qed.
Lemma reg2_cnt_app : forall a b i, reg2_cnt (a ++ b) i = reg2_cnt a i + reg2_cnt b i.
Proof. intros; unfold reg2_cnt; rewrite filter_app, blen_app; reflexivity. Qed.
Lemma pkts_ok_app : forall id a b, pkts_ok id a -> pkts_ok id b -> pkts_ok id (a ++ b).
Proof. intros; unfold pkts_ok in *; apply Forall_app; split; assumption. Qed.

(** connected flags only ever drop in the loop *)
Definition conn_drop (pre post : list bool) : Prop :=
  Forall2 (fun a b => b = true -> a = true) pre post.

Lemma tick_loop_conn : forall due now conn i r r2 conn2 o,
  tick_loop due now i conn r = (r2, conn2, o) -> conn_drop conn conn2.
Proof.
  induction conn as [|c t IH]; intros i r r2 conn2 o H; cbn [tick_loop] in H.
  - inversion H; constructor.
  - destruct (memz i due).
    + destruct (r_pending r) as [idx|].
      * destruct (idx =? i).
        -- cbn [build_reg1_for] in H.
           destruct (tick_loop due now (i + 1) t _) as [[r2' t2] o2] eqn:E in H.
           inversion H; subst. constructor; [discriminate|eapply IH; eauto].
        -- destruct (tick_loop due now (i + 1) t r) as [[r2' t2] o2] eqn:E.
           inversion H; subst. constructor; [discriminate|eapply IH; eauto].
      * destruct (tick_loop due now (i + 1) t r) as [[r2' t2] o2] eqn:E.
        inversion H; subst. constructor; [discriminate|eapply IH; eauto].
    + destruct (tick_loop due now (i + 1) t r) as [[r2' t2] o2] eqn:E.
      inversion H; subst. constructor; [auto|eapply IH; eauto].
Qed.

Lemma conn_drop_length : forall a b, conn_drop a b -> length b = length a.
Proof. induction 1; cbn; congruence. Qed.

Lemma conn_drop_none : forall a b, conn_drop a b -> none_conn a -> none_conn b.
Proof.
  induction 1 as [|x y l l' H H2 IH]; intro N; [constructor|]. inversion N as [|? ? Hx Hl]; subst.
  constructor.
  - destruct y; auto. specialize (H eq_refl). discriminate.
  - apply IH; exact Hl.
Qed.

Lemma reg2_cnt_nil : forall k, reg2_cnt [] k = 0.
Proof. reflexivity. Qed.
Lemma reg2_cnt_one : forall i id k, reg2_cnt [(K_REG2, i, id)] k = Z.b2z (i =? k).
Proof.
  intros. unfold reg2_cnt. cbn [filter pk_kind pk_dst fst snd].
  change (K_REG2 =? K_REG2) with true. cbn [andb]. destruct (i =? k); reflexivity.
Qed.
Lemma reg2_cnt_cons : forall p l k, reg2_cnt (p :: l) k = reg2_cnt [p] k + reg2_cnt l k.
Proof. intros. change (p :: l) with ([p] ++ l). apply reg2_cnt_app. Qed.

(** nothing awaited: the loop leaves the manager alone and re-sends REG2 to each reset link *)
Lemma tick_loop_none : forall due now conn i r,
  r_pending r = None ->
  exists conn2 o, tick_loop due now i conn r = (r, conn2, o) /\
    reg1_of o = [] /\ pkts_ok (r_id r) o /\
    (forall k, reg2_cnt o k = Z.b2z ((i <=? k) && (k <? i + blen conn) && memz k due)).
Proof.
  induction conn as [|c t IH]; intros i r Hp; cbn [tick_loop].
  - exists [], []. split; [reflexivity|]. split; [reflexivity|]. split; [constructor|].
    intro k. rewrite reg2_cnt_nil. change (blen (@nil bool)) with 0. lia.
  - rewrite Hp. destruct (IH (i + 1) r Hp) as (conn2 & o & E & R1 & PK & R2).
    pose proof (blen_nonneg _ t) as Hl. rewrite blen_cons. set (L := blen t) in *. clearbody L.
    destruct (memz i due) eqn:M; rewrite E.
    + do 2 eexists; split; [reflexivity|]. split; [|split].
      * rewrite reg1_of_app, R1. reflexivity.
      * apply pkts_ok_app; auto. constructor; [|constructor]. cbn. split; auto.
      * intro k. rewrite reg2_cnt_app, R2. unfold build_reg2. rewrite reg2_cnt_one.
        destruct (Z.eq_dec i k) as [->|Hne]; [rewrite M|]; b2z_lia.
    + do 2 eexists; split; [reflexivity|]. split; [|split]; auto.
      intro k. cbn [app]. rewrite R2.
      destruct (Z.eq_dec i k) as [->|Hne]; [rewrite M|]; b2z_lia.
Qed.

(** another link is awaited, not one of this segment: nothing happens *)
Lemma tick_loop_other : forall due now conn i r j,
  r_pending r = Some j -> (j < i \/ i + blen conn <= j) ->
  exists conn2, tick_loop due now i conn r = (r, conn2, []).
Proof.
  induction conn as [|c t IH]; intros i r j Hp Hj; cbn [tick_loop].
  - eexists; reflexivity.
  - rewrite Hp. rewrite blen_cons in Hj. pose proof (blen_nonneg _ t) as Hl.
    replace (j =? i) with false by lia.
    destruct (IH (i + 1) r j Hp ltac:(lia)) as (conn2 & E).
    destruct (memz i due); rewrite E; eexists; reflexivity.
Qed.

(** the awaited link is in the segment: its REG1 is re-sent iff it is being reset *)
Lemma tick_loop_some : forall due now conn i r j,
  r_pending r = Some j -> i <= j < i + blen conn ->
  exists conn2, tick_loop due now i conn r =
    if memz j due then (fst (build_reg1_for r j now), conn2, [(K_REG1, j, r_id r)])
    else (r, conn2, []).
Proof.
  induction conn as [|c t IH]; intros i r j Hp Hj; cbn [tick_loop].
  - unfold blen in Hj; cbn in Hj; lia.
  - rewrite Hp. rewrite blen_cons in Hj. destruct (j =? i) eqn:Eji.
    + assert (j = i) by lia; subst j. destruct (memz i due) eqn:M.
      * cbn [build_reg1_for fst].
        set (r' := mkReg _ _ _ _ _ _ _ _ _ _ _).
        destruct (tick_loop_other due now t (i + 1) r' i eq_refl ltac:(lia)) as (conn2 & E).
        rewrite E. eexists; reflexivity.
      * destruct (tick_loop_other due now t (i + 1) r i Hp ltac:(lia)) as (conn2 & E).
        rewrite E. eexists; reflexivity.
    + destruct (IH (i + 1) r j Hp ltac:(lia)) as (conn2 & E).
      destruct (memz i due); rewrite E; destruct (memz j due); eexists; reflexivity.
Qed.

(** ---- broadcast ---- *)
Lemma bcast_spec : forall k i id,
  reg1_of (bcast k i id) = [] /\ pkts_ok id (bcast k i id) /\
  (forall j, reg2_cnt (bcast k i id) j = Z.b2z ((i <=? j) && (j <? i + Z.of_nat k))).
Proof.
  induction k as [|k IH]; intros i id; cbn [bcast].
  - split; [reflexivity|]. split; [constructor|]. intro j. rewrite reg2_cnt_nil. lia.
  - destruct (IH (i + 1) id) as (R1 & PK & R2). split; [|split].
    + unfold reg1_of in *. cbn [filter pk_kind fst]. change (K_REG2 =? K_REG1) with false. exact R1.
    + constructor; [|exact PK]. cbn. auto.
    + intro j. rewrite reg2_cnt_cons, R2, reg2_cnt_one. rewrite Nat2Z.inj_succ. b2z_lia.
Qed.

(** ---- probing ---- *)
Definition probes_in (n : Z) (l : list probe) : Prop := Forall (fun p => 0 <= pr_idx p < n) l.

Lemma probe_respond_in : forall n l i now, probes_in n l -> probes_in n (probe_respond l i now).
Proof.
  induction l as [|p t IH]; intros i now H; cbn; [constructor|].
  inversion H; subst. destruct (pr_idx p =? i).
  - destruct (pr_rtt p); constructor; auto.
  - constructor; auto. apply IH; auto.
Qed.

Lemma best_probe_in : forall n l acc idx rt,
  probes_in n l -> (forall a b, acc = Some (a, b) -> 0 <= a < n) ->
  best_probe l acc = Some (idx, rt) -> 0 <= idx < n.
Proof.
  induction l as [|p t IH]; intros acc idx rt H Ha E; cbn in E.
  - eapply Ha; eauto.
  - inversion H; subst. destruct (pr_rtt p) as [r|].
    + destruct acc as [[a b]|].
      * destruct (r <? b).
        -- eapply IH; [eauto| |exact E]. intros a0 b0 E0; inversion E0; subst; auto.
        -- eapply IH; eauto.
      * eapply IH; [eauto| |exact E]. intros a0 b0 E0; inversion E0; subst; auto.
    + eapply IH; eauto.
Qed.

Lemma probe_all_spec : forall k i pid now ps rs,
  probe_all k i pid now = (ps, rs) ->
  length rs = k /\ Forall (fun p => i <= pr_idx p < i + Z.of_nat k) rs /\
  reg1_of ps = [].
Proof.
  induction k as [|k IH]; intros i pid now ps rs H; cbn [probe_all] in H.
  - inversion H; subst; repeat split; constructor.
  - destruct (probe_all k (i + 1) pid now) as [ps' rs'] eqn:E. inversion H; subst.
    destruct (IH _ _ _ _ _ E) as (L & F & R). split; [cbn; lia|]. split.
    + constructor; [cbn; lia|]. eapply Forall_impl; [|exact F]. cbn; intros; lia.
    + unfold reg1_of in *. cbn [filter pk_kind fst]. change (K_REG2 =? K_REG1) with false. exact R.
Qed.
