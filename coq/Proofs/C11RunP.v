(** C11RunP.v — the model's own traces satisfy the C11 monitor, for every op list. *)
From Coq Require Import ZArith List Bool Lia Floats.
From Srtla Require Import Base Constants FConstants Select Run_Sel Run_C11 SelFloatP SelectP C11P SelViewP
     C11MonP SelIdemP.
Import ListNotations.
Local Open Scope Z_scope.

Lemma same_call_args l1 n1 c1 e1 o1 l2 n2 c2 e2 o2 :
  same_call (ES l1 n1 c1 e1 o1) (ES l2 n2 c2 e2 o2) = true -> l1 = l2 /\ n1 = n2 /\ c1 = c2.
Proof.
  unfold same_call. destruct c1 as [m1 q1 s1 a1 b1 t1], c2 as [m2 q2 s2 a2 b2 t2].
  rewrite !andb_true_iff. intros [[[Hl Hn] _] Hc].
  apply onat_eqb_eq in Hl. apply Z.eqb_eq in Hn.
  destruct Hc as [[[[[Hm Hq] Hs] Ha] Hb] Ht].
  apply Bool.eqb_prop in Hq, Hs. apply Z.eqb_eq in Ha, Hb, Ht. subst.
  repeat split. destruct m1, m2; try discriminate; reflexivity.
Qed.

(** what the runner knows about the previous event *)
Definition prev_inv (s : list link) (prev : option event) : Prop :=
  match prev with
  | Some (ES last now cfg exps o) => exists s0, select s0 last now cfg exps = (o_res o, s)
  | _ => True
  end.

Lemma run_from_ok : forall ops s prev i,
  Forall wfl s -> prev_inv s prev -> wf_opsb ops = true ->
  fst (mon_from s prev (run_from s ops) i) = 0%N.
Proof.
  induction ops as [|o r IH]; intros s prev i Hs Hp Hw; [reflexivity|].
  cbn [wf_opsb forallb] in Hw. apply andb_true_iff in Hw. destruct Hw as (Ho & Hr).
  destruct o as [ls|k l|last now cfg exps]; cbn [run_from].
  - cbn [mon_from track N.eqb]. apply IH; [now apply forallb_wfl | exact I | exact Hr].
  - cbn [mon_from track N.eqb]. apply IH; [now apply upd_nth_wf | exact I | exact Hr].
  - cbn [wf_opb] in Ho.
    pose proof (mon_select_model s last now cfg exps Hs Ho) as M.
    pose proof (model_select_state s last now cfg exps Ho) as T.
    unfold model_select in *. destruct (select s last now cfg exps) as (res, s') eqn:E.
    cbn [fst] in M. destruct T as (T1 & T2). cbn [o_hid] in T1.
    cbn [mon_from]. rewrite M. cbn [N.eqb negb].
    assert (C4 : match prev with
                 | Some p => if same_call p (ES last now cfg exps (SO res (map hid_of s') true)) &&
                                negb (onat_eqb (res_of p) res) &&
                                match c_mode cfg with Enhanced => true | Classic => false end && (0 <? now)
                             then 4%N else 0%N
                 | None => 0%N end = 0%N).
    { destruct prev as [p|]; [|reflexivity].
      destruct (same_call p _) eqn:Sc; [|reflexivity].
      destruct p as [| |l1 n1 c1 e1 o1]; try discriminate.
      apply same_call_args in Sc. destruct Sc as (-> & -> & ->).
      destruct (c_mode cfg) eqn:Em; [now rewrite !andb_false_r|].
      destruct (0 <? now) eqn:Hn; [|now rewrite !andb_false_r].
      apply Z.ltb_lt in Hn. cbn [prev_inv] in Hp. destruct Hp as (s0 & E0).
      pose proof (select_idempotent s0 last now cfg e1 exps Hn Em) as Id. cbv zeta in Id.
      rewrite E0 in Id. cbn [snd] in Id. rewrite E in Id. inversion Id; subst.
      cbn [res_of]. destruct (o_res o1) as [x|]; cbn [onat_eqb]; [now rewrite Nat.eqb_refl|reflexivity]. }
    cbn [o_res]. rewrite C4. cbn [N.eqb track o_hid]. rewrite T1.
    apply IH; [now apply T2 | | exact Hr].
    cbn [prev_inv o_res]. now exists s.
Qed.

Theorem run_ok ops : wf_opsb ops = true -> ok_C11 (run ops) = true.
Proof.
  intros H. unfold ok_C11, run.
  rewrite (run_from_ok ops [] None 0%N); [reflexivity | constructor | exact I | exact H].
Qed.
