(** C18P.v — the model's own traces satisfy the C18 monitor, for every history. *)
From Srtla Require Import Base Constants Json Control ControlSpec JsonP DecodeP ControlP Run_C18.
From Coq Require Import ZifyBool.
Local Open Scope string_scope.
Local Open Scope Z_scope.

Definition rbody_of (b : body) : rbody :=
  match b with BResult v => RResult v | BError c => RError c end.

Lemma parse_response_render r : parse_response (render r) = Some (rs_id r, rbody_of (rs_body r)).
Proof. destruct r as [id [v|c]]; reflexivity. Qed.

(** ---- snapshots and tracking ---- *)
Lemma mode_eqb_refl m : mode_eqb m m = true.
Proof. destruct m; reflexivity. Qed.
Lemma mode_eqb_eq a b : mode_eqb a b = true -> a = b.
Proof. destruct a, b; (reflexivity || discriminate). Qed.

Lemma opt_agrees_none {A} (eqb : A -> A -> bool) x : opt_agrees eqb None x = true.
Proof. reflexivity. Qed.

Lemma snap_shows_track t c s :
  snap_shows t c = true -> snap_shows (track t s) (apply_setting c s) = true.
Proof.
  unfold snap_shows. intro H.
  apply andb_true_iff in H. destruct H as [H H4]. apply andb_true_iff in H. destruct H as [H H3].
  apply andb_true_iff in H. destruct H as [H1 H2].
  destruct s as [[m|b|b|z]|]; cbn [track apply_setting set_mode set_quality set_stall store_timeout
    tk_mode tk_quality tk_stall tk_timeout c_mode c_quality c_stall c_timeout opt_agrees];
    rewrite ?H1, ?H2, ?H3, ?H4, ?mode_eqb_refl, ?Bool.eqb_reflx, ?Z.eqb_refl; reflexivity.
Qed.

Lemma setting_of_range me p z : setting_of me p = Some (STimeout z) -> 1000 <= z <= 60000.
Proof.
  unfold setting_of.
  destruct (String.eqb me "set_mode"); [destruct (vget p "mode") as [x|]; [destruct x|]; discriminate|].
  destruct (String.eqb me "set_quality"); [destruct (vget p "enabled") as [x|]; [destruct x|]; discriminate|].
  destruct (String.eqb me "set_stall_deselect"); [destruct (vget p "enabled") as [x|]; [destruct x|]; discriminate|].
  destruct (String.eqb me "set_conn_timeout"); [|discriminate].
  destruct (vget p "ms") as [x|]; [destruct x|]; try discriminate.
  intro H. injection H as <-. apply spec_clamp_range.
Qed.

Lemma spec_setting_range l z : spec_setting l = Some (STimeout z) -> 1000 <= z <= 60000.
Proof.
  rewrite spec_setting_unfold.
  destruct (line_request l) as [[[[v me] p] id]|]; [|discriminate].
  destruct (String.eqb v "2.0" && params_ok me p); [|discriminate]. apply setting_of_range.
Qed.

Lemma range_apply c l :
  in_timeout_range c = true -> in_timeout_range (apply_setting c (spec_setting l)) = true.
Proof.
  intro H. destruct (spec_setting l) as [[m|b|b|z]|] eqn:E; try exact H.
  apply spec_setting_range in E. unfold in_timeout_range. cbn [apply_setting store_timeout c_timeout]. lia.
Qed.

Lemma status_shows_ok t c e : snap_shows t c = true -> status_shows t (status_json c e) = true.
Proof.
  unfold snap_shows, status_shows. intro H.
  apply andb_true_iff in H. destruct H as [H H4]. apply andb_true_iff in H. destruct H as [H H3].
  apply andb_true_iff in H. destruct H as [H1 H2].
  unfold status_json. destruct (match e_cw e with Some p => p | None => (0, 0) end) as [w m].
  cbn [vget assoc String.eqb Ascii.eqb Bool.eqb].
  destruct (tk_mode t) as [tm|]; cbn [option_map field_shows opt_agrees] in *.
  - apply mode_eqb_eq in H1. subst tm. rewrite json_eqb_refl. cbn [andb].
    destruct (tk_quality t) as [tq|]; cbn [option_map field_shows opt_agrees] in *.
    + apply Bool.eqb_prop in H2. subst tq. rewrite json_eqb_refl. cbn [andb].
      destruct (tk_stall t) as [ts|]; cbn [option_map field_shows opt_agrees] in *.
      * apply Bool.eqb_prop in H3. subst ts. rewrite json_eqb_refl. cbn [andb].
        destruct (tk_timeout t) as [tt|]; cbn [option_map field_shows opt_agrees] in *; [|reflexivity].
        apply Z.eqb_eq in H4. subst tt. apply json_eqb_refl.
      * destruct (tk_timeout t) as [tt|]; cbn [option_map field_shows opt_agrees] in *; [|reflexivity].
        apply Z.eqb_eq in H4. subst tt. apply json_eqb_refl.
    + destruct (tk_stall t) as [ts|]; cbn [option_map field_shows opt_agrees] in *.
      * apply Bool.eqb_prop in H3. subst ts. rewrite json_eqb_refl. cbn [andb].
        destruct (tk_timeout t) as [tt|]; cbn [option_map field_shows opt_agrees] in *; [|reflexivity].
        apply Z.eqb_eq in H4. subst tt. apply json_eqb_refl.
      * destruct (tk_timeout t) as [tt|]; cbn [option_map field_shows opt_agrees] in *; [|reflexivity].
        apply Z.eqb_eq in H4. subst tt. apply json_eqb_refl.
  - destruct (tk_quality t) as [tq|]; cbn [option_map field_shows opt_agrees] in *.
    + apply Bool.eqb_prop in H2. subst tq. rewrite json_eqb_refl. cbn [andb].
      destruct (tk_stall t) as [ts|]; cbn [option_map field_shows opt_agrees] in *.
      * apply Bool.eqb_prop in H3. subst ts. rewrite json_eqb_refl. cbn [andb].
        destruct (tk_timeout t) as [tt|]; cbn [option_map field_shows opt_agrees] in *; [|reflexivity].
        apply Z.eqb_eq in H4. subst tt. apply json_eqb_refl.
      * destruct (tk_timeout t) as [tt|]; cbn [option_map field_shows opt_agrees] in *; [|reflexivity].
        apply Z.eqb_eq in H4. subst tt. apply json_eqb_refl.
    + destruct (tk_stall t) as [ts|]; cbn [option_map field_shows opt_agrees] in *.
      * apply Bool.eqb_prop in H3. subst ts. rewrite json_eqb_refl. cbn [andb].
        destruct (tk_timeout t) as [tt|]; cbn [option_map field_shows opt_agrees] in *; [|reflexivity].
        apply Z.eqb_eq in H4. subst tt. apply json_eqb_refl.
      * destruct (tk_timeout t) as [tt|]; cbn [option_map field_shows opt_agrees] in *; [|reflexivity].
        apply Z.eqb_eq in H4. subst tt. apply json_eqb_refl.
Qed.

(** ---- the result clauses (status shows what was set; timeout echoed as applied) ---- *)
Lemma spec_method_unfold l :
  spec_method l = match line_request l with
                  | Some (_, me, _, id) => Some (me, match id with Some _ => true | None => false end)
                  | None => None
                  end.
Proof. destruct l as [| |j]; reflexivity. Qed.

Lemma setting_of_status p : setting_of "get_status" p = None.
Proof. reflexivity. Qed.

Lemma setting_of_sub me p : is_sub_method me = true -> setting_of me p = None.
Proof.
  unfold is_sub_method, setting_of. intro H.
  case_me me "set_mode"; [discriminate|].
  case_me me "set_quality"; [discriminate|].
  case_me me "set_stall_deselect"; [discriminate|].
  case_me me "set_conn_timeout"; [discriminate|]. reflexivity.
Qed.

Lemma setting_of_timeout_result c e me p z :
  setting_of me p = Some (STimeout z) -> result_of c e me p = JObj [("ms", JInt z)].
Proof.
  intro H. unfold result_of. rewrite H.
  case_me me "get_status"; [discriminate|]. reflexivity.
Qed.

Lemma mon_result_ok c e l t v ver me p id :
  line_request l = Some (ver, me, p, id) ->
  (is_sub_method me = false -> v = result_of c e me p) ->
  (me = "get_status" -> snap_shows t c = true) ->
  mon_result l t v = 0%N.
Proof.
  intros Hl Hv Hs. unfold mon_result. rewrite spec_method_unfold, spec_setting_unfold, Hl.
  destruct (String.eqb me "get_status") eqn:Eg.
  - apply String.eqb_eq in Eg. subst me. rewrite (Hv eq_refl). unfold result_of. cbn [String.eqb Ascii.eqb Bool.eqb].
    rewrite (status_shows_ok t c e (Hs eq_refl)). cbn [negb].
    rewrite setting_of_status. destruct (String.eqb ver "2.0" && params_ok "get_status" p); reflexivity.
  - cbn [negb].
    destruct (String.eqb ver "2.0" && params_ok me p); [|reflexivity].
    destruct (setting_of me p) as [[m|b|b|z]|] eqn:Es; try reflexivity.
    destruct (is_sub_method me) eqn:Esub.
    + rewrite (setting_of_sub me p Esub) in Es. discriminate.
    + rewrite (Hv eq_refl), (setting_of_timeout_result c e me p z Es).
      cbn [vget assoc String.eqb Ascii.eqb Bool.eqb]. rewrite Z.eqb_refl. reflexivity.
Qed.

(** ---- a conforming response passes the response clauses ---- *)
Lemma mon_response_ok ent l t r P :
  conforms (spec_expect ent l) r P ->
  (forall v, P v -> mon_result l t v = 0%N) ->
  mon_response ent l t (option_map render r) = 0%N.
Proof.
  intros Hc Hp. unfold mon_response.
  destruct (spec_expect ent l) as [|id code|id|id]; cbn [conforms] in Hc.
  - subst r. reflexivity.
  - subst r. cbn [option_map]. rewrite parse_response_render. cbn [rs_id rs_body rbody_of].
    rewrite json_eqb_refl, Z.eqb_refl. reflexivity.
  - destruct Hc as (v & -> & Hv). cbn [option_map]. rewrite parse_response_render. cbn [rs_id rs_body rbody_of].
    rewrite json_eqb_refl. cbn [negb]. apply Hp. exact Hv.
  - destruct Hc as [(v & ->)| ->]; cbn [option_map]; rewrite parse_response_render; cbn [rs_id rs_body rbody_of];
      rewrite json_eqb_refl; reflexivity.
Qed.

(** ---- one step ---- *)
Definition inv (s : state) (t : tracked) : Prop :=
  s_sync s = s_async s /\ snap_shows t (s_sync s) = true /\ in_timeout_range (s_sync s) = true.

Lemma get_status_keeps c l ver p id :
  line_request l = Some (ver, "get_status", p, id) -> apply_setting c (spec_setting l) = c.
Proof.
  intro H. rewrite spec_setting_unfold, H, setting_of_status.
  destruct (String.eqb ver "2.0" && params_ok "get_status" p); reflexivity.
Qed.

Lemma get_status_track t l ver p id :
  line_request l = Some (ver, "get_status", p, id) -> track t (spec_setting l) = t.
Proof.
  intro H. rewrite spec_setting_unfold, H, setting_of_status.
  destruct (String.eqb ver "2.0" && params_ok "get_status" p); reflexivity.
Qed.

Lemma step_ok ctx s t o :
  inv s t ->
  mon_step ctx (track t (spec_setting (o_line o))) o (snd (step ctx s o)) = 0%N /\
  inv (fst (step ctx s o)) (track t (spec_setting (o_line o))).
Proof.
  intros (Heq & Hshow & Hrange).
  destruct o as [e l]. cbn [o_line o_env]. unfold step. cbn [o_line o_env].
  rewrite <- Heq. set (c := s_sync s) in *.
  pose proof (dispatch_conforms c e l) as (r & Hd & Hconf & Hcfg).
  pose proof (dispatch_async_conforms ctx c (s_hub s) e l) as (ra & Hda & Hconfa).
  pose proof (async_config_same ctx c (s_hub s) e l) as Hsame.
  destruct (dispatch c e l) as [o1 c1] eqn:ED.
  destruct (dispatch_async ctx c (s_hub s) e l) as [[o2 c2] h2] eqn:EA.
  cbn [fst snd] in *. subst o1 o2 c2.
  set (t' := track t (spec_setting l)).
  assert (Hshow' : snap_shows t' c1 = true) by (subst c1; apply snap_shows_track; exact Hshow).
  assert (Hrange' : in_timeout_range c1 = true) by (subst c1; apply range_apply; exact Hrange).
  assert (Hres : forall v, result_fact c e l v -> mon_result l t' v = 0%N).
  { intros v Hv. unfold result_fact in Hv.
    destruct (line_request l) as [[[[ver me] p] id]|] eqn:El.
    - eapply mon_result_ok; [exact El|intros _; exact Hv|].
      intro Hme. subst me. unfold t'. rewrite (get_status_track t l ver p id El). exact Hshow.
    - unfold mon_result. rewrite spec_method_unfold, spec_setting_unfold, El. reflexivity. }
  assert (Hresa : forall v,
            match line_request l with
            | Some (_, me, _, _) => is_sub_method me = false -> result_fact c e l v
            | None => True
            end -> mon_result l t' v = 0%N).
  { intros v Hv.
    destruct (line_request l) as [[[[ver me] p] id]|] eqn:El.
    - eapply mon_result_ok; [exact El| |].
      + intro Hns. specialize (Hv Hns). unfold result_fact in Hv. rewrite El in Hv. exact Hv.
      + intro Hme. subst me. unfold t'. rewrite (get_status_track t l ver p id El). exact Hshow.
    - unfold mon_result. rewrite spec_method_unfold, spec_setting_unfold, El. reflexivity. }
  split.
  - unfold mon_step. cbn [o_line ob_sync ob_async observe].
    unfold mon_entry. cbn [observe o_panic o_resp o_snap].
    rewrite (mon_response_ok Stdin l t' r _ Hconf Hres).
    rewrite Hrange', Hshow'. cbn [negb].
    rewrite (mon_response_ok (Socket ctx) l t' ra _ Hconfa Hresa).
    (* agreement *)
    unfold mon_agree. rewrite spec_method_unfold. cbn [ob_sync ob_async o_resp observe].
    destruct (line_request l) as [[[[ver me] p] id]|] eqn:El; [|reflexivity].
    destruct (is_sub_method me) eqn:Esub; [reflexivity|].
    assert (Hag : dispatch_async ctx c (s_hub s) e l = (dispatch c e l, s_hub s)).
    { apply async_agrees. rewrite El, Esub. apply andb_false_r. }
    rewrite EA, ED in Hag. assert (Hr : ra = r) by congruence. subst ra.
    unfold resp_same. destruct r as [r|]; cbn [option_map opt_eqb]; [rewrite json_eqb_refl; reflexivity|reflexivity].
  - cbn [fst]. unfold inv. cbn [s_sync s_async]. repeat split; assumption.
Qed.

(** ---- every history ---- *)
Lemma run_from_ok ctx ops : forall s t, inv s t -> mon_steps ctx t (run_from ctx s ops) = 0%N.
Proof.
  induction ops as [|o ops IH]; intros s t Hi; [reflexivity|].
  cbn [run_from]. pose proof (step_ok ctx s t o Hi) as [Hm Hi'].
  destruct (step ctx s o) as [s' b]. cbn [fst snd] in *.
  cbn [mon_steps]. rewrite Hm. apply IH. exact Hi'.
Qed.

Lemma cfg_init_ok i : exists c, cfg_init i = Some c /\ in_timeout_range c = true.
Proof.
  destruct i as [|m nq ns mif stale tmo].
  - eexists. split; reflexivity.
  - cbn [cfg_init]. rewrite clamp_ok. cbn [obind]. eexists. split; [reflexivity|].
    unfold in_timeout_range. cbn [c_timeout]. pose proof (spec_clamp_range tmo). lia.
Qed.

Lemma inv_init c : in_timeout_range c = true -> inv (init_state c) tracked_none.
Proof. intro H. unfold inv. cbn. repeat split. exact H. Qed.

Theorem model_ok i ctx ops : ok_C18 ctx (run i ctx ops) = true.
Proof.
  unfold ok_C18, mon_C18, run. destruct (cfg_init_ok i) as (c & -> & Hr). cbn [tr_snap0 tr_steps].
  rewrite Hr. cbn [negb]. rewrite (run_from_ok ctx ops _ _ (inv_init c Hr)). reflexivity.
Qed.

(** ---- Prop-level statements ---- *)
Definition response_of (ent : entry) (c : config) (h : hub) (e : env) (l : line_outcome) : outcome :=
  match ent with
  | Stdin => fst (dispatch c e l)
  | Socket ctx => fst (fst (dispatch_async ctx c h e l))
  end.
Definition config_after (ent : entry) (c : config) (h : hub) (e : env) (l : line_outcome) : config :=
  match ent with
  | Stdin => snd (dispatch c e l)
  | Socket ctx => snd (fst (dispatch_async ctx c h e l))
  end.

Lemma conforms_weaken ex r (P Q : json -> Prop) : (forall v, P v -> Q v) -> conforms ex r P -> conforms ex r Q.
Proof.
  intros H. destruct ex; cbn; try exact (fun x => x).
  intros (v & Hv & Hp). exists v. split; [exact Hv|apply H; exact Hp].
Qed.

Lemma response_conforms ent c h e l :
  exists r, response_of ent c h e l = Done r /\ conforms (spec_expect ent l) r (fun _ => True).
Proof.
  destruct ent as [|ctx]; cbn [response_of].
  - destruct (dispatch_conforms c e l) as (r & Hr & Hc & _). exists r. split; [exact Hr|].
    eapply conforms_weaken; [|exact Hc]. trivial.
  - destruct (dispatch_async_conforms ctx c h e l) as (r & Hr & Hc). exists r. split; [exact Hr|].
    eapply conforms_weaken; [|exact Hc]. trivial.
Qed.

Lemma config_after_spec ent c h e l : config_after ent c h e l = apply_setting c (spec_setting l).
Proof.
  destruct ent as [|ctx]; cbn [config_after].
  - destruct (dispatch_conforms c e l) as (_ & _ & _ & H). exact H.
  - rewrite async_config_same. destruct (dispatch_conforms c e l) as (_ & _ & _ & H). exact H.
Qed.

Theorem total_no_panic ent c h e l : exists r, response_of ent c h e l = Done r.
Proof. destruct (response_conforms ent c h e l) as (r & H & _). exists r. exact H. Qed.

Theorem exactly_one_response ent c h e j v me p id :
  spec_request j = Some (v, me, p, Some id) ->
  exists b, response_of ent c h e (Parsed j) = Done (Some {| rs_id := id; rs_body := b |}) /\
    (v <> "2.0" -> b = BError (-32600)) /\
    (v = "2.0" -> known_method ent me = false -> b = BError (-32601)) /\
    (v = "2.0" -> known_method ent me = true -> params_ok me p = false -> b = BError (-32602)) /\
    (v = "2.0" -> known_method ent me = true -> params_ok me p = true ->
       (exists r, b = BResult r) \/ (me = "get_stats" /\ b = BError (-32603))).
Proof.
  intro Hs. destruct (response_conforms ent c h e (Parsed j)) as (r & Hr & Hc).
  rewrite Hr. cbn [spec_expect] in Hc. rewrite Hs in Hc. unfold expect_for in Hc.
  destruct (String.eqb v "2.0") eqn:Ev; cbn [negb] in Hc.
  - apply String.eqb_eq in Ev. subst v.
    destruct (known_method ent me) eqn:Ek; cbn [negb] in Hc.
    + destruct (params_ok me p) eqn:Ep; cbn [negb] in Hc.
      * destruct (String.eqb me "get_stats") eqn:Eg; cbn [conforms] in Hc.
        -- apply String.eqb_eq in Eg. destruct Hc as [(x & ->)| ->]; eexists; (split; [reflexivity|]);
             repeat split; try congruence; intros; eauto.
        -- destruct Hc as (x & -> & _). eexists. split; [reflexivity|].
           repeat split; try congruence. intros. left. eauto.
      * cbn [conforms] in Hc. subst r. eexists. split; [reflexivity|]. repeat split; congruence.
    + cbn [conforms] in Hc. subst r. eexists. split; [reflexivity|]. repeat split; congruence.
  - cbn [conforms] in Hc. subst r. eexists. split; [reflexivity|].
    assert (v <> "2.0") by (intro; subst v; discriminate). repeat split; congruence.
Qed.

Theorem unparsable_gets_parse_error ent c h e l :
  l <> Blank -> line_request l = None ->
  response_of ent c h e l = Done (Some {| rs_id := JNull; rs_body := BError (-32700) |}) /\
  config_after ent c h e l = c.
Proof.
  intros Hb Hl. split.
  - destruct (response_conforms ent c h e l) as (r & Hr & Hc). rewrite Hr.
    rewrite spec_expect_unfold in Hc. destruct l as [| |j]; [congruence| |]; rewrite ?Hl in Hc; cbn in Hc; subst r; reflexivity.
  - rewrite config_after_spec, spec_setting_unfold, Hl. reflexivity.
Qed.

Theorem blank_gets_nothing ent c h e :
  response_of ent c h e Blank = Done None /\ config_after ent c h e Blank = c.
Proof. destruct ent; split; reflexivity. Qed.

(** a notification gets no response and has exactly the effect of the same request carrying an id *)
Theorem notification_applied ent c h e j j' v me p id :
  spec_request j = Some (v, me, p, None) ->
  spec_request j' = Some (v, me, p, Some id) ->
  response_of ent c h e (Parsed j) = Done None /\
  config_after ent c h e (Parsed j) = config_after ent c h e (Parsed j') /\
  (forall ctx, snd (dispatch_async ctx c h e (Parsed j)) = snd (dispatch_async ctx c h e (Parsed j'))).
Proof.
  intros H1 H2. split; [|split].
  - destruct (response_conforms ent c h e (Parsed j)) as (r & Hr & Hc). rewrite Hr.
    cbn [spec_expect] in Hc. rewrite H1 in Hc. cbn in Hc. subst r. reflexivity.
  - rewrite !config_after_spec. cbn [spec_setting]. rewrite H1, H2. reflexivity.
  - intro ctx. rewrite !dispatch_async_unfold, H1, H2.
    destruct (String.eqb v "2.0" && ctx && is_sub_method me); [|reflexivity].
    destruct (String.eqb me "subscribe"); [destruct (handle_subscribe h p); reflexivity|].
    destruct (String.eqb me "unsubscribe"); [destruct (handle_unsubscribe h p); reflexivity|].
    reflexivity.
Qed.

(** histories: the configuration after any op list shows, per field, the last value set *)
Definition final_state (ctx : bool) (s : state) (ops : list op) : state :=
  fold_left (fun s o => fst (step ctx s o)) ops s.
Definition tracked_of (t : tracked) (ops : list op) : tracked :=
  fold_left (fun t o => track t (spec_setting (o_line o))) ops t.

Lemma inv_final ctx ops : forall s t, inv s t -> inv (final_state ctx s ops) (tracked_of t ops).
Proof.
  induction ops as [|o ops IH]; intros s t Hi; [exact Hi|].
  cbn [final_state tracked_of fold_left]. apply IH. apply step_ok. exact Hi.
Qed.

Definition same_field (a b : setting) : bool :=
  match a, b with
  | SMode _, SMode _ | SQuality _, SQuality _ | SStall _, SStall _ | STimeout _, STimeout _ => true
  | _, _ => false
  end.
Definition holds (t : tracked) (s : setting) : Prop :=
  match s with
  | SMode m => tk_mode t = Some m
  | SQuality b => tk_quality t = Some b
  | SStall b => tk_stall t = Some b
  | STimeout z => tk_timeout t = Some z
  end.
Definition untouched (s : setting) (o : op) : Prop :=
  match spec_setting (o_line o) with Some s' => same_field s s' = false | None => True end.

Lemma holds_keep t s ops : holds t s -> Forall (untouched s) ops -> holds (tracked_of t ops) s.
Proof.
  revert t. induction ops as [|o ops IH]; intros t Ht Hf; [exact Ht|].
  inversion Hf as [|? ? Ho Hf']. subst. cbn [tracked_of fold_left]. apply IH; [|exact Hf'].
  unfold untouched in Ho. destruct (spec_setting (o_line o)) as [s'|]; [|exact Ht].
  destruct s, s'; cbn in Ho |- *; (discriminate || exact Ht).
Qed.

Theorem tracked_last t ops1 o ops2 s :
  spec_setting (o_line o) = Some s -> Forall (untouched s) ops2 ->
  holds (tracked_of t (ops1 ++ o :: ops2)) s.
Proof.
  intros Hs Hf. unfold tracked_of. rewrite fold_left_app. cbn [fold_left]. apply holds_keep; [|exact Hf].
  rewrite Hs. destruct s; reflexivity.
Qed.

Theorem set_visible i ctx ops c :
  cfg_init i = Some c ->
  let s := final_state ctx (init_state c) ops in
  let t := tracked_of tracked_none ops in
  s_sync s = s_async s /\
  snap_shows t (s_sync s) = true /\
  (forall e, status_shows t (status_json (s_sync s) e) = true) /\
  (forall ent e j p id, spec_request j = Some ("2.0", "get_status", p, Some id) ->
     response_of ent (s_sync s) (s_hub s) e (Parsed j) =
       Done (Some {| rs_id := id; rs_body := BResult (status_json (s_sync s) e) |})).
Proof.
  intros Hc s t.
  assert (Hr : in_timeout_range c = true).
  { destruct (cfg_init_ok i) as (c' & Hc' & Hr). rewrite Hc in Hc'. injection Hc' as <-. exact Hr. }
  pose proof (inv_final ctx ops _ _ (inv_init c Hr)) as (He & Hs & _). fold s t in He, Hs.
  split; [exact He|]. split; [exact Hs|]. split.
  - intro e. apply status_shows_ok. exact Hs.
  - intros ent e j p id Hj.
    destruct ent as [|cx]; cbn [response_of].
    + destruct (dispatch_conforms (s_sync s) e (Parsed j)) as (r & Hr' & Hcf & _). rewrite Hr'.
      cbn [spec_expect] in Hcf. rewrite Hj in Hcf. cbn in Hcf. destruct Hcf as (v & -> & Hv).
      unfold result_fact in Hv. cbn [line_request] in Hv. rewrite Hj in Hv. subst v. reflexivity.
    + destruct (dispatch_async_conforms cx (s_sync s) (s_hub s) e (Parsed j)) as (r & Hr' & Hcf). rewrite Hr'.
      cbn [spec_expect line_request] in Hcf. rewrite Hj in Hcf. cbn in Hcf. destruct Hcf as (v & -> & Hv).
      specialize (Hv eq_refl). unfold result_fact in Hv. cbn [line_request] in Hv. rewrite Hj in Hv. subst v. reflexivity.
Qed.

Theorem timeout_always_clamped i ctx ops :
  exists c, cfg_init i = Some c /\
    1000 <= c_timeout (s_sync (final_state ctx (init_state c) ops)) <= 60000 /\
    1000 <= c_timeout (s_async (final_state ctx (init_state c) ops)) <= 60000.
Proof.
  destruct (cfg_init_ok i) as (c & Hc & Hr). exists c. split; [exact Hc|].
  pose proof (inv_final ctx ops _ _ (inv_init c Hr)) as (He & _ & Hrange).
  rewrite <- He. unfold in_timeout_range in Hrange. lia.
Qed.

Theorem timeout_echoed ent c h e j p id ms :
  spec_request j = Some ("2.0", "set_conn_timeout", p, id) ->
  vget p "ms" = Some (JInt ms) -> 0 <= ms < two64 ->
  let applied := Z.min 60000 (Z.max 1000 ms) in
  response_of ent c h e (Parsed j) =
    Done (option_map (fun i => {| rs_id := i; rs_body := BResult (JObj [("ms", JInt applied)]) |}) id) /\
  config_after ent c h e (Parsed j) = store_timeout c applied /\
  1000 <= applied <= 60000.
Proof.
  intros Hj Hp Hms applied.
  assert (Hpo : params_ok "set_conn_timeout" p = true).
  { unfold params_ok. cbn [String.eqb Ascii.eqb Bool.eqb]. rewrite Hp. unfold is_u64. lia. }
  assert (Hso : setting_of "set_conn_timeout" p = Some (STimeout applied)).
  { unfold setting_of. cbn [String.eqb Ascii.eqb Bool.eqb]. rewrite Hp. reflexivity. }
  split; [|split].
  - destruct ent as [|cx]; cbn [response_of].
    + rewrite dispatch_unfold, Hj. cbn [String.eqb Ascii.eqb Bool.eqb negb].
      rewrite handle_method_sem, Hpo. cbn [is_base_method String.eqb Ascii.eqb Bool.eqb orb negb].
      unfold result_of. rewrite Hso. cbn [String.eqb Ascii.eqb Bool.eqb answer fst].
      destruct id; reflexivity.
    + rewrite dispatch_async_unfold, Hj. cbn [String.eqb Ascii.eqb Bool.eqb is_sub_method orb andb].
      rewrite andb_false_r. cbn [fst].
      rewrite dispatch_unfold, Hj. cbn [String.eqb Ascii.eqb Bool.eqb negb].
      rewrite handle_method_sem, Hpo. cbn [is_base_method String.eqb Ascii.eqb Bool.eqb orb negb].
      unfold result_of. rewrite Hso. cbn [String.eqb Ascii.eqb Bool.eqb answer fst].
      destruct id; reflexivity.
  - rewrite config_after_spec. cbn [spec_setting]. rewrite Hj, Hpo, Hso. reflexivity.
  - unfold applied. lia.
Qed.
