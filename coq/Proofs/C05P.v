(** C05P.v — a NAK changes the accounting of at most one link, which held the
    number; the charge is exact; a remembered owner is exclusive. *)
From Srtla Require Import Base Constants Conn Run_Core ConnP CoreRunP Run_C02 SetP C02P Run_C05.
From Coq Require Import Sorting.Sorted ZifyBool.

Lemma ltrans_cid o i c c' : ltrans o i c c' -> cid c' = cid c.
Proof.
  assert (Hat : forall k fc, at_idx k i c c' fc -> cid fc = cid c -> cid c' = cid c).
  { intros k fc [[_ ->]|[_ ->]] H; auto. }
  destruct o; cbn [ltrans]; intros H;
  try (eapply Hat; [exact H|]); try (subst c'); try reflexivity.
  - unfold handle_srt_ack. destruct (_ <=? _); reflexivity.
  - destruct H as [->|[->| ->]]; [reflexivity| |];
    unfold handle_srtla_ack_global, handle_srtla_ack_specific;
    repeat match goal with |- context [if ?b then _ else _] => destruct b end;
    repeat match goal with |- context [let '(_, _) := ?x in _] => destruct x as [[? ?] ?] || destruct x as [? ?] end;
    cbn; try reflexivity;
    repeat match goal with |- context [if ?b then _ else _] => destruct b end; reflexivity.
  - destruct H as [->| ->]; [reflexivity|]. unfold handle_nak. destruct (log_mem _ _); [|reflexivity].
    destruct (cong_nak _ _ _) as [[? ?] ?]. reflexivity.
  - unfold perform_window_recovery. destruct (recovery _ _ _ _ _) as [[? ?] ?]. reflexivity.
  - unfold cc_ack. destruct (if classic then _ else _) as [[? ?] ?]. reflexivity.
  - unfold cc_nak. destruct (cong_nak _ _ _) as [[? ?] ?]. reflexivity.
  - unfold handle_srtla_ack_global. destruct (_ && _); reflexivity.
Qed.

Lemma step_cids s o : map cid (links (step s o)) = map cid (links s).
Proof.
  pose proof (step_ltrans s o) as H. revert H. generalize (links (step s o)), (links s), 0%nat.
  intros l' l j H. induction H; cbn; [reflexivity|]. rewrite IHForall2i, (ltrans_cid _ _ _ _ H). reflexivity.
Qed.

Lemma pos_of_find id l : forall i, pos_of id (map cid l) i = find_pos id l i.
Proof. induction l as [|c l IH]; intros i; cbn; [reflexivity|]. destruct (cid c =? id); [reflexivity|apply IH]. Qed.

Lemma find_pos_nth id l : forall i k, find_pos id l i = Some k -> exists j c, k = (i + j)%nat /\ nth_error l j = Some c.
Proof.
  induction l as [|c l IH]; intros i k H; cbn in H; [discriminate|].
  destruct (cid c =? id).
  - inversion H; subst. exists 0%nat, c. split; [lia|reflexivity].
  - destruct (IH _ _ H) as (j & c0 & -> & Hn). exists (S j), c0. split; [lia|exact Hn].
Qed.

Lemma lsame_refl x : lsame x x = true.
Proof. unfold lsame. rewrite !Z.eqb_refl, zlist_eqb_refl'. reflexivity. Qed.
Lemma all_unchanged_refl p : all_unchanged p p = true.
Proof. unfold all_unchanged. induction p; cbn; [reflexivity|]. rewrite lsame_refl. exact IHp. Qed.

Lemma others_unchanged_upd k f l : others_unchanged k (obsl l) (obsl (upd k f l)) = true.
Proof.
  unfold others_unchanged. apply forall_idx_F2i. eapply Forall2i_impl; [|apply (upd_rel f l k 0)]. cbn beta.
  intros j c c' [[-> _]|[_ ->]]; [rewrite Nat.eqb_refl; reflexivity|rewrite lsame_refl; apply orb_true_r].
Qed.

Lemma nth_obsl l : forall k c, nth_error l k = Some c -> nth k (obsl l) ([], []) = obs_link c.
Proof.
  unfold obsl. induction l as [|x l IH]; intros [|k] c H; cbn in *; try discriminate.
  - inversion H; reflexivity.
  - apply IH; exact H.
Qed.

Lemma blen_cons' {A} (x : A) l : blen (x :: l) = 1 + blen l.
Proof. unfold blen. cbn [length]. lia. Qed.

Lemma log_remove_len seq l : NoDup (map fst l) -> log_mem seq l = true -> blen (log_remove seq l) = blen l - 1.
Proof.
  induction l as [|[k v] l IH]; intros Hn Hm; [discriminate|].
  cbn [map fst] in Hn. inversion Hn as [|? ? Hnotin Hn']; subst.
  cbn [log_remove]. destruct (k =? seq) eqn:E.
  - apply Z.eqb_eq in E. subst k.
    assert (Hno : log_mem seq l = false).
    { destruct (log_mem seq l) eqn:E2; [|reflexivity]. apply log_mem_In in E2. contradiction. }
    assert (Hid : forall l0, log_mem seq l0 = false -> log_remove seq l0 = l0).
    { induction l0 as [|[k' v'] l0 IH0]; intros H0; [reflexivity|]. cbn in *.
      destruct (k' =? seq); cbn in H0; [discriminate|]. rewrite IH0; auto. }
    rewrite (Hid l Hno). rewrite blen_cons'. lia.
  - unfold log_mem in Hm. cbn [existsb fst] in Hm. rewrite E in Hm. cbn [orb] in Hm.
    rewrite !blen_cons', (IH Hn' Hm). lia.
Qed.

Lemma exact_charge_nak c seq now : Inv2 c -> log_mem seq (log c) = true ->
  exact_charge seq (obs_link c) (obs_link (fst (handle_nak c seq now))) = true.
Proof.
  intros HI Hm. pose proof HI as (Hn & Hi & Hh).
  destruct (nak_inv c seq now HI) as [HI' [[E _]|(_ & Ek & _)]]; [congruence|].
  unfold exact_charge. rewrite !o_keys_obs, Ek. unfold s_del. rewrite zlist_eqb_refl', andb_true_r.
  rewrite !o_nakcount_obs, !o_inflight_obs.
  unfold handle_nak in *. rewrite Hm in *. destruct (cong_nak (cg c) (window c) now) as [[g w] o] eqn:Ec.
  cbn [fst cg window in_flight nak_count log] in *.
  assert (Eg : nak_count g = sat_add_i32 (nak_count (cg c)) 1 /\ w = Z.max (window c - 100) 1000).
  { unfold cong_nak in Ec.
    destruct ((0 <? last_nak (cg c)) && (ssub now (last_nak (cg c)) <? NAK_BURST_WINDOW_MS));
    [destruct (burst (cg c) =? 0)|]; inversion Ec; subst; cbn [nak_count]; split; reflexivity. }
  destruct Eg as [-> ->]. change (o_window (obs_link ?x)) with (window x). cbn [window].
  rewrite !Z.eqb_refl. cbn [andb]. rewrite Hi, (log_remove_len seq (log c) Hn Hm). apply Z.eqb_refl.
Qed.

(** ---------- state level ---------- *)
Definition J5 (m : mem) (s : state) : Prop :=
  SInv2 s /\ m_trk m = trk s /\ m_ids m = map cid (links s).

Lemma held_obs c seq : existsb (Z.eqb seq) (o_keys (obs_link c)) = log_mem seq (log c).
Proof. rewrite o_keys_obs. apply s_mem_kset. Qed.

(** the NAK lands on exactly the link at index k *)
Lemma charge_at m seq now l k c :
  Forall Inv2 l -> nth_error l k = Some c -> log_mem seq (log c) = true ->
  match remembered m seq now with Some j => j = k | None => True end ->
  nak_ok m seq now (obsl l) (obsl (upd k (fun x => fst (handle_nak x seq now)) l)) = true.
Proof.
  intros HI Hn Hm Hr. unfold nak_ok. apply orb_true_iff. right.
  apply (existsb_seq_witness _ _ k).
  - rewrite length_obsl. apply nth_error_Some. congruence.
  - cbn zeta. rewrite others_unchanged_upd. cbn [andb].
    rewrite (nth_obsl _ _ _ Hn), (nth_obsl _ _ _ (nth_error_upd _ _ _ _ Hn)).
    rewrite held_obs, Hm. cbn [andb].
    assert (Hc : Inv2 c) by (rewrite Forall_forall in HI; apply HI; eapply nth_error_In; exact Hn).
    rewrite (exact_charge_nak c seq now Hc Hm). cbn [andb].
    destruct (remembered m seq now); [subst; apply Nat.eqb_refl|reflexivity].
Qed.

Theorem nak_step m s seq now : J5 m s ->
  nak_ok m seq now (obs_state s) (obs_state (step s (ONak seq now))) = true.
Proof.
  intros (HI & Et & Ei). unfold SInv2 in HI. unfold obs_state. fold (obsl (links s)).
  cbn [step links]. fold (obsl (fst (attribute_nak (links s) (trk s) seq now))).
  unfold attribute_nak.
  assert (Hfh : match (match trk_get (trk s) seq now with Some id => find_pos id (links s) 0 | None => None end) with
                | Some _ => False | None => True end ->
                nak_ok m seq now (obsl (links s))
                  (obsl (fst (first_hit (fun x => handle_nak x seq now) None 0 (links s)))) = true).
  { intros Hnone.
    destruct (first_hit (fun x => handle_nak x seq now) None 0 (links s)) as [l' r] eqn:Ef.
    pose proof (first_hit_upd _ _ _ _ _ _ Ef) as Hh. cbn [fst]. destruct r as [j|].
    - destruct Hh as (k & c0 & -> & Hn & Hs & Hk & ->). cbn [Nat.add] in *. cbn beta. rewrite nak_found in Hs.
      apply (charge_at m seq now (links s) k c0 HI Hn Hs).
      unfold remembered. rewrite Et, Ei.
      destruct (trk_get (trk s) seq now); [|exact I]. rewrite pos_of_find. destruct (find_pos _ _ _); [destruct Hnone|exact I].
    - destruct Hh as [-> _]. unfold nak_ok. rewrite all_unchanged_refl. reflexivity. }
  destruct (trk_get (trk s) seq now) as [id|] eqn:Eg; [|apply Hfh; exact I].
  destruct (find_pos id (links s) 0) as [pos|] eqn:Ep; [|apply Hfh; exact I].
  destruct (nth_error (links s) pos) as [c|] eqn:En.
  2:{ cbn [fst]. unfold nak_ok. rewrite all_unchanged_refl. reflexivity. }
  pose proof (nak_found c seq now) as Hfound.
  destruct (handle_nak c seq now) as [c' found]. cbn [snd] in Hfound. subst found.
  destruct (log_mem seq (log c)) eqn:Em; cbn [fst].
  2:{ unfold nak_ok. rewrite all_unchanged_refl. reflexivity. }
  apply (charge_at m seq now (links s) pos c HI En Em).
  unfold remembered. rewrite Et, Ei, Eg, pos_of_find, Ep. reflexivity.
Qed.

Lemma step_trk s o : trk (step s o) =
  match o with
  | OTrack i seq now => match nth_error (links s) i with Some c => trk_insert (trk s) seq (cid c) now | None => trk s end
  | ORemoveConn i => match nth_error (links s) i with Some c => trk_remove_conn (trk s) (cid c) | None => trk s end
  | _ => trk s
  end.
Proof. destruct o; cbn [step on trk]; try reflexivity; destruct (nth_error _ _); reflexivity. Qed.

Theorem monitor_holds5 ids ops : Forall wf2 ops -> check_with mon_C05 (model_case ids ops) = 0%N.
Proof.
  intros Hwf. apply (check_with_model mon_C05 J5).
  - reflexivity.
  - cbn. repeat split; [apply init_inv2|]. unfold init. cbn. rewrite map_map. cbn. rewrite map_id. reflexivity.
  - intros m s o HJ Hin. pose proof HJ as (HI & Et & Ei).
    assert (Ho : wf2 o) by (rewrite Forall_forall in Hwf; auto).
    destruct (step_c02 s o Ho HI) as [HI' _].
    pose proof (Forall2i_length _ _ _ _ (step_ltrans s o)) as Hlen.
    assert (Heq : (length (obs_state s) =? length (obs_state (step s o)))%nat = true).
    { unfold obs_state. rewrite !map_length, Hlen. apply Nat.eqb_refl. }
    cbn [mon_C05 m_step]. rewrite Heq. cbn [negb].
    assert (Hcid := step_cids s o). pose proof (step_trk s o) as Htrk.
    destruct o; cbn [fst snd];
    try (split; [reflexivity|]; split; [exact HI'|]; split; [rewrite Htrk; exact Et|rewrite Hcid; exact Ei]).
    + (* OTrack *) rewrite Ei, nth_error_map. destruct (nth_error (links s) i) as [c|] eqn:En; cbn [option_map fst snd];
      (split; [reflexivity|]; split; [exact HI'|]; split; [|rewrite Hcid; cbn [m_ids]; congruence]); rewrite Htrk; cbn [m_trk]; congruence.
    + (* ONak *) rewrite (nak_step m s seq now HJ). cbn [fst snd].
      split; [reflexivity|]. split; [exact HI'|]. split; [rewrite Htrk; exact Et|rewrite Hcid; exact Ei].
    + (* ORemoveConn *) rewrite Ei, nth_error_map. destruct (nth_error (links s) i) as [c|] eqn:En; cbn [option_map fst snd];
      (split; [reflexivity|]; split; [exact HI'|]; split; [|rewrite Hcid; cbn [m_ids]; congruence]); rewrite Htrk; cbn [m_trk]; congruence.
Qed.

(** Prop-level corollaries *)
Theorem at_most_one_charge s seq now : SInv2 s ->
  exists l', links (step s (ONak seq now)) = l' /\
  (l' = links s \/
   exists k c, nth_error (links s) k = Some c /\ log_mem seq (log c) = true /\
               l' = upd k (fun x => fst (handle_nak x seq now)) (links s)).
Proof.
  intros HI. eexists; split; [reflexivity|]. cbn [step links]. unfold attribute_nak.
  assert (Hfh : fst (first_hit (fun x => handle_nak x seq now) None 0 (links s)) = links s \/
                exists k c, nth_error (links s) k = Some c /\ log_mem seq (log c) = true /\
                  fst (first_hit (fun x => handle_nak x seq now) None 0 (links s)) =
                  upd k (fun x => fst (handle_nak x seq now)) (links s)).
  { destruct (first_hit (fun x => handle_nak x seq now) None 0 (links s)) as [l' r] eqn:Ef.
    pose proof (first_hit_upd _ _ _ _ _ _ Ef) as Hh. cbn [fst]. destruct r as [j|].
    - destruct Hh as (k & c0 & -> & Hn & Hs & Hk & ->). rewrite nak_found in Hs. right. exists k, c0. auto.
    - destruct Hh as [-> _]. left; reflexivity. }
  destruct (trk_get (trk s) seq now) as [id|]; [|exact Hfh].
  destruct (find_pos id (links s) 0) as [pos|]; [|exact Hfh].
  destruct (nth_error (links s) pos) as [c|] eqn:En; [|left; reflexivity].
  pose proof (nak_found c seq now) as Hfound.
  destruct (handle_nak c seq now) as [c' found]. cbn [snd] in Hfound. subst found.
  destruct (log_mem seq (log c)) eqn:Em; cbn [fst]; [|left; reflexivity].
  right. exists pos, c. auto.
Qed.

Theorem remembered_owner_exclusive s seq now id pos c :
  trk_get (trk s) seq now = Some id -> find_pos id (links s) 0 = Some pos -> nth_error (links s) pos = Some c ->
  links (step s (ONak seq now)) =
    if log_mem seq (log c) then upd pos (fun x => fst (handle_nak x seq now)) (links s) else links s.
Proof.
  intros Eg Ep En. cbn [step links]. unfold attribute_nak. rewrite Eg, Ep, En.
  pose proof (nak_found c seq now) as Hfound.
  destruct (handle_nak c seq now) as [c' found]. cbn [snd] in Hfound. subst found.
  destruct (log_mem seq (log c)); reflexivity.
Qed.

Theorem tracker_displacement t seq id now seq2 id2 now2 :
  slot seq2 = slot seq -> seq2 <> seq -> trk_get (trk_insert (trk_insert t seq id now) seq2 id2 now2) seq now2 = None.
Proof.
  intros Hs Hne. unfold trk_get, trk_insert. cbn [trk_find]. rewrite Hs, Z.eqb_refl.
  replace (seq2 =? seq) with false by lia. rewrite andb_false_r. reflexivity.
Qed.
