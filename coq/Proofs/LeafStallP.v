(** LeafStallP.v — the stall latch / silence pull functions of connection/mod.rs as regenerated from the Rust
    source on every run (coq/Gen/LeafStall.v) = the hand-written model functions the property theorems are
    about: Model/Select.v (C03, C11: bit-exact f64) and Model/Stall.v (C04, C12, C13: the smoothed RTT enters
    as the two observed inputs [x_rttpos], [x_rttms]).  See DESIGN.md §12.8.
    The generated definitions of this group have a canonical signature (self fields read in struct declaration
    order, then getter inputs, then the Rust parameters; outputs in the same order), so the positional
    applications below do not depend on the order in which the Rust body happens to touch its fields. *)
From Coq Require Import Floats.
From Srtla Require Import Base Constants FConstants LeafStall LeafTac.
From Srtla Require Select Stall.
From Coq Require Import ZifyBool.
Local Open Scope Z_scope.

(** ---- connection/mod.rs  <->  Model/Select.v (C03 C11); [l_srtt] = rtt.kalman_rtt.value() ---- *)
Lemma leaf_get_smooth_rtt_ms_select_ok c :
  Select.smooth_rtt c = leaf_get_smooth_rtt_ms (Select.l_srtt c).
Proof. first [ solve [ reflexivity ] | leaf_auto2 ]. Qed.

Lemma leaf_effective_stall_stale_ms_select_ok c ceil :
  Select.eff_stale c ceil = leaf_effective_stall_stale_ms (Select.l_srtt c) ceil.
Proof. first [ solve [ reflexivity ] | leaf_auto2 ]. Qed.

Lemma leaf_is_stalled_select_ok c now mn ceil :
  Select.is_stalled c now mn ceil =
  leaf_is_stalled (Select.l_conn c) (Select.l_inflight c) (Select.l_proof c) (Select.l_srtt c) now mn ceil.
Proof. first [ solve [ reflexivity ] | leaf_auto2 ]. Qed.

Lemma leaf_stall_latched_select_ok c :
  Select.stall_latched c = leaf_stall_latched (Select.l_latched c).
Proof. first [ solve [ reflexivity ] | leaf_auto2 ]. Qed.

Lemma leaf_silence_pull_window_ms_select_ok c ceil :
  Select.pull_window c ceil = leaf_silence_pull_window_ms (Select.l_srtt c) ceil.
Proof. first [ solve [ reflexivity ] | leaf_auto2 ]. Qed.

Lemma leaf_is_briefly_silent_select_ok c now mn ceil :
  Select.is_briefly_silent c now mn ceil =
  leaf_is_briefly_silent (Select.l_conn c) (Select.l_inflight c) (Select.l_lastrx c) (Select.l_srtt c) now mn ceil.
Proof. first [ solve [ unfold Select.is_briefly_silent, leaf_is_briefly_silent; destruct (Select.l_lastrx c); reflexivity ] | leaf_auto2 ]. Qed.

(** the whole function: the model's result is the link with exactly the translated outputs written *)
Lemma leaf_update_silence_pull_select_ok c now mn ceil :
  Select.update_silence_pull c now mn ceil =
  let '(pulled, pulls) :=
    leaf_update_silence_pull (Select.l_conn c) (Select.l_inflight c) (Select.l_lastrx c) (Select.l_pulled c)
                             (Select.l_pulls c) (Select.l_srtt c) now mn ceil in
  Select.set_hid c (Select.Hd (Select.l_timeout c) (Select.l_gated c) pulled pulls (Select.l_latched c)
                              (Select.l_recov c) (Select.l_gevents c) (Select.l_qmult c) (Select.l_qlast c)).
Proof. leaf_auto2. Qed.

Lemma leaf_update_stall_latch_select_ok c now mn ceil :
  Select.update_stall_latch c now mn ceil =
  let '(latched, recov, events) :=
    leaf_update_stall_latch (Select.l_conn c) (Select.l_inflight c) (Select.l_proof c) (Select.l_latched c)
                            (Select.l_recov c) (Select.l_gevents c) (Select.l_pulled c) (Select.l_srtt c)
                            now mn ceil in
  Select.set_hid c (Select.Hd (Select.l_timeout c) (Select.l_gated c) (Select.l_pulled c) (Select.l_pulls c)
                              latched recov events (Select.l_qmult c) (Select.l_qlast c)).
Proof. leaf_auto2. Qed.

Lemma leaf_clear_stall_latch_select_ok c :
  Select.clear_stall_latch c =
  let '(latched, recov) := leaf_clear_stall_latch (Select.l_latched c) (Select.l_recov c) in
  Select.set_hid c (Select.Hd (Select.l_timeout c) (Select.l_gated c) (Select.l_pulled c) (Select.l_pulls c)
                              latched recov (Select.l_gevents c) (Select.l_qmult c) (Select.l_qlast c)).
Proof. first [ solve [ reflexivity ] | leaf_auto2 ]. Qed.

(** ---- connection/mod.rs  <->  Model/Stall.v (C04 C12 C13) ----
    Model/Stall.v does not carry the f64: the smoothed RTT enters a routing decision as the two observed
    inputs [x_rttpos] = !(get_smooth_rtt_ms() <= 0.0) and [x_rttms] = get_smooth_rtt_ms() as u64 (what the
    harness records).  [srtt_view x v] says that [x] carries these two views of the Kalman value [v]; every
    [v] has such an [x] ([srtt_view_inhabited]), and the lemmas below hold for every such pair. *)
Definition srtt_view (x : Stall.aux) (v : float) : Prop :=
  Stall.x_rttpos x = negb (leaf_get_smooth_rtt_ms v <=? 0)%float /\
  Stall.x_rttms x = Select.f64_as_u64 (leaf_get_smooth_rtt_ms v).

Lemma srtt_view_inhabited x v :
  srtt_view (Stall.mkX (Stall.x_queued x) (Stall.x_weak x) (Stall.x_lossdeg x) (Stall.x_cctarget x) (Stall.x_bitrate x)
                       (negb (leaf_get_smooth_rtt_ms v <=? 0)%float) (Select.f64_as_u64 (leaf_get_smooth_rtt_ms v))) v.
Proof. split; reflexivity. Qed.

Ltac leaf_view :=
  intros;
  repeat match goal with
         | H : srtt_view ?x _ |- _ => destruct H as [? ?]; destruct x; cbn [Stall.x_rttpos Stall.x_rttms] in *; subst
         end.

Lemma leaf_effective_stall_stale_ms_ok x v ceil :
  srtt_view x v -> Stall.eff_stale x ceil = leaf_effective_stall_stale_ms v ceil.
Proof. leaf_view; leaf_auto2. Qed.

Lemma leaf_is_stalled_ok a x v now mn ceil :
  srtt_view x v ->
  Stall.is_stalled a x now mn ceil =
  leaf_is_stalled (Stall.a_conn a) (Stall.a_inflight a) (Stall.a_proof a) v now mn ceil.
Proof. leaf_view; leaf_auto2. Qed.

Lemma leaf_update_stall_latch_ok a x v now mn ceil g :
  srtt_view x v ->
  Stall.latch_step a x now mn ceil g =
  let '(latched, recov, events) :=
    leaf_update_stall_latch (Stall.a_conn a) (Stall.a_inflight a) (Stall.a_proof a) (Stall.g_latched g)
                            (Stall.g_recovery g) (Stall.g_events g) (Stall.g_pulled g) v now mn ceil in
  Stall.mkG (Stall.g_gated g) latched recov events (Stall.g_probe g) (Stall.g_pulled g) (Stall.g_pulls g).
Proof. leaf_view; leaf_auto2. Qed.

Lemma leaf_stall_latched_ok l : Stall.latched l = leaf_stall_latched (Stall.g_latched (Stall.lg l)).
Proof. first [ solve [ reflexivity ] | leaf_auto2 ]. Qed.

(** guard off = [stall_gated = false; silence_pulled = false; clear_stall_latch()] (the two flag writes are
    statements of apply_stall_gate, not of a translated function) *)
Lemma leaf_clear_stall_latch_ok g :
  Stall.guard_off g =
  let '(latched, recov) := leaf_clear_stall_latch (Stall.g_latched g) (Stall.g_recovery g) in
  Stall.mkG false latched recov (Stall.g_events g) (Stall.g_probe g) false (Stall.g_pulls g).
Proof. first [ solve [ reflexivity ] | leaf_auto2 ]. Qed.

Lemma leaf_silence_pull_window_ms_ok x v ceil :
  srtt_view x v -> Stall.pull_window x ceil = leaf_silence_pull_window_ms v ceil.
Proof. leaf_view; leaf_auto2. Qed.

Lemma leaf_is_briefly_silent_ok a x v now mn ceil :
  srtt_view x v ->
  Stall.briefly_silent a x now mn ceil =
  leaf_is_briefly_silent (Stall.a_conn a) (Stall.a_inflight a) (Stall.a_lastrecv a) v now mn ceil.
Proof. leaf_view; leaf_auto2. Qed.

Lemma leaf_update_silence_pull_ok a x v now mn ceil g :
  srtt_view x v ->
  Stall.pull_step a x now mn ceil g =
  let '(pulled, pulls) :=
    leaf_update_silence_pull (Stall.a_conn a) (Stall.a_inflight a) (Stall.a_lastrecv a) (Stall.g_pulled g)
                             (Stall.g_pulls g) v now mn ceil in
  Stall.mkG (Stall.g_gated g) (Stall.g_latched g) (Stall.g_recovery g) (Stall.g_events g) (Stall.g_probe g) pulled pulls.
Proof. leaf_view; leaf_auto2. Qed.
