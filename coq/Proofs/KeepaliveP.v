(** KeepaliveP.v — lemmas about Model/Keepalive.v: the keepalive frame (through the proved
    Wire round trip), the effects of keepalive_packet, a case analysis of one housekeeping
    iteration, freshness of the last keepalive on a live link, and the link-side effects
    of an uplink datagram. *)
From Coq Require Import Floats ZifyBool.
From Srtla Require Import Base Constants FConstants Wire WireSpec WireP Rtt Keepalive RttP.
Local Open Scope Z_scope.
Ltac Zify.zify_post_hook ::= Z.div_mod_to_equations.

Definition i32_range (x : Z) : Prop := i32_min <= x <= i32_max.
Definition tele_ok (t : tele) : Prop :=
  i32_range (t_window t) /\ i32_range (t_inflight t) /\ i32_range (t_nak t).

Lemma tele0_ok : tele_ok tele0.
Proof. cbv. intuition congruence. Qed.

(** ---- the frame ---- *)
Lemma ka_info_ok l t : tele_ok t -> info_ok (ka_info l t).
Proof.
  intros (Hw & Hf & Hn). unfold ka_info, info_ok.
  pose proof (f_as_u32_range (kx (r_k (l_rtt l)))).
  pose proof (f_as_u32_range (t_bps t / F_EIGHT)%float).
  unfold i32_range in *. unfold of_i32, two32 in *. repeat split; try lia.
Qed.

Lemma keepalive_packet_frame l t now : tele_ok t -> 0 <= now < two64 ->
  let p := fst (keepalive_packet l t now) in
  blen p = 38 /\ firstn 10 p = create_keepalive_packet now /\
  extract_keepalive_timestamp p = Ok (Some now) /\
  extract_keepalive_conn_info p = Ok (Some (ka_info l t)).
Proof.
  intros Ht Hn. unfold keepalive_packet. cbn [fst].
  exact (ka_ext_roundtrip (ka_info l t) now (ka_info_ok l t Ht) Hn).
Qed.

Lemma keepalive_packet_type l t now :
  spec_type (fst (keepalive_packet l t now)) = Some SRTLA_TYPE_KEEPALIVE.
Proof.
  unfold keepalive_packet, ka_info, create_keepalive_packet_ext. cbn [fst].
  change (be_bytes 2 SRTLA_TYPE_KEEPALIVE) with [144; 0]. reflexivity.
Qed.

(** ---- keepalive_packet: state effects ---- *)
Lemma keepalive_packet_state l t now :
  let l' := snd (keepalive_packet l t now) in
  l_last_ka l' = Some now /\ rtt_core (l_rtt l') = rtt_core (l_rtt l) /\
  l_connected l' = l_connected l /\ l_id l' = l_id l /\ l_estab l' = l_estab l /\
  l_last_recv l' = l_last_recv l /\ l_timeout l' = l_timeout l /\
  (r_waiting (l_rtt l) = true -> l_rtt l' = l_rtt l) /\
  (r_waiting (l_rtt l') = true ->
     r_waiting (l_rtt l) = true \/ r_ka_sent_ms (l_rtt l') = now).
Proof.
  unfold keepalive_packet. cbn [snd l_last_ka l_rtt l_connected l_id l_estab l_last_recv l_timeout].
  split; [reflexivity|]. split; [destruct (negb _ && _); reflexivity|].
  do 5 (split; [reflexivity|]).
  split.
  - intros Hw. rewrite Hw. reflexivity.
  - destruct (r_waiting (l_rtt l)) eqn:Ew; [auto|]. cbn [negb andb].
    destruct (_ || _); cbn; intros; auto; congruence.
Qed.

(** ---- one housekeeping iteration, by cases ---- *)
Definition ka_frame_of (l : link) (t : tele) (now : Z) (f : frame) : Prop :=
  exists l0, l_id l0 = l_id l /\ r_k (l_rtt l0) = r_k (l_rtt l) /\
             f = FBytes (fst (keepalive_packet l0 t now)).

Lemma tick_link_cases l t rc now :
  let '(fs, l') := tick_link l t rc now in
  (is_timed_out l now = true /\ fs = [REG2_FRAME] /\
     (l_last_ka l' = l_last_ka l \/ l_last_ka l' = None) /\
     (l_rtt l' = rtt_default \/ rtt_core (l_rtt l') = rtt_core (l_rtt l)) /\
     l_connected l' = false)
  \/ (is_timed_out l now = true /\ fs = [] /\ l' = l)
  \/ (is_timed_out l now = false /\ fs = [] /\ l' = l /\ needs_keepalive l now = false)
  \/ (is_timed_out l now = false /\ l_connected l = true /\ fs <> [] /\
      Forall (ka_frame_of l t now) fs /\ l_last_ka l' = Some now /\
      rtt_core (l_rtt l') = rtt_core (l_rtt l) /\ l_connected l' = true).
Proof.
  unfold tick_link. destruct (is_timed_out l now) eqn:Eto.
  - destruct (should_attempt_reconnect l now).
    + left. split; [reflexivity|]. split; [reflexivity|].
      destruct rc; cbn [reconnect_ok mark_for_recovery record_attempt l_last_ka l_rtt l_connected];
        repeat split; auto.
    + right; left. auto.
  - destruct (needs_keepalive l now) eqn:Ek.
    + (* first keepalive sent *)
      assert (Hc : l_connected l = true).
      { unfold needs_keepalive in Ek. destruct (l_connected l); [reflexivity|discriminate]. }
      destruct (keepalive_packet l t now) as [p l1] eqn:E1.
      pose proof (keepalive_packet_state l t now) as S1. rewrite E1 in S1. cbn [snd] in S1.
      destruct S1 as (Hk1 & Hr1 & Hc1 & Hi1 & _).
      assert (F1 : ka_frame_of l t now (FBytes p)).
      { exists l. rewrite E1. auto. }
      destruct (needs_rtt_measurement l1 now).
      * destruct (keepalive_packet l1 t now) as [p2 l2] eqn:E2.
        pose proof (keepalive_packet_state l1 t now) as S2. rewrite E2 in S2. cbn [snd] in S2.
        destruct S2 as (Hk2 & Hr2 & Hc2 & Hi2 & _).
        right; right; right. repeat split; auto; try congruence.
        -- cbn. discriminate.
        -- cbn [app]. constructor; [exact F1|]. constructor; [|constructor].
           exists l1. rewrite E2. unfold rtt_core in Hr1. inversion Hr1. auto.
      * right; right; right. repeat split; auto; try congruence.
        -- cbn. discriminate.
        -- cbn [app]. constructor; [exact F1|constructor].
    + destruct (needs_rtt_measurement l now) eqn:Em.
      * assert (Hc : l_connected l = true).
        { unfold needs_rtt_measurement, needs_measurement in Em.
          destruct (l_estab l =? 0); [discriminate|]. destruct (l_connected l); [reflexivity|discriminate]. }
        destruct (keepalive_packet l t now) as [p l1] eqn:E1.
        pose proof (keepalive_packet_state l t now) as S1. rewrite E1 in S1. cbn [snd] in S1.
        destruct S1 as (Hk1 & Hr1 & Hc1 & Hi1 & _).
        right; right; right. repeat split; auto; try congruence.
        -- cbn. discriminate.
        -- cbn [app]. constructor; [|constructor]. exists l. rewrite E1. auto.
      * right; right; left. auto.
Qed.

(** "connected and not timed out" *)
Definition live (l : link) (now : Z) : bool := l_connected l && negb (silent_too_long l now).

Lemma live_not_timed_out l now : live l now = true -> is_timed_out l now = false /\ l_connected l = true.
Proof.
  unfold live, is_timed_out. destruct (l_connected l); cbn [andb negb]; [|discriminate].
  destruct (silent_too_long l now); [discriminate|auto].
Qed.

Lemma not_live_no_ka l t rc now : live l now = false ->
  let '(fs, l') := tick_link l t rc now in
  (fs = [] \/ fs = [REG2_FRAME]) /\ (l_last_ka l' = l_last_ka l \/ l_last_ka l' = None).
Proof.
  intros Hl. pose proof (tick_link_cases l t rc now) as H.
  destruct (tick_link l t rc now) as [fs l'].
  destruct H as [(_ & -> & H & _)|[(_ & -> & ->)|[(_ & -> & -> & _)|(Hto & Hc & _)]]]; auto.
  exfalso. unfold live in Hl. unfold is_timed_out in Hto. rewrite Hc in *. cbn [negb andb] in *.
  rewrite Hto in Hl. discriminate.
Qed.

(** C14 cadence, state level: after a tick on a live link the last keepalive on it is
    younger than IDLE_TIME, and it is this tick's iff a frame went out. *)
Lemma keepalive_fresh l t rc now : live l now = true ->
  let '(fs, l') := tick_link l t rc now in
  exists k, l_last_ka l' = Some k /\ now - k < IDLE_MS /\
            ((fs <> [] /\ k = now /\ Forall (ka_frame_of l t now) fs) \/
             (fs = [] /\ l' = l)).
Proof.
  intros Hl. destruct (live_not_timed_out l now Hl) as [Hto Hc].
  pose proof (tick_link_cases l t rc now) as H.
  destruct (tick_link l t rc now) as [fs l'].
  destruct H as [(H & _)|[(H & _)|[(_ & -> & -> & Hk)|(_ & _ & Hne & Hf & Hka & _)]]];
    try congruence.
  - unfold needs_keepalive in Hk. rewrite Hc in Hk. cbn [negb] in Hk.
    destruct (l_last_ka l) as [k|] eqn:Ek; [|discriminate].
    exists k. unfold ssub in Hk. repeat split; auto. lia.
  - exists now. assert (0 < IDLE_MS) by (cbv; reflexivity). repeat split; auto. lia.
Qed.

(** ---- uplink datagram: link-side effects ---- *)
Lemma pkt_link_last_ka l b now : l_last_ka (pkt_link l b now) = l_last_ka l.
Proof.
  unfold pkt_link. destruct (ptype b) as [pt|]; [|reflexivity].
  destruct (_ || _); [reflexivity|]. destruct (pt =? SRTLA_TYPE_REG3); [reflexivity|].
  destruct (pt =? SRTLA_TYPE_REG_ERR); [reflexivity|].
  destruct (pt =? SRTLA_TYPE_KEEPALIVE); [|reflexivity].
  destruct (handle_keepalive_response (l_rtt l) b now) as [r [s|]]; reflexivity.
Qed.

(** the estimator moves only through handle_keepalive_response on a keepalive-typed
    datagram, i.e. only in the sample case of [hkr_cases] *)
Lemma pkt_link_sample l b now :
  rtt_core (l_rtt (pkt_link l b now)) <> rtt_core (l_rtt l) ->
  r_waiting (l_rtt l) = true /\
  exists ts, ka_ts b = Some ts /\ 0 < now - ts <= KA_RTT_CAP_MS /\
             ptype b = Some SRTLA_TYPE_KEEPALIVE /\
             l_proof (pkt_link l b now) = now /\ l_last_recv (pkt_link l b now) = Some now /\
             l_rtt (pkt_link l b now) = set_waiting (update_estimate (l_rtt l) (ssub now ts) now) false.
Proof.
  unfold pkt_link. destruct (ptype b) as [pt|]; [|congruence].
  destruct (_ || _); [congruence|]. destruct (pt =? SRTLA_TYPE_REG3); [cbn; congruence|].
  destruct (pt =? SRTLA_TYPE_REG_ERR); [cbn; congruence|].
  destruct (pt =? SRTLA_TYPE_KEEPALIVE) eqn:Et; [|cbn; congruence].
  pose proof (hkr_cases (l_rtt l) b now) as H.
  destruct (handle_keepalive_response (l_rtt l) b now) as [r s].
  destruct H as [(-> & Hc & _)|(ts & -> & Hw & Hts & Hr & ->)].
  - cbn [set_recv_rtt_proof l_rtt]. congruence.
  - cbn [set_recv_rtt_proof l_rtt l_proof l_last_recv]. intros _. split; [exact Hw|].
    exists ts. repeat split; auto; try lia. f_equal. lia.
Qed.

(** a tick or a recovery mark never takes a sample *)
Lemma mark_core l : rtt_core (l_rtt (mark_for_recovery l)) = rtt_core (l_rtt l).
Proof. reflexivity. Qed.
