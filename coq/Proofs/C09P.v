(** C09P.v — the model's own traces satisfy the C09 monitor, for every history. *)
From Srtla Require Import Base Constants Wire WireSpec WireP Conn Run_Core ConnP CoreRunP Uplink UplinkP Run_C09.
From Coq Require Import ZifyBool.
Ltac Zify.zify_post_hook ::= Z.div_mod_to_equations.

(** ---------- observation bridges ---------- *)
Lemma wd_eqb_refl w : wd_eqb w w = true.
Proof. destruct w; cbn; rewrite ?zlist_eqb_refl, ?Z.eqb_refl; reflexivity. Qed.

Lemma list_eqb_refl {A} (e : A -> A -> bool) (l : list A) : (forall x, e x x = true) -> list_eqb e l l = true.
Proof. intros H. induction l; cbn; [reflexivity|]. rewrite H, IHl. reflexivity. Qed.

Lemma uobs_eqb_refl o : uobs_eqb o o = true.
Proof.
  unfold uobs_eqb. rewrite obs_eqb_refl, (list_eqb_refl zlist_eqb), (list_eqb_refl wd_eqb), Bool.eqb_reflx;
    auto using zlist_eqb_refl, wd_eqb_refl.
Qed.

Lemma is_internal_int t : is_internal t = is_int t. Proof. reflexivity. Qed.
Lemma is_registration_reg t : is_registration t = is_reg t. Proof. reflexivity. Qed.

Lemma pos_of_find_pos id : forall l i, pos_of id (map cid l) i = find_pos id l i.
Proof.
  induction l as [|c l IH]; intros i; cbn; [reflexivity|].
  destruct (cid c =? id); [reflexivity|apply IH].
Qed.

Lemma mem_z_insert x y l : mem_z x (insert_sorted y l) = (x =? y) || mem_z x l.
Proof.
  induction l as [|z l IH]; cbn; [reflexivity|].
  destruct (y <=? z); cbn; [reflexivity|]. unfold mem_z in IH. rewrite IH.
  destruct (x =? z); destruct (x =? y); reflexivity.
Qed.
Lemma mem_z_sort x l : mem_z x (sort_z l) = mem_z x l.
Proof.
  induction l as [|y l IH]; [reflexivity|]. unfold sort_z in *. cbn [fold_right].
  rewrite mem_z_insert, IH. reflexivity.
Qed.
Lemma mem_z_keys x c : mem_z x (o_keys (obs_link c)) = log_mem x (log c).
Proof.
  unfold o_keys, obs_link. cbn [snd]. rewrite mem_z_sort. unfold mem_z, log_mem.
  induction (log c) as [|[k v] l IH]; cbn; [reflexivity|]. rewrite IH, (Z.eqb_sym x k). reflexivity.
Qed.

Lemma o_proof_obs c : o_proof (obs_link c) = proof c. Proof. reflexivity. Qed.
Lemma o_lastrecv_obs c : o_lastrecv (obs_link c) = zo (last_recv c). Proof. reflexivity. Qed.
Lemma o_waiting_obs x : o_waiting (obs_x x) = waiting x.
Proof. unfold o_waiting, obs_x. cbn. destruct (waiting x); reflexivity. Qed.

Lemma nth_map_some {A B} (f : A -> B) d : forall l i x, nth_error l i = Some x -> nth i (map f l) d = f x.
Proof.
  induction l as [|y l IH]; intros [|i] x H; cbn in *; try discriminate.
  - inversion H; reflexivity.
  - auto.
Qed.

Lemma forall_idx_map {A B} (R : nat -> A -> A -> Prop) (g : A -> B) (f : nat -> B -> B -> bool) i l l' :
  Forall2i R i l l' -> (forall j a b, R j a b -> f j (g a) (g b) = true) ->
  forall_idx f i (map g l) (map g l') = true.
Proof. intros H HR. induction H; cbn; [reflexivity|]. rewrite (HR _ _ _ H), IHForall2i. reflexivity. Qed.

Lemma first_clause_ok l : Forall (fun p : N * bool => snd p = true) l -> first_clause l = 0%N.
Proof. induction 1 as [|[n b] l H _ IH]; cbn in *; [reflexivity|]. subst b. exact IH. Qed.

(** ---------- one uplink datagram satisfies every clause ---------- *)
Lemma proof_rel_ok s id w now j c c' :
  proof_rel s id w now j c c' ->
  proof_ok (bytes_of w) now (find_pos id (links (core s)) 0) (map obs_x (xs s)) j (obs_link c) (obs_link c') = true.
Proof.
  unfold proof_rel, proof_ok. cbv zeta. rewrite !o_proof_obs.
  intros [H|(Hn & [(Ht & a & Ha & Hm1 & Hm2)|(Ht & Hf & (x & Hx & Hw) & Hka)])].
  - rewrite H, Z.eqb_refl. reflexivity.
  - rewrite Hn, Z.eqb_refl, Ht. cbn [ozeqb opt_eqb]. rewrite Z.eqb_refl. cbn [andb].
    replace (earned _ _ _) with true; [apply orb_true_r|]. symmetry.
    unfold earned. apply existsb_exists. exists a. split; [exact Ha|].
    rewrite !mem_z_keys, Hm1, Hm2. reflexivity.
  - rewrite Hn, Z.eqb_refl, Ht, Hf. cbn [ozeqb opt_eqb andb].
    assert (Hts : 10 <= blen (bytes_of w)).
    { unfold ka_accepts in Hka. destruct (ka_ts (bytes_of w)) eqn:E; [|discriminate]. apply ka_ts_some in E. tauto. }
    replace (10 <=? blen (bytes_of w)) with true by lia.
    rewrite Nat.eqb_refl, (nth_map_some obs_x [] _ _ _ Hx), o_waiting_obs, Hw.
    rewrite Z.eqb_refl. cbn. destruct (_ =? _); cbn; try reflexivity; apply orb_true_r.
Qed.

Lemma forallb_eq_w w l : Forall (fun y => y = w) l -> forallb (wd_eqb w) l = true.
Proof. induction 1 as [|y l -> _ IH]; cbn; [reflexivity|]. rewrite wd_eqb_refl. exact IH. Qed.

Theorem mon_uplink_model ids s id w now cl : SInv ids s ->
  let r := handle_uplink s id w now cl in
  mon_uplink ids (client s) id w now (obs_u s [] false) (obs_u (fst (fst r)) (snd (fst r)) (snd r)) = 0%N.
Proof.
  intros HI. cbv zeta. unfold mon_uplink. cbv zeta.
  destruct HI as (Hids & Hlen & Hw).
  assert (Hpos : pos_of id ids 0 = find_pos id (links (core s)) 0) by (rewrite <- Hids; apply pos_of_find_pos).
  rewrite Hpos.
  destruct (uplink_preserves s id w now cl ids (conj Hids (conj Hlen Hw))) as (_ & _ & Hpanic).
  apply first_clause_ok.
  repeat (apply Forall_cons; [cbn [snd]|]); [| | | | | |constructor].
  - (* 1 total *) cbn [u_panic obs_u]. rewrite Hpanic. reflexivity.
  - (* 2 relay *)
    cbn [u_fwd obs_u]. destruct (spec_type (bytes_of w)) as [t|] eqn:Et; [|reflexivity].
    destruct (client s) eqn:Ek; [|reflexivity].
    destruct (find_pos id (links (core s)) 0) as [idx|] eqn:Ef; [|reflexivity].
    rewrite is_internal_int. destruct (is_int t) eqn:Ei; [reflexivity|]. cbn [andb negb].
    assert (Hx : (idx < length (xs s))%nat).
    { destruct (find_pos_link _ _ _ Ef) as (c & Hc & _). rewrite Hlen. apply nth_error_Some. congruence. }
    destruct (uplink_relay s id w now cl idx t Ek Ef Hx Et Ei) as [-> | ->]; cbn; rewrite wd_eqb_refl; reflexivity.
  - (* 3 internal never relayed *)
    cbn [u_fwd obs_u]. destruct (spec_type (bytes_of w)) as [t|] eqn:Et; [|reflexivity].
    rewrite is_internal_int. destruct (is_int t) eqn:Ei; [|reflexivity].
    rewrite (uplink_internal_never_relayed s id w now cl t Et Ei). reflexivity.
  - (* 4 unmodified *) cbn [u_fwd obs_u]. apply forallb_eq_w. apply uplink_only_the_datagram.
  - (* 5 liveness *)
    destruct (spec_type (bytes_of w)) as [t|] eqn:Et; [|reflexivity].
    destruct (find_pos id (links (core s)) 0) as [idx|] eqn:Ef; [|reflexivity].
    rewrite is_registration_reg. destruct (is_reg t) eqn:Er; [reflexivity|].
    assert (Hx : (idx < length (xs s))%nat).
    { destruct (find_pos_link _ _ _ Ef) as (c & Hc & _). rewrite Hlen. apply nth_error_Some. congruence. }
    destruct (uplink_liveness_stamp s id w now cl idx t Ef Hx Et Er) as (c' & Hn & Hl).
    cbn [u_links obs_u]. unfold obs_state. rewrite (nth_map_some obs_link _ _ _ _ Hn), o_lastrecv_obs, Hl.
    cbn [zo]. apply Z.eqb_refl.
  - (* 6 delivery proof only earned *)
    cbn [u_links u_xs obs_u]. unfold obs_state.
    eapply forall_idx_map; [apply (uplink_proof_only_earned s id w now cl)|].
    intros j a b Hr. apply proof_rel_ok. exact Hr.
Qed.

(** ---------- every op keeps the invariant; set-up ops deliver nothing ---------- *)
Lemma upd_cids (f : link -> link) : (forall c, cid (f c) = cid c) -> forall l i, map cid (upd i f l) = map cid l.
Proof. intros H. induction l as [|y l IH]; intros [|i]; cbn; try reflexivity; [rewrite H|rewrite IH]; reflexivity. Qed.
Lemma upd_winv (f : link -> link) : (forall c, WInv c -> WInv (f c)) -> forall l i, Forall WInv l -> Forall WInv (upd i f l).
Proof.
  intros H. induction l as [|y l IH]; intros [|i] F; cbn; try assumption; inversion F; subst; constructor; auto.
Qed.

Lemma on_link_inv ids i f s : (forall c, cid (f c) = cid c) -> (forall c, WInv c -> WInv (f c)) ->
  SInv ids s -> SInv ids (on_link i f s).
Proof.
  intros H1 H2 (Hids & Hlen & Hw). unfold SInv, on_link. cbn [core links xs].
  rewrite upd_cids, upd_length by exact H1. repeat split; auto. apply upd_winv; auto.
Qed.
Lemma on_x_inv ids i f s : SInv ids s -> SInv ids (on_x i f s).
Proof. intros (Hids & Hlen & Hw). unfold SInv, on_x. cbn [core links xs]. rewrite upd_length. auto. Qed.

Definition client_after (k : bool) (o : uop) : bool := match o with SClient b => b | _ => k end.

Theorem ustep_preserves ids s o : SInv ids s ->
  SInv ids (fst (fst (ustep s o))) /\ client (fst (fst (ustep s o))) = client_after (client s) o /\
  snd (ustep s o) = false.
Proof.
  intros HI. destruct o; cbn [ustep fst snd client_after];
    try (split; [|split; reflexivity]).
  - apply on_link_inv; auto.
  - destruct (nth_error _ _); cbn [fst snd]; (split; [|split; reflexivity]); exact HI.
  - apply on_link_inv; auto.
  - apply on_x_inv; auto.
  - apply on_x_inv; auto.
  - apply on_x_inv; auto.
  - apply on_link_inv; auto.
  - apply on_x_inv. apply on_link_inv; auto.
    intros c [_ Ho]. pose proof wconsts. unfold WInv, mark_for_recovery, reset_core. cbn [window ovf]. split; [lia|exact Ho].
  - exact HI.
  - destruct (uplink_preserves s id w now classic ids HI) as (H1 & H2 & H3). auto.
Qed.

Lemma ustep_setup_quiet s o : (match o with UUplink _ _ _ _ => False | _ => True end) -> snd (fst (ustep s o)) = [].
Proof. destruct o; cbn; intros H; try reflexivity; [destruct (nth_error _ _); reflexivity|contradiction]. Qed.

(** ---------- the whole trace ---------- *)
Lemma mon_step_model ids s o fwd0 p0 : SInv ids s ->
  mon_step ids (client s) o (obs_u s fwd0 p0)
           (obs_u (fst (fst (ustep s o))) (snd (fst (ustep s o))) (snd (ustep s o))) =
  (client (fst (fst (ustep s o))), 0%N).
Proof.
  intros HI. destruct (ustep_preserves ids s o HI) as (_ & Hk & _).
  destruct o; cbn [mon_step]; rewrite Hk; cbn [client_after]; try reflexivity.
  f_equal. cbn [ustep].
  pose proof (mon_uplink_model ids s id w now classic HI) as H. cbv zeta in H.
  (* the monitor reads only links and x-fields of the previous observation *)
  exact H.
Qed.

Lemma mon_run_model ids ops : forall s fwd0 p0 i, SInv ids s ->
  mon_run ids (client s) (obs_u s fwd0 p0) (model_steps s ops) i = (0, 0)%N.
Proof.
  induction ops as [|o ops IH]; intros s fwd0 p0 i HI; cbn [model_steps mon_run]; [reflexivity|].
  destruct (ustep s o) as [[s' fwd] p] eqn:Es.
  pose proof (mon_step_model ids s o fwd0 p0 HI) as Hm. rewrite Es in Hm. cbn [fst snd] in Hm.
  cbn [mon_run]. rewrite Hm. cbn [N.eqb].
  apply IH. pose proof (ustep_preserves ids s o HI) as (H1 & _). rewrite Es in H1. exact H1.
Qed.

Lemma corr_run_model ops : forall s i, corr_run s (model_steps s ops) i = 0%N.
Proof.
  induction ops as [|o ops IH]; intros s i; cbn [model_steps corr_run]; [reflexivity|].
  destruct (ustep s o) as [[s' fwd] p] eqn:Es. cbn [corr_run]. rewrite Es, uobs_eqb_refl. apply IH.
Qed.

Lemma uinit_inv ids : SInv ids (uinit ids).
Proof.
  unfold SInv, uinit, init. cbn [core links xs]. rewrite !map_length, map_map. cbn [link0 cid].
  split; [apply map_id|]. split; [reflexivity|].
  apply Forall_forall. intros c Hc. apply in_map_iff in Hc as (id & <- & _).
  pose proof wconsts. unfold WInv, link0. cbn. lia.
Qed.

Theorem model_trace_ok ids ops : ok_C09 (run ids ops) = true.
Proof.
  unfold ok_C09, run. cbn [h_ids h_init h_steps].
  change false with (client (uinit ids)) at 1.
  rewrite (mon_run_model ids ops (uinit ids) [] false 0%N (uinit_inv ids)). reflexivity.
Qed.

Theorem model_check_zero ids ops : check_hist (run ids ops) = 0%N.
Proof.
  unfold check_hist, run. cbn [h_ids h_init h_steps].
  rewrite uobs_eqb_refl, corr_run_model.
  change false with (client (uinit ids)) at 1.
  rewrite (mon_run_model ids ops (uinit ids) [] false 0%N (uinit_inv ids)). reflexivity.
Qed.

(** no step of any history panics (decoder bounds and window arithmetic) *)
Theorem model_never_panics ids ops : Forall (fun st => u_panic (snd st) = false) (h_steps (run ids ops)).
Proof.
  unfold run. cbn [h_steps]. generalize (uinit_inv ids). generalize (uinit ids).
  induction ops as [|o ops IH]; intros s HI; cbn [model_steps]; [constructor|].
  destruct (ustep s o) as [[s' fwd] p] eqn:Es.
  destruct (ustep_preserves ids s o HI) as (H1 & _ & H3). rewrite Es in H1, H3. cbn [fst snd] in *.
  constructor; [cbn; exact H3|apply IH; exact H1].
Qed.
