(** LeafTac.v — a syntax-insensitive closing tactic for the leaf equivalence lemmas (DESIGN §12.8):
    destruct record arguments, unfold everything down to integer/boolean primitives, split on every
    condition, close each branch by reflexivity / congruence / linear arithmetic.  Used as the fallback
    of each [leaf_*_ok] proof so that a meaning-preserving rewrite of the Rust body (operands swapped,
    condition negated with branches exchanged, a local renamed or inlined) does not break the lemma. *)
From Coq Require Import ZArith Bool Lia ZifyBool List.
From Srtla Require Import Base.
Local Open Scope Z_scope.

Ltac leaf_records :=
  repeat match goal with
         | x : ?T |- _ => lazymatch type of T with Prop => fail | _ => idtac end; destruct x; [idtac]
         end.

Ltac leaf_unfold :=
  cbv beta iota zeta delta -[Z.add Z.sub Z.mul Z.opp Z.leb Z.ltb Z.eqb Z.geb Z.gtb Z.max Z.min Z.div Z.modulo
                             Z.pow Z.shiftl Z.shiftr Z.land Z.lor negb andb orb Z.le Z.lt Z.ge Z.gt].

Ltac leaf_split :=
  repeat match goal with
         | |- context [match ?x with Some _ => _ | None => _ end] => destruct x eqn:?
         | |- context [if ?b then _ else _] => destruct b eqn:?
         end.

Ltac leaf_eq :=
  lazymatch goal with
  | |- (_, _) = (_, _) => f_equal; leaf_eq
  | |- Some _ = Some _ => f_equal; leaf_eq
  | |- _ /\ _ => split; leaf_eq
  | |- _ => first [ reflexivity | lia | congruence ]
  end.

Ltac leaf_close := first [ reflexivity | exfalso; lia | leaf_eq ].

Ltac leaf_norm := rewrite ?Z.shiftl_1_l, ?Z.shiftl_mul_pow2, ?Z.shiftr_div_pow2 by lia.

(* non-linear atoms (powers of two from shifts) with provably equal exponents are made syntactically equal *)
Ltac leaf_pows :=
  repeat match goal with
         | |- context [Z.pow 2 ?a] =>
             match goal with
             | |- context [Z.pow 2 ?b] => lazymatch a with b => fail | _ => replace b with a by lia end
             end
         end.

Ltac leaf_auto := cbv beta zeta; intros; leaf_records; leaf_unfold; leaf_norm; leaf_pows; leaf_split; leaf_close.

(** ---- second generation: conditions nested in conditions, f64 inputs, records on the model side ----
    (used by LeafStallP / LeafRecovP / LeafCfgP; the tactics above are unchanged) *)
From Coq Require Import Floats.
From Srtla Require Select.

(* f64 atoms stay folded: comparisons / casts of an f64 *input* are opaque booleans / integers shared by both
   sides; casts of *closed* f64 terms are computed by [leaf_compute] once the conditions are split. *)
(* [lazy], not [cbv]: a projection of a record update must not evaluate the fields it drops (call-by-value
   copies every conditional of the updated record into each of its fields, exponentially in the nesting). *)
Ltac leaf_unfold2 :=
  lazy beta iota zeta delta -[Z.add Z.sub Z.mul Z.opp Z.leb Z.ltb Z.eqb Z.geb Z.gtb Z.max Z.min Z.div Z.modulo
                             Z.quot Z.rem Z.pow Z.shiftl Z.shiftr Z.land Z.lor negb andb orb Z.le Z.lt Z.ge Z.gt
                             Select.f64_as_u64 Select.f64_as_i32 Select.f64_of_i32 Select.f64_of_u64
                             Select.f64_max Select.f64_min
                             PrimFloat.ltb PrimFloat.leb PrimFloat.eqb PrimFloat.add PrimFloat.sub
                             PrimFloat.mul PrimFloat.div PrimFloat.opp].

Ltac leaf_no_cond b :=
  lazymatch b with
  | context [if _ then _ else _] => fail
  | context [match _ with Some _ => _ | None => _ end] => fail
  | _ => idtac
  end.
Ltac leaf_under_negb b k :=
  lazymatch b with negb ?c => leaf_under_negb c k | true => fail | false => fail | _ => k b end.

Ltac leaf_is_pos p := lazymatch p with xH => idtac | xO ?q => leaf_is_pos q | xI ?q => leaf_is_pos q end.
Ltac leaf_is_Zlit z := lazymatch z with Z0 => idtac | Zpos ?p => leaf_is_pos p | Zneg ?p => leaf_is_pos p end.
(* closed integer subterms the arithmetic closer does not know (f64 round trips, truncating division);
   only closed ones: computing an open term is expensive and useless *)
Ltac leaf_closed t := match t with context [?x] => is_var x; fail 1 | _ => idtac end.
Ltac leaf_compute :=
  repeat match goal with
         | |- context [Select.f64_as_i32 ?t] =>
             leaf_closed t; let v := eval cbv in (Select.f64_as_i32 t) in leaf_is_Zlit v; change (Select.f64_as_i32 t) with v
         | |- context [Select.f64_as_u64 ?t] =>
             leaf_closed t; let v := eval cbv in (Select.f64_as_u64 t) in leaf_is_Zlit v; change (Select.f64_as_u64 t) with v
         | |- context [Z.quot ?a ?b] =>
             leaf_closed a; leaf_closed b; let v := eval cbv in (Z.quot a b) in leaf_is_Zlit v; change (Z.quot a b) with v
         end.

(* innermost conditions first (a condition that itself contains a conditional is split after that one),
   and [negb c] is split on [c], so that [if c then a else b] and [if negb c then b else a] share the case;
   closed f64 / truncating-division subterms are computed as soon as the split makes them closed, so that the
   conditions they occur in become the same term on both sides *)
Ltac leaf_split2 :=
  repeat (match goal with
          | |- context [match ?x with Some _ => _ | None => _ end] => leaf_no_cond x; destruct x eqn:?
          | |- context [if ?b then _ else _] => leaf_no_cond b; leaf_under_negb b ltac:(fun c => destruct c eqn:?)
          end; cbn [negb andb orb]; lazy beta iota; leaf_compute).

Ltac leaf_eq2 :=
  lazymatch goal with
  | |- @eq Z _ _ => first [ reflexivity | lia ]
  | |- @eq bool _ _ => first [ reflexivity | lia | congruence ]
  | |- _ /\ _ => split; leaf_eq2
  | |- ?f _ = ?g _ => first [ reflexivity | (f_equal; leaf_eq2) | congruence ]
  | |- _ => first [ reflexivity | lia | congruence ]
  end.
Ltac leaf_close2 := first [ reflexivity | exfalso; lia | exfalso; congruence | leaf_eq2 ].

Ltac leaf_hyps :=
  repeat match goal with
         | H : _ /\ _ |- _ => destruct H
         end;
  subst.

Ltac leaf_auto2 :=
  cbv beta zeta; intros; leaf_records; leaf_hyps; leaf_unfold2; cbn [negb andb orb]; leaf_norm; leaf_pows;
  leaf_split2; leaf_compute; leaf_close2.
