(** LeafTac.v — a syntax-insensitive closing tactic for the leaf equivalence lemmas (DESIGN §12.8):
    destruct record arguments, unfold everything down to integer/boolean primitives, split on every
    condition, close each branch by reflexivity / congruence / linear arithmetic.  Used as the fallback
    of each [leaf_*_ok] proof so that a meaning-preserving rewrite of the Rust body (operands swapped,
    condition negated with branches exchanged, a local renamed or inlined) does not break the lemma. *)
From Coq Require Import ZArith Bool Lia ZifyBool List.
From Srtla Require Import Base.
Local Open Scope Z_scope.

Ltac leaf_records :=
  repeat match goal with
         | x : ?T |- _ => lazymatch type of T with Prop => fail | _ => idtac end; destruct x; [idtac]
         end.

Ltac leaf_unfold :=
  cbv beta iota zeta delta -[Z.add Z.sub Z.mul Z.opp Z.leb Z.ltb Z.eqb Z.geb Z.gtb Z.max Z.min Z.div Z.modulo
                             Z.pow Z.shiftl Z.shiftr Z.land Z.lor negb andb orb Z.le Z.lt Z.ge Z.gt].

Ltac leaf_split :=
  repeat match goal with
         | |- context [match ?x with Some _ => _ | None => _ end] => destruct x eqn:?
         | |- context [if ?b then _ else _] => destruct b eqn:?
         end.

Ltac leaf_eq :=
  lazymatch goal with
  | |- (_, _) = (_, _) => f_equal; leaf_eq
  | |- Some _ = Some _ => f_equal; leaf_eq
  | |- _ /\ _ => split; leaf_eq
  | |- _ => first [ reflexivity | lia | congruence ]
  end.

Ltac leaf_close := first [ reflexivity | exfalso; lia | leaf_eq ].

Ltac leaf_norm := rewrite ?Z.shiftl_1_l, ?Z.shiftl_mul_pow2, ?Z.shiftr_div_pow2 by lia.

(* non-linear atoms (powers of two from shifts) with provably equal exponents are made syntactically equal *)
Ltac leaf_pows :=
  repeat match goal with
         | |- context [Z.pow 2 ?a] =>
             match goal with
             | |- context [Z.pow 2 ?b] => lazymatch a with b => fail | _ => replace b with a by lia end
             end
         end.

Ltac leaf_auto := cbv beta zeta; intros; leaf_records; leaf_unfold; leaf_norm; leaf_pows; leaf_split; leaf_close.
