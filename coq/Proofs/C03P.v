(** C03P.v — the model's own traces satisfy the C03 monitor, for every op list. *)
From Coq Require Import ZArith List Bool Lia Floats.
From Srtla Require Import Base Constants FConstants Select Run_Sel Run_C03 SelFloatP SelectP.
Import ListNotations.
Local Open Scope Z_scope.

(** the monitor accepts a model select from any well-formed state *)
Lemma mon_select_model s last now cfg exps :
  Forall wfl s -> forallb exp_okb exps = true ->
  mon_select s now cfg exps (fst (model_select s last now cfg exps)) = 0%N.
Proof.
  intros Hwf He. unfold mon_select, model_select.
  destruct (select s last now cfg exps) as (r, s') eqn:E. cbn [fst o_res].
  destruct (negb _); [reflexivity|].
  destruct (existsb (usable_spec now (c_timeout cfg)) s) eqn:U; [|reflexivity].
  destruct (select_no_blackout s last now cfg exps Hwf He U) as (i & Ei & Hi).
  rewrite E in Ei. cbn [fst] in Ei. subst r.
  apply Nat.ltb_lt in Hi. now rewrite Hi.
Qed.

Lemma run_from_ok : forall ops s i,
  Forall wfl s -> wf_opsb ops = true -> fst (mon_from s (run_from s ops) i) = 0%N.
Proof.
  induction ops as [|o r IH]; intros s i Hs Hw; [reflexivity|].
  cbn [wf_opsb forallb] in Hw. apply andb_true_iff in Hw. destruct Hw as (Ho & Hr).
  destruct o as [ls|k l|last now cfg exps]; cbn [run_from].
  - cbn [mon_from track N.eqb]. apply IH; [|exact Hr]. now apply forallb_wfl.
  - cbn [mon_from track N.eqb]. apply IH; [|exact Hr]. now apply upd_nth_wf.
  - cbn [wf_opb] in Ho.
    pose proof (mon_select_model s last now cfg exps Hs Ho) as M.
    pose proof (model_select_state s last now cfg exps Ho) as T.
    destruct (model_select s last now cfg exps) as (o, s'). cbn [fst] in M.
    destruct T as (T1 & T2).
    cbn [mon_from]. rewrite M. cbn [N.eqb track]. rewrite T1. apply IH; [now apply T2 | exact Hr].
Qed.

Theorem run_ok ops : wf_opsb ops = true -> ok_C03 (run ops) = true.
Proof.
  intros H. unfold ok_C03, run. rewrite (run_from_ok ops [] 0%N); [reflexivity | constructor | exact H].
Qed.

(** statement forms used by Props/C03.v *)
Lemma no_blackout_In ls last now cfg exps :
  Forall wfl ls -> forallb exp_okb exps = true ->
  (exists c, In c ls /\ usable_spec now (c_timeout cfg) c = true) ->
  exists i, fst (select ls last now cfg exps) = Some i /\ (i < length ls)%nat.
Proof.
  intros Hw He (c & Hin & Hu).
  apply select_no_blackout; auto. apply existsb_exists. now exists c.
Qed.

Lemma select_writes_only_hidden ls last now cfg exps :
  forallb exp_okb exps = true ->
  Forall2 (fun c c' => pv c' = pv c) ls (snd (select ls last now cfg exps)).
Proof.
  intros H. pose proof (select_rel ls last now cfg exps H) as R.
  induction R as [|a b l l' (P & _) R IH]; constructor; auto.
Qed.
