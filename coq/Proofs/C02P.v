(** C02P.v — in-flight = |log|, refinement of the packet log to the set
    specification, and the "exactly one link" structure of per-packet ACK / NAK. *)
From Srtla Require Import Base Constants Conn Run_Core ConnP CoreRunP Run_C02 SetP.
From Coq Require Import Sorting.Sorted ZifyBool.

Definition keys (c : link) : list Z := map fst (log c).
Definition kset (c : link) : sset := sort_z (keys c).

Definition Inv2 (c : link) : Prop :=
  NoDup (keys c) /\ in_flight c = blen (log c) /\ Forall (fun k => hwm c < k) (keys c).

Lemma o_keys_obs c : o_keys (obs_link c) = kset c. Proof. reflexivity. Qed.
Lemma o_inflight_obs c : o_inflight (obs_link c) = in_flight c. Proof. reflexivity. Qed.
Lemma o_nakcount_obs c : o_nakcount (obs_link c) = nak_count (cg c). Proof. reflexivity. Qed.

(** ---- association-list facts ---- *)
Lemma log_remove_keys k l : map fst (log_remove k l) = filter (fun x => negb (x =? k)) (map fst l).
Proof.
  induction l as [|[k' v] l IH]; cbn; [reflexivity|].
  destruct (k' =? k); cbn; [exact IH|]. rewrite IH. reflexivity.
Qed.
Lemma filter_fst_keys (f : Z -> bool) (l : list (Z * Z)) :
  map fst (filter (fun p => f (fst p)) l) = filter f (map fst l).
Proof. induction l as [|[k v] l IH]; cbn; [reflexivity|]. destruct (f k); cbn; rewrite IH; reflexivity. Qed.
Lemma log_mem_In k l : log_mem k l = true <-> In k (map fst l).
Proof.
  unfold log_mem. rewrite existsb_exists. split.
  - intros ([k' v] & Hin & E). cbn in E. apply Z.eqb_eq in E. subst. apply in_map_iff. exists (k, v). auto.
  - intros H. apply in_map_iff in H as ([k' v] & E & Hin). cbn in E. subst. exists (k, v). split; [exact Hin|cbn; apply Z.eqb_refl].
Qed.
Lemma blen_map {A B} (f : A -> B) l : blen (map f l) = blen l.
Proof. unfold blen. rewrite map_length. reflexivity. Qed.

Lemma kset_sorted c : NoDup (keys c) -> ssorted (kset c).
Proof. apply sort_z_sorted. Qed.
Lemma kset_In c x : In x (kset c) <-> In x (keys c).
Proof. apply sort_z_In. Qed.

Lemma insert_sorted_length x s : length (insert_sorted x s) = S (length s).
Proof. induction s as [|y s IH]; cbn; [reflexivity|]. destruct (x <=? y); cbn; [reflexivity|]. rewrite IH. reflexivity. Qed.
Lemma sort_z_length l : length (sort_z l) = length l.
Proof. induction l as [|x l IH]; cbn; [reflexivity|]. rewrite insert_sorted_length. fold (sort_z l). rewrite IH. reflexivity. Qed.
Lemma blen_kset c : blen (kset c) = blen (log c).
Proof. unfold blen, kset, keys. rewrite sort_z_length, map_length. reflexivity. Qed.

(** kset of a link whose log is a key-filter of another's *)
Lemma kset_filter c c' (f : Z -> bool) : NoDup (keys c) -> keys c' = filter f (keys c) ->
  NoDup (keys c') /\ kset c' = filter f (kset c).
Proof.
  intros Hn E. assert (Hn' : NoDup (keys c')) by (rewrite E; apply NoDup_filter; exact Hn).
  split; [exact Hn'|]. apply sorted_ext.
  - apply kset_sorted; exact Hn'.
  - apply filter_sorted, kset_sorted; exact Hn.
  - intros x. rewrite kset_In, E, !filter_In, kset_In. tauto.
Qed.

(** ---- effect of each primitive on (keys, in_flight, hwm) ---- *)
Lemma register_inv c seq t : i32_min < seq -> Inv2 c ->
  Inv2 (register_packet c seq t) /\ kset (register_packet c seq t) = s_add seq (kset c).
Proof.
  intros Hseq (Hn & Hi & Hh). unfold register_packet, Inv2, kset, keys. cbn [log in_flight hwm].
  unfold log_insert. cbn [map fst]. rewrite log_remove_keys.
  assert (Hn' : NoDup (seq :: filter (fun x => negb (x =? seq)) (map fst (log c)))).
  { constructor; [rewrite filter_In; intros [_ H]; rewrite Z.eqb_refl in H; discriminate|apply NoDup_filter; exact Hn]. }
  repeat split.
  - exact Hn'.
  - constructor.
    + destruct (seq <=? hwm c) eqn:E; unfold i32_min, two31 in *; lia.
    + rewrite Forall_forall in *. intros x Hx. apply filter_In in Hx as [Hx _]. specialize (Hh x Hx).
      destruct (seq <=? hwm c) eqn:E; [|exact Hh]. unfold keys in Hh. lia.
  - destruct (s_add_spec seq (sort_z (map fst (log c))) (sort_z_sorted _ Hn)) as [Hs Hm].
    cbn [log]. unfold log_insert. cbn [map fst]. rewrite ?log_remove_keys.
    apply sorted_ext; [apply sort_z_sorted; exact Hn'|exact Hs|].
    intros x. rewrite Hm, !sort_z_In. cbn [In]. rewrite filter_In.
    destruct (Z.eq_dec x seq); [subst; tauto|]. split; [intros [?|[? ?]]; [congruence|tauto]|intros [?|?]; [congruence|right; split; [assumption|lia]]].
Qed.

Lemma srt_ack_inv c a : Inv2 c ->
  Inv2 (handle_srt_ack c a) /\ kset (handle_srt_ack c a) = filter (fun s => a <? s) (kset c).
Proof.
  intros (Hn & Hi & Hh). unfold handle_srt_ack. destruct (a <=? hwm c) eqn:E.
  - (* stale / duplicate: nothing is at or below a *)
    split; [repeat split; assumption|].
    symmetry. apply sorted_ext; [apply filter_sorted, kset_sorted; exact Hn|apply kset_sorted; exact Hn|].
    intros x. rewrite filter_In, kset_In. split; [tauto|]. intros Hx. split; [exact Hx|].
    rewrite Forall_forall in Hh. specialize (Hh x Hx). lia.
  - pose (g := fun s : Z => a <? s).
    assert (Hk : keys {| cid := cid c; connected := connected c; window := window c;
                         in_flight := blen (filter (fun p => a <? fst p) (log c));
                         log := filter (fun p => a <? fst p) (log c); hwm := a; last_recv := last_recv c;
                         proof := proof c; cg := cg c; ovf := ovf c |} = filter g (keys c)).
    { unfold keys. cbn [log]. apply (filter_fst_keys g). }
    (* both removal strategies keep exactly the keys above a *)
    assert (Hsame : (if (Z.abs (a - hwm c) <=? ACK_FAST_PATH_RANGE) && negb (hwm c =? i32_min)
                     then filter (fun p => negb ((hwm c <? fst p) && (fst p <=? a))) (log c)
                     else filter (fun p => a <? fst p) (log c)) = filter (fun p => a <? fst p) (log c)).
    { destruct (_ && _); [|reflexivity]. apply filter_ext_in. intros [k v] Hin. cbn [fst].
      rewrite Forall_forall in Hh. specialize (Hh k (in_map fst _ _ Hin)). lia. }
    cbn zeta. rewrite Hsame.
    destruct (kset_filter c _ g Hn Hk) as [Hn' Hks].
    split; [|exact Hks]. split; [exact Hn'|split; [reflexivity|]].
    rewrite Hk. cbn [hwm]. rewrite Forall_forall. intros x Hx. apply filter_In in Hx as [_ Hx]. unfold g in Hx. lia.
Qed.

Definition remove_rel (seq : Z) (c c' : link) : Prop :=
  Inv2 c' /\ ((log_mem seq (log c) = false /\ c' = c) \/
              (log_mem seq (log c) = true /\ kset c' = s_del seq (kset c) /\ hwm c' = hwm c)).

Lemma remove_generic c c' seq : Inv2 c -> log c' = log_remove seq (log c) -> in_flight c' = blen (log c') ->
  hwm c' = hwm c -> Inv2 c' /\ kset c' = s_del seq (kset c).
Proof.
  intros (Hn & Hi & Hh) El Ei Ehw.
  assert (Hk : keys c' = filter (fun x => negb (x =? seq)) (keys c)) by (unfold keys; rewrite El; apply log_remove_keys).
  destruct (kset_filter c c' _ Hn Hk) as [Hn' Hks]. split; [|exact Hks].
  repeat split; [exact Hn'|exact Ei|]. rewrite Hk, Ehw. rewrite Forall_forall in *. intros x Hx.
  apply filter_In in Hx as [Hx _]. auto.
Qed.

Lemma specific_inv c seq cl now : Inv2 c -> remove_rel seq c (fst (handle_srtla_ack_specific c seq cl now)).
Proof.
  intros HI. unfold handle_srtla_ack_specific, remove_rel. destruct (log_mem seq (log c)) eqn:E; cbn zeta.
  - destruct (if cl then _ else _) as [[g w] o]. cbn [fst].
    match goal with |- Inv2 ?x /\ _ => destruct (remove_generic c x seq HI eq_refl eq_refl eq_refl) as [H1 H2] end.
    split; [exact H1|right; repeat split; [exact H2]].
  - cbn [fst]. split; [exact HI|left; split; reflexivity].
Qed.
Lemma nak_inv c seq now : Inv2 c -> remove_rel seq c (fst (handle_nak c seq now)).
Proof.
  intros HI. unfold handle_nak, remove_rel. destruct (log_mem seq (log c)) eqn:E; cbn zeta.
  - destruct (cong_nak (cg c) (window c) now) as [[g w] o] eqn:Ec. cbn [fst cg].
    match goal with |- Inv2 ?x /\ _ => destruct (remove_generic c x seq HI eq_refl eq_refl eq_refl) as [H1 H2] end.
    split; [exact H1|right; repeat split; [exact H2]].
  - cbn [fst]. split; [exact HI|left; split; reflexivity].
Qed.

Lemma global_keys c : log (handle_srtla_ack_global c) = log c /\ in_flight (handle_srtla_ack_global c) = in_flight c /\
  hwm (handle_srtla_ack_global c) = hwm c /\ cg (handle_srtla_ack_global c) = cg c.
Proof. unfold handle_srtla_ack_global. destruct (_ && _); cbn; auto. Qed.
Lemma global_inv c : Inv2 c -> Inv2 (handle_srtla_ack_global c) /\ kset (handle_srtla_ack_global c) = kset c.
Proof.
  intros (Hn & Hi & Hh). destruct (global_keys c) as (El & Ei & Eh & _).
  unfold Inv2, kset, keys. rewrite El, Ei, Eh. auto.
Qed.

(** ops that do not touch (log, in_flight, hwm) *)
Definition same_log (c c' : link) : Prop := log c' = log c /\ in_flight c' = in_flight c /\ hwm c' = hwm c.
Lemma same_log_inv c c' : same_log c c' -> Inv2 c -> Inv2 c' /\ kset c' = kset c.
Proof. intros (El & Ei & Eh) (Hn & Hi & Hh). unfold Inv2, kset, keys. rewrite El, Ei, Eh. auto. Qed.

Definition empty_log (c' : link) : Prop := log c' = [] /\ in_flight c' = 0 /\ True.
Lemma empty_inv c' : empty_log c' -> Inv2 c' /\ kset c' = [].
Proof. intros (El & Ei & _). unfold Inv2, kset, keys. rewrite El, Ei. cbn. repeat split; constructor. Qed.

(** ---------- state level ---------- *)
Definition SInv2 (s : state) : Prop := Forall Inv2 (links s).
Definition wf2 (o : op) : Prop := match o with ORegister _ seq _ => i32_min < seq | _ => True end.
Definition obsl (l : list link) : obs := map obs_link l.

Lemma forall_idx_F2i (f : nat -> lobs -> lobs -> bool) i l l' :
  Forall2i (fun k c c' => f k (obs_link c) (obs_link c') = true) i l l' ->
  forall_idx f i (obsl l) (obsl l') = true.
Proof. unfold obsl. induction 1; cbn [map forall_idx]; [reflexivity|]. rewrite H. exact IHForall2i. Qed.

Lemma others_same_rel i l l' :
  Forall2i (fun k c c' => k = i \/ kset c' = kset c) 0 l l' -> others_same i (obsl l) (obsl l') = true.
Proof.
  intros H. apply forall_idx_F2i. eapply Forall2i_impl; [|exact H]. cbn beta.
  intros k c c' [->|E]; [rewrite Nat.eqb_refl; reflexivity|].
  rewrite !o_keys_obs, E, zlist_eqb_refl'. apply orb_true_r.
Qed.

Lemma all_same_rel i l l' :
  Forall2i (fun _ c c' => kset c' = kset c) i l l' -> all_same (obsl l) (obsl l') = true.
Proof.
  unfold all_same, obsl. induction 1; cbn [map forall2b]; [reflexivity|].
  rewrite !o_keys_obs, H, zlist_eqb_refl'. exact IHForall2i.
Qed.

Lemma keys_at_nth l : forall i c, nth_error l i = Some c -> keys_at i (obsl l) = kset c.
Proof.
  induction l as [|x l IH]; intros [|i] c H; cbn in H; try discriminate.
  - inversion H; subst. reflexivity.
  - unfold keys_at in *. cbn. apply IH. exact H.
Qed.

Lemma nth_error_upd {A} (f : A -> A) l : forall i c, nth_error l i = Some c -> nth_error (upd i f l) i = Some (f c).
Proof.
  induction l as [|x l IH]; intros [|i] c H; cbn in *; try discriminate.
  - inversion H; reflexivity.
  - apply IH; exact H.
Qed.
Lemma length_upd {A} (f : A -> A) l : forall i, length (upd i f l) = length l.
Proof. induction l; intros [|i]; cbn; auto. Qed.
Lemma nth_error_lt {A} (l : list A) i : (i < length l)%nat -> exists c, nth_error l i = Some c.
Proof. intros H. destruct (nth_error l i) eqn:E; [eauto|]. apply nth_error_None in E. lia. Qed.
Lemma length_obsl l : length (obsl l) = length l. Proof. apply map_length. Qed.

Lemma Forall_upd (P : link -> Prop) f l i : (forall c, P c -> P (f c)) -> Forall P l -> Forall P (upd i f l).
Proof.
  intros Hf. revert i. induction l as [|x l IH]; intros i H; [destruct i; constructor|].
  inversion H; subst. destruct i; cbn; constructor; auto.
Qed.

Lemma upd_others i f l : (0 <= 0)%nat ->
  Forall2i (fun k c c' => k = i \/ kset c' = kset c) 0 l (upd i f l).
Proof.
  intros _. eapply Forall2i_impl; [|apply (upd_rel f l i 0)]. cbn.
  intros k c c' [[-> _]|[_ ->]]; [left|right]; reflexivity.
Qed.

(** an op that rewrites one link by [f] *)
Lemma single_target i f l :
  (forall c, Inv2 c -> Inv2 (f c)) -> Forall Inv2 l ->
  Forall Inv2 (upd i f l) /\ others_same i (obsl l) (obsl (upd i f l)) = true /\
  (forall c, nth_error l i = Some c ->
     keys_at i (obsl l) = kset c /\ keys_at i (obsl (upd i f l)) = kset (f c)).
Proof.
  intros Hf HI. split; [apply Forall_upd; assumption|]. split; [apply others_same_rel, upd_others; lia|].
  intros c Hn. split; [apply keys_at_nth; exact Hn|apply keys_at_nth, nth_error_upd; exact Hn].
Qed.

Lemma all_same_upd i f l : (forall c, kset (f c) = kset c) -> all_same (obsl l) (obsl (upd i f l)) = true.
Proof.
  intros Hf. apply (all_same_rel 0). eapply Forall2i_impl; [|apply (upd_rel f l i 0)]. cbn.
  intros k c c' [[_ ->]|[_ ->]]; [apply Hf|reflexivity].
Qed.

Lemma obsl_map_global l : Forall2i (fun _ c c' => kset c' = kset c) 0 l (map handle_srtla_ack_global l).
Proof.
  generalize 0%nat. induction l; intros j; cbn; constructor; [|apply IHl].
  unfold kset, keys. destruct (global_keys a) as (-> & _). reflexivity.
Qed.
Lemma Forall_global l : Forall Inv2 l -> Forall Inv2 (map handle_srtla_ack_global l).
Proof. induction 1; cbn; constructor; [apply global_inv; assumption|assumption]. Qed.

Lemma keys_at_global l i : keys_at i (obsl (map handle_srtla_ack_global l)) = keys_at i (obsl l).
Proof.
  unfold keys_at, obsl. revert i. induction l as [|x l IH]; intros [|i]; cbn [map nth]; try reflexivity.
  - rewrite !o_keys_obs. unfold kset, keys. destruct (global_keys x) as (-> & _). reflexivity.
  - apply IH.
Qed.
Lemma others_same_global i l l' : others_same i (obsl l) (obsl l') = true ->
  others_same i (obsl l) (obsl (map handle_srtla_ack_global l')) = true.
Proof.
  unfold others_same, obsl. generalize 0%nat. revert l'. induction l as [|x l IH]; intros [|y l'] j; cbn [map forall_idx]; auto.
  intros H. apply andb_true_iff in H as [H1 H2]. rewrite (IH l' (S j) H2), andb_true_r.
  rewrite !o_keys_obs in *. unfold kset, keys in *. destruct (global_keys y) as (-> & _). exact H1.
Qed.
Lemma all_same_global l l' : all_same (obsl l) (obsl l') = true ->
  all_same (obsl l) (obsl (map handle_srtla_ack_global l')) = true.
Proof.
  unfold all_same, obsl. revert l'. induction l as [|x l IH]; intros [|y l']; cbn [map forall2b]; auto.
  intros H. apply andb_true_iff in H as [H1 H2]. rewrite (IH l' H2), andb_true_r.
  rewrite !o_keys_obs in *. unfold kset, keys in *. destruct (global_keys y) as (-> & _). exact H1.
Qed.

Lemma s_mem_kset seq c : s_mem seq (kset c) = log_mem seq (log c).
Proof.
  destruct (log_mem seq (log c)) eqn:E.
  - apply s_mem_In, kset_In, log_mem_In. exact E.
  - destruct (s_mem seq (kset c)) eqn:E2; [|reflexivity].
    apply s_mem_In, kset_In, log_mem_In in E2. congruence.
Qed.

Lemma no_other_holder seq idx l :
  (forall k c, nth_error l k = Some c -> Some idx <> Some k -> log_mem seq (log c) = false) ->
  any_other_holder seq idx (obsl l) = false.
Proof.
  unfold any_other_holder. intros H.
  assert (G : forall j, (forall k c, nth_error l k = Some c -> Some idx <> Some (j + k)%nat -> log_mem seq (log c) = false) ->
              other_holder_from seq idx j (obsl l) = false).
  { clear H. unfold obsl. induction l as [|x l IH]; intros j H; cbn [map other_holder_from]; [reflexivity|].
    rewrite IH; [|intros k c Hn Hk; apply (H (S k) c Hn); intros E; apply Hk; rewrite E; f_equal; lia].
    rewrite orb_false_r. destruct (Nat.eqb j idx) eqn:E; [reflexivity|]. cbn [negb andb].
    rewrite o_keys_obs, s_mem_kset. apply (H 0%nat x eq_refl). intros E'. inversion E'; subst.
    rewrite Nat.add_0_r, Nat.eqb_refl in E. discriminate. }
  apply (G 0%nat). exact H.
Qed.

Lemma existsb_seq_witness (f : nat -> bool) n j : (j < n)%nat -> f j = true -> existsb f (List.seq 0 n) = true.
Proof. intros H1 H2. apply existsb_exists. exists j. split; [apply in_seq; lia|exact H2]. Qed.

(** retire [seq] on exactly the link at index k *)
Lemma retire_at (f : link -> link) seq l k c :
  Forall Inv2 l -> nth_error l k = Some c -> log_mem seq (log c) = true ->
  (forall x, Inv2 x -> remove_rel seq x (f x)) ->
  Forall Inv2 (upd k f l) /\
  s_mem seq (keys_at k (obsl l)) && others_same k (obsl l) (obsl (upd k f l)) &&
  zlist_eqb (keys_at k (obsl (upd k f l))) (s_del seq (keys_at k (obsl l))) = true.
Proof.
  intros HI Hn Hm Hf.
  destruct (single_target k f l (fun x Hx => proj1 (Hf x Hx)) HI) as (H1 & H2 & H3).
  split; [exact H1|]. destruct (H3 c Hn) as [E1 E2]. rewrite E1, E2, H2, s_mem_kset, Hm. cbn [andb].
  assert (Hc : Inv2 c) by (rewrite Forall_forall in HI; apply HI; eapply nth_error_In; exact Hn).
  destruct (Hf c Hc) as [_ [[E _]|(_ & E & _)]]; [congruence|]. rewrite E. apply zlist_eqb_refl'.
Qed.

Theorem step_c02 s o : wf2 o -> SInv2 s ->
  SInv2 (step s o) /\ allowed o (obs_state s) (obs_state (step s o)) = true.
Proof.
  intros Hwf HI. unfold SInv2, obs_state in *. fold (obsl (links s)). fold (obsl (links (step s o))).
  assert (Hsame : forall i f, (forall c, Inv2 c -> Inv2 (f c)) -> (forall c, kset (f c) = kset c) ->
            Forall Inv2 (upd i f (links s)) /\ all_same (obsl (links s)) (obsl (upd i f (links s))) = true).
  { intros i f H1 H2. split; [apply Forall_upd; assumption|apply all_same_upd; exact H2]. }
  assert (Hsl : forall f, (forall c, same_log c (f c)) ->
            (forall c, Inv2 c -> Inv2 (f c)) /\ (forall c, kset (f c) = kset c)).
  { intros f H. split; intros c; [intros Hc; apply (same_log_inv c (f c) (H c) Hc)|].
    destruct (H c) as (El & _). unfold kset, keys. rewrite El. reflexivity. }
  assert (Hid : all_same (obsl (links s)) (obsl (links s)) = true).
  { apply (all_same_rel 0). apply Forall2i_refl. reflexivity. }
  assert (Hempty : forall i f, (forall c, empty_log (f c)) ->
            Forall Inv2 (upd i f (links s)) /\
            others_same i (obsl (links s)) (obsl (upd i f (links s))) &&
            (if (i <? length (obsl (links s)))%nat then zlist_eqb (keys_at i (obsl (upd i f (links s)))) [] else true) = true).
  { intros i f H.
    destruct (single_target i f (links s) (fun c _ => proj1 (empty_inv _ (H c))) HI) as (H1 & H2 & H3).
    split; [exact H1|]. rewrite H2. cbn [andb]. destruct (i <? _)%nat eqn:E; [|reflexivity].
    apply Nat.ltb_lt in E. rewrite length_obsl in E. destruct (nth_error_lt _ _ E) as [c Hc].
    destruct (H3 c Hc) as [_ ->]. rewrite (proj2 (empty_inv _ (H c))). reflexivity. }
  destruct o; cbn [step allowed links on].
  - (* ORegister *)
    destruct (single_target i (fun c => register_packet c seq t) (links s)
                (fun c Hc => proj1 (register_inv c seq t Hwf Hc)) HI) as (H1 & H2 & H3).
    split; [exact H1|]. rewrite H2. cbn [andb]. destruct (i <? _)%nat eqn:E; [|reflexivity].
    apply Nat.ltb_lt in E. rewrite length_obsl in E. destruct (nth_error_lt _ _ E) as [c Hc].
    destruct (H3 c Hc) as [-> ->].
    assert (Hci : Inv2 c) by (rewrite Forall_forall in HI; apply HI; eapply nth_error_In; exact Hc).
    rewrite (proj2 (register_inv c seq t Hwf Hci)). apply zlist_eqb_refl'.
  - (* OTrack *) destruct (nth_error _ _); cbn [links]; split; assumption.
  - (* OSrtAck *)
    split.
    + clear -HI. induction HI; cbn; constructor; [apply srt_ack_inv; assumption|assumption].
    + clear -HI. unfold obsl. induction HI as [|c l Hc Hl IH]; cbn [map forall2b]; [reflexivity|].
      rewrite !o_keys_obs, (proj2 (srt_ack_inv c a Hc)), zlist_eqb_refl'. exact IH.
  - (* OSrtlaAck *)
    unfold srtla_ack_event. rewrite length_obsl.
    destruct (nth_error (links s) idx) as [c|] eqn:En.
    2:{ apply nth_error_None in En. replace (idx <? length (links s))%nat with false by (symmetry; apply Nat.ltb_ge; exact En).
        split; assumption. }
    replace (idx <? length (links s))%nat with true
      by (symmetry; apply Nat.ltb_lt; apply nth_error_Some; congruence).
    assert (Hci : Inv2 c) by (rewrite Forall_forall in HI; apply HI; eapply nth_error_In; exact En).
    rewrite (keys_at_nth _ _ _ En), s_mem_kset.
    pose proof (specific_found c seq classic now) as Hfound.
    destruct (handle_srtla_ack_specific c seq classic now) as [c' found] eqn:Es. cbn [snd] in Hfound. subst found.
    set (f := fun x => fst (handle_srtla_ack_specific x seq classic now)).
    destruct (log_mem seq (log c)) eqn:Em.
    + (* the arrival link holds the packet *)
      destruct (retire_at f seq (links s) idx c HI En Em (fun x Hx => specific_inv x seq classic now Hx)) as [H1 H2].
      split; [apply Forall_global; exact H1|].
      apply andb_true_iff in H2 as [H2 H4]. apply andb_true_iff in H2 as [_ H3].
      rewrite (others_same_global _ _ _ H3). cbn [andb].
      rewrite keys_at_global. rewrite (keys_at_nth _ _ _ En) in H4. exact H4.
    + (* otherwise: one other holder, if any *)
      destruct (first_hit (fun x => handle_srtla_ack_specific x seq classic now) (Some idx) 0 (links s)) as [l' r] eqn:Ef.
      pose proof (first_hit_upd _ _ _ _ _ _ Ef) as Hh. cbn [fst]. destruct r as [j|].
      * destruct Hh as (k & c0 & -> & Hn & Hs & Hk & ->). cbn [Nat.add] in *. cbn beta. fold f.
        rewrite specific_found in Hs.
        destruct (retire_at f seq (links s) k c0 HI Hn Hs (fun x Hx => specific_inv x seq classic now Hx)) as [H1 H2].
        split; [apply Forall_global; exact H1|]. apply orb_true_iff. right.
        apply (existsb_seq_witness _ _ k); [apply nth_error_Some; congruence|].
        apply andb_true_iff in H2 as [H2 H4]. apply andb_true_iff in H2 as [H2 H3].
        rewrite H2, (others_same_global _ _ _ H3), keys_at_global, H4.
        replace (Nat.eqb k idx) with false; [reflexivity|]. symmetry. apply Nat.eqb_neq. congruence.
      * destruct Hh as [-> Hall]. split; [apply Forall_global; exact HI|]. apply orb_true_iff. left.
        rewrite (all_same_global _ _ Hid). cbn [andb].
        rewrite no_other_holder; [reflexivity|]. intros k c0 Hn Hk.
        specialize (Hall k c0 Hn Hk). rewrite specific_found in Hall. exact Hall.
  - (* ONak *)
    unfold attribute_nak. rewrite length_obsl. set (f := fun x => fst (handle_nak x seq now)).
    assert (Hfh : Forall Inv2 (fst (first_hit (fun x => handle_nak x seq now) None 0 (links s))) /\
                  all_same (obsl (links s)) (obsl (fst (first_hit (fun x => handle_nak x seq now) None 0 (links s)))) ||
                  existsb (fun j => s_mem seq (keys_at j (obsl (links s))) &&
                     others_same j (obsl (links s)) (obsl (fst (first_hit (fun x => handle_nak x seq now) None 0 (links s)))) &&
                     zlist_eqb (keys_at j (obsl (fst (first_hit (fun x => handle_nak x seq now) None 0 (links s)))))
                               (s_del seq (keys_at j (obsl (links s))))) (List.seq 0 (length (links s))) = true).
    { destruct (first_hit (fun x => handle_nak x seq now) None 0 (links s)) as [l' r] eqn:Ef.
      pose proof (first_hit_upd _ _ _ _ _ _ Ef) as Hh. cbn [fst]. destruct r as [j|].
      - destruct Hh as (k & c0 & -> & Hn & Hs & Hk & ->). cbn [Nat.add] in *. cbn beta. fold f. rewrite nak_found in Hs.
        destruct (retire_at f seq (links s) k c0 HI Hn Hs (fun x Hx => nak_inv x seq now Hx)) as [H1 H2].
        split; [exact H1|]. apply orb_true_iff. right.
        apply (existsb_seq_witness _ _ k); [apply nth_error_Some; congruence|exact H2].
      - destruct Hh as [-> _]. split; [exact HI|]. rewrite Hid. reflexivity. }
    destruct (trk_get (trk s) seq now) as [id|]; [|exact Hfh].
    destruct (find_pos id (links s) 0) as [pos|]; [|exact Hfh].
    destruct (nth_error (links s) pos) as [c|] eqn:En; [|cbn [fst]; split; [exact HI|rewrite Hid; reflexivity]].
    pose proof (nak_found c seq now) as Hfound.
    destruct (handle_nak c seq now) as [c' found]. cbn [snd] in Hfound. subst found.
    destruct (log_mem seq (log c)) eqn:Em; cbn [fst]; [|split; [exact HI|rewrite Hid; reflexivity]].
    destruct (retire_at f seq (links s) pos c HI En Em (fun x Hx => nak_inv x seq now Hx)) as [H1 H2].
    split; [exact H1|]. apply orb_true_iff. right.
    apply (existsb_seq_witness _ _ pos); [apply nth_error_Some; congruence|exact H2].
  - (* ORecovery *) destruct (Hsl (fun c => perform_window_recovery c now vel_hi)) as [A B];
      [intros c; unfold perform_window_recovery; destruct (recovery _ _ _ _ _) as [[? ?] ?]; repeat split|apply Hsame; assumption].
  - (* OCcAck *) destruct (Hsl (fun c => cc_ack c classic inf)) as [A B];
      [intros c; unfold cc_ack; destruct (if classic then _ else _) as [[? ?] ?]; repeat split|apply Hsame; assumption].
  - (* OCcNak *) destruct (Hsl (fun c => cc_nak c now)) as [A B];
      [intros c; unfold cc_nak; destruct (cong_nak _ _ _) as [[? ?] ?]; repeat split|apply Hsame; assumption].
  - (* OGlobal *) destruct (Hsl handle_srtla_ack_global) as [A B];
      [intros c; destruct (global_keys c) as (? & ? & ? & _); repeat split; assumption|apply Hsame; assumption].
  - (* OMarkRecovery *) apply Hempty. intros c. repeat split.
  - (* OResetReconnect *) apply Hempty. intros c. repeat split.
  - (* OReg3 *) apply Hempty. intros c. repeat split.
  - (* OSetConn *) destruct (Hsl (fun c => set_conn c b lr)) as [A B]; [intros c; repeat split|apply Hsame; assumption].
  - (* OSetWindow *) destruct (Hsl (fun c => set_window c w)) as [A B]; [intros c; repeat split|apply Hsame; assumption].
  - (* ORemoveConn *) destruct (nth_error _ _); cbn [links]; split; assumption.
Qed.

Lemma blen_nn {A} (l : list A) : 0 <= blen l. Proof. unfold blen. lia. Qed.

Lemma init_inv2 ids : SInv2 (init ids).
Proof.
  unfold SInv2, init. cbn. induction ids; cbn; constructor; auto.
  unfold Inv2, link0, keys. cbn. repeat split; constructor.
Qed.

Theorem reachable_inv2 ids ops : Forall wf2 ops -> SInv2 (run_from (init ids) ops).
Proof.
  intros H. unfold run_from. generalize (init_inv2 ids). generalize (init ids).
  induction H as [|o ops Ho Hops IH]; intros s Hs; cbn; [exact Hs|].
  apply IH. apply (step_c02 s o Ho Hs).
Qed.

Lemma inflight_ok l : Forall Inv2 l ->
  forallb (fun x => o_inflight x =? blen (o_keys x)) (obsl l) = true /\
  forallb (fun x => 0 <=? o_inflight x) (obsl l) = true.
Proof.
  unfold obsl. induction 1 as [|c l (Hn & Hi & Hh) Hl [IH1 IH2]]; cbn [map forallb]; [split; reflexivity|].
  rewrite IH1, IH2, o_inflight_obs, o_keys_obs, blen_kset, Hi, Z.eqb_refl.
  pose proof (blen_nn (log c)). replace (0 <=? blen (log c)) with true by lia. split; reflexivity.
Qed.

Theorem monitor_holds2 ids ops : Forall wf2 ops -> check_with mon_C02 (model_case ids ops) = 0%N.
Proof.
  intros Hwf. apply (check_with_model mon_C02 (fun _ s => SInv2 s)).
  - cbn. unfold init, obs_state. cbn. rewrite map_map.
    assert (H : forallb (fun l : lobs => (o_inflight l =? 0) && zlist_eqb (o_keys l) []) (map (fun x => obs_link (link0 x)) ids) = true).
    { induction ids; cbn; [reflexivity|]. exact IHids. }
    rewrite H. reflexivity.
  - apply init_inv2.
  - intros m s o HJ Hin. cbn [mon_C02 m_step fst snd].
    assert (Ho : wf2 o) by (rewrite Forall_forall in Hwf; auto).
    destruct (step_c02 s o Ho HJ) as [H1 H2]. split; [|exact H1].
    pose proof (Forall2i_length _ _ _ _ (step_ltrans s o)) as Hlen.
    unfold obs_state. rewrite !map_length, Hlen, Nat.eqb_refl. cbn [negb].
    unfold obs_state in H2. rewrite H2. cbn [negb].
    destruct (inflight_ok _ H1) as [A B]. unfold obsl in A, B. rewrite A, B. reflexivity.
Qed.

(** cumulative ACK: a function of the current set and the ACK number alone *)
Theorem cumack_independent c a : Inv2 c ->
  kset (handle_srt_ack c a) = filter (fun s => a <? s) (kset c) /\
  in_flight (handle_srt_ack c a) = blen (filter (fun s => a <? s) (kset c)).
Proof.
  intros HI. destruct (srt_ack_inv c a HI) as [(Hn & Hi & Hh) Hk]. split; [exact Hk|].
  rewrite <- Hk, blen_kset. exact Hi.
Qed.

Theorem foreign_untouched c seq cl now : log_mem seq (log c) = false ->
  fst (handle_nak c seq now) = c /\ fst (handle_srtla_ack_specific c seq cl now) = c.
Proof. intros H. unfold handle_nak, handle_srtla_ack_specific. rewrite H. split; reflexivity. Qed.
