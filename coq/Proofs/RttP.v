(** RttP.v — lemmas about Model/Rtt.v: the Rust f64 primitives used by the smoothed-RTT
    read-out, the f64->u32 cast range, the keepalive-timestamp decoder against its
    declarative layout, and the sampling rule of handle_keepalive_response. *)
From Coq Require Import Floats ZifyBool.
From Srtla Require Import Base Constants FConstants Wire WireSpec WireP Rtt.
Local Open Scope Z_scope.
Ltac Zify.zify_post_hook ::= Z.div_mod_to_equations.

(** ---- floats: x.max(0.0) is never negative, never NaN ---- *)
Lemma prim0 : Prim2SF 0%float = S754_zero false.
Proof. reflexivity. Qed.

Lemma f_max0_ok x : f_is_nan (f_max0 x) = false /\ (0 <=? f_max0 x)%float = true.
Proof.
  unfold f_max0, f_is_nan. destruct (PrimFloat.is_nan x) eqn:En; [split; reflexivity|].
  destruct (x <? 0)%float eqn:El; [split; reflexivity|].
  split; [exact En|].
  unfold PrimFloat.is_nan in En. rewrite FloatAxioms.eqb_spec in En. rewrite FloatAxioms.ltb_spec in El. rewrite FloatAxioms.leb_spec.
  rewrite prim0 in *.
  destruct (Prim2SF x) as [s|s| |s m e]; cbn in *; try reflexivity; try discriminate.
  - destruct s; [discriminate|reflexivity].
  - destruct s; [discriminate|reflexivity].
Qed.

(** if x itself is not infinite, neither is x.max(0.0) *)
Lemma f_max0_finite x : f_is_inf x = false -> f_is_inf (f_max0 x) = false.
Proof.
  unfold f_max0. intros H. destruct (f_is_nan x); [reflexivity|].
  destruct (x <? 0)%float; [reflexivity|exact H].
Qed.

(** ---- the saturating cast lands in u32 ---- *)
Lemma f_as_u32_range x : 0 <= f_as_u32 x < two32.
Proof.
  unfold f_as_u32, u32_max, clamp, two32.
  destruct (Prim2SF x) as [s|s| |s m e]; try lia; destruct s; lia.
Qed.

(** ---- keepalive timestamp decoder = declarative layout (on byte lists) ---- *)
Lemma bytes_okb_ok b : bytes_okb b = true -> bytes_ok b.
Proof.
  unfold bytes_okb, bytes_ok. rewrite forallb_forall, Forall_forall.
  intros H x Hx. specialize (H x Hx). unfold is_byte in H. lia.
Qed.

Lemma ka_ts_spec b : bytes_ok b -> ka_ts b = spec_ka_ts b.
Proof.
  intros Hb. unfold ka_ts, spec_ka_ts, extract_keepalive_timestamp.
  destruct (blen b <? 10) eqn:E.
  - replace (10 <=? blen b) with false by lia. reflexivity.
  - replace (10 <=? blen b) with true by lia. cbn [andb].
    destruct b as [|b0 [|b1 [|n0 [|n1 [|n2 [|n3 [|n4 [|n5 [|n6 [|n7 rest]]]]]]]]]];
      try (cbv in E; discriminate).
    rewrite get_packet_type_ok.
    replace (blen (b0 :: b1 :: n0 :: n1 :: n2 :: n3 :: n4 :: n5 :: n6 :: n7 :: rest) <? 2) with false
      by (rewrite !blen_cons; pose proof (blen_nonneg rest); lia).
    cbn [bind spec_type ozeqb opt_eqb]. change (nthz _ 0) with b0. change (nthz _ 1) with b1.
    destruct (be16 b0 b1 =? SRTLA_TYPE_KEEPALIVE) eqn:Et; [|reflexivity].
    unfold bytes_ok in Hb.
    repeat match goal with H : Forall _ (_ :: _) |- _ => inversion H; clear H; subst end.
    assert (Hb8 : bytes_ok [n0; n1; n2; n3; n4; n5; n6; n7]) by (unfold bytes_ok; repeat (constructor; [assumption|]); constructor).
    pose proof (ts8 n0 n1 n2 n3 n4 n5 n6 n7 [b0; b1] rest Hb8 eq_refl) as Ht.
    cbn [app] in Ht. rewrite Ht. cbn [bind skipn firstn be_fold].
    f_equal. unfold two64. rewrite Z.mod_small; lia.
Qed.

(** ---- handle_keepalive_response: the sampling rule ---- *)
(** the part of the tracker a sample moves *)
Definition rtt_core (r : rtt) : Z * kalman := (r_last_meas r, r_k r).

Lemma hkr_cases r b now :
  let '(r', s) := handle_keepalive_response r b now in
  (s = None /\ rtt_core r' = rtt_core r /\ (r_waiting r = true -> r_waiting r' = false) /\
   (r_waiting r = false -> r' = r))
  \/ (exists ts, s = Some (ssub now ts) /\ r_waiting r = true /\ ka_ts b = Some ts /\
        0 < now - ts <= KA_RTT_CAP_MS /\
        r' = set_waiting (update_estimate r (ssub now ts) now) false).
Proof.
  unfold handle_keepalive_response. destruct (r_waiting r) eqn:Ew; cbn [negb].
  2:{ left. repeat split; auto; try discriminate; try congruence. }
  destruct (ka_ts b) as [ts|] eqn:Ets.
  2:{ left. repeat split; auto; try discriminate; try congruence. }
  destruct ((0 <? ssub now ts) && (ssub now ts <=? KA_RTT_CAP_MS)) eqn:Er.
  - right. exists ts. unfold ssub in *. repeat split; auto; lia.
  - left. repeat split; auto; try discriminate; try congruence.
Qed.

(** a returned sample always satisfies the filter; no sample without an outstanding probe *)
Lemma hkr_sample r b now v :
  snd (handle_keepalive_response r b now) = Some v ->
  r_waiting r = true /\ exists ts, ka_ts b = Some ts /\ v = now - ts /\ 0 < v <= KA_RTT_CAP_MS.
Proof.
  pose proof (hkr_cases r b now) as H. destruct (handle_keepalive_response r b now) as [r' s].
  cbn [snd]. intros ->. destruct H as [(H & _)|(ts & Hs & Hw & Hts & Hr & _)]; [discriminate|].
  split; [exact Hw|]. exists ts. inversion Hs. unfold ssub. repeat split; auto; lia.
Qed.

(** any keepalive handled while waiting clears the flag, sample or not *)
Lemma hkr_clears r b now :
  r_waiting r = true -> r_waiting (fst (handle_keepalive_response r b now)) = false.
Proof.
  pose proof (hkr_cases r b now) as H. destruct (handle_keepalive_response r b now) as [r' s].
  cbn [fst]. intros Hw. destruct H as [(_ & _ & H & _)|(ts & _ & _ & _ & _ & ->)]; [auto|reflexivity].
Qed.

(** update_estimate stamps the measurement time and initialises the filter *)
Lemma update_estimate_meas r v now : r_last_meas (update_estimate r v now) = now.
Proof. unfold update_estimate. destruct (negb (kinit (r_k r))); reflexivity. Qed.
