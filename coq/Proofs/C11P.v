(** C11P.v — the enhanced selector against the independent oracle of Run_C11. *)
From Coq Require Import ZArith List Bool Lia Floats Reals Lra.
From Srtla Require Import Base Constants FConstants Select Run_Sel Run_C11 FloatP SelFloatP SelectP.
From Flocq Require Import Core BinarySingleNaN PrimFloat.
Import ListNotations.
Notation float := PrimFloat.float (only parsing).

(** ---- order facts about the float comparison (all floats, infinities and NaN included) -------- *)
Section Order.
Local Open Scope R_scope.
Lemma Bltb_fin (x y : binary_float prec emax) :
  is_finite x = true -> is_finite y = true -> Bltb x y = Rlt_bool (B2R x) (B2R y).
Proof. apply Bltb_correct. Qed.

Ltac ord_solve :=
  repeat match goal with
  | s : bool |- _ => destruct s
  end; cbn in *; try congruence.

Lemma ltb_irrefl x : (x <? x)%float = false.
Proof.
  rewrite ltb_equiv. destruct (Prim2B x) as [s|s| |s m e H] eqn:E.
  - now destruct s.
  - now destruct s.
  - reflexivity.
  - rewrite Bltb_fin by reflexivity. apply Rlt_bool_false. lra.
Qed.

Lemma ltb_trans_neg a b c :
  (a <? b)%float = true -> (a <? c)%float = false -> (b <? c)%float = false.
Proof.
  rewrite !ltb_equiv.
  destruct (Prim2B a) as [sa|sa| |sa ma ea Ha] eqn:EA, (Prim2B b) as [sb|sb| |sb mb eb Hb] eqn:EB,
           (Prim2B c) as [sc|sc| |sc mc ec Hc] eqn:EC;
  try (intros H1 H2; rewrite !Bltb_fin in * by reflexivity;
       revert H1 H2; case Rlt_bool_spec; try easy; intros L1 _; case Rlt_bool_spec; try easy; intros L2 _;
       apply Rlt_bool_false; lra);
  unfold Bltb, SFltb, SFcompare, B2SF; intros H1 H2; ord_solve.
Qed.

Lemma ltb_le_lt s b T :
  PrimFloat.is_nan s = false -> (b <? s)%float = false -> (b <? T)%float = true -> (s <? T)%float = true.
Proof.
  rewrite is_nan_equiv, !ltb_equiv.
  destruct (Prim2B s) as [ss|ss| |ss ms es Hs] eqn:ES, (Prim2B b) as [sb|sb| |sb mb eb Hb] eqn:EB,
           (Prim2B T) as [st|st| |st mt et Ht] eqn:ET;
  try (intros _ H1 H2; rewrite !Bltb_fin in * by reflexivity;
       revert H1 H2; case Rlt_bool_spec; try easy; intros L1 _; case Rlt_bool_spec; try easy; intros L2 _;
       apply Rlt_bool_true; lra);
  unfold Bltb, SFltb, SFcompare, B2SF, is_nan; intros H0 H1 H2; ord_solve.
Qed.

(** not (a < b) and not NaN: b <= a, hence anything below b is below a ... in the form needed:
    (x <? y) = false for non-NaN x y  and  (y <? z) = false  and non-NaN z  =>  (x <? z) = false *)
Lemma not_ltb_trans x y z :
  PrimFloat.is_nan y = false ->
  (x <? y)%float = false -> (y <? z)%float = false -> (x <? z)%float = false \/ PrimFloat.is_nan x = true.
Proof.
  rewrite !is_nan_equiv, !ltb_equiv.
  destruct (Prim2B x) as [sx|sx| |sx mx ex Hx] eqn:EX, (Prim2B y) as [sy|sy| |sy my ey Hy] eqn:EY,
           (Prim2B z) as [sz|sz| |sz mz ez Hz] eqn:EZ;
  try (intros _ H1 H2; left; rewrite !Bltb_fin in * by reflexivity;
       revert H1 H2; case Rlt_bool_spec; try easy; intros L1 _; case Rlt_bool_spec; try easy; intros L2 _;
       apply Rlt_bool_false; lra);
  unfold Bltb, SFltb, SFcompare, B2SF, is_nan; intros H0 H1 H2; ord_solve; auto.
Qed.
End Order.

Local Open Scope Z_scope.

(** ---- the oracle's ingredients are the model's, link by link -------------------------------- *)
Lemma spec_timed_out_eq now c : spec_timed_out now c = is_timed_out c now.
Proof.
  unfold spec_timed_out, is_timed_out, ssub.
  destruct (l_conn c); cbn [negb].
  - now destruct (l_lastrx c).
  - destruct ((l_est c =? 0) && (now <? l_grace c)); [reflexivity|]. now destruct (l_lastrx c).
Qed.

Lemma spec_eligible_eq now c : spec_eligible now c = negb (skipped now c).
Proof.
  unfold spec_eligible, skipped, is_schedulable. rewrite spec_timed_out_eq.
  destruct (is_timed_out c now), (l_phase c), (l_gated c); reflexivity.
Qed.

Lemma spec_over_cap_eq c : spec_over_cap c = in_flight_cap_exceeded c.
Proof.
  unfold spec_over_cap, in_flight_cap_exceeded, in_flight_cap_packets, f64_is_finite.
  destruct (l_cct c =? 0); reflexivity.
Qed.

Lemma spec_unconstrained_eq now c : spec_unconstrained now c = unconstrained now c.
Proof.
  unfold spec_unconstrained, unconstrained. rewrite spec_eligible_eq, spec_over_cap_eq.
  unfold skipped.
  destruct (l_conn c), (is_timed_out c now), (is_schedulable c), (l_gated c), (l_weak c), (l_lossdeg c);
    reflexivity.
Qed.

Lemma spec_base_eq c : spec_base c = get_score c.
Proof.
  unfold spec_base, get_score. destruct (l_conn c); cbn [negb]; [|reflexivity].
  now rewrite Z.max_comm.
Qed.

Lemma spec_quality_eq now e c : spec_quality now e c = fst (cached_quality c now e).
Proof.
  unfold spec_quality, cached_quality.
  rewrite Z.ltb_antisym. destruct (QUALITY_CACHE_INTERVAL_MS <=? ssub now (l_qlast c)); cbn [negb fst]; [|reflexivity].
  unfold calc_quality, time_since_last_nak, rtt_bonus, smooth_rtt.
  destruct (ssub now (l_est c) <? STARTUP_GRACE_PERIOD_MS); [reflexivity|].
  destruct (l_naklast c =? 0); reflexivity.
Qed.

Lemma spec_soft_cap_eq c : spec_soft_cap c = cc_soft_cap_multiplier c.
Proof.
  unfold spec_soft_cap, cc_soft_cap_multiplier.
  destruct (l_cct c =? 0); cbn [orb]; [reflexivity|]. destruct (l_bps c <=? 0)%float; reflexivity.
Qed.

(** C11_score_is_spec: what the loop computes for a link is the documented product
    base x phase x quality x soft cap x gate (gate = 2 % iff an unconstrained link exists and the
    link is weak or loss-degraded; phase = 80 % iff warming), and a link is ranked iff it is
    eligible and not (over its cap while an unconstrained link exists). *)
Lemma score_link_is_spec au q now e c :
  option_map fst (score_link au q now e c) =
  if spec_candidate au now c then Some (spec_score au q now e c) else None.
Proof.
  unfold score_link, spec_candidate. rewrite spec_eligible_eq, spec_over_cap_eq.
  destruct (skipped now c); cbn [negb andb option_map]; [reflexivity|].
  destruct (au && in_flight_cap_exceeded c); cbn [negb option_map]; [reflexivity|].
  unfold spec_score. rewrite spec_base_eq, spec_soft_cap_eq, spec_quality_eq.
  destruct q; cbn [negb].
  - destruct (cached_quality c now e) as (qq, c1). cbn [option_map fst]. unfold phase_weight.
    destruct (l_phase c); reflexivity.
  - cbn [option_map fst]. unfold phase_weight. destruct (l_phase c); reflexivity.
Qed.

(** the list of per-link scores the loop works with *)
Fixpoint score_list (ls : list link) (exps : list float) (au q : bool) (now : Z) : list (option float) :=
  match ls with
  | [] => []
  | c :: t => option_map fst (score_link au q now (hd 1%float exps) c) :: score_list t (tl exps) au q now
  end.

Lemma score_list_spec ls : forall exps au q now,
  score_list ls exps au q now = spec_scores au q now ls exps.
Proof.
  induction ls as [|c t IH]; intros; cbn [score_list spec_scores]; [reflexivity|].
  now rewrite score_link_is_spec, IH.
Qed.

Lemma existsb_unconstrained_spec now ls :
  existsb (spec_unconstrained now) ls = existsb (unconstrained now) ls.
Proof. induction ls as [|c t IH]; cbn; [reflexivity|]. now rewrite spec_unconstrained_eq, IH. Qed.

(** ---- the accumulator as a fold over the score list -------------------------------------------- *)
Fixpoint pick (scs : list (option float)) (last : option nat) (i : nat) (a : eacc) : eacc :=
  match scs with
  | [] => a
  | None :: t => pick t last (S i) a
  | Some s :: t =>
      let cur := if onat_eqb (Some i) last then Some s else ea_cur a in
      pick t last (S i) (if (ea_score a <? s)%float then EA (Some i) s cur else EA (ea_best a) (ea_score a) cur)
  end.

Lemma enh_loop_pick ls : forall exps au q last now i a,
  fst (enh_loop ls exps au q last now i a) = pick (score_list ls exps au q now) last i a.
Proof.
  induction ls as [|c t IH]; intros; cbn [enh_loop score_list pick]; [reflexivity|].
  destruct (score_link au q now (hd 1%float exps) c) as [(s, c')|]; cbn [option_map fst pick].
  - set (a1 := if (ea_score a <? s)%float then _ else _).
    specialize (IH (tl exps) au q last now (S i) a1).
    now destruct (enh_loop t (tl exps) au q last now (S i) a1).
  - specialize (IH (tl exps) au q last now (S i) a).
    now destruct (enh_loop t (tl exps) au q last now (S i) a).
Qed.

(** ---- properties of the fold -------------------------------------------------------------------- *)
(** the final best score dominates the starting one and every score seen *)
Lemma pick_dom scs : forall last i a,
  (forall x, (ea_score a <? x)%float = false -> (ea_score (pick scs last i a) <? x)%float = false) /\
  (forall s, In (Some s) scs -> (ea_score (pick scs last i a) <? s)%float = false).
Proof.
  induction scs as [|o t IH]; intros last i a; cbn [pick].
  - split; [auto | intros s []].
  - destruct o as [s|].
    + set (cur := if onat_eqb (Some i) last then Some s else ea_cur a).
      destruct (ea_score a <? s)%float eqn:L.
      * destruct (IH last (S i) (EA (Some i) s cur)) as (D1 & D2). cbn [ea_score] in D1. split.
        -- intros x Hx. apply D1. eapply ltb_trans_neg; eauto.
        -- intros s' [E|Hin]; [inversion E; subst; apply D1, ltb_irrefl | now apply D2].
      * destruct (IH last (S i) (EA (ea_best a) (ea_score a) cur)) as (D1 & D2). cbn [ea_score] in D1. split.
        -- exact D1.
        -- intros s' [E|Hin]; [inversion E; subst; now apply D1 | now apply D2].
    + destruct (IH last (S i) a) as (D1 & D2). split; [exact D1|].
      intros s' [E|Hin]; [discriminate | now apply D2].
Qed.

Definition nths (all : list (option float)) (i : nat) : option float := nth i all None.

(** the best index holds the best score *)
Lemma pick_attained all : forall scs pre last a,
  all = pre ++ scs ->
  (forall b, ea_best a = Some b -> nths all b = Some (ea_score a)) ->
  forall b, ea_best (pick scs last (length pre) a) = Some b ->
            nths all b = Some (ea_score (pick scs last (length pre) a)).
Proof.
  induction scs as [|o t IH]; intros pre last a Hall Ha; cbn [pick]; [exact Ha|].
  assert (Hall' : all = (pre ++ [o]) ++ t) by (rewrite <- app_assoc; exact Hall).
  assert (Hlen : length (pre ++ [o]) = S (length pre)) by (rewrite app_length; cbn; lia).
  destruct o as [s|].
  - set (cur := if onat_eqb (Some (length pre)) last then Some s else ea_cur a).
    destruct (ea_score a <? s)%float.
    + rewrite <- Hlen. apply IH; [exact Hall'|]. cbn [ea_best ea_score]. intros b E. inversion E; subst.
      unfold nths. rewrite app_nth2 by lia. now rewrite Nat.sub_diag.
    + rewrite <- Hlen. apply IH; [exact Hall'|]. exact Ha.
  - rewrite <- Hlen. apply IH; [exact Hall' | exact Ha].
Qed.

(** the remembered current score is the previous link's score, if it was ranked *)
Lemma pick_cur all : forall scs pre last a,
  all = pre ++ scs ->
  (match last with
   | Some l => ((l < length pre)%nat -> ea_cur a = nths all l) /\ ((length pre <= l)%nat -> ea_cur a = None)
   | None => ea_cur a = None end) ->
  ea_cur (pick scs last (length pre) a) = match last with Some l => nths all l | None => None end.
Proof.
  induction scs as [|o t IH]; intros pre last a Hall Ha; cbn [pick].
  - rewrite app_nil_r in Hall. subst all. destruct last as [l|]; [|exact Ha].
    destruct Ha as (H1 & H2). destruct (Nat.lt_ge_cases l (length pre)) as [L|L]; [now apply H1|].
    rewrite (H2 L). unfold nths. now rewrite nth_overflow.
  - assert (Hall' : all = (pre ++ [o]) ++ t) by (rewrite <- app_assoc; exact Hall).
    assert (Hlen : length (pre ++ [o]) = S (length pre)) by (rewrite app_length; cbn; lia).
    assert (Hnth : nths all (length pre) = o).
    { subst all. unfold nths. rewrite app_nth2 by lia. now rewrite Nat.sub_diag. }
    assert (Step : forall a', ea_cur a' = match o with
                                            | Some s => if onat_eqb (Some (length pre)) last then Some s else ea_cur a
                                            | None => ea_cur a end ->
             match last with
             | Some l => ((l < S (length pre))%nat -> ea_cur a' = nths all l) /\ ((S (length pre) <= l)%nat -> ea_cur a' = None)
             | None => ea_cur a' = None end).
    { intros a' E. destruct last as [l|].
      - destruct Ha as (H1 & H2). split; intros L.
        + destruct (Nat.eq_dec l (length pre)) as [->|N].
          * rewrite E, Hnth. destruct o; [|apply H2; lia]. cbn [onat_eqb]. now rewrite Nat.eqb_refl.
          * rewrite E. destruct o; [|apply H1; lia]. cbn [onat_eqb].
            replace (Nat.eqb (length pre) l) with false by (symmetry; apply Nat.eqb_neq; lia). apply H1; lia.
        + rewrite E. destruct o; [|apply H2; lia]. cbn [onat_eqb].
          replace (Nat.eqb (length pre) l) with false by (symmetry; apply Nat.eqb_neq; lia). apply H2; lia.
      - rewrite E. destruct o; cbn [onat_eqb]; exact Ha. }
    destruct o as [s|].
    + destruct (ea_score a <? s)%float; rewrite <- Hlen; apply IH; try exact Hall';
        rewrite Hlen; apply Step; reflexivity.
    + rewrite <- Hlen. apply IH; [exact Hall'|]. rewrite Hlen. apply Step. reflexivity.
Qed.

(** ---- the decision ------------------------------------------------------------------------------ *)
Definition decide (last : option nat) (a : eacc) : option nat :=
  match last with
  | Some l =>
      if negb (onat_eqb (ea_best a) (Some l)) then
        match ea_cur a with
        | Some cur => if (ea_score a <? cur * SWITCH_THRESHOLD)%float then Some l else ea_best a
        | None => ea_best a
        end
      else ea_best a
  | None => ea_best a
  end.

Definition a0 : eacc := EA None (-1)%float None.

Lemma enhanced_select_decide ls last now q exps :
  fst (enhanced_select ls last now q exps) =
  decide last (pick (score_list ls exps (existsb (unconstrained now) ls) q now) last 0 a0).
Proof.
  unfold enhanced_select. rewrite <- enh_loop_pick. fold a0.
  now destruct (enh_loop ls exps (existsb (unconstrained now) ls) q last now 0 a0).
Qed.

Lemma In_nths all i s : nths all i = Some s -> In (Some s) all.
Proof.
  unfold nths. intros E. destruct (Nat.lt_ge_cases i (length all)) as [L|L].
  - rewrite <- E. now apply nth_In.
  - rewrite nth_overflow in E by exact L. discriminate.
Qed.

Lemma all_below_In scs cur s : all_below scs cur = true -> In (Some s) scs -> (s <? cur * SWITCH_THRESHOLD)%float = true.
Proof. unfold all_below. rewrite forallb_forall. intros H Hin. exact (H _ Hin). Qed.

Local Notation fin_acc scs last := (pick scs last 0 a0).

Lemma f_attained scs last b : ea_best (fin_acc scs last) = Some b -> nths scs b = Some (ea_score (fin_acc scs last)).
Proof.
  apply (pick_attained scs scs [] last a0); [reflexivity|]. intros b' E. discriminate.
Qed.
Lemma f_cur scs last : ea_cur (fin_acc scs last) = match last with Some l => nths scs l | None => None end.
Proof.
  apply (pick_cur scs scs [] last a0); [reflexivity|].
  destruct last; [split; [cbn; lia | reflexivity] | reflexivity].
Qed.
Lemma f_max scs last s : In (Some s) scs -> (ea_score (fin_acc scs last) <? s)%float = false.
Proof. apply (pick_dom scs last 0 a0). Qed.

(** D1: whatever is returned was ranked *)
Lemma decide_candidate scs last i :
  decide last (pick scs last 0 a0) = Some i -> exists si, nths scs i = Some si.
Proof.
  pose proof (f_cur scs last) as C. pose proof (f_attained scs last) as A.
  remember (pick scs last 0 a0) as f eqn:Ef. clear Ef. unfold decide.
  destruct last as [l|]; [|intros E; eexists; now apply A].
  destruct (negb (onat_eqb (ea_best f) (Some l))); [|intros E; eexists; now apply A].
  destruct (ea_cur f) as [cur|]; [|intros E; eexists; now apply A].
  destruct (ea_score f <? cur * SWITCH_THRESHOLD)%float; [|intros E; eexists; now apply A].
  intros E. inversion E; subst. exists cur. now symmetry.
Qed.

(** D2: the previous link is left only if it was not ranked or some score reached 1.10 x its own *)
Lemma decide_leave scs l i sc :
  decide (Some l) (pick scs (Some l) 0 a0) = Some i -> i <> l -> nths scs l = Some sc ->
  all_below scs sc = false.
Proof.
  pose proof (f_cur scs (Some l)) as C. pose proof (f_attained scs (Some l)) as A.
  remember (pick scs (Some l) 0 a0) as f eqn:Ef. clear Ef. unfold decide. cbv iota in C.
  intros E Hne Hl. rewrite Hl in C. rewrite C in E.
  destruct (negb (onat_eqb (ea_best f) (Some l))) eqn:Nb.
  - destruct (ea_score f <? sc * SWITCH_THRESHOLD)%float eqn:T; [inversion E; congruence|].
    destruct (all_below scs sc) eqn:B; [|reflexivity].
    apply A, In_nths in E. apply (all_below_In _ _ _ B) in E. congruence.
  - apply negb_false_iff, onat_eqb_eq in Nb. congruence.
Qed.

(** D3: the returned link maximises the score, unless it is the previous link held by hysteresis *)
Lemma decide_argmax scs last i si :
  (forall s, In (Some s) scs -> PrimFloat.is_nan s = false) ->
  decide last (pick scs last 0 a0) = Some i -> nths scs i = Some si ->
  is_max scs si = true \/ (last = Some i /\ all_below scs si = true).
Proof.
  intros Hnan E Hi.
  pose proof (f_cur scs last) as C. pose proof (f_attained scs last) as A.
  pose proof (f_max scs last) as M.
  remember (pick scs last 0 a0) as f eqn:Ef. clear Ef.
  assert (Best : ea_best f = Some i -> is_max scs si = true).
  { intros Eb. apply A in Eb. rewrite Hi in Eb. inversion Eb; subst.
    unfold is_max. apply forallb_forall. intros [s|] Hin; [|reflexivity].
    apply negb_true_iff. now apply M. }
  revert E. unfold decide.
  destruct last as [l|]; [|intros E; left; now apply Best].
  destruct (negb (onat_eqb (ea_best f) (Some l))); [|intros E; left; now apply Best].
  destruct (ea_cur f) as [cur|] eqn:Ec; [|intros E; left; now apply Best].
  destruct (ea_score f <? cur * SWITCH_THRESHOLD)%float eqn:T; [|intros E; left; now apply Best].
  intros E. inversion E; subst. right. split; [reflexivity|].
  rewrite Hi in C. inversion C; subst.
  unfold all_below. apply forallb_forall. intros [s|] Hin; [|reflexivity].
  change SPEC_SWITCH with SWITCH_THRESHOLD.
  apply (ltb_le_lt s (ea_score f)); [now apply Hnan | now apply M | exact T].
Qed.
