(** ClassicEvP.v — lemmas for C10, part 3: an SRTLA-ACK event and a NAK event of the model
    (Conn.srtla_ack_event / Conn.attribute_nak, classic = true) against the reference. *)
From Coq Require Import ZifyBool Permutation.
From Srtla Require Import Base Constants Conn ConnP Classic ClassicRef ClassicP ClassicInvP.

Definition has_lr (c : link) : bool := match last_recv c with Some _ => true | None => false end.

(** a model link and the reference's view of it *)
Definition arel (c : link) (a : alink) : Prop :=
  a_conn a = connected c /\ a_recv a = has_lr c /\ a_win a = window c /\
  Permutation (a_keys a) (map fst (log c)).

Lemma perm_filter {A} (f : A -> bool) l l' : Permutation l l' -> Permutation (filter f l) (filter f l').
Proof.
  induction 1; cbn.
  - constructor.
  - destruct (f x); [constructor|]; assumption.
  - destruct (f x), (f y); try constructor; try apply Permutation_refl.
  - eapply Permutation_trans; eassumption.
Qed.

Lemma holds_mem c a seq : arel c a -> holds seq a = log_mem seq (log c).
Proof.
  intros (_ & _ & _ & Hp). unfold holds.
  destruct (log_mem seq (log c)) eqn:E.
  - apply log_mem_In in E. apply existsb_exists. exists seq. split; [|lia].
    eapply Permutation_in; [apply Permutation_sym; exact Hp|exact E].
  - destruct (existsb (Z.eqb seq) (a_keys a)) eqn:E2; [|reflexivity].
    apply existsb_exists in E2. destruct E2 as (k & Hk & Ek). assert (k = seq) by lia. subst.
    assert (In seq (map fst (log c))) as Hin by (eapply Permutation_in; eassumption).
    apply log_mem_In in Hin. congruence.
Qed.

Lemma arel_earn c a seq now :
  inv_link c -> arel c a -> log_mem seq (log c) = true ->
  arel (fst (handle_srtla_ack_specific c seq true now)) (earn seq a).
Proof.
  intros (H1 & H2 & H3) (A1 & A2 & A3 & A4) Hm. rewrite specific_fst, Hm.
  assert (Hp : Permutation (filter (fun k => negb (k =? seq)) (a_keys a)) (map fst (log_remove seq (log c)))).
  { rewrite map_fst_log_remove. apply perm_filter. exact A4. }
  unfold arel, earn, a_conn, a_recv, a_win, a_keys, has_lr in *. cbn [fst snd connected last_recv window log].
  repeat split; try assumption.
  rewrite ack_window by (try exact H3; apply blen_nonneg).
  rewrite A3. f_equal. unfold blen. f_equal.
  apply Permutation_length in Hp. rewrite map_length in Hp. exact Hp.
Qed.

Lemma global_fields c :
  connected (handle_srtla_ack_global c) = connected c /\ last_recv (handle_srtla_ack_global c) = last_recv c /\
  log (handle_srtla_ack_global c) = log c.
Proof.
  unfold handle_srtla_ack_global.
  destruct (connected c && match last_recv c with Some _ => true | None => false end); cbn; auto.
Qed.

Lemma arel_global c a : arel c a -> arel (handle_srtla_ack_global c) (ref_global a).
Proof.
  intros (A1 & A2 & A3 & A4). destruct (global_fields c) as (G1 & G2 & G3).
  unfold arel, ref_global, a_conn, a_recv, a_win, a_keys, has_lr in *. cbn [fst snd].
  rewrite G1, G2, G3, global_window, A1, A2, A3. repeat split; try reflexivity. exact A4.
Qed.

(** ---- list plumbing ---- *)
Lemma Forall2_nth_error {A B} (R : A -> B -> Prop) l l' i :
  Forall2 R l l' ->
  match nth_error l i, nth_error l' i with
  | Some x, Some y => R x y
  | None, None => True
  | _, _ => False
  end.
Proof.
  intros H. revert i. induction H; intros [|i]; cbn; auto. apply IHForall2.
Qed.

Lemma Forall2_upd_map_at {A B} (R : A -> B -> Prop) (f : A -> A) (g : B -> B) : forall l l' i,
  Forall2 R l l' ->
  (forall x y, nth_error l i = Some x -> R x y -> R (f x) (g y)) ->
  Forall2 R (upd i f l) (map_at i g l').
Proof.
  induction l as [|x l IH]; intros l' i H Hf; inversion H; subst; cbn; [destruct i; constructor|].
  destruct i as [|i]; cbn.
  - constructor; [apply Hf; [reflexivity|assumption]|assumption].
  - constructor; [assumption|]. apply IH; [assumption|]. intros x0 y0 Hn. apply Hf. exact Hn.
Qed.

Lemma Forall2_map2 {A B} (R : A -> B -> Prop) (f : A -> A) (g : B -> B) l l' :
  Forall2 R l l' -> (forall x y, R x y -> R (f x) (g y)) -> Forall2 R (map f l) (map g l').
Proof. induction 1; cbn; intros Hf; constructor; auto. Qed.

Lemma Forall2i_forall {A} (P : A -> Prop) (R : nat -> A -> A -> Prop) i l l' :
  Forall2i R i l l' -> (forall k x y, R k x y -> P x -> P y) -> Forall P l -> Forall P l'.
Proof.
  induction 1; intros HR HP; [constructor|]. inversion HP; subst.
  constructor; [eapply HR; eassumption|]. apply IHForall2i; assumption.
Qed.

Lemma Forall2i_Forall2 {A B} (R : nat -> A -> B -> Prop) (Q : A -> B -> Prop) (P : A -> Prop) i l l' :
  Forall2i R i l l' -> (forall k x y, R k x y -> P x -> Q x y) -> Forall P l -> Forall2 Q l l'.
Proof.
  induction 1; intros HR HP; [constructor|]. inversion HP; subst.
  constructor; [eapply HR; eassumption|]. apply IHForall2i; assumption.
Qed.

(** ---- one SRTLA-ACK event ---- *)
Lemma first_hit_earn_first seq idx now : forall cs als i,
  Forall2 arel cs als -> Forall inv_link cs ->
  Forall2 arel (fst (first_hit (fun x => handle_srtla_ack_specific x seq true now) (Some idx) i cs))
               (earn_first seq idx i als).
Proof.
  induction cs as [|c cs IH]; intros als i H Hinv; inversion H as [|? a ? als' Hca Hrest]; subst; cbn [first_hit earn_first].
  - constructor.
  - inversion Hinv as [|? ? Hc Hcs]; subst.
    rewrite (Nat.eqb_sym i idx).
    destruct (Nat.eqb idx i) eqn:Ei; cbn [negb andb].
    + specialize (IH als' (S i) Hrest Hcs).
      destruct (first_hit _ (Some idx) (S i) cs) as [t' r]. cbn in *. constructor; assumption.
    + rewrite (holds_mem c a seq Hca).
      pose proof (specific_found c seq true now) as Hf.
      destruct (handle_srtla_ack_specific c seq true now) as [c' hit] eqn:Es. cbn in Hf. subst hit.
      destruct (log_mem seq (log c)) eqn:Em.
      * cbn. constructor; [|assumption].
        pose proof (arel_earn c a seq now Hc Hca Em) as He. rewrite Es in He. exact He.
      * specialize (IH als' (S i) Hrest Hcs).
        destruct (first_hit _ (Some idx) (S i) cs) as [t' r]. cbn in *. constructor; assumption.
Qed.

Theorem srtla_ack_event_ref cs als idx seq now :
  Forall2 arel cs als -> Forall inv_link cs ->
  Forall2 arel (srtla_ack_event cs idx seq true now) (ref_srtla_ack_one idx als seq).
Proof.
  intros H Hinv. unfold srtla_ack_event, ref_srtla_ack_one.
  pose proof (Forall2_nth_error arel cs als idx H) as Hn.
  destruct (nth_error cs idx) as [c|] eqn:Ec, (nth_error als idx) as [a|] eqn:Ea; try contradiction; [|exact H].
  rewrite (holds_mem c a seq Hn).
  pose proof (specific_found c seq true now) as Hf.
  destruct (handle_srtla_ack_specific c seq true now) as [c' found] eqn:Es. cbn in Hf. subst found.
  apply Forall2_map2; [|intros x y; apply arel_global].
  destruct (log_mem seq (log c)) eqn:Em.
  - apply Forall2_upd_map_at; [exact H|].
    intros x y Hx Hxy. rewrite Ec in Hx. inversion Hx; subst x.
    apply arel_earn; [|exact Hxy|exact Em].
    eapply Forall_forall; [exact Hinv|]. eapply nth_error_In. exact Ec.
  - apply first_hit_earn_first; assumption.
Qed.

Lemma srtla_ack_event_inv cs idx seq now :
  Forall inv_link cs -> Forall inv_link (srtla_ack_event cs idx seq true now).
Proof.
  intros H.
  pose proof (step_ltrans {| links := cs; trk := [] |} (Conn.OSrtlaAck idx seq true now)) as Ht.
  cbn [Conn.step links] in Ht.
  eapply Forall2i_forall; [exact Ht| |exact H].
  cbn. intros k x y [->|[->| ->]] Hx; [exact Hx|apply inv_global; exact Hx|].
  apply inv_global. apply inv_specific. exact Hx.
Qed.

Theorem srtla_ack_fold_ref idx now : forall seqs cs als,
  Forall2 arel cs als -> Forall inv_link cs ->
  Forall2 arel (fold_left (fun cs sq => srtla_ack_event cs idx sq true now) seqs cs) (ref_srtla_ack idx als seqs) /\
  Forall inv_link (fold_left (fun cs sq => srtla_ack_event cs idx sq true now) seqs cs).
Proof.
  unfold ref_srtla_ack. induction seqs as [|sq seqs IH]; intros cs als H Hinv; cbn [fold_left]; [split; assumption|].
  apply IH; [apply srtla_ack_event_ref; assumption|apply srtla_ack_event_inv; assumption].
Qed.

(** ---- NAK events: -100 (floored) per log entry a NAK retired ---- *)
Definition nrel (c c' : link) : Prop :=
  (length (log c') <= length (log c))%nat /\
  window c' = ref_naks (length (log c) - length (log c')) (window c).

Lemma ref_naks_add a b w : ref_naks (a + b) w = ref_naks b (ref_naks a w).
Proof. revert w. induction a as [|a IH]; intros w; cbn; [reflexivity|]. apply IH. Qed.

Lemma nrel_refl c : nrel c c.
Proof. split; [lia|]. rewrite Nat.sub_diag. reflexivity. Qed.

Lemma nrel_trans c1 c2 c3 : nrel c1 c2 -> nrel c2 c3 -> nrel c1 c3.
Proof.
  intros [L1 W1] [L2 W2]. split; [lia|].
  rewrite W2, W1, <- ref_naks_add. f_equal. lia.
Qed.

Lemma nrel_nak c seq now : inv_link c -> nrel c (fst (handle_nak c seq now)).
Proof.
  intros (H1 & H2 & H3). rewrite nak_fst. destruct (log_mem seq (log c)) eqn:Em; [|apply nrel_refl].
  pose proof (log_remove_length seq (log c) H2 Em) as Hl.
  split; cbn [log window]; [lia|].
  replace (length (log c) - length (log_remove seq (log c)))%nat with 1%nat by lia.
  cbn [ref_naks]. apply nak_ref.
Qed.

Lemma attribute_nak_step cs t seq now :
  Forall inv_link cs ->
  Forall2 nrel cs (fst (attribute_nak cs t seq now)) /\ Forall inv_link (fst (attribute_nak cs t seq now)).
Proof.
  intros H.
  pose proof (step_ltrans {| links := cs; trk := t |} (Conn.ONak seq now)) as Ht.
  cbn [Conn.step links trk] in Ht. split.
  - eapply Forall2i_Forall2; [exact Ht| |exact H].
    cbn. intros k x y [->| ->] Hx; [apply nrel_refl|apply nrel_nak; exact Hx].
  - eapply Forall2i_forall; [exact Ht| |exact H].
    cbn. intros k x y [->| ->] Hx; [exact Hx|apply inv_nak; exact Hx].
Qed.

Lemma Forall2_trans {A} (R : A -> A -> Prop) l1 : forall l2 l3,
  (forall x y z, R x y -> R y z -> R x z) -> Forall2 R l1 l2 -> Forall2 R l2 l3 -> Forall2 R l1 l3.
Proof.
  induction l1 as [|x l1 IH]; intros l2 l3 HR H12 H23; inversion H12; subst; inversion H23; subst; constructor.
  - eapply HR; eassumption.
  - eapply IH; eassumption.
Qed.

Lemma Forall2_refl {A} (R : A -> A -> Prop) l : (forall x, R x x) -> Forall2 R l l.
Proof. intros H. induction l; constructor; auto. Qed.

Theorem nak_fold_ref t now : forall seqs cs,
  Forall inv_link cs ->
  Forall2 nrel cs (fold_left (fun cs sq => fst (attribute_nak cs t sq now)) seqs cs) /\
  Forall inv_link (fold_left (fun cs sq => fst (attribute_nak cs t sq now)) seqs cs).
Proof.
  induction seqs as [|sq seqs IH]; intros cs H; cbn [fold_left].
  - split; [apply Forall2_refl; apply nrel_refl|exact H].
  - destruct (attribute_nak_step cs t sq now H) as [Hr Hi].
    destruct (IH _ Hi) as [Hr2 Hi2]. split; [|exact Hi2].
    eapply Forall2_trans; [exact nrel_trans|exact Hr|exact Hr2].
Qed.
