(** ConnP.v — structural lemmas about Model/Conn.v shared by C02 C05 C06 C10:
    every op relates each link of the pre-state to the link at the same index of
    the post-state by one of a small set of per-link transitions. *)
From Srtla Require Import Base Constants Conn Run_Core.
From Coq Require Import ZifyBool.

Inductive Forall2i {A B} (R : nat -> A -> B -> Prop) : nat -> list A -> list B -> Prop :=
| F2i_nil i : Forall2i R i [] []
| F2i_cons i x y l l' : R i x y -> Forall2i R (S i) l l' -> Forall2i R i (x :: l) (y :: l').

Lemma Forall2i_impl {A B} (R R' : nat -> A -> B -> Prop) i l l' :
  (forall k x y, R k x y -> R' k x y) -> Forall2i R i l l' -> Forall2i R' i l l'.
Proof. intros H F. induction F; constructor; auto. Qed.

Lemma Forall2i_length {A B} (R : nat -> A -> B -> Prop) i l l' : Forall2i R i l l' -> length l = length l'.
Proof. induction 1; cbn; congruence. Qed.

Lemma Forall2i_refl {A} (R : nat -> A -> A -> Prop) i l : (forall k x, R k x x) -> Forall2i R i l l.
Proof. intros H. revert i. induction l; intros; constructor; auto. Qed.

Lemma Forall2i_map_r {A B C} (R : nat -> A -> B -> Prop) (g : B -> C) i l l' :
  Forall2i R i l l' -> Forall2i (fun k x z => exists y, R k x y /\ z = g y) i l (map g l').
Proof. induction 1; cbn; constructor; eauto. Qed.

Lemma upd_rel {A} (f : A -> A) : forall l i j,
  Forall2i (fun k c c' => (k = (j + i)%nat /\ c' = f c) \/ (k <> (j + i)%nat /\ c' = c)) j l (upd i f l).
Proof.
  induction l as [|x l IH]; intros i j; cbn; [destruct i; constructor|].
  destruct i as [|i]; cbn.
  - constructor; [left; split; [lia|reflexivity]|].
    assert (G : forall l' m, (j < m)%nat -> Forall2i (fun k c c' => (k = (j + 0)%nat /\ c' = f c) \/ (k <> (j + 0)%nat /\ c' = c)) m l' l').
    { induction l'; intros; constructor; [right; split; [lia|reflexivity]|apply IHl'; lia]. }
    apply G. lia.
  - constructor; [right; split; [lia|reflexivity]|].
    eapply Forall2i_impl; [|apply (IH i (S j))]. cbn.
    intros k c c' [[H1 H2]|[H1 H2]]; [left|right]; (split; [lia|exact H2]).
Qed.

Lemma first_hit_rel (f : link -> link * bool) skip : forall l i,
  Forall2i (fun k c c' => c' = c \/ (snd (f c) = true /\ c' = fst (f c) /\ skip <> Some k)) i l
           (fst (first_hit f skip i l)).
Proof.
  induction l as [|c l IH]; intros i; cbn; [constructor|].
  destruct (match skip with Some k => Nat.eqb k i | None => false end) eqn:Es.
  - specialize (IH (S i)). destruct (first_hit f skip (S i) l) as [t' r]. cbn in *.
    constructor; [left; reflexivity|exact IH].
  - destruct (f c) as [c' hit] eqn:Ef. destruct hit.
    + cbn. constructor.
      * right. rewrite Ef. cbn. repeat split; try reflexivity.
        intros ->. rewrite Nat.eqb_refl in Es. discriminate.
      * apply Forall2i_refl. auto.
    + specialize (IH (S i)). destruct (first_hit f skip (S i) l) as [t' r]. cbn in *.
      constructor; [left; reflexivity|exact IH].
Qed.

Lemma specific_found c seq cl now :
  snd (handle_srtla_ack_specific c seq cl now) = log_mem seq (log c).
Proof.
  unfold handle_srtla_ack_specific. destruct (log_mem seq (log c)); [|reflexivity].
  destruct cl; [destruct (ack_classic _ _)|destruct (ack_enhanced _ _ _) as [[? ?] ?]]; reflexivity.
Qed.
Lemma nak_found c seq now : snd (handle_nak c seq now) = log_mem seq (log c).
Proof.
  unfold handle_nak. destruct (log_mem seq (log c)); [|reflexivity].
  destruct (cong_nak _ _ _) as [[? ?] ?]. reflexivity.
Qed.

(** the per-link transitions an op can cause on the link at index [i] *)
Definition at_idx (k i : nat) (c c' fc : link) : Prop := (i = k /\ c' = fc) \/ (i <> k /\ c' = c).

Definition ltrans (o : op) (i : nat) (c c' : link) : Prop :=
  match o with
  | ORegister k seq t => at_idx k i c c' (register_packet c seq t)
  | OSrtAck a _ => c' = handle_srt_ack c a
  | OSrtlaAck idx seq cl now =>
    c' = c \/      (* arrival index out of range: the event is dropped *)
    c' = handle_srtla_ack_global c \/
    c' = handle_srtla_ack_global (fst (handle_srtla_ack_specific c seq cl now))
  | ONak seq now => c' = c \/ c' = fst (handle_nak c seq now)
  | ORecovery k now v => at_idx k i c c' (perform_window_recovery c now v)
  | OCcAck k cl inf => at_idx k i c c' (cc_ack c cl inf)
  | OCcNak k now => at_idx k i c c' (cc_nak c now)
  | OGlobal k => at_idx k i c c' (handle_srtla_ack_global c)
  | OMarkRecovery k => at_idx k i c c' (mark_for_recovery c)
  | OResetReconnect k => at_idx k i c c' (reset_for_reconnect c)
  | OReg3 k now => at_idx k i c c' (reg3_clear c now)
  | OSetConn k b lr => at_idx k i c c' (set_conn c b lr)
  | OSetWindow k w => at_idx k i c c' (set_window c w)
  | OTrack _ _ _ | ORemoveConn _ => c' = c
  end.

Lemma on_rel i f s :
  Forall2i (fun k c c' => at_idx i k c c' (f c)) 0 (links s) (links (on i f s)).
Proof.
  cbn. eapply Forall2i_impl; [|apply (upd_rel f (links s) i 0)].
  cbn. unfold at_idx. intros k c c' [[-> ->]|[H ->]]; [left|right]; auto.
Qed.

Theorem step_ltrans s o : Forall2i (ltrans o) 0 (links s) (links (step s o)).
Proof.
  destruct o; cbn [step]; try (apply on_rel).
  - destruct (nth_error _ _); cbn; apply Forall2i_refl; reflexivity.
  - cbn. generalize (links s). generalize 0%nat. intros j l. revert j.
    induction l; intros j; cbn; constructor; [reflexivity|apply IHl].
  - cbn. unfold srtla_ack_event. destruct (nth_error (links s) idx) as [c|] eqn:En.
    2:{ apply Forall2i_refl. left; reflexivity. }
    destruct (handle_srtla_ack_specific c seq classic now) as [c' found] eqn:Es.
    destruct found.
    + pose proof (Forall2i_map_r _ handle_srtla_ack_global _ _ _
        (upd_rel (fun x => fst (handle_srtla_ack_specific x seq classic now)) (links s) idx 0)) as H.
      eapply Forall2i_impl; [|exact H]. cbn.
      intros k x z (y & [[_ ->]|[_ ->]] & ->); right; [right|left]; reflexivity.
    + pose proof (Forall2i_map_r _ handle_srtla_ack_global _ _ _
        (first_hit_rel (fun x => handle_srtla_ack_specific x seq classic now) (Some idx) (links s) 0)) as H.
      eapply Forall2i_impl; [|exact H]. cbn.
      intros k x z (y & [->|(_ & -> & _)] & ->); right; [left|right]; reflexivity.
  - cbn. unfold attribute_nak.
    assert (Hfh : Forall2i (ltrans (ONak seq now)) 0 (links s)
                    (fst (first_hit (fun x => handle_nak x seq now) None 0 (links s)))).
    { eapply Forall2i_impl; [|apply first_hit_rel]. cbn.
      intros k x y [->|(_ & -> & _)]; [left|right]; reflexivity. }
    destruct (trk_get (trk s) seq now) as [id|]; [|exact Hfh].
    destruct (find_pos id (links s) 0) as [pos|]; [|exact Hfh].
    destruct (nth_error (links s) pos) as [c|]; [|apply Forall2i_refl; left; reflexivity].
    destruct (handle_nak c seq now) as [c' found]. destruct found; cbn.
    + eapply Forall2i_impl; [|apply (upd_rel (fun x => fst (handle_nak x seq now)) (links s) pos 0)].
      cbn. intros k x y [[_ ->]|[_ ->]]; [right|left]; reflexivity.
    + apply Forall2i_refl; left; reflexivity.
  - destruct (nth_error _ _); cbn; apply Forall2i_refl; reflexivity.
Qed.

(** [first_hit] either changes nothing (no eligible link reports success) or applies
    [f] at exactly one index, the first eligible one that reports success. *)
Lemma first_hit_upd (f : link -> link * bool) skip : forall l i l' r,
  first_hit f skip i l = (l', r) ->
  match r with
  | None => l' = l /\
            (forall k c, nth_error l k = Some c -> skip <> Some (i + k)%nat -> snd (f c) = false)
  | Some j => exists k c, j = (i + k)%nat /\ nth_error l k = Some c /\ snd (f c) = true /\
                          skip <> Some j /\ l' = upd k (fun x => fst (f x)) l
  end.
Proof.
  induction l as [|c l IH]; intros i l' r H; cbn in H.
  - inversion H; subst. split; [reflexivity|]. intros [|k] c0 Hn; discriminate.
  - destruct (match skip with Some k => Nat.eqb k i | None => false end) eqn:Es.
    + destruct (first_hit f skip (S i) l) as [t' r'] eqn:Ef. inversion H; subst.
      specialize (IH (S i) t' r Ef). destruct r as [j|].
      * destruct IH as (k & c0 & -> & Hn & Hs & Hk & ->). exists (S k), c0.
        split; [lia|]. split; [exact Hn|]. split; [exact Hs|]. split; [|reflexivity].
        intros E. apply Hk. rewrite E. f_equal; lia.
      * destruct IH as [-> Hall]. split; [reflexivity|]. intros [|k] c0 Hn Hsk.
        -- exfalso. destruct skip as [s|]; [|discriminate]. apply Nat.eqb_eq in Es. subst. apply Hsk. f_equal; lia.
        -- cbn in Hn. apply (Hall k c0 Hn). intros E. apply Hsk. rewrite E. f_equal; lia.
    + destruct (f c) as [c' hit] eqn:Efc. destruct hit.
      * inversion H; subst. exists 0%nat, c. cbn. rewrite ?Efc. cbn. split; [lia|]. split; [reflexivity|].
        split; [reflexivity|]. split; [|reflexivity].
        intros E. destruct skip as [s|]; [|discriminate]. inversion E; subst. rewrite Nat.eqb_refl in Es. discriminate.
      * destruct (first_hit f skip (S i) l) as [t' r'] eqn:Ef. inversion H; subst.
        specialize (IH (S i) t' r Ef). destruct r as [j|].
        -- destruct IH as (k & c0 & -> & Hn & Hs & Hk & ->). exists (S k), c0.
           split; [lia|]. split; [exact Hn|]. split; [exact Hs|]. split; [|reflexivity].
        intros E. apply Hk. rewrite E. f_equal; lia.
        -- destruct IH as [-> Hall]. split; [reflexivity|]. intros [|k] c0 Hn Hsk.
           ++ cbn in Hn. inversion Hn; subst. rewrite Efc. reflexivity.
           ++ cbn in Hn. apply (Hall k c0 Hn). intros E. apply Hsk. rewrite E. f_equal; lia.
Qed.
