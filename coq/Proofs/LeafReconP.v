(** LeafReconP.v — hand-written model functions = the definitions tools/gen_leaf.py regenerates from the Rust
    source on every run (coq/Gen/LeafRecon.v); see DESIGN.md §12.8. *)
From Coq Require Import Floats.
From Srtla Require Import Base Constants LeafRecon LeafTac.
From Srtla Require Reconnect.
From Coq Require Import ZifyBool.
Local Open Scope Z_scope.

(** ---- connection/reconnection.rs  <->  Model/Reconnect.v (C08) ---- *)
Lemma leaf_backoff_delay_ok r :
  Reconnect.backoff_delay r = leaf_backoff_delay (Reconnect.r_fail r).
Proof. first [ solve [ unfold Reconnect.backoff_delay, leaf_backoff_delay; cbn zeta; rewrite Z.shiftl_1_l; reflexivity ] | leaf_auto ]. Qed.

Lemma leaf_should_attempt_ok r now :
  Reconnect.should_attempt r now =
  leaf_should_attempt_reconnect (Reconnect.r_est r) (Reconnect.r_grace r) (Reconnect.r_last r) (Reconnect.r_fail r) now.
Proof. first [ solve [ unfold Reconnect.should_attempt, leaf_should_attempt_reconnect; rewrite leaf_backoff_delay_ok; change INITIAL_RETRY_CADENCE_MS with 1000; reflexivity ] | leaf_auto ]. Qed.

Lemma leaf_record_attempt_ok r now :
  let r' := Reconnect.record_attempt r now in
  (Reconnect.r_last r', Reconnect.r_fail r') =
  leaf_record_attempt (Reconnect.r_last r) (Reconnect.r_fail r) (Reconnect.r_est r) now.
Proof. first [ solve [ cbn zeta; unfold Reconnect.record_attempt, leaf_record_attempt; destruct (_ =? 0); reflexivity ] | leaf_auto ]. Qed.

