(** LinkCcFP.v — the f64 rendering of the target arithmetic (Model/LinkCcF.v) computes exactly
    what the integer model (Model/LinkCc.v) computes.  IEEE-754 binary64, round to nearest even,
    through Flocq's bridge to Coq's primitive floats. *)
From Srtla Require Import Base Constants LinkCc LinkCcF LinkCcP Run_C16 C16P LinkCcRttP.
From Srtla Require FConstants.
From Coq Require Import ZArith Reals Lia Lra Floats Uint63.
From Flocq Require Import Core.Core IEEE754.BinarySingleNaN.
From Flocq Require IEEE754.PrimFloat.
#[local] Existing Instance FP.Hprec.
#[local] Existing Instance FP.Hmax.

Section Exact.
Local Open Scope R_scope.

Notation bfl := (binary_float FloatOps.prec FloatOps.emax).
Notation fexp64 := (SpecFloat.fexp FloatOps.prec FloatOps.emax).
Notation rnd := (round radix2 fexp64 (round_mode mode_NE)).
Notation gfmt := (generic_format radix2 fexp64).

(** [x] is a finite float whose value is the real [r] *)
Definition fval (x : PrimFloat.float) (r : R) : Prop :=
  is_finite (FP.Prim2B x) = true /\ B2R (FP.Prim2B x) = r.
Definition fint (x : PrimFloat.float) (z : Z) : Prop := fval x (IZR z).

Lemma gf_int (z : Z) : (Z.abs z < 2 ^ 53)%Z -> gfmt (IZR z).
Proof.
  intro H. replace (IZR z) with (IZR z * bpow radix2 0) by (simpl; ring). apply gen_scaled; lia.
Qed.

Lemma rnd_gf x : gfmt x -> rnd x = x.
Proof. intro H. apply round_generic; [apply valid_rnd_N|exact H]. Qed.

Lemma rnd_int z : (Z.abs z < 2 ^ 53)%Z -> rnd (IZR z) = IZR z.
Proof. intro H. apply rnd_gf, gf_int, H. Qed.

Lemma small_no_ovf r : Rabs r < bpow radix2 53 -> Rlt_bool (Rabs r) (bpow radix2 emax) = true.
Proof.
  intro H. apply Rlt_bool_true. apply Rlt_trans with (1 := H). apply bpow_lt. reflexivity.
Qed.

Lemma abs_int_lt z : (Z.abs z < 2 ^ 53)%Z -> Rabs (IZR z) < bpow radix2 53.
Proof. intro H. rewrite <- abs_IZR. change (bpow radix2 53) with (IZR (2 ^ 53)). apply IZR_lt, H. Qed.

Lemma z2f_exact z : (0 <= z < 2 ^ 53)%Z -> fint (z2f z) z.
Proof.
  intro H. unfold fint, fval, z2f. rewrite FP.of_int63_equiv, of_Z_spec.
  rewrite Z.mod_small by (change wB with (2 ^ 63)%Z; lia).
  pose proof (binary_normalize_correct prec emax FP.Hprec FP.Hmax mode_NE z 0 false) as C. cbv zeta in C.
  assert (E : F2R (Float radix2 z 0) = IZR z) by (unfold F2R; simpl; ring).
  rewrite E, rnd_int in C by lia.
  rewrite small_no_ovf in C by (apply abs_int_lt; lia).
  destruct C as (C1 & C2 & _). split; assumption.
Qed.

(** ---- operations on finite values ---- *)
Lemma mul_int x y a b : fint x a -> fint y b -> (Z.abs (a * b) < 2 ^ 53)%Z -> fint (x * y)%float (a * b).
Proof.
  intros [Fx Ex] [Fy Ey] H. unfold fint, fval. rewrite FP.mul_equiv.
  pose proof (Bmult_correct prec emax FP.Hprec FP.Hmax mode_NE (FP.Prim2B x) (FP.Prim2B y)) as C.
  rewrite Ex, Ey, <- mult_IZR, rnd_int in C by exact H.
  rewrite small_no_ovf in C by (apply abs_int_lt, H).
  destruct C as (C1 & C2 & _). split; [rewrite C2, Fx, Fy; reflexivity|exact C1].
Qed.

Lemma sub_int x y a b : fint x a -> fint y b -> (Z.abs (a - b) < 2 ^ 53)%Z -> fint (x - y)%float (a - b).
Proof.
  intros [Fx Ex] [Fy Ey] H. unfold fint, fval. rewrite FP.sub_equiv.
  pose proof (Bminus_correct prec emax FP.Hprec FP.Hmax mode_NE (FP.Prim2B x) (FP.Prim2B y) Fx Fy) as C.
  rewrite Ex, Ey, <- minus_IZR, rnd_int in C by exact H.
  rewrite small_no_ovf in C by (apply abs_int_lt, H).
  destruct C as (C1 & C2 & _). split; assumption.
Qed.

Lemma add_val x y rx ry : fval x rx -> fval y ry -> Rabs (rnd (rx + ry)) < bpow radix2 53 ->
  fval (x + y)%float (rnd (rx + ry)).
Proof.
  intros [Fx Ex] [Fy Ey] H. unfold fval. rewrite FP.add_equiv.
  pose proof (Bplus_correct prec emax FP.Hprec FP.Hmax mode_NE (FP.Prim2B x) (FP.Prim2B y) Fx Fy) as C.
  rewrite Ex, Ey in C. rewrite small_no_ovf in C by exact H.
  destruct C as (C1 & C2 & _). split; assumption.
Qed.

Lemma div_val x y rx ry : fval x rx -> fval y ry -> ry <> 0 -> Rabs (rnd (rx / ry)) < bpow radix2 53 ->
  fval (x / y)%float (rnd (rx / ry)).
Proof.
  intros [Fx Ex] [Fy Ey] Hy H. unfold fval. rewrite FP.div_equiv.
  assert (Hy' : B2R (FP.Prim2B y) <> 0) by (rewrite Ey; exact Hy).
  pose proof (Bdiv_correct prec emax FP.Hprec FP.Hmax mode_NE (FP.Prim2B x) (FP.Prim2B y) Hy') as C.
  rewrite Ex, Ey in C. rewrite small_no_ovf in C by exact H.
  destruct C as (C1 & C2 & _). split; [rewrite C2; exact Fx|exact C1].
Qed.

Lemma finite_not_nan x r : fval x r -> PrimFloat.is_nan x = false.
Proof.
  intros [F _]. rewrite FP.is_nan_equiv. destruct (FP.Prim2B x); try reflexivity; discriminate.
Qed.

Lemma ltb_val x y rx ry : fval x rx -> fval y ry -> PrimFloat.ltb x y = Rlt_bool rx ry.
Proof.
  intros [Fx Ex] [Fy Ey]. rewrite FP.ltb_equiv, Bltb_correct by assumption. rewrite Ex, Ey. reflexivity.
Qed.

Lemma fmin_val a b ra rb : fval a ra -> fval b rb -> fval (fmin a b) (Rmin ra rb).
Proof.
  intros Ha Hb. unfold fmin. rewrite (finite_not_nan _ _ Ha), (finite_not_nan _ _ Hb).
  rewrite (ltb_val _ _ _ _ Hb Ha). destruct (Rlt_bool_spec rb ra) as [H|H].
  - rewrite Rmin_right by lra. exact Hb.
  - rewrite Rmin_left by lra. exact Ha.
Qed.

Lemma fmax_val a b ra rb : fval a ra -> fval b rb -> fval (fmax a b) (Rmax ra rb).
Proof.
  intros Ha Hb. unfold fmax. rewrite (finite_not_nan _ _ Ha), (finite_not_nan _ _ Hb).
  rewrite (ltb_val _ _ _ _ Ha Hb). destruct (Rlt_bool_spec ra rb) as [H|H].
  - rewrite Rmax_right by lra. exact Hb.
  - rewrite Rmax_left by lra. exact Ha.
Qed.

(** [as u64] of a finite non-negative value below 2^64 is the floor *)
Lemma f64_to_u64_floor x r : fval x r -> 0 <= r < IZR (2 ^ 64) -> f64_to_u64 x = Zfloor r.
Proof.
  intros [F E] [H0 H1]. unfold f64_to_u64.
  rewrite finite_Prim2B in F. rewrite B2R_Prim2B in E.
  destruct (Prim2SF x) as [s|s| |s m e]; try discriminate.
  - simpl in E. subst r. symmetry. apply (Zfloor_IZR 0).
  - unfold SF2R in E. destruct s.
    + exfalso. assert (F2R (Float radix2 (cond_Zopp true (Z.pos m)) e) < 0).
      { apply F2R_lt_0. simpl. lia. }
      lra.
    + simpl cond_Zopp in E. destruct (0 <=? e)%Z eqn:Ee.
      * assert (Er : r = IZR (Z.pos m * 2 ^ e)).
        { subst r. unfold F2R. simpl Fnum. simpl Fexp. rewrite mult_IZR. f_equal.
          rewrite <- (IZR_Zpower radix2) by lia. reflexivity. }
        rewrite Er, Zfloor_IZR. rewrite Er in H1. apply lt_IZR in H1.
        unfold u64_max, two64. change (2 ^ 64)%Z with 18446744073709551616%Z in H1. lia.
      * assert (Hp : (0 < 2 ^ (- e))%Z) by (apply Z.pow_pos_nonneg; lia).
        assert (Er : r = IZR (Z.pos m) / IZR (2 ^ (- e))).
        { subst r. unfold F2R. simpl Fnum. simpl Fexp. unfold Rdiv. f_equal.
          rewrite (IZR_Zpower radix2) by lia. rewrite <- bpow_opp. f_equal. lia. }
        rewrite Er, Zfloor_div by lia.
        assert (Hle : (Z.pos m / 2 ^ (- e) <= Z.pos m)%Z) by (apply Z.div_le_upper_bound; nia).
        assert (Hq : (Z.pos m / 2 ^ (- e) < 2 ^ 64)%Z).
        { apply lt_IZR. apply Rle_lt_trans with (2 := H1). rewrite Er.
          rewrite <- (Zfloor_div (Z.pos m) (2 ^ (- e))) by lia. apply Zfloor_lb. }
        unfold u64_max, two64. change (2 ^ 64)%Z with 18446744073709551616%Z in Hq. lia.
Qed.

(** ---- rounding error of one operation on a value below 2^k ---- *)
Lemma rnd_err x k : x <> 0 -> Rabs x < bpow radix2 k -> (-1074 <= k - 53)%Z ->
  Rabs (rnd x - x) <= bpow radix2 (k - 54).
Proof.
  intros Hx Hk He.
  pose proof (error_le_half_ulp radix2 fexp64 (fun z => negb (Z.even z)) x) as H.
  rewrite ulp_neq_0 in H by exact Hx.
  assert (Hc : (cexp radix2 fexp64 x <= k - 53)%Z).
  { unfold cexp, SpecFloat.fexp. pose proof (mag_le_bpow radix2 x k Hx Hk).
    unfold SpecFloat.emin, emax, prec. lia. }
  apply Rle_trans with (1 := H).
  replace (k - 54)%Z with (-1 + (k - 53))%Z by ring. rewrite bpow_plus.
  change (bpow radix2 (-1)) with (/ 2).
  apply Rmult_le_compat_l; [lra|apply bpow_le; exact Hc].
Qed.

Definition eps : R := bpow radix2 (-25).
Lemma eps_val : eps = / 33554432.
Proof. unfold eps. simpl. reflexivity. Qed.

Lemma floor_in y n : IZR n <= y < IZR n + 1 -> Zfloor y = n.
Proof. intros [H1 H2]. apply Zfloor_imp. rewrite plus_IZR. lra. Qed.

(** [P / 1000.0] for an integer [P]: exact when 1000 divides P, otherwise strictly inside the
    unit interval above the integer quotient, at least 1/1000 - 2^-25 away from both ends *)
Lemma div1000 (P : Z) : (0 <= P < 2 ^ 38)%Z ->
  let a := (P / 1000)%Z in let q := rnd (IZR P / 1000) in
  ((P mod 1000 = 0)%Z -> q = IZR a) /\
  ((P mod 1000 <> 0)%Z -> IZR a + / 1000 - eps <= q <= IZR a + 1 - / 1000 + eps).
Proof.
  intros HP. cbv zeta.
  pose proof (Z.div_mod P 1000 ltac:(lia)) as Hdm.
  pose proof (Z.mod_pos_bound P 1000 ltac:(lia)) as Hr.
  set (a := (P / 1000)%Z) in *. set (r := (P mod 1000)%Z) in *.
  assert (Hq : IZR P / 1000 = IZR a + IZR r / 1000).
  { rewrite Hdm, plus_IZR, mult_IZR. field. }
  split.
  - intro H0. rewrite Hq, H0. replace (IZR a + 0 / 1000) with (IZR a) by field.
    apply rnd_int. lia.
  - intro Hn.
    assert (Hr1 : 1 <= IZR r <= 999) by (split; apply IZR_le; lia).
    assert (Hx : IZR P / 1000 <> 0).
    { rewrite Hq. assert (0 <= IZR a) by (apply IZR_le; lia). lra. }
    assert (Hk : Rabs (IZR P / 1000) < bpow radix2 29).
    { rewrite Rabs_pos_eq.
      - apply Rlt_trans with (IZR (2 ^ 38) / 1000).
        + unfold Rdiv. apply Rmult_lt_compat_r; [lra|apply IZR_lt; lia].
        + change (bpow radix2 29) with (IZR (2 ^ 29)). change (2 ^ 38)%Z with 274877906944%Z.
          change (2 ^ 29)%Z with 536870912%Z. lra.
      - rewrite Hq. assert (0 <= IZR a) by (apply IZR_le; lia). lra. }
    assert (Hz : (-1074 <= 29 - 53)%Z) by lia. pose proof (rnd_err _ 29 Hx Hk Hz) as He. change (29 - 54)%Z with (-25)%Z in He. fold eps in He.
    apply Rabs_le_inv in He. rewrite Hq in He |- *. lra.
Qed.

(** second rounding: adding an integer [t] to a value strictly inside (a, a+1) *)
Lemma floor_rnd_sum (t a : Z) (qf : R) :
  (0 <= t < 2 ^ 28)%Z -> (0 <= a < 2 ^ 28)%Z ->
  IZR a + / 1000 - eps <= qf <= IZR a + 1 - / 1000 + eps ->
  Zfloor (rnd (IZR t + qf)) = (t + a)%Z /\ Rabs (rnd (IZR t + qf)) < bpow radix2 53.
Proof.
  intros Ht Ha Hq. pose proof eps_val as Ev.
  assert (Ht' : 0 <= IZR t <= 268435455) by (split; apply IZR_le; lia).
  assert (Ha' : 0 <= IZR a <= 268435455) by (split; apply IZR_le; lia).
  set (y := IZR t + qf).
  assert (Hy0 : y <> 0) by (unfold y; lra).
  assert (Hk : Rabs y < bpow radix2 29).
  { rewrite Rabs_pos_eq by (unfold y; lra). change (bpow radix2 29) with (IZR (2 ^ 29)).
    change (2 ^ 29)%Z with 536870912%Z. unfold y. lra. }
  assert (Hz : (-1074 <= 29 - 53)%Z) by lia. pose proof (rnd_err _ 29 Hy0 Hk Hz) as He. change (29 - 54)%Z with (-25)%Z in He. fold eps in He.
  apply Rabs_le_inv in He. unfold y in *.
  split.
  - apply floor_in. rewrite plus_IZR. lra.
  - rewrite Rabs_pos_eq by lra. change (bpow radix2 53) with (IZR (2 ^ 53)).
    change (2 ^ 53)%Z with 9007199254740992%Z. lra.
Qed.

(** ---- float constants of the rendering ---- *)
Ltac fval_const :=
  split;
  [ rewrite finite_Prim2B; vm_compute; reflexivity
  | rewrite B2R_Prim2B;
    match goal with |- context [Prim2SF ?c] =>
      let sf := fresh "sf" in set (sf := Prim2SF c); vm_compute in sf; subst sf end;
    unfold SF2R, F2R; simpl; lra ].

Lemma c_1000 : fval 1000%float 1000. Proof. fval_const. Qed.
Lemma c_2 : fint 2%float 2. Proof. unfold fint. fval_const. Qed.
Lemma c_0 : fval 0%float 0. Proof. fval_const. Qed.
Lemma c_outlier : fint FConstants.CC_OUTLIER_FACTOR (CC_OUTLIER_FACTOR_micro / 1000000).
Proof.
  unfold fint, FConstants.CC_OUTLIER_FACTOR, CC_OUTLIER_FACTOR_micro.
  change (4000000 / 1000000)%Z with 4%Z. fval_const.
Qed.

Lemma Rmax_IZR a b : Rmax (IZR a) (IZR b) = IZR (Z.max a b).
Proof.
  destruct (Z_le_gt_dec a b) as [H|H].
  - rewrite Rmax_right by (apply IZR_le; lia). f_equal. lia.
  - rewrite Rmax_left by (apply IZR_le; lia). f_equal. lia.
Qed.
Lemma Rmin_IZR a b : Rmin (IZR a) (IZR b) = IZR (Z.min a b).
Proof.
  destruct (Z_le_gt_dec a b) as [H|H].
  - rewrite Rmin_left by (apply IZR_le; lia). f_equal. lia.
  - rewrite Rmin_right by (apply IZR_le; lia). f_equal. lia.
Qed.

(** what [div1000] says about the rounded quotient, as one predicate *)
Definition near (qf : R) (a : Z) : Prop :=
  qf = IZR a \/ IZR a + / 1000 - eps <= qf <= IZR a + 1 - / 1000 + eps.

Lemma near_div1000 P : (0 <= P < 2 ^ 38)%Z -> near (rnd (IZR P / 1000)) (P / 1000).
Proof.
  intro H. destruct (div1000 P H) as [H0 H1]. cbv zeta in H0, H1.
  destruct (Z.eq_dec (P mod 1000) 0) as [E|E]; [left; apply H0, E|right; apply H1, E].
Qed.

Lemma near_small qf a : near qf a -> (0 <= a < 2 ^ 38)%Z -> 0 <= qf /\ Rabs qf < bpow radix2 53.
Proof.
  intros Hn Ha. pose proof eps_val as Ev.
  assert (Ha' : 0 <= IZR a <= 274877906943) by (split; apply IZR_le; lia).
  change (bpow radix2 53) with (IZR (2 ^ 53)). change (2 ^ 53)%Z with 9007199254740992%Z.
  destruct Hn as [->|Hb]; (split; [lra|rewrite Rabs_pos_eq by lra; lra]).
Qed.

(** truncation of the rounded quotient (drain) *)
Lemma core_floor qf a : near qf a -> Zfloor qf = a.
Proof.
  pose proof eps_val as Ev. intros [->|Hb]; [apply Zfloor_IZR|apply floor_in; lra].
Qed.

(** truncation of max(quotient, integer floor) (back-off) *)
Lemma core_max qf a F : near qf a -> Zfloor (Rmax qf (IZR F)) = Z.max a F.
Proof.
  pose proof eps_val as Ev. intros [->|Hb].
  - rewrite Rmax_IZR. apply Zfloor_IZR.
  - destruct (Z_le_gt_dec F a) as [H|H].
    + assert (IZR F <= IZR a) by (apply IZR_le; lia).
      rewrite Rmax_left by lra. rewrite Z.max_l by lia. apply floor_in. lra.
    + assert (IZR (a + 1) <= IZR F) by (apply IZR_le; lia). rewrite plus_IZR in *.
      rewrite Rmax_right by lra. rewrite Z.max_r by lia. apply Zfloor_IZR.
Qed.

(** the climbing sum: t + max(min(quotient, D), 0), rounded, truncated *)
Lemma core_sum qf (t a D : Z) :
  near qf a -> (0 <= t < 2 ^ 28)%Z -> (0 <= a < 2 ^ 28)%Z -> (Z.abs D < 2 ^ 32)%Z ->
  let X := rnd (IZR t + Rmax (Rmin qf (IZR D)) 0) in
  Zfloor X = (t + Z.max (Z.min a D) 0)%Z /\ Rabs X < bpow radix2 53 /\ 0 <= X.
Proof.
  intros Hn Ht Ha HD. cbv zeta. pose proof eps_val as Ev.
  assert (Hint : forall z : Z, (0 <= z < 2 ^ 34)%Z ->
            Zfloor (rnd (IZR z)) = z /\ Rabs (rnd (IZR z)) < bpow radix2 53 /\ 0 <= rnd (IZR z)).
  { intros z Hz. rewrite rnd_int by lia. split; [apply Zfloor_IZR|].
    split; [apply abs_int_lt; lia|apply IZR_le; lia]. }
  assert (Hcase : Rmax (Rmin qf (IZR D)) 0 = IZR (Z.max (Z.min a D) 0) \/
                  ((a + 1 <= D)%Z /\ IZR a + / 1000 - eps <= qf <= IZR a + 1 - / 1000 + eps)).
  { destruct Hn as [->|Hb].
    - left. change 0 with (IZR 0). rewrite Rmin_IZR, Rmax_IZR. reflexivity.
    - destruct (Z_le_gt_dec D a) as [H|H].
      + left. assert (IZR D <= IZR a) by (apply IZR_le; lia).
        rewrite Rmin_right by lra. change 0 with (IZR 0). rewrite Rmax_IZR. f_equal. lia.
      + right. split; [lia|exact Hb]. }
  destruct Hcase as [E|[HD1 Hb]].
  - rewrite E, <- plus_IZR. apply Hint. lia.
  - assert (IZR (a + 1) <= IZR D) by (apply IZR_le; lia). rewrite plus_IZR in *.
    assert (0 <= IZR a) by (apply IZR_le; lia).
    rewrite Rmin_left by lra. rewrite Rmax_left by lra.
    destruct (floor_rnd_sum t a qf Ht Ha Hb) as [F1 F2].
    split; [rewrite F1; f_equal; lia|]. split; [exact F2|].
    assert (Hz : (0 <= t + a)%Z) by lia.
    pose proof (Zfloor_lb (rnd (IZR t + qf))) as L. rewrite F1 in L.
    apply Rle_trans with (2 := L). apply IZR_le. lia.
Qed.

(** ---- assembling: the float rendering equals the integer model ---- *)
Local Open Scope Z_scope.

Lemma target_bounds t : MIN_TARGET_BPS <= t <= MAX_TARGET_BPS -> 100000 <= t <= 200000000.
Proof. unfold MIN_TARGET_BPS, MAX_TARGET_BPS. lia. Qed.

Lemma f64_to_u64_int x z : fint x z -> 0 <= z < 2 ^ 64 -> f64_to_u64 x = z.
Proof.
  intros H Hz. rewrite (f64_to_u64_floor x (IZR z) H); [apply Zfloor_IZR|].
  split; [apply IZR_le; lia|apply IZR_lt; lia].
Qed.

Lemma quot_val t pm : 100000 <= t <= 200000000 -> 0 <= pm <= 1000 ->
  let qf := rnd (IZR (t * pm) / 1000) in
  fval ((z2f t * z2f pm) / 1000)%float qf /\ near qf (t * pm / 1000) /\ 0 <= t * pm / 1000 < 2 ^ 28.
Proof.
  intros Ht Hp. cbv zeta.
  assert (HP : 0 <= t * pm < 2 ^ 38) by nia.
  assert (Ha : 0 <= t * pm / 1000 < 2 ^ 28).
  { split; [apply Z.div_pos; lia|]. apply Z.div_lt_upper_bound; nia. }
  pose proof (near_div1000 _ HP) as Hn.
  destruct (near_small _ _ Hn ltac:(lia)) as [_ Hs].
  split; [|split; assumption].
  apply div_val; [|exact c_1000|lra|exact Hs].
  apply mul_int; [apply z2f_exact; lia|apply z2f_exact; lia|lia].
Qed.

Lemma step_permille_range md : 0 <= step_permille md <= 1000.
Proof.
  destruct md; unfold step_permille, AI_STEP_PERMILLE, HAI_STEP_PERMILLE, FAST_RECOVERY_STEP_PERMILLE; lia.
Qed.

Lemma next_target_f_exact ns ps md t sane :
  MIN_TARGET_BPS <= t <= MAX_TARGET_BPS -> 0 <= sane <= 2 ^ 30 ->
  next_target_f ns ps md t sane = next_target ns ps md t sane.
Proof.
  intros Ht0 Hs. pose proof (target_bounds t Ht0) as Ht.
  assert (Hprev : fint (z2f t) t) by (apply z2f_exact; lia).
  assert (Hid : f64_to_u64 (z2f t) = t) by (apply f64_to_u64_int; [exact Hprev|lia]).
  unfold next_target_f, next_target. cbv zeta.
  destruct ns; try exact Hid.
  - (* Climbing *)
    destruct (0 <? sane) eqn:Epos; [|exact Hid].
    pose proof (step_permille_range md) as Hpm.
    destruct (quot_val t (step_permille md) Ht Hpm) as (Hq & Hn & Ha). cbv zeta in Hq, Hn.
    set (qf := rnd (IZR (t * step_permille md) / 1000)) in *.
    set (a := t * step_permille md / 1000) in *.
    assert (Hcap : fint (z2f sane * 2 - z2f t)%float (sane * 2 - t)).
    { apply sub_int; [apply mul_int; [apply z2f_exact; lia|exact c_2|lia]|exact Hprev|lia]. }
    assert (Hbase : fval (fmax (z2f t) (z2f MIN_TARGET_BPS)) (IZR t)).
    { replace (IZR t) with (Rmax (IZR t) (IZR MIN_TARGET_BPS)).
      - apply fmax_val; [exact Hprev|apply z2f_exact; unfold MIN_TARGET_BPS; lia].
      - rewrite Rmax_IZR. f_equal. lia. }
    assert (Hm2 : fval (fmax (fmin ((z2f t * z2f (step_permille md)) / 1000)%float (z2f sane * 2 - z2f t)%float) 0%float)
                       (Rmax (Rmin qf (IZR (sane * 2 - t))) 0)).
    { apply fmax_val; [apply fmin_val; [exact Hq|exact Hcap]|exact c_0]. }
    destruct (core_sum qf t a (sane * 2 - t) Hn ltac:(lia) Ha ltac:(lia)) as (S1 & S2 & S3). cbv zeta in S1, S2, S3.
    pose proof (add_val _ _ _ _ Hbase Hm2 S2) as Hsum.
    rewrite (f64_to_u64_floor _ _ Hsum).
    + rewrite S1. rewrite (Z.max_l t MIN_TARGET_BPS) by lia. reflexivity.
    + split; [exact S3|]. apply Rabs_lt_inv in S2. destruct S2 as [_ S2].
      apply Rlt_trans with (1 := S2). change (bpow radix2 53) with (IZR (2 ^ 53)). apply IZR_lt. lia.
  - (* BackingOff *)
    assert (Hpm : 0 <= BACKOFF_PERMILLE <= 1000) by (unfold BACKOFF_PERMILLE; lia).
    destruct (quot_val t BACKOFF_PERMILLE Ht Hpm) as (Hq & Hn & Ha). cbv zeta in Hq, Hn.
    set (qf := rnd (IZR (t * BACKOFF_PERMILLE) / 1000)) in *.
    assert (Hfl : fval (fmin (z2f sane) (z2f t)) (IZR (Z.min sane t))).
    { rewrite <- Rmin_IZR. apply fmin_val; [apply z2f_exact; lia|exact Hprev]. }
    pose proof (fmax_val _ _ _ _ Hq Hfl) as Hmx.
    destruct (near_small _ _ Hn ltac:(lia)) as [Hq0 Hqs].
    rewrite (f64_to_u64_floor _ _ Hmx).
    + apply core_max. exact Hn.
    + assert (0 <= IZR (Z.min sane t) <= 200000000)%R by (split; apply IZR_le; lia).
      apply Rabs_lt_inv in Hqs. destruct Hqs as [_ Hqs].
      change (bpow radix2 53) with (IZR (2 ^ 53)) in Hqs. change (2 ^ 53) with 9007199254740992 in Hqs.
      change (2 ^ 64) with 18446744073709551616.
      split; [apply Rle_trans with (1 := Hq0); apply Rmax_l|apply Rmax_lub_lt; lra].
  - (* Drain *)
    destruct (negb (cc_state_eqb ps Drain)); [|exact Hid].
    assert (Hpm : 0 <= DRAIN_PERMILLE <= 1000) by (unfold DRAIN_PERMILLE; lia).
    destruct (quot_val t DRAIN_PERMILLE Ht Hpm) as (Hq & Hn & Ha). cbv zeta in Hq, Hn.
    destruct (near_small _ _ Hn ltac:(lia)) as [Hq0 Hqs].
    rewrite (f64_to_u64_floor _ _ Hq).
    + apply core_floor. exact Hn.
    + apply Rabs_lt_inv in Hqs. destruct Hqs as [_ Hqs].
      split; [exact Hq0|]. apply Rlt_trans with (1 := Hqs).
      change (bpow radix2 53) with (IZR (2 ^ 53)). apply IZR_lt. lia.
Qed.

Lemma sane_observed_f_exact t observed :
  MIN_TARGET_BPS <= t <= MAX_TARGET_BPS -> 0 <= observed ->
  sane_observed_f t observed = sane_observed t observed.
Proof.
  intros Ht0 Ho. pose proof (target_bounds t Ht0) as Ht.
  unfold sane_observed_f, sane_observed.
  set (b := Z.max t INITIAL_TARGET_BPS).
  assert (Hb : 1000000 <= b <= 200000000) by (unfold b, INITIAL_TARGET_BPS; lia).
  assert (Hm : b * CC_OUTLIER_FACTOR_micro / 1000000 = 4 * b).
  { unfold CC_OUTLIER_FACTOR_micro. rewrite <- (Z.mul_comm 4000000).
    replace (4000000 * b) with (4 * b * 1000000) by ring. apply Z.div_mul. lia. }
  assert (Hcap : fint (FConstants.CC_OUTLIER_FACTOR * z2f b)%float (4 * b)).
  { replace 4 with (CC_OUTLIER_FACTOR_micro / 1000000) at 1 by reflexivity.
    apply mul_int; [exact c_outlier|apply z2f_exact; lia|].
    change (CC_OUTLIER_FACTOR_micro / 1000000) with 4. lia. }
  rewrite Hm. unfold u64_to_f64.
  destruct (observed <? 9007199254740992) eqn:E.
  - apply Z.ltb_lt in E.
    assert (Ho' : fint (z2f observed) observed) by (apply z2f_exact; lia).
    pose proof (fmin_val _ _ _ _ Ho' Hcap) as Hmn. rewrite Rmin_IZR in Hmn.
    apply f64_to_u64_int; [exact Hmn|lia].
  - apply Z.ltb_ge in E.
    assert (Ho' : fint (z2f 4503599627370496) 4503599627370496) by (apply z2f_exact; lia).
    pose proof (fmin_val _ _ _ _ Ho' Hcap) as Hmn. rewrite Rmin_IZR in Hmn.
    rewrite (f64_to_u64_int _ _ Hmn) by lia. lia.
Qed.

(** On every step of a link satisfying the invariant the f64 rendering and the integer model
    produce the same clamped observation and the same new target. *)
Theorem float_agrees_step s now i : core_inv (k_core s) -> float_agrees s (link_step s now i) i = true.
Proof.
  intros Hinv. pose proof Hinv as (Hrange & _).
  unfold float_agrees.
  destruct (link_step_shape s now i) as [_ Hshape]. cbv zeta in Hshape.
  destruct Hshape as [(_ & Ec & _)|(_ & (ns & md & fr & Hns & Ec) & _)]; rewrite Ec; cbn [c_state c_mode c_target].
  - reflexivity.
  - destruct (cc_state_eqb ns Bootstrap) eqn:E; [destruct ns; cbn in E; congruence|].
    pose proof (f64_to_u64_range (i_bps i)) as Hobs. fold (observed_bps i) in Hobs.
    rewrite sane_observed_f_exact by (try exact Hrange; lia). rewrite Z.eqb_refl. cbn [andb].
    unfold new_target. rewrite next_target_f_exact; [apply Z.eqb_refl| |].
    + unfold seed_target. destruct (negb (c_seeded (k_core s))); [apply clamp_target_range|exact Hrange].
    + pose proof (target_bounds _ Hrange) as Ht.
      unfold sane_observed, INITIAL_TARGET_BPS, CC_OUTLIER_FACTOR_micro.
      assert (Hd : Z.max (c_target (k_core s)) 1000000 * 4000000 / 1000000 = 4 * Z.max (c_target (k_core s)) 1000000).
      { rewrite <- (Z.mul_comm 4000000).
        replace (4000000 * Z.max (c_target (k_core s)) 1000000) with (4 * Z.max (c_target (k_core s)) 1000000 * 1000000) by ring.
        apply Z.div_mul. lia. }
      rewrite Hd. lia.
Qed.
End Exact.
