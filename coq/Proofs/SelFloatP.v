(** SelFloatP.v — float facts about the scheduler's score factors:
    RTT bonus in [1, 1.03], quality multiplier in [(1-0.5)*0.7, 1.1*1.03], CC soft-cap
    factor in [0.1, 1], and every score of a connected well-formed link is >= 0 (hence
    strictly above the selection floor -1.0).  The only fact used about libm's exp is
    [exp_okb]: its value lies in [0, 1]. *)
From Coq Require Import ZArith Reals Floats Lra Lia Bool.
From Srtla Require Import Base Constants FConstants Select Run_Sel FloatP.
From Flocq Require Import Core BinarySingleNaN PrimFloat.
Local Open Scope Z_scope.

Ltac fin_c := apply ffin_b; vm_compute; reflexivity.
Ltac fle_c := unfold fle; vm_compute; reflexivity.

Lemma fle_tr a b c : ffin a -> ffin c -> fle a b -> fle b c -> fle a c.
Proof.
  intros Fa Fc H1 H2. apply (fle_trans a b c); auto. apply (fle_fin_between a b c); auto.
Qed.

(** 0 <= x <= hx, 0 <= y <= hy, hx*hy finite ==> 0 <= x*y <= hx*hy *)
Lemma mul_nn x y hx hy :
  ffin (hx * hy)%float -> fle 0%float x -> fle x hx -> fle 0%float y -> fle y hy ->
  fle 0%float (x * y)%float /\ fle (x * y)%float (hx * hy)%float.
Proof.
  intros F X0 X1 Y0 Y1.
  destruct (mul_mono 0%float hx 0%float hy x y F) as (_ & _ & H3 & H4 & _); auto; fle_c.
Qed.

(** ---- Rust min / max / clamp -------------------------------------------------------------- *)
Lemma f64_min_le d b : ffin b -> PrimFloat.is_nan (f64_min d b) = false /\ fle (f64_min d b) b.
Proof.
  intros Fb. pose proof (ffin_not_nan _ Fb) as Nb. unfold f64_min.
  destruct (PrimFloat.is_nan d) eqn:Nd.
  - split; auto. now apply fle_refl.
  - rewrite Nb. destruct (b <? d)%float eqn:L.
    + split; auto. now apply fle_refl.
    + split; auto. now apply not_ltb_fle.
Qed.

Lemma f64_max_ge m o b :
  ffin o -> PrimFloat.is_nan m = false -> fle m b -> fle o b ->
  fle o (f64_max m o) /\ fle (f64_max m o) b.
Proof.
  intros Fo Nm Hm Ho. pose proof (ffin_not_nan _ Fo) as No. unfold f64_max. rewrite Nm, No.
  destruct (m <? o)%float eqn:L.
  - split; auto. now apply fle_refl.
  - split; auto. now apply not_ltb_fle.
Qed.

Lemma f64_max0_not_nan a : PrimFloat.is_nan (f64_max a 0%float) = false.
Proof.
  unfold f64_max. destruct (PrimFloat.is_nan a) eqn:Na; [reflexivity|].
  change (PrimFloat.is_nan 0%float) with false. cbv iota.
  now destruct (a <? 0)%float.
Qed.

Lemma f64_clamp_range lo hi x :
  ffin lo -> ffin hi -> fle lo hi -> PrimFloat.is_nan x = false ->
  fle lo (f64_clamp lo hi x) /\ fle (f64_clamp lo hi x) hi.
Proof.
  intros Fl Fh Hlh Nx. unfold f64_clamp.
  destruct (x <? lo)%float eqn:L1.
  - split; auto. now apply fle_refl.
  - destruct (hi <? x)%float eqn:L2.
    + split; auto. now apply fle_refl.
    + split; apply not_ltb_fle; auto using ffin_not_nan.
Qed.

(** ---- RTT bonus in [1, MAX_RTT_BONUS] ------------------------------------------------------ *)
Lemma rtt_bonus_range c : fle 1%float (rtt_bonus c) /\ fle (rtt_bonus c) MAX_RTT_BONUS.
Proof.
  unfold rtt_bonus. destruct (smooth_rtt c <=? 0)%float.
  - split; fle_c.
  - set (d := (RTT_BONUS_THRESHOLD_MS / f64_max (smooth_rtt c) MIN_RTT_MS)%float).
    destruct (f64_min_le d MAX_RTT_BONUS) as (N & L); [fin_c|].
    apply f64_max_ge; auto; [fin_c | fle_c].
Qed.

(** ---- quality multiplier in [Q_LO, Q_HI] ---------------------------------------------------- *)
Lemma q_range_iff q : q_rangeb q = true <-> fle Q_LO q /\ fle q Q_HI.
Proof. unfold q_rangeb, fle. now rewrite andb_true_iff. Qed.
Lemma exp_ok_iff e : exp_okb e = true <-> fle 0%float e /\ fle e 1%float.
Proof. unfold exp_okb, fle. now rewrite andb_true_iff. Qed.

Definition QM_HI : PrimFloat.float := PERFECT_CONNECTION_BONUS.

(** the NAK part of the multiplier, before the RTT bonus *)
Lemma nak_mult_range e (burst : bool) :
  exp_okb e = true ->
  let mult := (1 - MAX_PENALTY * e)%float in
  let qm := if burst then (mult * NAK_BURST_PENALTY)%float else mult in
  fle Q_LO qm /\ fle qm QM_HI.
Proof.
  intros He. apply exp_ok_iff in He. destruct He as (E0 & E1). cbv zeta.
  destruct (mul_mono MAX_PENALTY MAX_PENALTY 0%float 1%float MAX_PENALTY e) as (Fp & P1 & P2 & _ & _);
    try assumption; try fle_c; try fin_c.
  destruct (sub_mono 1%float (MAX_PENALTY * 0)%float (MAX_PENALTY * 1)%float (MAX_PENALTY * e)%float)
    as (Fm & M1 & M2); try assumption; try fin_c.
  destruct burst.
  - destruct (mul_mono (1 - MAX_PENALTY * 1)%float (1 - MAX_PENALTY * 0)%float
                       NAK_BURST_PENALTY NAK_BURST_PENALTY
                       (1 - MAX_PENALTY * e)%float NAK_BURST_PENALTY) as (Fr & R1 & R2 & _ & _);
      try assumption; try fle_c; try fin_c.
    split.
    + apply (fle_tr _ ((1 - MAX_PENALTY * 1) * NAK_BURST_PENALTY)%float); auto; try fin_c; fle_c.
    + apply (fle_tr _ ((1 - MAX_PENALTY * 0) * NAK_BURST_PENALTY)%float); auto; try fin_c; fle_c.
  - split.
    + apply (fle_tr _ (1 - MAX_PENALTY * 1)%float); auto; try fin_c; fle_c.
    + apply (fle_tr _ (1 - MAX_PENALTY * 0)%float); auto; try fin_c; fle_c.
Qed.

Theorem calc_quality_range c now e :
  exp_okb e = true -> q_rangeb (calc_quality c now e) = true.
Proof.
  intros He. unfold calc_quality.
  destruct (ssub now (l_est c) <? STARTUP_GRACE_PERIOD_MS).
  { destruct (l_nakcnt c =? 0); vm_compute; reflexivity. }
  apply q_range_iff.
  set (qm := match time_since_last_nak c now with Some _ => _ | None => _ end).
  assert (Hq : fle Q_LO qm /\ fle qm QM_HI).
  { subst qm. destruct (time_since_last_nak c now) as [age|].
    - apply (nak_mult_range e ((NAK_BURST_THRESHOLD <=? l_nakburst c) && (age <? NAK_BURST_MAX_AGE_MS)) He).
    - destruct (l_nakcnt c =? 0); split; fle_c. }
  destruct Hq as (Q1 & Q2). destruct (rtt_bonus_range c) as (B1 & B2).
  destruct (mul_mono Q_LO QM_HI 1%float MAX_RTT_BONUS qm (rtt_bonus c)) as (Fr & R1 & R2 & _ & _);
    try assumption; try fle_c; try fin_c.
  split.
  - apply (fle_tr _ (Q_LO * 1)%float); auto; try fin_c; fle_c.
  - exact R2.
Qed.

(** ---- u64 -> f64 ------------------------------------------------------------------------------ *)
Lemma lt0_of_le c y : ffin c -> ffin y -> (0 <? c)%float = true -> fle c y -> (0 <? y)%float = true.
Proof.
  intros Fc Fy Hc Hy. assert (F0 : ffin 0%float) by reflexivity.
  rewrite ltb_R in * by assumption. apply fle_R in Hy; auto.
  revert Hc. case Rlt_bool_spec; try easy. intros H _. apply Rlt_bool_true. lra.
Qed.

Lemma of_u64_pos n : 1 <= n <= u64_max ->
  ffin (f64_of_u64 n) /\ (0 <? f64_of_u64 n)%float = true.
Proof.
  intros Hn. unfold f64_of_u64, f64_of_nat63. fold (ofZ n).
  destruct (n <? 9223372036854775808) eqn:L.
  - apply Z.ltb_lt in L. destruct (ofZ_R n) as (F & _); [lia|]. split; auto.
    apply (lt0_of_le (ofZ 1)); [fin_c | exact F | vm_compute; reflexivity | apply ofZ_mono; lia].
  - apply Z.ltb_ge in L. unfold u64_max, two64 in Hn.
    set (h := Z.lor (n / 2) (n mod 2)). fold (ofZ h).
    assert (Hh : 1 <= h < 9223372036854775808).
    { subst h. assert (A : 4611686018427387904 <= n / 2 < 9223372036854775808).
      { split; [apply Z.div_le_lower_bound | apply Z.div_lt_upper_bound]; lia. }
      assert (B : 0 <= n mod 2 < 2) by (apply Z.mod_pos_bound; lia).
      assert (P : 0 <= Z.lor (n / 2) (n mod 2)) by (apply Z.lor_nonneg; lia).
      split.
      - assert (Z.lor (n / 2) (n mod 2) <> 0); [|lia].
        intros E. apply Z.lor_eq_0_iff in E. lia.
      - change 9223372036854775808 with (2 ^ 63). apply Z.log2_lt_pow2; [|].
        + assert (Z.lor (n / 2) (n mod 2) <> 0); [|lia].
          intros E. apply Z.lor_eq_0_iff in E. lia.
        + rewrite Z.log2_lor by lia. apply Z.max_lub_lt.
          * apply Z.log2_lt_pow2; lia.
          * destruct (Z.eq_dec (n mod 2) 0) as [->|]; [simpl; lia|]. apply Z.log2_lt_pow2; lia. }
    destruct (mul_mono (ofZ 1) (ofZ 9223372036854775807) 2%float 2%float (ofZ h) 2%float)
      as (F & L1 & _ & _ & F1);
      [fin_c | fle_c | apply ofZ_mono; lia | apply ofZ_mono; lia | fle_c | fle_c | fle_c | ].
    split; auto.
    apply (lt0_of_le (ofZ 1 * 2)%float); [exact F1 | exact F | vm_compute; reflexivity | exact L1].
Qed.

Lemma div_not_nan' x y :
  PrimFloat.is_nan x = false -> ffin y -> (0 <? y)%float = true -> PrimFloat.is_nan (x / y)%float = false.
Proof.
  intros Nx Fy Hy. apply div_not_nan; auto.
  assert (F0 : ffin 0%float) by reflexivity. rewrite ltb_R in Hy by assumption.
  revert Hy. case Rlt_bool_spec; try easy. change (FR 0%float) with 0%R. intros; lra.
Qed.

(** ---- CC soft-cap factor in [CC_SOFT_CAP_FLOOR, 1] -------------------------------------------- *)
Theorem soft_cap_range c :
  0 <= l_cct c <= u64_max ->
  fle CC_SOFT_CAP_FLOOR (cc_soft_cap_multiplier c) /\ fle (cc_soft_cap_multiplier c) 1%float.
Proof.
  intros Hc. unfold cc_soft_cap_multiplier.
  destruct (l_cct c =? 0) eqn:E0; [split; fle_c|].
  destruct (l_bps c <=? 0)%float; [split; fle_c|].
  apply Z.eqb_neq in E0. destruct (of_u64_pos (l_cct c)) as (Fc & Pc); [lia|].
  apply f64_clamp_range; [fin_c | fin_c | fle_c | ].
  apply div_not_nan'; [apply f64_max0_not_nan | exact Fc | exact Pc].
Qed.

(** ---- every score of a connected, well-formed link is >= 0 ------------------------------------ *)
Lemma wf_pubb_iff c : wf_pubb c = true <->
  0 <= l_window c <= i32_max /\ 0 <= l_queued c /\ 0 <= l_cct c <= u64_max.
Proof. unfold wf_pubb. rewrite !andb_true_iff, !Z.leb_le. tauto. Qed.

Lemma get_score_range c : l_conn c = true -> wf_pubb c = true -> 0 <= get_score c <= i32_max.
Proof.
  intros Hc Hw. apply wf_pubb_iff in Hw. destruct Hw as (Hw & _ & _).
  unfold get_score. rewrite Hc. cbn [negb].
  set (d := Z.max _ 1). assert (Hd : 1 <= d) by (subst d; lia).
  split.
  - apply Z.quot_pos; lia.
  - apply Z.le_trans with (l_window c); [|lia]. apply Z.quot_le_upper_bound; nia.
Qed.

Lemma phase_weight_range c : fle 0%float (phase_weight c) /\ fle (phase_weight c) 1%float.
Proof. unfold phase_weight. destruct (l_phase c); split; fle_c. Qed.

Lemma gate_range (b : bool) :
  fle 0%float (if b then GATED_LINK_PENALTY else 1%float) /\
  fle (if b then GATED_LINK_PENALTY else 1%float) 1%float.
Proof. destruct b; split; fle_c. Qed.

Lemma cached_quality_range c now e q c' :
  wf_linkb c = true -> exp_okb e = true -> cached_quality c now e = (q, c') ->
  q_rangeb q = true /\ wf_linkb c' = true.
Proof.
  unfold cached_quality, wf_linkb. intros Hw He. apply andb_true_iff in Hw. destruct Hw as (Hp & Hq).
  destruct (QUALITY_CACHE_INTERVAL_MS <=? ssub now (l_qlast c)); intros E; inversion E; subst; clear E.
  - pose proof (calc_quality_range c now e He) as R. split; auto.
    apply andb_true_iff. split; [exact Hp | exact R].
  - split; auto. apply andb_true_iff. now split.
Qed.

Definition HB : PrimFloat.float := ofZ 2147483647.

Lemma base_range c : l_conn c = true -> wf_pubb c = true ->
  let base := (f64_of_i32 (get_score c) * phase_weight c)%float in
  fle 0%float base /\ fle base (HB * 1)%float.
Proof.
  intros Hc Hw. pose proof (get_score_range c Hc Hw) as G. unfold i32_max, two31 in G.
  cbv zeta. unfold f64_of_i32. replace (get_score c <? 0) with false by (symmetry; apply Z.ltb_ge; lia).
  unfold f64_of_nat63. fold (ofZ (get_score c)).
  destruct (phase_weight_range c) as (W0 & W1).
  apply mul_nn; [fin_c | apply ofZ_nonneg; lia | apply ofZ_mono; lia | exact W0 | exact W1].
Qed.

Theorem score_link_nonneg au quality now e c s c' :
  wf_linkb c = true -> exp_okb e = true -> l_conn c = true ->
  score_link au quality now e c = Some (s, c') -> fle 0%float s.
Proof.
  intros Hw He Hc. unfold score_link.
  destruct (skipped now c); [discriminate|].
  destruct (au && in_flight_cap_exceeded c); [discriminate|].
  assert (Hp : wf_pubb c = true) by (unfold wf_linkb in Hw; now apply andb_true_iff in Hw).
  destruct (base_range c Hc Hp) as (B0 & B1). cbv zeta in B0, B1.
  set (base := (f64_of_i32 (get_score c) * phase_weight c)%float) in *.
  destruct (gate_range (au && (l_weak c || l_lossdeg c))) as (G0 & G1).
  set (gate := if au && (l_weak c || l_lossdeg c) then GATED_LINK_PENALTY else 1%float) in *.
  assert (Hcc : 0 <= l_cct c <= u64_max) by (apply wf_pubb_iff in Hp; tauto).
  destruct (soft_cap_range c Hcc) as (C0' & C1).
  assert (C0 : fle 0%float (cc_soft_cap_multiplier c)).
  { apply (fle_tr _ CC_SOFT_CAP_FLOOR); [reflexivity | | fle_c | exact C0'].
    apply (fle_fin_between CC_SOFT_CAP_FLOOR _ 1%float); [fin_c | fin_c | exact C0' | exact C1]. }
  set (capm := cc_soft_cap_multiplier c) in *.
  destruct quality; cbn [negb].
  - destruct (cached_quality c now e) as (q, c1) eqn:Eq.
    destruct (cached_quality_range c now e q c1 Hw He Eq) as (Rq & _).
    apply q_range_iff in Rq. destruct Rq as (Q0' & Q1).
    assert (Q0 : fle 0%float q).
    { apply (fle_tr _ Q_LO); [reflexivity | | fle_c | exact Q0'].
      apply (fle_fin_between Q_LO _ Q_HI); [fin_c | fin_c | exact Q0' | exact Q1]. }
    intros E. inversion E; subst; clear E.
    destruct (mul_nn base q (HB * 1)%float Q_HI) as (X0 & X1); [fin_c | assumption..|].
    destruct (mul_nn (base * q)%float capm (HB * 1 * Q_HI)%float 1%float) as (Y0 & Y1); [fin_c | assumption..|].
    destruct (mul_nn (base * q * capm)%float gate (HB * 1 * Q_HI * 1)%float 1%float) as (Z0 & Z1);
      [fin_c | assumption..|].
    exact Z0.
  - intros E. inversion E; subst; clear E.
    destruct (mul_nn base capm (HB * 1)%float 1%float) as (Y0 & Y1); [fin_c | assumption..|].
    destruct (mul_nn (base * capm)%float gate (HB * 1 * 1)%float 1%float) as (Z0 & Z1);
      [fin_c | assumption..|].
    exact Z0.
Qed.

Corollary score_link_above_floor au quality now e c s c' :
  wf_linkb c = true -> exp_okb e = true -> l_conn c = true ->
  score_link au quality now e c = Some (s, c') -> ((-1)%float <? s)%float = true.
Proof. intros. apply fle0_gt_m1. eapply score_link_nonneg; eauto. Qed.
(** ---- no score is NaN (disconnected links included: their base is -1) ------------------------- *)
Lemma bra_opp prec emax s m e l :
  SpecFloat.binary_round_aux prec emax (negb s) m e l = SFopp (SpecFloat.binary_round_aux prec emax s m e l).
Proof.
  unfold SpecFloat.binary_round_aux.
  destruct (SpecFloat.shr_fexp prec emax m e l) as (mrs', e').
  destruct (SpecFloat.shr_fexp prec emax _ e' SpecFloat.loc_Exact) as (mrs'', e'').
  destruct (SpecFloat.shr_m mrs''); try reflexivity.
  now destruct (Zle_bool e'' (emax - prec)).
Qed.

Lemma opp_mul_l x y : (- x * y)%float = (- (x * y))%float.
Proof.
  apply Prim2SF_inj. rewrite mul_spec, !opp_spec, mul_spec.
  destruct (Prim2SF x) as [sx|sx| |sx mx ex], (Prim2SF y) as [sy|sy| |sy my ey]; cbn; try reflexivity;
  try (now destruct sx, sy).
  replace (xorb (negb sx) sy) with (negb (xorb sx sy)) by now destruct sx, sy.
  apply bra_opp.
Qed.

Lemma is_nan_opp x : PrimFloat.is_nan (- x)%float = PrimFloat.is_nan x.
Proof. rewrite !is_nan_equiv, opp_equiv. apply is_nan_Bopp. Qed.

Lemma chain_nonneg B W q capm gate :
  fle 0%float B -> fle B HB -> fle 0%float W -> fle W 1%float -> fle 0%float q -> fle q Q_HI ->
  fle 0%float capm -> fle capm 1%float -> fle 0%float gate -> fle gate 1%float ->
  fle 0%float (B * W * q * capm * gate)%float /\ fle 0%float (B * W * capm * gate)%float.
Proof.
  intros B0 B1 W0 W1 Q0 Q1 C0 C1 G0 G1.
  destruct (mul_nn B W HB 1%float) as (X0 & X1); [fin_c | assumption..|].
  split.
  - destruct (mul_nn (B * W)%float q (HB * 1)%float Q_HI) as (Y0 & Y1); [fin_c | assumption..|].
    destruct (mul_nn (B * W * q)%float capm (HB * 1 * Q_HI)%float 1%float) as (Z0 & Z1); [fin_c | assumption..|].
    destruct (mul_nn (B * W * q * capm)%float gate (HB * 1 * Q_HI * 1)%float 1%float) as (U0 & U1);
      [fin_c | assumption..|]. exact U0.
  - destruct (mul_nn (B * W)%float capm (HB * 1)%float 1%float) as (Z0 & Z1); [fin_c | assumption..|].
    destruct (mul_nn (B * W * capm)%float gate (HB * 1 * 1)%float 1%float) as (U0 & U1);
      [fin_c | assumption..|]. exact U0.
Qed.

Theorem score_link_not_nan au quality now e c s c' :
  wf_linkb c = true -> exp_okb e = true ->
  score_link au quality now e c = Some (s, c') -> PrimFloat.is_nan s = false.
Proof.
  intros Hw He E. destruct (l_conn c) eqn:Hc.
  { apply (fle_not_nan_r 0%float). eapply score_link_nonneg; eauto. }
  revert E. unfold score_link.
  destruct (skipped now c); [discriminate|].
  destruct (au && in_flight_cap_exceeded c); [discriminate|].
  assert (Hp : wf_pubb c = true) by (unfold wf_linkb in Hw; now apply andb_true_iff in Hw).
  unfold get_score. rewrite Hc. cbn [negb].
  change (f64_of_i32 (-1)) with (PrimFloat.opp 1%float).
  destruct (phase_weight_range c) as (W0 & W1).
  destruct (gate_range (au && (l_weak c || l_lossdeg c))) as (G0 & G1).
  set (gate := if au && (l_weak c || l_lossdeg c) then GATED_LINK_PENALTY else 1%float) in *.
  assert (Hcc : 0 <= l_cct c <= u64_max) by (apply wf_pubb_iff in Hp; tauto).
  destruct (soft_cap_range c Hcc) as (C0' & C1).
  assert (C0 : fle 0%float (cc_soft_cap_multiplier c)).
  { apply (fle_tr _ CC_SOFT_CAP_FLOOR); [reflexivity | | fle_c | exact C0'].
    apply (fle_fin_between CC_SOFT_CAP_FLOOR _ 1%float); [fin_c | fin_c | exact C0' | exact C1]. }
  set (capm := cc_soft_cap_multiplier c) in *.
  assert (B0 : fle 0%float 1%float) by fle_c. assert (B1 : fle 1%float HB) by fle_c.
  destruct quality; cbn [negb].
  - destruct (cached_quality c now e) as (q, c1) eqn:Eq.
    destruct (cached_quality_range c now e q c1 Hw He Eq) as (Rq & _).
    apply q_range_iff in Rq. destruct Rq as (Q0' & Q1).
    assert (Q0 : fle 0%float q).
    { apply (fle_tr _ Q_LO); [reflexivity | | fle_c | exact Q0'].
      apply (fle_fin_between Q_LO _ Q_HI); [fin_c | fin_c | exact Q0' | exact Q1]. }
    intros E. injection E as E _. subst s.
    change (-1)%float with (PrimFloat.opp 1%float).
    rewrite !opp_mul_l, is_nan_opp.
    apply (fle_not_nan_r 0%float).
    now destruct (chain_nonneg 1%float (phase_weight c) q capm gate).
  - intros E. injection E as E _. subst s.
    change (-1)%float with (PrimFloat.opp 1%float).
    rewrite !opp_mul_l, is_nan_opp.
    apply (fle_not_nan_r 0%float).
    destruct (chain_nonneg 1%float (phase_weight c) 1%float capm gate) as (_ & H); try assumption; try fle_c.
Qed.
