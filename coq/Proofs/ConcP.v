(** ConcP.v — concurrent setters / snapshot readers: the atomic-action decomposition agrees with
    the sequential dispatcher, and under EVERY interleaving loads return the latest store, the
    last store wins, and the timeout stays clamped. *)
From Srtla Require Import Base Constants Json Control ControlSpec ControlConc JsonP DecodeP ControlP Run_C18 C18P.
From Coq Require Import ZifyBool.
Local Open Scope string_scope.
Local Open Scope Z_scope.

Lemma snapshot_mem_of c : snapshot_of (mem_of c) = c.
Proof. destruct c as [[] [] [] mif st t]; reflexivity. Qed.

Lemma get_set_same m f v : get_field (set_field m f v) f = v.
Proof. destruct f; reflexivity. Qed.
Lemma get_set_other m f g v : field_eqb g f = false -> get_field (set_field m f v) g = get_field m g.
Proof. destruct f, g; cbn; intro H; (discriminate || reflexivity). Qed.
Lemma field_eqb_eq a b : field_eqb a b = true -> a = b.
Proof. destruct a, b; cbn; intro H; (discriminate || reflexivity). Qed.

Lemma store_applies c s :
  snapshot_of (fst (exec_actions (mem_of c) [store_of s])) = apply_setting c (Some s).
Proof. destruct c as [[] [] [] mif st t]; destruct s as [[]|[]|[]|z]; reflexivity. Qed.

Lemma setting_not_status l s : spec_setting l = Some s -> reads_status l = false.
Proof.
  unfold reads_status. rewrite spec_setting_unfold. destruct l as [| |j]; try discriminate.
  cbn [line_request]. destruct (spec_request j) as [[[[v me] p] id]|]; [|reflexivity].
  destruct (String.eqb v "2.0"); [|reflexivity]. cbn [andb].
  destruct (String.eqb me "get_status") eqn:E; [|reflexivity].
  apply String.eqb_eq in E. subst me. rewrite setting_of_status.
  destruct (params_ok "get_status" p); discriminate.
Qed.

(** a line that does not reach get_status answers without looking at the configuration *)
Lemma response_config_independent c c' e l :
  reads_status l = false -> fst (dispatch c e l) = fst (dispatch c' e l).
Proof.
  intro H. rewrite !dispatch_unfold. destruct l as [| |j]; try reflexivity.
  unfold reads_status in H. destruct (spec_request j) as [[[[v me] p] id]|]; [|reflexivity].
  destruct (String.eqb v "2.0"); cbn [negb andb] in *; [|reflexivity].
  rewrite !handle_method_sem.
  destruct (negb (is_base_method me)); [reflexivity|].
  destruct (negb (params_ok me p)); [reflexivity|].
  destruct (String.eqb me "get_stats"); [destruct (e_stats e); reflexivity|].
  unfold result_of. rewrite H. reflexivity.
Qed.

Theorem conc_sequential c e l :
  let '(m', loads) := exec_actions (mem_of c) (actions_of l) in
  snapshot_of m' = snd (dispatch c e l) /\ fst (dispatch c e l) = respond_conc e l loads.
Proof.
  pose proof (dispatch_conforms c e l) as (_ & _ & _ & Hcfg).
  unfold actions_of. destruct (spec_setting l) as [s|] eqn:Es.
  - pose proof (store_applies c s) as Hs. destruct s as [m|b|b|z]; cbn [store_of exec_actions] in *;
      (split; [rewrite Hcfg; exact Hs|]);
      unfold respond_conc; cbn [mem_of_loads]; apply response_config_independent;
      exact (setting_not_status l _ Es).
  - destruct (reads_status l) eqn:Er.
    + assert (Hx : exec_actions (mem_of c) snapshot_loads =
                   (mem_of c, map (get_field (mem_of c)) [FMode; FQuality; FStall; FMif; FStale; FTimeout])) by reflexivity.
      rewrite Hx. split.
      * rewrite Hcfg. cbn [apply_setting]. apply snapshot_mem_of.
      * unfold respond_conc.
        assert (Hm : mem_of_loads (map (get_field (mem_of c)) [FMode; FQuality; FStall; FMif; FStale; FTimeout]) = mem_of c) by reflexivity.
        rewrite Hm, snapshot_mem_of. reflexivity.
    + cbn [exec_actions]. split.
      * rewrite Hcfg. cbn [apply_setting]. apply snapshot_mem_of.
      * unfold respond_conc. apply response_config_independent. exact Er.
Qed.

(** ---- interleavings ---- *)
Definition store_ok (a : action) : Prop :=
  match a with AStore FTimeout v => 1000 <= v <= 60000 | _ => True end.
Definition mem_in_range (m : cmem) : Prop := 1000 <= m_timeout m <= 60000.

Lemma actions_of_ok l : Forall store_ok (actions_of l).
Proof.
  unfold actions_of. destruct (spec_setting l) as [s|] eqn:Es.
  - constructor; [|constructor]. destruct s as [m|b|b|z]; cbn; trivial.
    exact (spec_setting_range l z Es).
  - destruct (reads_status l); [|constructor]. unfold snapshot_loads. repeat constructor.
Qed.

Lemma program_ok p : Forall store_ok (List.concat (map actions_of p)).
Proof.
  induction p as [|l p IH]; [constructor|]. cbn [map List.concat]. apply Forall_app. split; [apply actions_of_ok|exact IH].
Qed.

Lemma pop_thread_ok thr : forall tid a thr',
  Forall (Forall store_ok) thr -> pop_thread thr tid = Some (a, thr') ->
  store_ok a /\ Forall (Forall store_ok) thr'.
Proof.
  induction thr as [|p others IH]; intros tid a thr' Hf Hp; [discriminate|].
  inversion Hf as [|? ? Hp0 Hothers]. subst.
  destruct tid as [|k]; cbn [pop_thread] in Hp.
  - destruct p as [|a0 rest]; [discriminate|]. injection Hp as <- <-.
    inversion Hp0. subst. split; [assumption|]. constructor; assumption.
  - destruct (pop_thread others k) as [[a0 others']|] eqn:E; [|destruct p; discriminate].
    assert (Hp' : Some (a0, p :: others') = Some (a, thr')) by (destruct p; exact Hp).
    injection Hp' as <- <-. destruct (IH k a0 others' Hothers E) as [Ha Ho].
    split; [exact Ha|]. constructor; assumption.
Qed.

Definition load_ok (ev : event) : Prop :=
  match ev with (_, ALoad FTimeout, v) => 1000 <= v <= 60000 | _ => True end.

Lemma run_sched_range sched : forall m thr,
  mem_in_range m -> Forall (Forall store_ok) thr ->
  mem_in_range (fst (run_sched m thr sched)) /\ Forall load_ok (snd (run_sched m thr sched)).
Proof.
  induction sched as [|tid rest IH]; intros m thr Hm Hf; cbn [run_sched].
  - split; [exact Hm|constructor].
  - destruct (pop_thread thr tid) as [[a thr']|] eqn:Ep; [|apply IH; assumption].
    destruct (pop_thread_ok thr tid a thr' Hf Ep) as [Ha Hf'].
    destruct a as [f v|f].
    + assert (Hm' : mem_in_range (set_field m f v)).
      { unfold mem_in_range in *. destruct f; cbn in *; try exact Hm. exact Ha. }
      destruct (IH (set_field m f v) thr' Hm' Hf') as [H1 H2].
      destruct (run_sched (set_field m f v) thr' rest) as [m' evs]. cbn [fst snd] in *.
      split; [exact H1|]. constructor; [exact I|exact H2].
    + destruct (IH m thr' Hm Hf') as [H1 H2].
      destruct (run_sched m thr' rest) as [m' evs]. cbn [fst snd] in *.
      split; [exact H1|]. constructor; [|exact H2].
      unfold load_ok. destruct f; trivial.
Qed.

Theorem conc_timeout_clamped (progs : list (list line_outcome)) sched m :
  mem_in_range m ->
  let '(m', evs) := run_sched m (map (fun p => List.concat (map actions_of p)) progs) sched in
  mem_in_range m' /\ Forall load_ok evs.
Proof.
  intro Hm.
  assert (Hf : Forall (Forall store_ok) (map (fun p => List.concat (map actions_of p)) progs)).
  { apply Forall_map. apply Forall_forall. intros p _. apply program_ok. }
  pose proof (run_sched_range sched m _ Hm Hf) as H.
  destruct (run_sched m (map (fun p => List.concat (map actions_of p)) progs) sched). exact H.
Qed.

Lemma run_sched_loads sched : forall m thr,
  (forall pre tid f v post, snd (run_sched m thr sched) = (pre ++ (tid, ALoad f, v) :: post)%list ->
     v = last_store f pre (get_field m f)) /\
  (forall f, get_field (fst (run_sched m thr sched)) f = last_store f (snd (run_sched m thr sched)) (get_field m f)).
Proof.
  induction sched as [|tid rest IH]; intros m thr; cbn [run_sched].
  - split; [intros [|] ? ? ? ? H; discriminate|reflexivity].
  - destruct (pop_thread thr tid) as [[a thr']|] eqn:Ep; [|apply IH].
    destruct a as [f0 v0|f0].
    + destruct (IH (set_field m f0 v0) thr') as [H1 H2].
      destruct (run_sched (set_field m f0 v0) thr' rest) as [m' evs]. cbn [fst snd] in *.
      assert (Hg : forall f, get_field (set_field m f0 v0) f = if field_eqb f f0 then v0 else get_field m f).
      { intro f. destruct (field_eqb f f0) eqn:E; [apply field_eqb_eq in E; subst; apply get_set_same|apply get_set_other; exact E]. }
      split.
      * intros [|e0 pre] t f v post Hsplit; cbn [app] in Hsplit; [discriminate|].
        injection Hsplit as <- Hsplit. cbn [last_store]. rewrite <- Hg. eapply H1. exact Hsplit.
      * intro f. cbn [last_store]. rewrite <- Hg. apply H2.
    + destruct (IH m thr') as [H1 H2].
      destruct (run_sched m thr' rest) as [m' evs]. cbn [fst snd] in *.
      split.
      * intros [|e0 pre] t f v post Hsplit; cbn [app] in Hsplit.
        -- injection Hsplit as _ <- <- _. reflexivity.
        -- injection Hsplit as <- Hsplit. cbn [last_store]. eapply H1. exact Hsplit.
      * intro f. cbn [last_store]. apply H2.
Qed.

Theorem conc_loads_were_stored thr sched m :
  let '(m', evs) := run_sched m thr sched in
  forall pre tid f v post, evs = (pre ++ (tid, ALoad f, v) :: post)%list ->
    v = last_store f pre (get_field m f).
Proof.
  pose proof (run_sched_loads sched m thr) as [H _].
  destruct (run_sched m thr sched). exact H.
Qed.

Theorem conc_last_store_wins thr sched m f :
  let '(m', evs) := run_sched m thr sched in get_field m' f = last_store f evs (get_field m f).
Proof.
  pose proof (run_sched_loads sched m thr) as [_ H].
  destruct (run_sched m thr sched). apply H.
Qed.

(** hence a load never returns an invented value: it is the initial content or the value of some
    store to that field that precedes it in the schedule *)
Lemma last_store_in f evs : forall d,
  last_store f evs d = d \/ exists tid v x, In (tid, AStore f v, x) evs /\ last_store f evs d = v.
Proof.
  induction evs as [|[[tid a] x] evs IH]; intro d; [left; reflexivity|].
  destruct a as [f' v|f']; cbn [last_store].
  - destruct (field_eqb f f') eqn:E.
    + apply field_eqb_eq in E. subst f'. destruct (IH v) as [H|(t & v' & x' & Hin & H)].
      * right. exists tid, v, x. split; [left; reflexivity|exact H].
      * right. exists t, v', x'. split; [right; exact Hin|exact H].
    + destruct (IH d) as [H|(t & v' & x' & Hin & H)]; [left; exact H|].
      right. exists t, v', x'. split; [right; exact Hin|exact H].
  - destruct (IH d) as [H|(t & v' & x' & Hin & H)]; [left; exact H|].
    right. exists t, v', x'. split; [right; exact Hin|exact H].
Qed.

Theorem conc_loads_not_invented thr sched m :
  let '(m', evs) := run_sched m thr sched in
  forall pre tid f v post, evs = (pre ++ (tid, ALoad f, v) :: post)%list ->
    v = get_field m f \/ exists tid' x, In (tid', AStore f v, x) pre.
Proof.
  pose proof (conc_loads_were_stored thr sched m) as H.
  destruct (run_sched m thr sched) as [m' evs]. intros pre tid f v post Hs.
  rewrite (H pre tid f v post Hs).
  destruct (last_store_in f pre (get_field m f)) as [E|(t & v' & x & Hin & E)]; [left; exact E|].
  right. exists t, x. rewrite E. exact Hin.
Qed.
