(** LeafRegP.v — the registration manager as regenerated from the Rust source on every run
    (coq/Gen/LeafReg.v, crates/srtla-core/src/registration/mod.rs) = the hand-written model of Model/Reg.v
    (C07).  See DESIGN.md §12.8 (third batch).

    Every lemma is a whole-record equality: the fields the generated definition returns are put back into
    the manager record, all other fields are the old ones (the frame).  Packet bytes are property C15's
    subject: a produced packet is [tt] on the generated side, the model's packet (kind, uplink, id) on the
    other; what is compared is WHETHER one is produced.  [handle_probe_response] (probing.rs, a SmallVec
    search) is not translated: the generated [handle_reg_ngp] says on which path and with which arguments
    it is called, as its last effect. *)
From Coq Require Import List.
From Srtla Require Import Base Constants LeafReg LeafTac.
From Srtla Require Reg.
From Coq Require Import ZifyBool.
Import ListNotations.
Local Open Scope Z_scope.

(** the model has no [Probing] state (it only exists inside [start_probing]) *)
Definition ps_of (p : Reg.pstate) : ProbingState :=
  match p with
  | Reg.PNotStarted => ProbingState_NotStarted
  | Reg.PWaiting => ProbingState_WaitingForProbes
  | Reg.PComplete => ProbingState_Complete
  end.

(** the four handshake fields every handler writes, put back into the record *)
Definition set_hs (r : Reg.reg) (p : option Z) (pt : Z) (t : option Z) (n : Z) : Reg.reg :=
  Reg.mkReg (Reg.r_id r) p pt (Reg.r_active r) (Reg.r_hasconn r) (Reg.r_flag r) t n
            (Reg.r_pstate r) (Reg.r_pid r) (Reg.r_probes r).

Ltac reg_enum := repeat match goal with x : Reg.pstate |- _ => destruct x end.
Ltac reg_auto := first [ solve [ intros; leaf_records; reg_enum; leaf_auto ]
                       | solve [ intros; leaf_records; reg_enum; leaf_auto2 ] ].

Lemma leaf_reg_handle_reg3_ok r :
  Reg.handle_reg3 true r =
  let '(a, h) := leaf_reg_handle_reg3 (Reg.r_active r) (Reg.r_hasconn r) in
  Reg.mkReg (Reg.r_id r) (Reg.r_pending r) (Reg.r_ptimeout r) a h (Reg.r_flag r) (Reg.r_target r) (Reg.r_next r)
            (Reg.r_pstate r) (Reg.r_pid r) (Reg.r_probes r).
Proof. first [ solve [ destruct r; reflexivity ] | reg_auto ]. Qed.

Lemma leaf_reg_handle_reg_err_ok r i now :
  Reg.handle_reg_err r now =
  let '(p, pt, t, n) := leaf_reg_handle_reg_err (Reg.r_pending r) (Reg.r_ptimeout r) (Reg.r_target r) (Reg.r_next r) i now in
  set_hs r p pt t n.
Proof. first [ solve [ destruct r as [? [?|] ? ? ? ? ? ? ? ? ?]; unfold leaf_reg_handle_reg_err; cbn;
                       try destruct (_ =? _); reflexivity ] | reg_auto ]. Qed.

Lemma leaf_reg_handle_reg_ngp_ok r i now :
  Reg.handle_reg_ngp r i now =
  match leaf_reg_handle_reg_ngp (Reg.r_pending r) (Reg.r_active r) (Reg.r_target r) (Reg.r_next r)
                                (ps_of (Reg.r_pstate r)) i now with
  | (t, n, Some (i', now')) => Reg.handle_probe_response (set_hs r (Reg.r_pending r) (Reg.r_ptimeout r) t n) i' now'
  | (t, n, None) => set_hs r (Reg.r_pending r) (Reg.r_ptimeout r) t n
  end.
Proof. reg_auto. Qed.

Lemma leaf_reg_clear_pending_if_timed_out_ok r now :
  Reg.clear_pending_if_timed_out r now =
  let '(p, pt, t, n, _) := leaf_reg_clear_pending_if_timed_out (Reg.r_pending r) (Reg.r_ptimeout r) (Reg.r_target r)
                                                               (Reg.r_next r) now in
  set_hs r p pt t n.
Proof. reg_auto. Qed.

(** the value returned is the uplink that was being awaited, exactly when the wait is abandoned *)
Lemma leaf_reg_clear_pending_ret_ok r now :
  let '(p, _, _, _, ret) := leaf_reg_clear_pending_if_timed_out (Reg.r_pending r) (Reg.r_ptimeout r) (Reg.r_target r)
                                                                (Reg.r_next r) now in
  ret = (if Reg.is_none p then Reg.r_pending r else None).
Proof. reg_auto. Qed.

Lemma leaf_reg_build_reg1_for_ok r i now :
  fst (Reg.build_reg1_for r i now) =
  let '(p, pt, t, n, _) := leaf_reg_build_reg1_for (Reg.r_pending r) (Reg.r_ptimeout r) (Reg.r_target r) (Reg.r_next r) i now in
  set_hs r p pt t n.
Proof. reg_auto. Qed.

Lemma leaf_reg_reg1_if_ngp_immediate_ok r i now :
  Reg.reg1_if_ngp_immediate r i now =
  let '(p, pt, t, n, produced) :=
    leaf_reg_reg1_if_ngp_immediate (Reg.r_pending r) (Reg.r_ptimeout r) (Reg.r_active r) (Reg.r_target r) (Reg.r_next r) i now in
  (set_hs r p pt t n, match produced with Some _ => [(Reg.K_REG1, i, Reg.r_id r)] | None => [] end).
Proof. reg_auto. Qed.

(** the registration driver of housekeeping: new state, the REG1 target (if a REG1 is produced) and the id that is
    broadcast (if a REG2 broadcast is produced); the returned [RegDriverSends] is the pair of its two fields *)
Lemma leaf_reg_driver_pending_sends_ok r now :
  Reg.reg_driver r now =
  let '(p, pt, fl, n, (s1, b)) :=
    leaf_reg_driver_pending_sends (Reg.r_pending r) (Reg.r_ptimeout r) (Reg.r_active r) (Reg.r_flag r) (Reg.r_target r)
                                  (Reg.r_next r) now in
  (Reg.mkReg (Reg.r_id r) p pt (Reg.r_active r) (Reg.r_hasconn r) fl (Reg.r_target r) n
             (Reg.r_pstate r) (Reg.r_pid r) (Reg.r_probes r),
   match s1 with Some (idx, _) => Some idx | None => None end,
   match b with Some _ => Some (Reg.r_id r) | None => None end).
Proof. reg_auto. Qed.

(** REG2: [len] is the datagram length; the id is adopted (the model's [tag] = bytes 2..2+SRTLA_ID_LEN of the
    datagram) exactly when the generated function copies a range of the datagram into [srtla_id] *)
Lemma leaf_reg_handle_reg2_ok r i len tag now :
  Reg.handle_reg2 r i len tag now =
  let '(copied, p, pt, fl, t, n) :=
    leaf_reg_handle_reg2 (Reg.r_pending r) (Reg.r_ptimeout r) (Reg.r_flag r) (Reg.r_target r) (Reg.r_next r) i len now in
  Reg.mkReg (match copied with Some _ => tag | None => Reg.r_id r end) p pt (Reg.r_active r) (Reg.r_hasconn r) fl t n
            (Reg.r_pstate r) (Reg.r_pid r) (Reg.r_probes r).
Proof. reg_auto. Qed.

(** the range copied is bytes 2 .. 2+SRTLA_ID_LEN, it has the length of the id array and lies inside the
    datagram (so [copy_from_slice] cannot panic) *)
Lemma leaf_reg_handle_reg2_range_ok p pt fl t n i len now lo hi :
  fst (fst (fst (fst (fst (leaf_reg_handle_reg2 p pt fl t n i len now))))) = Some (lo, hi) ->
  lo = 2 /\ hi - lo = SRTLA_ID_LEN /\ 0 <= lo /\ hi <= len.
Proof.
  first [ solve [ unfold leaf_reg_handle_reg2; cbv beta zeta delta [REG2_TIMEOUT REG3_TIMEOUT SRTLA_ID_LEN];
                  repeat match goal with |- context [if ?b then _ else _] => destruct b eqn:? end; cbn [fst];
                  intros H; inversion H; lia ]
        | (unfold leaf_reg_handle_reg2; intros H; leaf_unfold2;
           repeat match type of H with context [if ?b then _ else _] => destruct b eqn:? end;
           repeat match type of H with context [match ?x with Some _ => _ | None => _ end] => destruct x eqn:? end;
           cbn in H; try discriminate; inversion H; subst; cbv in *; lia) ].
Qed.
