(** SetP.v — sorted-list sets: insertion sort, membership, extensionality. *)
From Srtla Require Import Base Constants Conn Run_Core Run_C02.
From Coq Require Import Sorting.Sorted ZifyBool.

Lemma zlist_eqb_eq l l' : zlist_eqb l l' = true <-> l = l'.
Proof.
  revert l'. induction l as [|x l IH]; intros [|y l']; cbn; split; try discriminate; try reflexivity.
  - intros H. apply andb_true_iff in H as [H1 H2]. apply Z.eqb_eq in H1. apply IH in H2. congruence.
  - intros H. inversion H; subst. rewrite Z.eqb_refl. cbn. apply IH. reflexivity.
Qed.
Lemma zlist_eqb_refl' l : zlist_eqb l l = true. Proof. apply zlist_eqb_eq. reflexivity. Qed.

Lemma insert_sorted_In x y l : In y (insert_sorted x l) <-> y = x \/ In y l.
Proof.
  induction l as [|z l IH]; cbn; [intuition|].
  destruct (x <=? z); cbn; [intuition|]. rewrite IH. intuition.
Qed.
Lemma sort_z_In x l : In x (sort_z l) <-> In x l.
Proof.
  induction l as [|y l IH]; cbn; [tauto|]. rewrite insert_sorted_In, IH. intuition.
Qed.

Definition ssorted (l : list Z) : Prop := StronglySorted Z.lt l.

Lemma insert_sorted_sorted x l : ssorted l -> ~ In x l -> ssorted (insert_sorted x l).
Proof.
  induction l as [|z l IH]; intros Hs Hn; cbn.
  - constructor; constructor.
  - inversion Hs as [|? ? Hs' Hall]; subst. destruct (x <=? z) eqn:E.
    + assert (x < z) by (cbn in Hn; lia).
      constructor; [exact Hs|]. constructor; [assumption|].
      eapply Forall_impl; [|exact Hall]. cbn. intros; lia.
    + constructor; [apply IH; [exact Hs'|cbn in Hn; tauto]|].
      rewrite Forall_forall. intros y Hy. apply insert_sorted_In in Hy as [->|Hy]; [lia|].
      rewrite Forall_forall in Hall. auto.
Qed.
Lemma sort_z_sorted l : NoDup l -> ssorted (sort_z l).
Proof.
  induction 1 as [|x l Hn Hd IH]; cbn; [constructor|].
  apply insert_sorted_sorted; [exact IH|]. rewrite sort_z_In. exact Hn.
Qed.

Lemma sorted_ext l1 : forall l2, ssorted l1 -> ssorted l2 -> (forall x, In x l1 <-> In x l2) -> l1 = l2.
Proof.
  induction l1 as [|a l1 IH]; intros [|b l2] H1 H2 Hx.
  - reflexivity.
  - exfalso. apply (Hx b). left; reflexivity.
  - exfalso. apply (Hx a). left; reflexivity.
  - inversion H1 as [|? ? S1 A1]; inversion H2 as [|? ? S2 A2]; subst.
    rewrite Forall_forall in A1, A2.
    assert (a = b).
    { destruct (proj1 (Hx a) (or_introl eq_refl)) as [E|E]; [congruence|].
      destruct (proj2 (Hx b) (or_introl eq_refl)) as [E'|E']; [congruence|].
      specialize (A1 _ E'). specialize (A2 _ E). lia. }
    subst b. f_equal. apply IH; auto.
    intros x. split; intros Hi.
    + destruct (proj1 (Hx x) (or_intror Hi)) as [E|E]; [|exact E]. subst x. specialize (A1 _ Hi). lia.
    + destruct (proj2 (Hx x) (or_intror Hi)) as [E|E]; [|exact E]. subst x. specialize (A2 _ Hi). lia.
Qed.

Lemma filter_sorted f l : ssorted l -> ssorted (filter f l).
Proof.
  induction 1 as [|x l Hs IH Hall]; cbn; [constructor|].
  destruct (f x); [|exact IH]. constructor; [exact IH|].
  rewrite Forall_forall in *. intros y Hy. apply filter_In in Hy as [Hy _]. auto.
Qed.

Lemma s_mem_In x s : s_mem x s = true <-> In x s.
Proof.
  unfold s_mem. rewrite existsb_exists. split.
  - intros (y & Hy & E). apply Z.eqb_eq in E. congruence.
  - intros H. exists x. split; [exact H|apply Z.eqb_refl].
Qed.
Lemma s_add_spec x s : ssorted s -> ssorted (s_add x s) /\ (forall y, In y (s_add x s) <-> y = x \/ In y s).
Proof.
  intros Hs. unfold s_add. destruct (s_mem x s) eqn:E.
  - apply s_mem_In in E. split; [exact Hs|]. intros y. split; [auto|]. intros [->|H]; auto.
  - split.
    + apply insert_sorted_sorted; [exact Hs|]. intros H. apply s_mem_In in H. congruence.
    + intros y. apply insert_sorted_In.
Qed.
Lemma s_del_spec x s : ssorted s -> ssorted (s_del x s) /\ (forall y, In y (s_del x s) <-> In y s /\ y <> x).
Proof.
  intros Hs. split; [apply filter_sorted; exact Hs|]. intros y. unfold s_del. rewrite filter_In.
  split; intros [H1 H2]; split; auto; lia.
Qed.
