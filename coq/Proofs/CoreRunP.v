(** CoreRunP.v — the model's own trace as a case, and the generic lemma that lifts a
    per-step monitor fact to "check_with mon (model_case ...) = 0". *)
From Srtla Require Import Base Constants Conn Run_Core ConnP.
From Coq Require Import ZifyBool.

Fixpoint model_steps (s : state) (ops : list op) : list (op * obs) :=
  match ops with
  | [] => []
  | o :: t => let s' := step s o in (o, obs_state s') :: model_steps s' t
  end.
Definition model_case (ids : list Z) (ops : list op) : case :=
  {| c_ids := ids; c_init := obs_state (init ids); c_steps := model_steps (init ids) ops |}.

Lemma zlist_eqb_refl l : zlist_eqb l l = true.
Proof. induction l as [|x l IH]; cbn; [reflexivity|]. rewrite Z.eqb_refl, IH. reflexivity. Qed.
Lemma obs_eqb_refl o : obs_eqb o o = true.
Proof.
  induction o as [|[a b] o IH]; cbn; [reflexivity|].
  unfold lobs_eqb. cbn. rewrite !zlist_eqb_refl. exact IH.
Qed.

Lemma run_corr_model ops : forall s i, run_corr s (model_steps s ops) i = 0%N.
Proof.
  induction ops as [|o ops IH]; intros s i; cbn; [reflexivity|].
  rewrite obs_eqb_refl. apply IH.
Qed.

Lemma run_mon_model {M} (mon : monitor M) (J : M -> state -> Prop) ops :
  (forall m s o, J m s -> In o ops ->
     snd (m_step mon m o (obs_state s) (obs_state (step s o))) = 0%N /\
     J (fst (m_step mon m o (obs_state s) (obs_state (step s o)))) (step s o)) ->
  forall m s i, J m s -> run_mon mon m (obs_state s) (model_steps s ops) i = (0, 0)%N.
Proof.
  induction ops as [|o ops IH]; intros Hstep m s i HJ; cbn; [reflexivity|].
  destruct (Hstep m s o HJ (or_introl eq_refl)) as [H0 HJ'].
  destruct (m_step mon m o (obs_state s) (obs_state (step s o))) as [m' cl]. cbn in *. subst cl. cbn.
  apply IH; [|exact HJ']. intros m0 s0 o0 H1 H2. apply Hstep; [exact H1|right; exact H2].
Qed.

Theorem check_with_model {M} (mon : monitor M) (J : M -> state -> Prop) ids ops :
  snd (m_init mon ids (obs_state (init ids))) = 0%N ->
  J (fst (m_init mon ids (obs_state (init ids)))) (init ids) ->
  (forall m s o, J m s -> In o ops ->
     snd (m_step mon m o (obs_state s) (obs_state (step s o))) = 0%N /\
     J (fst (m_step mon m o (obs_state s) (obs_state (step s o)))) (step s o)) ->
  check_with mon (model_case ids ops) = 0%N.
Proof.
  intros H0 HJ Hstep. unfold check_with, model_case. cbn [c_ids c_init c_steps].
  rewrite obs_eqb_refl, run_corr_model.
  destruct (m_init mon ids (obs_state (init ids))) as [m0 cl0]. cbn in H0, HJ. subst cl0.
  cbn [N.eqb].
  pose proof (run_mon_model mon J ops Hstep m0 (init ids) 0%N HJ) as Hr.
  rewrite Hr. reflexivity.
Qed.

(** lifting a per-link clause check over two observed link lists related by Forall2i *)
Lemma obs_links_rel (R : nat -> link -> link -> Prop) i l l' :
  Forall2i R i l l' ->
  Forall2i (fun k x y => exists c c', R k c c' /\ x = obs_link c /\ y = obs_link c') i (map obs_link l) (map obs_link l').
Proof. induction 1; cbn; constructor; eauto. Qed.
