(** C11ThmP.v — the C11 clauses as statements about [select] in enhanced mode. *)
From Coq Require Import ZArith List Bool Lia Floats.
From Srtla Require Import Base Constants FConstants Select Run_Sel Run_C11 SelFloatP SelectP C11P SelViewP C11MonP.
Import ListNotations.
Local Open Scope Z_scope.

(** the oracle's score table for a select: gate pass first, then one entry per link *)
Definition gate_of (s : list link) (now : Z) (cfg : config) : list link := apply_stall_gate s now cfg.
Definition au_of (s : list link) (now : Z) (cfg : config) : bool :=
  existsb (unconstrained now) (gate_of s now cfg).
Definition table (s : list link) (now : Z) (cfg : config) (exps : list PrimFloat.float) : list (option PrimFloat.float) :=
  spec_scores (au_of s now cfg) (enhanced_quality cfg) now (gate_of s now cfg) exps.

Lemma enhanced_res s last now cfg exps :
  c_mode cfg = Enhanced ->
  fst (select s last now cfg exps) = decide last (pick (table s now cfg exps) last 0 a0).
Proof.
  intros Em. unfold select, table, au_of, gate_of, enhanced_quality. rewrite Em.
  rewrite enhanced_select_decide, score_list_spec. reflexivity.
Qed.

Lemma forallb_false_ex {A} (f : A -> bool) l : forallb f l = false -> exists x, In x l /\ f x = false.
Proof.
  induction l as [|a t IH]; cbn; [discriminate|].
  destruct (f a) eqn:E; cbn.
  - intros H. destruct (IH H) as (x & ? & ?). exists x. auto.
  - intros _. exists a. auto.
Qed.

(** leave-only-if *)
Theorem leave_only_if s l now cfg exps i :
  c_mode cfg = Enhanced -> fst (select s (Some l) now cfg exps) = Some i -> i <> l ->
  nths (table s now cfg exps) l = None \/
  exists sl sj, nths (table s now cfg exps) l = Some sl /\ In (Some sj) (table s now cfg exps) /\
                (sj <? sl * SWITCH_THRESHOLD)%float = false.
Proof.
  intros Em E Hne. rewrite (enhanced_res _ _ _ _ _ Em) in E.
  destruct (nths (table s now cfg exps) l) as [sl|] eqn:El; [right|now left].
  pose proof (decide_leave _ l i sl E Hne El) as B. unfold all_below in B.
  apply forallb_false_ex in B. destruct B as ([sj|] & Hin & Hf); [|discriminate].
  exists sl, sj. repeat split; auto.
Qed.

(** the chosen uplink was ranked: eligible, and not over its cap while an unconstrained uplink exists *)
Theorem chosen_is_candidate s last now cfg exps i :
  c_mode cfg = Enhanced -> fst (select s last now cfg exps) = Some i ->
  exists c, nth_error (gate_of s now cfg) i = Some c /\ spec_candidate (au_of s now cfg) now c = true.
Proof.
  intros Em E. rewrite (enhanced_res _ _ _ _ _ Em) in E.
  destruct (decide_candidate _ _ _ E) as (si & Hi).
  pose proof (nths_lt _ _ _ Hi) as L. unfold table in L. rewrite spec_scores_length in L.
  destruct (nth_error (gate_of s now cfg) i) as [c|] eqn:En; [|apply nth_error_None in En; lia].
  exists c. split; [reflexivity|].
  destruct (spec_scores_nth (au_of s now cfg) (enhanced_quality cfg) now _ exps i c En) as (e & H).
  fold (table s now cfg exps) in H. rewrite Hi in H.
  now destruct (spec_candidate (au_of s now cfg) now c).
Qed.

Theorem cap_excluded s last now cfg exps i c :
  c_mode cfg = Enhanced -> fst (select s last now cfg exps) = Some i ->
  nth_error (gate_of s now cfg) i = Some c -> au_of s now cfg = true ->
  in_flight_cap_exceeded c = false.
Proof.
  intros Em E En Hau. destruct (chosen_is_candidate s last now cfg exps i Em E) as (c' & En' & Hc).
  rewrite En in En'. inversion En'; subst c'. unfold spec_candidate in Hc. rewrite Hau in Hc.
  apply andb_true_iff in Hc. destruct Hc as (_ & Hc). rewrite spec_over_cap_eq in Hc.
  now destruct (in_flight_cap_exceeded c).
Qed.

(** argmax modulo hysteresis, for well-formed states *)
Theorem argmax s last now cfg exps i si :
  c_mode cfg = Enhanced -> Forall wfl s -> forallb exp_okb exps = true ->
  fst (select s last now cfg exps) = Some i -> nths (table s now cfg exps) i = Some si ->
  is_max (table s now cfg exps) si = true \/
  (last = Some i /\ all_below (table s now cfg exps) si = true).
Proof.
  intros Em Hw He E Hi. rewrite (enhanced_res _ _ _ _ _ Em) in E.
  apply (decide_argmax _ last i si); auto.
  intros x Hx. unfold table in Hx. rewrite <- score_list_spec in Hx.
  eapply score_list_not_nan; [apply gate_wf; exact Hw | exact He | exact Hx].
Qed.
