(** C14P.v — every trace of the model satisfies the C14 monitor (all clauses except
    finiteness unconditionally; finiteness under the hypothesis that the Kalman value
    stays finite along the run). *)
From Coq Require Import Floats ZifyBool.
From Srtla Require Import Base Constants FConstants Wire WireSpec WireP Rtt Keepalive RttP KeepaliveP Run_C14.
Local Open Scope Z_scope.
Ltac Zify.zify_post_hook ::= Z.div_mod_to_equations.

(** ---- small facts ---- *)
Lemma sf_eqb_refl a : sf_eqb a a = true.
Proof.
  destruct a as [s|s| |s m e]; cbn; try reflexivity; try (destruct s; reflexivity).
  rewrite Pos.eqb_refl, Z.eqb_refl. destruct s; reflexivity.
Qed.
Lemma feqb_refl x : feqb x x = true. Proof. apply sf_eqb_refl. Qed.
Lemma flist_eqb_refl l : flist_eqb l l = true.
Proof. induction l as [|x l IH]; cbn; [reflexivity|]. rewrite feqb_refl, IH. reflexivity. Qed.

Lemma zl_eqb_refl l : zlist_eqb l l = true.
Proof. induction l as [|x l IH]; cbn; [reflexivity|]. rewrite Z.eqb_refl, IH. reflexivity. Qed.

Definition code_ok (c : N) : Prop := c = 0%N \/ c = 5%N.
Lemma first_code_ok a b : code_ok a -> code_ok b -> code_ok (first_code a b).
Proof. unfold code_ok, first_code. intros [-> | ->] [-> | ->]; cbn; auto. Qed.
Lemma first_code_0 a b : a = 0%N -> b = 0%N -> first_code a b = 0%N.
Proof. intros -> ->. reflexivity. Qed.

Definition fin_link (l : link) : Prop := f_is_inf (kx (r_k (l_rtt l))) = false.
Definition fin_state (s : state) : Prop := Forall fin_link s.

Lemma lobs_code_ok l : code_ok (lobs_code (lobs_of l)).
Proof.
  unfold lobs_code, srtt_code, lobs_of, srtt_signed_ok. cbn [o_srtt]. unfold get_smooth_rtt_ms.
  destruct (f_max0_ok (kx (r_k (l_rtt l)))) as [H1 H2]. rewrite H1, H2. cbn [negb andb].
  destruct (negb _); [right|left]; reflexivity.
Qed.
Lemma lobs_code_fin l : fin_link l -> lobs_code (lobs_of l) = 0%N.
Proof.
  unfold fin_link, lobs_code, srtt_code, lobs_of, srtt_signed_ok, srtt_finite_ok. cbn [o_srtt].
  unfold get_smooth_rtt_ms. intros H.
  destruct (f_max0_ok (kx (r_k (l_rtt l)))) as [H1 H2]. rewrite H1, H2.
  rewrite (f_max0_finite _ H). reflexivity.
Qed.

Lemma live_pre_lobs l now : live_pre (pobs_of l) now = live l now.
Proof.
  unfold live_pre, live, silent_too_long, pobs_of. cbn [p_connected p_last_recv p_timeout].
  destruct (l_connected l); [|reflexivity]. cbn [andb].
  destruct (l_last_recv l) as [lr|]; [|reflexivity]. lia.
Qed.

(** ---- frames ---- *)
Lemma zeqb_refl4 a b c d : (a =? a) && (b =? b) && (c =? c) && (d =? d) = true.
Proof. rewrite !Z.eqb_refl. reflexivity. Qed.

Lemma frame_ka_ok l t now f : tele_ok t -> 0 <= now < two64 -> ka_frame_of l t now f ->
  frame_is_ka f = true /\ frame_ok now t f = true.
Proof.
  intros Ht Hn (l0 & _ & _ & ->).
  assert (Hty : frame_is_ka (FBytes (fst (keepalive_packet l0 t now))) = true).
  { unfold frame_is_ka. rewrite keepalive_packet_type. reflexivity. }
  split; [exact Hty|]. unfold frame_ok. rewrite Hty. cbn [negb].
  destruct (keepalive_packet_frame l0 t now Ht Hn) as (Hlen & Hfirst & _ & Hinfo).
  rewrite Hlen, Hfirst, Hinfo. unfold ka_info.
  rewrite zl_eqb_refl. change (38 =? 38) with true. cbn [andb].
  apply zeqb_refl4.
Qed.

Lemma reg2_not_ka : frame_is_ka REG2_FRAME = false. Proof. reflexivity. Qed.

Lemma frames_ok l t rc now : tele_ok t -> 0 <= now < two64 ->
  forallb (frame_ok now t) (fst (tick_link l t rc now)) = true.
Proof.
  intros Ht Hn. pose proof (tick_link_cases l t rc now) as H.
  destruct (tick_link l t rc now) as [fs l']. cbn [fst].
  destruct H as [(_ & -> & _)|[(_ & -> & _)|[(_ & -> & _)|(_ & _ & _ & Hf & _)]]]; try reflexivity.
  apply forallb_forall. rewrite Forall_forall in Hf. intros f Hin.
  exact (proj2 (frame_ka_ok l t now f Ht Hn (Hf f Hin))).
Qed.

Lemma nosample_core l l' :
  l_rtt l' = rtt_default \/ rtt_core (l_rtt l') = rtt_core (l_rtt l) ->
  tick_nosample (pobs_of l) (lobs_of l') = true.
Proof.
  unfold tick_nosample, lobs_of, pobs_of. cbn [o_last_meas o_kinit p_last_meas p_kinit]. intros [->|H].
  - cbn. rewrite !orb_true_r. reflexivity.
  - unfold rtt_core in H. inversion H as [[H1 H2]]. rewrite H1, H2, Z.eqb_refl, Bool.eqb_reflx.
    reflexivity.
Qed.

Lemma tick_nosample_ok l t rc now :
  tick_nosample (pobs_of l) (lobs_of (snd (tick_link l t rc now))) = true.
Proof.
  pose proof (tick_link_cases l t rc now) as H.
  destruct (tick_link l t rc now) as [fs l']. cbn [snd]. apply nosample_core.
  destruct H as [(_ & _ & _ & H & _)|[(_ & _ & ->)|[(_ & _ & -> & _)|(_ & _ & _ & _ & _ & H & _)]]]; auto.
Qed.

Lemma existsb_ka_frames l t now fs : tele_ok t -> 0 <= now < two64 ->
  fs <> [] -> Forall (ka_frame_of l t now) fs -> existsb frame_is_ka fs = true.
Proof.
  intros Ht Hn Hne Hf. destruct fs as [|f fs]; [congruence|]. inversion Hf; subst.
  cbn [existsb]. rewrite (proj1 (frame_ka_ok l t now f Ht Hn H1)). reflexivity.
Qed.

(** what the monitor's "last keepalive seen" needs to know about one iteration *)
Lemma tick_seen l t rc now : tele_ok t -> 0 <= now < two64 ->
  let fs := fst (tick_link l t rc now) in
  let l' := snd (tick_link l t rc now) in
  if live l now then
    exists k, l_last_ka l' = Some k /\ now - k < IDLE_MS /\
      (if existsb frame_is_ka fs then k = now else l_last_ka l = Some k)
  else existsb frame_is_ka fs = false /\ (l_last_ka l' = l_last_ka l \/ l_last_ka l' = None).
Proof.
  intros Ht Hn. cbn zeta. destruct (live l now) eqn:El.
  - pose proof (keepalive_fresh l t rc now El) as H.
    destruct (tick_link l t rc now) as [fs l']. cbn [fst snd].
    destruct H as (k & Hk & Hlt & [(Hne & -> & Hf)|(-> & ->)]).
    + exists now. rewrite (existsb_ka_frames l t now fs Ht Hn Hne Hf). auto.
    + exists k. cbn [existsb]. auto.
  - pose proof (not_live_no_ka l t rc now El) as H.
    destruct (tick_link l t rc now) as [fs l']. cbn [fst snd].
    destruct H as ([->| ->] & H2); split; auto.
Qed.

(** ---- the invariant linking model state and monitor state ---- *)
Definition inv_link (l : link) (m : mlink) : Prop :=
  (l_last_ka l = None \/ l_last_ka l = m_last m) /\
  (forall t1, m_prev_live m = Some t1 -> exists k, m_last m = Some k /\ t1 - k < IDLE_MS).
Definition Inv (s : state) (ms : mstate) : Prop := Forall2 inv_link s ms.

Definition tobs_of (l : link) (fl : list frame * link) : tobs :=
  {| tb_pre := pobs_of l; tb_post := lobs_of (snd fl); tb_frames := fst fl |}.

Lemma mon_tick_link_ok D bound now l m t rc :
  IDLE_MS + D - 1 <= bound -> tele_ok t -> 0 <= now < two64 -> inv_link l m ->
  let fl := tick_link l t rc now in
  let r := mon_tick_link D bound now m (tobs_of l fl) t in
  code_ok (fst r) /\ inv_link (snd fl) (snd r) /\
  (fin_link l -> fin_link (snd fl) -> fst r = 0%N).
Proof.
  intros Hb Ht Hn [Hi1 Hi2]. cbn zeta.
  unfold mon_tick_link, tobs_of. cbn [tb_pre tb_post tb_frames fst snd].
  rewrite live_pre_lobs, (frames_ok l t rc now Ht Hn), tick_nosample_ok.
  pose proof (tick_seen l t rc now Ht Hn) as Hs. cbn zeta in Hs.
  set (fs := fst (tick_link l t rc now)) in *. set (l' := snd (tick_link l t rc now)) in *.
  (* clause 1 *)
  assert (C1 : match m_prev_live m with
               | Some t1 => if live l now && (now - t1 <=? D)
                            then match m_last m with
                                 | Some k => if now - k <=? bound then 0%N else 1%N
                                 | None => 1%N end
                            else 0%N
               | None => 0%N end = 0%N).
  { destruct (m_prev_live m) as [t1|] eqn:Ep; [|reflexivity].
    destruct (live l now && (now - t1 <=? D)) eqn:E; [|reflexivity].
    destruct (Hi2 t1 eq_refl) as (k & -> & Hk).
    replace (now - k <=? bound) with true by lia. reflexivity. }
  rewrite C1. clear C1. cbn [first_code N.eqb].
  split; [apply first_code_ok; apply lobs_code_ok|]. split.
  - (* invariant *)
    split; cbn [m_last m_prev_live].
    + destruct (live l now).
      * destruct Hs as (k & Hk & _ & Hs). rewrite Hk.
        destruct (existsb frame_is_ka fs); [subst k; auto|].
        destruct Hi1 as [Hi1|Hi1]; [congruence|]. right. congruence.
      * destruct Hs as (-> & [Hs|Hs]); [|auto]. rewrite Hs. exact Hi1.
    + intros t1 Ht1. destruct (live l now); [|discriminate]. inversion Ht1; subst t1.
      destruct Hs as (k & Hk & Hlt & Hs).
      destruct (existsb frame_is_ka fs).
      * subst k. exists now. assert (0 < IDLE_MS) by reflexivity. split; [reflexivity|lia].
      * exists k. split; [|exact Hlt]. destruct Hi1 as [Hi1|Hi1]; congruence.
  - intros F1 F2. apply first_code_0; apply lobs_code_fin; assumption.
Qed.

(** ---- a whole tick ---- *)
Definition per_of (s : state) (ts : list tele) (rc : list bool) (now : Z) : list tobs :=
  map (fun p => {| tb_pre := pobs_of (fst p); tb_post := lobs_of (snd (snd p));
                   tb_frames := fst (snd p) |})
      (combine s (tick_links s ts rc now)).

Lemma Forall_hd_tl {A} (P : A -> Prop) d l : P d -> Forall P l -> P (hd d l) /\ Forall P (tl l).
Proof. intros Hd H. destruct H; cbn; auto. Qed.

Lemma mon_tick_ok D bound now : IDLE_MS + D - 1 <= bound -> 0 <= now < two64 ->
  forall s ms ts rc, Forall tele_ok ts -> Inv s ms ->
  let r := mon_tick D bound now ms (per_of s ts rc now) ts in
  code_ok (fst r) /\ Inv (map snd (tick_links s ts rc now)) (snd r) /\
  (fin_state s -> fin_state (map snd (tick_links s ts rc now)) -> fst r = 0%N).
Proof.
  intros Hb Hn s. induction s as [|l s IH]; intros ms ts rc Hts Hinv; cbn zeta.
  - cbn. split; [left; reflexivity|]. split; [constructor|reflexivity].
  - inversion Hinv as [|? m ? ms' Hl Hrest]; subst.
    destruct (Forall_hd_tl tele_ok tele0 ts tele0_ok Hts) as [Hh Ht].
    unfold per_of. cbn [tick_links combine map fst snd mon_tick hd tl].
    pose proof (mon_tick_link_ok D bound now l m (hd tele0 ts) (hd true rc) Hb Hh Hn Hl) as H1.
    cbn zeta in H1. unfold tobs_of in H1.
    destruct (mon_tick_link D bound now m _ (hd tele0 ts)) as [c m'].
    cbn [fst snd] in H1. destruct H1 as (Hc & Hi & Hf).
    specialize (IH ms' (tl ts) (tl rc) Ht Hrest). cbn zeta in IH. unfold per_of in IH.
    destruct (mon_tick D bound now ms' _ (tl ts)) as [c' ms''].
    cbn [fst snd] in *. destruct IH as (Hc' & Hi' & Hf').
    split; [apply first_code_ok; assumption|]. split; [constructor; assumption|].
    intros F1 F2. inversion F1; subst. inversion F2; subst.
    apply first_code_0; auto.
Qed.

(** ---- one step ---- *)
Lemma Inv_upd f : (forall l, l_last_ka (f l) = l_last_ka l \/ l_last_ka (f l) = None) ->
  forall s ms i, Inv s ms -> Inv (upd s i f) ms.
Proof.
  intros Hf s ms i H. revert i. induction H as [|l m s ms Hl Hr IH]; intros i.
  - destruct i; constructor.
  - destruct i; cbn [upd]; constructor; auto; try (apply IH).
    destruct Hl as [[H1|H1] H2]; (split; [|exact H2]); destruct (Hf l) as [E|E]; rewrite E; auto.
Qed.

Lemma nth_upd {A} (f : A -> A) : forall s i l, nth_error s i = Some l -> nth_error (upd s i f) i = Some (f l).
Proof.
  induction s as [|x s IH]; intros [|i] l H; cbn in *; try discriminate.
  - inversion H. reflexivity.
  - apply IH. exact H.
Qed.

Lemma fin_nth s i l : fin_state s -> nth_error s i = Some l -> fin_link l.
Proof. intros H E. apply nth_error_In in E. unfold fin_state in H. rewrite Forall_forall in H. auto. Qed.

Lemma wf_tick now ts : u64_ok now && forallb tele_okb ts = true ->
  0 <= now < two64 /\ Forall tele_ok ts.
Proof.
  intros H. apply andb_prop in H. destruct H as [H1 H2]. unfold u64_ok in H1. split; [lia|].
  rewrite forallb_forall in H2. apply Forall_forall. intros t Ht. specialize (H2 t Ht).
  unfold tele_okb, i32_ok in H2. unfold tele_ok, i32_range. lia.
Qed.

Lemma sample_taken_false l l' : rtt_core (l_rtt l') = rtt_core (l_rtt l) ->
  sample_taken (lobs_of l) (kobs_of l) (lobs_of l') (kobs_of l') = false.
Proof.
  unfold rtt_core, sample_taken, lobs_of, kobs_of. cbn [o_last_meas o_kinit]. intros H.
  inversion H as [[H1 H2]]. rewrite H1, H2, Z.eqb_refl, Bool.eqb_reflx, flist_eqb_refl. reflexivity.
Qed.

Lemma pkt_clause3 l b now : bytes_ok b ->
  sample_taken (lobs_of l) (kobs_of l) (lobs_of (pkt_link l b now)) (kobs_of (pkt_link l b now))
  && (negb (echo_ok (lobs_of l) b now) || o_waiting (lobs_of (pkt_link l b now))) = false.
Proof.
  intros Hb. destruct (sample_taken _ _ _ _) eqn:Es; [|reflexivity]. cbn [andb].
  assert (Hne : rtt_core (l_rtt (pkt_link l b now)) <> rtt_core (l_rtt l)).
  { intros Heq. rewrite (sample_taken_false l _ Heq) in Es. discriminate. }
  destruct (pkt_link_sample l b now Hne) as (Hw & ts & Hts & Hr & _ & _ & _ & Hrt).
  assert (W' : o_waiting (lobs_of (pkt_link l b now)) = false).
  { unfold lobs_of. cbn [o_waiting]. rewrite Hrt. reflexivity. }
  rewrite W', orb_false_r.
  unfold echo_ok, lobs_of. cbn [o_waiting]. rewrite Hw, <- (ka_ts_spec b Hb), Hts.
  change KA_RTT_CAP_MS with 10000 in Hr.
  replace (0 <? now - ts) with true by lia. replace (now - ts <=? 10000) with true by lia. reflexivity.
Qed.

Definition end_code (ds : list dump) : N :=
  fold_right (fun d c => first_code (lobs_code (d_l d)) c) 0%N ds.
Lemma end_code_ok s : code_ok (end_code (map dump_of s)).
Proof.
  induction s as [|l s IH]; cbn; [left; reflexivity|]. apply first_code_ok; [apply lobs_code_ok|exact IH].
Qed.
Lemma end_code_fin s : fin_state s -> end_code (map dump_of s) = 0%N.
Proof.
  intros F. induction F as [|l s Hl F IH]; cbn; [reflexivity|].
  apply first_code_0; [apply lobs_code_fin; exact Hl|exact IH].
Qed.

Lemma mon_step_ok D bound s ms o : IDLE_MS + D - 1 <= bound -> wf_opb o = true -> Inv s ms ->
  let r := mon_step D bound ms o (obs_step s o) in
  code_ok (fst r) /\ Inv (step s o) (snd r) /\
  (fin_state s -> fin_state (step s o) -> fst r = 0%N).
Proof.
  intros Hb Hwf Hinv. destruct o as [now ts rc|i b now|i|i t|]; cbn [mon_step obs_step step] in *.
  - destruct (wf_tick now ts Hwf) as [Hn Hts].
    exact (mon_tick_ok D bound now Hb Hn s ms ts rc Hts Hinv).
  - apply andb_prop in Hwf. destruct Hwf as [_ Hbytes]. apply bytes_okb_ok in Hbytes.
    assert (Hi : Inv (upd s i (fun l => pkt_link l b now)) ms).
    { apply Inv_upd; [|exact Hinv]. intros l. left. apply pkt_link_last_ka. }
    destruct (nth_error s i) as [l|] eqn:En; cbn [fst snd].
    + rewrite (pkt_clause3 l b now Hbytes). cbn [first_code N.eqb].
      split; [apply first_code_ok; apply lobs_code_ok|]. split; [exact Hi|].
      intros F1 F2. apply first_code_0; apply lobs_code_fin.
      * exact (fin_nth s i l F1 En).
      * exact (fin_nth _ i _ F2 (nth_upd _ s i l En)).
    + split; [left; reflexivity|]. split; [exact Hi|reflexivity].
  - assert (Hi : Inv (upd s i mark_for_recovery) ms).
    { apply Inv_upd; [|exact Hinv]. intros l. right. reflexivity. }
    destruct (nth_error s i) as [l|] eqn:En; cbn [fst snd].
    + split; [apply lobs_code_ok|]. split; [exact Hi|].
      intros _ F2. apply lobs_code_fin. exact (fin_nth _ i _ F2 (nth_upd _ s i l En)).
    + split; [left; reflexivity|]. split; [exact Hi|reflexivity].
  - cbn [fst snd]. split; [left; reflexivity|]. split; [|reflexivity].
    apply Inv_upd; [|exact Hinv]. intros l. left. reflexivity.
  - cbn [fst snd]. split; [apply end_code_ok|]. split; [exact Hinv|].
    intros F _. apply end_code_fin. exact F.
Qed.

(** ---- whole runs ---- *)
Fixpoint finite_from (s : state) (ops : list op) : Prop :=
  fin_state s /\ match ops with [] => True | o :: t => finite_from (step s o) t end.
Definition finite_run (ids : list Z) (t0 : Z) (ops : list op) : Prop := finite_from (init ids t0) ops.

Lemma finite_from_head s ops : finite_from s ops -> fin_state s.
Proof. destruct ops; cbn; tauto. Qed.

Lemma mon_run_ok D bound : IDLE_MS + D - 1 <= bound ->
  forall ops s ms i, wf_opsb ops = true -> Inv s ms ->
  code_ok (fst (mon_run D bound ms ops (run_from s ops) i)) /\
  (finite_from s ops -> fst (mon_run D bound ms ops (run_from s ops) i) = 0%N).
Proof.
  intros Hb ops. induction ops as [|o ops IH]; intros s ms i Hwf Hinv.
  - cbn. split; [left|]; reflexivity.
  - cbn [wf_opsb forallb] in Hwf. apply andb_prop in Hwf. destruct Hwf as [Hwo Hwf].
    cbn [run_from mon_run].
    pose proof (mon_step_ok D bound s ms o Hb Hwo Hinv) as H. cbn zeta in H.
    destruct (mon_step D bound ms o (obs_step s o)) as [c ms']. cbn [fst snd] in H.
    destruct H as (Hc & Hi & Hf).
    destruct (IH (step s o) ms' (i + 1)%N Hwf Hi) as [IH1 IH2].
    destruct (c =? 0)%N eqn:Ec.
    + split; [exact IH1|]. intros [F1 F2]. apply IH2. exact F2.
    + cbn [fst]. split; [exact Hc|]. intros [F1 F2].
      rewrite (Hf F1 (finite_from_head _ _ F2)) in Ec. discriminate.
Qed.

Lemma Inv_init ids t0 : Inv (init ids t0) (repeat m0 (length ids)).
Proof.
  unfold init. induction ids as [|id ids IH]; cbn; constructor; [|exact IH].
  split; [left; reflexivity|]. intros t1 H. discriminate.
Qed.

(** General spacing D: with ticks at most D apart on a link live at both, the previous
    keepalive is at most [IDLE_MS + D - 1] old — and every other clause of the monitor. *)
Theorem monitor_general D bound ids t0 ops : IDLE_MS + D - 1 <= bound -> wf_opsb ops = true ->
  let c := fst (mon_run D bound (repeat m0 (length ids)) ops (run ids t0 ops) 0) in
  (c = 0%N \/ c = 5%N) /\ (finite_run ids t0 ops -> c = 0%N).
Proof.
  intros Hb Hwf. exact (mon_run_ok D bound Hb ops (init ids t0) _ 0%N Hwf (Inv_init ids t0)).
Qed.

Lemma period_bound : IDLE_MS + PERIOD - 1 <= 2 * PERIOD.
Proof. cbv. discriminate. Qed.

Theorem monitor_partial ids t0 ops : wf_opsb ops = true ->
  ok_C14_nf (length ids) ops (run ids t0 ops) = true.
Proof.
  intros Hwf. unfold ok_C14_nf, mon_C14.
  destruct (monitor_general PERIOD (2 * PERIOD) ids t0 ops period_bound Hwf) as [[H|H] _];
    cbn zeta in H; rewrite H; reflexivity.
Qed.

Theorem monitor_full ids t0 ops : wf_opsb ops = true -> finite_run ids t0 ops ->
  ok_C14 (length ids) ops (run ids t0 ops) = true.
Proof.
  intros Hwf Hfin. unfold ok_C14, mon_C14.
  destruct (monitor_general PERIOD (2 * PERIOD) ids t0 ops period_bound Hwf) as [_ H].
  cbn zeta in H. rewrite (H Hfin). reflexivity.
Qed.

(** wf is decidable and satisfiable: it is the boolean [wf_opsb] itself. *)

(** ---- Prop-level statements pinned in Props/C14.v ---- *)
Lemma cadence_two_ticks D l1 t1 rc1 tau1 l2 t2 rc2 tau2 :
  0 <= D -> live l1 tau1 = true -> live l2 tau2 = true -> tau2 - tau1 <= D ->
  (l_last_ka l2 = l_last_ka (snd (tick_link l1 t1 rc1 tau1)) \/ l_last_ka l2 = None) ->
  exists k1 k2,
    l_last_ka (snd (tick_link l1 t1 rc1 tau1)) = Some k1 /\
    l_last_ka (snd (tick_link l2 t2 rc2 tau2)) = Some k2 /\
    tau1 - k1 < IDLE_MS /\ tau2 - k2 < IDLE_MS /\
    k2 - k1 < IDLE_MS + D /\
    ((fst (tick_link l2 t2 rc2 tau2) = [] /\ k2 = k1) \/
     (fst (tick_link l2 t2 rc2 tau2) <> [] /\ k2 = tau2)).
Proof.
  intros HD L1 L2 Hd Hb. assert (HI : 0 < IDLE_MS) by reflexivity.
  pose proof (keepalive_fresh l1 t1 rc1 tau1 L1) as H1.
  pose proof (keepalive_fresh l2 t2 rc2 tau2 L2) as H2.
  destruct (tick_link l1 t1 rc1 tau1) as [fs1 l1']. destruct (tick_link l2 t2 rc2 tau2) as [fs2 l2'].
  cbn [fst snd] in *.
  destruct H1 as (k1 & Hk1 & Hl1 & _). destruct H2 as (k2 & Hk2 & Hl2 & Hc).
  exists k1, k2. repeat split; auto.
  - destruct Hc as [(_ & -> & _)|(-> & ->)]; [lia|].
    destruct Hb as [Hb|Hb]; rewrite Hb in Hk2; [|discriminate].
    rewrite Hk1 in Hk2. inversion Hk2. lia.
  - destruct Hc as [(Hne & -> & _)|(-> & ->)]; [right; auto|left].
    split; [reflexivity|]. destruct Hb as [Hb|Hb]; rewrite Hb in Hk2; [|discriminate].
    rewrite Hk1 in Hk2. inversion Hk2. reflexivity.
Qed.

Lemma tick_frames l t rc now : tele_ok t -> 0 <= now < two64 ->
  Forall (fun f => f = REG2_FRAME \/
            exists p, f = FBytes p /\ blen p = 38 /\ firstn 10 p = create_keepalive_packet now /\
              extract_keepalive_timestamp p = Ok (Some now) /\
              exists rtt_field,
                extract_keepalive_conn_info p =
                  Ok (Some [l_id l mod two32; t_window t; t_inflight t; rtt_field; of_i32 (t_nak t);
                            f_as_u32 (t_bps t / F_EIGHT)%float]))
         (fst (tick_link l t rc now)).
Proof.
  intros Ht Hn. pose proof (tick_link_cases l t rc now) as H.
  destruct (tick_link l t rc now) as [fs l']. cbn [fst].
  destruct H as [(_ & -> & _)|[(_ & -> & _)|[(_ & -> & _)|(_ & _ & _ & Hf & _)]]];
    try (repeat constructor; fail).
  eapply Forall_impl; [|exact Hf]. intros f (l0 & Hid & _ & ->). right.
  destruct (keepalive_packet_frame l0 t now Ht Hn) as (A & B & C & E).
  eexists. split; [reflexivity|]. repeat split; auto.
  eexists. rewrite E. unfold ka_info. rewrite Hid. reflexivity.
Qed.

Lemma sample_filter l b now : bytes_ok b ->
  rtt_core (l_rtt (pkt_link l b now)) <> rtt_core (l_rtt l) ->
  r_waiting (l_rtt l) = true /\ spec_type b = Some SRTLA_TYPE_KEEPALIVE /\ 10 <= blen b /\
  exists ts, spec_ka_ts b = Some ts /\ 0 < now - ts <= 10000 /\
    l_rtt (pkt_link l b now) = set_waiting (update_estimate (l_rtt l) (now - ts) now) false /\
    l_proof (pkt_link l b now) = now.
Proof.
  intros Hb Hne. destruct (pkt_link_sample l b now Hne) as (Hw & ts & Hts & Hr & _ & Hp & _ & Hrt).
  rewrite (ka_ts_spec b Hb) in Hts. split; [exact Hw|].
  assert (Hs := Hts). unfold spec_ka_ts in Hs.
  destruct ((10 <=? blen b) && ozeqb (spec_type b) (Some SRTLA_TYPE_KEEPALIVE)) eqn:E; [|discriminate].
  apply andb_prop in E. destruct E as [E1 E2].
  split. { destruct (spec_type b) as [ty|]; cbn in E2; [|discriminate]. f_equal. lia. }
  split; [lia|]. exists ts. change KA_RTT_CAP_MS with 10000 in Hr.
  assert (Hss : ssub now ts = now - ts) by (unfold ssub; lia). rewrite Hss in Hrt.
  repeat split; auto; lia.
Qed.

Lemma no_sample_elsewhere l t rc now :
  let l' := snd (tick_link l t rc now) in
  (l_rtt l' = rtt_default \/ rtt_core (l_rtt l') = rtt_core (l_rtt l)) /\
  rtt_core (l_rtt (mark_for_recovery l)) = rtt_core (l_rtt l).
Proof.
  cbn zeta. split; [|reflexivity]. pose proof (tick_link_cases l t rc now) as H.
  destruct (tick_link l t rc now) as [fs l']. cbn [snd].
  destruct H as [(_ & _ & _ & H & _)|[(_ & _ & ->)|[(_ & _ & -> & _)|(_ & _ & _ & _ & _ & H & _)]]]; auto.
Qed.

Lemma srtt_nonneg l :
  f_is_nan (get_smooth_rtt_ms l) = false /\ (0 <=? get_smooth_rtt_ms l)%float = true /\
  (f_is_inf (kx (r_k (l_rtt l))) = false -> f_is_inf (get_smooth_rtt_ms l) = false).
Proof.
  unfold get_smooth_rtt_ms. destruct (f_max0_ok (kx (r_k (l_rtt l)))) as [H1 H2].
  repeat split; auto. apply f_max0_finite.
Qed.

(** decidable version of [finite_from], for examples and for the evaluator *)
Definition fin_stateb (s : state) : bool :=
  forallb (fun l => negb (f_is_inf (kx (r_k (l_rtt l))))) s.
Fixpoint finite_fromb (s : state) (ops : list op) : bool :=
  fin_stateb s && match ops with [] => true | o :: t => finite_fromb (step s o) t end.
Lemma fin_stateb_ok s : fin_stateb s = true -> fin_state s.
Proof.
  unfold fin_stateb, fin_state, fin_link. rewrite forallb_forall, Forall_forall.
  intros H l Hl. specialize (H l Hl). destruct (f_is_inf _); [discriminate|reflexivity].
Qed.
Lemma finite_fromb_ok : forall ops s, finite_fromb s ops = true -> finite_from s ops.
Proof.
  induction ops as [|o ops IH]; intros s H; cbn in *; apply andb_prop in H; destruct H as [H1 H2];
    (split; [apply fin_stateb_ok; exact H1|auto]).
Qed.
