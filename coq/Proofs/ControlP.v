(** ControlP.v — what the dispatcher model does, stated against the declarative protocol
    (ControlSpec.v): which answer every line gets on either entry point, which setting it
    applies, and that the two entry points agree outside the subscription methods. *)
From Srtla Require Import Base Constants Json Control ControlSpec JsonP DecodeP.
From Coq Require Import ZifyBool.
Local Open Scope string_scope.
Local Open Scope Z_scope.

(** ---- constants the protocol names ---- *)
Lemma codes_ok :
  PARSE_ERROR = -32700 /\ INVALID_REQUEST = -32600 /\ METHOD_NOT_FOUND = -32601 /\
  INVALID_PARAMS = -32602 /\ INTERNAL_ERROR = -32603.
Proof. repeat split; reflexivity. Qed.

Lemma clamp_ok ms : rust_clamp CONN_TIMEOUT_MS_MIN CONN_TIMEOUT_MS_MAX ms = Some (spec_clamp ms).
Proof. reflexivity. Qed.

Lemma spec_clamp_range ms : 1000 <= spec_clamp ms <= 60000.
Proof. unfold spec_clamp. lia. Qed.

Lemma spec_clamp_id ms : 1000 <= ms <= 60000 -> spec_clamp ms = ms.
Proof. unfold spec_clamp. lia. Qed.

(** ---- effect of a setting on the configuration ---- *)
Definition apply_setting (c : config) (s : option setting) : config :=
  match s with
  | None => c
  | Some (SMode m) => set_mode c m
  | Some (SQuality b) => set_quality c b
  | Some (SStall b) => set_stall c b
  | Some (STimeout z) => store_timeout c z
  end.

(** the result object of a successful base method other than get_stats *)
Definition result_of (c : config) (e : env) (me : string) (p : json) : json :=
  if String.eqb me "get_status" then status_json c e
  else match setting_of me p with
       | Some (SMode m) => JObj [("mode", JStr (mode_str m))]
       | Some (SQuality b) => JObj [("enabled", JBool b)]
       | Some (SStall b) => JObj [("enabled", JBool b)]
       | Some (STimeout z) => JObj [("ms", JInt z)]
       | None => JNull
       end.

Ltac case_me me lit :=
  let E := fresh "E" in
  destruct (String.eqb me lit) eqn:E;
  [apply String.eqb_eq in E; subst me | ].

Opaque spec_clamp.

Lemma handle_method_sem c e me p :
  handle_method c e me p =
  if negb (is_base_method me) then HErr METHOD_NOT_FOUND
  else if negb (params_ok me p) then HErr INVALID_PARAMS
  else if String.eqb me "get_stats" then
    match e_stats e with StatsOk v => HOk c v | _ => HErr INTERNAL_ERROR end
  else HOk (apply_setting c (setting_of me p)) (result_of c e me p).
Proof.
  unfold handle_method, is_base_method, params_ok, setting_of, result_of.
  case_me me "set_mode".
  { cbn. destruct (vget p "mode") as [x|]; [destruct x|]; cbn; try reflexivity.
    unfold parse_mode. destruct (String.eqb s "classic") eqn:E1; cbn; [reflexivity|].
    destruct (String.eqb s "enhanced") eqn:E2; cbn; reflexivity. }
  case_me me "set_quality".
  { cbn. destruct (vget p "enabled") as [x|]; [destruct x|]; cbn; reflexivity. }
  case_me me "set_stall_deselect".
  { cbn. destruct (vget p "enabled") as [x|]; [destruct x|]; cbn; reflexivity. }
  case_me me "set_conn_timeout".
  { cbn -[rust_clamp]. destruct (vget p "ms") as [x|]; [destruct x|]; cbn -[rust_clamp]; try reflexivity.
    destruct ((0 <=? z) && (z <? two64)) eqn:Er; cbn -[rust_clamp]; [|reflexivity].
    unfold set_conn_timeout_ms. rewrite clamp_ok. reflexivity. }
  case_me me "get_status".
  { reflexivity. }
  case_me me "get_stats".
  { cbn. destruct (e_stats e); reflexivity. }
  cbn [orb negb].
  destruct (String.eqb me "subscribe" || String.eqb me "unsubscribe"); reflexivity.
Qed.

Transparent spec_clamp.

(** ---- stdin entry ---- *)
Definition answer (id : option json) (h : hm_result) (c : config) : outcome * config :=
  match h with
  | HPanic => (Panic, c)
  | HOk c' v => (Done (respond id (BResult v)), c')
  | HErr code => (Done (respond id (BError code)), c)
  end.

Lemma dispatch_unfold c e l :
  dispatch c e l =
  match l with
  | Blank => (Done None, c)
  | Unparsable => (parse_error, c)
  | Parsed j =>
      match spec_request j with
      | None => (parse_error, c)
      | Some (v, me, p, id) =>
          if negb (String.eqb v "2.0") then (Done (respond id (BError INVALID_REQUEST)), c)
          else answer id (handle_method c e me p) c
      end
  end.
Proof.
  destruct l as [| |j]; try reflexivity.
  unfold dispatch. rewrite <- (decode_spec j).
  destruct (decode_request j) as [rq|]; [|reflexivity].
  cbn [option_map req_tuple]. unfold JSONRPC_VERSION, answer.
  destruct (negb (String.eqb (rq_jsonrpc rq) "2.0")); [reflexivity|].
  destruct (handle_method c e (rq_method rq) (rq_params rq)); reflexivity.
Qed.

(** what conforming to an expectation means for the model's abstract response *)
Definition conforms (ex : expect) (r : option response) (P : json -> Prop) : Prop :=
  match ex with
  | ENone => r = None
  | EError id code => r = Some {| rs_id := id; rs_body := BError code |}
  | EResult id => exists v, r = Some {| rs_id := id; rs_body := BResult v |} /\ P v
  | EResultOrInternal id =>
      (exists v, r = Some {| rs_id := id; rs_body := BResult v |}) \/
      r = Some {| rs_id := id; rs_body := BError (-32603) |}
  end.

(** the request behind a line, if it has the request shape *)
Definition line_request (l : line_outcome) : option (string * string * json * option json) :=
  match l with Parsed j => spec_request j | _ => None end.

(** facts about the result of a line that gets one (given the configuration before) *)
Definition result_fact (c : config) (e : env) (l : line_outcome) (v : json) : Prop :=
  match line_request l with
  | Some (_, me, p, _) => v = result_of c e me p
  | None => True
  end.

Lemma base_known e me : is_base_method me = true -> known_method e me = true.
Proof. intro H. unfold known_method. rewrite H. reflexivity. Qed.

Lemma base_not_sub me : is_base_method me = true -> is_sub_method me = false.
Proof.
  unfold is_base_method, is_sub_method. intro H.
  case_me me "subscribe"; [discriminate|].
  case_me me "unsubscribe"; [discriminate|].
  case_me me "get_subscription_count"; [discriminate|]. reflexivity.
Qed.

Lemma known_stdin me : known_method Stdin me = is_base_method me.
Proof. unfold known_method. apply orb_false_r. Qed.
Lemma known_socket_false me : known_method (Socket false) me = is_base_method me.
Proof. unfold known_method. apply orb_false_r. Qed.

(** the shared part: a request with the right version whose method is handled by `handle_method`,
    on an entry point where `known = is_base_method` for this method *)
Lemma answer_conforms ent c e v me p (id : option json) :
  String.eqb v "2.0" = true ->
  known_method ent me = is_base_method me ->
  let '(o, c') := answer id (handle_method c e me p) c in
  exists r, o = Done r /\
    conforms (match id with None => ENone | Some i => expect_for ent v me p i end) r
             (fun x => x = result_of c e me p) /\
    c' = apply_setting c (if params_ok me p then setting_of me p else None).
Proof.
  intros Hv Hk. rewrite handle_method_sem. unfold expect_for. rewrite Hv, Hk. cbn [negb].
  destruct (is_base_method me) eqn:Hb; cbn [negb].
  - destruct (params_ok me p) eqn:Hp; cbn [negb].
    + destruct (String.eqb me "get_stats") eqn:Hs.
      * apply String.eqb_eq in Hs. subst me.
        destruct (e_stats e); cbn [answer]; eexists; (split; [reflexivity|]);
          (split; [|reflexivity]); destruct id; cbn; eauto.
      * cbn [answer]. eexists. split; [reflexivity|]. split; [|reflexivity].
        destruct id; cbn; eauto.
    + cbn [answer]. eexists. split; [reflexivity|]. split; [|reflexivity]. destruct id; reflexivity.
  - cbn [answer]. eexists. split; [reflexivity|]. split.
    + destruct id; reflexivity.
    + destruct (params_ok me p); [|reflexivity].
      unfold setting_of. unfold is_base_method in Hb.
      case_me me "set_mode"; [discriminate|].
      case_me me "set_quality"; [discriminate|].
      case_me me "set_stall_deselect"; [discriminate|].
      case_me me "set_conn_timeout"; [discriminate|]. reflexivity.
Qed.

Lemma spec_setting_unfold l :
  spec_setting l =
  match line_request l with
  | Some (v, me, p, _) => if String.eqb v "2.0" && params_ok me p then setting_of me p else None
  | None => None
  end.
Proof. destruct l; reflexivity. Qed.

Lemma spec_expect_unfold ent l :
  spec_expect ent l =
  match l with
  | Blank => ENone
  | Unparsable => EError JNull (-32700)
  | Parsed _ =>
      match line_request l with
      | None => EError JNull (-32700)
      | Some (v, me, p, None) => ENone
      | Some (v, me, p, Some id) => expect_for ent v me p id
      end
  end.
Proof. destruct l; reflexivity. Qed.

Theorem dispatch_conforms c e l :
  exists r, fst (dispatch c e l) = Done r /\
    conforms (spec_expect Stdin l) r (result_fact c e l) /\
    snd (dispatch c e l) = apply_setting c (spec_setting l).
Proof.
  rewrite dispatch_unfold, spec_setting_unfold, spec_expect_unfold. unfold result_fact.
  destruct l as [| |j]; cbn [line_request fst snd].
  - eexists. repeat split.
  - eexists. repeat split.
  - destruct (spec_request j) as [[[[v me] p] id]|]; [|eexists; repeat split].
    destruct (String.eqb v "2.0") eqn:Hv; cbn [negb andb].
    + pose proof (answer_conforms Stdin c e v me p id Hv (known_stdin me)) as H.
      destruct (answer id (handle_method c e me p) c) as [o c'].
      destruct H as (r & Ho & Hc & Hs). exists r. cbn [fst snd]. split; [exact Ho|]. split; [|exact Hs].
      destruct id; exact Hc.
    + eexists. cbn [fst snd]. split; [reflexivity|]. split; [|reflexivity].
      destruct id; cbn [respond conforms]; [|reflexivity].
      unfold expect_for. rewrite Hv. reflexivity.
Qed.

(** ---- socket entry ---- *)
Definition sub_answer (id : option json) (s : sub_result) (c : config) (h : hub) : outcome * config * hub :=
  match s with
  | SOk h' v => (Done (respond id (BResult v)), c, h')
  | SErr code => (Done (respond id (BError code)), c, h)
  end.

Lemma dispatch_async_unfold ctx c h e l :
  dispatch_async ctx c h e l =
  match l with
  | Parsed j =>
      match spec_request j with
      | Some (v, me, p, id) =>
          if String.eqb v "2.0" && ctx && is_sub_method me then
            if String.eqb me "subscribe" then sub_answer id (handle_subscribe h p) c h
            else if String.eqb me "unsubscribe" then sub_answer id (handle_unsubscribe h p) c h
            else (Done (respond id (BResult (JObj [("count", JInt (blen (h_live h)))]))), c, h)
          else (dispatch c e l, h)
      | None => (dispatch c e l, h)
      end
  | _ => (dispatch c e l, h)
  end.
Proof.
  destruct l as [| |j]; try reflexivity.
  unfold dispatch_async, dispatch. rewrite <- (decode_spec j).
  destruct (decode_request j) as [rq|]; [|reflexivity].
  cbn [option_map req_tuple]. unfold JSONRPC_VERSION.
  destruct (String.eqb (rq_jsonrpc rq) "2.0"); cbn [negb andb]; [|reflexivity].
  unfold is_sub_method, sub_answer.
  destruct ctx; cbn [andb].
  - destruct (String.eqb (rq_method rq) "subscribe"); cbn [orb].
    { destruct (handle_subscribe h (rq_params rq)); reflexivity. }
    destruct (String.eqb (rq_method rq) "unsubscribe"); cbn [orb].
    { destruct (handle_unsubscribe h (rq_params rq)); reflexivity. }
    destruct (String.eqb (rq_method rq) "get_subscription_count"); [reflexivity|].
    destruct (handle_method c e (rq_method rq) (rq_params rq)); reflexivity.
  - destruct (handle_method c e (rq_method rq) (rq_params rq)); reflexivity.
Qed.

(** the socket never changes the configuration differently from stdin *)
Theorem async_config_same ctx c h e l :
  snd (fst (dispatch_async ctx c h e l)) = snd (dispatch c e l).
Proof.
  rewrite dispatch_async_unfold.
  destruct l as [| |j]; try reflexivity.
  destruct (spec_request j) as [[[[v me] p] id]|] eqn:Hr; [|reflexivity].
  destruct (String.eqb v "2.0" && ctx && is_sub_method me) eqn:Hc; [|reflexivity].
  apply andb_true_iff in Hc. destruct Hc as [Hc Hsub]. apply andb_true_iff in Hc. destruct Hc as [Hv _].
  assert (Hd : snd (dispatch c e (Parsed j)) = c).
  { rewrite dispatch_unfold, Hr, Hv. cbn [negb]. rewrite handle_method_sem.
    destruct (is_base_method me) eqn:Hb; [apply base_not_sub in Hb; congruence|]. reflexivity. }
  rewrite Hd.
  destruct (String.eqb me "subscribe"); [destruct (handle_subscribe h p); reflexivity|].
  destruct (String.eqb me "unsubscribe"); [destruct (handle_unsubscribe h p); reflexivity|].
  reflexivity.
Qed.

(** outside the subscription methods (or without a subscription context) the socket is stdin *)
Theorem async_agrees ctx c h e l :
  (match line_request l with
   | Some (_, me, _, _) => ctx && is_sub_method me = false
   | None => True
   end) ->
  dispatch_async ctx c h e l = (dispatch c e l, h).
Proof.
  intro H. rewrite dispatch_async_unfold.
  destruct l as [| |j]; try reflexivity.
  cbn [line_request] in H.
  destruct (spec_request j) as [[[[v me] p] id]|]; [|reflexivity].
  rewrite <- andb_assoc, H, andb_false_r. reflexivity.
Qed.

Lemma known_socket_true_sub me : is_sub_method me = true -> known_method (Socket true) me = true.
Proof. intro H. unfold known_method. rewrite H. apply orb_true_r. Qed.

Lemma known_socket_nonsub ctx me : ctx && is_sub_method me = false -> known_method (Socket ctx) me = is_base_method me.
Proof.
  intro H. unfold known_method. destruct ctx; [|apply orb_false_r].
  cbn [andb] in H. rewrite H. apply orb_false_r.
Qed.

Theorem dispatch_async_conforms ctx c h e l :
  exists r, fst (fst (dispatch_async ctx c h e l)) = Done r /\
    conforms (spec_expect (Socket ctx) l) r
             (fun v => match line_request l with
                       | Some (_, me, _, _) => is_sub_method me = false -> result_fact c e l v
                       | None => True
                       end).
Proof.
  rewrite dispatch_async_unfold, spec_expect_unfold.
  destruct l as [| |j]; cbn [line_request fst snd].
  - eexists. repeat split.
  - eexists. repeat split.
  - unfold result_fact. cbn [line_request].
    destruct (spec_request j) as [[[[v me] p] id]|] eqn:Hr; [|rewrite dispatch_unfold, Hr; eexists; repeat split].
    destruct (String.eqb v "2.0" && ctx && is_sub_method me) eqn:Hc.
    + apply andb_true_iff in Hc. destruct Hc as [Hc Hsub]. apply andb_true_iff in Hc. destruct Hc as [Hv Hctx].
      subst ctx.
      assert (Hnb : is_base_method me = false).
      { destruct (is_base_method me) eqn:Hb; [apply base_not_sub in Hb; congruence|reflexivity]. }
      assert (Hex : forall i, expect_for (Socket true) v me p i =
                              if params_ok me p then EResult i else EError i (-32602)).
      { intro i. unfold expect_for. rewrite Hv, (known_socket_true_sub me Hsub). cbn [negb].
        destruct (params_ok me p); cbn [negb]; [|reflexivity].
        destruct (String.eqb me "get_stats") eqn:Hs; [|reflexivity].
        apply String.eqb_eq in Hs. subst me. discriminate. }
      unfold is_sub_method in Hsub.
      case_me me "subscribe".
      { unfold handle_subscribe, params_ok in *. cbn in Hex |- *.
        destruct (vget p "topic") as [x|]; [destruct x|]; cbn in Hex |- *;
          try (eexists; split; [reflexivity|]; destruct id; cbn; [rewrite Hex|]; reflexivity).
        unfold is_known_topic.
        destruct (String.eqb s "stats" || String.eqb s "priority.window") eqn:Ht.
        - rewrite orb_false_r in Hex. rewrite Ht in Hex. cbn. eexists. split; [reflexivity|].
          destruct id; cbn; [rewrite Hex; eexists; split; [reflexivity|discriminate]|reflexivity].
        - rewrite orb_false_r in Hex. rewrite Ht in Hex. cbn. eexists. split; [reflexivity|].
          destruct id; cbn; [rewrite Hex|]; reflexivity. }
      case_me me "unsubscribe".
      { unfold handle_unsubscribe, params_ok in *. cbn in Hex |- *.
        destruct (vget p "subscription_id") as [x|]; [destruct x|]; cbn in Hex |- *;
          try (eexists; split; [reflexivity|]; destruct id; cbn; [rewrite Hex|]; reflexivity).
        eexists. split; [reflexivity|].
        destruct id; cbn; [rewrite Hex; eexists; split; [reflexivity|discriminate]|reflexivity]. }
      case_me me "get_subscription_count"; [|discriminate].
      cbn in Hex |- *. eexists. split; [reflexivity|].
      destruct id; cbn; [rewrite Hex; eexists; split; [reflexivity|discriminate]|reflexivity].
    + cbn [fst]. rewrite dispatch_unfold, Hr.
      destruct (String.eqb v "2.0") eqn:Hv; cbn [negb andb] in *.
      * assert (Hk : known_method (Socket ctx) me = is_base_method me) by (apply known_socket_nonsub; exact Hc).
        pose proof (answer_conforms (Socket ctx) c e v me p id Hv Hk) as H.
        destruct (answer id (handle_method c e me p) c) as [o c'].
        destruct H as (r & Ho & Hcf & _). exists r. cbn [fst]. split; [exact Ho|].
        destruct id; [|exact Hcf].
        destruct (expect_for (Socket ctx) v me p j0); cbn [conforms] in *; try exact Hcf.
        destruct Hcf as (x & Hx1 & Hx2). exists x. split; [exact Hx1|]. intros _. exact Hx2.
      * eexists. cbn [fst]. split; [reflexivity|].
        destruct id; cbn [respond conforms]; [|reflexivity].
        unfold expect_for. rewrite Hv. reflexivity.
Qed.
