(** LeafCritP.v — CriticalWindow::{extend_to, is_critical_now} (crates/srtla-core/src/priority.rs) as regenerated
    from the Rust source on every run (coq/Gen/LeafCrit.v) = the critical-window deadline of Model/Classic.v
    (C10: [crit], op [XCritical], the override test of [route]).  See DESIGN.md §12.8 (third batch).
    Atomics are plain fields (fetch_max = Z.max, fetch_add = wrapping +).  In Model/Route.v (C04) the open
    window is an input boolean of [route], so there is nothing to equate there. *)
From Coq Require Import List.
From Srtla Require Import Base Constants LeafCrit LeafTac.
From Srtla Require Classic.
From Coq Require Import ZifyBool.
Local Open Scope Z_scope.

(** XCritical d: the deadline moves to what [extend_to] stores (whatever the counter of received windows is);
    links and trace are untouched *)
Lemma leaf_crit_extend_to_ok g s d wr :
  fst (Classic.xstep g s (Classic.XCritical d)) =
  {| Classic.xs := Classic.xs s; Classic.tr := Classic.tr s;
     Classic.crit := fst (leaf_crit_extend_to (Classic.crit s) wr d) |}.
Proof. first [ solve [ reflexivity ]
             | solve [ cbn [Classic.xstep Classic.quiet fst]; f_equal; unfold leaf_crit_extend_to; cbv zeta; cbn [fst]; lia ]
             | solve [ cbn [Classic.xstep Classic.quiet fst]; f_equal; leaf_auto2 ] ]. Qed.

(** the counter: one more per call, wrapping at 2^64 (an AtomicU64 never panics) *)
Lemma leaf_crit_extend_to_count_ok c wr d :
  snd (leaf_crit_extend_to c wr d) = (wr + 1) mod two64.
Proof. first [ solve [ reflexivity ] | leaf_auto | leaf_auto2 ]. Qed.

(** the test [route] makes for the best-path override is [is_critical_now] on the stored deadline *)
Lemma leaf_crit_is_critical_now_ok s now :
  (now <? Classic.crit s) = leaf_crit_is_critical_now (Classic.crit s) now.
Proof. first [ solve [ reflexivity ] | solve [ unfold leaf_crit_is_critical_now; cbv zeta; lia ] | leaf_auto | leaf_auto2 ]. Qed.

Lemma leaf_crit_route_ok s q retx now tmo :
  Classic.route false s (Some q) retx now tmo =
  let sel := Classic.select (Classic.xs s) now tmo in
  if leaf_crit_is_critical_now (Classic.crit s) now || retx
  then match Classic.best_quality (Classic.xs s) with Some b => Some b | None => sel end
  else sel.
Proof. unfold Classic.route. rewrite leaf_crit_is_critical_now_ok. reflexivity. Qed.

(** a deadline only moves forward, and a window extended to [d] is open exactly before [d] or the old deadline *)
Lemma leaf_crit_extend_then_open c wr d now :
  leaf_crit_is_critical_now (fst (leaf_crit_extend_to c wr d)) now =
  leaf_crit_is_critical_now c now || leaf_crit_is_critical_now d now.
Proof. first [ solve [ unfold leaf_crit_is_critical_now, leaf_crit_extend_to; cbv zeta; cbn [fst]; lia ] | leaf_auto | leaf_auto2 ]. Qed.
