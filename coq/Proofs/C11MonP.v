(** C11MonP.v — the C11 monitor's per-select clauses hold on every model select. *)
From Coq Require Import ZArith List Bool Lia Floats.
From Srtla Require Import Base Constants FConstants Select Run_Sel Run_C11 FloatP SelFloatP SelectP C11P SelViewP.

Import ListNotations.
Local Open Scope Z_scope.

Lemma spec_scores_length au q now : forall ls exps, length (spec_scores au q now ls exps) = length ls.
Proof. induction ls; intros; cbn; auto. Qed.

Lemma spec_scores_nth au q now : forall ls exps i c,
  nth_error ls i = Some c ->
  exists e, nths (spec_scores au q now ls exps) i =
            (if spec_candidate au now c then Some (spec_score au q now e c) else None).
Proof.
  induction ls as [|a t IH]; intros exps i c E; [destruct i; discriminate|].
  destruct i; cbn [nth_error] in E.
  - inversion E; subst. exists (hd 1%float exps). reflexivity.
  - destruct (IH (tl exps) i c E) as (e & H). exists e. exact H.
Qed.

Lemma nths_lt all i s : nths all i = Some s -> (i < length all)%nat.
Proof.
  unfold nths. intros E. destruct (Nat.lt_ge_cases i (length all)); auto.
  rewrite nth_overflow in E by assumption. discriminate.
Qed.

Lemma score_list_not_nan ls : forall exps au q now s,
  Forall wfl ls -> forallb exp_okb exps = true ->
  In (Some s) (score_list ls exps au q now) -> PrimFloat.is_nan s = false.
Proof.
  induction ls as [|c t IH]; intros exps au q now s Hw He Hin; [destruct Hin|].
  inversion Hw; subst. destruct (forallb_hd_tl _ He) as (He1 & He2).
  cbn [score_list] in Hin. destruct Hin as [E|Hin].
  - destruct (score_link au q now (hd 1%float exps) c) as [(s0, c')|] eqn:Es; [|discriminate].
    cbn in E. inversion E; subst. eapply score_link_not_nan; eauto.
  - eapply IH; eauto.
Qed.

Lemma forallb_qrange s' : Forall wfl s' -> forallb (fun h => spec_q_rangeb (h_qmult h)) (map hid_of s') = true.
Proof.
  induction 1 as [|c t Hc Ht IH]; [reflexivity|]. cbn [map forallb]. rewrite IH, andb_true_r.
  unfold wfl, wf_linkb in Hc. apply andb_true_iff in Hc. exact (proj2 Hc).
Qed.

(** the monitor's clauses 1,2,3,5,6 hold on a model select *)
Lemma mon_select_model s last now cfg exps :
  Forall wfl s -> forallb exp_okb exps = true ->
  mon_select s last now cfg exps (fst (model_select s last now cfg exps)) = 0%N.
Proof.
  intros Hwf He. unfold mon_select, model_select.
  destruct (select s last now cfg exps) as (r, s') eqn:Esel. cbn [fst o_res o_hid].
  destruct (c_mode cfg) eqn:Em; [reflexivity|].
  destruct (negb _); [reflexivity|].
  (* unfold the model's select in enhanced mode *)
  unfold select in Esel. rewrite Em in Esel.
  set (ls1 := apply_stall_gate s now cfg) in *.
  set (q := c_quality cfg && true) in *.
  assert (Eq : enhanced_quality cfg = q) by (unfold enhanced_quality; now rewrite Em).
  rewrite Eq.
  assert (Hwf1 : Forall wfl ls1) by now apply gate_wf.
  assert (Er : r = fst (enhanced_select ls1 last now q exps)) by now rewrite Esel.
  assert (Es' : s' = snd (enhanced_select ls1 last now q exps)) by now rewrite Esel.
  rewrite enhanced_select_decide in Er. rewrite enhanced_select_snd in Es'.
  set (au := existsb (unconstrained now) ls1) in *.
  assert (V : Forall2 (fun a b => sel_view a = sel_view b) (gated_view s (map hid_of s')) ls1).
  { apply (gated_view_sel s ls1 s' (gate_cv s now cfg)). rewrite Es'. apply enh_loop_nc. }
  set (g := gated_view s (map hid_of s')) in *.
  rewrite (existsb_unconstrained_view now g ls1 V), existsb_unconstrained_spec. fold au.
  rewrite (spec_scores_view au q now g ls1 exps V), <- score_list_spec.
  set (scs := score_list ls1 exps au q now) in *.
  assert (Hwf' : Forall wfl s').
  { rewrite Es'. eapply link_rel_wf; [apply enh_loop_rel; exact He | exact Hwf1]. }
  rewrite (forallb_qrange s' Hwf').
  destruct r as [i|]; [|reflexivity].
  symmetry in Er.
  destruct (decide_candidate scs last i Er) as (si & Hi).
  change (nth_score scs i) with (nths scs i). rewrite Hi.
  assert (Hlen : length g = length scs).
  { unfold scs. rewrite score_list_spec, spec_scores_length. apply (F2_length _ _ _ V). }
  destruct (nth_error g i) as [ci|] eqn:Eg.
  2:{ apply nth_error_None in Eg. apply nths_lt in Hi. lia. }
  (* the chosen link is a candidate *)
  assert (Hcand : au && spec_over_cap ci = false).
  { destruct (spec_scores_nth au q now g exps i ci Eg) as (e & Hn).
    rewrite (spec_scores_view au q now g ls1 exps V), <- score_list_spec in Hn. fold scs in Hn.
    rewrite Hi in Hn. unfold spec_candidate in Hn.
    destruct (spec_eligible now ci); cbn [andb] in Hn; [|discriminate].
    destruct (au && spec_over_cap ci); [discriminate | reflexivity]. }
  rewrite Hcand.
  assert (Hnan : forall x, In (Some x) scs -> PrimFloat.is_nan x = false).
  { intros x Hx. exact (score_list_not_nan ls1 exps au q now x Hwf1 He Hx). }
  pose proof (decide_argmax scs last i si Hnan Er Hi) as D3.
  destruct last as [l|].
  - change (nth_score scs l) with (nths scs l).
    destruct (nths scs l) as [sc|] eqn:El.
    + destruct (Nat.eqb i l) eqn:Eil; cbn [negb andb].
      * apply Nat.eqb_eq in Eil. subst l. rewrite Hi in El. inversion El; subst sc.
        destruct D3 as [M|(_ & B)]; [rewrite M | rewrite B, orb_true_r]; reflexivity.
      * apply Nat.eqb_neq in Eil.
        rewrite (decide_leave scs l i sc Er Eil El).
        destruct D3 as [M|(E & _)]; [rewrite M; reflexivity | inversion E; congruence].
    + destruct D3 as [M|(E & B)].
      * rewrite M. reflexivity.
      * inversion E; subst. rewrite Hi in El. discriminate.
  - destruct D3 as [M|(E & _)]; [rewrite M; reflexivity | discriminate].
Qed.
