(** LeafLiveP.v — hand-written model functions = the definitions tools/gen_leaf.py regenerates from the Rust
    source on every run (coq/Gen/LeafLive.v); see DESIGN.md §12.8. *)
From Coq Require Import Floats.
From Srtla Require Import Base Constants LeafLive LeafStall LeafTac.
From Srtla Require Keepalive Stall Rtt Route StallSel.
From Coq Require Import ZifyBool.
Local Open Scope Z_scope.

(** ---- connection/mod.rs  <->  Model/Keepalive.v (C14), Model/Stall.v (C03 C04 C12 C13) ---- *)
Lemma leaf_needs_keepalive_ok l now :
  Keepalive.needs_keepalive l now = leaf_needs_keepalive (Keepalive.l_connected l) (Keepalive.l_last_ka l) now.
Proof. first [ solve [ reflexivity ] | leaf_auto ]. Qed.

Lemma leaf_is_timed_out_keepalive_ok l now :
  Keepalive.is_timed_out l now =
  leaf_is_timed_out (Keepalive.l_connected l) (Keepalive.l_estab l) (Keepalive.l_grace l)
                    (Keepalive.l_last_recv l) (Keepalive.l_timeout l) now.
Proof. first [ solve [ unfold Keepalive.is_timed_out, Keepalive.silent_too_long, leaf_is_timed_out; cbn zeta; destruct (Keepalive.l_connected l), (Keepalive.l_last_recv l); reflexivity ] | leaf_auto ]. Qed.

Lemma leaf_is_timed_out_stall_ok a ct now :
  Stall.is_timed_out a ct now =
  leaf_is_timed_out (Stall.a_conn a) (Stall.a_estab a) (Stall.a_grace a) (Stall.a_lastrecv a) ct now.
Proof. first [ solve [ unfold Stall.is_timed_out, leaf_is_timed_out; cbn zeta; destruct (Stall.a_conn a), (Stall.a_lastrecv a); reflexivity ] | leaf_auto ]. Qed.

(** [stall_probe_due] as used by the duplicate-probe step of Model/Route.v (C04; same rule in C01) *)
Lemma leaf_stall_probe_due_ok l :
  Stall.g_gated (Stall.lg l) && Stall.a_conn (Stall.la l) = true ->
  let '(c', due) := leaf_stall_probe_due (Stall.g_probe (Stall.lg l)) in
  Stall.g_probe (Stall.lg (Route.probe_link l)) = c' /\
  (Stall.x_queued (Stall.lx (Route.probe_link l)) = Stall.x_queued (Stall.lx l) + (if due then 1 else 0)).
Proof. first [ solve [ intros H; unfold leaf_stall_probe_due, Route.probe_link; rewrite H; cbn zeta; destruct (STALL_PROBE_ONE_IN_N <=? Stall.g_probe (Stall.lg l) + 1); cbn; split; try reflexivity; lia ]
              | (intros H; unfold Route.probe_link; rewrite H; leaf_auto) ]. Qed.


(** ---- connection/rtt.rs  <->  Model/Rtt.v (C14) ---- *)
Lemma leaf_needs_measurement_ok r conn est now :
  Rtt.needs_measurement r conn est now = leaf_needs_measurement (Rtt.r_waiting r) (Rtt.r_last_meas r) conn est now.
Proof. first [ solve [ reflexivity ] | leaf_auto ]. Qed.

(** [get_smooth_rtt_ms] (generated in Gen/LeafStall.v with the stall functions that call it)  <->  Model/Keepalive.v (C14) *)
Lemma leaf_get_smooth_rtt_ms_keepalive_ok l :
  Keepalive.get_smooth_rtt_ms l = leaf_get_smooth_rtt_ms (Rtt.kx (Rtt.r_k (Keepalive.l_rtt l))).
Proof. first [ solve [ unfold Keepalive.get_smooth_rtt_ms, leaf_get_smooth_rtt_ms, Rtt.f_max0, Select.f64_max, Rtt.f_is_nan;
                        destruct (PrimFloat.is_nan _); reflexivity ]
             | (unfold Keepalive.get_smooth_rtt_ms; generalize (Rtt.kx (Rtt.r_k (Keepalive.l_rtt l))); clear l; intro x;
                unfold leaf_get_smooth_rtt_ms, Rtt.f_max0, Select.f64_max, Rtt.f_is_nan;
                change (PrimFloat.is_nan 0) with false; leaf_split2; leaf_close2) ]. Qed.
