(** UplinkP.v — lemmas about Model/Uplink.v: the dispatch is total and equals a
    decoder-free description; what reaches the client; how one uplink datagram moves
    each link's liveness stamp, delivery-proof stamp, packet log and window. *)
From Srtla Require Import Base Constants Wire WireSpec WireP Conn Run_Core ConnP Uplink.
From Coq Require Import ZifyBool.
Ltac Zify.zify_post_hook ::= Z.div_mod_to_equations.

(** ---------- the dispatch without the bounds-checked monad ---------- *)
Lemma get_packet_type_spec b : get_packet_type b = Ok (spec_type b).
Proof. rewrite get_packet_type_ok, spec_type_nth. reflexivity. Qed.

(** the keepalive timestamp as a total function (the decoder never fails) *)
Definition ka_ts (d : list Z) : option Z :=
  match extract_keepalive_timestamp d with Ok v => v | _ => None end.
Lemma ka_ts_ok d : extract_keepalive_timestamp d = Ok (ka_ts d).
Proof. unfold ka_ts. destruct (total_extract_keepalive_timestamp d) as [v ->]. reflexivity. Qed.

Lemma ka_ts_some d t : ka_ts d = Some t ->
  10 <= blen d /\ spec_type d = Some SRTLA_TYPE_KEEPALIVE.
Proof.
  unfold ka_ts, extract_keepalive_timestamp.
  destruct (blen d <? 10) eqn:E; [discriminate|].
  rewrite get_packet_type_spec. cbn [bind].
  destruct (spec_type d) as [pt|] eqn:Et; [|discriminate].
  destruct (pt =? SRTLA_TYPE_KEEPALIVE) eqn:Ek; [|discriminate].
  intros _. split; [lia|]. f_equal. lia.
Qed.

Definition ka_accepts (d : list Z) (now : Z) : bool :=
  match ka_ts d with
  | Some t => (0 <? ssub now t) && (ssub now t <=? KA_RTT_CAP_MS)
  | None => false
  end.

Definition pup (c : link) (x : xlink) (k : bool) (w : wd) (now : Z) : link * xlink * incoming * list wd :=
  let d := bytes_of w in
  match spec_type d with
  | None => (c, x, inc0, [])
  | Some pt =>
    match reg_classify pt with
    | Some RegNgp => (c, x, inc0, [])
    | Some Reg2 => (c, x, inc0, [])
    | Some Reg3 => (reg3_link c now, reg3_x x now, inc0, [])
    | Some RegErr => (set_conn c false None, x, inc0, [])
    | None =>
      let c1 := set_conn c (connected c) (Some now) in
      if pt =? SRT_TYPE_ACK then
        (c1, x, {| i_fwd := [w];
                   i_acks := match spec_parse_srt_ack d with Some v => [v] | None => [] end;
                   i_naks := []; i_sacks := [] |}, if k then [w] else [])
      else if pt =? SRT_TYPE_NAK then
        (c1, x, {| i_fwd := [w]; i_acks := []; i_naks := spec_parse_srt_nak d; i_sacks := [] |}, [])
      else if pt =? SRTLA_TYPE_ACK then
        (c1, x, {| i_fwd := []; i_acks := []; i_naks := []; i_sacks := spec_parse_srtla_ack d |}, [])
      else if pt =? SRTLA_TYPE_KEEPALIVE then
        if waiting x then
          if ka_accepts d now
          then (set_proof c1 now, record_rtt_probe (set_waiting x false), inc0, [])
          else (c1, set_waiting x false, inc0, [])
        else (c1, x, inc0, [])
      else (c1, x, {| i_fwd := [w]; i_acks := []; i_naks := []; i_sacks := [] |}, [])
    end
  end.

Theorem process_uplink_packet_total c x k w now :
  process_uplink_packet c x k w now = Ok (pup c x k w now).
Proof.
  unfold process_uplink_packet, pup. rewrite get_packet_type_spec. cbn [bind].
  destruct (spec_type (bytes_of w)) as [pt|]; [|reflexivity].
  destruct (reg_classify pt) as [[| | |]|]; try reflexivity.
  destruct (pt =? SRT_TYPE_ACK). { rewrite parse_srt_ack_spec. reflexivity. }
  destruct (pt =? SRT_TYPE_NAK). { rewrite parse_srt_nak_spec. reflexivity. }
  destruct (pt =? SRTLA_TYPE_ACK). { rewrite parse_srtla_ack_spec. reflexivity. }
  destruct (pt =? SRTLA_TYPE_KEEPALIVE); [|reflexivity].
  destruct (waiting x); [|reflexivity].
  rewrite ka_ts_ok. cbn [bind]. unfold ka_accepts.
  destruct (ka_ts (bytes_of w)) as [t|]; [|reflexivity].
  destruct ((0 <? ssub now t) && (ssub now t <=? KA_RTT_CAP_MS)); reflexivity.
Qed.

(** handle_uplink with the dispatch replaced by [pup]: the decoder-failure branch is dead *)
Definition hup (s : ustate) (id : Z) (w : wd) (now : Z) (classic : bool) : ustate * list wd * bool :=
  match bytes_of w with
  | [] => (s, [], false)
  | _ :: _ =>
    let ls := links (core s) in
    match find_pos id ls O with
    | None => (s, [], false)
    | Some idx =>
      match nth_error ls idx, nth_error (xs s) idx with
      | Some c, Some x =>
        let '(c', x', inc, fast) := pup c x (client s) w now in
        let '(ls', fwd) :=
          process_connection_events (upd idx (fun _ => c') ls) (trk (core s)) idx classic now inc (client s) in
        ({| core := {| links := ls'; trk := trk (core s) |};
            xs := upd idx (fun _ => x') (xs s); client := client s |},
         fast ++ fwd, negb (existsb ovf ls) && existsb ovf ls')
      | _, _ => (s, [], false)
      end
    end
  end.

Theorem handle_uplink_hup s id w now classic : handle_uplink s id w now classic = hup s id w now classic.
Proof.
  unfold handle_uplink, hup. destruct (bytes_of w); [reflexivity|].
  destruct (find_pos _ _ _) as [idx|]; [|reflexivity].
  destruct (nth_error (links (core s)) idx) as [c|]; [|reflexivity].
  destruct (nth_error (xs s) idx) as [x|]; [|reflexivity].
  rewrite process_uplink_packet_total.
  destruct (pup c x (client s) w now) as [[[c' x'] inc] fast]. reflexivity.
Qed.

(** ---------- what the dispatch forwards ---------- *)
Definition is_reg (t : Z) : bool :=
  (t =? SRTLA_TYPE_REG_NGP) || (t =? SRTLA_TYPE_REG2) || (t =? SRTLA_TYPE_REG3) || (t =? SRTLA_TYPE_REG_ERR).
Definition is_int (t : Z) : bool := is_reg t || (t =? SRTLA_TYPE_ACK) || (t =? SRTLA_TYPE_KEEPALIVE).

Lemma reg_classify_none t : reg_classify t = None <-> is_reg t = false.
Proof.
  unfold reg_classify, is_reg.
  destruct (t =? SRTLA_TYPE_REG_NGP); [cbn; split; discriminate|].
  destruct (t =? SRTLA_TYPE_REG2); [cbn; split; discriminate|].
  destruct (t =? SRTLA_TYPE_REG3); [cbn; split; discriminate|].
  destruct (t =? SRTLA_TYPE_REG_ERR); cbn; split; (discriminate || reflexivity).
Qed.

(** the datagrams one uplink datagram puts on the client socket: fast path ++ forward list *)
Definition out_of (k : bool) (r : link * xlink * incoming * list wd) : list wd :=
  snd r ++ (if k then i_fwd (snd (fst r)) else []).

Lemma pup_out_internal c x k w now t :
  spec_type (bytes_of w) = Some t -> is_int t = true -> out_of k (pup c x k w now) = [].
Proof.
  intros Ht Hi. unfold out_of, pup. rewrite Ht.
  unfold is_int in Hi.
  destruct (reg_classify t) as [[| | |]|] eqn:Er; try (destruct k; reflexivity).
  apply reg_classify_none in Er. rewrite Er in Hi. cbn [orb] in Hi.
  assert (Hc := type_const_range).
  destruct (t =? SRT_TYPE_ACK) eqn:E1.
  { exfalso. unfold SRT_TYPE_ACK, SRTLA_TYPE_ACK, SRTLA_TYPE_KEEPALIVE in *. lia. }
  destruct (t =? SRT_TYPE_NAK) eqn:E2.
  { exfalso. unfold SRT_TYPE_NAK, SRTLA_TYPE_ACK, SRTLA_TYPE_KEEPALIVE in *. lia. }
  destruct (t =? SRTLA_TYPE_ACK) eqn:E3; [destruct k; reflexivity|].
  destruct (t =? SRTLA_TYPE_KEEPALIVE) eqn:E4; [|cbn in Hi; discriminate].
  destruct (waiting x); [destruct (ka_accepts _ _)|]; destruct k; reflexivity.
Qed.

Lemma pup_out_relay c x w now t :
  spec_type (bytes_of w) = Some t -> is_int t = false ->
  out_of true (pup c x true w now) = [w] \/ out_of true (pup c x true w now) = [w; w].
Proof.
  intros Ht Hi. unfold out_of, pup. rewrite Ht.
  unfold is_int in Hi. apply orb_false_iff in Hi as [Hi Hk]. apply orb_false_iff in Hi as [Hr Ha].
  apply reg_classify_none in Hr. rewrite Hr.
  destruct (t =? SRT_TYPE_ACK); [right; reflexivity|].
  destruct (t =? SRT_TYPE_NAK); [left; reflexivity|].
  rewrite Ha, Hk. left; reflexivity.
Qed.

Lemma pup_out_only c x k w now : Forall (fun y => y = w) (out_of k (pup c x k w now)).
Proof.
  unfold out_of, pup.
  destruct (spec_type (bytes_of w)) as [t|]; [|destruct k; constructor].
  destruct (reg_classify t) as [[| | |]|]; try (destruct k; constructor).
  destruct (t =? SRT_TYPE_ACK); [destruct k; cbn; repeat constructor|].
  destruct (t =? SRT_TYPE_NAK); [destruct k; cbn; repeat constructor|].
  destruct (t =? SRTLA_TYPE_ACK); [destruct k; constructor|].
  destruct (t =? SRTLA_TYPE_KEEPALIVE).
  - destruct (waiting x); [destruct (ka_accepts _ _)|]; destruct k; constructor.
  - destruct k; cbn; repeat constructor.
Qed.

Lemma pup_out_noclient c x w now : out_of false (pup c x false w now) = [].
Proof.
  unfold out_of, pup.
  destruct (spec_type (bytes_of w)) as [t|]; [|reflexivity].
  destruct (reg_classify t) as [[| | |]|]; try reflexivity.
  destruct (t =? SRT_TYPE_ACK); [reflexivity|].
  destruct (t =? SRT_TYPE_NAK); [reflexivity|].
  destruct (t =? SRTLA_TYPE_ACK); [reflexivity|].
  destruct (t =? SRTLA_TYPE_KEEPALIVE); [|reflexivity].
  destruct (waiting x); [destruct (ka_accepts _ _)|]; reflexivity.
Qed.

(** ---------- per-link effect of the event fan-out ---------- *)
(** window in range and no unchecked-arithmetic overflow recorded *)
Definition WInv (c : link) : Prop := WINDOW_FLOOR <= window c <= WINDOW_CEIL /\ ovf c = false.

Lemma wconsts :
  WINDOW_FLOOR = 1000 /\ WINDOW_CEIL = 60000 /\ WINDOW_DEFAULT = 20000 /\ WINDOW_DECR = 100 /\ WINDOW_INCR = 30 /\
  i32_min = -2147483648 /\ i32_max = 2147483647.
Proof. repeat split; reflexivity. Qed.

Lemma log_mem_remove k k' l : log_mem k (log_remove k' l) = log_mem k l && negb (k =? k').
Proof.
  induction l as [|[a v] l IH]; [reflexivity|]. cbn [log_remove].
  destruct (a =? k') eqn:E.
  - rewrite IH. unfold log_mem. cbn [existsb fst].
    destruct (a =? k) eqn:E2; destruct (k =? k') eqn:E3; destruct (existsb _ l); cbn; try reflexivity; lia.
  - unfold log_mem in *. cbn [existsb fst]. rewrite IH.
    destruct (a =? k) eqn:E2; destruct (k =? k') eqn:E3; destruct (existsb _ l); cbn; try reflexivity; lia.
Qed.

Lemma log_mem_filter k f l : log_mem k (filter f l) = true -> log_mem k l = true.
Proof.
  unfold log_mem. rewrite !existsb_exists. intros (p & Hin & Hp). apply filter_In in Hin as [Hin _]. eauto.
Qed.

(** [evrel now sacks c c']: what process_connection_events may do to one link while it
    handles a datagram whose SRTLA-ACK list is [sacks] *)
Definition evrel (now : Z) (sacks : list Z) (c c' : link) : Prop :=
  cid c' = cid c /\ last_recv c' = last_recv c /\ connected c' = connected c /\
  (forall k, log_mem k (log c') = true -> log_mem k (log c) = true) /\
  (proof c' = proof c \/
   (proof c' = now /\ exists a, In a sacks /\ log_mem (to_i32 a) (log c) = true /\ log_mem (to_i32 a) (log c') = false)) /\
  (WInv c -> WInv c').

Ltac evsplit := unfold evrel; split; [|split; [|split; [|split; [|split]]]].
Ltac lk := cbn [cid last_recv connected log proof window ovf in_flight hwm cg].

Lemma evrel_refl now sacks c : evrel now sacks c c.
Proof. evsplit; auto. Qed.

Lemma evrel_weaken now l l' c c' : (forall a, In a l -> In a l') -> evrel now l c c' -> evrel now l' c c'.
Proof.
  intros Hs (H1 & H2 & H3 & H4 & H5 & H6). evsplit; auto.
  destruct H5 as [H5|(H5 & a & Ha & Hb & Hc)]; [left; exact H5|].
  right. split; [exact H5|]. exists a. auto.
Qed.

Lemma evrel_trans now l c c1 c2 : evrel now l c c1 -> evrel now l c1 c2 -> evrel now l c c2.
Proof.
  intros (A1 & A2 & A3 & A4 & A5 & A6) (B1 & B2 & B3 & B4 & B5 & B6). evsplit; try congruence; auto.
  destruct B5 as [B5|(B5 & a & Ha & Hb & Hc)].
  - destruct A5 as [A5|(A5 & a & Ha & Hb & Hc)]; [left; congruence|].
    right. split; [congruence|]. exists a. split; [exact Ha|]. split; [exact Hb|].
    destruct (log_mem (to_i32 a) (log c2)) eqn:E; [|reflexivity]. apply B4 in E. congruence.
  - right. split; [exact B5|]. exists a. auto.
Qed.

Lemma evrel_srt_ack now l c a : evrel now l c (handle_srt_ack c a).
Proof.
  unfold handle_srt_ack. destruct (a <=? hwm c); [apply evrel_refl|].
  evsplit; lk; auto.
  intros k. destruct (_ && _); apply log_mem_filter.
Qed.

Lemma evrel_global now l c : evrel now l c (handle_srtla_ack_global c).
Proof.
  unfold handle_srtla_ack_global. destruct (_ && _); [|apply evrel_refl].
  evsplit; lk; auto.
  intros [H1 H2]. pose proof wconsts. unfold WInv, i32_ovf. lk. rewrite H2. split; [lia|].
  cbn [orb]. lia.
Qed.

Lemma ack_classic_inv w inf w' o : ack_classic w inf = (w', o) ->
  WINDOW_FLOOR <= w <= WINDOW_CEIL -> WINDOW_FLOOR <= w' <= WINDOW_CEIL /\ o = false.
Proof.
  unfold ack_classic, i32_ovf. pose proof wconsts. intros E Hw.
  destruct (w <? _); inversion E; subst; split; try lia.
Qed.

Lemma evrel_specific now a c cl : evrel now [a] c (fst (handle_srtla_ack_specific c (to_i32 a) cl now)).
Proof.
  unfold handle_srtla_ack_specific. destruct (log_mem (to_i32 a) (log c)) eqn:Em; [|apply evrel_refl].
  assert (Hgen : forall g w o, (WInv c -> WINDOW_FLOOR <= w <= WINDOW_CEIL /\ o = false) ->
    evrel now [a] c {| cid := cid c; connected := connected c; window := w; in_flight := blen (log_remove (to_i32 a) (log c));
                       log := log_remove (to_i32 a) (log c); hwm := hwm c; last_recv := last_recv c; proof := now; cg := g;
                       ovf := ovf c || o |}).
  { intros g w o Hw. evsplit; lk; auto.
    - intros k. rewrite log_mem_remove. intros H. apply andb_prop in H. tauto.
    - right. split; [reflexivity|]. exists a. split; [left; reflexivity|]. split; [exact Em|].
      rewrite log_mem_remove. rewrite Z.eqb_refl. apply andb_false_r.
    - intros H. destruct (Hw H) as [Hw1 ->]. destruct H as [_ H]. unfold WInv. lk. rewrite H. auto. }
  destruct cl.
  - destruct (ack_classic _ _) as [w o] eqn:E. cbn [fst]. apply Hgen.
    intros [Hw _]. eapply ack_classic_inv; eassumption.
  - unfold ack_enhanced. destruct (ack_classic _ _) as [w o] eqn:E. cbn [fst]. apply Hgen.
    intros [Hw _]. eapply ack_classic_inv; eassumption.
Qed.

Lemma cong_nak_inv g w now g' w' o : cong_nak g w now = (g', w', o) ->
  WINDOW_FLOOR <= w <= WINDOW_CEIL -> WINDOW_FLOOR <= w' <= WINDOW_CEIL /\ o = false.
Proof.
  unfold cong_nak, i32_ovf. pose proof wconsts. intros E Hw.
  destruct (if _ : bool then _ else _) as [b bs]. inversion E; subst. split; lia.
Qed.

Lemma evrel_nak now l c seq : evrel now l c (fst (handle_nak c seq now)).
Proof.
  unfold handle_nak. destruct (log_mem seq (log c)); [|apply evrel_refl].
  destruct (cong_nak _ _ _) as [[g w] o] eqn:E. cbn [fst].
  evsplit; lk; auto.
  - intros k. rewrite log_mem_remove. intros H. apply andb_prop in H. tauto.
  - intros [Hw Ho]. eapply cong_nak_inv in E; [|exact Hw]. destruct E as [E ->]. unfold WInv. lk. rewrite Ho. auto.
Qed.

(** ---------- the whole link list ---------- *)
Lemma Forall2i_Forall2 {A B} (R : A -> B -> Prop) i l l' : Forall2i (fun _ => R) i l l' -> Forall2 R l l'.
Proof. induction 1; constructor; auto. Qed.

Lemma Forall2_refl' {A} (R : A -> A -> Prop) l : (forall x, R x x) -> Forall2 R l l.
Proof. intros H. induction l; constructor; auto. Qed.

Lemma Forall2_trans' {A} (R : A -> A -> Prop) : (forall x y z, R x y -> R y z -> R x z) ->
  forall l1 l2 l3, Forall2 R l1 l2 -> Forall2 R l2 l3 -> Forall2 R l1 l3.
Proof.
  intros HR l1 l2 l3 H. revert l3. induction H; intros l3 H3; inversion H3; subst; constructor; eauto.
Qed.

Lemma Forall2_impl' {A B} (R R' : A -> B -> Prop) l l' : (forall x y, R x y -> R' x y) -> Forall2 R l l' -> Forall2 R' l l'.
Proof. intros H F. induction F; constructor; auto. Qed.

Lemma Forall2_map_r' {A B} (R : A -> B -> Prop) (f : A -> B) l : (forall x, R x (f x)) -> Forall2 R l (map f l).
Proof. intros H. induction l; cbn; constructor; auto. Qed.

Lemma Forall2_nth {A B} (R : A -> B -> Prop) l l' : Forall2 R l l' ->
  forall i x, nth_error l i = Some x -> exists y, nth_error l' i = Some y /\ R x y.
Proof.
  induction 1; intros [|i] z Hz; cbn in *; try discriminate.
  - inversion Hz; subst. eauto.
  - eauto.
Qed.

Lemma Forall2_nth_r {A B} (R : A -> B -> Prop) l l' : Forall2 R l l' ->
  forall i y, nth_error l' i = Some y -> exists x, nth_error l i = Some x /\ R x y.
Proof.
  induction 1; intros [|i] z Hz; cbn in *; try discriminate.
  - inversion Hz; subst. eauto.
  - eauto.
Qed.

Definition lrel (now : Z) (sacks : list Z) (ls ls' : list link) : Prop := Forall2 (evrel now sacks) ls ls'.

Lemma lrel_refl now l ls : lrel now l ls ls.
Proof. apply Forall2_refl'. intros; apply evrel_refl. Qed.
Lemma lrel_trans now l a b c : lrel now l a b -> lrel now l b c -> lrel now l a c.
Proof. apply Forall2_trans'. intros x y z. apply evrel_trans. Qed.

Lemma lrel_srtla_ack_event now ls idx a cl : lrel now [a] ls (srtla_ack_event ls idx (to_i32 a) cl now).
Proof.
  pose proof (step_ltrans {| links := ls; trk := [] |} (OSrtlaAck idx (to_i32 a) cl now)) as H.
  cbn [step links] in H. apply Forall2i_Forall2 with (i := O).
  eapply Forall2i_impl; [|exact H]. cbn [ltrans]. intros _ c c' [->|[->| ->]].
  - apply evrel_refl.
  - apply evrel_global.
  - eapply evrel_trans; [apply evrel_specific|apply evrel_global].
Qed.

Lemma lrel_first_hit_nak now l ls seq skip i :
  lrel now l ls (fst (first_hit (fun x => handle_nak x seq now) skip i ls)).
Proof.
  apply Forall2i_Forall2 with (i := i).
  eapply Forall2i_impl; [|apply first_hit_rel]. cbn. intros _ c c' [->|(_ & -> & _)].
  - apply evrel_refl.
  - apply evrel_nak.
Qed.

Lemma lrel_attribute_nak2 now l ls t n : lrel now l ls (attribute_nak2 ls t n now).
Proof.
  unfold attribute_nak2.
  destruct (trk_get t n now) as [id|]; [|apply lrel_first_hit_nak].
  destruct (find_pos id ls 0) as [pos|]; [|apply lrel_first_hit_nak].
  destruct (nth_error ls pos) as [c|]; [|apply lrel_refl].
  destruct (snd (handle_nak c (to_i32 n) now)); [|apply lrel_refl].
  apply Forall2i_Forall2 with (i := O).
  eapply Forall2i_impl; [|apply (upd_rel (fun x => fst (handle_nak x (to_i32 n) now)) ls pos 0)].
  cbn. intros _ c0 c' [[_ ->]|[_ ->]]; [apply evrel_nak|apply evrel_refl].
Qed.

Lemma lrel_apply_srt_acks now l acks : forall ls, lrel now l ls (apply_srt_acks ls acks).
Proof.
  unfold apply_srt_acks. induction acks as [|a acks IH]; intros ls; cbn [fold_left]; [apply lrel_refl|].
  eapply lrel_trans; [|apply IH]. apply Forall2_map_r'. intros c. apply evrel_srt_ack.
Qed.

Lemma lrel_apply_naks now l t naks : forall ls, lrel now l ls (apply_naks ls t now naks).
Proof.
  unfold apply_naks. induction naks as [|a naks IH]; intros ls; cbn [fold_left]; [apply lrel_refl|].
  eapply lrel_trans; [|apply IH]. apply lrel_attribute_nak2.
Qed.

Lemma lrel_apply_srtla_acks now idx cl sacks : forall l ls, (forall a, In a l -> In a sacks) ->
  lrel now sacks ls (apply_srtla_acks ls idx cl now l).
Proof.
  unfold apply_srtla_acks. induction l as [|a l IH]; intros ls Hs; cbn [fold_left]; [apply lrel_refl|].
  eapply lrel_trans; [|apply IH; intros; apply Hs; right; assumption].
  eapply Forall2_impl'; [|apply lrel_srtla_ack_event].
  intros x y. apply evrel_weaken. intros b [<-|[]]. apply Hs. left; reflexivity.
Qed.

Theorem events_rel ls t idx cl now inc k :
  lrel now (i_sacks inc) ls (fst (process_connection_events ls t idx cl now inc k)) /\
  snd (process_connection_events ls t idx cl now inc k) = (if k then i_fwd inc else []).
Proof.
  unfold process_connection_events. cbn [fst snd]. split; [|reflexivity].
  pose proof (lrel_apply_srt_acks now (i_sacks inc) (i_acks inc) ls) as H1.
  pose proof (lrel_apply_srtla_acks now idx cl (i_sacks inc) (i_sacks inc) (apply_srt_acks ls (i_acks inc))
                (fun a H => H)) as H2.
  pose proof (lrel_apply_naks now (i_sacks inc) t (i_naks inc)
                (apply_srtla_acks (apply_srt_acks ls (i_acks inc)) idx cl now (i_sacks inc))) as H3.
  exact (lrel_trans _ _ _ _ _ H1 (lrel_trans _ _ _ _ _ H2 H3)).
Qed.

(** ---------- list helpers ---------- *)
Lemma upd_length {A} (f : A -> A) : forall l i, length (upd i f l) = length l.
Proof. induction l; intros [|i]; cbn; auto. Qed.

Lemma upd_same {A} (c : A) : forall l i, nth_error l i = Some c -> upd i (fun _ => c) l = l.
Proof.
  induction l as [|y l IH]; intros [|i] H; cbn in *; try discriminate.
  - inversion H; reflexivity.
  - f_equal. auto.
Qed.

Lemma nth_error_upd {A} (f : A -> A) : forall l i c, nth_error l i = Some c -> nth_error (upd i f l) i = Some (f c).
Proof.
  induction l as [|y l IH]; intros [|i] c H; cbn in *; try discriminate.
  - inversion H; reflexivity.
  - auto.
Qed.

Lemma nth_error_upd_other {A} (f : A -> A) : forall l i j, i <> j -> nth_error (upd i f l) j = nth_error l j.
Proof.
  induction l as [|y l IH]; intros [|i] [|j] H; cbn; try reflexivity; try congruence.
  apply IH. congruence.
Qed.

Lemma find_pos_nth id : forall l i j, find_pos id l i = Some j ->
  (i <= j)%nat /\ exists c, nth_error l (j - i) = Some c /\ cid c = id.
Proof.
  induction l as [|c l IH]; intros i j H; cbn in H; [discriminate|].
  destruct (cid c =? id) eqn:E.
  - inversion H; subst. split; [lia|]. exists c. rewrite Nat.sub_diag. split; [reflexivity|lia].
  - apply IH in H as (Hle & c' & Hn & Hc). split; [lia|]. exists c'. split; [|exact Hc].
    replace (j - i)%nat with (S (j - S i)) by lia. exact Hn.
Qed.

Lemma find_pos_map_cid id : forall l l' i, map cid l = map cid l' -> find_pos id l i = find_pos id l' i.
Proof.
  induction l as [|c l IH]; intros [|c' l'] i H; cbn in *; try discriminate; [reflexivity|].
  inversion H as [[H1 H2]]. rewrite H1. destruct (cid c' =? id); [reflexivity|]. apply IH. exact H2.
Qed.

Lemma Forall2i_Forall2_comp {A} (R : nat -> A -> A -> Prop) (Q : A -> A -> Prop) i l l1 l2 :
  Forall2i R i l l1 -> Forall2 Q l1 l2 -> Forall2i (fun j a c => exists b, R j a b /\ Q b c) i l l2.
Proof.
  intros H. revert l2. induction H; intros l2 H2; inversion H2; subst; constructor; eauto.
Qed.

Lemma lrel_cids now l ls ls' : lrel now l ls ls' -> map cid ls' = map cid ls.
Proof. induction 1 as [|c c' ls ls' H _ IH]; cbn; [reflexivity|]. destruct H as (-> & _). f_equal. exact IH. Qed.

Lemma lrel_length now l ls ls' : lrel now l ls ls' -> length ls' = length ls.
Proof. induction 1; cbn; congruence. Qed.

Lemma lrel_winv now l ls ls' : lrel now l ls ls' -> Forall WInv ls -> Forall WInv ls'.
Proof.
  induction 1 as [|c c' ls ls' H _ IH]; intros F; [constructor|].
  inversion F; subst. constructor; [|auto]. destruct H as (_ & _ & _ & _ & _ & H). auto.
Qed.

Lemma winv_no_ovf ls : Forall WInv ls -> existsb ovf ls = false.
Proof. induction 1 as [|c ls [_ H] _ IH]; cbn; [reflexivity|]. rewrite H. exact IH. Qed.

(** ---------- the dispatch on the arrival link ---------- *)
Lemma pup_link c x k w now :
  let r := pup c x k w now in
  let c1 := fst (fst (fst r)) in
  cid c1 = cid c /\ (WInv c -> WInv c1) /\
  (forall t, spec_type (bytes_of w) = Some t -> is_reg t = false -> last_recv c1 = Some now) /\
  (spec_type (bytes_of w) = None -> r = (c, x, inc0, [])).
Proof.
  cbv zeta. unfold pup. destruct (spec_type (bytes_of w)) as [t|].
  2:{ cbn [fst snd]. split; [reflexivity|]. split; [auto|]. split; [discriminate|reflexivity]. }
  assert (Hreg3 : WInv c -> WInv (reg3_link c now)).
  { intros [_ Ho]. pose proof wconsts. unfold WInv, reg3_link. cbn [window ovf]. split; [lia|exact Ho]. }
  destruct (reg_classify t) as [[| | |]|] eqn:Er;
    try (cbn [fst snd]; split; [reflexivity|]; split; [auto|]; split; [|discriminate];
         intros t' Ht' Hr; inversion Ht'; subst; apply reg_classify_none in Hr; congruence).
  assert (Hfin : forall (c1 : link) (x1 : xlink) (i1 : incoming) (f1 : list wd), cid c1 = cid c -> (WInv c -> WInv c1) -> last_recv c1 = Some now ->
            cid (fst (fst (fst (c1, x1, i1, f1)))) = cid c /\
            (WInv c -> WInv (fst (fst (fst (c1, x1, i1, f1))))) /\
            (forall t0, Some t = Some t0 -> is_reg t0 = false -> last_recv (fst (fst (fst (c1, x1, i1, f1)))) = Some now) /\
            (Some t = None -> (c1, x1, i1, f1) = (c, x, inc0, []))).
  { intros c1 x1 i1 f1 H1 H2 H3. cbn [fst]. split; [exact H1|]. split; [exact H2|]. split; [intros; exact H3|discriminate]. }
  destruct (t =? SRT_TYPE_ACK); [apply Hfin; auto|].
  destruct (t =? SRT_TYPE_NAK); [apply Hfin; auto|].
  destruct (t =? SRTLA_TYPE_ACK); [apply Hfin; auto|].
  destruct (t =? SRTLA_TYPE_KEEPALIVE); [|apply Hfin; auto].
  destruct (waiting x); [destruct (ka_accepts _ _)|]; apply Hfin; auto.
Qed.

Lemma pup_proof_cases c x k w now :
  let d := bytes_of w in
  let r := pup c x k w now in
  let c1 := fst (fst (fst r)) in
  let inc := snd (fst r) in
  (i_sacks inc = [] /\ proof c1 = proof c) \/
  (i_sacks inc = [] /\ proof c1 = now /\ spec_type d = Some SRTLA_TYPE_KEEPALIVE /\ waiting x = true /\
   ka_accepts d now = true) \/
  (spec_type d = Some SRTLA_TYPE_ACK /\ i_sacks inc = spec_parse_srtla_ack d /\ proof c1 = proof c /\ log c1 = log c).
Proof.
  cbv zeta. unfold pup. destruct (spec_type (bytes_of w)) as [t|]; [|left; split; reflexivity].
  destruct (reg_classify t) as [[| | |]|]; try (left; split; reflexivity).
  destruct (t =? SRT_TYPE_ACK); [left; split; reflexivity|].
  destruct (t =? SRT_TYPE_NAK); [left; split; reflexivity|].
  destruct (t =? SRTLA_TYPE_ACK) eqn:Ea.
  { right; right. cbn. repeat split; auto. f_equal. lia. }
  destruct (t =? SRTLA_TYPE_KEEPALIVE) eqn:Ek; [|left; split; reflexivity].
  destruct (waiting x) eqn:Ew; [|left; split; reflexivity].
  destruct (ka_accepts _ _) eqn:Eka; [|left; split; reflexivity].
  right; left. cbn. repeat split; auto. f_equal. lia.
Qed.

(** ---------- one uplink datagram, end to end ---------- *)
(** the link list after the datagram was handled on link [idx] *)
Definition post_links (s : ustate) (idx : nat) (c : link) (x : xlink) (w : wd) (now : Z) (cl : bool) : list link :=
  let r := pup c x (client s) w now in
  fst (process_connection_events (upd idx (fun _ => fst (fst (fst r))) (links (core s))) (trk (core s)) idx cl now
                                 (snd (fst r)) (client s)).

Lemma hup_main s id w now cl idx c x :
  bytes_of w <> [] -> find_pos id (links (core s)) 0 = Some idx ->
  nth_error (links (core s)) idx = Some c -> nth_error (xs s) idx = Some x ->
  hup s id w now cl =
  ({| core := {| links := post_links s idx c x w now cl; trk := trk (core s) |};
      xs := upd idx (fun _ => snd (fst (fst (pup c x (client s) w now)))) (xs s); client := client s |},
   out_of (client s) (pup c x (client s) w now),
   negb (existsb ovf (links (core s))) && existsb ovf (post_links s idx c x w now cl)).
Proof.
  intros Hb Hf Hc Hx. unfold hup, post_links. destruct (bytes_of w) eqn:Eb; [congruence|].
  rewrite Hf, Hc, Hx. unfold out_of.
  destruct (pup c x (client s) w now) as [[[c1 x1] inc] fast] eqn:Ep. cbn [fst snd].
  pose proof (events_rel (upd idx (fun _ => c1) (links (core s))) (trk (core s)) idx cl now inc (client s)) as [_ H2].
  destruct (process_connection_events _ _ _ _ _ _ _) as [ls' fwd]. cbn [fst snd] in *. subst fwd. reflexivity.
Qed.

(** when the datagram is not handled at all the state is returned untouched *)
Lemma hup_noop s id w now cl :
  bytes_of w = [] \/ find_pos id (links (core s)) 0 = None \/
  (exists idx, find_pos id (links (core s)) 0 = Some idx /\ nth_error (xs s) idx = None) ->
  hup s id w now cl = (s, [], false).
Proof.
  unfold hup. intros [H|[H|(idx & H1 & H2)]].
  - rewrite H. reflexivity.
  - destruct (bytes_of w); [reflexivity|]. rewrite H. reflexivity.
  - destruct (bytes_of w); [reflexivity|]. rewrite H1. destruct (nth_error (links (core s)) idx); [|reflexivity].
    rewrite H2. reflexivity.
Qed.

Lemma spec_type_nonempty d t : spec_type d = Some t -> d <> [].
Proof. intros H ->. discriminate. Qed.

Lemma find_pos_link id ls idx : find_pos id ls 0 = Some idx -> exists c, nth_error ls idx = Some c /\ cid c = id.
Proof. intros H. apply find_pos_nth in H as (_ & c & Hn & Hc). rewrite Nat.sub_0_r in Hn. eauto. Qed.

(** every case of hup at once: either nothing happened, or the main equation holds *)
Lemma hup_split s id w now cl :
  hup s id w now cl = (s, [], false) \/
  exists idx c x, bytes_of w <> [] /\ find_pos id (links (core s)) 0 = Some idx /\
    nth_error (links (core s)) idx = Some c /\ nth_error (xs s) idx = Some x.
Proof.
  destruct (bytes_of w) eqn:Eb; [left; apply hup_noop; auto|].
  destruct (find_pos id (links (core s)) 0) as [idx|] eqn:Ef; [|left; apply hup_noop; auto].
  destruct (find_pos_link _ _ _ Ef) as (c & Hc & _).
  destruct (nth_error (xs s) idx) as [x|] eqn:Ex; [|left; apply hup_noop; right; right; eauto].
  right. exists idx, c, x. repeat split; auto. discriminate.
Qed.

(** C09 relay / unmodified / internal / no client *)
Theorem uplink_relay s id w now cl idx t :
  client s = true -> find_pos id (links (core s)) 0 = Some idx -> (idx < length (xs s))%nat ->
  spec_type (bytes_of w) = Some t -> is_int t = false ->
  snd (fst (handle_uplink s id w now cl)) = [w] \/ snd (fst (handle_uplink s id w now cl)) = [w; w].
Proof.
  intros Hk Hf Hx Ht Hi. rewrite handle_uplink_hup.
  destruct (find_pos_link _ _ _ Hf) as (c & Hc & _).
  destruct (nth_error (xs s) idx) as [x|] eqn:Ex; [|apply nth_error_None in Ex; lia].
  rewrite (hup_main s id w now cl idx c x (spec_type_nonempty _ _ Ht) Hf Hc Ex). cbn [fst snd].
  rewrite Hk. eapply pup_out_relay; eassumption.
Qed.

Theorem uplink_only_the_datagram s id w now cl :
  Forall (fun y => y = w) (snd (fst (handle_uplink s id w now cl))).
Proof.
  rewrite handle_uplink_hup. destruct (hup_split s id w now cl) as [->|(idx & c & x & Hb & Hf & Hc & Hx)].
  - constructor.
  - rewrite (hup_main s id w now cl idx c x Hb Hf Hc Hx). cbn [fst snd]. apply pup_out_only.
Qed.

Theorem uplink_internal_never_relayed s id w now cl t :
  spec_type (bytes_of w) = Some t -> is_int t = true -> snd (fst (handle_uplink s id w now cl)) = [].
Proof.
  intros Ht Hi. rewrite handle_uplink_hup.
  destruct (hup_split s id w now cl) as [->|(idx & c & x & Hb & Hf & Hc & Hx)]; [reflexivity|].
  rewrite (hup_main s id w now cl idx c x Hb Hf Hc Hx). cbn [fst snd]. eapply pup_out_internal; eassumption.
Qed.

Theorem uplink_no_client s id w now cl :
  client s = false -> snd (fst (handle_uplink s id w now cl)) = [].
Proof.
  intros Hk. rewrite handle_uplink_hup.
  destruct (hup_split s id w now cl) as [->|(idx & c & x & Hb & Hf & Hc & Hx)]; [reflexivity|].
  rewrite (hup_main s id w now cl idx c x Hb Hf Hc Hx). cbn [fst snd]. rewrite Hk. apply pup_out_noclient.
Qed.

(** datagrams shorter than two bytes carry no type: nothing is delivered, nothing changes *)
Theorem uplink_short_noop s id w now cl :
  blen (bytes_of w) < 2 -> handle_uplink s id w now cl = (s, [], false).
Proof.
  intros Hl. rewrite handle_uplink_hup.
  destruct (hup_split s id w now cl) as [->|(idx & c & x & Hb & Hf & Hc & Hx)]; [reflexivity|].
  rewrite (hup_main s id w now cl idx c x Hb Hf Hc Hx).
  assert (Hn : spec_type (bytes_of w) = None).
  { rewrite spec_type_nth. destruct (blen (bytes_of w) <? 2) eqn:E; [reflexivity|lia]. }
  destruct (pup_link c x (client s) w now) as (_ & _ & _ & Hp). specialize (Hp Hn).
  unfold post_links. rewrite Hp. cbn [fst snd]. unfold out_of, process_connection_events.
  cbn [fst snd i_fwd inc0 i_acks i_sacks i_naks apply_srt_acks apply_srtla_acks apply_naks fold_left].
  rewrite (upd_same c _ _ Hc), (upd_same x _ _ Hx).
  destruct s as [[ls tr] xs0 k0]; cbn [core links trk xs client].
  destruct (existsb ovf ls); destruct k0; reflexivity.
Qed.

Lemma upd_rel_at {A} (c1 : A) : forall l idx i0 c, nth_error l idx = Some c ->
  Forall2i (fun j a b => (j = (i0 + idx)%nat /\ a = c /\ b = c1) \/ (j <> (i0 + idx)%nat /\ b = a)) i0 l (upd idx (fun _ => c1) l).
Proof.
  induction l as [|y l IH]; intros [|idx] i0 c H; cbn in *; try discriminate.
  - inversion H; subst. constructor; [left; repeat split; lia|].
    assert (G : forall l' m, (i0 < m)%nat ->
      Forall2i (fun j a b => (j = (i0 + 0)%nat /\ a = c /\ b = c1) \/ (j <> (i0 + 0)%nat /\ b = a)) m l' l').
    { induction l'; intros; constructor; [right; split; [lia|reflexivity]|apply IHl'; lia]. }
    apply G. lia.
  - constructor; [right; split; [lia|reflexivity]|].
    eapply Forall2i_impl; [|apply (IH idx (S i0) c H)]. cbn.
    intros k a b [(H1 & H2 & H3)|[H1 H2]]; [left|right]; repeat split; auto; lia.
Qed.

(** how each link of the pre-state relates to the link at the same index afterwards *)
Lemma post_links_rel s idx c x w now cl : nth_error (links (core s)) idx = Some c ->
  let r := pup c x (client s) w now in
  Forall2i (fun j a b' => exists b, ((j = idx /\ a = c /\ b = fst (fst (fst r))) \/ (j <> idx /\ b = a)) /\
                                    evrel now (i_sacks (snd (fst r))) b b')
           0 (links (core s)) (post_links s idx c x w now cl).
Proof.
  intros Hc. cbv zeta. unfold post_links.
  pose proof (events_rel (upd idx (fun _ => fst (fst (fst (pup c x (client s) w now)))) (links (core s)))
                (trk (core s)) idx cl now (snd (fst (pup c x (client s) w now))) (client s)) as [H _].
  eapply Forall2i_impl; [|eapply Forall2i_Forall2_comp;
    [apply (upd_rel_at (fst (fst (fst (pup c x (client s) w now)))) (links (core s)) idx 0 c Hc)|exact H]].
  cbn. intros j a b' (b & Hb & He). exists b. split; [|exact He]. exact Hb.
Qed.

Lemma Forall2i_nth {A B} (R : nat -> A -> B -> Prop) : forall l l' i, Forall2i R i l l' ->
  forall j x, nth_error l j = Some x -> exists y, nth_error l' j = Some y /\ R (i + j)%nat x y.
Proof.
  induction 1 as [|i a b l l' Hab _ IH]; intros [|j] z Hz; cbn in *; try discriminate.
  - inversion Hz; subst. exists b. rewrite Nat.add_0_r. auto.
  - destruct (IH j z Hz) as (y & Hy & Hr). exists y. split; [exact Hy|]. replace (i + S j)%nat with (S i + j)%nat by lia. exact Hr.
Qed.

Lemma Forall2i_map_eq {A B C} (R : nat -> A -> B -> Prop) (f : A -> C) (g : B -> C) i l l' :
  Forall2i R i l l' -> (forall j a b, R j a b -> f a = g b) -> map f l = map g l'.
Proof. intros H HR. induction H; cbn; [reflexivity|]. f_equal; eauto. Qed.

Lemma Forall2i_Forall_r {A B} (R : nat -> A -> B -> Prop) (P : A -> Prop) (Q : B -> Prop) i l l' :
  Forall2i R i l l' -> (forall j a b, R j a b -> P a -> Q b) -> Forall P l -> Forall Q l'.
Proof. intros H HR. induction H; intros F; [constructor|]. inversion F; subst. constructor; eauto. Qed.

Lemma post_links_cids s idx c x w now cl : nth_error (links (core s)) idx = Some c ->
  map cid (post_links s idx c x w now cl) = map cid (links (core s)).
Proof.
  intros Hc. symmetry. eapply Forall2i_map_eq; [apply (post_links_rel s idx c x w now cl Hc)|].
  cbn. intros j a b' (b & Hb & He). destruct He as (-> & _).
  destruct Hb as [(-> & -> & ->)|[_ ->]]; [|reflexivity].
  destruct (pup_link c x (client s) w now) as (Hcid & _). symmetry. exact Hcid.
Qed.

Lemma post_links_winv s idx c x w now cl : nth_error (links (core s)) idx = Some c ->
  Forall WInv (links (core s)) -> Forall WInv (post_links s idx c x w now cl).
Proof.
  intros Hc. eapply Forall2i_Forall_r; [apply (post_links_rel s idx c x w now cl Hc)|].
  cbn. intros j a b' (b & Hb & He) Ha. destruct He as (_ & _ & _ & _ & _ & He). apply He.
  destruct Hb as [(-> & -> & ->)|[_ ->]]; [|exact Ha].
  destruct (pup_link c x (client s) w now) as (_ & Hw & _). apply Hw. exact Ha.
Qed.

Lemma post_links_length s idx c x w now cl : length (post_links s idx c x w now cl) = length (links (core s)).
Proof.
  unfold post_links.
  pose proof (events_rel (upd idx (fun _ => fst (fst (fst (pup c x (client s) w now)))) (links (core s)))
                (trk (core s)) idx cl now (snd (fst (pup c x (client s) w now))) (client s)) as [H _].
  rewrite (lrel_length _ _ _ _ H). apply upd_length.
Qed.

(** liveness stamp: a typed, non-registration datagram sets last_received = now on its link *)
Theorem uplink_liveness_stamp s id w now cl idx t :
  find_pos id (links (core s)) 0 = Some idx -> (idx < length (xs s))%nat ->
  spec_type (bytes_of w) = Some t -> is_reg t = false ->
  exists c', nth_error (links (core (fst (fst (handle_uplink s id w now cl))))) idx = Some c' /\
             last_recv c' = Some now.
Proof.
  intros Hf Hx Ht Hr. rewrite handle_uplink_hup.
  destruct (find_pos_link _ _ _ Hf) as (c & Hc & _).
  destruct (nth_error (xs s) idx) as [x|] eqn:Ex; [|apply nth_error_None in Ex; lia].
  rewrite (hup_main s id w now cl idx c x (spec_type_nonempty _ _ Ht) Hf Hc Ex). cbn [fst snd core links].
  destruct (Forall2i_nth _ _ _ _ (post_links_rel s idx c x w now cl Hc) idx c Hc) as (c' & Hn & b & Hb & He).
  exists c'. split; [exact Hn|]. destruct He as (_ & -> & _).
  destruct Hb as [(_ & _ & ->)|[Hne _]]; [|cbn in Hne; lia].
  destruct (pup_link c x (client s) w now) as (_ & _ & Hl & _). eapply Hl; eassumption.
Qed.

(** delivery proof: the stamp of link j moves only to [now], and only because an SRTLA ACK
    named a number that was in j's packet log and has been retired from it (earned), or —
    on the arrival link — a keepalive echo was accepted while the link awaited one *)
Definition proof_rel (s : ustate) (id : Z) (w : wd) (now : Z) (j : nat) (c c' : link) : Prop :=
  let d := bytes_of w in
  proof c' = proof c \/
  (proof c' = now /\
   ((spec_type d = Some SRTLA_TYPE_ACK /\
     exists a, In a (spec_parse_srtla_ack d) /\ log_mem (to_i32 a) (log c) = true /\ log_mem (to_i32 a) (log c') = false) \/
    (spec_type d = Some SRTLA_TYPE_KEEPALIVE /\ find_pos id (links (core s)) 0 = Some j /\
     (exists x, nth_error (xs s) j = Some x /\ waiting x = true) /\ ka_accepts d now = true))).

Theorem uplink_proof_only_earned s id w now cl :
  Forall2i (proof_rel s id w now) 0 (links (core s)) (links (core (fst (fst (handle_uplink s id w now cl))))).
Proof.
  rewrite handle_uplink_hup.
  destruct (hup_split s id w now cl) as [->|(idx & c & x & Hb & Hf & Hc & Hx)].
  { cbn [fst]. apply Forall2i_refl. intros; left; reflexivity. }
  rewrite (hup_main s id w now cl idx c x Hb Hf Hc Hx). cbn [fst snd core links].
  eapply Forall2i_impl; [|apply (post_links_rel s idx c x w now cl Hc)].
  cbn beta. intros j a b' (b & Hab & He).
  destruct He as (_ & _ & _ & _ & Hp & _).
  pose proof (pup_proof_cases c x (client s) w now) as Hcases. cbv zeta in Hcases.
  unfold proof_rel. cbv zeta.
  destruct Hab as [(-> & -> & ->)|[Hne ->]].
  - destruct Hcases as [(Hs & Hpc)|[(Hs & Hpc & Ht & Hw & Hka)|(Ht & Hs & Hpc & Hl)]].
    + rewrite Hs in Hp. destruct Hp as [Hp|(_ & a0 & [] & _)]. left; congruence.
    + rewrite Hs in Hp. destruct Hp as [Hp|(_ & a0 & [] & _)].
      right. split; [congruence|]. right. repeat split; eauto.
    + rewrite Hs in Hp. destruct Hp as [Hp|(Hp & a0 & Ha & Hm1 & Hm2)]; [left; congruence|].
      right. split; [exact Hp|]. left. split; [exact Ht|]. exists a0. rewrite <- Hl. auto.
  - destruct Hp as [Hp|(Hp & a0 & Ha & Hm1 & Hm2)]; [left; exact Hp|].
    destruct Hcases as [(Hs & _)|[(Hs & _)|(Ht & Hs & _)]]; try (rewrite Hs in Ha; destruct Ha).
    right. split; [exact Hp|]. left. split; [exact Ht|]. exists a0. rewrite <- Hs. auto.
Qed.

(** the step as a whole keeps ids, lengths and the window invariant, and never panics *)
Definition SInv (ids : list Z) (s : ustate) : Prop :=
  map cid (links (core s)) = ids /\ length (xs s) = length (links (core s)) /\ Forall WInv (links (core s)).

Theorem uplink_preserves s id w now cl ids : SInv ids s ->
  SInv ids (fst (fst (handle_uplink s id w now cl))) /\
  client (fst (fst (handle_uplink s id w now cl))) = client s /\
  snd (handle_uplink s id w now cl) = false.
Proof.
  intros (Hids & Hlen & Hw). rewrite handle_uplink_hup.
  destruct (hup_split s id w now cl) as [->|(idx & c & x & Hb & Hf & Hc & Hx)].
  { cbn [fst snd]. repeat split; auto. }
  rewrite (hup_main s id w now cl idx c x Hb Hf Hc Hx). cbn [fst snd core links xs client].
  split; [|split; [reflexivity|]].
  - unfold SInv. cbn [core links xs]. split; [rewrite post_links_cids; auto|]. split; [rewrite upd_length, post_links_length; exact Hlen|].
    apply post_links_winv; auto.
  - rewrite (winv_no_ovf (post_links s idx c x w now cl)); [apply andb_false_r|]. apply post_links_winv; auto.
Qed.
