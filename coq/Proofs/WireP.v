(** WireP.v — proofs about the codec model (totality, NAK bound, structural spec,
    round trips).  Used by Props/C15.v (and later C09/C14). *)
From Srtla Require Import Base Constants Wire WireSpec.
From Coq Require Import ZifyBool.
Ltac Zify.zify_post_hook ::= Z.div_mod_to_equations.

Definition total {A} (r : res A) : Prop := exists v, r = Ok v.

Lemma get_ok b i : 0 <= i < blen b -> get b i = Ok (nth (Z.to_nat i) b 0).
Proof.
  intros H. unfold get.
  destruct (0 <=? i) eqn:E1; destruct (i <? blen b) eqn:E2; simpl; try reflexivity; lia.
Qed.


Lemma be32_at_ok b i : 0 <= i -> i + 3 < blen b ->
  be32_at b i = Ok (be32 (nthz b i) (nthz b (i+1)) (nthz b (i+2)) (nthz b (i+3))).
Proof.
  intros H0 H1. unfold be32_at. rewrite !get_ok by lia. reflexivity.
Qed.

Lemma be16_at_ok b i : 0 <= i -> i + 1 < blen b ->
  be16_at b i = Ok (be16 (nthz b i) (nthz b (i+1))).
Proof.
  intros H0 H1. unfold be16_at. rewrite !get_ok by lia. reflexivity.
Qed.

Lemma get_packet_type_ok b :
  get_packet_type b = Ok (if blen b <? 2 then None else Some (be16 (nthz b 0) (nthz b 1))).
Proof.
  unfold get_packet_type. destruct (blen b <? 2) eqn:E; [reflexivity|].
  rewrite !get_ok by lia. reflexivity.
Qed.

(** ---------- totality of the fixed-index decoders ---------- *)
Lemma total_get_packet_type b : total (get_packet_type b).
Proof. rewrite get_packet_type_ok. eexists; reflexivity. Qed.

Lemma total_get_srt_sequence_number b : total (get_srt_sequence_number b).
Proof.
  unfold get_srt_sequence_number. destruct (blen b <? 4) eqn:E; [eexists; reflexivity|].
  rewrite be32_at_ok by lia. cbn [bind].
  destruct (_ <? two31); eexists; reflexivity.
Qed.

Lemma total_is_srt_data_retransmit b : total (is_srt_data_retransmit b).
Proof.
  unfold is_srt_data_retransmit. destruct (8 <=? blen b) eqn:E; [|eexists; reflexivity].
  rewrite get_ok by lia. cbn [bind]. destruct (_ <? 128); [|eexists; reflexivity].
  rewrite get_ok by lia. eexists; reflexivity.
Qed.

Lemma total_type_is b t : total (type_is b t).
Proof. unfold type_is. rewrite get_packet_type_ok. eexists; reflexivity. Qed.

Lemma total_is_srtla_reg1 b : total (is_srtla_reg1 b).
Proof. unfold is_srtla_reg1. destruct (_ =? _); [apply total_type_is|eexists; reflexivity]. Qed.
Lemma total_is_srtla_reg2 b : total (is_srtla_reg2 b).
Proof. unfold is_srtla_reg2. destruct (_ =? _); [apply total_type_is|eexists; reflexivity]. Qed.
Lemma total_is_srtla_reg3 b : total (is_srtla_reg3 b).
Proof. unfold is_srtla_reg3. destruct (_ =? _); [apply total_type_is|eexists; reflexivity]. Qed.

Lemma ts_loop_total n : forall b i ts, 0 <= i -> 2 + i + Z.of_nat n <= blen b -> total (ts_loop n b i ts).
Proof.
  induction n as [|n IH]; intros b i ts Hi Hl; cbn [ts_loop]; [eexists; reflexivity|].
  rewrite get_ok by lia. cbn [bind]. apply IH; lia.
Qed.

Lemma total_extract_keepalive_timestamp b : total (extract_keepalive_timestamp b).
Proof.
  unfold extract_keepalive_timestamp. destruct (blen b <? 10) eqn:E; [eexists; reflexivity|].
  rewrite get_packet_type_ok. cbn [bind].
  destruct (blen b <? 2); [eexists; reflexivity|].
  destruct (_ =? SRTLA_TYPE_KEEPALIVE); [|eexists; reflexivity].
  destruct (ts_loop_total 8 b 0 0) as [v Hv]; [lia|simpl; lia|]. rewrite Hv. eexists; reflexivity.
Qed.

Lemma SRTLA_KEEPALIVE_EXT_LEN_ge : 38 <= SRTLA_KEEPALIVE_EXT_LEN.
Proof. unfold SRTLA_KEEPALIVE_EXT_LEN. lia. Qed.

Lemma total_extract_keepalive_conn_info b : total (extract_keepalive_conn_info b).
Proof.
  pose proof SRTLA_KEEPALIVE_EXT_LEN_ge as HL.
  unfold extract_keepalive_conn_info.
  destruct (blen b <? SRTLA_KEEPALIVE_EXT_LEN) eqn:E; [eexists; reflexivity|].
  rewrite get_packet_type_ok. cbn [bind].
  destruct (blen b <? 2); [eexists; reflexivity|].
  destruct (negb _); [eexists; reflexivity|].
  rewrite be16_at_ok by lia. cbn [bind]. destruct (negb _); [eexists; reflexivity|].
  rewrite be16_at_ok by lia. cbn [bind]. destruct (negb _); [eexists; reflexivity|].
  rewrite !be32_at_ok by lia. cbn [bind]. eexists; reflexivity.
Qed.

Lemma total_parse_srt_ack b : total (parse_srt_ack b).
Proof.
  unfold parse_srt_ack. destruct (blen b <? 20) eqn:E; [eexists; reflexivity|].
  rewrite get_packet_type_ok. cbn [bind].
  destruct (blen b <? 2); [eexists; reflexivity|].
  destruct (_ =? SRT_TYPE_ACK); [|eexists; reflexivity].
  rewrite be32_at_ok by lia. eexists; reflexivity.
Qed.

(** ---------- loops: totality ---------- *)
Lemma nak_loop_total fuel : forall b i out,
  0 <= i <= blen b -> blen b - i < 4 * Z.of_nat fuel -> total (nak_loop fuel b i out).
Proof.
  induction fuel as [|f IH]; intros b i out Hi Hf; [lia|].
  cbn [nak_loop]. destruct (i + 3 <? blen b) eqn:E; [|eexists; reflexivity].
  rewrite be32_at_ok by lia. cbn [bind].
  destruct (two31 <=? _).
  - destruct (blen b <=? i + 4 + 3) eqn:E2; [eexists; reflexivity|].
    rewrite be32_at_ok by lia. cbn [bind]. apply IH; lia.
  - apply IH; lia.
Qed.

Lemma ack_loop_total fuel : forall b i out,
  0 <= i <= blen b -> blen b - i < 4 * Z.of_nat fuel -> total (ack_loop fuel b i out).
Proof.
  induction fuel as [|f IH]; intros b i out Hi Hf; [lia|].
  cbn [ack_loop]. destruct (i + 3 <? blen b) eqn:E; [|eexists; reflexivity].
  rewrite be32_at_ok by lia. cbn [bind]. apply IH; lia.
Qed.

Lemma total_parse_srt_nak b : total (parse_srt_nak b).
Proof.
  unfold parse_srt_nak. destruct (blen b <? 8) eqn:E; [eexists; reflexivity|].
  rewrite get_packet_type_ok. cbn [bind]. destruct (negb _); [eexists; reflexivity|].
  apply nak_loop_total; unfold blen in *; lia.
Qed.

Lemma total_parse_srtla_ack b : total (parse_srtla_ack b).
Proof.
  unfold parse_srtla_ack. destruct (blen b <? 8) eqn:E; [eexists; reflexivity|].
  rewrite get_packet_type_ok. cbn [bind]. destruct (negb _); [eexists; reflexivity|].
  apply ack_loop_total; unfold blen in *; lia.
Qed.

(** ---------- NAK bound ---------- *)
Lemma blen_app {A} (a b : list A) : blen (a ++ b) = blen a + blen b.
Proof. unfold blen. rewrite app_length. lia. Qed.
Lemma blen_cons {A} (x : A) l : blen (x :: l) = 1 + blen l.
Proof. unfold blen. cbn [length]. lia. Qed.
Lemma blen_nil {A} : blen (@nil A) = 0. Proof. reflexivity. Qed.
Lemma blen_nonneg {A} (l : list A) : 0 <= blen l. Proof. unfold blen. lia. Qed.

Lemma nak_expand_len fuel : forall s e out,
  blen out <= blen (nak_expand fuel s e out) <= blen out + Z.of_nat fuel.
Proof.
  induction fuel as [|f IH]; intros s e out; cbn [nak_expand]; [lia|].
  destruct (s <=? e); [|lia].
  specialize (IH (wrap_u32 (s + 1)) e (out ++ [s])). rewrite blen_app, blen_cons, blen_nil in IH. lia.
Qed.

Lemma nak_expand_cap s e out :
  let out' := nak_expand (Z.to_nat (NAK_RANGE_CAP - blen out)) s e out in
  blen out <= blen out' /\ (blen out' <= NAK_RANGE_CAP \/ blen out' = blen out).
Proof.
  cbn zeta. pose proof (nak_expand_len (Z.to_nat (NAK_RANGE_CAP - blen out)) s e out) as H.
  pose proof (blen_nonneg out). unfold NAK_RANGE_CAP in *. lia.
Qed.

Lemma nak_loop_bound fuel : forall b i out v,
  4 <= i <= blen b -> 4 * (blen out - NAK_RANGE_CAP) <= i - 4 ->
  nak_loop fuel b i out = Ok v ->
  4 * (blen v - NAK_RANGE_CAP) <= blen b - 4.
Proof.
  induction fuel as [|f IH]; intros b i out v Hi Hinv Hrun; [discriminate|].
  cbn [nak_loop] in Hrun. destruct (i + 3 <? blen b) eqn:E.
  2:{ inversion Hrun; subst. lia. }
  rewrite be32_at_ok in Hrun by lia. cbn [bind] in Hrun.
  destruct (two31 <=? _).
  - destruct (blen b <=? i + 4 + 3) eqn:E2.
    { inversion Hrun; subst. lia. }
    rewrite be32_at_ok in Hrun by lia. cbn [bind] in Hrun.
    eapply IH in Hrun; [exact Hrun|lia|].
    match goal with |- context [nak_expand ?n ?s ?e out] =>
      pose proof (nak_expand_cap s e out) as Hc end.
    cbn zeta in Hc. unfold NAK_RANGE_CAP in *. lia.
  - eapply IH in Hrun; [exact Hrun|lia|].
    rewrite blen_app, blen_cons, blen_nil. lia.
Qed.

Theorem parse_srt_nak_bound b v :
  parse_srt_nak b = Ok v -> blen v <= 1000 + (blen b - 4) / 4 /\ (blen b < 8 -> v = []).
Proof.
  pose proof (blen_nonneg b) as Hnn.
  unfold parse_srt_nak. destruct (blen b <? 8) eqn:E.
  { intros H; inversion H; subst. rewrite blen_nil. split; [lia|reflexivity]. }
  rewrite get_packet_type_ok. cbn [bind]. destruct (negb _).
  { intros H; inversion H; subst. rewrite blen_nil. split; [lia|lia]. }
  intros H. apply nak_loop_bound in H; [|lia|rewrite blen_nil; unfold NAK_RANGE_CAP; lia].
  unfold NAK_RANGE_CAP in H. split; lia.
Qed.

Lemma skipn_nth {A} (d : A) : forall n (l : list A), (n < length l)%nat ->
  skipn n l = nth n l d :: skipn (S n) l.
Proof.
  induction n as [|n IH]; intros [|x l] H; cbn in *; try lia; [reflexivity|].
  apply IH. lia.
Qed.

Lemma skipn4 b i : 0 <= i -> i + 3 < blen b ->
  skipn (Z.to_nat i) b =
  nthz b i :: nthz b (i+1) :: nthz b (i+2) :: nthz b (i+3) :: skipn (Z.to_nat (i + 4)) b.
Proof.
  intros H0 H1. unfold nthz, blen in *.
  replace (Z.to_nat (i+1)) with (S (Z.to_nat i)) by lia.
  replace (Z.to_nat (i+2)) with (S (S (Z.to_nat i))) by lia.
  replace (Z.to_nat (i+3)) with (S (S (S (Z.to_nat i)))) by lia.
  replace (Z.to_nat (i+4)) with (S (S (S (S (Z.to_nat i))))) by lia.
  rewrite (skipn_nth 0 (Z.to_nat i)) by lia. f_equal.
  rewrite (skipn_nth 0 (S (Z.to_nat i))) by lia. f_equal.
  rewrite (skipn_nth 0 (S (S (Z.to_nat i)))) by lia. f_equal.
  rewrite (skipn_nth 0 (S (S (S (Z.to_nat i))))) by lia. reflexivity.
Qed.

Lemma chunks4_short l : blen l < 4 -> chunks4 l = [].
Proof.
  destruct l as [|a [|b [|c [|d t]]]]; intros H; try reflexivity.
  rewrite !blen_cons in H. pose proof (blen_nonneg t). lia.
Qed.

Lemma blen_skipn {A} n (l : list A) : blen (skipn n l) = Z.max 0 (blen l - Z.of_nat n).
Proof. unfold blen. rewrite skipn_length. lia. Qed.

Lemma ack_loop_spec fuel : forall b i out,
  0 <= i <= blen b -> blen b - i < 4 * Z.of_nat fuel ->
  ack_loop fuel b i out = Ok (out ++ chunks4 (skipn (Z.to_nat i) b)).
Proof.
  induction fuel as [|f IH]; intros b i out Hi Hf; [lia|].
  cbn [ack_loop]. destruct (i + 3 <? blen b) eqn:E.
  - rewrite be32_at_ok by lia. cbn [bind]. rewrite IH by lia.
    rewrite (skipn4 b i) by lia. cbn [chunks4]. rewrite <- app_assoc. reflexivity.
  - rewrite chunks4_short; [rewrite app_nil_r; reflexivity|].
    rewrite blen_skipn. lia.
Qed.

Lemma nak_loop_spec fuel : forall b i out,
  0 <= i <= blen b -> blen b - i < 4 * Z.of_nat fuel ->
  nak_loop fuel b i out = Ok (nak_words (chunks4 (skipn (Z.to_nat i) b)) out).
Proof.
  induction fuel as [|f IH]; intros b i out Hi Hf; [lia|].
  cbn [nak_loop]. destruct (i + 3 <? blen b) eqn:E.
  - rewrite be32_at_ok by lia. cbn [bind].
    rewrite (skipn4 b i) by lia. cbn [chunks4 nak_words].
    destruct (two31 <=? _) eqn:Er.
    + destruct (blen b <=? i + 4 + 3) eqn:E2.
      * rewrite chunks4_short; [reflexivity|]. rewrite blen_skipn. lia.
      * rewrite be32_at_ok by lia. cbn [bind].
        rewrite (skipn4 b (i+4)) by lia. cbn [chunks4].
        rewrite IH by lia. replace (i + 4 + 4) with (i + 4 + 4) by lia.
        replace (i + 4 + 1) with (i + 5) by lia. reflexivity.
    + rewrite IH by lia. reflexivity.
  - rewrite chunks4_short; [reflexivity|]. rewrite blen_skipn. lia.
Qed.

Lemma spec_type_nth b : spec_type b = if blen b <? 2 then None else Some (be16 (nthz b 0) (nthz b 1)).
Proof.
  destruct b as [|a [|c t]]; try reflexivity.
  rewrite !blen_cons. pose proof (blen_nonneg t).
  destruct (_ <? 2) eqn:E; [lia|reflexivity].
Qed.

Theorem parse_srtla_ack_spec b : parse_srtla_ack b = Ok (spec_parse_srtla_ack b).
Proof.
  unfold parse_srtla_ack, spec_parse_srtla_ack. rewrite spec_type_nth.
  destruct (blen b <? 8) eqn:E.
  { replace (8 <=? blen b) with false by lia. reflexivity. }
  replace (8 <=? blen b) with true by lia.
  rewrite get_packet_type_ok. cbn [bind andb].
  destruct (ozeqb _ _); cbn [negb]; [|reflexivity].
  rewrite ack_loop_spec by (unfold blen in *; lia). reflexivity.
Qed.

Theorem parse_srt_nak_spec b : parse_srt_nak b = Ok (spec_parse_srt_nak b).
Proof.
  unfold parse_srt_nak, spec_parse_srt_nak. rewrite spec_type_nth.
  destruct (blen b <? 8) eqn:E.
  { replace (8 <=? blen b) with false by lia. reflexivity. }
  replace (8 <=? blen b) with true by lia.
  rewrite get_packet_type_ok. cbn [bind andb].
  destruct (ozeqb _ _); cbn [negb]; [|reflexivity].
  rewrite nak_loop_spec by (unfold blen in *; lia). reflexivity.
Qed.

Theorem parse_srt_ack_spec b : parse_srt_ack b = Ok (spec_parse_srt_ack b).
Proof.
  unfold parse_srt_ack, spec_parse_srt_ack. rewrite spec_type_nth.
  destruct (blen b <? 20) eqn:E.
  { replace (20 <=? blen b) with false by lia. reflexivity. }
  replace (20 <=? blen b) with true by lia.
  rewrite get_packet_type_ok. cbn [bind andb].
  destruct (blen b <? 2) eqn:E2; [lia|]. cbn [ozeqb opt_eqb].
  destruct (_ =? SRT_TYPE_ACK); [|reflexivity].
  rewrite be32_at_ok by lia. pose proof (skipn4 b 16) as H.
  change (Z.to_nat 16) with 16%nat in H. rewrite H by lia. reflexivity.
Qed.

Theorem get_srt_sequence_number_spec b : get_srt_sequence_number b = Ok (spec_seq b).
Proof.
  unfold get_srt_sequence_number, spec_seq. destruct (blen b <? 4) eqn:E.
  { rewrite chunks4_short by lia. reflexivity. }
  rewrite be32_at_ok by lia. cbn [bind].
  pose proof (skipn4 b 0) as H. cbn [Z.to_nat skipn] in H. rewrite H by lia.
  cbn [chunks4]. destruct (_ <? two31); reflexivity.
Qed.

Theorem is_srt_data_retransmit_spec b : is_srt_data_retransmit b = Ok (spec_retransmit b).
Proof.
  unfold is_srt_data_retransmit, spec_retransmit. destruct (8 <=? blen b) eqn:E; [|reflexivity].
  rewrite get_ok by lia. cbn [bind andb]. fold (nthz b 0). destruct (_ <? 128); [|reflexivity].
  rewrite get_ok by lia. reflexivity.
Qed.

(** ---------- byte-level arithmetic ---------- *)
Lemma be32_be_bytes x : 0 <= x < two32 ->
  match be_bytes 4 x with [a; b; c; d] => be32 a b c d = x | _ => False end.
Proof.
  intros H. unfold be_bytes, be32, two32 in *.
  change (256 ^ Z.of_nat 3) with 16777216. change (256 ^ Z.of_nat 2) with 65536.
  change (256 ^ Z.of_nat 1) with 256. change (256 ^ Z.of_nat 0) with 1. lia.
Qed.

Lemma be16_be_bytes x : 0 <= x < 65536 ->
  match be_bytes 2 x with [a; b] => be16 a b = x | _ => False end.
Proof.
  intros H. unfold be_bytes, be16.
  change (256 ^ Z.of_nat 1) with 256. change (256 ^ Z.of_nat 0) with 1. lia.
Qed.

Lemma be_bytes_len n x : length (be_bytes n x) = n.
Proof. induction n; cbn [be_bytes length]; congruence. Qed.

Lemma be_bytes_ok n x : bytes_ok (be_bytes n x).
Proof.
  induction n; cbn [be_bytes]; constructor; [|assumption].
  apply Z.mod_pos_bound. lia.
Qed.

Lemma chunks4_concat l : Forall (fun x => 0 <= x < two32) l ->
  chunks4 (concat (map (be_bytes 4) l)) = l.
Proof.
  induction 1 as [|x l Hx Hl IH]; [reflexivity|].
  cbn [map concat]. pose proof (be32_be_bytes x Hx) as Hb.
  destruct (be_bytes 4 x) as [|a [|b [|c [|d [|? ?]]]]] eqn:E; try contradiction.
  cbn [app chunks4]. rewrite IH, Hb. reflexivity.
Qed.

(** ---------- round trips (builders decode back) ---------- *)
Lemma type_const_range :
  0 <= SRTLA_TYPE_REG1 < 65536 /\ 0 <= SRTLA_TYPE_REG2 < 65536 /\ 0 <= SRTLA_TYPE_REG3 < 65536 /\
  0 <= SRTLA_TYPE_ACK < 65536 /\ 0 <= SRTLA_TYPE_KEEPALIVE < 65536 /\
  0 <= SRTLA_KEEPALIVE_MAGIC < 65536 /\ 0 <= SRTLA_KEEPALIVE_EXT_VERSION < 65536.
Proof. cbv. repeat split; congruence. Qed.

Theorem ack_roundtrip l : Forall (fun x => 0 <= x < two32) l ->
  parse_srtla_ack (create_ack_packet l) = Ok l.
Proof.
  intros Hl. rewrite parse_srtla_ack_spec. f_equal.
  unfold spec_parse_srtla_ack, create_ack_packet.
  destruct type_const_range as (_ & _ & _ & Hack & _).
  pose proof (be16_be_bytes SRTLA_TYPE_ACK Hack) as Hb.
  destruct (be_bytes 2 SRTLA_TYPE_ACK) as [|a [|c [|? ?]]] eqn:E; try contradiction.
  cbn [app spec_type]. rewrite Hb. cbn [skipn].
  rewrite chunks4_concat by assumption.
  unfold ozeqb, opt_eqb. rewrite Z.eqb_refl, andb_true_r.
  destruct l as [|x l']; [reflexivity|].
  destruct (8 <=? _) eqn:E8; [reflexivity|].
  exfalso. rewrite !blen_cons in E8. cbn [map concat] in E8. rewrite blen_app in E8.
  unfold blen at 1 in E8. rewrite be_bytes_len in E8.
  pose proof (blen_nonneg (concat (map (be_bytes 4) l'))). lia.
Qed.

Definition id_ok (id : list Z) : Prop := length id = 256%nat /\ bytes_ok id.

Theorem reg1_layout id : id_ok id ->
  blen (create_reg1_packet id) = 258 /\
  is_srtla_reg1 (create_reg1_packet id) = Ok true /\
  skipn 2 (create_reg1_packet id) = id /\
  firstn 2 (create_reg1_packet id) = [146; 0].
Proof.
  intros [Hlen Hb]. unfold create_reg1_packet.
  assert (HT : be_bytes 2 SRTLA_TYPE_REG1 = [146; 0]) by reflexivity.
  rewrite HT. cbn [app skipn firstn]. repeat split.
  - rewrite !blen_cons. unfold blen. rewrite Hlen. reflexivity.
  - unfold is_srtla_reg1. rewrite !blen_cons. unfold blen at 1. rewrite Hlen.
    change (1 + (1 + Z.of_nat 256) =? SRTLA_TYPE_REG1_LEN) with true. cbn iota.
    unfold type_is. rewrite get_packet_type_ok. rewrite !blen_cons.
    pose proof (blen_nonneg id). destruct (_ <? 2) eqn:E; [lia|]. reflexivity.
Qed.

Theorem reg2_layout id : id_ok id ->
  blen (create_reg2_packet id) = 258 /\
  is_srtla_reg2 (create_reg2_packet id) = Ok true /\
  skipn 2 (create_reg2_packet id) = id /\
  firstn 2 (create_reg2_packet id) = [146; 1].
Proof.
  intros [Hlen Hb]. unfold create_reg2_packet.
  assert (HT : be_bytes 2 SRTLA_TYPE_REG2 = [146; 1]) by reflexivity.
  rewrite HT. cbn [app skipn firstn]. repeat split.
  - rewrite !blen_cons. unfold blen. rewrite Hlen. reflexivity.
  - unfold is_srtla_reg2. rewrite !blen_cons. unfold blen at 1. rewrite Hlen.
    change (1 + (1 + Z.of_nat 256) =? SRTLA_TYPE_REG2_LEN) with true. cbn iota.
    unfold type_is. rewrite get_packet_type_ok. rewrite !blen_cons.
    pose proof (blen_nonneg id). destruct (_ <? 2) eqn:E; [lia|]. reflexivity.
Qed.

(** ---------- keepalive round trips ---------- *)
Lemma be_bytes8 x : 0 <= x < two64 ->
  exists n0 n1 n2 n3 n4 n5 n6 n7,
    be_bytes 8 x = [n0; n1; n2; n3; n4; n5; n6; n7] /\
    bytes_ok [n0; n1; n2; n3; n4; n5; n6; n7] /\
    ((((((n0 * 256 + n1) * 256 + n2) * 256 + n3) * 256 + n4) * 256 + n5) * 256 + n6) * 256 + n7 = x.
Proof.
  intros H. do 8 eexists. split; [reflexivity|]. split; [apply (be_bytes_ok 8 x)|].
  unfold two64 in H.
  change (256 ^ Z.of_nat 7) with 72057594037927936. change (256 ^ Z.of_nat 6) with 281474976710656.
  change (256 ^ Z.of_nat 5) with 1099511627776. change (256 ^ Z.of_nat 4) with 4294967296.
  change (256 ^ Z.of_nat 3) with 16777216. change (256 ^ Z.of_nat 2) with 65536.
  change (256 ^ Z.of_nat 1) with 256. change (256 ^ Z.of_nat 0) with 1. lia.
Qed.

Lemma be_bytes4 x : 0 <= x < two32 ->
  exists a b c d, be_bytes 4 x = [a; b; c; d] /\ bytes_ok [a; b; c; d] /\ be32 a b c d = x.
Proof.
  intros H. pose proof (be32_be_bytes x H) as Hb. pose proof (be_bytes_ok 4 x) as Ho.
  destruct (be_bytes 4 x) as [|a [|b [|c [|d [|? ?]]]]]; try contradiction.
  exists a, b, c, d. auto.
Qed.

Lemma ts8 n0 n1 n2 n3 n4 n5 n6 n7 pre rest :
  bytes_ok [n0; n1; n2; n3; n4; n5; n6; n7] -> length pre = 2%nat ->
  ts_loop 8 (pre ++ [n0; n1; n2; n3; n4; n5; n6; n7] ++ rest) 0 0 =
  Ok (((((((n0 * 256 + n1) * 256 + n2) * 256 + n3) * 256 + n4) * 256 + n5) * 256 + n6) * 256 + n7).
Proof.
  intros Hb Hp. destruct pre as [|p0 [|p1 [|? ?]]]; try discriminate.
  unfold bytes_ok in Hb. repeat match goal with H : Forall _ (_ :: _) |- _ => inversion H; clear H; subst end.
  cbn [app ts_loop]. unfold get. rewrite !blen_cons. pose proof (blen_nonneg rest) as Hr.
  repeat (match goal with |- context [(?a <=? ?b) && (?c <? ?d)] =>
            replace ((a <=? b) && (c <? d)) with true by lia end; cbn [bind]).
  repeat match goal with |- context [nth (Z.to_nat ?e) ?l 0] =>
    let v := eval vm_compute in (Z.to_nat e) in change (Z.to_nat e) with v end.
  cbn [nth]. f_equal. unfold two64.
  rewrite (Z.mod_small (0 * 256)) by lia.
  rewrite (Z.mod_small ((0 * 256 + n0) * 256)) by lia.
  rewrite (Z.mod_small (((0 * 256 + n0) * 256 + n1) * 256)) by lia.
  rewrite (Z.mod_small ((((0 * 256 + n0) * 256 + n1) * 256 + n2) * 256)) by lia.
  rewrite (Z.mod_small (((((0 * 256 + n0) * 256 + n1) * 256 + n2) * 256 + n3) * 256)) by lia.
  rewrite (Z.mod_small ((((((0 * 256 + n0) * 256 + n1) * 256 + n2) * 256 + n3) * 256 + n4) * 256)) by lia.
  rewrite (Z.mod_small (((((((0 * 256 + n0) * 256 + n1) * 256 + n2) * 256 + n3) * 256 + n4) * 256 + n5) * 256)) by lia.
  rewrite (Z.mod_small ((((((((0 * 256 + n0) * 256 + n1) * 256 + n2) * 256 + n3) * 256 + n4) * 256 + n5) * 256 + n6) * 256)) by lia.
  lia.
Qed.

Theorem ka_ts_roundtrip now : 0 <= now < two64 ->
  extract_keepalive_timestamp (create_keepalive_packet now) = Ok (Some now) /\
  blen (create_keepalive_packet now) = 10.
Proof.
  intros H. destruct (be_bytes8 now H) as (n0&n1&n2&n3&n4&n5&n6&n7&E&Hb&Hv).
  unfold create_keepalive_packet. rewrite E. split; [|reflexivity].
  unfold extract_keepalive_timestamp.
  change (be_bytes 2 SRTLA_TYPE_KEEPALIVE) with [144; 0].
  change (blen ([144; 0] ++ [n0; n1; n2; n3; n4; n5; n6; n7]) <? 10) with false. cbn iota.
  rewrite get_packet_type_ok.
  change (blen ([144; 0] ++ [n0; n1; n2; n3; n4; n5; n6; n7]) <? 2) with false. cbn iota beta.
  cbn [bind]. change (nthz _ 0) with 144. change (nthz _ 1) with 0.
  change (be16 144 0 =? SRTLA_TYPE_KEEPALIVE) with true. cbn iota.
  pose proof (ts8 n0 n1 n2 n3 n4 n5 n6 n7 [144; 0] [] Hb eq_refl) as Ht.
  rewrite app_nil_r in Ht. rewrite Ht. cbn [bind]. rewrite Hv. reflexivity.
Qed.

Definition info_ok (info : list Z) : Prop :=
  match info with
  | [cid; w; inf; rtt; nak; br] =>
    0 <= cid < two32 /\ i32_min <= w <= i32_max /\ i32_min <= inf <= i32_max /\
    0 <= rtt < two32 /\ 0 <= nak < two32 /\ 0 <= br < two32
  | _ => False
  end.

Lemma to_of_i32 x : i32_min <= x <= i32_max -> to_i32 (of_i32 x) = x /\ 0 <= of_i32 x < two32.
Proof.
  unfold to_i32, of_i32, i32_min, i32_max, two31, two32. intros H.
  destruct (_ <=? _) eqn:E; lia.
Qed.

Theorem ka_ext_roundtrip info now : info_ok info -> 0 <= now < two64 ->
  let p := create_keepalive_packet_ext info now in
  blen p = 38 /\ firstn 10 p = create_keepalive_packet now /\
  extract_keepalive_timestamp p = Ok (Some now) /\
  extract_keepalive_conn_info p = Ok (Some info).
Proof.
  intros Hi Hn. destruct info as [|cid [|w [|inf [|rtt [|nak [|br [|? ?]]]]]]]; try contradiction.
  destruct Hi as (Hc & Hw & Hf & Hr & Hk & Hb).
  destruct (to_of_i32 w Hw) as [Hw1 Hw2]. destruct (to_of_i32 inf Hf) as [Hf1 Hf2].
  destruct (be_bytes8 now Hn) as (n0&n1&n2&n3&n4&n5&n6&n7&En&Hnb&Hnv).
  destruct (be_bytes4 cid Hc) as (c0&c1&c2&c3&Ec&_&Hcv).
  destruct (be_bytes4 (of_i32 w) Hw2) as (w0&w1&w2&w3&Ew&_&Hwv).
  destruct (be_bytes4 (of_i32 inf) Hf2) as (f0&f1&f2&f3&Ef&_&Hfv).
  destruct (be_bytes4 rtt Hr) as (r0&r1&r2&r3&Er&_&Hrv).
  destruct (be_bytes4 nak Hk) as (k0&k1&k2&k3&Ek&_&Hkv).
  destruct (be_bytes4 br Hb) as (b0&b1&b2&b3&Eb&_&Hbv).
  cbn zeta. unfold create_keepalive_packet_ext, create_keepalive_packet.
  rewrite En, Ec, Ew, Ef, Er, Ek, Eb.
  change (be_bytes 2 SRTLA_TYPE_KEEPALIVE) with [144; 0].
  change (be_bytes 2 SRTLA_KEEPALIVE_MAGIC) with [192; 31].
  change (be_bytes 2 SRTLA_KEEPALIVE_EXT_VERSION) with [0; 1].
  cbn [app]. split; [reflexivity|]. split; [reflexivity|]. split.
  - unfold extract_keepalive_timestamp.
    match goal with |- context [blen ?l <? 10] => change (blen l <? 10) with false end. cbn iota.
    rewrite get_packet_type_ok.
    match goal with |- context [blen ?l <? 2] => change (blen l <? 2) with false end. cbn iota beta.
    cbn [bind]. change (nthz _ 0) with 144. change (nthz _ 1) with 0.
    change (be16 144 0 =? SRTLA_TYPE_KEEPALIVE) with true. cbn iota.
    match goal with |- context [ts_loop 8 (144 :: 0 :: n0 :: n1 :: n2 :: n3 :: n4 :: n5 :: n6 :: n7 :: ?r) 0 0] =>
      pose proof (ts8 n0 n1 n2 n3 n4 n5 n6 n7 [144; 0] r Hnb eq_refl) as Ht end.
    cbn [app] in Ht. rewrite Ht. cbn [bind]. rewrite Hnv. reflexivity.
  - unfold extract_keepalive_conn_info.
    match goal with |- context [blen ?l <? SRTLA_KEEPALIVE_EXT_LEN] =>
      change (blen l <? SRTLA_KEEPALIVE_EXT_LEN) with false end. cbn iota.
    rewrite get_packet_type_ok.
    match goal with |- context [blen ?l <? 2] => change (blen l <? 2) with false end. cbn iota beta.
    cbn [bind]. change (nthz _ 0) with 144. change (nthz _ 1) with 0.
    change (be16 144 0 =? SRTLA_TYPE_KEEPALIVE) with true. cbn [negb].
    rewrite !be16_at_ok by (cbv; intuition congruence).
    rewrite !be32_at_ok by (cbv; intuition congruence).
    cbn [bind]. unfold nthz.
    repeat match goal with |- context [nth (Z.to_nat ?e) ?l 0] =>
      let v := eval vm_compute in (Z.to_nat e) in change (Z.to_nat e) with v end.
    cbn [nth].
    change (be16 192 31 =? SRTLA_KEEPALIVE_MAGIC) with true.
    change (be16 0 1 =? SRTLA_KEEPALIVE_EXT_VERSION) with true. cbn [negb bind].
    rewrite Hcv, Hwv, Hfv, Hrv, Hkv, Hbv, Hw1, Hf1. reflexivity.
Qed.
