(** LeafCfgP.v — DynamicConfig::set_conn_timeout_ms as regenerated from the Rust source on every run
    (coq/Gen/LeafCfg.v) = the hand-written model of Model/Control.v (C18).  See DESIGN.md §12.8.
    [Ord::clamp] panics unless min <= max: the translator emits that condition as
    [leaf_set_conn_timeout_ms_asserts]; the model returns [None] exactly when it fails. *)
From Srtla Require Import Base Constants LeafCfg LeafTac.
From Srtla Require Control.
From Coq Require Import ZifyBool.
Local Open Scope Z_scope.

Lemma leaf_set_conn_timeout_ms_ok c ms :
  Control.set_conn_timeout_ms c ms =
  if leaf_set_conn_timeout_ms_asserts
  then let '(stored, applied) := leaf_set_conn_timeout_ms (Control.c_timeout c) ms in
       Some (Control.store_timeout c stored, applied)
  else None.
Proof. first [ solve [ reflexivity ] | leaf_auto2 ]. Qed.

(** the assertion holds for the constants as they are in the source today *)
Lemma leaf_set_conn_timeout_ms_no_panic : leaf_set_conn_timeout_ms_asserts = true.
Proof. reflexivity. Qed.

(** the same clamp is applied by [DynamicConfig::from_cli] in the model ([cfg_init]); its bounds are the ones
    the translated setter uses *)
Lemma leaf_cfg_init_clamp_ok m nq ns mif stale tmo :
  Control.cfg_init (Control.ICli m nq ns mif stale tmo) =
  if leaf_set_conn_timeout_ms_asserts
  then Some (Control.Cfg m (negb nq) (negb ns) mif stale (snd (leaf_set_conn_timeout_ms 0 tmo)))
  else None.
Proof. first [ solve [ reflexivity ] | leaf_auto2 ]. Qed.
