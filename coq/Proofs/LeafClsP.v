(** LeafClsP.v — the weak-link classifier's delay budget, tier targets and tier cascade (free functions of
    crates/srtla-core/src/selection/classifier.rs) as regenerated from the Rust source on every run
    (coq/Gen/LeafCls.v) = Model/Classifier.v (C17).  See DESIGN.md §12.8 (third batch).

    The generated definitions use the f64 primitives of Model/Select.v ([x as u64], [n as f64]); Model/Classifier.v
    has its own copies ([f64_as_uint], [f64_of_Z]).  The three bridge lemmas below show the two sets equal — for all
    floats for the casts to integers, for [n < 2^63] for the cast of an integer.  [x as u32] is generated as
    [min (u32::MAX) (x as u64)].  The per-link streak / probation counters are updated inline in [classify] (a loop
    over HashMaps), not in a function of their own, so there is no leaf for them. *)
From Coq Require Import List Floats.
From Srtla Require Import Base Constants FConstants LeafCls LeafTac.
From Srtla Require Select Classifier.
From Coq Require Import ZifyBool.
Local Open Scope Z_scope.

Lemma shiftl_pos_nonneg m e : 0 <= Z.shiftl (Zpos m) e.
Proof. apply Z.shiftl_nonneg. lia. Qed.

Lemma cls_as_u64_same x : Classifier.f64_as_u64 x = Select.f64_as_u64 x.
Proof.
  unfold Select.f64_as_u64, Classifier.f64_as_u64, Classifier.f64_as_uint, Select.f64_trunc_Z.
  destruct (Prim2SF x) as [s|s| |s m e]; try reflexivity.
  pose proof (shiftl_pos_nonneg m e). destruct s; unfold sat_u64, clamp, u64_max, two64 in *; lia.
Qed.

Lemma cls_as_u32_same x : Classifier.f64_as_u32 x = Z.min (two32 - 1) (Select.f64_as_u64 x).
Proof.
  unfold Select.f64_as_u64, Classifier.f64_as_u32, Classifier.f64_as_uint, Select.f64_trunc_Z, Classifier.u32_max.
  destruct (Prim2SF x) as [s|s| |s m e]; try reflexivity.
  - destruct s; reflexivity.
  - pose proof (shiftl_pos_nonneg m e). destruct s; unfold sat_u64, clamp, u64_max, two64, two32 in *; lia.
Qed.

Lemma cls_of_Z_same n : n < 9223372036854775808 -> Classifier.f64_of_Z n = Select.f64_of_u64 n.
Proof.
  intros H. unfold Select.f64_of_u64, Select.f64_of_nat63, Classifier.f64_of_Z.
  destruct (n <? 9223372036854775808) eqn:E; [ reflexivity | lia ].
Qed.

(* both sides on the Select primitives, which [leaf_auto2] keeps folded *)
Ltac cls_bridge := rewrite ?cls_as_u64_same, ?cls_as_u32_same, ?cls_of_Z_same by (unfold two32 in *; lia).
Ltac cls_arith := first [ reflexivity | lia | (Z.to_euclidean_division_equations; lia) ].
Ltac cls_auto :=
  cbv beta zeta; intros; leaf_hyps; leaf_unfold2; cbn [negb andb orb]; leaf_split2;
  first [ reflexivity | (exfalso; lia) | cls_arith ].

(** a [u32] argument: 0 <= est < 2^32 *)
Lemma leaf_cls_target_best_delay_ms_ok est :
  0 <= est < two32 -> Classifier.target_best_delay_ms est = leaf_cls_target_best_delay_ms est.
Proof. intros H; unfold Classifier.target_best_delay_ms, leaf_cls_target_best_delay_ms; cls_auto. Qed.
Lemma leaf_cls_target_safe_delay_ms_ok est :
  0 <= est < two32 -> Classifier.target_safe_delay_ms est = leaf_cls_target_safe_delay_ms est.
Proof. intros H; unfold Classifier.target_safe_delay_ms, leaf_cls_target_safe_delay_ms; cls_auto. Qed.
Lemma leaf_cls_target_max_delay_ms_ok est :
  0 <= est < two32 -> Classifier.target_max_delay_ms est = leaf_cls_target_max_delay_ms est.
Proof. intros H; unfold Classifier.target_max_delay_ms, leaf_cls_target_max_delay_ms; cls_auto. Qed.

Lemma leaf_cls_derive_max_delay_budget_ok longest :
  0 <= longest < two32 ->
  Classifier.derive_max_delay_budget longest = leaf_cls_derive_max_delay_budget longest
  /\ leaf_cls_derive_max_delay_budget_asserts = true.
Proof.
  intros H; split; [ | reflexivity ].
  unfold Classifier.derive_max_delay_budget; cls_bridge.
  first [ solve [ reflexivity ] | solve [ unfold leaf_cls_derive_max_delay_budget; cls_auto ] ].
Qed.

Lemma leaf_cls_pick_tier_ok total best safe mx bd sd md :
  Classifier.pick_tier total best safe mx bd sd md = leaf_cls_pick_tier total best safe mx bd sd md.
Proof.
  unfold Classifier.pick_tier; cls_bridge.
  first [ solve [ reflexivity ] | solve [ unfold leaf_cls_pick_tier; cls_auto ] ].
Qed.
